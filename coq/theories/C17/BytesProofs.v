(* C17 proofs: big-endian byte conversions, addresses, hex strings. *)
From CV Require Export C17.Proofs.
From Coq Require Import Lia ZArith List Bool.
Import ListNotations.
Open Scope Z_scope.

Lemma bytes_ok_digits bs : bytes_ok bs <-> digits_ok 256 bs.
Proof. unfold bytes_ok, digits_ok, byte_ok. reflexivity. Qed.

Lemma val_cons b d l : val b (d :: l) = d * b ^ Z.of_nat (length l) + val b l.
Proof. unfold val at 1. rewrite val_from_cons, val_from_lin. ring. Qed.

Lemma val_nil b : val b [] = 0.
Proof. reflexivity. Qed.

Lemma val_repeat0 b j : val b (repeat 0 j) = 0.
Proof. induction j; [reflexivity|]. simpl repeat. rewrite val_cons, IHj. lia. Qed.

Lemma val_repeat0_app b j l : val b (repeat 0 j ++ l) = val b l.
Proof. rewrite val_app, val_repeat0. lia. Qed.

Lemma val_repeat255 j : val 256 (repeat 255 j) = 256 ^ Z.of_nat j - 1.
Proof.
  induction j; [reflexivity|]. simpl repeat. rewrite val_cons, IHj, repeat_length.
  rewrite Nat2Z.inj_succ, Z.pow_succ_r by lia. ring.
Qed.

Lemma compl_length l : length (compl l) = length l.
Proof. apply map_length. Qed.

Lemma val_compl l : val 256 (compl l) = 256 ^ Z.of_nat (length l) - 1 - val 256 l.
Proof.
  induction l as [|d l IH]; [reflexivity|].
  change (compl (d :: l)) with ((255 - d) :: compl l). rewrite !val_cons, IH, compl_length.
  replace (Z.of_nat (length (d :: l))) with (Z.succ (Z.of_nat (length l))) by (simpl length; lia).
  rewrite Z.pow_succ_r by lia. ring.
Qed.

Lemma compl_ok l : bytes_ok l -> bytes_ok (compl l).
Proof.
  unfold bytes_ok, byte_ok. intro H. induction H as [|b l Hb Hl IH].
  - constructor.
  - change (compl (b :: l)) with ((255 - b) :: compl l). constructor; [lia|exact IH].
Qed.

Lemma repeat_ok c j : byte_ok c -> bytes_ok (repeat c j).
Proof. intro H. unfold bytes_ok. induction j; simpl; constructor; assumption. Qed.

Lemma pow256 m : 0 <= m -> 256 ^ m = 2 ^ (8 * m).
Proof. intro H. rewrite Z.pow_mul_r by lia. reflexivity. Qed.

Lemma head_sign b0 l : bytes_ok (b0 :: l) ->
  (b0 >=? 128) = (val 256 (b0 :: l) >=? 128 * 256 ^ Z.of_nat (length l)).
Proof.
  intro H. inversion H as [|? ? Hb Hl]; subst.
  pose proof (val_bound 256 l ltac:(lia) (proj1 (bytes_ok_digits l) Hl)) as Hv.
  rewrite val_cons. unfold byte_ok in Hb.
  destruct (b0 >=? 128) eqn:E.
  - apply Z.geb_le in E. symmetry. apply Z.geb_le. nia.
  - rewrite Z.geb_leb in E. apply Z.leb_gt in E. symmetry. rewrite Z.geb_leb. apply Z.leb_gt. nia.
Qed.

(* two's complement reading of a non-empty byte string *)
Lemma be_to_signed_spec bs : bytes_ok bs -> bs <> [] ->
  be_to_signed bs =
  if val256 bs >=? 128 * 256 ^ (len bs - 1) then val256 bs - 256 ^ len bs else val256 bs.
Proof.
  intros Hok Hne.
  assert (Hgen : forall b0 l, bs = b0 :: l ->
    (if b0 >=? 128 then - (val256 (compl bs) + 1) else val256 bs)
    = if val256 bs >=? 128 * 256 ^ (len bs - 1) then val256 bs - 256 ^ len bs else val256 bs).
  { intros b0 l E. subst bs. rewrite (head_sign b0 l Hok). unfold val256, len.
    replace (Z.of_nat (length (b0 :: l)) - 1) with (Z.of_nat (length l)) by (simpl length; lia).
    destruct (val 256 (b0 :: l) >=? 128 * 256 ^ Z.of_nat (length l)); [|reflexivity].
    rewrite val_compl. lia. }
  unfold be_to_signed.
  destruct bs as [|x [|y r]]; [congruence| |].
  - cbv zeta.
    inversion Hok as [|? ? Hb _]; subst. unfold byte_ok in Hb.
    destruct (x =? 0) eqn:E0.
    + apply Z.eqb_eq in E0. subst x. reflexivity.
    + destruct (x <=? 127) eqn:E1.
      * apply Z.leb_le in E1. unfold val256, len. rewrite val_cons, val_nil. simpl length. simpl Z.of_nat.
        simpl (256 ^ (1 - 1)). simpl (256 ^ 0).
        destruct (x * 1 + 0 >=? 128 * 1) eqn:E2; [apply Z.geb_le in E2; lia|lia].
      * apply (Hgen x []). reflexivity.
  - apply (Hgen x (y :: r)). reflexivity.
Qed.

(* ------------------------------------------------------------------ big.Int.Bytes *)
Lemma byte_len_nonneg n : 0 <= byte_len n.
Proof.
  unfold byte_len. destruct (n =? 0); [lia|].
  pose proof (Z.log2_nonneg n). assert (0 <= Z.log2 n / 8) by (apply Z.div_pos; lia). lia.
Qed.

Lemma big_bytes_bound n : 0 <= n -> n < 256 ^ byte_len n.
Proof.
  intro Hn. unfold byte_len. destruct (n =? 0) eqn:E.
  - apply Z.eqb_eq in E. subst. simpl. lia.
  - apply Z.eqb_neq in E.
    pose proof (Z.log2_nonneg n) as Hl.
    assert (Hq : 0 <= Z.log2 n / 8) by (apply Z.div_pos; lia).
    rewrite pow256 by lia.
    pose proof (Z.log2_spec n ltac:(lia)) as [_ H2].
    assert (Z.succ (Z.log2 n) <= 8 * (Z.log2 n / 8 + 1)).
    { pose proof (Z.div_mod (Z.log2 n) 8 ltac:(lia)). pose proof (Z.mod_pos_bound (Z.log2 n) 8 ltac:(lia)). lia. }
    assert (2 ^ Z.succ (Z.log2 n) <= 2 ^ (8 * (Z.log2 n / 8 + 1))) by (apply Z.pow_le_mono_r; lia).
    lia.
Qed.

Lemma big_bytes_val n : 0 <= n -> val 256 (big_bytes n) = n.
Proof.
  intro Hn. unfold big_bytes. apply fixed_digits_val_small; [lia|].
  rewrite Z2Nat.id by apply byte_len_nonneg. split; [lia|apply big_bytes_bound; lia].
Qed.

Lemma big_bytes_length n : len (big_bytes n) = byte_len n.
Proof.
  unfold len, big_bytes. rewrite fixed_digits_length. apply Z2Nat.id. apply byte_len_nonneg.
Qed.

Lemma big_bytes_ok n : bytes_ok (big_bytes n).
Proof. apply bytes_ok_digits. unfold big_bytes. apply fixed_digits_ok. lia. Qed.

Lemma byte_len_le n size : 0 <= n < 256 ^ size -> 0 <= size -> byte_len n <= size.
Proof.
  intros Hn Hs. unfold byte_len. destruct (n =? 0) eqn:E; [lia|].
  apply Z.eqb_neq in E. rewrite pow256 in Hn by lia.
  assert (Z.log2 n < 8 * size) by (apply Z.log2_lt_pow2; lia).
  assert (Z.log2 n / 8 < size) by (apply Z.div_lt_upper_bound; lia). lia.
Qed.

Lemma fixed_bytes_ok k n : bytes_ok (fixed_digits 256 k n).
Proof. apply bytes_ok_digits. apply fixed_digits_ok. lia. Qed.

Lemma len_fixed k n : len (fixed_digits 256 k n) = Z.of_nat k.
Proof. unfold len. rewrite fixed_digits_length. reflexivity. Qed.

Lemma len_app (a b : list Z) : len (a ++ b) = len a + len b.
Proof. unfold len. rewrite app_length. lia. Qed.

Lemma len_repeat (c : Z) j : len (repeat c j) = Z.of_nat j.
Proof. unfold len. rewrite repeat_length. reflexivity. Qed.

Lemma len_nonneg (l : list Z) : 0 <= len l.
Proof. unfold len. lia. Qed.

Lemma pad_exact bs n : len bs = n -> pad_with_zeroes bs n = Ok bs.
Proof.
  intro H. unfold pad_with_zeroes. rewrite H.
  replace (n >? n) with false by (symmetry; rewrite Z.gtb_ltb; apply Z.ltb_irrefl).
  rewrite Z.sub_diag. reflexivity.
Qed.

Lemma wrap_s_mod n z : 0 <= n -> wrap_s n (z mod 2 ^ n) = wrap_s n z.
Proof.
  intro Hn. unfold wrap_s. cbv zeta. rewrite Z.mod_mod; [reflexivity|].
  assert (0 < 2 ^ n) by (apply Z.pow_pos_nonneg; lia). lia.
Qed.

(* ------------------------------------------------------------------ kinds *)
Definition width_ok (n : Z) : Prop := exists m, 0 < m /\ n = 8 * m.
Definition nvalid (k : nkind) : Prop :=
  match k with
  | NInt (KSigned n) | NInt (KUnsigned n) | NInt (KWord n) => width_ok n
  | _ => True
  end.

Lemma half_pow n : 0 < n -> 2 ^ n = 2 * 2 ^ (n - 1).
Proof. intro H. replace n with (Z.succ (n - 1)) at 1 by lia. rewrite Z.pow_succ_r by lia. reflexivity. Qed.

(* native-width path shared by Int8..64, UInt8..64, Word8..64, Fix64, UFix64, Fix128, UFix128 *)
Lemma native_roundtrip_signed n m x :
  0 < m -> n = 8 * m -> - 2 ^ (n - 1) <= x <= 2 ^ (n - 1) - 1 ->
  let bs := fixed_digits 256 (Z.to_nat m) (x mod 2 ^ n) in
  bytes_ok bs /\ len bs = m /\
  (let* p := pad_with_zeroes bs m in Ok (wrap_s n (val256 p))) = Ok x.
Proof.
  intros Hm Hn Hx bs. split; [apply fixed_bytes_ok|]. split; [unfold bs; rewrite len_fixed; lia|].
  rewrite pad_exact by (unfold bs; rewrite len_fixed; lia). simpl. f_equal.
  unfold bs, val256. rewrite fixed_digits_val by lia. rewrite Z2Nat.id by lia.
  rewrite pow256 by lia. rewrite <- Hn. rewrite Z.mod_mod.
  - rewrite wrap_s_mod by lia. apply wrap_s_id; lia.
  - assert (0 < 2 ^ n) by (apply Z.pow_pos_nonneg; lia). lia.
Qed.

Lemma native_roundtrip_unsigned n m x :
  0 < m -> n = 8 * m -> 0 <= x <= 2 ^ n - 1 ->
  let bs := fixed_digits 256 (Z.to_nat m) (x mod 2 ^ n) in
  bytes_ok bs /\ len bs = m /\
  (let* p := pad_with_zeroes bs m in Ok (val256 p)) = Ok x.
Proof.
  intros Hm Hn Hx bs. split; [apply fixed_bytes_ok|]. split; [unfold bs; rewrite len_fixed; lia|].
  rewrite pad_exact by (unfold bs; rewrite len_fixed; lia). simpl. f_equal.
  unfold bs, val256. rewrite fixed_digits_val by lia. rewrite Z2Nat.id by lia.
  rewrite pow256 by lia. rewrite <- Hn. rewrite Z.mod_mod.
  - apply Z.mod_small. lia.
  - assert (0 < 2 ^ n) by (apply Z.pow_pos_nonneg; lia). lia.
Qed.

Lemma nonempty_len (l : list Z) : 0 < len l -> l <> [].
Proof. intros H E. subst. unfold len in H. simpl in H. lia. Qed.

(* SignedBigIntToSizedBigEndianBytes then BigEndianBytesToSignedBigInt *)
Lemma signed_sized_roundtrip n m x :
  0 < m -> n = 8 * m -> - 2 ^ (n - 1) <= x <= 2 ^ (n - 1) - 1 ->
  exists bs, signed_to_sized_be x m = Ok bs /\ bytes_ok bs /\ len bs = m /\ be_to_signed bs = x.
Proof.
  intros Hm Hn Hx.
  assert (Hh : 2 ^ n = 2 * 2 ^ (n - 1)) by (apply half_pow; lia).
  assert (H256 : 256 ^ m = 2 ^ n) by (rewrite pow256 by lia; f_equal; lia).
  assert (H128 : 128 * 256 ^ (m - 1) = 2 ^ (n - 1)).
  { rewrite pow256 by lia. change 128 with (2 ^ 7). rewrite <- Z.pow_add_r by lia. f_equal. lia. }
  assert (Hp : 0 < 2 ^ (n - 1)) by (apply Z.pow_pos_nonneg; lia).
  unfold signed_to_sized_be.
  destruct (Z.compare_spec x 0) as [E|E|E].
  - (* zero *)
    subst x. eexists. split; [reflexivity|].
    split; [apply repeat_ok; unfold byte_ok; lia|]. split; [rewrite len_repeat; lia|].
    rewrite be_to_signed_spec.
    + unfold val256. rewrite val_repeat0. rewrite len_repeat, Z2Nat.id by lia. rewrite H128.
      destruct (0 >=? 2 ^ (n - 1)) eqn:E; [apply Z.geb_le in E; lia|reflexivity].
    + apply repeat_ok. unfold byte_ok. lia.
    + apply nonempty_len. rewrite len_repeat. lia.
  - (* negative *)
    set (tc := - (x + 1)). assert (Htc : 0 <= tc < 2 ^ (n - 1)) by (unfold tc; lia).
    pose proof (byte_len_le tc m ltac:(lia) ltac:(lia)) as HL.
    rewrite big_bytes_length.
    destruct (m - byte_len tc <? 0) eqn:Eo; [apply Z.ltb_lt in Eo; lia|].
    eexists. split; [reflexivity|].
    assert (Hok : bytes_ok (repeat 255 (Z.to_nat (m - byte_len tc)) ++ compl (big_bytes tc))).
    { apply Forall_app. split; [apply repeat_ok; unfold byte_ok; lia|apply compl_ok, big_bytes_ok]. }
    assert (Hlen : len (repeat 255 (Z.to_nat (m - byte_len tc)) ++ compl (big_bytes tc)) = m).
    { rewrite len_app, len_repeat. unfold len. rewrite compl_length. fold (len (big_bytes tc)).
      rewrite big_bytes_length. pose proof (byte_len_nonneg tc). lia. }
    split; [assumption|]. split; [assumption|].
    rewrite be_to_signed_spec; [|assumption|apply nonempty_len; lia].
    rewrite Hlen. rewrite H128, H256.
    assert (Hval : val256 (repeat 255 (Z.to_nat (m - byte_len tc)) ++ compl (big_bytes tc)) = 2 ^ n + x).
    { unfold val256. rewrite val_app, val_repeat255, val_compl, compl_length.
      fold (len (big_bytes tc)). rewrite big_bytes_length. rewrite big_bytes_val by lia.
      pose proof (byte_len_nonneg tc).
      rewrite Z2Nat.id by lia.
      replace ((256 ^ (m - byte_len tc) - 1) * 256 ^ byte_len tc + (256 ^ byte_len tc - 1 - tc))
        with (256 ^ (m - byte_len tc) * 256 ^ byte_len tc - 1 - tc) by ring.
      rewrite <- Z.pow_add_r by lia. replace (m - byte_len tc + byte_len tc) with m by lia.
      rewrite H256. unfold tc. lia. }
    rewrite Hval.
    destruct (2 ^ n + x >=? 2 ^ (n - 1)) eqn:E2; [lia|rewrite Z.geb_leb in E2; apply Z.leb_gt in E2; lia].
  - (* positive *)
    unfold fill_bytes. rewrite H256.
    destruct (x <? 2 ^ n) eqn:E2; [|apply Z.ltb_ge in E2; lia].
    eexists. split; [reflexivity|]. split; [apply fixed_bytes_ok|].
    split; [rewrite len_fixed; lia|].
    rewrite be_to_signed_spec; [|apply fixed_bytes_ok|apply nonempty_len; rewrite len_fixed; lia].
    rewrite len_fixed, Z2Nat.id by lia. rewrite H128.
    unfold val256. rewrite fixed_digits_val_small by (rewrite ?Z2Nat.id by lia; lia).
    destruct (x >=? 2 ^ (n - 1)) eqn:E3; [apply Z.geb_le in E3; lia|reflexivity].
Qed.

Lemma unsigned_sized_roundtrip n m x :
  0 < m -> n = 8 * m -> 0 <= x <= 2 ^ n - 1 ->
  exists bs, unsigned_to_sized_be x m = Ok bs /\ bytes_ok bs /\ len bs = m /\ be_to_unsigned bs = x.
Proof.
  intros Hm Hn Hx.
  assert (H256 : 256 ^ m = 2 ^ n) by (rewrite pow256 by lia; f_equal; lia).
  unfold unsigned_to_sized_be, be_to_unsigned.
  destruct (Z.compare_spec x 0) as [E|E|E]; [| lia |].
  - subst x. eexists. split; [reflexivity|]. split; [apply repeat_ok; unfold byte_ok; lia|].
    split; [rewrite len_repeat; lia|]. unfold val256. apply val_repeat0.
  - unfold fill_bytes. rewrite H256.
    destruct (x <? 2 ^ n) eqn:E2; [|apply Z.ltb_ge in E2; lia].
    eexists. split; [reflexivity|]. split; [apply fixed_bytes_ok|].
    split; [rewrite len_fixed; lia|].
    unfold val256. apply fixed_digits_val_small; [lia|]. rewrite Z2Nat.id by lia. lia.
Qed.

(* SignedBigIntToBigEndianBytes (minimal length) then BigEndianBytesToSignedBigInt *)
Lemma signed_min_roundtrip x :
  bytes_ok (signed_to_be x) /\ be_to_signed (signed_to_be x) = x.
Proof.
  unfold signed_to_be.
  destruct (Z.compare_spec x 0) as [E|E|E].
  - subst. split; [repeat constructor; unfold byte_ok; lia|reflexivity].
  - (* negative *)
    set (tc := - x - 1). assert (Htc : 0 <= tc) by (unfold tc; lia).
    pose proof (big_bytes_ok tc) as HokB. pose proof (big_bytes_val tc Htc) as HvB.
    set (B := big_bytes tc) in *.
    pose proof (compl_ok B HokB) as HokC. pose proof (val_compl B) as HvC. rewrite HvB in HvC.
    pose proof (compl_length B) as HlC.
    set (C := compl B) in *.
    (* every produced list bs satisfies: ok, head >= 128, val = 256^len - 1 - tc *)
    assert (Hfin : forall bs b0 l, bs = b0 :: l -> bytes_ok bs -> 128 <= b0 ->
              val 256 bs = 256 ^ len bs - 1 - tc -> be_to_signed bs = x).
    { intros bs b0 l Ebs Hok Hb Hv.
      rewrite be_to_signed_spec; [|assumption|subst; discriminate].
      pose proof (head_sign b0 l ltac:(subst; assumption)) as Hh. rewrite <- Ebs in Hh.
      replace (b0 >=? 128) with true in Hh by (symmetry; apply Z.geb_le; lia).
      replace (len bs - 1) with (Z.of_nat (length l)) by (subst bs; unfold len; simpl length; lia).
      unfold val256. rewrite <- Hh. rewrite Hv. unfold tc. lia. }
    destruct C as [|c0 C'] eqn:EC.
    + split; [repeat constructor; unfold byte_ok; lia|].
      assert (B = []) by (destruct B; [reflexivity|discriminate]).
      rewrite H in HvB. rewrite val_nil in HvB.
      apply (Hfin [255] 255 []); try reflexivity; try lia.
      * repeat constructor; unfold byte_ok; lia.
      * rewrite val_cons, val_nil. unfold len. simpl length. simpl Z.of_nat. change (256 ^ 0) with 1. change (256 ^ 1) with 256. lia.
    + destruct (c0 <? 128) eqn:E0.
      * split; [constructor; [unfold byte_ok; lia|assumption]|].
        apply (Hfin (255 :: c0 :: C') 255 (c0 :: C')); try reflexivity; try lia.
        -- constructor; [unfold byte_ok; lia|assumption].
        -- rewrite val_cons, HvC. rewrite <- HlC.
           unfold len. simpl length. rewrite !Nat2Z.inj_succ. rewrite !Z.pow_succ_r by lia. ring.
      * apply Z.ltb_ge in E0. split; [assumption|].
        apply (Hfin (c0 :: C') c0 C'); try reflexivity; try lia; try assumption.
        rewrite HvC. rewrite <- HlC. reflexivity.
  - (* positive *)
    pose proof (big_bytes_ok x) as HokB. pose proof (big_bytes_val x ltac:(lia)) as HvB.
    set (B := big_bytes x) in *.
    destruct B as [|b0 B'] eqn:EB.
    + rewrite val_nil in HvB. lia.
    + destruct (b0 >=? 128) eqn:E0.
      * split; [constructor; [unfold byte_ok; lia|assumption]|].
        rewrite be_to_signed_spec; [|constructor; [unfold byte_ok; lia|assumption]|discriminate].
        unfold val256. rewrite val_cons, HvB.
        pose proof (val_bound 256 (b0 :: B') ltac:(lia) (proj1 (bytes_ok_digits _) HokB)) as Hb.
        rewrite HvB in Hb.
        replace (len (0 :: b0 :: B') - 1) with (Z.of_nat (length (b0 :: B'))) by (unfold len; simpl length; lia).
        destruct (0 * 256 ^ Z.of_nat (length (b0 :: B')) + x >=? 128 * 256 ^ Z.of_nat (length (b0 :: B'))) eqn:E1;
          [apply Z.geb_le in E1; lia|lia].
      * split; [assumption|].
        rewrite be_to_signed_spec; [|assumption|discriminate].
        pose proof (head_sign b0 B' HokB) as Hh. rewrite E0 in Hh.
        replace (len (b0 :: B') - 1) with (Z.of_nat (length B')) by (unfold len; simpl length; lia).
        unfold val256. rewrite <- Hh. exact HvB.
Qed.

(* ------------------------------------------------------------------ the round trip, every kind *)
Theorem be_roundtrip k x :
  nvalid k -> n_in_range k x ->
  exists bs, to_be k x = Ok bs /\ bytes_ok bs /\ from_be k bs = Ok (Some x).
Proof.
  intros Hk Hx. unfold from_be.
  destruct k as [[n|n|n| |]|f]; simpl in Hk, Hx.
  - (* IntN *)
    destruct Hk as (m & Hm & Hn). unfold in_range in Hx; simpl in Hx.
    assert (Hd : n / 8 = m) by (subst n; rewrite Z.mul_comm; apply Z.div_mul; lia).
    simpl byte_size. rewrite Hd. unfold to_be, be_convert. rewrite Hd.
    replace (negb (m =? 0)) with true by (symmetry; apply negb_true_iff, Z.eqb_neq; lia).
    destruct (n <=? 64).
    + destruct (native_roundtrip_signed n m x Hm Hn ltac:(lia)) as (Hok & Hlen & Hrt).
      eexists. split; [reflexivity|]. split; [exact Hok|].
      rewrite Hlen. replace (m >? m) with false by (symmetry; rewrite Z.gtb_ltb; apply Z.ltb_irrefl).
      simpl andb. cbv iota. rewrite Hrt. reflexivity.
    + destruct (signed_sized_roundtrip n m x Hm Hn ltac:(lia)) as (bs & Hto & Hok & Hlen & Hrt).
      exists bs. split; [exact Hto|]. split; [exact Hok|].
      rewrite Hlen. replace (m >? m) with false by (symmetry; rewrite Z.gtb_ltb; apply Z.ltb_irrefl).
      simpl. rewrite Hrt. reflexivity.
  - (* UIntN *)
    destruct Hk as (m & Hm & Hn). unfold in_range in Hx; simpl in Hx.
    assert (Hd : n / 8 = m) by (subst n; rewrite Z.mul_comm; apply Z.div_mul; lia).
    simpl byte_size. rewrite Hd. unfold to_be, be_convert. rewrite Hd.
    replace (negb (m =? 0)) with true by (symmetry; apply negb_true_iff, Z.eqb_neq; lia).
    destruct (n <=? 64).
    + destruct (native_roundtrip_unsigned n m x Hm Hn ltac:(lia)) as (Hok & Hlen & Hrt).
      eexists. split; [reflexivity|]. split; [exact Hok|].
      rewrite Hlen. replace (m >? m) with false by (symmetry; rewrite Z.gtb_ltb; apply Z.ltb_irrefl).
      simpl andb. cbv iota. rewrite Hrt. reflexivity.
    + destruct (unsigned_sized_roundtrip n m x Hm Hn ltac:(lia)) as (bs & Hto & Hok & Hlen & Hrt).
      exists bs. split; [exact Hto|]. split; [exact Hok|].
      rewrite Hlen. replace (m >? m) with false by (symmetry; rewrite Z.gtb_ltb; apply Z.ltb_irrefl).
      simpl. rewrite Hrt. reflexivity.
  - (* WordN *)
    destruct Hk as (m & Hm & Hn). unfold in_range in Hx; simpl in Hx.
    assert (Hd : n / 8 = m) by (subst n; rewrite Z.mul_comm; apply Z.div_mul; lia).
    simpl byte_size. rewrite Hd. unfold to_be, be_convert. rewrite Hd.
    replace (negb (m =? 0)) with true by (symmetry; apply negb_true_iff, Z.eqb_neq; lia).
    destruct (n <=? 64).
    + destruct (native_roundtrip_unsigned n m x Hm Hn ltac:(lia)) as (Hok & Hlen & Hrt).
      eexists. split; [reflexivity|]. split; [exact Hok|].
      rewrite Hlen. replace (m >? m) with false by (symmetry; rewrite Z.gtb_ltb; apply Z.ltb_irrefl).
      simpl andb. cbv iota. rewrite Hrt. reflexivity.
    + destruct (unsigned_sized_roundtrip n m x Hm Hn ltac:(lia)) as (bs & Hto & Hok & Hlen & Hrt).
      exists bs. split; [exact Hto|]. split; [exact Hok|].
      rewrite Hlen. replace (m >? m) with false by (symmetry; rewrite Z.gtb_ltb; apply Z.ltb_irrefl).
      simpl. rewrite Hrt. reflexivity.
  - (* Int *)
    destruct (signed_min_roundtrip x) as [Hok Hrt].
    exists (signed_to_be x). split; [reflexivity|]. split; [exact Hok|].
    simpl. rewrite Hrt. reflexivity.
  - (* UInt *)
    unfold in_range in Hx; simpl in Hx. unfold to_be, unsigned_to_be. simpl.
    destruct (Z.compare_spec x 0) as [E|E|E]; [| lia |].
    + subst. eexists. split; [reflexivity|]. split; [repeat constructor; unfold byte_ok; lia|]. reflexivity.
    + eexists. split; [reflexivity|]. split; [apply big_bytes_ok|].
      unfold be_to_unsigned, val256. rewrite big_bytes_val by lia. reflexivity.
  - (* fixed-point *)
    destruct (fkind_facts f) as (_ & _ & _ & _ & _ & _ & Hs & Hu & Hb).
    unfold fin_range in Hx.
    set (m := fbits f / 8).
    assert (Hm : 0 < m /\ fbits f = 8 * m) by (destruct f; vm_compute; split; reflexivity).
    destruct Hm as [Hm Hn].
    simpl byte_size. fold m. unfold to_be, be_convert. fold m.
    replace (negb (m =? 0)) with true by (symmetry; apply negb_true_iff, Z.eqb_neq; lia).
    destruct (fsigned f) eqn:Es.
    + destruct (Hs eq_refl) as [E1 E2].
      destruct (native_roundtrip_signed (fbits f) m x Hm Hn ltac:(lia)) as (Hok & Hlen & Hrt).
      eexists. split; [reflexivity|]. split; [exact Hok|].
      rewrite Hlen. replace (m >? m) with false by (symmetry; rewrite Z.gtb_ltb; apply Z.ltb_irrefl).
      simpl andb. cbv iota. rewrite Hrt. reflexivity.
    + destruct (Hu eq_refl) as [E1 E2].
      destruct (native_roundtrip_unsigned (fbits f) m x Hm Hn ltac:(lia)) as (Hok & Hlen & Hrt).
      eexists. split; [reflexivity|]. split; [exact Hok|].
      rewrite Hlen. replace (m >? m) with false by (symmetry; rewrite Z.gtb_ltb; apply Z.ltb_irrefl).
      simpl andb. cbv iota. rewrite Hrt. reflexivity.
Qed.


Lemma gtb_false a b : a <= b -> (a >? b) = false.
Proof. intro H. rewrite Z.gtb_ltb. apply Z.ltb_ge. lia. Qed.

Lemma pad_ok bs m : len bs <= m ->
  exists p, pad_with_zeroes bs m = Ok p /\ val256 p = val256 bs /\ len p = m /\ (bytes_ok bs -> bytes_ok p).
Proof.
  intro H. unfold pad_with_zeroes. rewrite gtb_false by assumption.
  eexists. split; [reflexivity|]. split; [unfold val256; apply val_repeat0_app|].
  split.
  - rewrite len_app, len_repeat. pose proof (len_nonneg bs). rewrite Z2Nat.id by lia. lia.
  - intro Hok. apply Forall_app. split; [apply repeat_ok; unfold byte_ok; lia|assumption].
Qed.

(* fromBigEndianBytes returns nil exactly for inputs longer than the type's size *)
Theorem from_be_nil_iff k bs :
  from_be k bs = Ok None <-> (byte_size k <> 0 /\ len bs > byte_size k).
Proof.
  unfold from_be.
  destruct (negb (byte_size k =? 0) && (len bs >? byte_size k)) eqn:E.
  - apply andb_true_iff in E. destruct E as [E1 E2].
    apply negb_true_iff, Z.eqb_neq in E1. apply Z.gtb_lt in E2. split; [intros _; lia|reflexivity].
  - split.
    + destruct (be_convert k bs); simpl; intro H; discriminate H.
    + intros [H1 H2]. apply andb_false_iff in E. destruct E as [E|E].
      * apply negb_false_iff, Z.eqb_eq in E. contradiction.
      * rewrite Z.gtb_ltb in E. apply Z.ltb_ge in E. lia.
Qed.

Lemma byte_size_valid k : nvalid k ->
  match k with NInt KInt | NInt KUInt => byte_size k = 0 | _ => 0 < byte_size k end.
Proof.
  intro H. destruct k as [[n|n|n| |]|f]; simpl in *; try reflexivity;
  try (destruct H as (m & Hm & ->); rewrite Z.mul_comm, Z.div_mul by lia; assumption).
  destruct f; reflexivity.
Qed.

(* ... and never fails: the defensive panic in padWithZeroes is unreachable through fromBigEndianBytes *)
Theorem from_be_total k bs : nvalid k -> exists r, from_be k bs = Ok r.
Proof.
  intro Hk. unfold from_be. pose proof (byte_size_valid k Hk) as Hs.
  destruct (negb (byte_size k =? 0) && (len bs >? byte_size k)) eqn:E; [eexists; reflexivity|].
  assert (Hle : byte_size k = 0 \/ len bs <= byte_size k).
  { apply andb_false_iff in E. destruct E as [E|E].
    - left. apply negb_false_iff, Z.eqb_eq in E. assumption.
    - right. rewrite Z.gtb_ltb in E. apply Z.ltb_ge in E. lia. }
  destruct k as [[n|n|n| |]|f]; simpl in Hs; simpl byte_size in *; unfold be_convert;
    try (destruct (n <=? 64); [|eexists; reflexivity]);
    try (eexists; reflexivity);
    (destruct Hle as [Hle|Hle]; [try lia|]);
    destruct (pad_ok bs _ Hle) as (p & -> & _); eexists; reflexivity.
Qed.

Lemma wrap_s_range n z : 0 < n -> - 2 ^ (n - 1) <= wrap_s n z <= 2 ^ (n - 1) - 1.
Proof.
  intro Hn. unfold wrap_s. cbv zeta.
  pose proof (half_pow n Hn). assert (0 < 2 ^ (n - 1)) by (apply Z.pow_pos_nonneg; lia).
  pose proof (Z.mod_pos_bound z (2 ^ n) ltac:(lia)).
  destruct (z mod 2 ^ n <? 2 ^ (n - 1)) eqn:E; [apply Z.ltb_lt in E|apply Z.ltb_ge in E]; lia.
Qed.

Lemma be_to_signed_range bs m : bytes_ok bs -> len bs <= m -> 0 < m ->
  - 2 ^ (8 * m - 1) <= be_to_signed bs <= 2 ^ (8 * m - 1) - 1.
Proof.
  intros Hok Hlen Hm.
  assert (Hp : 0 < 2 ^ (8 * m - 1)) by (apply Z.pow_pos_nonneg; lia).
  destruct bs as [|b0 l] eqn:Ebs; [change (be_to_signed []) with 0; lia|]. rewrite <- Ebs in *.
  assert (HL : 0 < len bs) by (subst; unfold len; simpl length; lia).
  rewrite be_to_signed_spec; [|assumption|subst; discriminate].
  pose proof (val_bound 256 bs ltac:(lia) (proj1 (bytes_ok_digits _) Hok)) as Hv. fold (len bs) in Hv.
  fold val256 in Hv.
  assert (H1 : 128 * 256 ^ (len bs - 1) = 2 ^ (8 * len bs - 1)).
  { rewrite pow256 by lia. change 128 with (2 ^ 7). rewrite <- Z.pow_add_r by lia. f_equal. lia. }
  assert (H2 : 256 ^ len bs = 2 * 2 ^ (8 * len bs - 1)).
  { rewrite pow256 by lia. apply half_pow. lia. }
  assert (H3 : 2 ^ (8 * len bs - 1) <= 2 ^ (8 * m - 1)) by (apply Z.pow_le_mono_r; lia).
  rewrite H1, H2 in *.
  destruct (val256 bs >=? 2 ^ (8 * len bs - 1)) eqn:E;
    [apply Z.geb_le in E|rewrite Z.geb_leb in E; apply Z.leb_gt in E]; lia.
Qed.

(* a non-nil result is a value of the type *)
Theorem from_be_in_range k bs v :
  nvalid k -> bytes_ok bs -> from_be k bs = Ok (Some v) -> n_in_range k v.
Proof.
  intros Hk Hok H. unfold from_be in H. pose proof (byte_size_valid k Hk) as Hs.
  destruct (negb (byte_size k =? 0) && (len bs >? byte_size k)) eqn:E; [discriminate|].
  assert (Hle : byte_size k = 0 \/ len bs <= byte_size k).
  { apply andb_false_iff in E. destruct E as [E|E].
    - left. apply negb_false_iff, Z.eqb_eq in E. assumption.
    - right. rewrite Z.gtb_ltb in E. apply Z.ltb_ge in E. lia. }
  assert (Hnat_u : forall n m, 0 < m -> n = 8 * m -> len bs <= m ->
     forall p, pad_with_zeroes bs m = Ok p -> 0 <= val256 p <= 2 ^ n - 1).
  { intros n m Hm Hn Hl p Hp. destruct (pad_ok bs m Hl) as (p' & Hp' & _ & Hlp & Hokp).
    rewrite Hp in Hp'. inversion Hp'; subst p'.
    pose proof (val_bound 256 p ltac:(lia) (proj1 (bytes_ok_digits _) (Hokp Hok))) as Hv.
    fold (len p) in Hv. rewrite Hlp in Hv. rewrite pow256 in Hv by lia. rewrite <- Hn in Hv.
    unfold val256. lia. }
  destruct k as [[n|n|n| |]|f]; simpl in Hs; simpl byte_size in *; simpl n_in_range; unfold in_range; simpl kmin; simpl kmax;
    unfold be_convert in H.
  - destruct Hk as (m & Hm & Hn). assert (Hd : n / 8 = m) by (subst n; rewrite Z.mul_comm; apply Z.div_mul; lia).
    rewrite Hd in *. destruct Hle as [Hle|Hle]; [lia|].
    destruct (n <=? 64).
    + destruct (pad_ok bs m Hle) as (p & Hp & _). rewrite Hp in H. simpl in H. inversion H; subst v.
      apply wrap_s_range. lia.
    + simpl in H. inversion H; subst v. pose proof (be_to_signed_range bs m Hok Hle Hm) as Hr.
      replace (8 * m - 1) with (n - 1) in Hr by lia. lia.
  - destruct Hk as (m & Hm & Hn). assert (Hd : n / 8 = m) by (subst n; rewrite Z.mul_comm; apply Z.div_mul; lia).
    rewrite Hd in *. destruct Hle as [Hle|Hle]; [lia|].
    destruct (n <=? 64).
    + destruct (pad_ok bs m Hle) as (p & Hp & _). rewrite Hp in H. simpl in H. inversion H; subst v.
      apply (Hnat_u n m Hm Hn Hle p Hp).
    + simpl in H. inversion H; subst v. unfold be_to_unsigned.
      destruct (pad_ok bs m Hle) as (p & Hp & Hv & _). rewrite <- Hv. apply (Hnat_u n m Hm Hn Hle p Hp).
  - destruct Hk as (m & Hm & Hn). assert (Hd : n / 8 = m) by (subst n; rewrite Z.mul_comm; apply Z.div_mul; lia).
    rewrite Hd in *. destruct Hle as [Hle|Hle]; [lia|].
    destruct (n <=? 64).
    + destruct (pad_ok bs m Hle) as (p & Hp & _). rewrite Hp in H. simpl in H. inversion H; subst v.
      apply (Hnat_u n m Hm Hn Hle p Hp).
    + simpl in H. inversion H; subst v. unfold be_to_unsigned.
      destruct (pad_ok bs m Hle) as (p & Hp & Hv & _). rewrite <- Hv. apply (Hnat_u n m Hm Hn Hle p Hp).
  - split; exact I.
  - simpl in H. inversion H; subst v. unfold be_to_unsigned. split; [|exact I].
    pose proof (val_bound 256 bs ltac:(lia) (proj1 (bytes_ok_digits _) Hok)). unfold val256. lia.
  - destruct (fkind_facts f) as (_ & _ & _ & _ & _ & _ & Hsg & Hu & Hb).
    set (m := fbits f / 8) in *.
    assert (Hm : 0 < m /\ fbits f = 8 * m) by (destruct f; vm_compute; split; reflexivity).
    destruct Hm as [Hm Hn]. destruct Hle as [Hle|Hle]; [lia|].
    destruct (pad_ok bs m Hle) as (p & Hp & _). rewrite Hp in H. simpl in H. inversion H; subst v.
    unfold fin_range. destruct (fsigned f) eqn:Es.
    + destruct (Hsg eq_refl) as [-> ->]. apply wrap_s_range. lia.
    + destruct (Hu eq_refl) as [-> ->]. apply (Hnat_u (fbits f) m Hm Hn Hle p Hp).
Qed.

(* ================================================================== hex strings and addresses *)
Lemma hex_val_digit d : 0 <= d < 16 -> hex_val (hex_digit d) = Some d.
Proof.
  intro H.
  assert (Hc : d = 0 \/ d = 1 \/ d = 2 \/ d = 3 \/ d = 4 \/ d = 5 \/ d = 6 \/ d = 7 \/ d = 8 \/ d = 9 \/
               d = 10 \/ d = 11 \/ d = 12 \/ d = 13 \/ d = 14 \/ d = 15) by lia.
  repeat (destruct Hc as [->|Hc]; [reflexivity|]). subst. reflexivity.
Qed.

Theorem hex_roundtrip bs : bytes_ok bs -> hex_decode (hex_encode bs) = Some bs.
Proof.
  induction 1 as [|b l Hb Hl IH]; [reflexivity|].
  unfold byte_ok in Hb.
  change (hex_encode (b :: l)) with (hex_digit (b / 16) :: hex_digit (b mod 16) :: hex_encode l).
  cbn [hex_decode].
  rewrite hex_val_digit by (split; [apply Z.div_pos; lia|apply Z.div_lt_upper_bound; lia]).
  rewrite hex_val_digit by (apply Z.mod_pos_bound; lia).
  rewrite IH. f_equal. f_equal. pose proof (Z.div_mod b 16 ltac:(lia)). lia.
Qed.

Lemma hex_encode_length bs : length (hex_encode bs) = (2 * length bs)%nat.
Proof. induction bs as [|b l IH]; [reflexivity|]. simpl. rewrite IH. lia. Qed.

Definition addr_ok (a : Z) : Prop := 0 <= a < 2 ^ 64.

Lemma addr_from_string_0x r :
  addr_from_string (48 :: 120 :: r) =
  match hex_decode (if Nat.odd (length r) then ch_0 :: r else r) with
  | Some bs => if len bs >? 8 then None else Some (val256 bs)
  | None => None
  end.
Proof. reflexivity. Qed.

Theorem addr_string_roundtrip a : addr_ok a -> addr_from_string (addr_to_string a) = Some a.
Proof.
  intro Ha. unfold addr_ok in Ha. unfold addr_to_string, ch_0, ch_x. rewrite addr_from_string_0x.
  rewrite hex_encode_length, fixed_digits_length. change (Nat.odd (2 * 8)) with false. cbv iota.
  rewrite hex_roundtrip by apply fixed_bytes_ok.
  rewrite len_fixed. change (Z.of_nat 8 >? 8) with false. cbv iota. f_equal.
  unfold val256. apply fixed_digits_val_small; [lia|]. change (256 ^ Z.of_nat 8) with (2 ^ 64). lia.
Qed.

Theorem addr_bytes_roundtrip a : addr_ok a -> addr_from_bytes (addr_to_bytes a) = Ok a.
Proof.
  intro Ha. unfold addr_ok in Ha. unfold addr_to_bytes, addr_from_bytes.
  rewrite len_fixed. change (Z.of_nat 8 >? 8) with false. cbv iota. f_equal.
  unfold val256. apply fixed_digits_val_small; [lia|]. change (256 ^ Z.of_nat 8) with (2 ^ 64). lia.
Qed.

(* Address.fromString returns nil (never fails), Address.fromBytes fails exactly for more than 8 bytes *)
Theorem addr_from_bytes_err bs : (exists e, addr_from_bytes bs = Err e) <-> len bs > 8.
Proof.
  unfold addr_from_bytes. destruct (len bs >? 8) eqn:E.
  - apply Z.gtb_lt in E. split; [intros _; lia|intros _; eexists; reflexivity].
  - rewrite Z.gtb_ltb in E. apply Z.ltb_ge in E. split; [intros [e H]; discriminate|lia].
Qed.
