(* C03 — concrete programs (with the byte offsets of their Cadence rendering) used as witnesses and
   non-vacuity examples.  The Cadence source of each is in corpus/C03/handpicked.json. No proofs here. *)
From CV Require Export C03.Model C03.Paths.

(* F1:  var o: @R? <- create R(); destroy o; o <-! create R()        -- accepted; the new resource is lost *)
Definition w_assign : stmt :=
  SFun 595 606 [] false (blk [SLet 612 0 616 []; SDestroy 641 (0,649); SAssign 655 (0,655) None]).

(* F2:  var a <- create R(); while cond() { destroy a }; panic("")    -- accepted; second iteration destroys a again *)
Definition w_loop_halt : stmt :=
  SFun 595 606 [] false (blk [SLet 612 0 616 []; SLoop 636 (blk [SDestroy 659 (0,667)]); SHalt 679]).

(* F3:  while cond() { var x <- create R(); if cond() { destroy x } else { if cond() { break }; panic("") } }
        -- accepted; the break path leaves x alive *)
Definition w_halt_jump : stmt :=
  SFun 595 606 [] false
    (blk [SLoop 612 (blk [SLet 635 0 639 [];
                          SIf 663 (blk [SDestroy 687 (0,695)])
                                  (blk [SIf 726 (blk [SBreak 754]) (blk []); SHalt 786])])]).

(* F4:  var v <- create R(); while cond() { if cond() { destroy v; if cond() { break }; return } }; destroy v
        -- accepted; the break path destroys v twice *)
Definition w_return_jump : stmt :=
  SFun 595 606 [] false
    (blk [SLet 612 0 616 [];
          SLoop 636 (blk [SIf 659 (blk [SDestroy 683 (0,691); SIf 705 (blk [SBreak 733]) (blk []); SReturn 765 RNone])
                                  (blk [])]);
          SDestroy 792 (0,800)]).

(* I1:  var a <- create R(); if cond() { destroy a; panic("") }; destroy a
        -- rejected (loss, use after invalidation) although both paths are linear *)
Definition w_conservative : stmt :=
  SFun 595 606 [] false
    (blk [SLet 612 0 616 []; SIf 636 (blk [SDestroy 656 (0,664); SHalt 674]) (blk []); SDestroy 694 (0,702)]).

(* accepted programs without strict diagnostics *)
(* var a <- create R(); if cond() { destroy a } else { consume(<-a) } *)
Definition ex_branch_both : stmt :=
  SFun 595 606 [] false
    (blk [SLet 612 0 616 []; SIf 636 (blk [SDestroy 656 (0,664)]) (blk [SCall 687 None false [(0,697)]])]).

(* var a <- create R(); if cond() { destroy a; return }; destroy a *)
Definition ex_branch_return : stmt :=
  SFun 595 606 [] false
    (blk [SLet 612 0 616 []; SIf 636 (blk [SDestroy 656 (0,664); SReturn 674 RNone]) (blk []); SDestroy 691 (0,699)]).

(* while cond() { var a <- create R(); if cond() { destroy a; break } else { destroy a } } *)
Definition ex_loop_break : stmt :=
  SFun 10 20 [] false
    (blk [SLoop 30 (blk [SLet 40 0 44 [];
                         SIf 60 (blk [SDestroy 70 (0,78); SBreak 90]) (blk [SDestroy 110 (0,118)])])]).

(* rejected: var a <- create R(); while cond() { if cond() { break }; destroy a }   (a lost on the break path) *)
Definition ex_loop_loss : stmt :=
  SFun 595 606 [] false
    (blk [SLoop 612 (blk [SLet 635 0 639 []; SIf 663 (blk [SBreak 687]) (blk []); SDestroy 711 (0,719)])]).

Definition linearity_error (e : error) : bool :=
  match e with ELoss _ | EUse _ => true | _ => false end.

Definition is_fun (f : stmt) : Prop := exists p pb params rr body, f = SFun p pb params rr body.
