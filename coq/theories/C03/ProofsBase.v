(* C03 — proofs, part 1: elementary facts about the model's primitives and the concrete machine. *)
From CV Require Import C03.Model C03.Paths.
From Coq Require Import Lia.

Set Implicit Arguments.

(* ------------------------------------------------------------------ quiet states *)

Definition ok (st : state) : Prop := errs st = [] /\ diags st = [].

Lemma report_not_ok e st : ~ ok (report e st).
Proof. unfold ok, report; simpl; intros [H _]; discriminate. Qed.

Lemma note_not_ok d st : ~ ok (note d st).
Proof. unfold ok, note; simpl; intros [_ H]; discriminate. Qed.

Lemma ok_set_ri r st : ok (set_ri r st) <-> ok st.
Proof. unfold ok; simpl; tauto. Qed.
Lemma ok_set_top l st : ok (set_top l st) <-> ok st.
Proof. unfold ok; simpl; tauto. Qed.
Lemma ok_set_scopes s st : ok (set_scopes s st) <-> ok st.
Proof. unfold ok; simpl; tauto. Qed.

(* ------------------------------------------------------------------ layers *)

Lemma lset_eq (l : layer) v i : lset l v i v = i.
Proof. unfold lset. rewrite Z.eqb_refl. reflexivity. Qed.

Lemma lset_neq (l : layer) v i w : w <> v -> lset l v i w = l w.
Proof. unfold lset. intro H. destruct (w =? v) eqn:E; [apply Z.eqb_eq in E; contradiction | reflexivity]. Qed.

Lemma inv_of_set_top_eq st v i : inv_of (set_top (lset (top st) v (Some i)) st) v = Some i.
Proof. unfold inv_of, layers; simpl. rewrite lset_eq. reflexivity. Qed.

Lemma inv_of_set_top_neq st v i w : w <> v -> inv_of (set_top (lset (top st) v i) st) w = inv_of st w.
Proof. intro H. unfold inv_of, layers; simpl. rewrite lset_neq by assumption. reflexivity. Qed.

Lemma inv_of_none_top st v : inv_of st v = None -> top st v = None.
Proof. unfold inv_of, layers; simpl. destruct (top st v); [discriminate | reflexivity]. Qed.

Lemma inv_of_none_below st v : inv_of st v = None -> lookup (below st) v = None.
Proof. unfold inv_of, layers; simpl. destruct (top st v); [discriminate | tauto]. Qed.

Lemma inv_of_top_none st v : top st v = None -> inv_of st v = lookup (below st) v.
Proof. unfold inv_of, layers; simpl. intros ->. reflexivity. Qed.

Definition defi (st : state) (v : pos) : Prop := definitively_invalidated st v = true.

Lemma defi_inv st v : defi st v -> exists k p, inv_of st v = Some (k, p) /\ is_definite k = true.
Proof.
  unfold defi, definitively_invalidated. destruct (inv_of st v) as [[k p]|]; [|discriminate].
  intros H. eauto.
Qed.

Lemma not_defi_none st v : inv_of st v = None -> ~ defi st v.
Proof. unfold defi, definitively_invalidated. intros ->. discriminate. Qed.

Lemma as_potential_not_definite k : is_definite (as_potential k) = true -> False.
Proof. destruct k; simpl; discriminate. Qed.

(* ------------------------------------------------------------------ primitives under ok *)

Lemma use_check_ok v p st : ok (use_check v p st) -> inv_of st v = None /\ use_check v p st = st.
Proof.
  unfold use_check. destruct (inv_of st v); intro H.
  - exfalso. eapply report_not_ok; eauto.
  - auto.
Qed.

Lemma visit_ident_ok c y st :
  ok (visit_ident c y st) ->
  exists v, find_var c st (fst y) = Some (v, false) /\ inv_of st v = None /\ visit_ident c y st = st.
Proof.
  unfold visit_ident. destruct (find_var c st (fst y)) as [[v cap]|] eqn:F; intro H.
  - destruct cap.
    + exfalso. unfold use_check in H. destruct (inv_of (report (ECapture (snd y)) st) v);
        eapply report_not_ok; eauto.
    + apply use_check_ok in H. destruct H as [H1 H2]. exists v. auto.
  - exfalso. eapply report_not_ok; eauto.
Qed.

Lemma visit_target_ok c y st :
  ok (visit_target c y st) ->
  exists v, find_var c st (fst y) = Some (v, false) /\ visit_target c y st = st.
Proof.
  unfold visit_target. destruct (find_var c st (fst y)) as [[v cap]|] eqn:F; intro H.
  - destruct cap.
    + exfalso. eapply report_not_ok; eauto.
    + eauto.
  - exfalso. eapply report_not_ok; eauto.
Qed.

Lemma errs_maybe_add v k p st : errs (maybe_add v k p st) = errs st /\ diags (maybe_add v k p st) = diags st.
Proof. unfold maybe_add. destruct (dexit (ri st)); [auto|]. destruct (top st v); simpl; auto. Qed.

Lemma ok_maybe_add v k p st : ok (maybe_add v k p st) <-> ok st.
Proof. unfold ok. destruct (errs_maybe_add v k p st) as [-> ->]. tauto. Qed.

Lemma find_var_maybe_add c v k p st x : find_var c (maybe_add v k p st) x = find_var c st x.
Proof. unfold maybe_add. destruct (dexit (ri st)); [auto|]. destruct (top st v); reflexivity. Qed.

Lemma ok_remove_tmp r st : ok (remove_tmp r st) <-> ok st.
Proof.
  unfold remove_tmp. destruct r as [[v i]|]; [|tauto].
  destruct (top st v) as [j|]; [|tauto]. destruct (inval_eqb j i); [apply ok_set_top | tauto].
Qed.

Lemma ok_record c y k st : ok (fst (record c y k st)) <-> ok st.
Proof.
  unfold record. destruct (find_var c st (fst y)) as [[v cap]|]; simpl; [apply ok_maybe_add | tauto].
Qed.

(* kind actually recorded *)
Definition eff_kind (st : state) (v : pos) (k : ikind) (p : pos) : ikind :=
  if existsb (fun j => (v <? j) && (j <? p)) (jumps (ri st)) then as_potential k else k.

Lemma maybe_add_fresh v k p st :
  dexit (ri st) = false -> top st v = None ->
  maybe_add v k p st = set_top (lset (top st) v (Some (eff_kind st v k p, p))) st.
Proof. intros D T. unfold maybe_add, eff_kind. rewrite D, T. reflexivity. Qed.

Lemma inval_eqb_refl i : inval_eqb i i = true.
Proof. destruct i as [k p]. unfold inval_eqb; simpl. rewrite Z.eqb_refl. destruct k; reflexivity. Qed.

Lemma declare_ok x px st :
  ok (declare x px st) ->
  match scopes st with
  | [] => declare x px st = st
  | s :: r => in_scope s x = false /\ declare x px st = set_scopes (((x, px) :: s) :: r) st
  end.
Proof.
  unfold declare. destruct (scopes st) as [|s r]; [auto|].
  destruct (in_scope s x); intro H; [exfalso; eapply report_not_ok; eauto | auto].
Qed.

Lemma ok_declare x px st : ok (declare x px st) -> ok st.
Proof.
  unfold declare. destruct (scopes st) as [|s r]; [auto|].
  destruct (in_scope s x); intro H; [exfalso; eapply report_not_ok; eauto | apply ok_set_scopes in H; auto].
Qed.

Lemma loss_vars_ok vs st :
  ok (loss_vars vs st) -> loss_vars vs st = st /\ forall x v, In (x, v) vs -> defi st v.
Proof.
  revert st. induction vs as [|[x v] r IH]; intros st H; simpl in *.
  - split; [reflexivity | intros ? ? []].
  - destruct (definitively_invalidated st v) eqn:D.
    + destruct (IH _ H) as [E F]. split; [exact E|]. intros y w [G|G]; [inversion G; subst; exact D | eauto].
    + destruct (IH _ H) as [E F]. rewrite E in H. exfalso. eapply report_not_ok; eauto.
Qed.

Lemma check_loss_ok ss st :
  ok (check_loss ss st) ->
  check_loss ss st = st /\
  (dexit (ri st) && negb (mjump (ri st)) = false -> forall x v, In (x, v) (concat ss) -> defi st v).
Proof.
  unfold check_loss. destruct (dexit (ri st) && negb (mjump (ri st))); intro H.
  - split; [reflexivity | discriminate].
  - apply loss_vars_ok in H. destruct H. split; auto.
Qed.

(* ------------------------------------------------------------------ return info *)

Definition ri_wf (r : rinfo) : Prop :=
  (dret r = true -> dexit r = true) /\ (dhalt r = true -> dexit r = true).

Lemma ri_wf_new : ri_wf new_ri.
Proof. split; simpl; discriminate. Qed.

Lemma jumped_inside_spec r0 r :
  jumped_inside r0 r = true <-> exists j, In j (jumps r) /\ ~ In j (jumps r0).
Proof.
  unfold jumped_inside. rewrite existsb_exists. split.
  - intros [j [I N]]. exists j. split; [exact I|]. intro I0.
    apply negb_true_iff in N. assert (existsb (Z.eqb j) (jumps r0) = true).
    { apply existsb_exists. exists j. split; [exact I0 | apply Z.eqb_refl]. }
    congruence.
  - intros [j [I N]]. exists j. split; [exact I|]. apply negb_true_iff.
    destruct (existsb (Z.eqb j) (jumps r0)) eqn:E; [|reflexivity].
    apply existsb_exists in E. destruct E as [j' [I' E']]. apply Z.eqb_eq in E'. subst. contradiction.
Qed.

(* ------------------------------------------------------------------ well-positioned syntax *)

Lemma wfp_occs_le ys : forall lo hi, wfp_occs lo ys = Some hi -> lo <= hi.
Proof.
  induction ys as [|y r IH]; simpl; intros lo hi H.
  - inversion H; lia.
  - destruct (lo <? snd y) eqn:E; [|discriminate]. apply Z.ltb_lt in E. apply IH in H. lia.
Qed.

Lemma wfp_occs_in ys : forall lo hi y, wfp_occs lo ys = Some hi -> In y ys -> lo < snd y <= hi.
Proof.
  induction ys as [|z r IH]; simpl; intros lo hi y H I; [contradiction|].
  destruct (lo <? snd z) eqn:E; [|discriminate]. apply Z.ltb_lt in E.
  destruct I as [->|I].
  - apply wfp_occs_le in H. lia.
  - specialize (IH _ _ _ H I). lia.
Qed.

Lemma wfp_oocc_le z lo hi : wfp_oocc lo z = Some hi -> lo <= hi.
Proof.
  destruct z as [y|]; simpl; intro H; [|inversion H; lia].
  destruct (lo <? snd y) eqn:E; [|discriminate]. apply Z.ltb_lt in E. inversion H; lia.
Qed.

Scheme stmt_mind := Induction for stmt Sort Prop
  with block_mind := Induction for block Sort Prop.
Combined Scheme stmt_block_ind from stmt_mind, block_mind.

Lemma wfp_le :
  (forall s lo hi, wfp_stmt lo s = Some hi -> lo <= hi) /\
  (forall b lo hi, wfp_block lo b = Some hi -> lo <= hi).
Proof.
  apply stmt_block_ind; simpl; intros.
  - destruct (lo <? px) eqn:E; [|discriminate]. apply Z.ltb_lt in E. apply wfp_occs_le in H. lia.
  - destruct ((lo <? px) && (px <? snd y)) eqn:E; [|discriminate].
    apply andb_true_iff in E. destruct E as [E1 E2]. apply Z.ltb_lt in E1, E2. apply wfp_oocc_le in H. lia.
  - destruct (lo <? snd o) eqn:E; [|discriminate]. apply Z.ltb_lt in E. apply wfp_oocc_le in H. lia.
  - destruct (wfp_oocc lo recv) eqn:E; [|discriminate]. apply wfp_oocc_le in E. apply wfp_occs_le in H. lia.
  - destruct (lo <? snd y) eqn:E; [|discriminate]. apply Z.ltb_lt in E. inversion H. lia.
  - destruct (lo <? snd y) eqn:E; [|discriminate]. apply Z.ltb_lt in E. inversion H. lia.
  - destruct ((lo <? snd y) && (snd y <? snd z)) eqn:E; [|discriminate].
    apply andb_true_iff in E. destruct E as [E1 E2]. apply Z.ltb_lt in E1, E2. inversion H. lia.
  - destruct (wfp_block lo th) eqn:E; [|discriminate]. apply H in E. apply H0 in H1. lia.
  - destruct ((lo <? px) && (px <? snd o)) eqn:E; [|discriminate].
    apply andb_true_iff in E. destruct E as [E1 E2]. apply Z.ltb_lt in E1, E2.
    destruct (wfp_block (snd o) th) eqn:E; [|discriminate]. apply H in E. apply H0 in H1. lia.
  - eauto.
  - destruct (lo <? p) eqn:E; [|discriminate]. apply Z.ltb_lt in E. inversion H. lia.
  - destruct (lo <? p) eqn:E; [|discriminate]. apply Z.ltb_lt in E. inversion H. lia.
  - destruct v as [| |y]; try (inversion H; lia).
    destruct (lo <? snd y) eqn:E; [|discriminate]. apply Z.ltb_lt in E. inversion H. lia.
  - inversion H; lia.
  - destruct (wfp_occs lo params) eqn:E; [|discriminate]. apply wfp_occs_le in E. apply H in H0. lia.
  - inversion H; lia.
  - destruct (wfp_stmt lo s) eqn:E; [|discriminate]. apply H in E. apply H0 in H1. lia.
Qed.

Definition wfp_stmt_le := proj1 wfp_le.
Definition wfp_block_le := proj2 wfp_le.
