(* C03 — model of sema's resource-linearity analysis on the resource fragment.

   Syntax of the fragment and [check_prog], a code-shaped rendering of the analysis in
   /repo/sema: resources.go (Resources, MergeBranches, mergeResourceInfos), resourceinfo.go,
   return_info.go (ReturnInfo, MergeBranches, MergePotentiallyUnevaluated), function_activations.go
   (WithLoop), checker.go (checkResourceLoss, recordResourceInvalidation, maybeAddResourceInvalidation,
   checkPotentiallyUnevaluated), check_block.go, check_conditional.go, check_while.go, check_for.go,
   check_return_statement.go, check_variable_declaration.go, check_assignment.go, check_swap.go,
   check_destroy_expression.go, check_invocation_expression.go, check_function.go, check_expression.go.

   No proofs in this file. *)
From CV Require Export Base.Prelude.

(* ------------------------------------------------------------------ syntax *)

Definition pos := Z.            (* byte offset in the source *)
Definition name := Z.           (* variable name *)
Definition occ := (name * pos)%type.   (* occurrence of a variable name in an expression *)

Inductive retval := RNone | RCreate | RMove (y : occ).

Inductive stmt : Type :=
| SLet (p : pos) (x : name) (px : pos) (srcs : list occ)
    (* var x <- create R() | var x <- y | var x: @R? <- y | var x <- [<-y, <-z] *)
| SLet2 (p : pos) (x : name) (px : pos) (y : occ) (z : option occ)
    (* var x <- y <- z | var x <- y <- create R() *)
| SAssign (p : pos) (o : occ) (src : option occ)          (* o <-! y | o <-! create R() *)
| SCall (p : pos) (recv : option occ) (optchain : bool) (args : list occ)
    (* consume(<-y, ..) | y.take(<-z, ..) | y?.take(<-z, ..) | y.use() *)
| SRead (p : pos) (y : occ)                               (* y.id *)
| SDestroy (p : pos) (y : occ)                            (* destroy y *)
| SSwap (p : pos) (y z : occ)                             (* y <-> z *)
| SIf (p : pos) (th el : block)                           (* if cond() {..} else {..} *)
| SIfLet (p : pos) (x : name) (px : pos) (o : occ) (th el : block)   (* if let x <- o {..} else {..} *)
| SLoop (p : pos) (body : block)                          (* while cond() {..} | for i in xs {..} *)
| SBreak (p : pos)
| SContinue (p : pos)
| SReturn (p : pos) (v : retval)
| SHalt (p : pos)                                         (* panic("") : call of a function returning Never *)
| SFun (p pb : pos) (params : list (name * pos)) (retres : bool) (body : block)
    (* (nested) function declaration; pb = offset of the function block *)
with block : Type :=
| BNil
| BCons (s : stmt) (b : block).

Fixpoint blk (l : list stmt) : block :=
  match l with [] => BNil | s :: r => BCons s (blk r) end.

Definition stmt_pos (s : stmt) : pos :=
  match s with
  | SLet p _ _ _ | SLet2 p _ _ _ _ | SAssign p _ _ | SCall p _ _ _ | SRead p _ | SDestroy p _
  | SSwap p _ _ | SIf p _ _ | SIfLet p _ _ _ _ _ | SLoop p _ | SBreak p | SContinue p
  | SReturn p _ | SHalt p | SFun p _ _ _ _ => p
  end.

(* Well-positioned programs: the offsets of declarations, variable occurrences and break/continue
   statements increase strictly in source order (as they do in any parsed program).  [wfp_stmt lo s = Some hi]:
   all these offsets of s lie in (lo, hi] and increase. *)
Fixpoint wfp_occs (lo : pos) (ys : list occ) : option pos :=
  match ys with
  | [] => Some lo
  | y :: r => if lo <? snd y then wfp_occs (snd y) r else None
  end.

Definition wfp_oocc (lo : pos) (z : option occ) : option pos :=
  match z with
  | Some y => if lo <? snd y then Some (snd y) else None
  | None => Some lo
  end.

Fixpoint wfp_stmt (lo : pos) (s : stmt) : option pos :=
  match s with
  | SLet p x px srcs => if lo <? px then wfp_occs px srcs else None
  | SLet2 p x px y z => if (lo <? px) && (px <? snd y) then wfp_oocc (snd y) z else None
  | SAssign p o src => if lo <? snd o then wfp_oocc (snd o) src else None
  | SCall p recv oc args =>
      match wfp_oocc lo recv with Some m => wfp_occs m args | None => None end
  | SRead p y => if lo <? snd y then Some (snd y) else None
  | SDestroy p y => if lo <? snd y then Some (snd y) else None
  | SSwap p y z => if (lo <? snd y) && (snd y <? snd z) then Some (snd z) else None
  | SIf p th el =>
      match wfp_block lo th with Some m => wfp_block m el | None => None end
  | SIfLet p x px o th el =>
      if (lo <? px) && (px <? snd o) then
        match wfp_block (snd o) th with Some m => wfp_block m el | None => None end
      else None
  | SLoop p b => wfp_block lo b
  | SBreak p => if lo <? p then Some p else None
  | SContinue p => if lo <? p then Some p else None
  | SReturn p v =>
      match v with
      | RMove y => if lo <? snd y then Some (snd y) else None
      | _ => Some lo
      end
  | SHalt p => Some lo
  | SFun p pb params rr body =>
      match wfp_occs lo params with Some m => wfp_block m body | None => None end
  end
with wfp_block (lo : pos) (b : block) : option pos :=
  match b with
  | BNil => Some lo
  | BCons s r => match wfp_stmt lo s with Some m => wfp_block m r | None => None end
  end.

Definition wf_prog (f : stmt) : bool :=
  match wfp_stmt 0 f with Some _ => true | None => false end.

(* ------------------------------------------------------------------ errors *)

Inductive error :=
| ELoss (v : pos)         (* ResourceLossError at the declaration of the variable *)
| EUse (p : pos)          (* ResourceUseAfterInvalidationError at the use *)
| EUnreach (p : pos)      (* UnreachableStatementError *)
| ECtl (p : pos)          (* ControlStatementError: break/continue outside of a loop *)
| ECapture (p : pos)      (* ResourceCapturingError *)
| EMissingRet (p : pos)   (* MissingReturnStatementError *)
| ERedecl (p : pos)       (* RedeclarationError *)
| ENotDecl (p : pos).     (* NotDeclaredError *)

(* Diagnostics that the real checker does NOT produce.  They mark the places where the real analysis
   is unsound (see Properties/C03.v: C03_sound_refuted); the soundness theorem holds for programs
   without such diagnostics. *)
Inductive diag :=
| DAssignInvalid (p : pos)   (* force-assignment into a (maybe) invalidated variable: target is neither checked nor re-validated *)
| DLoopInval (v : pos)       (* loop body invalidates a variable of the enclosing scope and may run again *)
| DJumpFlag (p : pos).       (* a branch counted as definitely returned/halted although a break/continue escapes from it *)

(* ------------------------------------------------------------------ checker state *)

(* ResourceInvalidationKind *)
Inductive ikind := MoveDefinite | MovePotential | MoveTemporary | DestroyDefinite | DestroyPotential.

Definition is_definite (k : ikind) : bool :=
  match k with MoveDefinite | DestroyDefinite => true | _ => false end.

Definition as_potential (k : ikind) : ikind :=
  match k with MoveDefinite => MovePotential | DestroyDefinite => DestroyPotential | k => k end.

Definition ikind_eqb (a b : ikind) : bool :=
  match a, b with
  | MoveDefinite, MoveDefinite | MovePotential, MovePotential | MoveTemporary, MoveTemporary
  | DestroyDefinite, DestroyDefinite | DestroyPotential, DestroyPotential => true
  | _, _ => false
  end.

(* ResourceInvalidation: kind and start position (the end position is determined by the start) *)
Definition inval := (ikind * pos)%type.
Definition inval_eqb (a b : inval) : bool := ikind_eqb (fst a) (fst b) && (snd a =? snd b).

(* One Resources map: variable (identified by the position of its declaration, i.e. the *Variable) to the
   invalidation recorded in THIS map (ResourceInfo.invalidation); the parents are the tail of the list. *)
Definition layer := pos -> option inval.
Definition empty_layer : layer := fun _ => None.
Definition lset (l : layer) (v : pos) (i : option inval) : layer :=
  fun w => if w =? v then i else l w.

(* ResourceInfo.Invalidation(): first invalidation along the parent chain *)
Fixpoint lookup (ls : list layer) (v : pos) : option inval :=
  match ls with
  | [] => None
  | l :: r => match l v with Some i => Some i | None => lookup r v end
  end.

(* ReturnInfo (MaybeJumpedSwitch/SwitchJumpOffsets omitted: no switch in the fragment) *)
Record rinfo := mkRI {
  mret : bool;    (* MaybeReturned *)
  dret : bool;    (* DefinitelyReturned *)
  dhalt : bool;   (* DefinitelyHalted *)
  dexit : bool;   (* DefinitelyExited *)
  mjump : bool;   (* MaybeJumpedLoop *)
  jumps : list pos  (* LoopJumpOffsets *)
}.
Definition new_ri : rinfo := mkRI false false false false false [].

Definition scope := list (name * pos).

Record state := mkSt {
  top : layer;             (* checker.resources *)
  below : list layer;      (* its parents *)
  ri : rinfo;              (* functionActivation.ReturnInfo *)
  scopes : list scope;     (* value activations of the current function, innermost first *)
  errs : list error;
  diags : list diag
}.

Definition layers (st : state) : list layer := top st :: below st.
Definition inv_of (st : state) (v : pos) : option inval := lookup (layers st) v.

Definition report (e : error) (st : state) : state :=
  mkSt (top st) (below st) (ri st) (scopes st) (e :: errs st) (diags st).
Definition note (d : diag) (st : state) : state :=
  mkSt (top st) (below st) (ri st) (scopes st) (errs st) (d :: diags st).
Definition set_ri (r : rinfo) (st : state) : state :=
  mkSt (top st) (below st) r (scopes st) (errs st) (diags st).
Definition set_top (l : layer) (st : state) : state :=
  mkSt l (below st) (ri st) (scopes st) (errs st) (diags st).
Definition set_scopes (s : list scope) (st : state) : state :=
  mkSt (top st) (below st) (ri st) s (errs st) (diags st).

(* lexical context that does not change while a function body is checked *)
Record ctx := mkCtx {
  outer : list scope;   (* scopes of the enclosing functions *)
  inloop : bool;        (* ControlStack contains a loop *)
  retres : bool         (* the function returns a resource *)
}.

(* ------------------------------------------------------------------ variables *)

Fixpoint find_scope (s : scope) (x : name) : option pos :=
  match s with
  | [] => None
  | (y, v) :: r => if y =? x then Some v else find_scope r x
  end.

Fixpoint find_scopes (ss : list scope) (x : name) : option pos :=
  match ss with
  | [] => None
  | s :: r => match find_scope s x with Some v => Some v | None => find_scopes r x end
  end.

(* valueActivations.Find + checkResourceVariableCapturingInFunction: variable and "captured" flag *)
Definition find_var (c : ctx) (st : state) (x : name) : option (pos * bool) :=
  match find_scopes (scopes st) x with
  | Some v => Some (v, false)
  | None => match find_scopes (outer c) x with Some v => Some (v, true) | None => None end
  end.

(* checkResourceUseAfterInvalidation *)
Definition use_check (v p : pos) (st : state) : state :=
  match inv_of st v with Some _ => report (EUse p) st | None => st end.

(* VisitIdentifierExpression of a resource variable *)
Definition visit_ident (c : ctx) (y : occ) (st : state) : state :=
  match find_var c st (fst y) with
  | None => report (ENotDecl (snd y)) st
  | Some (v, cap) =>
      let st := if cap then report (ECapture (snd y)) st else st in
      use_check v (snd y) st
  end.

(* visitIdentifierExpressionAssignment: target of an assignment or swap *)
Definition visit_target (c : ctx) (y : occ) (st : state) : state :=
  match find_var c st (fst y) with
  | None => report (ENotDecl (snd y)) st
  | Some (v, cap) => if cap then report (ECapture (snd y)) st else st
  end.

(* maybeAddResourceInvalidation + Resources.MaybeRecordInvalidation *)
Definition maybe_add (v : pos) (k : ikind) (p : pos) (st : state) : state :=
  if dexit (ri st) then st
  else
    let only_potential := existsb (fun j => (v <? j) && (j <? p)) (jumps (ri st)) in
    let k' := if only_potential then as_potential k else k in
    match top st v with
    | Some _ => st
    | None => set_top (lset (top st) v (Some (k', p))) st
    end.

(* recordResourceInvalidation on an identifier expression: returns the recorded invalidation (as passed in) *)
Definition record (c : ctx) (y : occ) (k : ikind) (st : state) : state * option (pos * inval) :=
  match find_var c st (fst y) with
  | None => (st, None)
  | Some (v, _) => (maybe_add v k (snd y) st, Some (v, (k, snd y)))
  end.
Definition record_ (c : ctx) (y : occ) (k : ikind) (st : state) : state := fst (record c y k st).

(* Resources.RemoveTemporaryMoveInvalidation / ResourceInfo.DeleteLocally *)
Definition remove_tmp (r : option (pos * inval)) (st : state) : state :=
  match r with
  | None => st
  | Some (v, i) =>
      match top st v with
      | Some j => if inval_eqb j i then set_top (lset (top st) v None) st else st
      | None => st
      end
  end.

(* a moved value `<-y` (unary move / transfer from an identifier): visit, then invalidate *)
Definition move_from (c : ctx) (y : occ) (st : state) : state :=
  record_ c y MoveDefinite (visit_ident c y st).

Fixpoint move_all (c : ctx) (ys : list occ) (st : state) : state :=
  match ys with [] => st | y :: r => move_all c r (move_from c y st) end.

(* variableActivations.declare with allowOuterScopeShadowing *)
Definition in_scope (s : scope) (x : name) : bool :=
  match find_scope s x with Some _ => true | None => false end.

Definition declare (x : name) (px : pos) (st : state) : state :=
  match scopes st with
  | [] => st
  | s :: r => if in_scope s x then report (ERedecl px) st else set_scopes (((x, px) :: s) :: r) st
  end.

(* ------------------------------------------------------------------ loss check *)

Definition definitively_invalidated (st : state) (v : pos) : bool :=
  match inv_of st v with Some (k, _) => is_definite k | None => false end.

Fixpoint loss_vars (vs : scope) (st : state) : state :=
  match vs with
  | [] => st
  | (_, v) :: r =>
      let st := if definitively_invalidated st v then st else report (ELoss v) st in
      loss_vars r st
  end.

(* checkResourceLoss over the given scopes *)
Definition check_loss (ss : list scope) (st : state) : state :=
  if dexit (ri st) && negb (mjump (ri st)) then st
  else loss_vars (concat ss) st.

Definition enter_scope (st : state) : state := set_scopes ([] :: scopes st) st.

(* leaveValueScope(checkResourceLoss = true) *)
Definition leave_scope (st : state) : state :=
  match scopes st with
  | [] => st
  | s :: r => set_scopes r (check_loss [s] st)
  end.

(* ------------------------------------------------------------------ merging *)

(* mergeResourceInfos; the else side is absent for checkPotentiallyUnevaluated *)
Definition merge_infos (thenI : option inval) (thenR : rinfo)
                       (elseI : option inval) (elseR : option rinfo) : option inval :=
  let else_dret := match elseR with Some r => dret r | None => false end in
  let else_dhalt := match elseR with Some r => dhalt r | None => false end in
  match thenI, elseI with
  | Some ti, Some ei =>
      if dret thenR && else_dret then None
      else if dret thenR then Some ei
      else if else_dret then Some ti
      else if negb (is_definite (fst ei)) || negb (is_definite (fst ti))
           then Some (as_potential (fst ti), snd ti)
           else Some ti
  | Some ti, None =>
      if dret thenR then
        (if else_dhalt then Some (DestroyDefinite, 0) else None)
      else
        (if else_dhalt then Some ti else Some (as_potential (fst ti), snd ti))
  | None, Some ei =>
      if else_dret then
        (if dhalt thenR then Some (DestroyDefinite, 0) else None)
      else
        (if dhalt thenR then Some ei else Some (as_potential (fst ei), snd ei))
  | None, None => None
  end.

(* Resources.MergeBranches: pointwise; a resource that already has an invalidation in the outer
   resources is left alone *)
Definition merge_layers (outerL : list layer) (thenL : layer) (thenR : rinfo)
                        (elseL : layer) (elseR : option rinfo) : layer :=
  fun v =>
    let t := hd empty_layer outerL v in      (* the entry of the outer map itself *)
    match t with
    | Some _ => t
    | None =>
        match lookup (tl outerL) v with
        | Some _ => t
        | None => merge_infos (thenL v) thenR (elseL v) elseR
        end
    end.

(* ReturnInfo.MergeBranches *)
Definition merge_ri (r t e : rinfo) : rinfo :=
  mkRI (mret r || mret t || mret e)
       (dret r || (dret t && dret e))
       (dhalt r || (dhalt t && dhalt e))
       (dexit r || (dexit t && dexit e))
       (mjump r || mjump t || mjump e)
       (jumps r ++ jumps t ++ jumps e).

(* ReturnInfo.MergePotentiallyUnevaluated *)
Definition merge_ri_uneval (r t : rinfo) : rinfo :=
  mkRI (mret r || mret t) (dret r) (dhalt r) (dexit r) (mjump r || mjump t) (jumps r).

(* a branch "jumped inside" iff it recorded a jump offset that its initial ReturnInfo did not have *)
Definition jumped_inside (r0 r : rinfo) : bool :=
  existsb (fun j => negb (existsb (Z.eqb j) (jumps r0))) (jumps r).

(* diagnostics for a merge: a branch is counted as returned/halted although it may have jumped, and this
   changes the merge result of some variable of the current function *)
Definition clean (r0 r : rinfo) : rinfo :=
  if jumped_inside r0 r then mkRI (mret r) false false (dexit r) (mjump r) (jumps r) else r.

Definition opt_inval_eqb (a b : option inval) : bool :=
  match a, b with
  | Some i, Some j => inval_eqb i j
  | None, None => true
  | _, _ => false
  end.

Fixpoint flag_diags (p : pos) (vs : scope) (outerL : list layer) (thenL : layer) (r0 thenR : rinfo)
                    (elseL : layer) (elseR : option rinfo) (st : state) : state :=
  match vs with
  | [] => st
  | (_, v) :: r =>
      let raw := merge_layers outerL thenL thenR elseL elseR v in
      let cl := merge_layers outerL thenL (clean r0 thenR) elseL
                  (match elseR with Some e => Some (clean r0 e) | None => None end) v in
      let st := if opt_inval_eqb raw cl then st else note (DJumpFlag p) st in
      flag_diags p r outerL thenL r0 thenR elseL elseR st
  end.

(* checkConditionalBranches *)
Definition check_branches (p : pos) (fthen felse : state -> state) (st : state) : state :=
  let r0 := ri st in
  let stT := fthen (mkSt empty_layer (layers st) r0 (scopes st) (errs st) (diags st)) in
  let stE := felse (mkSt empty_layer (layers st) r0 (scopes st) (errs stT) (diags stT)) in
  let st' := mkSt (merge_layers (layers st) (top stT) (ri stT) (top stE) (Some (ri stE)))
                  (below st) (merge_ri r0 (ri stT) (ri stE)) (scopes st) (errs stE) (diags stE) in
  flag_diags p (concat (scopes st)) (layers st) (top stT) r0 (ri stT) (top stE) (Some (ri stE)) st'.

(* checkPotentiallyUnevaluated *)
Definition check_uneval (f : state -> state) (st : state) : state * layer * rinfo :=
  let r0 := ri st in
  let stT := f (mkSt empty_layer (layers st) r0 (scopes st) (errs st) (diags st)) in
  (mkSt (merge_layers (layers st) (top stT) (ri stT) empty_layer None)
        (below st) (merge_ri_uneval r0 (ri stT)) (scopes st) (errs stT) (diags stT),
   top stT, ri stT).

(* diagnostics for a loop: a variable of the enclosing scopes without invalidation before the loop has one
   at the end of the body, and the body may be entered again *)
Fixpoint loop_diags (vs : scope) (outerL : list layer) (bodyL : layer) (bodyR : rinfo) (st : state) : state :=
  match vs with
  | [] => st
  | (_, v) :: r =>
      let st := match lookup outerL v, bodyL v with
                | None, Some _ => if dret bodyR then st else note (DLoopInval v) st
                | _, _ => st
                end in
      loop_diags r outerL bodyL bodyR st
  end.

(* FunctionActivation.WithLoop (the ControlStack push is the [inloop] flag of the context) *)
Definition with_loop (f : state -> state) (st : state) : state :=
  let saved := mjump (ri st) in
  let saved_jumps := jumps (ri st) in
  let st1 := f st in
  let r1 := ri st1 in
  let r2 := if mjump r1 then mkRI (mret r1) false false false (mjump r1) saved_jumps
            else mkRI (mret r1) (dret r1) (dhalt r1) (dexit r1) (mjump r1) saved_jumps in
  set_ri (mkRI (mret r2) (dret r2) (dhalt r2) (dexit r2) saved (jumps r2)) st1.

Definition set_exit_flags (ret halt jump : bool) (p : pos) (st : state) : state :=
  let r := ri st in
  set_ri (mkRI (mret r || ret) (dret r || ret) (dhalt r || halt) true (mjump r || jump)
               (if jump then p :: jumps r else jumps r)) st.

(* ------------------------------------------------------------------ statements *)

Definition with_ctx_loop (c : ctx) : ctx := mkCtx (outer c) true (retres c).

Fixpoint check_stmt (c : ctx) (s : stmt) (st : state) {struct s} : state :=
  match s with
  | SLet p x px srcs =>
      declare x px (move_all c srcs st)
  | SLet2 p x px y z =>
      (* visitVariableDeclarationValues with a second transfer *)
      let st := visit_ident c y st in
      let '(st, r) := record c y MoveTemporary st in
      let st := visit_target c y st in                       (* checkAssignment: target *)
      let st := match z with Some z => move_from c z st | None => st end in
      let st := remove_tmp r st in
      let st := visit_ident c y st in
      declare x px st
  | SAssign p o src =>
      let st := visit_target c o st in
      let st := match src with Some z => move_from c z st | None => st end in
      (* not in the real checker: the target is not checked *)
      match find_var c st (fst o) with
      | Some (v, _) => match inv_of st v with Some _ => note (DAssignInvalid (snd o)) st | None => st end
      | None => st
      end
  | SCall p recv optchain args =>
      let st := match recv with Some y => visit_ident c y st | None => st end in
      let st := if optchain then fst (fst (check_uneval (move_all c args) st)) else move_all c args st in
      match recv with
      | Some y =>
          (* checkMemberInvocationResourceInvalidation *)
          let '(st, r) := record c y MoveTemporary st in
          let st := remove_tmp r st in
          match r with Some (v, _) => use_check v (snd y) st | None => st end
      | None => st
      end
  | SRead p y => visit_ident c y st
  | SDestroy p y => record_ c y DestroyDefinite (visit_ident c y st)
  | SSwap p y z =>
      let st := visit_target c y st in
      let st := visit_target c z st in
      let st := visit_ident c y st in
      visit_ident c z st
  | SIf p th el =>
      check_branches p
        (fun st => leave_scope (check_block c th (enter_scope st)))
        (fun st => leave_scope (check_block c el (enter_scope st)))
        st
  | SIfLet p x px o th el =>
      let st := move_from c o st in
      check_branches p
        (fun st =>
           let st := declare x px (enter_scope st) in
           let st := leave_scope (check_block c th (enter_scope st)) in
           leave_scope st)
        (fun st => leave_scope (check_block c el (enter_scope st)))
        st
  | SLoop p body =>
      let '(st', bodyL, bodyR) :=
        check_uneval (with_loop (fun st => leave_scope (check_block (with_ctx_loop c) body (enter_scope st)))) st in
      loop_diags (concat (scopes st)) (layers st) bodyL bodyR st'
  | SBreak p =>
      if inloop c then set_exit_flags false false true p st else report (ECtl p) st
  | SContinue p =>
      if inloop c then set_exit_flags false false true p st else report (ECtl p) st
  | SReturn p v =>
      let st := match v with RMove y => move_from c y st | _ => st end in
      let st := check_loss (scopes st) st in
      set_exit_flags true false false p st
  | SHalt p => set_exit_flags false true false p st
  | SFun p pb params rr body =>
      (* checkFunction: new function activation, parameter scope, body scope *)
      let c' := mkCtx (scopes st ++ outer c) false rr in
      let st1 := mkSt (top st) (below st) new_ri [[]; rev params] (errs st) (diags st) in
      let st1 := check_block c' body st1 in
      let st1 := leave_scope st1 in                                   (* visitFunctionBlock *)
      let st1 := if rr && negb (dexit (ri st1)) then report (EMissingRet pb) st1 else st1 in   (* checkFunctionExits *)
      let st1 := match scopes st1 with
                 | s :: r => if dhalt (ri st1) then set_scopes r st1 else leave_scope st1
                 | [] => st1
                 end in
      mkSt (top st1) (below st1) (ri st) (scopes st) (errs st1) (diags st1)
  end

(* visitStatements *)
with check_block (c : ctx) (b : block) (st : state) {struct b} : state :=
  match b with
  | BNil => st
  | BCons s r =>
      if dexit (ri st) then report (EUnreach (stmt_pos s)) st
      else check_block c r (check_stmt c s st)
  end.

(* a program is a top-level function declaration *)
Definition init_state : state := mkSt empty_layer [] new_ri [] [] [].
Definition init_ctx : ctx := mkCtx [] false false.

Definition run_prog (f : stmt) : state := check_stmt init_ctx f init_state.

(* errors reported by the real checker / extra diagnostics *)
Definition check_prog (f : stmt) : list error := errs (run_prog f).
Definition strict_diags (f : stmt) : list diag := diags (run_prog f).

Definition check_lin (f : stmt) : bool :=
  match check_prog f with [] => true | _ => false end.
