(* C03 — proofs, part 6: scoped blocks, optional binding, function declarations; errors are only added. *)
From CV Require Import C03.Model C03.Paths C03.ProofsBase C03.ProofsRel C03.ProofsStep C03.ProofsSimple C03.ProofsSkip.
From Coq Require Import Lia.
Set Implicit Arguments.

Lemma C_of_in_vs A k ys vs w i : In (w, i) (C_of A k ys vs) -> In w vs.
Proof.
  unfold C_of. rewrite in_map_iff. intros [[y v] [E I]]. simpl in E. inversion E; subst.
  eapply in_combine_r; eauto.
Qed.

Lemma Forall2_in_r {X Y} (R : X -> Y -> Prop) l1 l2 y : Forall2 R l1 l2 -> In y l2 -> exists x, In x l1 /\ R x y.
Proof.
  induction 1; simpl; intros I; [contradiction|]. destruct I as [<-|I]; [eauto|].
  destruct (IHForall2 I) as [x0 [? ?]]. eauto.
Qed.

Lemma C_call_in_vs A oc args vs w i : In (w, i) (C_call A oc args vs) -> In w vs.
Proof.
  unfold C_call. destruct oc; [|apply C_of_in_vs].
  unfold potentialize. rewrite in_map_iff. intros [[w' i'] [E I]]. simpl in E. inversion E; subst.
  eapply C_of_in_vs; eauto.
Qed.

Lemma resolved_in_scopes A ys vs w : Forall2 (resolves A) ys vs -> In w vs -> In w (map snd (concat (scopes A))).
Proof. intros F I. eapply Forall2_in_r in I; [|exact F]. destruct I as [y [_ R]]. eapply resolves_in_snd; eauto. Qed.

Lemma SPost_refl A lo : ok A -> AInv lo A -> SPost lo lo A A.
Proof.
  intros O I. apply BPost_SPost; [|apply (ai_nonempty I)].
  eapply step_SPost; [apply step_refl | exact O | exact I | lia | apply KindOK_nil | intros ? ? []].
Qed.

Lemma SPost_mono lo hi hi' A A' : SPost lo hi A A' -> hi <= hi' -> SPost lo hi' A A'.
Proof.
  intros [O I B S F K] L. constructor; auto.
  - eapply AInv_mono; eauto.
  - destruct S as [s [r [n [E1 [E2 L1]]]]]. exists s, r, n. repeat split; auto; specialize (L1 _ _ H); lia.
Qed.

Lemma BPost_mono lo hi hi' A A' : BPost lo hi A A' -> hi <= hi' -> BPost lo hi' A A'.
Proof. intros [O I B S F K] L. constructor; auto. eapply AInv_mono; eauto. Qed.

Lemma BPost_trans lo m hi A A1 A2 : BPost lo m A A1 -> BPost m hi A1 A2 -> lo <= m -> BPost lo hi A A2.
Proof.
  intros [O1 I1 B1 S1 F1 K1] [O2 I2 B2 S2 F2 K2] L. constructor; auto; try congruence.
  intros v Lv Nv. rewrite F2, F1; auto; [lia | rewrite S1; exact Nv].
Qed.

(* a block in its own scope *)
Definition scoped_fun (c : ctx) (b : block) (st : state) : state :=
  leave_scope (check_block c b (enter_scope st)).

Definition block_IH (b : block) : Prop :=
  forall c A lo hi, ok (check_block c b A) -> wfp_block lo b = Some hi -> AInv lo A ->
                    SPost lo hi A (check_block c b A).

Lemma ok_enter_scope A : ok (enter_scope A) <-> ok A.
Proof. unfold enter_scope. apply ok_set_scopes. Qed.

Lemma scoped_branch_fun c b lo hi :
  block_IH b -> wfp_block lo b = Some hi -> branch_fun (scoped_fun c b) lo hi.
Proof.
  intros IH W T H I D. unfold scoped_fun in *.
  destruct (leave_scope_ok _ H) as [LS OX].
  pose proof (IH c (enter_scope T) lo hi OX W (AInv_enter I)) as P.
  destruct (sp_scopes P) as [s [r [n [E1 [E2 L1]]]]]. simpl in E1. injection E1 as <- <-.
  rewrite E2 in LS. destruct LS as [EQ _]. rewrite EQ.
  constructor; simpl.
  - apply ok_enter_scope. apply (sp_ok P).
  - eapply AInv_leave; [exact E2 | apply (ai_nonempty I) | apply (sp_inv P)].
  - apply (sp_below P).
  - reflexivity.
  - intros v Lv Nv. apply (sp_frame P); simpl; auto.
  - intros k st j R. eapply RelJ_leave; [exact E2|]. apply (sp_skip P). apply RelJ_enter. exact R.
Qed.

(* the then-branch of an optional binding: a scope for the bound variable around the block *)
Definition iflet_fun (c : ctx) (x : name) (px : pos) (b : block) (st : state) : state :=
  leave_scope (leave_scope (check_block c b (enter_scope (declare x px (enter_scope st))))).

Lemma iflet_branch_fun c x px b lo lo' hi :
  block_IH b -> lo < px <= lo' -> wfp_block lo' b = Some hi -> branch_fun (iflet_fun c x px b) lo hi.
Proof.
  intros IH Lp W T H I D. unfold iflet_fun in *.
  pose proof (wfp_block_le _ _ W) as Lh.
  change (declare x px (enter_scope T)) with (set_scopes ([(x, px)] :: scopes T) T) in *.
  set (T2 := set_scopes ([(x, px)] :: scopes T) T) in *.
  destruct (leave_scope_ok _ H) as [LS1 O1].
  destruct (leave_scope_ok _ O1) as [LS2 OX].
  assert (I2 : AInv lo' T2).
  { destruct I as [U R F S J N]. constructor; simpl; auto.
    - intros v Hv. apply F. lia.
    - intros y v [Hv|Hv]; [inversion Hv; lia|]. specialize (S _ _ Hv). lia.
    - intros j Hj. specialize (J _ Hj). lia.
    - discriminate. }
  pose proof (IH c (enter_scope T2) lo' hi OX W (AInv_enter I2)) as P.
  destruct (sp_scopes P) as [s [r [n [E1 [E2 L1]]]]]. simpl in E1. injection E1 as <- <-.
  rewrite E2 in LS2. destruct LS2 as [EQ2 _]. rewrite EQ2 in *.
  simpl in LS1. destruct LS1 as [EQ1 _]. rewrite EQ1.
  constructor; simpl.
  - apply (sp_ok P).
  - pose proof (sp_inv P) as [U R F S J N]. constructor; simpl; auto.
    + intros y v Hv. apply (S y v). rewrite E2. simpl. apply in_or_app. right. simpl. right. exact Hv.
    + apply (ai_nonempty I).
  - apply (sp_below P).
  - reflexivity.
  - intros v Lv Nv. apply (sp_frame P); simpl; [lia|].
    intros [Hv|Hv]; [lia | contradiction].
  - intros k st j R.
    assert (R2 : RelJ (S (S k)) (enter_scope T2) st j).
    { destruct R as [Rs Ra Rm Ri Rb Rr]. constructor; simpl; auto. }
    pose proof (sp_skip P R2) as [Rs Ra Rm Ri Rb Rr]. rewrite E2 in Rs. constructor; simpl; auto.
Qed.

(* ---------------------------------------------------------------- function declarations *)

Definition fun_start (A : state) (params : list (name * pos)) : state :=
  mkSt (top A) (below A) new_ri [[]; rev params] (errs A) (diags A).

Lemma AInv_fun_start A params lo m : AInv lo A -> wfp_occs lo params = Some m -> AInv m (fun_start A params).
Proof.
  intros [U R F S J N] W. pose proof (wfp_occs_le _ _ W) as L. constructor; simpl; auto.
  - apply ri_wf_new.
  - intros v Hv. apply F. lia.
  - intros x v Hv. rewrite app_nil_r in Hv. apply in_rev in Hv.
    pose proof (wfp_occs_in _ _ (x, v) W Hv). simpl in *. lia.
  - intros j [].
  - discriminate.
Qed.

Lemma fun_BPost c p pb params rr body A lo m hi :
  block_IH body -> wfp_occs lo params = Some m -> wfp_block m body = Some hi ->
  ok (check_stmt c (SFun p pb params rr body) A) -> AInv lo A ->
  BPost lo hi A (check_stmt c (SFun p pb params rr body) A) /\
  (forall v, v <= lo -> top (check_stmt c (SFun p pb params rr body) A) v = top A v).
Proof.
  intros IH Wp Wb H I. simpl in H |- *.
  fold (fun_start A params) in *.
  set (c' := mkCtx (scopes A ++ outer c) false rr) in *.
  set (X := check_block c' body (fun_start A params)) in *.
  set (L1 := leave_scope X) in *.
  set (L2 := if rr && negb (dexit (ri L1)) then report (EMissingRet pb) L1 else L1) in *.
  set (L3 := match scopes L2 with
             | [] => L2
             | _ :: r => if dhalt (ri L2) then set_scopes r L2 else leave_scope L2
             end) in *.
  assert (O3 : ok L3) by exact H.
  assert (O2 : ok L2).
  { subst L3. destruct (scopes L2) as [|s r]; [exact O3|].
    destruct (dhalt (ri L2)); [apply ok_set_scopes in O3; exact O3 | apply leave_scope_ok in O3; tauto]. }
  assert (E2 : L2 = L1).
  { subst L2. destruct (rr && negb (dexit (ri L1))); [exfalso; eapply report_not_ok; eauto | reflexivity]. }
  rewrite E2 in O2.
  assert (OX : ok X) by (subst L1; apply leave_scope_ok in O2; tauto).
  pose proof (wfp_occs_le _ _ Wp) as Lm. pose proof (wfp_block_le _ _ Wb) as Lh.
  pose proof (IH c' (fun_start A params) m hi OX Wb (@AInv_fun_start A params lo m I Wp)) as P.
  assert (T3 : top L3 = top X /\ below L3 = below X).
  { assert (T1 : top L1 = top X /\ below L1 = below X).
    { subst L1. destruct (leave_scope_ok _ O2) as [G _]. destruct (scopes X); [rewrite G; auto|].
      destruct G as [-> _]. auto. }
    subst L3. rewrite E2 in *. destruct (scopes L1) as [|s r]; [exact T1|].
    destruct (dhalt (ri L1)); [exact T1|].
    destruct (leave_scope_ok _ O3) as [G _].
    (* leave_scope does not change the layers *)
    unfold leave_scope in *. destruct (scopes L1) as [|s' r']; [exact T1|].
    destruct G as [-> _]. exact T1. }
  destruct T3 as [T3 B3].
  assert (BX : below X = below A) by (apply (sp_below P)).
  assert (FR : forall v, v <= lo -> top X v = top A v).
  { intros v Lv. rewrite (sp_frame P); [reflexivity | simpl; lia |].
    simpl. rewrite app_nil_r. intro Hv. apply in_map_iff in Hv. destruct Hv as [[x w] [Ew Hw]].
    simpl in Ew. subst w. apply in_rev in Hw. pose proof (wfp_occs_in _ _ (x, v) Wp Hw). simpl in *. lia. }
  split; [|intros v Lv; simpl; rewrite T3; apply FR; exact Lv].
  constructor; simpl.
  - exact (sp_ok P).
  - pose proof (sp_inv P) as [U R F S J N]. constructor; simpl.
    + intros v Hv. rewrite T3 in Hv. rewrite B3. apply U. exact Hv.
    + apply (ai_ri I).
    + intros v Hv. unfold inv_of, layers. simpl. rewrite T3, B3. apply F. exact Hv.
    + intros x v Hv. pose proof (ai_scopes I _ _ Hv). lia.
    + intros j Hj. pose proof (ai_jumps I _ Hj). lia.
    + apply (ai_nonempty I).
  - rewrite B3. exact BX.
  - reflexivity.
  - intros v Lv _. rewrite T3. apply FR. exact Lv.
  - intros k st j R. pose proof R as [Rs Ra Rm Ri Rb Rr]. constructor; simpl; auto.
    rewrite Forall_forall in *. intros b Ib. specialize (Ra b Ib). specialize (Rb b Ib).
    pose proof (ai_jumps I _ Ri).
    apply agree_agr. apply agree_agr in Ra.
    assert (EI : inv_of (mkSt (top L3) (below L3) (ri A) (scopes A) (errs L3) (diags L3)) (bpos b) = inv_of A (bpos b)).
    { unfold inv_of, layers. simpl. rewrite T3, B3, BX. rewrite FR by lia. reflexivity. }
    rewrite EI. exact Ra.
Qed.
(* errors and diagnostics are only ever added *)

Lemma ok_visit_ident c y st : ok (visit_ident c y st) -> ok st.
Proof. intro H. destruct (visit_ident_ok _ _ _ H) as [v [_ [_ E]]]. rewrite E in H. exact H. Qed.

Lemma ok_visit_target c y st : ok (visit_target c y st) -> ok st.
Proof. intro H. destruct (visit_target_ok _ _ _ H) as [v [_ E]]. rewrite E in H. exact H. Qed.

Lemma ok_move_from c y st : ok (move_from c y st) -> ok st.
Proof. unfold move_from, record_. intro H. apply ok_record in H. apply ok_visit_ident in H. exact H. Qed.

Lemma ok_move_all c ys : forall st, ok (move_all c ys st) -> ok st.
Proof. induction ys; simpl; intros st H; [exact H|]. apply IHys in H. apply ok_move_from in H. exact H. Qed.

Lemma ok_omove c z st : ok (omove c z st) -> ok st.
Proof. destruct z; simpl; [apply ok_move_from | auto]. Qed.

Lemma ok_check_loss ss st : ok (check_loss ss st) -> ok st.
Proof. intro H. destruct (check_loss_ok _ _ H) as [E _]. rewrite E in H. exact H. Qed.

Lemma ok_leave_scope st : ok (leave_scope st) -> ok st.
Proof. intro H. apply leave_scope_ok in H. tauto. Qed.

Lemma ok_set_exit_flags a b c p st : ok (set_exit_flags a b c p st) <-> ok st.
Proof. unfold set_exit_flags. apply ok_set_ri. Qed.

Lemma ok_flag_diags p vs oL tL r0 tR eL eR st : ok (flag_diags p vs oL tL r0 tR eL eR st) -> ok st.
Proof. intro H. destruct (flag_diags_ok _ _ _ _ _ _ _ _ _ H) as [E _]. rewrite E in H. exact H. Qed.

Lemma ok_loop_diags vs oL bL bR st : ok (loop_diags vs oL bL bR st) -> ok st.
Proof. intro H. destruct (loop_diags_ok _ _ _ _ _ H) as [E _]. rewrite E in H. exact H. Qed.

Definition mono (f : state -> state) : Prop := forall st, ok (f st) -> ok st.

Lemma ok_check_branches p fT fE A : mono fT -> mono fE -> ok (check_branches p fT fE A) -> ok A.
Proof.
  intros MT ME H. unfold check_branches in H. apply ok_flag_diags in H.
  match type of H with ok (mkSt _ _ _ _ (errs ?X) (diags ?X)) => assert (OE : ok X) by exact H end.
  apply ME in OE.
  match type of OE with ok (mkSt _ _ _ _ (errs ?X) (diags ?X)) => assert (OT : ok X) by exact OE end.
  apply MT in OT. exact OT.
Qed.

Lemma ok_loop_result fB A : mono fB -> ok (loop_result fB A) -> ok A.
Proof.
  intros MB H. unfold loop_result, check_uneval in H. apply ok_loop_diags in H.
  rewrite with_loop_eq in H. simpl in H.
  match type of H with ok (mkSt _ _ _ _ (errs ?X) (diags ?X)) => assert (OB : ok X) by exact H end.
  apply MB in OB. exact OB.
Qed.

Lemma ok_mono :
  (forall s c, mono (check_stmt c s)) /\ (forall b c, mono (check_block c b)).
Proof.
  apply stmt_block_ind; unfold mono.
  - intros p x px srcs c st H. simpl in H. apply ok_declare in H. apply ok_move_all in H. exact H.
  - intros p x px y z c st H. rewrite check_let2 in H. apply ok_declare in H. unfold let2_body in H.
    destruct (record c y MoveTemporary (visit_ident c y st)) as [S2 r] eqn:ER.
    apply ok_visit_ident in H. apply ok_remove_tmp in H. apply ok_omove in H. apply ok_visit_target in H.
    assert (ok (fst (record c y MoveTemporary (visit_ident c y st)))) by (rewrite ER; exact H).
    apply ok_record in H0. apply ok_visit_ident in H0. exact H0.
  - intros p o src c st H. simpl in H. fold (omove c src (visit_target c o st)) in H.
    set (S2 := omove c src (visit_target c o st)) in *.
    assert (ok S2).
    { destruct (find_var c S2 (fst o)) as [[v cap]|]; [|exact H].
      destruct (inv_of S2 v); [exfalso; eapply note_not_ok; eauto | exact H]. }
    apply ok_omove in H0. apply ok_visit_target in H0. exact H0.
  - intros p recv oc args c st H. rewrite check_call in H. apply ok_call_recv in H.
    assert (forall X, ok (call_args c oc args X) -> ok X).
    { intros X HX. unfold call_args in HX. destruct oc; [|apply ok_move_all in HX; exact HX].
      unfold check_uneval in HX. simpl in HX.
      match type of HX with ok (mkSt _ _ _ _ (errs ?Y) (diags ?Y)) => assert (OY : ok Y) by exact HX end.
      apply ok_move_all in OY. exact OY. }
    apply H0 in H. destruct recv; [apply ok_visit_ident in H|]; exact H.
  - intros p y c st H. simpl in H. apply ok_visit_ident in H. exact H.
  - intros p y c st H. simpl in H. unfold record_ in H. apply ok_record in H. apply ok_visit_ident in H. exact H.
  - intros p y z c st H. simpl in H. repeat (first [apply ok_visit_ident in H | apply ok_visit_target in H]). exact H.
  - intros p th IHt el IHe c st H.
    change (check_stmt c (SIf p th el) st) with (check_branches p (scoped_fun c th) (scoped_fun c el) st) in H.
    eapply ok_check_branches; [| | exact H]; intros X HX; unfold scoped_fun in HX;
      apply ok_leave_scope in HX; [apply IHt in HX | apply IHe in HX]; apply ok_enter_scope in HX; exact HX.
  - intros p x px o th IHt el IHe c st H.
    change (check_stmt c (SIfLet p x px o th el) st)
      with (check_branches p (iflet_fun c x px th) (scoped_fun c el) (move_from c o st)) in H.
    apply ok_move_from with (c := c) (y := o).
    eapply ok_check_branches; [| | exact H]; intros X HX.
    + unfold iflet_fun in HX. apply ok_leave_scope in HX. apply ok_leave_scope in HX. apply IHt in HX.
      apply ok_enter_scope in HX. apply ok_declare in HX. apply ok_enter_scope in HX. exact HX.
    + unfold scoped_fun in HX. apply ok_leave_scope in HX. apply IHe in HX. apply ok_enter_scope in HX. exact HX.
  - intros p body IHb c st H.
    change (check_stmt c (SLoop p body) st) with (loop_result (scoped_fun (with_ctx_loop c) body) st) in H.
    eapply ok_loop_result; [|exact H]. intros X HX. unfold scoped_fun in HX.
    apply ok_leave_scope in HX. apply IHb in HX. apply ok_enter_scope in HX. exact HX.
  - intros p c st H. simpl in H. destruct (inloop c); [apply ok_set_exit_flags in H; exact H | exfalso; eapply report_not_ok; eauto].
  - intros p c st H. simpl in H. destruct (inloop c); [apply ok_set_exit_flags in H; exact H | exfalso; eapply report_not_ok; eauto].
  - intros p v c st H. simpl in H. apply ok_set_exit_flags in H. apply ok_check_loss in H.
    destruct v; [exact H | exact H | apply ok_move_from in H; exact H].
  - intros p c st H. simpl in H. apply ok_set_exit_flags in H. exact H.
  - intros p pb params rr body IHb c st H. simpl in H.
    match type of H with ok (mkSt _ _ _ _ (errs ?X) (diags ?X)) => assert (O3 : ok X) by exact H end.
    clear H. revert O3.
    set (L1 := leave_scope (check_block _ body _)).
    set (L2 := if rr && negb (dexit (ri L1)) then report (EMissingRet pb) L1 else L1).
    intro O3.
    assert (O2 : ok L2).
    { destruct (scopes L2) as [|s r]; [exact O3|].
      destruct (dhalt (ri L2)); [apply ok_set_scopes in O3; exact O3 | apply ok_leave_scope in O3; exact O3]. }
    assert (O1 : ok L1).
    { subst L2. destruct (rr && negb (dexit (ri L1))); [exfalso; eapply report_not_ok; eauto | exact O2]. }
    subst L1. apply ok_leave_scope in O1. apply IHb in O1. exact O1.
  - intros c st H. exact H.
  - intros s IHs b IHb c st H. simpl in H. destruct (dexit (ri st)); [exfalso; eapply report_not_ok; eauto|].
    apply IHb in H. apply IHs in H. exact H.
Qed.
