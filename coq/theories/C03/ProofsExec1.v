(* C03 — proofs, part 9: paths through simple statements. *)
From CV Require Import C03.Model C03.Paths C03.ProofsBase C03.ProofsRel C03.ProofsStep C03.ProofsSimple C03.ProofsSkip C03.ProofsStruct C03.ProofsSkipMain C03.ProofsConc.
From Coq Require Import Lia.
Set Implicit Arguments.

(* ---------------------------------------------------------------- what holds after a path through a statement *)

Definition Post (lo : pos) (o : outcome) (A' : state) (st' : cstate) : Prop :=
  match o with
  | ONormal => RelN A' st'
  | OBreak | OContinue => exists j, lo < j /\ RelJ 0 A' st' j
  | OReturn => length st' = length (scopes A') /\ Forall (fun b => blive b = false) (concat st')
  | OHalt => True
  end.

Definition EPost (lo hi : pos) (o : outcome) (A' : state) (st st' : cstate) : Prop :=
  Post lo o A' st' /\
  (o <> OHalt -> Bounded hi st' /\ exists n, shape st' = (n ++ hd [] (shape st)) :: tl (shape st)).

Definition Exec (lo hi : pos) (t : list ev) (o : outcome) (A A' : state) : Prop :=
  forall st, RelN A st -> Bounded lo st -> exists st', run t st = Some st' /\ EPost lo hi o A' st st'.

Lemma shape_nonempty A st lo : RelN A st -> AInv lo A -> shape st = hd [] (shape st) :: tl (shape st).
Proof.
  intros R I. rewrite (rn_shape R). destruct (scopes A) eqn:E; [exfalso; apply (ai_nonempty I); exact E | reflexivity].
Qed.

(* a step whose trace kills exactly ds *)
Lemma exec_step A A' C lo hi t ds :
  Step A A' C -> AInv lo A -> lo <= hi ->
  (forall d, In d ds -> In d (map fst C)) ->
  (forall w k p, In (w, (k, p)) C -> is_definite k = true -> In w ds) ->
  (forall st, RelN A st -> Bounded lo st -> run t st = Some (kill ds st)) ->
  Exec lo hi t ONormal A A'.
Proof.
  intros S I L D1 D2 RUN st R B. exists (kill ds st). split; [apply RUN; auto|].
  split; [simpl; eapply step_RelN; eauto|]. intros _. split.
  - eapply Bounded_mono; [apply Bounded_kill; exact B | exact L].
  - exists []. rewrite shape_kill. simpl. eapply shape_nonempty; eauto.
Qed.

(* the same followed by the declaration of x *)
Lemma exec_step_decl A A1 C lo hi t ds x px :
  Step A A1 C -> AInv lo A -> lo < px <= hi -> ok (declare x px A1) ->
  (forall w i, In (w, i) C -> w <= lo) ->
  (forall d, In d ds -> In d (map fst C)) ->
  (forall w k p, In (w, (k, p)) C -> is_definite k = true -> In w ds) ->
  (forall st, RelN A st -> Bounded lo st -> run t st = Some (kill ds st)) ->
  Exec lo hi (t ++ [VDecl x px]) ONormal A (declare x px A1).
Proof.
  intros S I L O W D1 D2 RUN st R B.
  assert (R1 : RelN A1 (kill ds st)) by (eapply step_RelN; eauto).
  assert (I1 : AInv lo A1) by (eapply step_AInv; eauto; lia).
  destruct (@declare_RelN x px A1 (kill ds st) lo O I1 (proj1 L) R1 (Bounded_kill ds B)) as [s [r [E [R2 B2]]]].
  exists (((x, px, true) :: s) :: r). split.
  - rewrite run_app, (RUN st R B), E. reflexivity.
  - split; [exact R2|]. intros _. split; [eapply Bounded_mono; [exact B2 | lia]|].
    exists [(x, px)]. pose proof (shape_kill ds st) as SK. rewrite E in SK. simpl in SK.
    rewrite <- SK. simpl. reflexivity.
Qed.

Ltac plia := unfold pos, name, occ in *; lia.

Lemma resolved_le A lo ys vs w : AInv lo A -> Forall2 (resolves A) ys vs -> In w vs -> w <= lo.
Proof.
  intros I F Iw. eapply Forall2_in_r in Iw; [|exact F]. destruct Iw as [y [_ R]].
  apply resolves_in in R. apply (ai_scopes I _ _ R).
Qed.

Lemma run_consume_resolved A ys vs st :
  RelN A st -> NoDup (cpos st) -> Forall2 (resolves A) ys vs -> NoDup vs ->
  (forall v, In v vs -> inv_of A v = None) ->
  run (consume_all ys) st = Some (kill vs st).
Proof.
  intros R N F ND NV. eapply run_consume_all with (ss := scopes A); eauto.
  - apply (rn_shape R).
  - intros v Iv. eapply RelN_live_in; eauto.
Qed.

Lemma exec_SLet c p x px srcs A lo hi :
  ok (check_stmt c (SLet p x px srcs) A) -> wfp_stmt lo (SLet p x px srcs) = Some hi -> AInv lo A ->
  Exec lo hi (consume_all srcs ++ [VDecl x px]) ONormal A (check_stmt c (SLet p x px srcs) A).
Proof.
  intros H W I st R B. pose proof (rn_reach R) as D. simpl in H, W |- *. wf_split W.
  pose proof (wfp_occs_le _ _ W) as Lh.
  pose proof (ok_declare _ _ _ H) as O1.
  destruct (move_all_ok c srcs A O1 D) as [vs [RS [N [O S]]]].
  assert (MF : map fst (C_of A MoveDefinite srcs vs) = vs) by (apply map_fst_C_of; eapply Forall2_length; eauto).
  assert (ND : NoDup vs) by (rewrite <- MF; apply (st_nodup S)).
  refine (@exec_step_decl A _ _ lo hi _ vs x px S I _ H _ _ _ _ st R B).
  - lia.
  - intros w i G. eapply resolved_le; eauto. eapply C_of_in_vs; eauto.
  - intros d Id. rewrite MF. exact Id.
  - intros w k q G _. eapply C_of_in_vs; eauto.
  - intros st0 R0 [_ N0]. eapply run_consume_resolved; eauto.
Qed.

(* second-value transfer *)
Lemma relive_refill vy zs b :
  ~ In vy zs -> (bpos b = vy -> blive b = true) ->
  relive vy true (killb zs (relive vy false b)) = killb zs b.
Proof.
  intros NI L. destruct b as [[n q] l]. unfold relive, killb, bpos, bname, blive in *. cbn [fst snd] in *.
  destruct (q =? vy) eqn:E; cbn [fst snd].
  - apply Z.eqb_eq in E. subst q. rewrite (L eq_refl). simpl.
    assert (K : existsb (Z.eqb vy) zs = false).
    { destruct (existsb (Z.eqb vy) zs) eqn:Q; [|reflexivity]. apply existsb_exists in Q.
      destruct Q as [z [Iz Ez]]. apply Z.eqb_eq in Ez. subst z. contradiction. }
    rewrite K. cbn [fst snd]. rewrite Z.eqb_refl. reflexivity.
  - destruct (existsb (Z.eqb q) zs); cbn [fst snd]; rewrite E; reflexivity.
Qed.

Lemma refill_kill vy zs st :
  ~ In vy zs -> live_in st vy -> set_live vy true (kill zs (set_live vy false st)) = kill zs st.
Proof.
  intros NI L. unfold set_live, kill. rewrite !map_map. apply map_ext_in. intros s Is.
  rewrite !map_map. apply map_ext_in. intros b Ib. apply relive_refill; [exact NI|].
  intro P. apply L; [apply in_concat; eauto | exact P].
Qed.

Lemma live_in_kill_other st v zs : ~ In v zs -> live_in st v -> live_in (kill zs st) v.
Proof.
  intros NI L b Ib Pb. rewrite concat_kill in Ib. apply in_map_iff in Ib. destruct Ib as [b0 [E I0]]. subst b.
  unfold killb in *. destruct (existsb (Z.eqb (bpos b0)) zs) eqn:Q.
  - apply existsb_exists in Q. destruct Q as [z [Iz Ez]]. apply Z.eqb_eq in Ez. subst z.
    unfold bpos in Pb. simpl in Pb. unfold bpos in Iz. rewrite Pb in Iz. contradiction.
  - apply L; assumption.
Qed.

Lemma run_opt_consume A z vs st :
  RelN A st -> NoDup (cpos st) ->
  match z with
  | Some z => exists vz, resolves A z vz /\ inv_of A vz = None /\ vs = [vz]
  | None => vs = []
  end ->
  run (opt_consume z) st = Some (kill vs st).
Proof.
  intros R N H. destruct z as [z|].
  - destruct H as [vz [Rz [Nz ->]]]. simpl opt_consume.
    change [VConsume (fst z)] with (consume_all [z]).
    apply (@run_consume_resolved A [z] [vz] st R N).
    + constructor; [exact Rz | constructor].
    + constructor; [intros [] | constructor].
    + intros v [<-|[]]. exact Nz.
  - subst vs. simpl. rewrite kill_nil. reflexivity.
Qed.

Lemma C_single_facts (A : state) (z : option occ) (C : list (pos * inval)) :
  match z with
  | Some z => exists vz, resolves A z vz /\ inv_of A vz = None /\
                         C = [(vz, (eff_kind A vz MoveDefinite (snd z), snd z))]
  | None => C = []
  end ->
  exists vs, map fst C = vs /\
    match z with
    | Some z => exists vz, resolves A z vz /\ inv_of A vz = None /\ vs = [vz]
    | None => vs = []
    end.
Proof.
  destruct z as [z|].
  - intros [vz [R [N ->]]]. exists [vz]. split; [reflexivity|]. exists vz. auto.
  - intros ->. exists []. auto.
Qed.

Lemma exec_SLet2 c p x px y z A lo hi :
  ok (check_stmt c (SLet2 p x px y z) A) -> wfp_stmt lo (SLet2 p x px y z) = Some hi -> AInv lo A ->
  Exec lo hi (VConsume (fst y) :: opt_consume z ++ [VRefill (fst y); VDecl x px]) ONormal A
       (check_stmt c (SLet2 p x px y z) A).
Proof.
  intros H W I st R B. pose proof (rn_reach R) as D. rewrite check_let2 in *. simpl in W. wf_split W.
  pose proof (wfp_oocc_le _ _ W) as Lh.
  pose proof (ok_declare _ _ _ H) as O1.
  destruct (let2_body_ok c y z A O1 D) as [vy [C [Ry [Ny [O [S [NI CZ]]]]]]].
  destruct (C_single_facts A z C CZ) as [vs [MF VZ]].
  assert (TR : VConsume (fst y) :: opt_consume z ++ [VRefill (fst y); VDecl x px] =
               ([VConsume (fst y)] ++ opt_consume z ++ [VRefill (fst y)]) ++ [VDecl x px]).
  { simpl. f_equal. rewrite <- app_assoc. reflexivity. }
  rewrite TR.
  refine (@exec_step_decl A _ C lo hi _ vs x px S I _ H _ _ _ _ st R B).
  - plia.
  - intros w i G. assert (In w vs) by (rewrite <- MF; apply in_map_iff; exists (w, i); auto).
    destruct z as [z|]; [|rewrite VZ in H0; contradiction]. destruct VZ as [vz [Rz [_ VE]]]. rewrite VE in H0.
    destruct H0 as [<-|[]]. apply resolves_in in Rz. apply (ai_scopes I _ _ Rz).
  - intros d Id. rewrite MF. exact Id.
  - intros w k q G _. rewrite <- MF. apply in_map_iff. exists (w, (k, q)). auto.
  - intros st0 R0 [_ N0].
    rewrite run_app. rewrite (@run_consume st0 (fst y) vy); auto.
    2:{ eapply RelN_resolves; eauto. } 2:{ eapply RelN_live_in; eauto. }
    rewrite run_app.
    assert (NIv : ~ In vy vs) by (rewrite <- MF; exact NI).
    assert (R1 : shape (set_live vy false st0) = scopes A) by (rewrite shape_set_live; apply (rn_shape R0)).
    (* the second value *)
    assert (RC : run (opt_consume z) (set_live vy false st0) = Some (kill vs (set_live vy false st0))).
    { destruct z as [z|].
      - destruct VZ as [vz [Rz [Nz ->]]]. simpl opt_consume.
        change [VConsume (fst z)] with (consume_all [z]).
        apply (@run_consume_all [z] [vz] (set_live vy false st0) (scopes A) R1).
        + rewrite cpos_set_live. exact N0.
        + constructor; [exact Rz | constructor].
        + constructor; [intros [] | constructor].
        + intros v [<-|[]]. apply live_in_set_live_other; [intro; subst; apply NIv; left; reflexivity|].
          eapply RelN_live_in; eauto.
      - rewrite VZ. simpl. rewrite kill_nil. reflexivity. }
    rewrite RC.
    rewrite (@run_revive (kill vs (set_live vy false st0)) (fst y) vy (VRefill (fst y))); auto.
    + rewrite refill_kill; [reflexivity | exact NIv | eapply RelN_live_in; eauto].
    + rewrite shape_kill, R1. exact Ry.
    + rewrite cpos_kill, cpos_set_live. exact N0.
Qed.

Lemma exec_SAssign c p o src A lo hi :
  ok (check_stmt c (SAssign p o src) A) -> wfp_stmt lo (SAssign p o src) = Some hi -> AInv lo A ->
  Exec lo hi (opt_consume src ++ [VAssign (fst o)]) ONormal A (check_stmt c (SAssign p o src) A).
Proof.
  intros H W I st R B. pose proof (rn_reach R) as D. simpl in W. wf_split W.
  pose proof (wfp_oocc_le _ _ W) as Lh.
  destruct (assign_ok c p o src A H D) as [vo [C [Ro [O [S [NO CZ]]]]]].
  destruct (C_single_facts A src C CZ) as [vs [MF VZ]].
  refine (@exec_step A _ C lo hi _ vs S I _ _ _ _ st R B).
  - plia.
  - intros d Id. rewrite MF. exact Id.
  - intros w k q G _. rewrite <- MF. apply in_map_iff. exists (w, (k, q)). auto.
  - intros st0 R0 [_ N0]. rewrite run_app. rewrite (@run_opt_consume A src vs st0 R0 N0 VZ).
    (* the target is live: it has no invalidation after the statement *)
    rewrite (step_inv_of vo S) in NO. destruct (assoc vo C) eqn:EA; [discriminate|].
    apply assoc_none in EA. rewrite MF in EA.
    rewrite (@run_revive (kill vs st0) (fst o) vo (VAssign (fst o))); auto.
    + rewrite set_live_id; [reflexivity|]. apply live_in_kill_other; [exact EA | eapply RelN_live_in; eauto].
    + rewrite shape_kill. eapply RelN_resolves; eauto.
    + rewrite cpos_kill. exact N0.
Qed.

Lemma kinds_C_call_false A args vs w k q :
  In (w, (k, q)) (C_call A true args vs) -> is_definite k = false.
Proof.
  unfold C_call, potentialize. intro G. apply in_map_iff in G. destruct G as [[w' [k' q']] [E _]].
  simpl in E. injection E as E1 E2 E3. subst k. destruct k'; reflexivity.
Qed.

Lemma exec_SCall c p recv oc args A lo hi :
  ok (check_stmt c (SCall p recv oc args) A) -> wfp_stmt lo (SCall p recv oc args) = Some hi -> AInv lo A ->
  Exec lo hi (opt_use recv ++ consume_all args ++ opt_use recv) ONormal A (check_stmt c (SCall p recv oc args) A).
Proof.
  intros H W I st R B. pose proof (rn_reach R) as D. simpl in W.
  destruct (wfp_oocc lo recv) as [m|] eqn:W1; [|discriminate].
  pose proof (wfp_oocc_le _ _ W1) as Lm. pose proof (wfp_occs_le _ _ W) as Lh.
  destruct (call_ok c p recv oc args A H D (ai_ri I)) as [vs [RS [N [O [S RV]]]]].
  assert (MF : map fst (C_call A oc args vs) = vs) by (apply map_fst_C_call; eapply Forall2_length; eauto).
  assert (ND : NoDup vs) by (rewrite <- MF; apply (st_nodup S)).
  refine (@exec_step A _ _ lo hi _ vs S I _ _ _ _ st R B).
  - lia.
  - intros d Id. rewrite MF. exact Id.
  - intros w k q G _. eapply C_call_in_vs; eauto.
  - intros st0 R0 [_ N0]. rewrite run_app.
    destruct recv as [y|]; simpl opt_use.
    + destruct RV as [vy [Ry [Ny NIy]]].
      rewrite (@run_use st0 (fst y) vy); [| eapply RelN_resolves; eauto | exact N0 | eapply RelN_live_in; eauto].
      rewrite run_app. rewrite (@run_consume_resolved A args vs st0 R0 N0 RS ND N).
      apply run_use with (v := vy).
      * rewrite shape_kill. eapply RelN_resolves; eauto.
      * rewrite cpos_kill. exact N0.
      * apply live_in_kill_other; [exact NIy | eapply RelN_live_in; eauto].
    + simpl. rewrite app_nil_r. apply (@run_consume_resolved A args vs st0 R0 N0 RS ND N).
Qed.

Lemma exec_SCallNil c p y args A lo hi :
  ok (check_stmt c (SCall p (Some y) true args) A) -> wfp_stmt lo (SCall p (Some y) true args) = Some hi -> AInv lo A ->
  Exec lo hi [VUse (fst y); VUse (fst y)] ONormal A (check_stmt c (SCall p (Some y) true args) A).
Proof.
  intros H W I st R B. pose proof (rn_reach R) as D. simpl in W.
  destruct (lo <? snd y) eqn:E0; [|discriminate]. apply Z.ltb_lt in E0.
  pose proof (wfp_occs_le _ _ W) as Lh.
  destruct (call_ok c p (Some y) true args A H D (ai_ri I)) as [vs [RS [N [O [S RV]]]]].
  refine (@exec_step A _ _ lo hi _ [] S I _ _ _ _ st R B).
  - plia.
  - intros d [].
  - intros w k q G DK. apply kinds_C_call_false in G. congruence.
  - intros st0 R0 [_ N0]. destruct RV as [vy [Ry [Ny _]]]. rewrite kill_nil.
    change [VUse (fst y); VUse (fst y)] with ([VUse (fst y)] ++ [VUse (fst y)]). rewrite run_app.
    rewrite (@run_use st0 (fst y) vy); [| eapply RelN_resolves; eauto | exact N0 | eapply RelN_live_in; eauto].
    apply run_use with (v := vy); [eapply RelN_resolves; eauto | exact N0 | eapply RelN_live_in; eauto].
Qed.

Lemma exec_same A lo hi t :
  ok A -> AInv lo A -> lo <= hi ->
  (forall st, RelN A st -> Bounded lo st -> run t st = Some st) ->
  Exec lo hi t ONormal A A.
Proof.
  intros O I L RUN. refine (@exec_step A A [] lo hi t [] (step_refl A) I L _ _ _).
  - intros d [].
  - intros ? ? ? [].
  - intros st R B. rewrite kill_nil. apply RUN; assumption.
Qed.

Lemma exec_SRead c p y A lo hi :
  ok (check_stmt c (SRead p y) A) -> wfp_stmt lo (SRead p y) = Some hi -> AInv lo A ->
  Exec lo hi [VUse (fst y)] ONormal A (check_stmt c (SRead p y) A).
Proof.
  intros H W I. simpl in *. wf_split W. inversion W; subst.
  destruct (visit_ident_ok _ _ _ H) as [v [F [N Ev]]]. rewrite Ev in *.
  apply exec_same; auto; [lia|]. intros st R [_ N0].
  apply run_use with (v := v); [eapply RelN_resolves; eauto; eapply find_var_resolves; eauto | exact N0 | eapply RelN_live_in; eauto].
Qed.

Lemma exec_SSwap c p y z A lo hi :
  ok (check_stmt c (SSwap p y z) A) -> wfp_stmt lo (SSwap p y z) = Some hi -> AInv lo A ->
  Exec lo hi [VUse (fst y); VUse (fst z)] ONormal A (check_stmt c (SSwap p y z) A).
Proof.
  intros H W I. simpl in *. wf_split W. inversion W; subst.
  destruct (visit_ident_ok _ _ _ H) as [v1 [F1 [N1 Ev1]]]. rewrite Ev1 in *.
  destruct (visit_ident_ok _ _ _ H) as [v2 [F2 [N2 Ev2]]]. rewrite Ev2 in *.
  destruct (visit_target_ok _ _ _ H) as [v3 [F3 Ev3]]. rewrite Ev3 in *.
  destruct (visit_target_ok _ _ _ H) as [v4 [F4 Ev4]]. rewrite Ev4 in *.
  apply exec_same; auto; [lia|]. intros st R [_ N0].
  change [VUse (fst y); VUse (fst z)] with ([VUse (fst y)] ++ [VUse (fst z)]). rewrite run_app.
  rewrite (@run_use st (fst y) v2); [| eapply RelN_resolves; eauto; eapply find_var_resolves; eauto | exact N0 | eapply RelN_live_in; eauto].
  apply run_use with (v := v1); [eapply RelN_resolves; eauto; eapply find_var_resolves; eauto | exact N0 | eapply RelN_live_in; eauto].
Qed.

Lemma exec_move_from c y k A lo hi :
  ok (record_ c y k (visit_ident c y A)) -> AInv lo A -> lo < snd y -> lo <= hi ->
  Exec lo hi [VConsume (fst y)] ONormal A (record_ c y k (visit_ident c y A)).
Proof.
  intros H I L L' st R B. pose proof (rn_reach R) as D.
  destruct (move_from_ok c y k A H D) as [v [Rv [N [O S]]]].
  refine (@exec_step A _ _ lo hi _ [v] S I L' _ _ _ st R B).
  - intros d [<-|[]]. left. reflexivity.
  - intros w k' q [G|[]] _. inversion G. left. reflexivity.
  - intros st0 R0 [_ N0]. rewrite kill_cons, kill_nil.
    apply run_consume; [eapply RelN_resolves; eauto | exact N0 | eapply RelN_live_in; eauto].
Qed.

Lemma exec_SDestroy c p y A lo hi :
  ok (check_stmt c (SDestroy p y) A) -> wfp_stmt lo (SDestroy p y) = Some hi -> AInv lo A ->
  Exec lo hi [VConsume (fst y)] ONormal A (check_stmt c (SDestroy p y) A).
Proof.
  intros H W I. simpl in *. wf_split W. inversion W; subst. apply exec_move_from; auto; lia.
Qed.

(* ---------------------------------------------------------------- exits *)

Lemma RelN_all_dead A st :
  RelN A st -> (forall x v, In (x, v) (concat (scopes A)) -> defi A v) ->
  Forall (fun b => blive b = false) (concat st).
Proof.
  intros R DF. rewrite Forall_forall. intros b Ib.
  pose proof (rn_agree R) as G. rewrite Forall_forall in G. apply (proj2 (G b Ib)).
  apply (DF (bname b)). rewrite <- (rn_shape R). apply in_concat_shape. exact Ib.
Qed.

Lemma exec_return_flags p A lo hi t A1 :
  Exec lo hi t ONormal A A1 -> ok (check_loss (scopes A1) A1) -> ri_wf (ri A1) ->
  Exec lo hi t OReturn A (set_exit_flags true false false p (check_loss (scopes A1) A1)).
Proof.
  intros E H W st R B. destruct (E st R B) as [st' [RUN [P Q]]]. simpl in P.
  destruct (check_loss_ok _ _ H) as [EQ DF]. rewrite EQ.
  exists st'. split; [exact RUN|]. split.
  - simpl. split.
    + rewrite <- (rn_shape P). unfold shape. rewrite map_length. reflexivity.
    + apply (RelN_all_dead P). apply DF. rewrite (rn_reach P). reflexivity.
  - intros _. apply Q. discriminate.
Qed.

Lemma exec_nil_normal A lo hi : ok A -> AInv lo A -> lo <= hi -> Exec lo hi [] ONormal A A.
Proof. intros O I L. apply exec_same; auto. Qed.

Lemma exec_SReturn c p v A lo hi t :
  ok (check_stmt c (SReturn p v) A) -> wfp_stmt lo (SReturn p v) = Some hi -> AInv lo A ->
  t = match v with RMove y => [VConsume (fst y)] | _ => [] end ->
  Exec lo hi t OReturn A (check_stmt c (SReturn p v) A).
Proof.
  intros H W I ->. simpl in H, W |- *. pose proof H as H'. apply ok_set_exit_flags in H'.
  destruct v as [| |y].
  - inversion W; subst. apply exec_return_flags; auto; [|apply (ai_ri I)].
    apply exec_nil_normal; auto; [|lia]. apply ok_check_loss in H'. exact H'.
  - inversion W; subst. apply exec_return_flags; auto; [|apply (ai_ri I)].
    apply exec_nil_normal; auto; [|lia]. apply ok_check_loss in H'. exact H'.
  - wf_split W. inversion W; subst. unfold move_from in *.
    apply exec_return_flags; auto.
    + apply exec_move_from; auto; [|lia]. apply ok_check_loss in H'. exact H'.
    + rewrite ri_record_, ri_visit_ident. apply (ai_ri I).
Qed.

Lemma Forall2_incl_refl (st : cstate) : Forall2 (fun cs sc => incl (shape1 cs) sc) st (shape st).
Proof. induction st; simpl; constructor; [apply incl_refl | assumption]. Qed.

Lemma exec_jump p A lo o :
  (o = OBreak \/ o = OContinue) -> ok A -> AInv lo A -> lo < p ->
  Exec lo p [] o A (set_exit_flags false false true p A).
Proof.
  intros OO O I L st R B. exists st. split; [reflexivity|]. split.
  - assert (PJ : exists j, lo < j /\ RelJ 0 (set_exit_flags false false true p A) st j).
    { exists p. split; [exact L|]. constructor; simpl.
      - rewrite <- (rn_shape R). apply Forall2_incl_refl.
      - eapply Forall_impl; [|apply (rn_agree R)]. intros b. apply agree_ext. reflexivity.
      - apply orb_true_r.
      - left. reflexivity.
      - destruct B as [B _]. eapply Forall_impl; [|exact B]. simpl. intros; lia.
      - rewrite orb_false_r. intro DR. destruct (ai_ri I) as [W _]. pose proof (W DR).
        pose proof (rn_reach R). congruence. }
    destruct OO as [-> | ->]; exact PJ.
  - intros _. split; [eapply Bounded_mono; [exact B | lia]|].
    exists []. simpl. eapply shape_nonempty; eauto.
Qed.

Lemma exec_SHalt c p A lo hi :
  ok (check_stmt c (SHalt p) A) -> Exec lo hi [] OHalt A (check_stmt c (SHalt p) A).
Proof.
  intros H st R B. exists st. split; [reflexivity|]. split; [exact Logic.I | intro N; contradiction].
Qed.

(* a nested function declaration does not touch the variables of the enclosing function *)
Lemma exec_SFun c p pb params rr body A lo hi :
  ok (check_stmt c (SFun p pb params rr body) A) -> wfp_stmt lo (SFun p pb params rr body) = Some hi -> AInv lo A ->
  Exec lo hi [] ONormal A (check_stmt c (SFun p pb params rr body) A).
Proof.
  intros H W I st R B. simpl in W. destruct (wfp_occs lo params) as [m|] eqn:W1; [|discriminate].
  pose proof (wfp_occs_le _ _ W1). pose proof (wfp_block_le _ _ W).
  destruct (@fun_BPost c p pb params rr body A lo m hi (proj2 skip_lemma body) W1 W H I) as [BP FR].
  exists st. split; [reflexivity|]. split.
  - change (RelN (check_stmt c (SFun p pb params rr body) A) st). constructor.
    + rewrite (bp_scopes BP). apply (rn_shape R).
    + pose proof (rn_agree R) as G. rewrite Forall_forall in *. intros b Ib.
      destruct B as [B _]. rewrite Forall_forall in B. specialize (B b Ib). simpl in B.
      eapply agree_agr. specialize (G b Ib). apply agree_agr in G.
      assert (EI : inv_of (check_stmt c (SFun p pb params rr body) A) (bpos b) = inv_of A (bpos b)).
      { unfold inv_of, layers. cbn [lookup]. rewrite (bp_below BP). rewrite FR by lia. reflexivity. }
      rewrite EI. exact G.
    + simpl. apply (rn_reach R).
  - intros _. split; [eapply Bounded_mono; [exact B | lia]|].
    exists []. simpl. eapply shape_nonempty; eauto.
Qed.
