(* C03 — proofs, part 7: the structural lemma (invariants, frame, frozen paths) for all statements. *)
From CV Require Import C03.Model C03.Paths C03.ProofsBase C03.ProofsRel C03.ProofsStep C03.ProofsSimple C03.ProofsSkip C03.ProofsStruct.
From Coq Require Import Lia.
Set Implicit Arguments.

(* ---------------------------------------------------------------- the structural lemma *)

Definition stmt_IH (s : stmt) : Prop :=
  forall c A lo hi, ok (check_stmt c s A) -> wfp_stmt lo s = Some hi -> AInv lo A -> dexit (ri A) = false ->
                    SPost lo hi A (check_stmt c s A).

Ltac plia := unfold pos, name, occ in *; lia.

Lemma ltb_true a b : (a <? b) = true -> a < b.
Proof. apply Z.ltb_lt. Qed.

Ltac wf_split H :=
  repeat match type of H with
  | (if ?x <? ?y then _ else None) = Some _ =>
      let E := fresh "E" in destruct (x <? y) eqn:E; [apply Z.ltb_lt in E | discriminate H]
  | (if (?x <? ?y) && (?z <? ?w) then _ else None) = Some _ =>
      let E := fresh "E" in destruct ((x <? y) && (z <? w)) eqn:E; [|discriminate H];
      apply andb_true_iff in E; let E1 := fresh "E" in let E2 := fresh "E" in
      destruct E as [E1 E2]; apply Z.ltb_lt in E1; apply Z.ltb_lt in E2
  end.

Lemma wfp_oocc_in lo z hi y : wfp_oocc lo z = Some hi -> z = Some y -> lo < snd y /\ hi = snd y.
Proof. intros H ->. simpl in H. wf_split H. inversion H. auto. Qed.

Lemma move_from_SPost c y k A lo hi :
  ok (record_ c y k (visit_ident c y A)) -> dexit (ri A) = false -> AInv lo A -> lo < snd y -> lo <= hi ->
  BPost lo hi A (record_ c y k (visit_ident c y A)).
Proof.
  intros H D I L L'. destruct (move_from_ok c y k A H D) as [v [R [N [O S]]]].
  eapply step_SPost; eauto.
  - intros w k' p' [G|[]]. inversion G; subst. split; [exact L | apply eff_kind_ok].
  - intros w i [G|[]]. inversion G; subst. eapply resolves_in_snd; eauto.
Qed.

Theorem skip_lemma : (forall s, stmt_IH s) /\ (forall b, block_IH b).
Proof.
  apply stmt_block_ind.
  - (* SLet *)
    intros p x px srcs c A lo hi H W I D. simpl in H, W |- *. wf_split W.
    pose proof (wfp_occs_le _ _ W) as Lh.
    pose proof (ok_declare _ _ _ H) as O1.
    destruct (move_all_ok c srcs A O1 D) as [vs [R [N [O S]]]].
    eapply BPost_then_declare with (m := lo); [| exact H | lia | lia].
    refine (step_SPost S O I _ _ _); [lia | |].
    + apply KindOK_C_of. intros y Iy. pose proof (wfp_occs_in _ _ y W Iy). plia.
    + intros w i G. eapply resolved_in_scopes; [exact R | eapply C_of_in_vs; eauto].
  - (* SLet2 *)
    intros p x px y z c A lo hi H W I D. rewrite check_let2 in *. simpl in W. wf_split W.
    pose proof (wfp_oocc_le _ _ W) as Lh.
    pose proof (ok_declare _ _ _ H) as O1.
    destruct (let2_body_ok c y z A O1 D) as [vy [C [Ry [Ny [O [S [NI CZ]]]]]]].
    eapply BPost_then_declare with (m := lo); [| exact H | lia | lia].
    refine (step_SPost S O I _ _ _); [lia | |].
    + destruct z as [z|]; [|subst C; apply KindOK_nil].
      destruct CZ as [vz [Rz [Nz ->]]]. destruct (wfp_oocc_in _ W eq_refl) as [Lz _].
      intros w k' p' [G|[]]. inversion G; subst. split; [lia | apply eff_kind_ok].
    + destruct z as [z|]; [|subst C; intros ? ? []].
      destruct CZ as [vz [Rz [Nz ->]]]. intros w i [G|[]]. inversion G; subst. eapply resolves_in_snd; eauto.
  - (* SAssign *)
    intros p o src c A lo hi H W I D. simpl in W. wf_split W. pose proof (wfp_oocc_le _ _ W) as Lh.
    destruct (assign_ok c p o src A H D) as [vo [C [Ro [O [S [NO CZ]]]]]].
    apply BPost_SPost; [|apply (ai_nonempty I)].
    refine (step_SPost S O I _ _ _); [lia | |].
    + destruct src as [z|]; [|subst C; apply KindOK_nil].
      destruct CZ as [vz [Rz [Nz ->]]]. destruct (wfp_oocc_in _ W eq_refl) as [Lz _].
      intros w k' p' [G|[]]. inversion G; subst. split; [lia | apply eff_kind_ok].
    + destruct src as [z|]; [|subst C; intros ? ? []].
      destruct CZ as [vz [Rz [Nz ->]]]. intros w i [G|[]]. inversion G; subst. eapply resolves_in_snd; eauto.
  - (* SCall *)
    intros p recv oc args c A lo hi H W I D. simpl in W.
    destruct (wfp_oocc lo recv) as [m|] eqn:W1; [|discriminate].
    pose proof (wfp_oocc_le _ _ W1) as Lm. pose proof (wfp_occs_le _ _ W) as Lh.
    destruct (call_ok c p recv oc args A H D (ai_ri I)) as [vs [R [N [O [S _]]]]].
    apply BPost_SPost; [|apply (ai_nonempty I)].
    assert (LA : forall y, In y args -> lo < snd y).
    { intros y Iy. pose proof (wfp_occs_in _ _ y W Iy). plia. }
    refine (step_SPost S O I _ _ _); [lia | |].
    + unfold C_call. destruct oc; [|apply KindOK_C_of; exact LA].
      apply KindOK_potentialize. intros w k' p' G. apply C_of_in in G. destruct G as [y [Iy EE]].
      inversion EE; subst. auto.
    + intros w i G. eapply resolved_in_scopes; [exact R | eapply C_call_in_vs; eauto].
  - (* SRead *)
    intros p y c A lo hi H W I D. simpl in *. wf_split W. inversion W; subst.
    destruct (visit_ident_ok _ _ _ H) as [v [F [N Ev]]]. rewrite Ev in *.
    eapply SPost_mono; [apply SPost_refl; auto | lia].
  - (* SDestroy *)
    intros p y c A lo hi H W I D. simpl in *. wf_split W. inversion W; subst.
    apply BPost_SPost; [|apply (ai_nonempty I)]. apply move_from_SPost; auto; lia.
  - (* SSwap *)
    intros p y z c A lo hi H W I D. simpl in *. wf_split W. inversion W; subst.
    destruct (visit_ident_ok _ _ _ H) as [v1 [F1 [N1 Ev1]]]. rewrite Ev1 in *.
    destruct (visit_ident_ok _ _ _ H) as [v2 [F2 [N2 Ev2]]]. rewrite Ev2 in *.
    destruct (visit_target_ok _ _ _ H) as [v3 [F3 Ev3]]. rewrite Ev3 in *.
    destruct (visit_target_ok _ _ _ H) as [v4 [F4 Ev4]]. rewrite Ev4 in *.
    eapply SPost_mono; [apply SPost_refl; auto | lia].
  - (* SIf *)
    intros p th IHt el IHe c A lo hi H W I D. simpl in W.
    destruct (wfp_block lo th) as [m|] eqn:W1; [|discriminate].
    pose proof (wfp_block_le _ _ W1). pose proof (wfp_block_le _ _ W).
    apply BPost_SPost; [|apply (ai_nonempty I)].
    change (check_stmt c (SIf p th el) A) with (check_branches p (scoped_fun c th) (scoped_fun c el) A) in *.
    eapply check_branches_BPost; eauto using scoped_branch_fun.
  - (* SIfLet *)
    intros p x px o th IHt el IHe c A lo hi H W I D. simpl in W. wf_split W.
    destruct (wfp_block (snd o) th) as [m|] eqn:W1; [|discriminate].
    pose proof (wfp_block_le _ _ W1). pose proof (wfp_block_le _ _ W).
    apply BPost_SPost; [|apply (ai_nonempty I)].
    change (check_stmt c (SIfLet p x px o th el) A)
      with (check_branches p (iflet_fun c x px th) (scoped_fun c el) (move_from c o A)) in *.
    unfold move_from in *.
    set (A1 := record_ c o MoveDefinite (visit_ident c o A)) in *.
    assert (F1 : branch_fun (iflet_fun c x px th) lo m).
    { eapply iflet_branch_fun with (lo' := snd o); eauto. lia. }
    assert (F2 : branch_fun (scoped_fun c el) m hi) by (eapply scoped_branch_fun; eauto).
    assert (D1 : dexit (ri A1) = false) by (subst A1; rewrite ri_record_, ri_visit_ident; exact D).
    assert (O1 : ok A1).
    { eapply ok_check_branches; [| | exact H]; intros X HX.
      - unfold iflet_fun in HX. apply ok_leave_scope in HX. apply ok_leave_scope in HX.
        apply (proj2 ok_mono) in HX. apply ok_enter_scope in HX. apply ok_declare in HX.
        apply ok_enter_scope in HX. exact HX.
      - unfold scoped_fun in HX. apply ok_leave_scope in HX. apply (proj2 ok_mono) in HX.
        apply ok_enter_scope in HX. exact HX. }
    assert (B1 : BPost lo lo A A1) by (apply move_from_SPost; auto; lia).
    eapply BPost_trans with (m := lo); [exact B1 | | lia].
    apply (@check_branches_BPost p _ _ A1 lo m hi F1 F2); [plia | plia | exact H | apply (bp_inv B1) | exact D1].
  - (* SLoop *)
    intros p body IHb c A lo hi H W I D. simpl in W. pose proof (wfp_block_le _ _ W).
    apply BPost_SPost; [|apply (ai_nonempty I)].
    change (check_stmt c (SLoop p body) A) with (loop_result (scoped_fun (with_ctx_loop c) body) A) in *.
    eapply loop_result_BPost; eauto using scoped_branch_fun.
  - (* SBreak *)
    intros p c A lo hi H W I D. simpl in *. wf_split W. inversion W; subst.
    destruct (inloop c); [|exfalso; eapply report_not_ok; eauto].
    apply ok_set_exit_flags in H. apply BPost_SPost; [|apply (ai_nonempty I)].
    apply set_exit_flags_BPost; auto; try lia; try discriminate.
  - (* SContinue *)
    intros p c A lo hi H W I D. simpl in *. wf_split W. inversion W; subst.
    destruct (inloop c); [|exfalso; eapply report_not_ok; eauto].
    apply ok_set_exit_flags in H. apply BPost_SPost; [|apply (ai_nonempty I)].
    apply set_exit_flags_BPost; auto; try lia; try discriminate.
  - (* SReturn *)
    intros p v c A lo hi H W I D. simpl in H, W |- *. apply ok_set_exit_flags in H.
    destruct (check_loss_ok _ _ H) as [EQ DF]. rewrite EQ in *.
    apply BPost_SPost; [|apply (ai_nonempty I)].
    destruct v as [| |y].
    + inversion W; subst. apply set_exit_flags_BPost; auto; try lia; try discriminate.
    + inversion W; subst. apply set_exit_flags_BPost; auto; try lia; try discriminate.
    + wf_split W. inversion W; subst. unfold move_from in *.
      set (A1 := record_ c y MoveDefinite (visit_ident c y A)) in *.
      assert (B1 : BPost lo (snd y) A A1) by (apply move_from_SPost; auto; lia).
      eapply BPost_trans with (m := snd y); [exact B1 | | lia].
      apply set_exit_flags_BPost; auto; try lia; try discriminate; try apply (bp_inv B1).
  - (* SHalt *)
    intros p c A lo hi H W I D. simpl in *. inversion W; subst. apply ok_set_exit_flags in H.
    apply BPost_SPost; [|apply (ai_nonempty I)].
    apply set_exit_flags_BPost; auto; try lia; try discriminate.
  - (* SFun *)
    intros p pb params rr body IHb c A lo hi H W I D. simpl in W.
    destruct (wfp_occs lo params) as [m|] eqn:W1; [|discriminate].
    apply BPost_SPost; [|apply (ai_nonempty I)].
    eapply fun_BPost; eauto.
  - (* BNil *)
    intros c A lo hi H W I. simpl in *. inversion W; subst. apply SPost_refl; auto.
  - (* BCons *)
    intros s IHs b IHb c A lo hi H W I. simpl in H, W |- *.
    destruct (wfp_stmt lo s) as [m|] eqn:W1; [|discriminate].
    destruct (dexit (ri A)) eqn:D; [exfalso; eapply report_not_ok; eauto|].
    pose proof (wfp_stmt_le _ _ W1). pose proof (wfp_block_le _ _ W).
    assert (O1 : ok (check_stmt c s A)) by (apply (proj2 ok_mono) in H; exact H).
    pose proof (IHs c A lo m O1 W1 I D) as P1.
    pose proof (IHb c _ m hi H W (sp_inv P1)) as P2.
    eapply SPost_trans; eauto.
Qed.
