(* Check function used by the per-run case files of property C03:
   a case is a program (top-level function) together with the error set observed from the real
   sema.Checker, projected to (kind, offset) pairs, sorted and without duplicates. *)
From CV Require Export C03.Model.

Definition err_code (e : error) : Z * Z :=
  match e with
  | ELoss v => (1, v)
  | EUse p => (2, p)
  | EUnreach p => (3, p)
  | ECtl p => (4, p)
  | ECapture p => (5, p)
  | EMissingRet p => (6, p)
  | ERedecl p => (7, p)
  | ENotDecl p => (8, p)
  end.

Definition pair_ltb (a b : Z * Z) : bool :=
  (fst a <? fst b) || ((fst a =? fst b) && (snd a <? snd b)).
Definition pair_eqb (a b : Z * Z) : bool := (fst a =? fst b) && (snd a =? snd b).

Fixpoint insert_pair (a : Z * Z) (l : list (Z * Z)) : list (Z * Z) :=
  match l with
  | [] => [a]
  | b :: r => if pair_eqb a b then l else if pair_ltb a b then a :: l else b :: insert_pair a r
  end.

Definition sort_pairs (l : list (Z * Z)) : list (Z * Z) := fold_right insert_pair [] l.

Fixpoint pairs_eqb (a b : list (Z * Z)) : bool :=
  match a, b with
  | [], [] => true
  | x :: r, y :: s => pair_eqb x y && pairs_eqb r s
  | _, _ => false
  end.

(* the model's projected error set *)
Definition model_errors (f : stmt) : list (Z * Z) := sort_pairs (map err_code (check_prog f)).

(* A case also carries the verdict of the independent path oracle of the harness (some path non-linear).
   Besides the exact error set, the soundness theorem is cross-checked: a program that the checker accepts
   although the oracle found a non-linear path must be flagged by the strict diagnostics. *)
Definition check_case (c : stmt * list (Z * Z) * bool) : bool :=
  let '(f, observed, nonlinear) := c in
  pairs_eqb (model_errors f) observed && wf_prog f &&
  (match observed, nonlinear with
   | [], true => match strict_diags f with [] => false | _ => true end
   | _, _ => true
   end).
