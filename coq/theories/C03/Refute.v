(* C03 — proofs, part 14: machine-checked witnesses: accepted programs with a non-linear path, and a rejected program all of whose paths are linear. *)
From CV Require Import C03.Witness C03.Proofs.
From Coq Require Import Lia.

Lemma not_linear (f : stmt) (t : list ev) : prog_path f t -> linear_traceb t = false -> ~ linear_prog f.
Proof.
  intros P N L. destruct (L t P) as [st E]. unfold linear_traceb in N. rewrite E in N. discriminate.
Qed.

Lemma self_path p pb params rr body t :
  fun_path (SFun p pb params rr body) t -> prog_path (SFun p pb params rr body) t.
Proof. intro F. exists (SFun p pb params rr body). split; [left; reflexivity | exact F]. Qed.

Lemma w_assign_refutes : check_prog w_assign = [] /\ wf_prog w_assign = true /\ ~ linear_prog w_assign.
Proof.
  split; [vm_compute; reflexivity|]. split; [vm_compute; reflexivity|].
  eapply not_linear.
  - apply self_path. eapply F_Path.
    eapply B_Next; [apply P_Let|]. eapply B_Next; [apply P_Destroy|]. eapply B_Next; [apply P_Assign|]. apply B_Nil.
  - vm_compute. reflexivity.
Qed.

Lemma w_loop_halt_refutes : check_prog w_loop_halt = [] /\ wf_prog w_loop_halt = true /\ ~ linear_prog w_loop_halt.
Proof.
  split; [vm_compute; reflexivity|]. split; [vm_compute; reflexivity|].
  eapply not_linear.
  - apply self_path. eapply F_Path.
    eapply B_Next; [apply P_Let|]. eapply B_Next.
    + apply P_Loop. eapply L_Iter; [eapply B_Next; [apply P_Destroy | apply B_Nil] | left; reflexivity |].
      eapply L_Iter; [eapply B_Next; [apply P_Destroy | apply B_Nil] | left; reflexivity | apply L_Done].
    + eapply B_Exit; [apply P_Halt | discriminate].
  - vm_compute. reflexivity.
Qed.

Lemma w_halt_jump_refutes : check_prog w_halt_jump = [] /\ wf_prog w_halt_jump = true /\ ~ linear_prog w_halt_jump.
Proof.
  split; [vm_compute; reflexivity|]. split; [vm_compute; reflexivity|].
  eapply not_linear.
  - apply self_path. eapply F_Path.
    eapply B_Next; [|apply B_Nil]. apply P_Loop. eapply L_Break.
    eapply B_Next; [apply P_Let|]. eapply B_Exit; [|discriminate].
    apply P_IfElse. eapply B_Exit; [|discriminate]. apply P_IfThen. eapply B_Exit; [apply P_Break | discriminate].
  - vm_compute. reflexivity.
Qed.

Lemma w_return_jump_refutes : check_prog w_return_jump = [] /\ wf_prog w_return_jump = true /\ ~ linear_prog w_return_jump.
Proof.
  split; [vm_compute; reflexivity|]. split; [vm_compute; reflexivity|].
  eapply not_linear.
  - apply self_path. eapply F_Path.
    eapply B_Next; [apply P_Let|]. eapply B_Next.
    + apply P_Loop. eapply L_Break. eapply B_Exit; [|discriminate]. apply P_IfThen.
      eapply B_Next; [apply P_Destroy|]. eapply B_Exit; [|discriminate]. apply P_IfThen.
      eapply B_Exit; [apply P_Break | discriminate].
    + eapply B_Next; [apply P_Destroy | apply B_Nil].
  - vm_compute. reflexivity.
Qed.

(* every one of the witnesses is flagged by the strict diagnostics *)
Lemma witnesses_flagged :
  strict_diags w_assign <> [] /\ strict_diags w_loop_halt <> [] /\
  strict_diags w_halt_jump <> [] /\ strict_diags w_return_jump <> [].
Proof. repeat split; vm_compute; discriminate. Qed.

(* the converse direction: a program all of whose paths are linear and that is rejected *)
Ltac inv H := inversion H; subst; clear H.

Lemma w_conservative_linear : linear_prog w_conservative.
Proof.
  intros t [g [Ig FP]]. simpl in Ig. destruct Ig as [<-|[]].
  inv FP.
  repeat match goal with
  | H : bpath (blk _) _ _ |- _ => simpl in H
  | H : bpath (BCons _ _) _ _ |- _ => inv H
  | H : bpath BNil _ _ |- _ => inv H
  | H : spath (SLet _ _ _ _) _ _ |- _ => inv H
  | H : spath (SDestroy _ _) _ _ |- _ => inv H
  | H : spath (SHalt _) _ _ |- _ => inv H
  | H : spath (SIf _ _ _) _ _ |- _ => inv H
  | H : ?x <> ?x |- _ => contradiction
  end; try (eexists; vm_compute; reflexivity).
Qed.

Lemma w_conservative_refutes :
  wf_prog w_conservative = true /\ linear_prog w_conservative /\
  exists e, In e (check_prog w_conservative) /\ linearity_error e = true.
Proof.
  split; [vm_compute; reflexivity|]. split; [apply w_conservative_linear|].
  exists (ELoss 616). split; [vm_compute; auto | reflexivity].
Qed.
