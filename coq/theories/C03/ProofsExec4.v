(* C03 — proofs, part 12: every path through a statement, block or loop that the checker accepted runs without violation. *)
From CV Require Import C03.Model C03.Paths C03.ProofsBase C03.ProofsRel C03.ProofsStep C03.ProofsSimple C03.ProofsSkip C03.ProofsStruct C03.ProofsSkipMain C03.ProofsConc C03.ProofsExec1 C03.ProofsExec2 C03.ProofsExec3.
From Coq Require Import Lia.
Set Implicit Arguments.

Scheme spath_mind := Minimality for spath Sort Prop
  with bpath_mind := Minimality for bpath Sort Prop
  with lpath_mind := Minimality for lpath Sort Prop.
Combined Scheme path_ind from spath_mind, bpath_mind, lpath_mind.

Definition exec_stmt_P (s : stmt) (t : list ev) (o : outcome) : Prop :=
  forall c A lo hi, ok (check_stmt c s A) -> wfp_stmt lo s = Some hi -> AInv lo A ->
                    Exec lo hi t o A (check_stmt c s A).

Definition exec_loop_P (body : block) (t : list ev) (o : outcome) : Prop :=
  forall c p A lo hi, ok (check_stmt c (SLoop p body) A) -> wfp_block lo body = Some hi -> AInv lo A ->
                      ExecS lo hi t o A (check_stmt c (SLoop p body) A).

Lemma Post_mono lo lo' o A st : lo <= lo' -> Post lo' o A st -> Post lo o A st.
Proof.
  intros L. destruct o; simpl; auto; intros [j [Lj R]]; exists j; (split; [lia | exact R]).
Qed.

Lemma ExecS_Exec lo hi t o A A' : AInv lo A -> ExecS lo hi t o A A' -> Exec lo hi t o A A'.
Proof.
  intros I E st R B. destruct (E st R B) as [st' [RUN [P Q]]]. exists st'. split; [exact RUN|].
  split; [exact P|]. intro N. destruct (Q N) as [B' S']. split; [exact B'|].
  exists []. rewrite S'. simpl. eapply shape_nonempty; eauto.
Qed.

Lemma Exec_seq lo m hi t1 t2 o A A1 A2 :
  Exec lo m t1 ONormal A A1 -> Exec m hi t2 o A1 A2 -> lo <= m ->
  Exec lo hi (t1 ++ t2) o A A2.
Proof.
  intros E1 E2 L st R B. destruct (E1 st R B) as [st1 [RUN1 [P1 Q1]]]. simpl in P1.
  destruct (Q1 ltac:(discriminate)) as [B1 [n1 S1]].
  destruct (E2 st1 P1 B1) as [st2 [RUN2 [P2 Q2]]].
  exists st2. split; [rewrite run_app, RUN1; exact RUN2|].
  split; [eapply Post_mono; eauto|]. intro N. destruct (Q2 N) as [B2 [n2 S2]]. split; [exact B2|].
  exists (n2 ++ n1). rewrite S2, S1. simpl. rewrite app_assoc. reflexivity.
Qed.

Lemma Exec_seqS lo m hi t1 t2 o A A1 A2 :
  Exec lo m t1 ONormal A A1 -> ExecS m hi t2 o A1 A2 -> lo <= m -> AInv m A1 ->
  Exec lo hi (t1 ++ t2) o A A2.
Proof. intros E1 E2 L I1. eapply Exec_seq; eauto. apply ExecS_Exec; assumption. Qed.

Lemma Bounded_shape lo st st' : shape st' = shape st -> Bounded lo st -> Bounded lo st'.
Proof.
  intros S [B N].
  assert (C : cpos st' = cpos st).
  { unfold cpos. assert (G : forall s, map bpos (concat s) = map snd (concat (shape s))).
    { intro s. unfold shape. rewrite !concat_map, !map_map. f_equal. apply map_ext. intro l.
      unfold shape1. rewrite map_map. reflexivity. }
    rewrite !G, S. reflexivity. }
  split; [|rewrite C; exact N].
  rewrite Forall_forall in *. intros b Ib.
  assert (In (bpos b) (cpos st)) by (rewrite <- C; unfold cpos; apply in_map; exact Ib).
  unfold cpos in H. apply in_map_iff in H. destruct H as [b0 [E I0]]. rewrite <- E. apply B. exact I0.
Qed.

Lemma check_if_eq c p th el A :
  check_stmt c (SIf p th el) A = check_branches p (scoped_fun c th) (scoped_fun c el) A.
Proof. reflexivity. Qed.

Lemma check_iflet_eq c p x px o th el A :
  check_stmt c (SIfLet p x px o th el) A =
  check_branches p (iflet_fun c x px th) (scoped_fun c el) (move_from c o A).
Proof. reflexivity. Qed.

Lemma check_loop_eq c p body A :
  check_stmt c (SLoop p body) A = loop_result (scoped_fun (with_ctx_loop c) body) A.
Proof. reflexivity. Qed.

Lemma ok_iflet_pre c p x px o th el A :
  ok (check_stmt c (SIfLet p x px o th el) A) -> ok (move_from c o A).
Proof.
  rewrite check_iflet_eq. intro H. eapply ok_check_branches; [| | exact H]; intros X HX.
  - unfold iflet_fun in HX. apply ok_leave_scope in HX. apply ok_leave_scope in HX.
    apply (proj2 ok_mono) in HX. apply ok_enter_scope in HX. apply ok_declare in HX.
    apply ok_enter_scope in HX. exact HX.
  - unfold scoped_fun in HX. apply ok_leave_scope in HX. apply (proj2 ok_mono) in HX.
    apply ok_enter_scope in HX. exact HX.
Qed.

Theorem exec_lemma :
  (forall s t o, spath s t o -> exec_stmt_P s t o) /\
  (forall b t o, bpath b t o -> exec_block_P b t o) /\
  (forall b t o, lpath b t o -> exec_loop_P b t o).
Proof.
  apply path_ind.
  - intros; intros c A lo hi H W I. apply exec_SLet; assumption.
  - intros; intros c A lo hi H W I. apply exec_SLet2; assumption.
  - intros; intros c A lo hi H W I. apply exec_SAssign; assumption.
  - intros; intros c A lo hi H W I. apply exec_SCall; assumption.
  - intros; intros c A lo hi H W I. apply exec_SCallNil; assumption.
  - intros; intros c A lo hi H W I. apply exec_SRead; assumption.
  - intros; intros c A lo hi H W I. apply exec_SDestroy; assumption.
  - intros; intros c A lo hi H W I. apply exec_SSwap; assumption.
  - (* if, then *)
    intros p th el t o _ IH c A lo hi H W I. rewrite check_if_eq in *. simpl in W.
    destruct (wfp_block lo th) as [m|] eqn:W1; [|discriminate].
    pose proof (wfp_block_le _ _ W1). pose proof (wfp_block_le _ _ W).
    apply ExecS_Exec; [exact I|].
    eapply exec_branches_then with (m := m); eauto using scoped_branch_fun, (proj2 skip_lemma).
    intros T OT IT. eapply exec_scoped; eauto.
  - (* if, else *)
    intros p th el t o _ IH c A lo hi H W I. rewrite check_if_eq in *. simpl in W.
    destruct (wfp_block lo th) as [m|] eqn:W1; [|discriminate].
    pose proof (wfp_block_le _ _ W1). pose proof (wfp_block_le _ _ W).
    apply ExecS_Exec; [exact I|].
    eapply exec_branches_else with (m := m); eauto using scoped_branch_fun, (proj2 skip_lemma).
    intros T OT IT. eapply exec_scoped; eauto.
  - (* if let, some *)
    intros p x px y th el t o _ IH c A lo hi H W I st R B. pose proof (rn_reach R) as D.
    pose proof (ok_iflet_pre _ _ _ _ _ _ _ _ H) as O1. rewrite check_iflet_eq in *. simpl in W. wf_split W.
    destruct (wfp_block (snd y) th) as [m|] eqn:W1; [|discriminate].
    pose proof (wfp_block_le _ _ W1). pose proof (wfp_block_le _ _ W).
    unfold move_from in *. set (A1 := record_ c y MoveDefinite (visit_ident c y A)) in *.
    change (VConsume (fst y) :: scoped (VDecl x px :: scoped t o) o)
      with ([VConsume (fst y)] ++ scoped (VDecl x px :: scoped t o) o).
    assert (B1 : BPost lo lo A A1) by (apply move_from_SPost; auto; lia).
    assert (F1 : branch_fun (iflet_fun c x px th) lo m).
    { eapply iflet_branch_fun with (lo' := snd y); eauto using (proj2 skip_lemma). lia. }
    assert (F2 : branch_fun (scoped_fun c el) m hi) by (eapply scoped_branch_fun; eauto using (proj2 skip_lemma)).
    refine (@Exec_seqS lo lo hi _ _ o A A1 _ _ _ _ (bp_inv B1) st R B); [apply exec_move_from; auto; lia | | lia].
    eapply exec_branches_then with (m := m); eauto; try plia; try apply (bp_inv B1).
    intros T OT IT. eapply exec_iflet with (lo' := snd y); eauto. lia.
  - (* if let, nil *)
    intros p x px y th el t o _ IH c A lo hi H W I st R B. pose proof (rn_reach R) as D.
    pose proof (ok_iflet_pre _ _ _ _ _ _ _ _ H) as O1. rewrite check_iflet_eq in *. simpl in W. wf_split W.
    destruct (wfp_block (snd y) th) as [m|] eqn:W1; [|discriminate].
    pose proof (wfp_block_le _ _ W1). pose proof (wfp_block_le _ _ W).
    unfold move_from in *. set (A1 := record_ c y MoveDefinite (visit_ident c y A)) in *.
    change (VConsume (fst y) :: scoped t o) with ([VConsume (fst y)] ++ scoped t o).
    assert (B1 : BPost lo lo A A1) by (apply move_from_SPost; auto; lia).
    assert (F1 : branch_fun (iflet_fun c x px th) lo m).
    { eapply iflet_branch_fun with (lo' := snd y); eauto using (proj2 skip_lemma). lia. }
    assert (F2 : branch_fun (scoped_fun c el) m hi) by (eapply scoped_branch_fun; eauto using (proj2 skip_lemma)).
    refine (@Exec_seqS lo lo hi _ _ o A A1 _ _ _ _ (bp_inv B1) st R B); [apply exec_move_from; auto; lia | | lia].
    eapply exec_branches_else with (m := m); eauto; try plia; try apply (bp_inv B1).
    intros T OT IT. eapply exec_scoped; eauto.
  - (* loop *)
    intros p body t o _ IH c A lo hi H W I. simpl in W. apply ExecS_Exec; [exact I|]. apply IH; assumption.
  - (* break *)
    intros p c A lo hi H W I. simpl in *. wf_split W. inversion W; subst.
    destruct (inloop c); [|exfalso; eapply report_not_ok; eauto].
    apply ok_set_exit_flags in H. apply exec_jump; auto.
  - (* continue *)
    intros p c A lo hi H W I. simpl in *. wf_split W. inversion W; subst.
    destruct (inloop c); [|exfalso; eapply report_not_ok; eauto].
    apply ok_set_exit_flags in H. apply exec_jump; auto.
  - intros p c A lo hi H W I. apply exec_SReturn; auto.
  - intros p c A lo hi H W I. apply exec_SReturn; auto.
  - intros p y c A lo hi H W I. apply exec_SReturn; auto.
  - intros p c A lo hi H W I. apply exec_SHalt; auto.
  - intros p pb params rr body c A lo hi H W I. apply exec_SFun; auto.
  - (* empty block *)
    intros c A lo hi H W I. simpl in *. inversion W; subst. apply exec_nil_normal; auto. lia.
  - (* statement, then the rest *)
    intros s b t1 t2 o _ IHs _ IHb c A lo hi H W I st R B. pose proof (rn_reach R) as D.
    simpl in H, W |- *. rewrite D in *.
    destruct (wfp_stmt lo s) as [m|] eqn:W1; [|discriminate].
    pose proof (wfp_stmt_le _ _ W1). pose proof (wfp_block_le _ _ W).
    assert (O1 : ok (check_stmt c s A)) by (apply (proj2 ok_mono) in H; exact H).
    pose proof (proj1 skip_lemma s c A lo m O1 W1 I D) as SP.
    refine (@Exec_seq lo m hi t1 t2 o A _ _ _ _ _ st R B); [apply (IHs c A lo m O1 W1 I) | apply (IHb c _ m hi H W (sp_inv SP)) | lia].
  - (* a statement that exits; the rest is not executed *)
    intros s b t o _ IHs NO c A lo hi H W I st R B. pose proof (rn_reach R) as D.
    simpl in H, W |- *. rewrite D in *.
    destruct (wfp_stmt lo s) as [m|] eqn:W1; [|discriminate].
    pose proof (wfp_stmt_le _ _ W1). pose proof (wfp_block_le _ _ W).
    assert (O1 : ok (check_stmt c s A)) by (apply (proj2 ok_mono) in H; exact H).
    pose proof (proj1 skip_lemma s c A lo m O1 W1 I D) as SP.
    pose proof (proj2 skip_lemma b c _ m hi H W (sp_inv SP)) as SP2.
    destruct (IHs c A lo m O1 W1 I st R B) as [st' [RUN [P Q]]].
    exists st'. split; [exact RUN|]. split.
    + destruct o; simpl in P |- *; try contradiction.
      * destruct P as [j [Lj PJ]]. exists j. split; [exact Lj | apply (sp_skip SP2); exact PJ].
      * destruct P as [j [Lj PJ]]. exists j. split; [exact Lj | apply (sp_skip SP2); exact PJ].
      * destruct P as [LEN DEAD]. split; [|exact DEAD].
        destruct (sp_scopes SP2) as [s0 [r0 [n0 [E1 [E2 _]]]]]. rewrite E2. rewrite E1 in LEN. exact LEN.
      * exact Logic.I.
    + intro N. destruct (Q N) as [B' S']. split; [eapply Bounded_mono; eauto | exact S'].
  - (* loop: no more iteration *)
    intros body c p A lo hi H W I st R B. pose proof (rn_reach R) as D.
    rewrite check_loop_eq in *.
    assert (HB : branch_fun (scoped_fun (with_ctx_loop c) body) lo hi)
      by (eapply scoped_branch_fun; eauto using (proj2 skip_lemma)).
    pose proof (wfp_block_le _ _ W) as L.
    rewrite (@loop_result_eq _ _ H).
    exists st. split; [reflexivity|]. split.
    + simpl. eapply after_done; eauto.
    + intros _. split; [eapply Bounded_mono; eauto | reflexivity].
  - (* loop: one iteration, then more *)
    intros body t1 t2 o1 o _ IHb OO _ IHl c p A lo hi H W I st R B. pose proof (rn_reach R) as D.
    pose proof H as H0. rewrite check_loop_eq in H.
    assert (HB : branch_fun (scoped_fun (with_ctx_loop c) body) lo hi)
      by (eapply scoped_branch_fun; eauto using (proj2 skip_lemma)).
    pose proof (wfp_block_le _ _ W) as L.
    assert (OB : ok (AB (scoped_fun (with_ctx_loop c) body) A)) by (rewrite (@loop_result_eq _ _ H) in H; exact H).
    destruct (@exec_scoped (with_ctx_loop c) body t1 o1 lo hi (LT0 A) IHb OB W
                (AInv_fresh_layer_e (errs A) (diags A) I) st (RelN_fresh_layer_e (errs A) (diags A) R) B)
      as [st1 [RUN1 [P1 Q1]]].
    assert (NH : o1 <> OHalt) by (destruct OO; subst; discriminate).
    destruct (Q1 NH) as [B1 S1].
    assert (SA : shape st1 = scopes A) by (rewrite S1; apply (rn_shape R)).
    assert (R1 : RelN A st1).
    { destruct OO; subst o1; simpl in P1.
      - eapply back_normal; eauto.
      - destruct P1 as [j [_ PJ]]. eapply back_jumped; eauto. }
    destruct (IHl c p A lo hi H0 W I st1 R1 (@Bounded_shape lo st st1 S1 B)) as [st2 [RUN2 [P2 Q2]]].
    exists st2. split; [rewrite run_app, RUN1; exact RUN2|]. split; [exact P2|].
    intro N. destruct (Q2 N) as [B2 S2]. split; [exact B2 | rewrite S2; exact S1].
  - (* loop: break *)
    intros body t _ IHb c p A lo hi H W I st R B. pose proof (rn_reach R) as D.
    rewrite check_loop_eq in *.
    assert (HB : branch_fun (scoped_fun (with_ctx_loop c) body) lo hi)
      by (eapply scoped_branch_fun; eauto using (proj2 skip_lemma)).
    pose proof (wfp_block_le _ _ W) as L.
    assert (OB : ok (AB (scoped_fun (with_ctx_loop c) body) A)) by (rewrite (@loop_result_eq _ _ H) in H; exact H).
    destruct (@exec_scoped (with_ctx_loop c) body t OBreak lo hi (LT0 A) IHb OB W
                (AInv_fresh_layer_e (errs A) (diags A) I) st (RelN_fresh_layer_e (errs A) (diags A) R) B)
      as [st1 [RUN1 [P1 Q1]]].
    destruct (Q1 ltac:(discriminate)) as [B1 S1].
    assert (SA : shape st1 = scopes A) by (rewrite S1; apply (rn_shape R)).
    rewrite (@loop_result_eq _ _ H).
    exists st1. split; [exact RUN1|]. split.
    + simpl in P1 |- *. destruct P1 as [j [_ PJ]]. eapply after_break; eauto.
    + intros _. split; [exact B1 | exact S1].
  - (* loop: return or halt inside *)
    intros body t o _ IHb OO c p A lo hi H W I st R B. pose proof (rn_reach R) as D.
    rewrite check_loop_eq in *.
    assert (HB : branch_fun (scoped_fun (with_ctx_loop c) body) lo hi)
      by (eapply scoped_branch_fun; eauto using (proj2 skip_lemma)).
    pose proof (wfp_block_le _ _ W) as L.
    assert (OB : ok (AB (scoped_fun (with_ctx_loop c) body) A)) by (rewrite (@loop_result_eq _ _ H) in H; exact H).
    destruct (@exec_scoped (with_ctx_loop c) body t o lo hi (LT0 A) IHb OB W
                (AInv_fresh_layer_e (errs A) (diags A) I) st (RelN_fresh_layer_e (errs A) (diags A) R) B)
      as [st1 [RUN1 [P1 Q1]]].
    rewrite (@loop_result_eq _ _ H).
    exists st1. split; [exact RUN1|]. split.
    + destruct OO; subst o; [eapply after_return; eauto | exact Logic.I].
    + exact Q1.
Qed.
