(* C03 — proofs, part 8: the concrete machine on the traces of simple statements. *)
From CV Require Import C03.Model C03.Paths C03.ProofsBase C03.ProofsRel C03.ProofsStep C03.ProofsSimple C03.ProofsSkip C03.ProofsStruct C03.ProofsSkipMain.
From Coq Require Import Lia.
Set Implicit Arguments.

(* ---------------------------------------------------------------- the concrete machine on simple traces *)

Definition live_in (st : cstate) (v : pos) : Prop :=
  forall b, In b (concat st) -> bpos b = v -> blive b = true.

Definition killb (vs : list pos) (b : cbind) : cbind :=
  if existsb (Z.eqb (bpos b)) vs then (bname b, bpos b, false) else b.
Definition kill (vs : list pos) (st : cstate) : cstate := map (map (killb vs)) st.

Lemma shape_kill vs st : shape (kill vs st) = shape st.
Proof.
  unfold shape, kill. rewrite map_map. apply map_ext. intro s. unfold shape1. rewrite map_map.
  apply map_ext. intro b. unfold killb. destruct (existsb _ _); reflexivity.
Qed.

Lemma concat_kill vs st : concat (kill vs st) = map (killb vs) (concat st).
Proof. unfold kill. rewrite concat_map. reflexivity. Qed.

Lemma cpos_kill vs st : cpos (kill vs st) = cpos st.
Proof.
  unfold cpos. rewrite concat_kill, map_map. apply map_ext. intro b. unfold killb.
  destruct (existsb _ _); reflexivity.
Qed.

Lemma kill_nil st : kill [] st = st.
Proof.
  unfold kill. rewrite <- (map_id st) at 2. apply map_ext. intro s. rewrite <- (map_id s) at 2.
  apply map_ext. intro b. reflexivity.
Qed.

Lemma kill_cons v vs st : kill (v :: vs) st = kill vs (set_live v false st).
Proof.
  unfold kill, set_live. rewrite map_map. apply map_ext. intro s. rewrite map_map. apply map_ext. intro b.
  unfold killb, relive. simpl. destruct (bpos b =? v) eqn:E; simpl.
  - unfold bpos, bname. simpl. destruct (existsb (Z.eqb (snd (fst b))) vs); reflexivity.
  - reflexivity.
Qed.

Lemma set_live_id v st : live_in st v -> set_live v true st = st.
Proof.
  intro L. unfold set_live. rewrite <- (map_id st) at 2. apply map_ext_in. intros s Is.
  rewrite <- (map_id s) at 2. apply map_ext_in. intros b Ib. unfold relive.
  destruct (bpos b =? v) eqn:E; [|reflexivity]. apply Z.eqb_eq in E.
  assert (blive b = true). { apply L; [apply in_concat; eauto | exact E]. }
  destruct b as [[n q] l]. simpl in *. subst. reflexivity.
Qed.

Lemma run_use st x v :
  find_scopes (shape st) x = Some v -> NoDup (cpos st) -> live_in st v -> run [VUse x] st = Some st.
Proof.
  intros F N L. simpl. destruct (upd_spec (fun l : bool => if l then Some true else None) st x F N) as [b [I [P [Q U]]]].
  rewrite U. rewrite (L b I P). rewrite set_live_id by exact L. reflexivity.
Qed.

Lemma run_consume st x v :
  find_scopes (shape st) x = Some v -> NoDup (cpos st) -> live_in st v ->
  run [VConsume x] st = Some (set_live v false st).
Proof.
  intros F N L. simpl. destruct (upd_spec (fun l : bool => if l then Some false else None) st x F N) as [b [I [P [Q U]]]].
  rewrite U. rewrite (L b I P). reflexivity.
Qed.

Lemma run_revive st x v e :
  (e = VRefill x \/ e = VAssign x) ->
  find_scopes (shape st) x = Some v -> NoDup (cpos st) -> run [e] st = Some (set_live v true st).
Proof.
  intros E F N. destruct (upd_spec (fun _ : bool => Some true) st x F N) as [b [I [P [Q U]]]].
  destruct E as [-> | ->]; simpl; rewrite U; reflexivity.
Qed.

Lemma live_in_set_live_other st v w l : v <> w -> live_in st w -> live_in (set_live v l st) w.
Proof.
  intros NE L b Ib Pb. rewrite concat_set_live in Ib. apply in_map_iff in Ib. destruct Ib as [b0 [E I0]].
  subst b. unfold relive in *. destruct (bpos b0 =? v) eqn:Q.
  - apply Z.eqb_eq in Q. unfold bpos in *. simpl in *. congruence.
  - apply L; assumption.
Qed.

Lemma run_consume_all ys : forall vs st ss,
  shape st = ss -> NoDup (cpos st) ->
  Forall2 (fun y v => find_scopes ss (fst y) = Some v) ys vs -> NoDup vs ->
  (forall v, In v vs -> live_in st v) ->
  run (consume_all ys) st = Some (kill vs st).
Proof.
  induction ys as [|y r IH]; intros vs st ss S N F ND L; inversion F; subst.
  - simpl. rewrite kill_nil. reflexivity.
  - change (consume_all (y :: r)) with ([VConsume (fst y)] ++ consume_all r).
    rewrite run_app. rewrite (@run_consume st (fst y) y0); auto; [|apply L; left; reflexivity].
    rewrite kill_cons. inversion ND; subst. apply IH with (ss := shape st).
    + apply shape_set_live.
    + rewrite cpos_set_live. exact N.
    + exact H3.
    + assumption.
    + intros v Iv. apply live_in_set_live_other; [intro; subst; contradiction | apply L; right; exact Iv].
Qed.

(* ---------------------------------------------------------------- relation after a step *)

Lemma RelN_live A st v b : RelN A st -> inv_of A v = None -> In b (concat st) -> bpos b = v -> blive b = true.
Proof.
  intros R N I P. pose proof (rn_agree R) as G. rewrite Forall_forall in G. destruct (G b I) as [G1 _].
  apply G1. rewrite P. exact N.
Qed.

Lemma RelN_live_in A st v : RelN A st -> inv_of A v = None -> live_in st v.
Proof. intros R N b I P. eapply RelN_live; eauto. Qed.

Lemma RelN_resolves A st y v : RelN A st -> resolves A y v -> find_scopes (shape st) (fst y) = Some v.
Proof. intros R H. rewrite (rn_shape R). exact H. Qed.

(* after a step that records invalidations for the variables vs, the machine with the variables ds killed;
   every variable whose recorded invalidation is definite must be among ds *)
Lemma step_RelN A A' C st ds :
  Step A A' C -> RelN A st ->
  (forall d, In d ds -> In d (map fst C)) ->
  (forall w k p, In (w, (k, p)) C -> is_definite k = true -> In w ds) ->
  RelN A' (kill ds st).
Proof.
  intros S R D1 D2. constructor.
  - rewrite shape_kill, (st_scopes S). apply (rn_shape R).
  - rewrite concat_kill. rewrite Forall_forall. intros b' Ib. apply in_map_iff in Ib.
    destruct Ib as [b [E Ib]]. subst b'.
    pose proof (rn_agree R) as G. rewrite Forall_forall in G. specialize (G b Ib).
    apply agree_agr. apply agree_agr in G.
    assert (PK : bpos (killb ds b) = bpos b) by (unfold killb; destruct (existsb _ _); reflexivity).
    rewrite PK. rewrite (step_inv_of (bpos b) S). unfold killb.
    destruct (existsb (Z.eqb (bpos b)) ds) eqn:Q.
    + apply existsb_exists in Q. destruct Q as [d [Id Ed]]. apply Z.eqb_eq in Ed. subst d.
      specialize (D1 _ Id).
      destruct (assoc (bpos b) C) eqn:EA.
      * split; [discriminate | reflexivity].
      * apply assoc_none in EA. contradiction.
    + destruct (assoc (bpos b) C) as [[k p]|] eqn:EA; [|exact G].
      split; [discriminate|]. simpl. intro DK. apply assoc_in in EA. specialize (D2 _ _ _ EA DK).
      exfalso. assert (existsb (Z.eqb (bpos b)) ds = true); [|congruence].
      apply existsb_exists. exists (bpos b). split; [exact D2 | apply Z.eqb_refl].
  - rewrite (st_ri S). apply (rn_reach R).
Qed.

Lemma Bounded_kill lo ds st : Bounded lo st -> Bounded lo (kill ds st).
Proof.
  intros [B N]. split; [|rewrite cpos_kill; exact N].
  rewrite concat_kill. rewrite Forall_forall in *. intros b' Ib. apply in_map_iff in Ib.
  destruct Ib as [b [E Ib]]. subst b'. unfold killb. destruct (existsb _ _); simpl; apply (B b Ib).
Qed.

(* declaration of a new variable *)
Lemma run_decl x px s r : run [VDecl x px] (s :: r) = Some (((x, px, true) :: s) :: r).
Proof. reflexivity. Qed.

Lemma declare_RelN x px A st lo :
  ok (declare x px A) -> AInv lo A -> lo < px -> RelN A st -> Bounded lo st ->
  exists s r, st = s :: r /\
    RelN (declare x px A) (((x, px, true) :: s) :: r) /\ Bounded px (((x, px, true) :: s) :: r).
Proof.
  intros H I L R [B N]. apply declare_ok in H.
  destruct (scopes A) as [|sa ra] eqn:E; [exfalso; apply (ai_nonempty I); exact E|].
  destruct H as [_ EQ]. rewrite EQ.
  pose proof (rn_shape R) as SH. rewrite E in SH.
  destruct st as [|s r]; [discriminate|]. simpl in SH. injection SH as S1 S2.
  exists s, r. split; [reflexivity|]. split.
  - constructor; simpl.
    + rewrite S1, S2. reflexivity.
    + constructor.
      * split; simpl; [reflexivity|]. intro DF. exfalso. eapply not_defi_none; [|exact DF].
        apply (ai_fresh I). exact L.
      * exact (rn_agree R).
    + apply (rn_reach R).
  - split.
    + simpl. constructor; [unfold bpos; simpl; lia|]. simpl in B. eapply Forall_impl; [|exact B]. simpl. intros; lia.
    + unfold cpos in *. simpl in *. constructor; [|exact N].
      intro G. apply in_map_iff in G. destruct G as [b [Pb Ib]]. rewrite Forall_forall in B.
      specialize (B b Ib). simpl in B. unfold bpos in *. simpl in Pb. lia.
Qed.
