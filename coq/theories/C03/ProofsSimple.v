(* C03 — proofs, part 4: the simple statements (no nested blocks) when no error is reported,
   and the concrete machine running their traces. *)
From CV Require Import C03.Model C03.Paths C03.ProofsBase C03.ProofsRel C03.ProofsStep.
From Coq Require Import Lia.

Set Implicit Arguments.

(* ------------------------------------------------------------------ abstract side *)

Lemma orb_diag b : b || b = b.
Proof. destruct b; reflexivity. Qed.

Lemma merge_ri_uneval_same r : merge_ri_uneval r r = r.
Proof. destruct r; unfold merge_ri_uneval; simpl. rewrite !orb_diag. reflexivity. Qed.

(* the state in which a branch / potentially unevaluated part is checked *)
Definition fresh_layer (A : state) : state :=
  mkSt empty_layer (layers A) (ri A) (scopes A) (errs A) (diags A).

Lemma inv_of_fresh_layer A v : inv_of (fresh_layer A) v = inv_of A v.
Proof. reflexivity. Qed.

Definition potentialize (C : list (pos * inval)) : list (pos * inval) :=
  map (fun wi => (fst wi, (as_potential (fst (snd wi)), snd (snd wi)))) C.

Lemma assoc_potentialize w C :
  assoc w (potentialize C) = match assoc w C with Some (k, p) => Some (as_potential k, p) | None => None end.
Proof.
  induction C as [|[v [k p]] r IH]; simpl; [reflexivity|].
  destruct (w =? v); [reflexivity | exact IH].
Qed.

Lemma map_fst_potentialize C : map fst (potentialize C) = map fst C.
Proof. unfold potentialize. rewrite map_map. reflexivity. Qed.

Lemma KindOK_potentialize A lo C :
  (forall w k p, In (w, (k, p)) C -> lo < p) -> KindOK A lo (potentialize C).
Proof.
  intros L w k p I. unfold potentialize in I. apply in_map_iff in I. destruct I as [[w' [k' p']] [E I]].
  simpl in E. inversion E; subst. split; [eauto|]. intros _. destruct k'; reflexivity.
Qed.

(* checkPotentiallyUnevaluated around the arguments of an optional-chaining call *)
Lemma uneval_args_ok c args A :
  let R := check_uneval (move_all c args) A in
  ok (fst (fst R)) -> dexit (ri A) = false -> ri_wf (ri A) ->
  exists vs, Forall2 (resolves A) args vs /\ (forall v, In v vs -> inv_of A v = None) /\ ok A /\
             Step A (fst (fst R)) (potentialize (C_of A MoveDefinite args vs)).
Proof.
  intros R H D W. subst R. unfold check_uneval in *. simpl in *. fold (fresh_layer A) in *.
  set (T1 := move_all c args (fresh_layer A)) in *.
  assert (OT : ok T1) by exact H.
  destruct (move_all_ok c args (fresh_layer A) OT D) as [vs [Rs [N [O S]]]]. fold T1 in S.
  exists vs. split; [exact Rs|]. split; [exact N|]. split; [exact O|].
  assert (RT : ri T1 = ri A) by (apply (st_ri S)).
  assert (DR : dret (ri A) = false).
  { destruct (dret (ri A)) eqn:E; [|reflexivity]. destruct W as [W _]. rewrite (W E) in D. discriminate. }
  constructor; simpl.
  - intro w. rewrite assoc_potentialize. unfold merge_layers. simpl.
    rewrite (st_top S). simpl.
    change (C_of (fresh_layer A) MoveDefinite args vs) with (C_of A MoveDefinite args vs).
    destruct (assoc w (C_of A MoveDefinite args vs)) as [[k p]|] eqn:E.
    + apply assoc_in in E. pose proof (st_none S _ _ E) as NN. rewrite inv_of_fresh_layer in NN.
      rewrite (inv_of_none_top _ _ NN), (inv_of_none_below _ _ NN).
      unfold merge_infos. rewrite RT, DR. reflexivity.
    + destruct (top A w); [reflexivity|]. destruct (lookup (below A) w); reflexivity.
  - reflexivity.
  - rewrite RT. apply merge_ri_uneval_same.
  - reflexivity.
  - intros w i I. rewrite <- inv_of_fresh_layer. unfold potentialize in I. apply in_map_iff in I.
    destruct I as [[w' i'] [E I]]. simpl in E. inversion E; subst. eapply (st_none S); eauto.
  - rewrite map_fst_potentialize. apply (st_nodup S).
Qed.

(* temporary invalidation of y around a step that does not touch y *)
Lemma step_bracket A vy py S2 S4 C :
  dexit (ri A) = false -> inv_of A vy = None ->
  S2 = maybe_add vy MoveTemporary py A ->
  Step S2 S4 C ->
  Step A (remove_tmp (Some (vy, (MoveTemporary, py))) S4) C /\ ~ In vy (map fst C).
Proof.
  intros D N E S. rewrite maybe_add_fresh in E by (auto using inv_of_none_top).
  assert (EK : eff_kind A vy MoveTemporary py = MoveTemporary).
  { unfold eff_kind. destruct (existsb _ _); reflexivity. }
  rewrite EK in E.
  assert (NI : ~ In vy (map fst C)).
  { intro I. apply in_map_iff in I. destruct I as [[w i] [F I]]. simpl in F. subst w.
    pose proof (st_none S _ _ I) as G. rewrite E in G. rewrite inv_of_set_top_eq in G. discriminate. }
  split; [|exact NI].
  assert (T4 : top S4 vy = Some (MoveTemporary, py)).
  { rewrite (st_top S). apply assoc_none in NI. rewrite NI. rewrite E. simpl. apply lset_eq. }
  unfold remove_tmp. rewrite T4. rewrite inval_eqb_refl.
  constructor; simpl.
  - intro w. unfold lset at 1. destruct (w =? vy) eqn:F.
    + apply Z.eqb_eq in F. subst w. apply assoc_none in NI. rewrite NI.
      symmetry. apply inv_of_none_top. exact N.
    + rewrite (st_top S). destruct (assoc w C); [reflexivity|]. rewrite E. simpl.
      apply lset_neq. apply Z.eqb_neq. exact F.
  - rewrite (st_below S), E. reflexivity.
  - rewrite (st_ri S), E. reflexivity.
  - rewrite (st_scopes S), E. reflexivity.
  - intros w i I. pose proof (st_none S _ _ I) as G. rewrite E in G.
    assert (w <> vy). { intro; subst. apply NI. apply in_map_iff. exists (vy, i). auto. }
    rewrite inv_of_set_top_neq in G by assumption. exact G.
  - apply (st_nodup S).
Qed.

(* the part of `var x <- y <- z` before the declaration of x *)
Definition let2_body (c : ctx) (y : occ) (z : option occ) (st : state) : state :=
  let st := visit_ident c y st in
  let '(st, r) := record c y MoveTemporary st in
  let st := visit_target c y st in
  let st := omove c z st in
  let st := remove_tmp r st in
  visit_ident c y st.

Lemma check_let2 c p x px y z st :
  check_stmt c (SLet2 p x px y z) st = declare x px (let2_body c y z st).
Proof. simpl. unfold let2_body, omove. destruct (record c y MoveTemporary (visit_ident c y st)). reflexivity. Qed.

Lemma scopes_maybe_add v k p st : scopes (maybe_add v k p st) = scopes st.
Proof. unfold maybe_add. destruct (dexit (ri st)); [reflexivity|]. destruct (top st v); reflexivity. Qed.

Lemma resolves_scopes A B y v : scopes A = scopes B -> resolves A y v -> resolves B y v.
Proof. unfold resolves. intros ->. auto. Qed.

Lemma let2_body_ok c y z A :
  ok (let2_body c y z A) -> dexit (ri A) = false ->
  exists vy C, resolves A y vy /\ inv_of A vy = None /\ ok A /\ Step A (let2_body c y z A) C /\
    ~ In vy (map fst C) /\
    match z with
    | Some z => exists vz, resolves A z vz /\ inv_of A vz = None /\
                           C = [(vz, (eff_kind A vz MoveDefinite (snd z), snd z))]
    | None => C = []
    end.
Proof.
  unfold let2_body. intros H D.
  destruct (record c y MoveTemporary (visit_ident c y A)) as [S2 r] eqn:ER.
  destruct (visit_ident_ok _ _ _ H) as [vy' [F5 [N5 E5]]]. rewrite E5 in *. clear vy' F5 N5 E5.
  apply ok_remove_tmp in H.
  assert (O2 : ok (fst (record c y MoveTemporary (visit_ident c y A))) -> ok (visit_ident c y A))
    by apply ok_record.
  assert (R2 : ri S2 = ri A).
  { replace S2 with (fst (record c y MoveTemporary (visit_ident c y A))) by (rewrite ER; reflexivity).
    change (ri (record_ c y MoveTemporary (visit_ident c y A)) = ri A).
    rewrite ri_record_, ri_visit_ident. reflexivity. }
  assert (D3 : dexit (ri (visit_target c y S2)) = false) by (rewrite ri_visit_target, R2; exact D).
  destruct (omove_ok c z _ H D3) as [C [O3 [S34 CZ]]].
  destruct (visit_target_ok _ _ _ O3) as [vt [Ft Et]]. rewrite Et in *. clear vt Ft Et.
  rewrite ER in O2. simpl in O2. specialize (O2 O3).
  destruct (visit_ident_ok _ _ _ O2) as [vy [F1 [N1 E1]]]. rewrite E1 in *.
  unfold record in ER. rewrite F1 in ER. inversion ER as [[E2 Er]]. clear ER. subst S2 r.
  destruct (@step_bracket A vy (snd y) _ _ C D N1 eq_refl S34) as [SB NI].
  exists vy, C. split; [eapply find_var_resolves; eauto|]. split; [exact N1|]. split; [exact O2|].
  split; [exact SB|]. split; [exact NI|].
  destruct z as [z|]; [|exact CZ].
  destruct CZ as [vz [Rz [Nz EC]]]. exists vz.
  split; [eapply resolves_scopes; [apply scopes_maybe_add | exact Rz]|].
  split.
  - eapply (st_none SB vz). rewrite EC. left. reflexivity.
  - rewrite EC. rewrite (@eff_kind_ri _ A _ _ _ R2). reflexivity.
Qed.

(* force-assignment *)
Lemma assign_ok c p o src A :
  ok (check_stmt c (SAssign p o src) A) -> dexit (ri A) = false ->
  exists vo C, resolves A o vo /\ ok A /\ Step A (check_stmt c (SAssign p o src) A) C /\
    inv_of (check_stmt c (SAssign p o src) A) vo = None /\
    match src with
    | Some z => exists vz, resolves A z vz /\ inv_of A vz = None /\
                           C = [(vz, (eff_kind A vz MoveDefinite (snd z), snd z))]
    | None => C = []
    end.
Proof.
  simpl. fold (omove c src (visit_target c o A)). intros H D.
  set (S2 := omove c src (visit_target c o A)) in *.
  assert (O2 : ok S2).
  { destruct (find_var c S2 (fst o)) as [[v cap]|]; [|exact H].
    destruct (inv_of S2 v); [exfalso; eapply note_not_ok; eauto | exact H]. }
  assert (D1 : dexit (ri (visit_target c o A)) = false) by (rewrite ri_visit_target; exact D).
  destruct (omove_ok c src _ O2 D1) as [C [O1 [S CZ]]]. fold S2 in S.
  destruct (visit_target_ok _ _ _ O1) as [vo [Fo Eo]]. rewrite Eo in *.
  assert (F2 : find_var c S2 (fst o) = Some (vo, false)).
  { rewrite <- Fo. apply find_var_scopes. apply (st_scopes S). }
  rewrite F2 in *.
  exists vo, C. split; [eapply find_var_resolves; eauto|]. split; [exact O1|].
  destruct (inv_of S2 vo) eqn:IV; [exfalso; eapply note_not_ok; eauto|].
  split; [exact S|]. split; [exact IV|]. exact CZ.
Qed.

(* calls *)
Definition call_args (c : ctx) (oc : bool) (args : list occ) (st : state) : state :=
  if oc then fst (fst (check_uneval (move_all c args) st)) else move_all c args st.

Definition call_recv (c : ctx) (recv : option occ) (st : state) : state :=
  match recv with
  | Some y =>
      let '(st, r) := record c y MoveTemporary st in
      let st := remove_tmp r st in
      match r with Some (v, _) => use_check v (snd y) st | None => st end
  | None => st
  end.

Lemma check_call c p recv oc args st :
  check_stmt c (SCall p recv oc args) st =
  call_recv c recv (call_args c oc args (match recv with Some y => visit_ident c y st | None => st end)).
Proof. reflexivity. Qed.

Definition C_call (A : state) (oc : bool) (args : list occ) (vs : list pos) : list (pos * inval) :=
  if oc then potentialize (C_of A MoveDefinite args vs) else C_of A MoveDefinite args vs.

Lemma map_fst_C_call A oc args vs : length args = length vs -> map fst (C_call A oc args vs) = vs.
Proof.
  intro L. unfold C_call. destruct oc; [rewrite map_fst_potentialize|]; apply map_fst_C_of; exact L.
Qed.

Lemma call_args_ok c oc args A :
  ok (call_args c oc args A) -> dexit (ri A) = false -> ri_wf (ri A) ->
  exists vs, Forall2 (resolves A) args vs /\ (forall v, In v vs -> inv_of A v = None) /\ ok A /\
             Step A (call_args c oc args A) (C_call A oc args vs).
Proof.
  unfold call_args, C_call. destruct oc; intros H D W.
  - apply uneval_args_ok; assumption.
  - apply move_all_ok; assumption.
Qed.

Lemma inval_eqb_eq a b : inval_eqb a b = true -> a = b.
Proof. intro H. assert (Some a = Some b) by (apply opt_inval_eqb_eq; exact H). congruence. Qed.

Lemma call_recv_ok c y A vy :
  find_var c A (fst y) = Some (vy, false) -> dexit (ri A) = false ->
  (forall p, top A vy <> Some (MoveTemporary, p)) ->
  ok (call_recv c (Some y) A) ->
  inv_of A vy = None /\ ok A /\ Step A (call_recv c (Some y) A) [].
Proof.
  unfold call_recv, record. intros F D NT H. rewrite F in *.
  destruct (use_check_ok _ _ _ H) as [N E]. rewrite E in *. clear E.
  assert (OA : ok A) by (apply ok_remove_tmp in H; apply ok_maybe_add in H; exact H).
  destruct (top A vy) as [j|] eqn:T.
  - exfalso. unfold maybe_add in N. rewrite D, T in N. unfold remove_tmp in N. rewrite T in N.
    destruct (inval_eqb j (MoveTemporary, snd y)) eqn:Q.
    + apply inval_eqb_eq in Q. subst j. eapply NT; eauto.
    + unfold inv_of, layers in N. simpl in N. rewrite T in N. discriminate.
  - rewrite maybe_add_fresh in * by assumption.
    assert (EK : eff_kind A vy MoveTemporary (snd y) = MoveTemporary).
    { unfold eff_kind. destruct (existsb _ _); reflexivity. }
    rewrite EK in *. unfold remove_tmp in *. simpl in *. rewrite lset_eq in *. rewrite inval_eqb_refl in *.
    assert (NA : inv_of A vy = None).
    { unfold inv_of, layers in N |- *. simpl in N |- *. rewrite lset_eq in N. rewrite T. exact N. }
    split; [exact NA|]. split; [exact OA|].
    constructor; simpl; auto.
    + intro w. unfold lset. destruct (w =? vy) eqn:Q; [apply Z.eqb_eq in Q; subst; symmetry; exact T | reflexivity].
    + intros ? ? [].
    + constructor.
Qed.

(* the kinds recorded for arguments are never temporary *)
Lemma C_call_not_tmp A oc args vs w p : ~ In (w, (MoveTemporary, p)) (C_call A oc args vs).
Proof.
  unfold C_call. intro I. destruct oc.
  - unfold potentialize in I. apply in_map_iff in I. destruct I as [[w' [k p']] [E I]]. simpl in E.
    injection E as E1 E2 E3. apply C_of_in in I. destruct I as [y [_ F]]. injection F as F1 F2.
    subst k. unfold eff_kind in E2. destruct (existsb _ _); discriminate.
  - apply C_of_in in I. destruct I as [y [_ E]]. inversion E as [[K P]].
    unfold eff_kind in K. destruct (existsb _ _); discriminate.
Qed.

Lemma ok_use_check v p st : ok (use_check v p st) -> ok st.
Proof. intro H. destruct (use_check_ok _ _ _ H) as [_ E]. rewrite E in H. exact H. Qed.

Lemma ok_call_recv c r st : ok (call_recv c r st) -> ok st.
Proof.
  unfold call_recv, record. destruct r as [y|]; [|auto].
  destruct (find_var c st (fst y)) as [[v cap]|]; cbv beta iota zeta.
  - intro H. apply ok_use_check in H. apply ok_remove_tmp in H. apply ok_maybe_add in H. exact H.
  - auto.
Qed.

Lemma call_ok c p recv oc args A :
  ok (check_stmt c (SCall p recv oc args) A) -> dexit (ri A) = false -> ri_wf (ri A) ->
  exists vs, Forall2 (resolves A) args vs /\ (forall v, In v vs -> inv_of A v = None) /\ ok A /\
             Step A (check_stmt c (SCall p recv oc args) A) (C_call A oc args vs) /\
             match recv with
             | Some y => exists vy, resolves A y vy /\ inv_of A vy = None /\ ~ In vy vs
             | None => True
             end.
Proof.
  rewrite check_call. intros H D W.
  destruct recv as [y|].
  - pose proof (ok_call_recv _ _ _ H) as O1.
    assert (D0 : dexit (ri (visit_ident c y A)) = false) by (rewrite ri_visit_ident; exact D).
    assert (W0 : ri_wf (ri (visit_ident c y A))) by (rewrite ri_visit_ident; exact W).
    destruct (call_args_ok c oc args _ O1 D0 W0) as [vs [R [N [O0 S]]]].
    destruct (visit_ident_ok _ _ _ O0) as [vy [F [N0 E0]]]. rewrite E0 in *.
    set (A1 := call_args c oc args A) in *.
    assert (F1 : find_var c A1 (fst y) = Some (vy, false)).
    { rewrite <- F. apply find_var_scopes. apply (st_scopes S). }
    assert (D1 : dexit (ri A1) = false) by (rewrite (st_ri S); exact D).
    assert (NT : forall q, top A1 vy <> Some (MoveTemporary, q)).
    { intros q T. rewrite (st_top S) in T. destruct (assoc vy (C_call A oc args vs)) as [i|] eqn:EA.
      - inversion T; subst. apply assoc_in in EA. eapply C_call_not_tmp; eauto.
      - rewrite (inv_of_none_top _ _ N0) in T. discriminate. }
    destruct (call_recv_ok c y A1 F1 D1 NT H) as [N1 [_ S1]].
    exists vs. split; [exact R|]. split; [exact N|]. split; [exact O0|]. split.
    + rewrite <- (app_nil_r (C_call A oc args vs)). eapply step_trans; eauto.
    + exists vy. split; [eapply find_var_resolves; eauto|]. split; [exact N0|].
      rewrite (step_inv_of vy S) in N1.
      destruct (assoc vy (C_call A oc args vs)) eqn:EA; [discriminate|].
      apply assoc_none in EA. rewrite map_fst_C_call in EA; [exact EA|].
      eapply Forall2_length; eauto.
  - simpl in *. destruct (call_args_ok c oc args A H D W) as [vs [R [N [O S]]]].
    exists vs. auto.
Qed.
