(* C03 — proofs, part 5: what the checker guarantees for states of paths that it does not follow
   (frozen after a break/continue), and the structural invariants of the analysis. *)
From CV Require Import C03.Model C03.Paths C03.ProofsBase C03.ProofsRel C03.ProofsStep C03.ProofsSimple.
From Coq Require Import Lia.
Set Implicit Arguments.

(* what checking a statement (or an unscoped block) guarantees when no error is reported *)
Record SPost (lo hi : pos) (A A' : state) : Prop := {
  sp_ok : ok A;
  sp_inv : AInv hi A';
  sp_below : below A' = below A;
  sp_scopes : exists s r new, scopes A = s :: r /\ scopes A' = (new ++ s) :: r /\
                              (forall x v, In (x, v) new -> lo < v <= hi);
  sp_frame : forall v, v <= lo -> ~ In v (map snd (concat (scopes A))) -> top A' v = top A v;
  sp_skip : forall k st j, RelJ k A st j -> RelJ k A' st j
}.

(* the same for constructs that leave the scopes as they were *)
Record BPost (lo hi : pos) (A A' : state) : Prop := {
  bp_ok : ok A;
  bp_inv : AInv hi A';
  bp_below : below A' = below A;
  bp_scopes : scopes A' = scopes A;
  bp_frame : forall v, v <= lo -> ~ In v (map snd (concat (scopes A))) -> top A' v = top A v;
  bp_skip : forall k st j, RelJ k A st j -> RelJ k A' st j
}.

Lemma BPost_SPost lo hi A A' : BPost lo hi A A' -> scopes A <> [] -> SPost lo hi A A'.
Proof.
  intros [O I B S F K] N. constructor; auto.
  destruct (scopes A) as [|s0 r0] eqn:E; [contradiction|].
  exists s0, r0, (@nil (name * pos)). split; [reflexivity|]. split; [rewrite S; reflexivity | intros ? ? []].
Qed.

Lemma SPost_trans lo m hi A A1 A2 :
  SPost lo m A A1 -> SPost m hi A1 A2 -> lo <= m -> m <= hi -> SPost lo hi A A2.
Proof.
  intros [O1 I1 B1 S1 F1 K1] [O2 I2 B2 S2 F2 K2] L L'. constructor; auto.
  - congruence.
  - destruct S1 as [s [r [n1 [E1 [E1' L1]]]]]. destruct S2 as [s2 [r2 [n2 [E2 [E2' L2]]]]].
    rewrite E1' in E2. injection E2 as Ea Eb. subst s2 r2. exists s, r, (n2 ++ n1). split; [exact E1|].
    split; [rewrite E2', app_assoc; reflexivity|].
    intros x v H. apply in_app_iff in H. destruct H as [H|H].
    + specialize (L2 _ _ H). lia.
    + specialize (L1 _ _ H). lia.
  - intros v Lv Nv. rewrite F2, F1; auto; [lia|].
    destruct S1 as [s [r [n1 [E1 [E1' L1]]]]]. rewrite E1'. rewrite E1 in Nv. simpl in *.
    rewrite map_app in *. rewrite in_app_iff in *. rewrite map_app, in_app_iff.
    intros [[H|H]|H]; [|tauto|tauto].
    apply in_map_iff in H. destruct H as [[x w] [Ew Hw]]. simpl in Ew. subst w.
    specialize (L1 _ _ Hw). lia.
Qed.

(* ---------------------------------------------------------------- RelJ and scope operations *)

Lemma RelJ_ext k A A' st j :
  (forall v, inv_of A' v = inv_of A v) -> ri A' = ri A -> scopes A' = scopes A ->
  RelJ k A st j -> RelJ k A' st j.
Proof.
  intros E R S [Rs Ra Rm Ri Rb Rr]. constructor; try rewrite R; try rewrite S; auto.
  eapply Forall_impl; [|exact Ra]. intros b. apply agree_ext. exact E.
Qed.

Lemma RelJ_enter k A st j : RelJ k A st j -> RelJ (S k) (enter_scope A) st j.
Proof. intros [Rs Ra Rm Ri Rb Rr]. constructor; simpl; auto. Qed.

Lemma leave_scope_ok A :
  ok (leave_scope A) ->
  match scopes A with
  | [] => leave_scope A = A
  | s :: r => leave_scope A = set_scopes r A /\
              (dexit (ri A) && negb (mjump (ri A)) = false -> forall x v, In (x, v) s -> defi A v)
  end /\ ok A.
Proof.
  unfold leave_scope. destruct (scopes A) as [|s r] eqn:E; intro H; [auto|].
  apply ok_set_scopes in H. destruct (check_loss_ok _ _ H) as [E1 D]. rewrite E1 in *.
  split; [|exact H]. split; [reflexivity|]. intros G x v I. apply (D G x v). simpl. rewrite app_nil_r. exact I.
Qed.

Lemma RelJ_leave k A st j s r :
  scopes A = s :: r -> RelJ (S k) A st j -> RelJ k (set_scopes r A) st j.
Proof. intros E [Rs Ra Rm Ri Rb Rr]. rewrite E in Rs. constructor; simpl; auto. Qed.

Lemma AInv_enter lo A : AInv lo A -> AInv lo (enter_scope A).
Proof. intros [U R F S J N]. constructor; simpl; auto. discriminate. Qed.

Lemma AInv_leave lo A s r : scopes A = s :: r -> r <> [] -> AInv lo A -> AInv lo (set_scopes r A).
Proof.
  intros E NE [U R F S J N]. constructor; simpl; auto.
  intros x v H. apply (S x v). rewrite E. simpl. apply in_app_iff. right. exact H.
Qed.

Lemma skipn_incl_concat {T} k (l : list (list T)) x : In x (concat (skipn k l)) -> In x (concat l).
Proof.
  revert l. induction k; simpl; intros l H; [exact H|]. destruct l as [|a r]; [exact H|].
  simpl. apply in_app_iff. right. apply IHk. exact H.
Qed.

Lemma Forall2_incl_concat (st : cstate) (ss : list scope) b :
  Forall2 (fun cs sc => incl (shape1 cs) sc) st ss -> In b (concat st) -> In (bname b, bpos b) (concat ss).
Proof.
  intro F. induction F; simpl; intro I; [contradiction|].
  apply in_app_iff in I. apply in_app_iff. destruct I as [I|I]; [left; apply H; apply in_shape1; exact I | right; auto].
Qed.

Lemma RelJ_in_scopes k A st j b : RelJ k A st j -> In b (concat st) -> In (bname b, bpos b) (concat (scopes A)).
Proof.
  intros R I. apply (skipn_incl_concat k). eapply Forall2_incl_concat; [apply (rj_shape R) | exact I].
Qed.

(* ---------------------------------------------------------------- simple statements *)

Lemma step_SPost A A' C lo hi :
  Step A A' C -> ok A -> AInv lo A -> lo <= hi -> KindOK A lo C ->
  (forall w i, In (w, i) C -> In w (map snd (concat (scopes A)))) ->
  BPost lo hi A A'.
Proof.
  intros S O I L K V. constructor; auto.
  - eapply step_AInv; eauto. intros w i H. specialize (V w i H). apply in_map_iff in V.
    destruct V as [[x w'] [E H']]. simpl in E. subst w'. pose proof (ai_scopes I _ _ H'). lia.
  - apply (st_below S).
  - apply (st_scopes S).
  - intros v _ N. apply (@step_frame A A' C v S). intro H. apply in_map_iff in H. destruct H as [[w i] [E H]].
    simpl in E. subst w. apply N. eapply V; eauto.
  - intros k st j R. eapply step_RelJ; eauto.
Qed.

Lemma declare_SPost x px A lo hi :
  ok (declare x px A) -> AInv lo A -> lo < px <= hi -> SPost lo hi A (declare x px A).
Proof.
  intros H I L. pose proof (ok_declare _ _ _ H) as O. apply declare_ok in H.
  destruct (scopes A) as [|s r] eqn:E; [exfalso; apply (ai_nonempty I); exact E|].
  destruct H as [_ ->]. destruct I as [U R F S J N]. constructor; simpl; auto.
  - constructor; simpl; auto.
    + intros v H. apply F. lia.
    + intros y v [H|H]; [inversion H; lia|]. assert (v <= lo); [|lia]. apply (S y v). rewrite E. exact H.
    + intros j H. specialize (J j H). lia.
    + discriminate.
  - exists s, r, [(x, px)]. rewrite E. split; [reflexivity|]. split; [reflexivity|].
    intros y v [H|[]]. inversion H; subst. lia.
  - intros k st j [Rs Ra Rm Ri Rb Rr]. constructor; simpl; auto.
    rewrite E in Rs. destruct k; simpl in *; [|exact Rs].
    inversion Rs; subst. constructor; [|assumption]. intros a Ha. right. auto.
Qed.

Lemma BPost_then_declare x px A A1 lo m hi :
  BPost lo m A A1 -> ok (declare x px A1) -> m < px <= hi -> lo <= m -> SPost lo hi A (declare x px A1).
Proof.
  intros B H L L'. eapply SPost_trans with (m := m); [| eapply declare_SPost; eauto | exact L' | lia].
  - apply BPost_SPost; [|]. 2:{ destruct B. rewrite <- bp_scopes0. apply (ai_nonempty bp_inv0). }
    exact B.
  - apply (bp_inv B).
Qed.

(* ---------------------------------------------------------------- diagnostics of merges *)

Lemma flag_diags_ok p vs outerL thenL r0 thenR elseL elseR st :
  ok (flag_diags p vs outerL thenL r0 thenR elseL elseR st) ->
  flag_diags p vs outerL thenL r0 thenR elseL elseR st = st /\
  forall x v, In (x, v) vs ->
    merge_layers outerL thenL thenR elseL elseR v =
    merge_layers outerL thenL (clean r0 thenR) elseL
      (match elseR with Some e => Some (clean r0 e) | None => None end) v.
Proof.
  revert st. induction vs as [|[x v] r IH]; simpl; intros st H.
  - split; [reflexivity | intros ? ? []].
  - match type of H with ok (flag_diags _ _ _ _ _ _ _ _ ?s) => destruct (IH s H) as [E F] end.
    rewrite E in *.
    destruct (opt_inval_eqb _ _) eqn:Q.
    + split; [reflexivity|]. intros y w [G|G]; [inversion G; subst; apply opt_inval_eqb_eq; exact Q | eauto].
    + exfalso. eapply note_not_ok; eauto.
Qed.

Lemma loop_diags_ok vs outerL bodyL bodyR st :
  ok (loop_diags vs outerL bodyL bodyR st) ->
  loop_diags vs outerL bodyL bodyR st = st /\
  forall x v, In (x, v) vs -> lookup outerL v = None -> bodyL v <> None -> dret bodyR = true.
Proof.
  revert st. induction vs as [|[x v] r IH]; simpl; intros st H.
  - split; [reflexivity | intros ? ? []].
  - match type of H with ok (loop_diags _ _ _ _ ?s) => destruct (IH s H) as [E F] end.
    rewrite E in *.
    destruct (lookup outerL v) eqn:Q1.
    + split; [reflexivity|]. intros y w [G|G]; [inversion G; subst; congruence | eauto].
    + destruct (bodyL v) eqn:Q2.
      * destruct (dret bodyR) eqn:Q3.
        -- split; [reflexivity|]. intros y w [G|G]; [inversion G; subst; auto | eauto].
        -- exfalso. eapply note_not_ok; eauto.
      * split; [reflexivity|]. intros y w [G|G]; [inversion G; subst; congruence | eauto].
Qed.

(* ---------------------------------------------------------------- exits *)

Lemma set_exit_flags_BPost ret halt jump p A lo hi :
  ok A -> AInv lo A -> lo <= hi -> (jump = true -> p <= hi) ->
  (ret = true -> dexit (ri A) && negb (mjump (ri A)) = false -> forall x v, In (x, v) (concat (scopes A)) -> defi A v) ->
  BPost lo hi A (set_exit_flags ret halt jump p A).
Proof.
  intros O I L J R. destruct I as [U W F S Jm N]. constructor; simpl; auto.
  - constructor; simpl; auto.
    + split; simpl; auto.
    + intros v H. apply F. lia.
    + intros x v H. specialize (S x v H). lia.
    + intros j H. destruct jump; [destruct H as [<-|H]; [auto|] |]; specialize (Jm j H); lia.
  - intros k st j RJ. pose proof RJ as [Rs Ra Rm Ri Rb Rr]. constructor; simpl; auto.
    + rewrite Rm. reflexivity.
    + destruct jump; [right|]; exact Ri.
    + intro D. destruct (dret (ri A)) eqn:DA; [auto|]. simpl in D. subst ret.
      assert (G : dexit (ri A) && negb (mjump (ri A)) = false) by (rewrite Rm; apply andb_false_r).
      specialize (R eq_refl G).
      rewrite Forall_forall in *. intros b Ib. apply (proj2 (Ra b Ib)).
      eapply R. eapply RelJ_in_scopes; [exact RJ | exact Ib].
Qed.

(* ---------------------------------------------------------------- branches *)

Definition fresh_layer_e (A : state) (e : list error) (d : list diag) : state :=
  mkSt empty_layer (layers A) (ri A) (scopes A) e d.

Lemma AInv_fresh_layer_e lo A e d : AInv lo A -> AInv lo (fresh_layer_e A e d).
Proof.
  intros [U R F S J N]. constructor; simpl; auto.
  intros v H. exfalso. apply H. reflexivity.
Qed.

Lemma RelJ_fresh_layer_e k A e d st j : RelJ k A st j -> RelJ k (fresh_layer_e A e d) st j.
Proof. apply RelJ_ext; reflexivity. Qed.

Definition branch_fun (f : state -> state) (lo hi : pos) : Prop :=
  forall T, ok (f T) -> AInv lo T -> dexit (ri T) = false -> BPost lo hi T (f T).

Lemma ri_wf_merge r t e : ri_wf r -> ri_wf t -> ri_wf e -> ri_wf (merge_ri r t e).
Proof.
  intros [R1 R2] [T1 T2] [E1 E2]. split; simpl; intro H.
  - apply orb_true_iff in H. destruct H as [H|H]; [rewrite (R1 H); reflexivity|].
    apply andb_true_iff in H. destruct H as [Ha Hb]. rewrite (T1 Ha), (E1 Hb). apply orb_true_r.
  - apply orb_true_iff in H. destruct H as [H|H]; [rewrite (R2 H); reflexivity|].
    apply andb_true_iff in H. destruct H as [Ha Hb]. rewrite (T2 Ha), (E2 Hb). apply orb_true_r.
Qed.

Lemma inv_of_merged A AT rT lE rE R e d v :
  inv_of (mkSt (merge_layers (layers A) (top AT) rT lE rE) (below A) R (scopes A) e d) v =
  match inv_of A v with Some i => Some i | None => merge_infos (top AT v) rT (lE v) rE end.
Proof. unfold inv_of at 1. unfold layers. simpl. apply lookup_merged. Qed.

Lemma check_branches_BPost p fT fE A lo m hi :
  branch_fun fT lo m -> branch_fun fE m hi -> lo <= m -> m <= hi ->
  ok (check_branches p fT fE A) -> AInv lo A -> dexit (ri A) = false ->
  BPost lo hi A (check_branches p fT fE A).
Proof.
  intros HT HE L1 L2 H I D. unfold check_branches in *.
  change (mkSt empty_layer (layers A) (ri A) (scopes A) (errs A) (diags A)) with (fresh_layer_e A (errs A) (diags A)) in *.
  set (T0 := fresh_layer_e A (errs A) (diags A)) in *.
  set (AT := fT T0) in *.
  change (mkSt empty_layer (layers A) (ri A) (scopes A) (errs AT) (diags AT)) with (fresh_layer_e A (errs AT) (diags AT)) in *.
  set (E0 := fresh_layer_e A (errs AT) (diags AT)) in *.
  set (AE := fE E0) in *.
  destruct (flag_diags_ok _ _ _ _ _ _ _ _ _ H) as [EQ FD]. rewrite EQ in *. clear EQ.
  assert (OE : ok AE) by exact H.
  assert (BE : BPost m hi E0 AE).
  { apply HE; [exact OE | apply AInv_fresh_layer_e; eapply AInv_mono; eauto | exact D]. }
  assert (OT : ok AT) by (exact (bp_ok BE)).
  assert (BT : BPost lo m T0 AT).
  { apply HT; [exact OT | apply AInv_fresh_layer_e; exact I | exact D]. }
  assert (OA : ok A) by (exact (bp_ok BT)).
  pose proof (bp_inv BT) as IT. pose proof (bp_inv BE) as IE.
  assert (HbT : below AT = layers A) by (rewrite (bp_below BT); reflexivity).
  assert (HbE : below AE = layers A) by (rewrite (bp_below BE); reflexivity).
  assert (ST : scopes AT = scopes A) by (rewrite (bp_scopes BT); reflexivity).
  assert (SE : scopes AE = scopes A) by (rewrite (bp_scopes BE); reflexivity).
  pose proof (inv_of_merged A AT (ri AT) (top AE) (Some (ri AE)) (merge_ri (ri A) (ri AT) (ri AE)) (errs AE) (diags AE)) as IM.
  constructor; simpl.
  - exact OA.
  - constructor; simpl.
    + intros v Hv. unfold merge_layers in Hv. simpl in Hv.
      destruct (top A v) eqn:TA; [apply (ai_uniq I); congruence|].
      destruct (lookup (below A) v); [contradiction | reflexivity].
    + apply ri_wf_merge; [apply (ai_ri I) | apply (ai_ri IT) | apply (ai_ri IE)].
    + intros v Hv. rewrite IM. rewrite (ai_fresh I) by lia.
      assert (top AT v = None) by (apply inv_of_none_top; apply (ai_fresh IT); lia).
      assert (top AE v = None) by (apply inv_of_none_top; apply (ai_fresh IE); lia).
      rewrite H0, H1. reflexivity.
    + intros x v Hv. pose proof (ai_scopes I _ _ Hv). lia.
    + intros j Hj. rewrite !in_app_iff in Hj. destruct Hj as [Hj|[Hj|Hj]].
      * pose proof (ai_jumps I _ Hj). lia.
      * pose proof (ai_jumps IT _ Hj). lia.
      * pose proof (ai_jumps IE _ Hj). lia.
    + apply (ai_nonempty I).
  - reflexivity.
  - reflexivity.
  - intros v Lv Nv. unfold merge_layers. simpl.
    destruct (top A v) eqn:TA; [reflexivity|]. destruct (lookup (below A) v); [reflexivity|].
    rewrite (bp_frame BT) by (simpl; auto; lia). rewrite (bp_frame BE) by (simpl; auto; lia).
    reflexivity.
  - intros k st j R.
    pose proof (bp_skip BT (RelJ_fresh_layer_e (errs A) (diags A) R)) as RT.
    pose proof (bp_skip BE (RelJ_fresh_layer_e (errs AT) (diags AT) R)) as RE.
    destruct R as [Rs Ra Rm Ri Rb Rr].
    constructor; simpl.
    + exact Rs.
    + rewrite Forall_forall in *. intros b Ib. apply agree_agr. rewrite IM.
      pose proof (Ra b Ib) as AA. apply agree_agr in AA.
      destruct (inv_of A (bpos b)) eqn:IA; [exact AA|].
      pose proof (rj_agree RT) as RaT. pose proof (rj_agree RE) as RaE. rewrite Forall_forall in RaT, RaE.
      pose proof (RaT b Ib) as AT'. pose proof (RaE b Ib) as AE'. apply agree_agr in AT', AE'.
      rewrite (@inv_of_branch_T A AT HbT (ai_uniq IT)) in AT'.
      rewrite (@inv_of_branch_E A AE HbE (ai_uniq IE)) in AE'. rewrite IA in AT', AE'.
      apply merge_both; auto.
      * apply (proj1 AA). reflexivity.
      * intro DT. pose proof (rj_ret RT DT) as G. rewrite Forall_forall in G. auto.
      * intro DE. pose proof (rj_ret RE DE) as G. rewrite Forall_forall in G. auto.
    + rewrite Rm. reflexivity.
    + apply in_app_iff. left. exact Ri.
    + exact Rb.
    + intro DR. apply orb_true_iff in DR. destruct DR as [DR|DR]; [auto|].
      apply andb_true_iff in DR. destruct DR as [DT _]. apply (rj_ret RT DT).
Qed.

(* ---------------------------------------------------------------- loops *)

Definition loop_result (fB : state -> state) (A : state) : state :=
  let '(st', bodyL, bodyR) := check_uneval (with_loop fB) A in
  loop_diags (concat (scopes A)) (layers A) bodyL bodyR st'.

(* the ReturnInfo of the body after WithLoop *)
Definition loop_ri (r0 r1 : rinfo) : rinfo :=
  if mjump r1 then mkRI (mret r1) false false false (mjump r0) (jumps r0)
  else mkRI (mret r1) (dret r1) (dhalt r1) (dexit r1) (mjump r0) (jumps r0).

Lemma with_loop_eq fB T : with_loop fB T = set_ri (loop_ri (ri T) (ri (fB T))) (fB T).
Proof. unfold with_loop, loop_ri. destruct (mjump (ri (fB T))); reflexivity. Qed.

Lemma loop_result_BPost fB A lo hi :
  branch_fun fB lo hi -> lo <= hi ->
  ok (loop_result fB A) -> AInv lo A -> dexit (ri A) = false ->
  BPost lo hi A (loop_result fB A) /\
  (* no variable of the enclosing scopes is invalidated by a body that may run again *)
  (let AB := fB (fresh_layer_e A (errs A) (diags A)) in
   BPost lo hi (fresh_layer_e A (errs A) (diags A)) AB /\
   forall x v, In (x, v) (concat (scopes A)) -> inv_of A v = None -> top AB v <> None ->
               dret (loop_ri (ri A) (ri AB)) = true).
Proof.
  intros HB L H I D. unfold loop_result, check_uneval in *.
  change (mkSt empty_layer (layers A) (ri A) (scopes A) (errs A) (diags A)) with (fresh_layer_e A (errs A) (diags A)) in *.
  set (T0 := fresh_layer_e A (errs A) (diags A)) in *.
  rewrite with_loop_eq in *. set (AB := fB T0) in *. simpl in *.
  change (ri T0) with (ri A) in *.
  destruct (loop_diags_ok _ _ _ _ _ H) as [EQ LD]. rewrite EQ in *. clear EQ.
  assert (OB : ok AB) by exact H.
  assert (BB : BPost lo hi T0 AB).
  { apply HB; [exact OB | apply AInv_fresh_layer_e; exact I | exact D]. }
  pose proof (bp_inv BB) as IB.
  pose proof (inv_of_merged A AB (loop_ri (ri A) (ri AB)) empty_layer None
                (merge_ri_uneval (ri A) (loop_ri (ri A) (ri AB))) (errs AB) (diags AB)) as IM.
  split; [|split; [exact BB|]].
  - constructor; simpl.
    + exact (bp_ok BB).
    + constructor; simpl.
      * intros v Hv. unfold merge_layers in Hv. simpl in Hv.
        destruct (top A v) eqn:TA; [apply (ai_uniq I); congruence|].
        destruct (lookup (below A) v); [contradiction | reflexivity].
      * destruct (ai_ri I) as [R1 R2]. split; simpl; auto.
      * intros v Hv. rewrite IM. rewrite (ai_fresh I) by lia.
        assert (top AB v = None) by (apply inv_of_none_top; apply (ai_fresh IB); lia).
        rewrite H0. reflexivity.
      * intros x v Hv. pose proof (ai_scopes I _ _ Hv). lia.
      * intros j Hj. pose proof (ai_jumps I _ Hj). lia.
      * apply (ai_nonempty I).
    + reflexivity.
    + reflexivity.
    + intros v Lv Nv. unfold merge_layers. simpl.
      destruct (top A v) eqn:TA; [reflexivity|]. destruct (lookup (below A) v); [reflexivity|].
      rewrite (bp_frame BB) by (simpl; auto; lia). reflexivity.
    + intros k st j [Rs Ra Rm Ri Rb Rr]. constructor; simpl; auto.
      * rewrite Forall_forall in *. intros b Ib. apply agree_agr. rewrite IM.
        pose proof (Ra b Ib) as AA. apply agree_agr in AA.
        destruct (inv_of A (bpos b)) eqn:IA; [exact AA|].
        apply merge_uneval_skipped. apply (proj1 AA). reflexivity.
      * rewrite Rm. reflexivity.
  - intros x v Hv NA TB. eapply LD; eauto.
Qed.
