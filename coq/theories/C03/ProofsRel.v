(* C03 — proofs, part 2: the concrete machine seen by declaration positions, the relations between
   abstract checker states and concrete machine states, and the merge lemmas. *)
From CV Require Import C03.Model C03.Paths C03.ProofsBase.
From Coq Require Import Lia.

Set Implicit Arguments.

(* ------------------------------------------------------------------ concrete machine by position *)

Definition shape1 (s : list cbind) : scope := map (fun b => (bname b, bpos b)) s.
Definition shape (st : cstate) : list scope := map shape1 st.
Definition cpos (st : cstate) : list pos := map bpos (concat st).

Definition relive (v : pos) (l : bool) (b : cbind) : cbind :=
  if bpos b =? v then (bname b, bpos b, l) else b.
Definition set_live (v : pos) (l : bool) (st : cstate) : cstate := map (map (relive v l)) st.

Lemma shape_set_live v l st : shape (set_live v l st) = shape st.
Proof.
  unfold shape, set_live. rewrite map_map. apply map_ext. intro s.
  unfold shape1. rewrite map_map. apply map_ext. intro b. unfold relive.
  destruct (bpos b =? v); reflexivity.
Qed.

Lemma concat_set_live v l st : concat (set_live v l st) = map (relive v l) (concat st).
Proof. unfold set_live. rewrite concat_map. reflexivity. Qed.

Lemma cpos_set_live v l st : cpos (set_live v l st) = cpos st.
Proof.
  unfold cpos. rewrite concat_set_live, map_map. apply map_ext. intro b. unfold relive.
  destruct (bpos b =? v); reflexivity.
Qed.

Lemma find_scope_shape1_none s x :
  find_scope (shape1 s) x = None -> upd_scope (fun _ => None) x s = None /\ forall f, upd_scope f x s = None.
Proof.
  induction s as [|b r IH]; simpl; intro H.
  - auto.
  - destruct (bname b =? x) eqn:E; [discriminate|]. destruct (IH H) as [_ G].
    split; [rewrite G; reflexivity | intro f; rewrite G; reflexivity].
Qed.

Lemma upd_scope_spec f s x v :
  find_scope (shape1 s) x = Some v -> NoDup (map bpos s) ->
  exists b, In b s /\ bpos b = v /\ bname b = x /\
    upd_scope f x s = Some (match f (blive b) with
                            | Some l => Some (map (relive v l) s)
                            | None => None end).
Proof.
  induction s as [|b r IH]; simpl; intros H N; [discriminate|].
  inversion N as [|? ? N1 N2]; subst.
  destruct (bname b =? x) eqn:E.
  - inversion H; subst. exists b. apply Z.eqb_eq in E. repeat split; auto.
    destruct (f (blive b)) as [l|]; [|reflexivity]. f_equal. f_equal.
    unfold relive at 1. rewrite Z.eqb_refl. f_equal.
    (* the rest is unchanged: no other binding has this position *)
    clear - N1. induction r as [|c r IH]; simpl; [reflexivity|].
    unfold relive at 1. destruct (bpos c =? bpos b) eqn:F.
    + apply Z.eqb_eq in F. exfalso. apply N1. simpl. left. auto.
    + f_equal. apply IH. intro G. apply N1. simpl. right. exact G.
  - destruct (IH H N2) as [b' [I [P [Q U]]]]. exists b'. repeat split; auto.
    rewrite U. destruct (f (blive b')) as [l|]; [|reflexivity]. f_equal. f_equal.
    unfold relive at 2. destruct (bpos b =? v) eqn:F; [|reflexivity].
    apply Z.eqb_eq in F. exfalso. apply N1. rewrite F, <- P. apply in_map. exact I.
Qed.

Lemma NoDup_app_l {T} (a b : list T) : NoDup (a ++ b) -> NoDup a.
Proof. induction a; simpl; intro H; [constructor|]. inversion H; subst. constructor; [rewrite in_app_iff in *; tauto | auto]. Qed.
Lemma NoDup_app_r {T} (a b : list T) : NoDup (a ++ b) -> NoDup b.
Proof. induction a; simpl; intro H; [auto|]. inversion H; subst. auto. Qed.
Lemma NoDup_app_disj {T} (a b : list T) x : NoDup (a ++ b) -> In x a -> In x b -> False.
Proof.
  induction a; simpl; intros H I J; [contradiction|]. inversion H; subst.
  destruct I as [->|I]; [apply H2; rewrite in_app_iff; tauto | eauto].
Qed.

Lemma map_relive_other v l s : ~ In v (map bpos s) -> map (relive v l) s = s.
Proof.
  induction s as [|b r IH]; simpl; intro H; [reflexivity|].
  unfold relive at 1. destruct (bpos b =? v) eqn:E.
  - apply Z.eqb_eq in E. exfalso. apply H. left. exact E.
  - f_equal. apply IH. intro G. apply H. right. exact G.
Qed.

Lemma upd_spec f st : forall x v,
  find_scopes (shape st) x = Some v -> NoDup (cpos st) ->
  exists b, In b (concat st) /\ bpos b = v /\ bname b = x /\
    upd f x st = match f (blive b) with Some l => Some (set_live v l st) | None => None end.
Proof.
  induction st as [|s r IH]; simpl; intros x v H N; [discriminate|].
  unfold cpos in N. simpl in N. rewrite map_app in N.
  destruct (find_scope (shape1 s) x) as [w|] eqn:F.
  - inversion H; subst w.
    destruct (upd_scope_spec f s x F (NoDup_app_l _ _ N)) as [b [I [P [Q U]]]].
    exists b. rewrite in_app_iff. repeat split; auto. rewrite U.
    destruct (f (blive b)) as [l|]; [|reflexivity]. f_equal. f_equal.
    (* the outer scopes do not contain position v *)
    fold (set_live v l r). unfold set_live.
    rewrite <- (map_id r) at 1. apply map_ext_in. intros s' I'.
    symmetry. apply map_relive_other. intro G.
    eapply NoDup_app_disj; [exact N | rewrite <- P; apply in_map; exact I |].
    rewrite in_map_iff in G. destruct G as [b' [Pb Ib]]. rewrite in_map_iff. exists b'. split; [congruence|].
    apply in_concat. exists s'. auto.
  - destruct (find_scope_shape1_none s x F) as [_ G]. rewrite G.
    destruct (IH x v H (NoDup_app_r _ _ N)) as [b [I [P [Q U]]]].
    exists b. rewrite in_app_iff. repeat split; auto. rewrite U.
    destruct (f (blive b)) as [l|]; [|reflexivity]. f_equal. f_equal.
    symmetry. apply map_relive_other. intro G'.
    eapply NoDup_app_disj; [exact N | exact G' |].
    rewrite <- P. apply in_map. exact I.
Qed.

Lemma upd_unbound f st x : find_scopes (shape st) x = None -> upd f x st = None.
Proof.
  induction st as [|s r IH]; simpl; intro H; [reflexivity|].
  destruct (find_scope (shape1 s) x) eqn:F; [discriminate|].
  destruct (find_scope_shape1_none s x F) as [_ G]. rewrite G. rewrite (IH H). reflexivity.
Qed.

Lemma run_app t1 : forall t2 st, run (t1 ++ t2) st = match run t1 st with Some st' => run t2 st' | None => None end.
Proof.
  induction t1 as [|e r IH]; simpl; intros; [reflexivity|].
  destruct (step e st); [apply IH | reflexivity].
Qed.

(* ------------------------------------------------------------------ relations *)

Definition agree (A : state) (b : cbind) : Prop :=
  (inv_of A (bpos b) = None -> blive b = true) /\ (defi A (bpos b) -> blive b = false).

(* normal mode: the machine state of a path that reaches the current point *)
Record RelN (A : state) (st : cstate) : Prop := {
  rn_shape : shape st = scopes A;
  rn_agree : Forall (agree A) (concat st);
  rn_reach : dexit (ri A) = false
}.

(* jumped mode: the machine state of a path that took a break/continue at offset j and waits for the
   enclosing scopes to end; the checker has opened k more scopes since *)
Record RelJ (k : nat) (A : state) (st : cstate) (j : pos) : Prop := {
  rj_shape : Forall2 (fun cs sc => incl (shape1 cs) sc) st (skipn k (scopes A));
  rj_agree : Forall (agree A) (concat st);
  rj_mjump : mjump (ri A) = true;
  rj_in : In j (jumps (ri A));
  rj_before : Forall (fun b => bpos b < j) (concat st);
  rj_ret : dret (ri A) = true -> Forall (fun b => blive b = false) (concat st)
}.

(* invariants of the abstract state; lo bounds every offset seen so far *)
Record AInv (lo : pos) (A : state) : Prop := {
  ai_uniq : forall v, top A v <> None -> lookup (below A) v = None;
  ai_ri : ri_wf (ri A);
  ai_fresh : forall v, lo < v -> inv_of A v = None;
  ai_scopes : forall x v, In (x, v) (concat (scopes A)) -> v <= lo;
  ai_jumps : forall j, In j (jumps (ri A)) -> j <= lo;
  ai_nonempty : scopes A <> []
}.

Definition Bounded (lo : pos) (st : cstate) : Prop :=
  Forall (fun b => bpos b <= lo) (concat st) /\ NoDup (cpos st).

Lemma AInv_mono lo lo' A : AInv lo A -> lo <= lo' -> AInv lo' A.
Proof.
  intros [U R F S J N] L. constructor; auto.
  - intros v H. apply F. lia.
  - intros x v H. specialize (S x v H). lia.
  - intros j H. specialize (J j H). lia.
Qed.

Lemma Bounded_mono lo lo' st : Bounded lo st -> lo <= lo' -> Bounded lo' st.
Proof.
  intros [B N] L. split; [|exact N]. eapply Forall_impl; [|exact B]. simpl. intros; lia.
Qed.

(* states that differ only in errors / diagnostics *)
Lemma agree_ext A A' b : (forall v, inv_of A' v = inv_of A v) -> agree A b -> agree A' b.
Proof.
  intros E [H1 H2]. unfold agree, defi, definitively_invalidated in *. rewrite E. auto.
Qed.

Lemma in_shape1 b s : In b s -> In (bname b, bpos b) (shape1 s).
Proof. intro H. unfold shape1. apply in_map_iff. exists b. auto. Qed.

Lemma in_concat_shape b st : In b (concat st) -> In (bname b, bpos b) (concat (shape st)).
Proof.
  intro H. apply in_concat in H. destruct H as [s [I J]]. apply in_concat. exists (shape1 s).
  split; [unfold shape; apply in_map; exact I | apply in_shape1; exact J].
Qed.

(* ------------------------------------------------------------------ merging *)

Section Merge.
  (* A: state before the conditional; AT, AE: states at the end of the two branches *)
  Variables (A AT AE : state).
  Hypothesis HbT : below AT = layers A.
  Hypothesis HbE : below AE = layers A.
  Hypothesis HuT : forall v, top AT v <> None -> lookup (below AT) v = None.
  Hypothesis HuE : forall v, top AE v <> None -> lookup (below AE) v = None.

  Definition mergedL : layer := merge_layers (layers A) (top AT) (ri AT) (top AE) (Some (ri AE)).

  Lemma inv_of_branch_T v : inv_of AT v = match inv_of A v with Some i => Some i | None => top AT v end.
  Proof.
    unfold inv_of at 1. unfold layers. simpl. rewrite HbT. fold (inv_of A v).
    destruct (top AT v) eqn:T.
    - assert (lookup (below AT) v = None) by (apply HuT; congruence).
      rewrite HbT in H. fold (inv_of A v) in H. rewrite H. reflexivity.
    - destruct (inv_of A v); reflexivity.
  Qed.

  Lemma inv_of_branch_E v : inv_of AE v = match inv_of A v with Some i => Some i | None => top AE v end.
  Proof.
    unfold inv_of at 1. unfold layers. simpl. rewrite HbE. fold (inv_of A v).
    destruct (top AE v) eqn:T.
    - assert (lookup (below AE) v = None) by (apply HuE; congruence).
      rewrite HbE in H. fold (inv_of A v) in H. rewrite H. reflexivity.
    - destruct (inv_of A v); reflexivity.
  Qed.

  Lemma lookup_merged (rT : rinfo) (rE : option rinfo) (lE : layer) v :
    lookup (merge_layers (layers A) (top AT) rT lE rE :: below A) v =
    match inv_of A v with Some i => Some i | None => merge_infos (top AT v) rT (lE v) rE end.
  Proof.
    unfold inv_of, layers, merge_layers. simpl.
    destruct (top A v) eqn:T; [reflexivity|].
    destruct (lookup (below A) v) eqn:B; [reflexivity|].
    destruct (merge_infos (top AT v) rT (lE v) rE); reflexivity.
  Qed.
End Merge.

(* facts about mergeResourceInfos used by the soundness proof *)

Definition opt_definite (i : option inval) : Prop :=
  match i with Some (k, _) => is_definite k = true | None => False end.

Lemma definite_defi A v : defi A v <-> opt_definite (inv_of A v).
Proof.
  unfold defi, definitively_invalidated, opt_definite. destruct (inv_of A v) as [[k p]|]; [tauto|].
  split; [discriminate | contradiction].
Qed.

(* agreement of one binding with an "effective" invalidation *)
Definition agr (i : option inval) (l : bool) : Prop :=
  (i = None -> l = true) /\ (opt_definite i -> l = false).

Lemma agree_agr A b : agree A b <-> agr (inv_of A (bpos b)) (blive b).
Proof. unfold agree, agr. rewrite definite_defi. tauto. Qed.

(* a path that ends the then-branch normally (so the then-branch is neither returned nor halted) *)
Lemma merge_then_normal iT iE rT rE l :
  dret rT = false -> dhalt rT = false ->
  agr iT l -> agr (merge_infos iT rT iE (Some rE)) l.
Proof.
  intros R H [A1 A2]. unfold merge_infos. rewrite R, H. simpl.
  destruct iT as [[kT pT]|], iE as [[kE pE]|]; simpl.
  - destruct (dret rE).
    + split; [discriminate | exact A2].
    + destruct (negb (is_definite kE) || negb (is_definite kT)) eqn:E.
      * split; [discriminate|]. simpl. intro D. exfalso. eapply as_potential_not_definite; eauto.
      * split; [discriminate | exact A2].
  - destruct (dhalt rE).
    + split; [discriminate | exact A2].
    + split; [discriminate|]. simpl. intro D. exfalso. eapply as_potential_not_definite; eauto.
  - destruct (dret rE).
    + split; [intros _; apply A1; reflexivity | simpl; contradiction].
    + split; [discriminate|]. simpl. intro D. exfalso. eapply as_potential_not_definite; eauto.
  - split; [intros _; apply A1; reflexivity | simpl; contradiction].
Qed.

Lemma merge_else_normal iT iE rT rE l :
  dret rE = false -> dhalt rE = false ->
  agr iE l -> agr (merge_infos iT rT iE (Some rE)) l.
Proof.
  intros R H [A1 A2]. unfold merge_infos. rewrite R, H. simpl.
  destruct iT as [[kT pT]|], iE as [[kE pE]|]; simpl.
  - rewrite andb_false_r. destruct (dret rT).
    + split; [discriminate | exact A2].
    + destruct (negb (is_definite kE) || negb (is_definite kT)) eqn:E.
      * split; [discriminate|]. simpl. intro D. exfalso. eapply as_potential_not_definite; eauto.
      * split; [discriminate|]. simpl. intro D.
        apply orb_false_iff in E. destruct E as [E1 E2]. apply negb_false_iff in E1. apply A2. exact E1.
  - destruct (dret rT).
    + split; [intros _; apply A1; reflexivity | simpl; contradiction].
    + split; [discriminate|]. simpl. intro D. exfalso. eapply as_potential_not_definite; eauto.
  - destruct (dhalt rT).
    + split; [discriminate | exact A2].
    + split; [discriminate|]. simpl. intro D. exfalso. eapply as_potential_not_definite; eauto.
  - split; [intros _; apply A1; reflexivity | simpl; contradiction].
Qed.

(* a machine state that is related to the state before the conditional and to both branch ends
   (a path that jumped before the conditional) *)
Lemma merge_both l iT iE rT rE :
  l = true ->                                         (* live: no invalidation before the conditional *)
  agr iT l -> agr iE l ->
  (dret rT = true -> l = false) -> (dret rE = true -> l = false) ->
  agr (merge_infos iT rT iE (Some rE)) l.
Proof.
  intros L [T1 T2] [E1 E2] KT KE. subst l.
  assert (NT : dret rT = false) by (destruct (dret rT); [specialize (KT eq_refl); discriminate | reflexivity]).
  assert (NE : dret rE = false) by (destruct (dret rE); [specialize (KE eq_refl); discriminate | reflexivity]).
  unfold merge_infos. rewrite NT, NE. simpl.
  destruct iT as [[kT pT]|], iE as [[kE pE]|]; simpl.
  - destruct (negb (is_definite kE) || negb (is_definite kT)) eqn:E.
    + split; [discriminate|]. simpl. intro D. exfalso. eapply as_potential_not_definite; eauto.
    + split; [discriminate | exact T2].
  - destruct (dhalt rE).
    + split; [discriminate | exact T2].
    + split; [discriminate|]. simpl. intro D. exfalso. eapply as_potential_not_definite; eauto.
  - destruct (dhalt rT).
    + split; [discriminate | exact E2].
    + split; [discriminate|]. simpl. intro D. exfalso. eapply as_potential_not_definite; eauto.
  - split; [reflexivity | simpl; contradiction].
Qed.

(* checkPotentiallyUnevaluated: else side absent *)
Lemma merge_uneval_kept iT rT l :
  agr iT l -> dret rT = false -> agr (merge_infos iT rT None None) l.
Proof.
  intros [A1 A2] R. unfold merge_infos. rewrite R. simpl.
  destruct iT as [[kT pT]|]; simpl.
  - split; [discriminate|]. simpl. intro D. exfalso. eapply as_potential_not_definite; eauto.
  - split; [intros _; apply A1; reflexivity | contradiction].
Qed.

Lemma merge_uneval_skipped iT rT l :
  l = true -> agr (merge_infos iT rT None None) l.
Proof.
  intros ->. unfold merge_infos. simpl. destruct iT as [[kT pT]|]; simpl.
  - destruct (dret rT); split; try discriminate; try reflexivity; simpl; try contradiction.
    intro D. exfalso. eapply as_potential_not_definite; eauto.
  - split; [reflexivity | contradiction].
Qed.

Lemma opt_inval_eqb_eq a b : opt_inval_eqb a b = true -> a = b.
Proof.
  destruct a as [[k p]|], b as [[k' p']|]; simpl; try discriminate; try reflexivity.
  unfold inval_eqb; simpl. intro H. apply andb_true_iff in H. destruct H as [H1 H2].
  apply Z.eqb_eq in H2. subst. destruct k, k'; simpl in H1; try discriminate; reflexivity.
Qed.
