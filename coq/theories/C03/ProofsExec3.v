(* C03 — proofs, part 11: optional binding and the loop invariant. *)
From CV Require Import C03.Model C03.Paths C03.ProofsBase C03.ProofsRel C03.ProofsStep C03.ProofsSimple C03.ProofsSkip C03.ProofsStruct C03.ProofsSkipMain C03.ProofsConc C03.ProofsExec1 C03.ProofsExec2.
From Coq Require Import Lia.
Set Implicit Arguments.

(* leaving a scope after a path with outcome o *)
Lemma post_leave lo o X sx rx st1 :
  scopes X = sx :: rx ->
  (dexit (ri X) && negb (mjump (ri X)) = false -> forall x v, In (x, v) sx -> defi X v) ->
  Post lo o X st1 -> o <> OHalt ->
  exists s1 r1, st1 = s1 :: r1 /\ Forall (fun b => blive b = false) s1 /\ Post lo o (set_scopes rx X) r1.
Proof.
  intros E2 LOSS P NH. destruct o; simpl in P; try contradiction.
  - pose proof (rn_shape P) as SX. rewrite E2 in SX.
    destruct st1 as [|s1 r1]; [discriminate|]. simpl in SX. injection SX as S1 S2.
    exists s1, r1. split; [reflexivity|]. split.
    + rewrite Forall_forall. intros b0 Ib.
      pose proof (rn_agree P) as G. rewrite Forall_forall in G.
      apply (proj2 (G b0 ltac:(simpl; apply in_app_iff; left; exact Ib))).
      apply (LOSS ltac:(rewrite (rn_reach P); reflexivity) (bname b0)).
      rewrite <- S1. apply in_shape1. exact Ib.
    + simpl. constructor; simpl.
      * exact S2.
      * pose proof (rn_agree P) as G. simpl in G. apply Forall_app in G. destruct G as [_ G]. exact G.
      * apply (rn_reach P).
  - destruct P as [j [Lj PJ]].
    pose proof (rj_shape PJ) as SX. simpl in SX. rewrite E2 in SX.
    destruct st1 as [|s1 r1]; [inversion SX|]. inversion SX as [|? ? ? ? IN1 F2]; subst.
    exists s1, r1. split; [reflexivity|]. split.
    + rewrite Forall_forall. intros b0 Ib.
      pose proof (rj_agree PJ) as G. rewrite Forall_forall in G.
      apply (proj2 (G b0 ltac:(simpl; apply in_app_iff; left; exact Ib))).
      apply (LOSS ltac:(rewrite (rj_mjump PJ); apply andb_false_r) (bname b0)).
      apply IN1. apply in_shape1. exact Ib.
    + simpl. exists j. split; [exact Lj|]. destruct PJ as [Rs Ra Rm Ri Rb Rr]. constructor; simpl; auto.
      * simpl in Ra. apply Forall_app in Ra. tauto.
      * simpl in Rb. apply Forall_app in Rb. tauto.
      * intro DR. specialize (Rr DR). simpl in Rr. apply Forall_app in Rr. tauto.
  - destruct P as [j [Lj PJ]].
    pose proof (rj_shape PJ) as SX. simpl in SX. rewrite E2 in SX.
    destruct st1 as [|s1 r1]; [inversion SX|]. inversion SX as [|? ? ? ? IN1 F2]; subst.
    exists s1, r1. split; [reflexivity|]. split.
    + rewrite Forall_forall. intros b0 Ib.
      pose proof (rj_agree PJ) as G. rewrite Forall_forall in G.
      apply (proj2 (G b0 ltac:(simpl; apply in_app_iff; left; exact Ib))).
      apply (LOSS ltac:(rewrite (rj_mjump PJ); apply andb_false_r) (bname b0)).
      apply IN1. apply in_shape1. exact Ib.
    + simpl. exists j. split; [exact Lj|]. destruct PJ as [Rs Ra Rm Ri Rb Rr]. constructor; simpl; auto.
      * simpl in Ra. apply Forall_app in Ra. tauto.
      * simpl in Rb. apply Forall_app in Rb. tauto.
      * intro DR. specialize (Rr DR). simpl in Rr. apply Forall_app in Rr. tauto.
  - destruct P as [LEN DEADALL]. rewrite E2 in LEN. destruct st1 as [|s1 r1]; [discriminate|]. simpl in LEN.
    simpl in DEADALL. apply Forall_app in DEADALL. destruct DEADALL as [D1 D2].
    exists s1, r1. split; [reflexivity|]. split; [exact D1|]. simpl. split; [lia | exact D2].
Qed.

(* the then-branch of an optional binding *)
Lemma exec_iflet c x px b t o lo lo' hi T :
  exec_block_P b t o -> lo < px <= lo' -> wfp_block lo' b = Some hi ->
  ok (iflet_fun c x px b T) -> AInv lo T ->
  ExecS lo hi (scoped (VDecl x px :: scoped t o) o) o T (iflet_fun c x px b T).
Proof.
  intros IH Lp W H I st R B. unfold iflet_fun in *.
  pose proof (wfp_block_le _ _ W) as Lh.
  change (declare x px (enter_scope T)) with (set_scopes ([(x, px)] :: scopes T) T) in *.
  set (T2 := set_scopes ([(x, px)] :: scopes T) T) in *.
  fold (scoped_fun c b T2) in *.
  destruct (leave_scope_ok _ H) as [LS O1].
  assert (I2 : AInv lo' T2).
  { destruct I as [U Rw F S J N]. constructor; simpl; auto.
    - intros v Hv. apply F. lia.
    - intros y v [Hv|Hv]; [inversion Hv; lia|]. specialize (S _ _ Hv). lia.
    - intros j Hj. specialize (J _ Hj). lia.
    - discriminate. }
  pose proof (@scoped_branch_fun c b lo' hi (proj2 skip_lemma b) W T2 O1 I2 (rn_reach R)) as BP.
  rewrite (bp_scopes BP) in LS. simpl in LS. destruct LS as [EQ LOSS]. rewrite EQ.
  (* the machine after entering the scope and declaring x *)
  assert (R2 : RelN T2 ([(x, px, true)] :: st)).
  { constructor; simpl.
    - rewrite (rn_shape R). reflexivity.
    - constructor.
      + split; simpl; [reflexivity|]. intro DF. exfalso. eapply not_defi_none; [|exact DF].
        apply (ai_fresh I). unfold bpos; simpl; lia.
      + apply (rn_agree R).
    - apply (rn_reach R). }
  assert (B2 : Bounded lo' ([(x, px, true)] :: st)).
  { destruct B as [Bb Bn]. split.
    - simpl. constructor; [unfold bpos; simpl; lia|]. eapply Forall_impl; [|exact Bb]. simpl. intros; lia.
    - unfold cpos in *. simpl. constructor; [|exact Bn].
      intro G. apply in_map_iff in G. destruct G as [b0 [Pb Ib]]. rewrite Forall_forall in Bb.
      specialize (Bb b0 Ib). simpl in Bb. unfold bpos in *. simpl in Pb. lia. }
  destruct (@exec_scoped c b t o lo' hi T2 IH O1 W I2 _ R2 B2) as [st3 [RUN [P Q]]].
  assert (RUNALL : run (VDecl x px :: scoped t o) ([] :: st) = Some st3) by exact RUN.
  destruct o.
  - destruct (Q ltac:(discriminate)) as [B3 S3].
    destruct (@post_leave lo' ONormal _ _ _ st3 (bp_scopes BP) LOSS P ltac:(discriminate)) as [s1 [r1 [E3 [DEAD P']]]].
    subst st3. exists r1. split.
    + rewrite run_scoped, RUNALL. apply run_exit. exact DEAD.
    + split; [exact P'|]. intros _. split; [eapply Bounded_tail; eauto|]. simpl in S3. injection S3 as _ S3. exact S3.
  - destruct (Q ltac:(discriminate)) as [B3 S3].
    destruct (@post_leave lo' OBreak _ _ _ st3 (bp_scopes BP) LOSS P ltac:(discriminate)) as [s1 [r1 [E3 [DEAD P']]]].
    subst st3. exists r1. split.
    + rewrite run_scoped, RUNALL. apply run_exit. exact DEAD.
    + split; [|intros _; split; [eapply Bounded_tail; eauto | simpl in S3; injection S3 as _ S3; exact S3]].
      simpl in P' |- *. destruct P' as [j [Lj PJ]]. exists j. split; [lia | exact PJ].
  - destruct (Q ltac:(discriminate)) as [B3 S3].
    destruct (@post_leave lo' OContinue _ _ _ st3 (bp_scopes BP) LOSS P ltac:(discriminate)) as [s1 [r1 [E3 [DEAD P']]]].
    subst st3. exists r1. split.
    + rewrite run_scoped, RUNALL. apply run_exit. exact DEAD.
    + split; [|intros _; split; [eapply Bounded_tail; eauto | simpl in S3; injection S3 as _ S3; exact S3]].
      simpl in P' |- *. destruct P' as [j [Lj PJ]]. exists j. split; [lia | exact PJ].
  - destruct (Q ltac:(discriminate)) as [B3 S3].
    destruct (@post_leave lo' OReturn _ _ _ st3 (bp_scopes BP) LOSS P ltac:(discriminate)) as [s1 [r1 [E3 [DEAD P']]]].
    subst st3. exists r1. split.
    + rewrite run_scoped, RUNALL. apply run_exit. exact DEAD.
    + split; [exact P'|]. intros _. split; [eapply Bounded_tail; eauto|]. simpl in S3. injection S3 as _ S3. exact S3.
  - exists st3. split.
    + rewrite run_scoped, RUNALL. reflexivity.
    + split; [exact Logic.I | intro N; contradiction].
Qed.

(* ---------------------------------------------------------------- loops *)

Section Loop.
  Variables (fB : state -> state) (A : state) (lo hi : pos).
  Hypothesis HB : branch_fun fB lo hi.
  Hypothesis L : lo <= hi.
  Hypothesis H : ok (loop_result fB A).
  Hypothesis I : AInv lo A.
  Hypothesis D : dexit (ri A) = false.

  Definition LT0 := fresh_layer_e A (errs A) (diags A).
  Definition AB := fB LT0.
  Definition rW := loop_ri (ri A) (ri AB).
  Definition AL := mkSt (merge_layers (layers A) (top AB) rW empty_layer None) (below A)
                        (merge_ri_uneval (ri A) rW) (scopes A) (errs AB) (diags AB).

  Lemma loop_result_eq : loop_result fB A = AL.
  Proof.
    unfold loop_result, check_uneval in *.
    change (mkSt empty_layer (layers A) (ri A) (scopes A) (errs A) (diags A)) with LT0 in *.
    rewrite with_loop_eq in *. change (fB LT0) with AB in *. simpl in *.
    change (ri LT0) with (ri A) in *.
    destruct (loop_diags_ok _ _ _ _ _ H) as [EQ _]. exact EQ.
  Qed.

  Lemma loop_facts :
    BPost lo hi LT0 AB /\
    forall x v, In (x, v) (concat (scopes A)) -> inv_of A v = None -> top AB v <> None -> dret rW = true.
  Proof. destruct (loop_result_BPost HB L H I D) as [_ [B1 B2]]. split; [exact B1 | exact B2]. Qed.

  Lemma inv_AL v :
    inv_of AL v = match inv_of A v with Some i => Some i | None => merge_infos (top AB v) rW None None end.
  Proof. unfold AL. apply inv_of_merged. Qed.

  Let BB := proj1 loop_facts.
  Let LD := proj2 loop_facts.
  Let HbB : below AB = layers A. Proof. rewrite (bp_below BB). reflexivity. Qed.
  Let SB : scopes AB = scopes A. Proof. rewrite (bp_scopes BB). reflexivity. Qed.

  Lemma inv_AB v : inv_of AB v = match inv_of A v with Some i => Some i | None => top AB v end.
  Proof. apply (@inv_of_branch_T A AB HbB (ai_uniq (bp_inv BB))). Qed.

  (* the variables of the enclosing scopes are not invalidated by a body that may run again *)
  Lemma body_keeps st1 b :
    dret rW = false -> shape st1 = scopes A -> In b (concat st1) -> inv_of A (bpos b) = None -> top AB (bpos b) = None.
  Proof.
    intros DW SH Ib N. destruct (top AB (bpos b)) eqn:E; [|reflexivity]. exfalso.
    assert (dret rW = true); [|congruence].
    apply (LD (bname b) (bpos b)); [rewrite <- SH; apply in_concat_shape; exact Ib | exact N | congruence].
  Qed.

  Lemma back_normal st1 : RelN AB st1 -> shape st1 = scopes A -> RelN A st1.
  Proof.
    intros R SH. constructor; [exact SH | | exact D].
    assert (DW : dret rW = false).
    { unfold rW, loop_ri. destruct (mjump (ri AB)); simpl; [reflexivity|].
      destruct (dret (ri AB)) eqn:E; [|reflexivity]. destruct (ai_ri (bp_inv BB)) as [W _].
      pose proof (W E). pose proof (rn_reach R). congruence. }
    pose proof (rn_agree R) as G. rewrite Forall_forall in *. intros b Ib. specialize (G b Ib).
    apply agree_agr. apply agree_agr in G. rewrite inv_AB in G.
    destruct (inv_of A (bpos b)) eqn:N; [exact G|].
    rewrite (body_keeps st1 b DW SH Ib N) in G. exact G.
  Qed.

  Lemma back_jumped st1 j : RelJ 0 AB st1 j -> shape st1 = scopes A -> RelN A st1.
  Proof.
    intros R SH. constructor; [exact SH | | exact D].
    assert (DW : dret rW = false) by (unfold rW, loop_ri; rewrite (rj_mjump R); reflexivity).
    pose proof (rj_agree R) as G. rewrite Forall_forall in *. intros b Ib. specialize (G b Ib).
    apply agree_agr. apply agree_agr in G. rewrite inv_AB in G.
    destruct (inv_of A (bpos b)) eqn:N; [exact G|].
    rewrite (body_keeps st1 b DW SH Ib N) in G. exact G.
  Qed.

  Lemma after_break st1 j : RelJ 0 AB st1 j -> shape st1 = scopes A -> RelN AL st1.
  Proof.
    intros R SH. constructor; [exact SH | | simpl; exact D].
    assert (DW : dret rW = false) by (unfold rW, loop_ri; rewrite (rj_mjump R); reflexivity).
    pose proof (rj_agree R) as G. rewrite Forall_forall in *. intros b Ib. specialize (G b Ib).
    apply agree_agr. apply agree_agr in G. rewrite inv_AB in G. rewrite inv_AL.
    destruct (inv_of A (bpos b)) eqn:N; [exact G|].
    apply merge_uneval_kept; assumption.
  Qed.

  Lemma after_done st : RelN A st -> RelN AL st.
  Proof.
    intros R. constructor; [apply (rn_shape R) | | simpl; exact D].
    pose proof (rn_agree R) as G. rewrite Forall_forall in *. intros b Ib. specialize (G b Ib).
    apply agree_agr. apply agree_agr in G. rewrite inv_AL.
    destruct (inv_of A (bpos b)) eqn:N; [exact G|].
    apply merge_uneval_skipped. apply (proj1 G). reflexivity.
  Qed.

  Lemma after_return st1 : Post lo OReturn AB st1 -> Post lo OReturn AL st1.
  Proof. simpl. intros [LEN DEAD]. split; [rewrite <- SB; exact LEN | exact DEAD]. Qed.
End Loop.
