(* C03 — independent specification: control-flow paths of a fragment program and linearity of a path.

   [fun_path f t]  : t is the event trace of one control-flow path through the function declaration f,
                     with every branch condition unknown and every loop body run 0,1,2,... times.
   [linear_trace t]: a concrete machine (scopes of named bindings, each live or dead) runs t without a
                     violation: no use/move/destroy of a dead (moved or destroyed) variable, and no variable
                     live when its scope ends (normal end, break, continue or return).  A path that halts
                     (panic) leaves no scope.

   Nothing here refers to the checker's analysis.  No proofs in this file. *)
From CV Require Export C03.Model.

Inductive ev :=
| VEnter                           (* a scope is entered *)
| VExit                            (* the innermost scope ends: all its variables must be dead *)
| VDecl (x : name) (px : pos)      (* a new live variable x (px only labels the declaration) *)
| VUse (x : name)                  (* x is read / is the receiver of a call *)
| VConsume (x : name)              (* x is moved or destroyed *)
| VRefill (x : name)               (* second-value transfer: x receives a new resource *)
| VAssign (x : name).              (* force-assignment into x *)

Inductive outcome := ONormal | OBreak | OContinue | OReturn | OHalt.

Definition consume_all (ys : list occ) : list ev := map (fun y => VConsume (fst y)) ys.
Definition opt_consume (z : option occ) : list ev :=
  match z with Some z => [VConsume (fst z)] | None => [] end.
Definition opt_use (y : option occ) : list ev :=
  match y with Some y => [VUse (fst y)] | None => [] end.

(* a block in its own scope; a halting path does not leave the scope *)
Definition scoped (t : list ev) (o : outcome) : list ev :=
  match o with OHalt => VEnter :: t | _ => VEnter :: t ++ [VExit] end.

Inductive spath : stmt -> list ev -> outcome -> Prop :=
| P_Let p x px srcs :
    spath (SLet p x px srcs) (consume_all srcs ++ [VDecl x px]) ONormal
| P_Let2 p x px y z :
    spath (SLet2 p x px y z) (VConsume (fst y) :: opt_consume z ++ [VRefill (fst y); VDecl x px]) ONormal
| P_Assign p o src :
    spath (SAssign p o src) (opt_consume src ++ [VAssign (fst o)]) ONormal
| P_Call p recv oc args :
    spath (SCall p recv oc args) (opt_use recv ++ consume_all args ++ opt_use recv) ONormal
| P_CallNil p y args :          (* optional chaining on nil: the arguments are not evaluated *)
    spath (SCall p (Some y) true args) [VUse (fst y); VUse (fst y)] ONormal
| P_Read p y : spath (SRead p y) [VUse (fst y)] ONormal
| P_Destroy p y : spath (SDestroy p y) [VConsume (fst y)] ONormal
| P_Swap p y z : spath (SSwap p y z) [VUse (fst y); VUse (fst z)] ONormal
| P_IfThen p th el t o : bpath th t o -> spath (SIf p th el) (scoped t o) o
| P_IfElse p th el t o : bpath el t o -> spath (SIf p th el) (scoped t o) o
| P_IfLetSome p x px y th el t o :
    bpath th t o ->
    spath (SIfLet p x px y th el)
          (VConsume (fst y) :: scoped (VDecl x px :: scoped t o) o) o
| P_IfLetNil p x px y th el t o :
    bpath el t o ->
    spath (SIfLet p x px y th el) (VConsume (fst y) :: scoped t o) o
| P_Loop p body t o : lpath body t o -> spath (SLoop p body) t o
| P_Break p : spath (SBreak p) [] OBreak
| P_Continue p : spath (SContinue p) [] OContinue
| P_Return p : spath (SReturn p RNone) [] OReturn
| P_ReturnCreate p : spath (SReturn p RCreate) [] OReturn
| P_ReturnMove p y : spath (SReturn p (RMove y)) [VConsume (fst y)] OReturn
| P_Halt p : spath (SHalt p) [] OHalt
| P_Fun p pb params rr body : spath (SFun p pb params rr body) [] ONormal   (* a declaration does nothing *)

with bpath : block -> list ev -> outcome -> Prop :=
| B_Nil : bpath BNil [] ONormal
| B_Next s b t1 t2 o : spath s t1 ONormal -> bpath b t2 o -> bpath (BCons s b) (t1 ++ t2) o
| B_Exit s b t o : spath s t o -> o <> ONormal -> bpath (BCons s b) t o

(* zero or more iterations of a loop body *)
with lpath : block -> list ev -> outcome -> Prop :=
| L_Done body : lpath body [] ONormal
| L_Iter body t1 t2 o1 o :
    bpath body t1 o1 -> (o1 = ONormal \/ o1 = OContinue) -> lpath body t2 o ->
    lpath body (scoped t1 o1 ++ t2) o
| L_Break body t : bpath body t OBreak -> lpath body (scoped t OBreak) ONormal
| L_Exit body t o : bpath body t o -> (o = OReturn \/ o = OHalt) -> lpath body (scoped t o) o.

(* one path through a function: parameter scope, body scope *)
Definition decl_params (params : list (name * pos)) : list ev := map (fun q => VDecl (fst q) (snd q)) params.

Inductive fun_path : stmt -> list ev -> Prop :=
| F_Path p pb params rr body t o :
    bpath body t o ->
    fun_path (SFun p pb params rr body) (scoped (decl_params params ++ scoped t o) o).

(* the functions declared (at any depth) inside a statement / block *)
Fixpoint funs_stmt (s : stmt) : list stmt :=
  match s with
  | SIf _ th el => funs_block th ++ funs_block el
  | SIfLet _ _ _ _ th el => funs_block th ++ funs_block el
  | SLoop _ body => funs_block body
  | SFun p pb params rr body => SFun p pb params rr body :: funs_block body
  | _ => []
  end
with funs_block (b : block) : list stmt :=
  match b with BNil => [] | BCons s r => funs_stmt s ++ funs_block r end.

(* all paths of a program: the paths of every function declared in it, each run in isolation *)
Definition prog_path (f : stmt) (t : list ev) : Prop :=
  exists g, In g (funs_stmt f) /\ fun_path g t.

(* ------------------------------------------------------------------ the concrete machine *)

Definition cbind := (name * pos * bool)%type.      (* name, label of the declaration, live? *)
Definition cstate := list (list cbind).            (* scopes, innermost first *)

Definition bname (b : cbind) : name := fst (fst b).
Definition bpos (b : cbind) : pos := snd (fst b).
Definition blive (b : cbind) : bool := snd b.

(* update the innermost binding of x with f; None if x is unbound or f refuses *)
Fixpoint upd_scope (f : bool -> option bool) (x : name) (s : list cbind) : option (option (list cbind)) :=
  match s with
  | [] => None                                             (* not in this scope *)
  | b :: r =>
      if bname b =? x then
        Some (match f (blive b) with Some l => Some ((bname b, bpos b, l) :: r) | None => None end)
      else match upd_scope f x r with
           | None => None
           | Some None => Some None
           | Some (Some r') => Some (Some (b :: r'))
           end
  end.

Fixpoint upd (f : bool -> option bool) (x : name) (st : cstate) : option cstate :=
  match st with
  | [] => None                                             (* unbound *)
  | s :: r =>
      match upd_scope f x s with
      | Some (Some s') => Some (s' :: r)
      | Some None => None                                  (* violation *)
      | None => match upd f x r with Some r' => Some (s :: r') | None => None end
      end
  end.

Definition all_dead (s : list cbind) : bool := forallb (fun b => negb (blive b)) s.

(* one step; None = linearity violation *)
Definition step (e : ev) (st : cstate) : option cstate :=
  match e with
  | VEnter => Some ([] :: st)
  | VExit => match st with s :: r => if all_dead s then Some r else None | [] => None end
  | VDecl x px => match st with s :: r => Some (((x, px, true) :: s) :: r) | [] => None end
  | VUse x => upd (fun l => if l then Some true else None) x st
  | VConsume x => upd (fun l => if l then Some false else None) x st
  | VRefill x => upd (fun _ => Some true) x st
  | VAssign x => upd (fun _ => Some true) x st
  end.

Fixpoint run (t : list ev) (st : cstate) : option cstate :=
  match t with
  | [] => Some st
  | e :: r => match step e st with Some st' => run r st' | None => None end
  end.

Definition linear_trace (t : list ev) : Prop := exists st, run t [] = Some st.
Definition linear_traceb (t : list ev) : bool :=
  match run t [] with Some _ => true | None => false end.

(* every path of every function of the program is linear *)
Definition linear_prog (f : stmt) : Prop := forall t, prog_path f t -> linear_trace t.
