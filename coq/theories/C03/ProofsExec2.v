(* C03 — proofs, part 10: paths through scoped blocks and conditionals. *)
From CV Require Import C03.Model C03.Paths C03.ProofsBase C03.ProofsRel C03.ProofsStep C03.ProofsSimple C03.ProofsSkip C03.ProofsStruct C03.ProofsSkipMain C03.ProofsConc C03.ProofsExec1.
From Coq Require Import Lia.
Set Implicit Arguments.

(* ---------------------------------------------------------------- paths through a scoped block *)

Definition EPostS (lo hi : pos) (o : outcome) (A' : state) (st st' : cstate) : Prop :=
  Post lo o A' st' /\ (o <> OHalt -> Bounded hi st' /\ shape st' = shape st).

Definition ExecS (lo hi : pos) (t : list ev) (o : outcome) (A A' : state) : Prop :=
  forall st, RelN A st -> Bounded lo st -> exists st', run t st = Some st' /\ EPostS lo hi o A' st st'.

Definition exec_block_P (b : block) (t : list ev) (o : outcome) : Prop :=
  forall c A lo hi, ok (check_block c b A) -> wfp_block lo b = Some hi -> AInv lo A ->
                    Exec lo hi t o A (check_block c b A).

Lemma all_dead_true s : Forall (fun b => blive b = false) s -> all_dead s = true.
Proof.
  intro F. unfold all_dead. apply forallb_forall. rewrite Forall_forall in F. intros b Ib.
  rewrite (F b Ib). reflexivity.
Qed.

Lemma Bounded_tail hi s r : Bounded hi (s :: r) -> Bounded hi r.
Proof.
  intros [B N]. simpl in B. apply Forall_app in B. destruct B as [_ B]. split; [exact B|].
  unfold cpos in *. simpl in N. rewrite map_app in N. apply NoDup_app_r in N. exact N.
Qed.

Lemma run_scoped t o st :
  run (scoped t o) st =
  match run t ([] :: st) with
  | Some st1 => match o with OHalt => Some st1 | _ => run [VExit] st1 end
  | None => None
  end.
Proof.
  assert (G : forall u, run (VEnter :: u) st = run u ([] :: st)) by reflexivity.
  destruct o; simpl scoped; rewrite G; try rewrite run_app; destruct (run t ([] :: st)); reflexivity.
Qed.

Lemma run_exit s r : Forall (fun b => blive b = false) s -> run [VExit] (s :: r) = Some r.
Proof. intro D. simpl. rewrite (all_dead_true D). reflexivity. Qed.

Lemma exec_scoped c b t o lo hi T :
  exec_block_P b t o -> ok (scoped_fun c b T) -> wfp_block lo b = Some hi -> AInv lo T ->
  ExecS lo hi (scoped t o) o T (scoped_fun c b T).
Proof.
  intros IH H W I st R B. unfold scoped_fun in *.
  set (X := check_block c b (enter_scope T)) in *.
  destruct (leave_scope_ok _ H) as [LS OX].
  pose proof (proj2 skip_lemma b c (enter_scope T) lo hi OX W (AInv_enter I)) as SP. fold X in SP.
  destruct (sp_scopes SP) as [s0 [r0 [n [E1 [E2 L1]]]]]. simpl in E1. injection E1 as <- <-.
  rewrite E2 in LS. destruct LS as [EQ LOSS]. rewrite EQ. clear EQ.
  assert (R0 : RelN (enter_scope T) ([] :: st)).
  { constructor; simpl; [rewrite (rn_shape R); reflexivity | apply (rn_agree R) | apply (rn_reach R)]. }
  assert (B0 : Bounded lo ([] :: st)) by exact B.
  destruct (IH c (enter_scope T) lo hi OX W (AInv_enter I) ([] :: st) R0 B0) as [st1 [RUN [P Q]]].
  fold X in P, Q.
  destruct o.
  - (* normal *)
    simpl in P. destruct (Q ltac:(discriminate)) as [B1 [n1 SH]]. simpl in SH.
    pose proof (rn_shape P) as SX. rewrite E2 in SX.
    destruct st1 as [|s1 r1]; [discriminate|]. simpl in SX. injection SX as S1 S2.
    assert (DEAD : Forall (fun b0 => blive b0 = false) s1).
    { rewrite Forall_forall. intros b0 Ib.
      pose proof (rn_agree P) as G. rewrite Forall_forall in G.
      apply (proj2 (G b0 ltac:(simpl; apply in_app_iff; left; exact Ib))).
      apply (LOSS ltac:(rewrite (rn_reach P); reflexivity) (bname b0)).
      rewrite <- S1. apply in_shape1. exact Ib. }
    exists r1. split.
    + rewrite run_scoped, RUN. apply run_exit. exact DEAD.
    + split; [|intros _; split; [eapply Bounded_tail; eauto | simpl in SH; injection SH as _ SH; exact SH]].
      simpl. constructor; simpl.
      * exact S2.
      * pose proof (rn_agree P) as G. simpl in G. apply Forall_app in G. destruct G as [_ G].
        eapply Forall_impl; [|exact G]. intros b0. apply agree_ext. reflexivity.
      * apply (rn_reach P).
  - (* break *)
    simpl in P. destruct P as [j [Lj PJ]]. destruct (Q ltac:(discriminate)) as [B1 [n1 SH]]. simpl in SH.
    pose proof (rj_shape PJ) as SX. simpl in SX. rewrite E2 in SX.
    destruct st1 as [|s1 r1]; [inversion SX|]. inversion SX as [|? ? ? ? IN1 F2]; subst.
    assert (DEAD : Forall (fun b0 => blive b0 = false) s1).
    { rewrite Forall_forall. intros b0 Ib.
      pose proof (rj_agree PJ) as G. rewrite Forall_forall in G.
      apply (proj2 (G b0 ltac:(simpl; apply in_app_iff; left; exact Ib))).
      apply (LOSS ltac:(rewrite (rj_mjump PJ); apply andb_false_r) (bname b0)).
      apply IN1. apply in_shape1. exact Ib. }
    exists r1. split.
    + rewrite run_scoped, RUN. apply run_exit. exact DEAD.
    + split; [|intros _; split; [eapply Bounded_tail; eauto | simpl in SH; injection SH as _ SH; exact SH]].
      simpl. exists j. split; [exact Lj|]. destruct PJ as [Rs Ra Rm Ri Rb Rr]. constructor; simpl; auto.
      * simpl in Ra. apply Forall_app in Ra. destruct Ra as [_ Ra].
        eapply Forall_impl; [|exact Ra]. intros b0. apply agree_ext. reflexivity.
      * simpl in Rb. apply Forall_app in Rb. tauto.
      * intro DR. specialize (Rr DR). simpl in Rr. apply Forall_app in Rr. tauto.
  - (* continue *)
    simpl in P. destruct P as [j [Lj PJ]]. destruct (Q ltac:(discriminate)) as [B1 [n1 SH]]. simpl in SH.
    pose proof (rj_shape PJ) as SX. simpl in SX. rewrite E2 in SX.
    destruct st1 as [|s1 r1]; [inversion SX|]. inversion SX as [|? ? ? ? IN1 F2]; subst.
    assert (DEAD : Forall (fun b0 => blive b0 = false) s1).
    { rewrite Forall_forall. intros b0 Ib.
      pose proof (rj_agree PJ) as G. rewrite Forall_forall in G.
      apply (proj2 (G b0 ltac:(simpl; apply in_app_iff; left; exact Ib))).
      apply (LOSS ltac:(rewrite (rj_mjump PJ); apply andb_false_r) (bname b0)).
      apply IN1. apply in_shape1. exact Ib. }
    exists r1. split.
    + rewrite run_scoped, RUN. apply run_exit. exact DEAD.
    + split; [|intros _; split; [eapply Bounded_tail; eauto | simpl in SH; injection SH as _ SH; exact SH]].
      simpl. exists j. split; [exact Lj|]. destruct PJ as [Rs Ra Rm Ri Rb Rr]. constructor; simpl; auto.
      * simpl in Ra. apply Forall_app in Ra. destruct Ra as [_ Ra].
        eapply Forall_impl; [|exact Ra]. intros b0. apply agree_ext. reflexivity.
      * simpl in Rb. apply Forall_app in Rb. tauto.
      * intro DR. specialize (Rr DR). simpl in Rr. apply Forall_app in Rr. tauto.
  - (* return *)
    simpl in P. destruct P as [LEN DEADALL]. destruct (Q ltac:(discriminate)) as [B1 [n1 SH]]. simpl in SH.
    rewrite E2 in LEN. destruct st1 as [|s1 r1]; [discriminate|]. simpl in LEN.
    simpl in DEADALL. apply Forall_app in DEADALL. destruct DEADALL as [D1 D2].
    exists r1. split.
    + rewrite run_scoped, RUN. apply run_exit. exact D1.
    + split; [|intros _; split; [eapply Bounded_tail; eauto | simpl in SH; injection SH as _ SH; exact SH]].
      simpl. split; [lia | exact D2].
  - (* halt *)
    exists st1. split.
    + rewrite run_scoped, RUN. reflexivity.
    + split; [exact Logic.I | intro N; contradiction].
Qed.

(* ---------------------------------------------------------------- paths through a conditional *)

Section Branches.
  Variables (p : pos) (fT fE : state -> state) (A : state) (lo m hi : pos).
  Hypothesis HT : branch_fun fT lo m.
  Hypothesis HE : branch_fun fE m hi.
  Hypothesis L1 : lo <= m.
  Hypothesis L2 : m <= hi.
  Hypothesis H : ok (check_branches p fT fE A).
  Hypothesis I : AInv lo A.
  Hypothesis D : dexit (ri A) = false.

  Definition T0 := fresh_layer_e A (errs A) (diags A).
  Definition AT := fT T0.
  Definition E0 := fresh_layer_e A (errs AT) (diags AT).
  Definition AE := fE E0.
  Definition AM := mkSt (merge_layers (layers A) (top AT) (ri AT) (top AE) (Some (ri AE)))
                        (below A) (merge_ri (ri A) (ri AT) (ri AE)) (scopes A) (errs AE) (diags AE).

  Lemma branches_facts :
    check_branches p fT fE A = AM /\ BPost lo m T0 AT /\ BPost m hi E0 AE /\
    (forall x v, In (x, v) (concat (scopes A)) ->
       merge_layers (layers A) (top AT) (ri AT) (top AE) (Some (ri AE)) v =
       merge_layers (layers A) (top AT) (clean (ri A) (ri AT)) (top AE) (Some (clean (ri A) (ri AE))) v).
  Proof.
    unfold check_branches in *.
    change (mkSt empty_layer (layers A) (ri A) (scopes A) (errs A) (diags A)) with T0 in *.
    change (fT T0) with AT in *.
    change (mkSt empty_layer (layers A) (ri A) (scopes A) (errs AT) (diags AT)) with E0 in *.
    change (fE E0) with AE in *.
    destruct (flag_diags_ok _ _ _ _ _ _ _ _ _ H) as [EQ FD]. rewrite EQ in *.
    assert (OE : ok AE) by exact H.
    assert (BE : BPost m hi E0 AE).
    { apply HE; [exact OE | apply AInv_fresh_layer_e; eapply AInv_mono; eauto | exact D]. }
    assert (OT : ok AT) by (exact (bp_ok BE)).
    assert (BT : BPost lo m T0 AT).
    { apply HT; [exact OT | apply AInv_fresh_layer_e; exact I | exact D]. }
    split; [reflexivity|]. split; [exact BT|]. split; [exact BE|]. exact FD.
  Qed.

  Lemma inv_of_AM v :
    inv_of AM v = match inv_of A v with Some i => Some i
                  | None => merge_infos (top AT v) (ri AT) (top AE v) (Some (ri AE)) end.
  Proof. unfold AM. apply inv_of_merged. Qed.
End Branches.

Lemma merge_layers_none A tL rT eL rE v :
  inv_of A v = None -> merge_layers (layers A) tL rT eL rE v = merge_infos (tL v) rT (eL v) rE.
Proof.
  intro N. unfold merge_layers, layers. simpl.
  rewrite (inv_of_none_top _ _ N), (inv_of_none_below _ _ N). reflexivity.
Qed.

Lemma clean_jumped r0 r j : In j (jumps r) -> ~ In j (jumps r0) -> dret (clean r0 r) = false /\ dhalt (clean r0 r) = false.
Proof.
  intros I1 I2. unfold clean. assert (jumped_inside r0 r = true) by (apply jumped_inside_spec; eauto).
  rewrite H. auto.
Qed.

Section BranchesPost.
  Variables (fT fE : state -> state) (A : state) (lo m hi : pos).
  Hypothesis I : AInv lo A.
  Hypothesis D : dexit (ri A) = false.
  Hypothesis L1 : lo <= m.
  Hypothesis L2 : m <= hi.
  Let aT := AT fT A.
  Let aE := AE fT fE A.
  Let aM := AM fT fE A.
  Hypothesis BT : BPost lo m (T0 A) aT.
  Hypothesis BE : BPost m hi (E0 fT A) aE.
  Hypothesis FD : forall x v, In (x, v) (concat (scopes A)) ->
       merge_layers (layers A) (top aT) (ri aT) (top aE) (Some (ri aE)) v =
       merge_layers (layers A) (top aT) (clean (ri A) (ri aT)) (top aE) (Some (clean (ri A) (ri aE))) v.

  Let HbT : below aT = layers A. Proof. rewrite (bp_below BT). reflexivity. Qed.
  Let HbE : below aE = layers A. Proof. rewrite (bp_below BE). reflexivity. Qed.
  Let ST : scopes aT = scopes A. Proof. rewrite (bp_scopes BT). reflexivity. Qed.
  Let SE : scopes aE = scopes A. Proof. rewrite (bp_scopes BE). reflexivity. Qed.

  Lemma dret_A_false : dret (ri A) = false.
  Proof. destruct (dret (ri A)) eqn:E; [|reflexivity]. destruct (ai_ri I) as [W _]. rewrite (W E) in D. discriminate. Qed.

  Lemma not_exited_flags (X : state) : ri_wf (ri X) -> dexit (ri X) = false -> dret (ri X) = false /\ dhalt (ri X) = false.
  Proof.
    intros [W1 W2] E. split.
    - destruct (dret (ri X)) eqn:Q; [rewrite (W1 eq_refl) in E; discriminate | reflexivity].
    - destruct (dhalt (ri X)) eqn:Q; [rewrite (W2 eq_refl) in E; discriminate | reflexivity].
  Qed.

  Lemma inv_aM v :
    inv_of aM v = match inv_of A v with Some i => Some i
                  | None => merge_infos (top aT v) (ri aT) (top aE v) (Some (ri aE)) end.
  Proof. apply inv_of_AM. Qed.

  (* a frozen path that jumped inside the then-branch *)
  Lemma relj_then st' j : lo < j -> RelJ 0 aT st' j -> RelJ 0 aM st' j.
  Proof.
    intros Lj R. pose proof (bp_inv BT) as IT.
    pose proof R as [Rs Ra Rm Ri Rb Rr]. constructor.
    - simpl. rewrite <- ST. exact Rs.
    - rewrite Forall_forall in *. intros b Ib. specialize (Ra b Ib).
      apply agree_agr. apply agree_agr in Ra. rewrite inv_aM.
      rewrite (@inv_of_branch_T A aT HbT (ai_uniq IT)) in Ra.
      destruct (inv_of A (bpos b)) eqn:IA; [exact Ra|].
      assert (IS : In (bname b, bpos b) (concat (scopes A))).
      { rewrite <- ST. eapply RelJ_in_scopes; eauto. }
      pose proof (FD _ _ IS) as EQ. rewrite !merge_layers_none in EQ by exact IA. rewrite EQ.
      assert (NJ : ~ In j (jumps (ri A))) by (intro G; pose proof (ai_jumps I _ G); lia).
      destruct (@clean_jumped (ri A) (ri aT) j Ri NJ) as [C1 C2].
      apply merge_then_normal; auto.
    - change (mjump (ri A) || mjump (ri aT) || mjump (ri aE) = true). rewrite Rm, orb_true_r. reflexivity.
    - change (In j (jumps (ri A) ++ jumps (ri aT) ++ jumps (ri aE))). rewrite !in_app_iff. right. left. exact Ri.
    - exact Rb.
    - change (dret (ri A) || (dret (ri aT) && dret (ri aE)) = true -> Forall (fun b => blive b = false) (concat st')).
      rewrite dret_A_false. simpl. intro DR. apply andb_true_iff in DR. apply Rr. tauto.
  Qed.

  Lemma relj_else st' j : m < j -> RelJ 0 aE st' j -> RelJ 0 aM st' j.
  Proof.
    intros Lj R. pose proof (bp_inv BE) as IE.
    pose proof R as [Rs Ra Rm Ri Rb Rr]. constructor.
    - simpl. rewrite <- SE. exact Rs.
    - rewrite Forall_forall in *. intros b Ib. specialize (Ra b Ib).
      apply agree_agr. apply agree_agr in Ra. rewrite inv_aM.
      rewrite (@inv_of_branch_E A aE HbE (ai_uniq IE)) in Ra.
      destruct (inv_of A (bpos b)) eqn:IA; [exact Ra|].
      assert (IS : In (bname b, bpos b) (concat (scopes A))).
      { rewrite <- SE. eapply RelJ_in_scopes; eauto. }
      pose proof (FD _ _ IS) as EQ. rewrite !merge_layers_none in EQ by exact IA. rewrite EQ.
      assert (NJ : ~ In j (jumps (ri A))) by (intro G; pose proof (ai_jumps I _ G); lia).
      destruct (@clean_jumped (ri A) (ri aE) j Ri NJ) as [C1 C2].
      apply merge_else_normal; auto.
    - change (mjump (ri A) || mjump (ri aT) || mjump (ri aE) = true). rewrite Rm, !orb_true_r. reflexivity.
    - change (In j (jumps (ri A) ++ jumps (ri aT) ++ jumps (ri aE))). rewrite !in_app_iff. right. right. exact Ri.
    - exact Rb.
    - change (dret (ri A) || (dret (ri aT) && dret (ri aE)) = true -> Forall (fun b => blive b = false) (concat st')).
      rewrite dret_A_false. simpl. intro DR. apply andb_true_iff in DR. apply Rr. tauto.
  Qed.

  Lemma post_then o st' : Post lo o aT st' -> Post lo o aM st'.
  Proof.
    pose proof (bp_inv BT) as IT.
    destruct o; simpl.
    - intro R. constructor.
      + simpl. rewrite <- ST. apply (rn_shape R).
      + pose proof (rn_agree R) as G. rewrite Forall_forall in *. intros b Ib. specialize (G b Ib).
        apply agree_agr. apply agree_agr in G. rewrite inv_aM.
        rewrite (@inv_of_branch_T A aT HbT (ai_uniq IT)) in G.
        destruct (inv_of A (bpos b)); [exact G|].
        destruct (not_exited_flags aT (ai_ri IT) (rn_reach R)) as [F1 F2].
        apply merge_then_normal; auto.
      + change (dexit (ri A) || (dexit (ri aT) && dexit (ri aE)) = false). rewrite D, (rn_reach R). reflexivity.
    - intros [j [Lj R]]. exists j. split; [exact Lj | apply relj_then; assumption].
    - intros [j [Lj R]]. exists j. split; [exact Lj | apply relj_then; assumption].
    - intros [LEN DEAD]. split; [|exact DEAD]. simpl. rewrite <- ST. exact LEN.
    - auto.
  Qed.

  Lemma post_else o st' : Post m o aE st' -> Post lo o aM st'.
  Proof.
    pose proof (bp_inv BE) as IE.
    destruct o; simpl.
    - intro R. constructor.
      + simpl. rewrite <- SE. apply (rn_shape R).
      + pose proof (rn_agree R) as G. rewrite Forall_forall in *. intros b Ib. specialize (G b Ib).
        apply agree_agr. apply agree_agr in G. rewrite inv_aM.
        rewrite (@inv_of_branch_E A aE HbE (ai_uniq IE)) in G.
        destruct (inv_of A (bpos b)); [exact G|].
        destruct (not_exited_flags aE (ai_ri IE) (rn_reach R)) as [F1 F2].
        apply merge_else_normal; auto.
      + change (dexit (ri A) || (dexit (ri aT) && dexit (ri aE)) = false). rewrite D, (rn_reach R). rewrite andb_false_r. reflexivity.
    - intros [j [Lj R]]. exists j. split; [lia | apply relj_else; assumption].
    - intros [j [Lj R]]. exists j. split; [lia | apply relj_else; assumption].
    - intros [LEN DEAD]. split; [|exact DEAD]. simpl. rewrite <- SE. exact LEN.
    - auto.
  Qed.
End BranchesPost.

Lemma RelN_fresh_layer_e A e d st : RelN A st -> RelN (fresh_layer_e A e d) st.
Proof.
  intros [S G D]. constructor; simpl; auto.
Qed.

Lemma exec_branches_then p fT fE A lo m hi t o :
  branch_fun fT lo m -> branch_fun fE m hi -> lo <= m -> m <= hi ->
  (forall T, ok (fT T) -> AInv lo T -> ExecS lo m t o T (fT T)) ->
  ok (check_branches p fT fE A) -> AInv lo A ->
  ExecS lo hi t o A (check_branches p fT fE A).
Proof.
  intros HT HE L1 L2 EX H I st R B. pose proof (rn_reach R) as D.
  destruct (@branches_facts p fT fE A lo m hi HT HE L1 H I D) as [EQ [BT [BE FD]]].
  rewrite EQ.
  assert (OT : ok (AT fT A)) by (exact (bp_ok BE)).
  destruct (EX (T0 A) OT (AInv_fresh_layer_e (errs A) (diags A) I) st
               (RelN_fresh_layer_e (errs A) (diags A) R) B) as [st' [RUN [P Q]]].
  exists st'. split; [exact RUN|]. split.
  - eapply post_then; eauto.
  - intro N. destruct (Q N) as [B' S']. split; [eapply Bounded_mono; eauto | exact S'].
Qed.

Lemma exec_branches_else p fT fE A lo m hi t o :
  branch_fun fT lo m -> branch_fun fE m hi -> lo <= m -> m <= hi ->
  (forall T, ok (fE T) -> AInv m T -> ExecS m hi t o T (fE T)) ->
  ok (check_branches p fT fE A) -> AInv lo A ->
  ExecS lo hi t o A (check_branches p fT fE A).
Proof.
  intros HT HE L1 L2 EX H I st R B. pose proof (rn_reach R) as D.
  destruct (@branches_facts p fT fE A lo m hi HT HE L1 H I D) as [EQ [BT [BE FD]]].
  rewrite EQ.
  assert (OE : ok (AE fT fE A)) by (rewrite EQ in H; exact H).
  assert (IE0 : AInv m (E0 fT A)) by (apply AInv_fresh_layer_e; eapply AInv_mono; eauto).
  destruct (EX (E0 fT A) OE IE0 st
               (RelN_fresh_layer_e (errs (AT fT A)) (diags (AT fT A)) R) (Bounded_mono B L1)) as [st' [RUN [P Q]]].
  exists st'. split; [exact RUN|]. split.
  - eapply post_else; eauto.
  - exact Q.
Qed.
