(* C03 — proofs, part 3: what the simple statements do to the checker state when no error is reported. *)
From CV Require Import C03.Model C03.Paths C03.ProofsBase C03.ProofsRel.
From Coq Require Import Lia.

Set Implicit Arguments.

Fixpoint assoc (w : pos) (C : list (pos * inval)) : option inval :=
  match C with
  | [] => None
  | (v, i) :: r => if w =? v then Some i else assoc w r
  end.

Lemma assoc_in w C i : assoc w C = Some i -> In (w, i) C.
Proof.
  induction C as [|[v j] r IH]; simpl; [discriminate|].
  destruct (w =? v) eqn:E; [apply Z.eqb_eq in E; subst; intro H; inversion H; auto | auto].
Qed.

Lemma assoc_none w C : assoc w C = None <-> ~ In w (map fst C).
Proof.
  induction C as [|[v j] r IH]; simpl; [tauto|].
  destruct (w =? v) eqn:E.
  - apply Z.eqb_eq in E. subst. split; [discriminate | intro H; exfalso; apply H; auto].
  - apply Z.eqb_neq in E. rewrite IH. split; [intros H [G|G]; [congruence | auto] | tauto].
Qed.

Lemma assoc_nodup w C i : NoDup (map fst C) -> In (w, i) C -> assoc w C = Some i.
Proof.
  induction C as [|[v j] r IH]; simpl; intros N H; [contradiction|].
  inversion N; subst. destruct H as [H|H].
  - inversion H; subst. rewrite Z.eqb_refl. reflexivity.
  - destruct (w =? v) eqn:E; [|auto]. apply Z.eqb_eq in E. subst. exfalso. apply H2.
    apply in_map_iff. exists (v, i). auto.
Qed.

Lemma assoc_app w C D : assoc w (C ++ D) = match assoc w C with Some i => Some i | None => assoc w D end.
Proof. induction C as [|[v j] r IH]; simpl; [reflexivity|]. destruct (w =? v); auto. Qed.

(* A' is A with the invalidations C recorded for variables that had none *)
Record Step (A A' : state) (C : list (pos * inval)) : Prop := {
  st_top : forall w, top A' w = match assoc w C with Some i => Some i | None => top A w end;
  st_below : below A' = below A;
  st_ri : ri A' = ri A;
  st_scopes : scopes A' = scopes A;
  st_none : forall w i, In (w, i) C -> inv_of A w = None;
  st_nodup : NoDup (map fst C)
}.

Lemma step_refl A : Step A A [].
Proof. constructor; simpl; auto. - intros ? ? []. - constructor. Qed.

Lemma step_inv_of A A' C w : Step A A' C ->
  inv_of A' w = match assoc w C with Some i => Some i | None => inv_of A w end.
Proof.
  intros S. unfold inv_of, layers. simpl. rewrite (st_top S), (st_below S).
  destruct (assoc w C); reflexivity.
Qed.

Lemma step_trans A A1 A2 C D : Step A A1 C -> Step A1 A2 D -> Step A A2 (C ++ D).
Proof.
  intros S1 S2. constructor.
  - intro w. rewrite (st_top S2), (st_top S1), assoc_app.
    destruct (assoc w D) eqn:ED; destruct (assoc w C) eqn:EC; try reflexivity.
    (* w in both: impossible *)
    exfalso. apply assoc_in in ED. apply (st_none S2) in ED.
    rewrite (step_inv_of w S1), EC in ED. discriminate.
  - rewrite (st_below S2). apply (st_below S1).
  - rewrite (st_ri S2). apply (st_ri S1).
  - rewrite (st_scopes S2). apply (st_scopes S1).
  - intros w i H. apply in_app_iff in H. destruct H as [H|H]; [apply (st_none S1 _ _ H)|].
    pose proof (st_none S2 _ _ H) as G. rewrite (step_inv_of w S1) in G.
    destruct (assoc w C); [discriminate | exact G].
  - rewrite map_app.
    assert (forall w, In w (map fst C) -> In w (map fst D) -> False).
    { intros w I1 I2. apply in_map_iff in I2. destruct I2 as [[w' i] [E I2]]. simpl in E. subst w'.
      pose proof (st_none S2 _ _ I2) as G. rewrite (step_inv_of w S1) in G.
      destruct (assoc w C) eqn:EC; [discriminate|]. apply assoc_none in EC. contradiction. }
    pose proof (st_nodup S1) as N1. pose proof (st_nodup S2) as N2.
    clear - H N1 N2. induction (map fst C) as [|a r IH]; simpl; [exact N2|].
    inversion N1; subst. constructor.
    + rewrite in_app_iff. intros [G|G]; [contradiction | apply (H a); simpl; auto].
    + apply IH; auto. intros w I1 I2. apply (H w); simpl; auto.
Qed.

(* recording one fresh invalidation *)
Lemma step_consume A v k p :
  dexit (ri A) = false -> inv_of A v = None ->
  Step A (maybe_add v k p A) [(v, (eff_kind A v k p, p))].
Proof.
  intros D N. rewrite maybe_add_fresh by (auto using inv_of_none_top).
  constructor; simpl; auto.
  - intro w. unfold lset. destruct (w =? v); reflexivity.
  - intros w i [H|[]]. inversion H; subst. exact N.
  - constructor; [intros [] | constructor].
Qed.

Definition resolves (A : state) (y : occ) (v : pos) : Prop := find_scopes (scopes A) (fst y) = Some v.

Lemma find_var_resolves c A y v : find_var c A (fst y) = Some (v, false) -> resolves A y v.
Proof.
  unfold find_var, resolves. destruct (find_scopes (scopes A) (fst y)); intro H.
  - inversion H; reflexivity.
  - destruct (find_scopes (outer c) (fst y)); discriminate.
Qed.

Lemma find_var_scopes c A B x : scopes A = scopes B -> find_var c A x = find_var c B x.
Proof. unfold find_var. intros ->. reflexivity. Qed.

(* `<-y` *)
Lemma move_from_ok c y k A :
  ok (record_ c y k (visit_ident c y A)) -> dexit (ri A) = false ->
  exists v, resolves A y v /\ inv_of A v = None /\ ok A /\
            Step A (record_ c y k (visit_ident c y A)) [(v, (eff_kind A v k (snd y), snd y))].
Proof.
  intros H D. unfold record_ in *. apply ok_record in H as H'.
  destruct (visit_ident_ok _ _ _ H') as [v [F [N E]]]. rewrite E in *.
  exists v. split; [eapply find_var_resolves; eauto|]. split; [exact N|]. split; [exact H'|].
  unfold record. rewrite F. simpl. apply step_consume; auto.
Qed.

Definition C_of (A : state) (k : ikind) (ys : list occ) (vs : list pos) : list (pos * inval) :=
  map (fun yv => (snd yv, (eff_kind A (snd yv) k (snd (fst yv)), snd (fst yv)))) (combine ys vs).

Lemma eff_kind_ri A B v k p : ri A = ri B -> eff_kind A v k p = eff_kind B v k p.
Proof. unfold eff_kind. intros ->. reflexivity. Qed.

Lemma C_of_ri A B k ys vs : ri A = ri B -> C_of A k ys vs = C_of B k ys vs.
Proof.
  intro E. unfold C_of. apply map_ext. intros [y v]. simpl. rewrite (@eff_kind_ri A B _ _ _ E). reflexivity.
Qed.

Lemma map_fst_C_of A k ys vs : length ys = length vs -> map fst (C_of A k ys vs) = vs.
Proof.
  revert vs. induction ys as [|y r IH]; destruct vs as [|v s]; simpl; intro H; try discriminate; auto.
  f_equal. apply IH. lia.
Qed.

Lemma ri_use_check v p st : ri (use_check v p st) = ri st.
Proof. unfold use_check. destruct (inv_of st v); reflexivity. Qed.
Lemma ri_visit_ident c y st : ri (visit_ident c y st) = ri st.
Proof.
  unfold visit_ident. destruct (find_var c st (fst y)) as [[v cap]|]; [|reflexivity].
  rewrite ri_use_check. destruct cap; reflexivity.
Qed.
Lemma ri_visit_target c y st : ri (visit_target c y st) = ri st.
Proof. unfold visit_target. destruct (find_var c st (fst y)) as [[v cap]|]; [destruct cap|]; reflexivity. Qed.
Lemma ri_maybe_add v k p st : ri (maybe_add v k p st) = ri st.
Proof. unfold maybe_add. destruct (dexit (ri st)); [reflexivity|]. destruct (top st v); reflexivity. Qed.
Lemma ri_record_ c y k st : ri (record_ c y k st) = ri st.
Proof.
  unfold record_, record. destruct (find_var c st (fst y)) as [[v cap]|]; simpl; [apply ri_maybe_add | reflexivity].
Qed.
Lemma ri_move_from c y st : ri (move_from c y st) = ri st.
Proof. unfold move_from. rewrite ri_record_, ri_visit_ident. reflexivity. Qed.
Lemma ri_move_all c ys : forall st, ri (move_all c ys st) = ri st.
Proof. induction ys; simpl; intro st; [reflexivity|]. rewrite IHys, ri_move_from. reflexivity. Qed.

Lemma Forall2_imp {X Y} (R S : X -> Y -> Prop) l1 l2 :
  (forall a b, R a b -> S a b) -> Forall2 R l1 l2 -> Forall2 S l1 l2.
Proof. intros H F. induction F; constructor; auto. Qed.

Lemma move_all_ok c ys : forall A,
  ok (move_all c ys A) -> dexit (ri A) = false ->
  exists vs, Forall2 (resolves A) ys vs /\ (forall v, In v vs -> inv_of A v = None) /\ ok A /\
             Step A (move_all c ys A) (C_of A MoveDefinite ys vs).
Proof.
  induction ys as [|y r IH]; simpl; intros A H D.
  - exists []. split; [constructor|]. split; [intros ? []|]. split; [exact H | apply step_refl].
  - unfold move_from in *.
    set (A1 := record_ c y MoveDefinite (visit_ident c y A)) in *.
    assert (D1 : dexit (ri A1) = false).
    { subst A1. rewrite ri_record_, ri_visit_ident. exact D. }
    destruct (IH A1 H D1) as [vs [R [N [O S]]]].
    destruct (move_from_ok c y MoveDefinite A O D) as [v [Rv [Nv [OA Sv]]]]. fold A1 in Sv.
    exists (v :: vs). split; [|split; [|split]].
    + constructor; [exact Rv|]. eapply Forall2_imp; [|exact R]. unfold resolves. intros a b.
      rewrite (st_scopes Sv). auto.
    + intros w [<-|I]; [exact Nv|]. specialize (N w I). rewrite (step_inv_of w Sv) in N.
      destruct (assoc w [(v, (eff_kind A v MoveDefinite (snd y), snd y))]); [discriminate | exact N].
    + exact OA.
    + unfold C_of. simpl. fold (C_of A MoveDefinite r vs).
      change ((v, (eff_kind A v MoveDefinite (snd y), snd y)) :: C_of A MoveDefinite r vs)
        with ([(v, (eff_kind A v MoveDefinite (snd y), snd y))] ++ C_of A MoveDefinite r vs).
      eapply step_trans; [exact Sv|]. rewrite (@C_of_ri A A1 MoveDefinite r vs); [exact S|].
      symmetry. apply (st_ri Sv).
Qed.

Lemma Forall2_length {X Y} (R : X -> Y -> Prop) l1 l2 : Forall2 R l1 l2 -> length l1 = length l2.
Proof. induction 1; simpl; auto. Qed.

(* kinds recorded by C_of *)
Lemma C_of_in A k ys vs w i :
  In (w, i) (C_of A k ys vs) -> exists y, In y ys /\ i = (eff_kind A w k (snd y), snd y).
Proof.
  unfold C_of. rewrite in_map_iff. intros [[y v] [E I]]. simpl in E. inversion E; subst.
  exists y. split; [eapply in_combine_l; eauto | reflexivity].
Qed.

(* optional second value *)
Definition omove (c : ctx) (z : option occ) (A : state) : state :=
  match z with Some z => move_from c z A | None => A end.

Lemma omove_ok c z A :
  ok (omove c z A) -> dexit (ri A) = false ->
  exists C, ok A /\ Step A (omove c z A) C /\
    match z with
    | Some z => exists v, resolves A z v /\ inv_of A v = None /\ C = [(v, (eff_kind A v MoveDefinite (snd z), snd z))]
    | None => C = []
    end.
Proof.
  destruct z as [z|]; simpl; intros H D.
  - destruct (move_from_ok c z MoveDefinite A H D) as [v [R [N [O S]]]].
    eexists. split; [exact O|]. split; [exact S|]. exists v. auto.
  - exists []. split; [exact H|]. split; [apply step_refl | reflexivity].
Qed.

(* ------------------------------------------------------------------ generic consequences of a step *)

(* the kinds recorded by a step are only potential where a recorded jump lies between declaration and use *)
Definition KindOK (A : state) (lo : pos) (C : list (pos * inval)) : Prop :=
  forall w k p, In (w, (k, p)) C ->
    lo < p /\ (existsb (fun j => (w <? j) && (j <? p)) (jumps (ri A)) = true -> is_definite k = false).

Lemma KindOK_nil A lo : KindOK A lo [].
Proof. intros ? ? ? []. Qed.

Lemma KindOK_app A lo C D : KindOK A lo C -> KindOK A lo D -> KindOK A lo (C ++ D).
Proof. intros H1 H2 w k p I. apply in_app_iff in I. destruct I; eauto. Qed.

Lemma eff_kind_ok A w k p :
  existsb (fun j => (w <? j) && (j <? p)) (jumps (ri A)) = true -> is_definite (eff_kind A w k p) = false.
Proof. unfold eff_kind. intros ->. destruct k; reflexivity. Qed.

Lemma KindOK_C_of A lo k ys vs :
  (forall y, In y ys -> lo < snd y) -> KindOK A lo (C_of A k ys vs).
Proof.
  intros L w k' p I. apply C_of_in in I. destruct I as [y [Iy E]]. inversion E; subst.
  split; [auto | apply eff_kind_ok].
Qed.

Lemma step_AInv A A' C lo hi :
  Step A A' C -> AInv lo A -> lo <= hi -> (forall w i, In (w, i) C -> w <= hi) -> AInv hi A'.
Proof.
  intros S I L B. constructor.
  - intros v H. rewrite (st_top S) in H. rewrite (st_below S).
    destruct (assoc v C) eqn:E.
    + apply assoc_in in E. apply (st_none S) in E. apply inv_of_none_below. exact E.
    + apply (ai_uniq I). exact H.
  - rewrite (st_ri S). apply (ai_ri I).
  - intros v H. rewrite (step_inv_of v S).
    destruct (assoc v C) eqn:E.
    + apply assoc_in in E. apply B in E. lia.
    + apply (ai_fresh I). lia.
  - rewrite (st_scopes S). intros x v H. pose proof (ai_scopes I _ _ H). lia.
  - rewrite (st_ri S). intros j H. pose proof (ai_jumps I _ H). lia.
  - rewrite (st_scopes S). apply (ai_nonempty I).
Qed.

Lemma step_RelJ A A' C lo k st j :
  Step A A' C -> AInv lo A -> KindOK A lo C -> RelJ k A st j -> RelJ k A' st j.
Proof.
  intros S I K R. destruct R as [Rs Ra Rm Ri Rb Rr]. constructor.
  - rewrite (st_scopes S). exact Rs.
  - rewrite Forall_forall in *. intros b Ib. specialize (Ra b Ib). specialize (Rb b Ib).
    apply agree_agr. apply agree_agr in Ra. rewrite (step_inv_of (bpos b) S).
    destruct (assoc (bpos b) C) as [[k' p]|] eqn:E; [|exact Ra].
    apply assoc_in in E. pose proof (st_none S _ _ E) as N. destruct (K _ _ _ E) as [Lp Kd].
    destruct Ra as [R1 _]. split; [discriminate|]. simpl. intro D. exfalso.
    rewrite Kd in D; [discriminate|]. apply existsb_exists. exists j. split; [exact Ri|].
    pose proof (ai_jumps I _ Ri). apply andb_true_iff. split; apply Z.ltb_lt; lia.
  - rewrite (st_ri S). exact Rm.
  - rewrite (st_ri S). exact Ri.
  - exact Rb.
  - rewrite (st_ri S). exact Rr.
Qed.

Lemma step_frame A A' C v : Step A A' C -> ~ In v (map fst C) -> top A' v = top A v.
Proof. intros S N. rewrite (st_top S). apply assoc_none in N. rewrite N. reflexivity. Qed.

(* resolved variables are variables of the current function *)
Lemma find_scope_in s x v : find_scope s x = Some v -> In (x, v) s.
Proof.
  induction s as [|[y w] r IH]; simpl; [discriminate|].
  destruct (y =? x) eqn:E; intro H.
  - apply Z.eqb_eq in E. inversion H; subst. auto.
  - auto.
Qed.

Lemma find_scopes_in ss x v : find_scopes ss x = Some v -> In (x, v) (concat ss).
Proof.
  induction ss as [|s r IH]; simpl; [discriminate|].
  destruct (find_scope s x) eqn:E; intro H; apply in_app_iff.
  - inversion H; subst. left. apply find_scope_in. exact E.
  - right. auto.
Qed.

Lemma resolves_in A y v : resolves A y v -> In (fst y, v) (concat (scopes A)).
Proof. apply find_scopes_in. Qed.

Lemma resolves_in_snd A y v : resolves A y v -> In v (map snd (concat (scopes A))).
Proof. intro H. apply in_map_iff. exists (fst y, v). split; [reflexivity | apply resolves_in; exact H]. Qed.
