(* C03 — proofs, part 13: functions, programs, and the soundness theorem. *)
From CV Require Import C03.Model C03.Paths C03.ProofsBase C03.ProofsRel C03.ProofsStep C03.ProofsSimple C03.ProofsSkip C03.ProofsStruct C03.ProofsSkipMain C03.ProofsConc C03.ProofsExec1 C03.ProofsExec2 C03.ProofsExec3 C03.ProofsExec4.
From Coq Require Import Lia.
Set Implicit Arguments.

(* ---------------------------------------------------------------- break/continue only inside loops *)

Lemma lpath_no_jump : forall b t o, lpath b t o -> o <> OBreak /\ o <> OContinue.
Proof.
  intros b t o H. induction H.
  - split; discriminate.
  - exact IHlpath.
  - split; discriminate.
  - destruct H0; subst; split; discriminate.
Qed.

Definition jumps_in_loop_s (s : stmt) (t : list ev) (o : outcome) : Prop :=
  (o = OBreak \/ o = OContinue) -> forall c A, ok (check_stmt c s A) -> inloop c = true.
Definition jumps_in_loop_b (b : block) (t : list ev) (o : outcome) : Prop :=
  (o = OBreak \/ o = OContinue) -> forall c A, ok (check_block c b A) -> inloop c = true.

Lemma ok_branches_then p fT fE A : mono fE -> ok (check_branches p fT fE A) -> ok (fT (T0 A)).
Proof.
  intros ME H. unfold check_branches in H. apply ok_flag_diags in H.
  match type of H with ok (mkSt _ _ _ _ (errs ?X) (diags ?X)) => assert (OE : ok X) by exact H end.
  apply ME in OE. exact OE.
Qed.

Lemma ok_branches_else p fT fE A : ok (check_branches p fT fE A) -> ok (fE (E0 fT A)).
Proof. intros H. unfold check_branches in H. apply ok_flag_diags in H. exact H. Qed.

Lemma mono_scoped c b : mono (scoped_fun c b).
Proof.
  intros X HX. unfold scoped_fun in HX. apply ok_leave_scope in HX. apply (proj2 ok_mono) in HX.
  apply ok_enter_scope in HX. exact HX.
Qed.

Lemma jump_only_in_loop :
  (forall s t o, spath s t o -> jumps_in_loop_s s t o) /\
  (forall b t o, bpath b t o -> jumps_in_loop_b b t o) /\
  (forall b t o, lpath b t o -> True).
Proof.
  apply path_ind; unfold jumps_in_loop_s, jumps_in_loop_b; try (intros; exact Logic.I);
    try (intros; match goal with H : ONormal = _ \/ ONormal = _ |- _ => destruct H; discriminate
                          | H : OReturn = _ \/ OReturn = _ |- _ => destruct H; discriminate
                          | H : OHalt = _ \/ OHalt = _ |- _ => destruct H; discriminate end).
  - (* if then *)
    intros p th el t o _ IH OO c A H. rewrite check_if_eq in H.
    apply ok_branches_then in H; [|apply mono_scoped]. unfold scoped_fun in H. apply ok_leave_scope in H.
    eapply IH; eauto.
  - intros p th el t o _ IH OO c A H. rewrite check_if_eq in H.
    apply ok_branches_else in H. unfold scoped_fun in H. apply ok_leave_scope in H. eapply IH; eauto.
  - intros p x px y th el t o _ IH OO c A H. rewrite check_iflet_eq in H.
    apply ok_branches_then in H; [|apply mono_scoped]. unfold iflet_fun in H.
    apply ok_leave_scope in H. apply ok_leave_scope in H. eapply IH; eauto.
  - intros p x px y th el t o _ IH OO c A H. rewrite check_iflet_eq in H.
    apply ok_branches_else in H. unfold scoped_fun in H. apply ok_leave_scope in H. eapply IH; eauto.
  - (* loop *)
    intros p body t o HL _ OO c A H. destruct (lpath_no_jump HL) as [N1 N2]. destruct OO; contradiction.
  - (* break *)
    intros p _ c A H. simpl in H. destruct (inloop c); [reflexivity | exfalso; eapply report_not_ok; eauto].
  - intros p _ c A H. simpl in H. destruct (inloop c); [reflexivity | exfalso; eapply report_not_ok; eauto].
  - (* next *)
    intros s b t1 t2 o _ _ _ IHb OO c A H. simpl in H.
    destruct (dexit (ri A)); [exfalso; eapply report_not_ok; eauto|]. eapply IHb; eauto.
  - intros s b t o _ IHs _ OO c A H. simpl in H.
    destruct (dexit (ri A)); [exfalso; eapply report_not_ok; eauto|].
    apply (proj2 ok_mono) in H. eapply IHs; eauto.
Qed.

(* ---------------------------------------------------------------- one function *)

Lemma outcome_eq_dec (a b : outcome) : {a = b} + {a <> b}.
Proof. decide equality. Qed.


Definition mkb (q : name * pos) : cbind := (fst q, snd q, true).

Lemma run_decl_params ps : forall s r, run (decl_params ps) (s :: r) = Some ((rev (map mkb ps) ++ s) :: r).
Proof.
  induction ps as [|q ps IH]; intros s r; [reflexivity|].
  simpl decl_params. simpl run. rewrite IH. simpl. rewrite <- app_assoc. reflexivity.
Qed.

Lemma shape1_params ps : shape1 (rev (map mkb ps)) = rev ps.
Proof.
  unfold shape1. rewrite map_rev, map_map. f_equal. rewrite <- (map_id ps) at 2. apply map_ext.
  intros [x v]. reflexivity.
Qed.

Lemma wfp_occs_nodup ps : forall lo hi, wfp_occs lo ps = Some hi -> NoDup (map snd ps).
Proof.
  induction ps as [|q ps IH]; simpl; intros lo hi W; [constructor|].
  destruct (lo <? snd q) eqn:E; [|discriminate]. constructor; [|eapply IH; eauto].
  intro G. apply in_map_iff in G. destruct G as [q' [E' I']].
  pose proof (wfp_occs_in _ _ q' W I'). unfold pos, name, occ in *. lia.
Qed.

Lemma AInv_fun_start' A params lo m :
  (forall v, top A v <> None -> lookup (below A) v = None) ->
  (forall v, lo < v -> inv_of A v = None) ->
  wfp_occs lo params = Some m -> AInv m (fun_start A params).
Proof.
  intros U F W. pose proof (wfp_occs_le _ _ W) as L. constructor; simpl; auto.
  - apply ri_wf_new.
  - intros v Hv. apply F. lia.
  - intros x v Hv. rewrite app_nil_r in Hv. apply in_rev in Hv.
    pose proof (wfp_occs_in _ _ (x, v) W Hv). simpl in *. lia.
  - intros j [].
  - discriminate.
Qed.

Lemma fun_sound c p pb params rr body A lo hi :
  (forall v, top A v <> None -> lookup (below A) v = None) ->
  (forall v, lo < v -> inv_of A v = None) ->
  ok (check_stmt c (SFun p pb params rr body) A) ->
  wfp_stmt lo (SFun p pb params rr body) = Some hi ->
  forall t, fun_path (SFun p pb params rr body) t -> linear_trace t.
Proof.
  intros U F H W t FP. inversion FP as [? ? ? ? ? tb o BP]; subst. clear FP.
  simpl in W. destruct (wfp_occs lo params) as [m|] eqn:Wp; [|discriminate].
  pose proof (wfp_occs_le _ _ Wp) as Lm. pose proof (wfp_block_le _ _ W) as Lh.
  simpl in H. fold (fun_start A params) in H.
  set (c' := mkCtx (scopes A ++ outer c) false rr) in *.
  set (X := check_block c' body (fun_start A params)) in *.
  set (L1 := leave_scope X) in *.
  set (L2 := if rr && negb (dexit (ri L1)) then report (EMissingRet pb) L1 else L1) in *.
  set (L3 := match scopes L2 with
             | [] => L2
             | _ :: r => if dhalt (ri L2) then set_scopes r L2 else leave_scope L2
             end) in *.
  assert (O3 : ok L3) by exact H.
  assert (O2 : ok L2).
  { subst L3. destruct (scopes L2) as [|s r]; [exact O3|].
    destruct (dhalt (ri L2)); [apply ok_set_scopes in O3; exact O3 | apply leave_scope_ok in O3; tauto]. }
  assert (E2 : L2 = L1).
  { subst L2. destruct (rr && negb (dexit (ri L1))); [exfalso; eapply report_not_ok; eauto | reflexivity]. }
  assert (O3' : ok (match scopes L1 with
                    | [] => L1
                    | _ :: r => if dhalt (ri L1) then set_scopes r L1 else leave_scope L1
                    end)) by (unfold L3 in O3; rewrite E2 in O3; exact O3).
  rewrite E2 in O2.
  assert (OX : ok X) by (subst L1; apply leave_scope_ok in O2; tauto).
  pose proof (AInv_fun_start' A params U F Wp) as I0.
  pose proof (proj2 skip_lemma body c' (fun_start A params) m hi OX W I0) as SP. fold X in SP.
  destruct (sp_scopes SP) as [s0 [r0 [n [E1 [EX _]]]]]. simpl in E1. injection E1 as <- <-.
  (* the machine at the start of the body *)
  set (ps := rev (map mkb params)).
  assert (R0 : RelN (fun_start A params) [[]; ps]).
  { constructor; simpl.
    - unfold ps. rewrite shape1_params. reflexivity.
    - rewrite app_nil_r. rewrite Forall_forall. intros b Ib. unfold ps in Ib. apply in_rev in Ib.
      apply in_map_iff in Ib. destruct Ib as [[x v] [Eb Iq]]. subst b.
      pose proof (wfp_occs_in _ _ (x, v) Wp Iq) as Lv. simpl in Lv.
      assert (NV : inv_of (fun_start A params) v = None) by (apply F; lia).
      split; simpl; [reflexivity|]. intro DF. exfalso. eapply not_defi_none; eauto.
    - reflexivity. }
  assert (B0 : Bounded m [[]; ps]).
  { split.
    - simpl. rewrite app_nil_r. rewrite Forall_forall. intros b Ib. unfold ps in Ib. apply in_rev in Ib.
      apply in_map_iff in Ib. destruct Ib as [[x v] [Eb Iq]]. subst b.
      pose proof (wfp_occs_in _ _ (x, v) Wp Iq) as Lv. simpl in *. unfold bpos. simpl. lia.
    - unfold cpos. simpl. rewrite app_nil_r. unfold ps. rewrite map_rev, map_map.
      apply NoDup_rev. apply (wfp_occs_nodup _ _ Wp). }
  destruct (proj1 (proj2 exec_lemma) body tb o BP c' (fun_start A params) m hi OX W I0 _ R0 B0)
    as [st1 [RUN [P Q]]]. fold X in P, Q.
  (* the trace *)
  unfold linear_trace. rewrite run_scoped. rewrite run_app. rewrite run_decl_params. simpl app.
  fold ps. rewrite app_nil_r. rewrite run_scoped. rewrite RUN.
  destruct (outcome_eq_dec o OHalt) as [->|NH].
  - eexists. reflexivity.
  - destruct (Q NH) as [B1 [n1 S1]].
    destruct (leave_scope_ok _ O2) as [LS _]. rewrite EX in LS. destruct LS as [EQ1 LOSS1].
    destruct (@post_leave m o X _ _ st1 EX LOSS1 P NH) as [s1 [r1 [E3 [DEAD1 P1]]]]. subst st1.
    assert (RUN1 : run [VExit] (s1 :: r1) = Some r1) by (apply run_exit; exact DEAD1).
    assert (GOAL : exists s2, r1 = [s2] /\ Forall (fun b => blive b = false) s2).
    { simpl in S1. injection S1 as _ S1.
      destruct r1 as [|s2 r2]; [discriminate|]. destruct r2; [|discriminate].
      exists s2. split; [reflexivity|].
      fold L1 in EQ1. rewrite <- EQ1 in P1.
      destruct o; simpl in P1; try contradiction.
      - (* normal end: the parameter scope is checked *)
        assert (DH : dhalt (ri L1) = false).
        { destruct (dhalt (ri L1)) eqn:E; [|reflexivity].
          assert (WF : ri_wf (ri L1)).
          { rewrite EQ1. simpl. apply (ai_ri (sp_inv SP)). }
          destruct WF as [_ W2]. pose proof (W2 E). pose proof (rn_reach P1). congruence. }
        assert (SL : scopes L1 = [rev params]) by (rewrite EQ1; reflexivity).
        rewrite SL, DH in O3'. destruct (leave_scope_ok _ O3') as [LS3 _]. rewrite SL in LS3.
        destruct LS3 as [_ LOSS3].
        destruct (@post_leave m ONormal L1 _ _ [s2] SL LOSS3 P1 ltac:(discriminate)) as [s3 [r3 [E4 [D4 _]]]].
        injection E4 as <- <-. exact D4.
      - exfalso. assert (inloop c' = true); [|discriminate].
        eapply (proj1 (proj2 jump_only_in_loop) body tb OBreak BP); eauto.
      - exfalso. assert (inloop c' = true); [|discriminate].
        eapply (proj1 (proj2 jump_only_in_loop) body tb OContinue BP); eauto.
      - destruct P1 as [_ DD]. simpl in DD. rewrite app_nil_r in DD. exact DD. }
    destruct GOAL as [s2 [-> DEAD2]].
    assert (FIN : run [VExit] [s2] = Some []) by (apply run_exit; exact DEAD2).
    destruct o; try contradiction; rewrite RUN1; rewrite FIN; eexists; reflexivity.
Qed.

(* ---------------------------------------------------------------- all functions of a program *)

Lemma ok_fun_body c p pb params rr body A :
  ok (check_stmt c (SFun p pb params rr body) A) ->
  ok (check_block (mkCtx (scopes A ++ outer c) false rr) body (fun_start A params)).
Proof.
  intro H. simpl in H. fold (fun_start A params) in H.
  match type of H with ok (mkSt _ _ _ _ (errs ?X) (diags ?X)) => assert (O3 : ok X) by exact H end.
  clear H. revert O3.
  set (L1 := leave_scope (check_block _ body _)).
  set (L2 := if rr && negb (dexit (ri L1)) then report (EMissingRet pb) L1 else L1).
  intro O3.
  assert (O2 : ok L2).
  { destruct (scopes L2) as [|s r]; [exact O3|].
    destruct (dhalt (ri L2)); [apply ok_set_scopes in O3; exact O3 | apply ok_leave_scope in O3; exact O3]. }
  assert (O1 : ok L1).
  { subst L2. destruct (rr && negb (dexit (ri L1))); [exfalso; eapply report_not_ok; eauto | exact O2]. }
  subst L1. apply ok_leave_scope in O1. exact O1.
Qed.

Definition all_linear (gs : list stmt) : Prop := forall g, In g gs -> forall t, fun_path g t -> linear_trace t.

Lemma all_linear_app a b : all_linear a -> all_linear b -> all_linear (a ++ b).
Proof. intros Ha Hb g I. apply in_app_iff in I. destruct I; eauto. Qed.

Lemma all_linear_nil : all_linear [].
Proof. intros g []. Qed.

Definition funs_P_s (s : stmt) : Prop :=
  forall c A lo hi, ok (check_stmt c s A) -> wfp_stmt lo s = Some hi -> AInv lo A -> dexit (ri A) = false ->
                    all_linear (funs_stmt s).
Definition funs_P_b (b : block) : Prop :=
  forall c A lo hi, ok (check_block c b A) -> wfp_block lo b = Some hi -> AInv lo A -> all_linear (funs_block b).

Lemma ok_loop_body c p body A :
  ok (check_stmt c (SLoop p body) A) ->
  ok (check_block (with_ctx_loop c) body (enter_scope (LT0 A))).
Proof.
  rewrite check_loop_eq. intro H. unfold loop_result, check_uneval in H. apply ok_loop_diags in H.
  rewrite with_loop_eq in H. simpl in H.
  match type of H with ok (mkSt _ _ _ _ (errs ?X) (diags ?X)) => assert (OB : ok X) by exact H end.
  unfold scoped_fun in OB. apply ok_leave_scope in OB. exact OB.
Qed.

Theorem funs_sound : (forall s, funs_P_s s) /\ (forall b, funs_P_b b).
Proof.
  apply stmt_block_ind; unfold funs_P_s, funs_P_b; simpl funs_stmt; simpl funs_block;
    try (intros; apply all_linear_nil).
  - (* if *)
    intros p th IHt el IHe c A lo hi H W I D. simpl in W.
    destruct (wfp_block lo th) as [m|] eqn:W1; [|discriminate].
    pose proof (wfp_block_le _ _ W1). rewrite check_if_eq in H.
    apply all_linear_app.
    + pose proof (@ok_branches_then _ _ _ _ (mono_scoped c el) H) as OT.
      unfold scoped_fun in OT. apply ok_leave_scope in OT.
      eapply IHt; [exact OT | exact W1 | apply AInv_enter; apply AInv_fresh_layer_e; exact I].
    + pose proof (@ok_branches_else _ _ _ _ H) as OE.
      unfold scoped_fun in OE. apply ok_leave_scope in OE.
      eapply IHe; [exact OE | exact W | apply AInv_enter; apply AInv_fresh_layer_e; eapply AInv_mono; eauto].
  - (* if let *)
    intros p x px o th IHt el IHe c A lo hi H W I D. simpl in W. wf_split W.
    destruct (wfp_block (snd o) th) as [m|] eqn:W1; [|discriminate].
    pose proof (wfp_block_le _ _ W1).
    pose proof (ok_iflet_pre _ _ _ _ _ _ _ _ H) as O1. rewrite check_iflet_eq in H.
    unfold move_from in *. set (A1 := record_ c o MoveDefinite (visit_ident c o A)) in *.
    assert (B1 : BPost lo lo A A1) by (apply move_from_SPost; auto; lia).
    pose proof (bp_inv B1) as I1.
    apply all_linear_app.
    + pose proof (@ok_branches_then _ _ _ _ (mono_scoped c el) H) as OT.
      unfold iflet_fun in OT. apply ok_leave_scope in OT. apply ok_leave_scope in OT.
      change (declare x px (enter_scope (T0 A1))) with (set_scopes ([(x, px)] :: scopes (T0 A1)) (T0 A1)) in OT.
      eapply IHt; [exact OT | exact W1 |]. apply AInv_enter.
      pose proof (AInv_fresh_layer_e (errs A1) (diags A1) I1) as [U Rw F S J N].
      constructor; simpl; auto.
      * intros v Hv. apply F. plia.
      * intros y v [Hv|Hv]; [inversion Hv; plia|]. specialize (S _ _ Hv). plia.
      * intros j Hj. specialize (J _ Hj). plia.
      * discriminate.
    + pose proof (@ok_branches_else _ _ _ _ H) as OE.
      unfold scoped_fun in OE. apply ok_leave_scope in OE.
      eapply IHe; [exact OE | exact W | apply AInv_enter; apply AInv_fresh_layer_e; eapply AInv_mono; eauto; plia].
  - (* loop *)
    intros p body IHb c A lo hi H W I D. simpl in W.
    eapply IHb; [apply (@ok_loop_body c p body A H) | exact W | apply AInv_enter; apply AInv_fresh_layer_e; exact I].
  - (* function *)
    intros p pb params rr body IHb c A lo hi H W I D.
    intros g [<-|Ig].
    + intros t FP. eapply fun_sound; eauto; [apply (ai_uniq I) | apply (ai_fresh I)].
    + simpl in W. destruct (wfp_occs lo params) as [m|] eqn:Wp; [|discriminate].
      eapply IHb; [apply (@ok_fun_body c p pb params rr body A H) | exact W | eapply AInv_fun_start; eauto | exact Ig].
  - (* block *)
    intros s IHs b IHb c A lo hi H W I. simpl in H, W.
    destruct (dexit (ri A)) eqn:D; [exfalso; eapply report_not_ok; eauto|].
    destruct (wfp_stmt lo s) as [m|] eqn:W1; [|discriminate].
    assert (O1 : ok (check_stmt c s A)) by (apply (proj2 ok_mono) in H; exact H).
    apply all_linear_app.
    + eapply IHs; eauto.
    + eapply IHb; [exact H | exact W | apply (sp_inv (proj1 skip_lemma s c A lo m O1 W1 I D))].
Qed.

(* ---------------------------------------------------------------- the whole program *)

Theorem sound_strict p pb params rr body :
  let f := SFun p pb params rr body in
  check_prog f = [] -> strict_diags f = [] -> wf_prog f = true -> linear_prog f.
Proof.
  intros f HE HD HW t [g [Ig FP]].
  unfold check_prog, strict_diags, run_prog in *.
  assert (H : ok (check_stmt init_ctx f init_state)) by (split; assumption).
  unfold wf_prog in HW. destruct (wfp_stmt 0 f) as [hi|] eqn:W; [|discriminate].
  assert (U : forall v, top init_state v <> None -> lookup (below init_state) v = None) by (intros v _; reflexivity).
  assert (F : forall v, 0 < v -> inv_of init_state v = None) by (intros v _; reflexivity).
  simpl in Ig. destruct Ig as [<-|Ig].
  - eapply fun_sound; eauto.
  - subst f. simpl in W. destruct (wfp_occs 0 params) as [m|] eqn:Wp; [|discriminate].
    eapply (proj2 funs_sound body); [apply (@ok_fun_body init_ctx p pb params rr body init_state H) | exact W | eapply AInv_fun_start'; eauto | exact Ig | exact FP].
Qed.
