(* C15 proofs, part 2: Fix128 / UFix128 arithmetic and multiplyDivide of all four types, under the
   hypothesis that github.com/onflow/fixed-point behaves as assumed (C15/Model.v lib_as_assumed);
   and the dispatching theorems over the four fixed-point types. *)
From CV Require Import C15.Model C15.Proofs64 C16.ProofsBase C16.ProofsFix C16.ProofsSpec Num.WordProofs Num.IntProofs.
From Coq Require Import ZifyBool.

Lemma nfit_err_kinds k z e : nfit k z = Err e -> e = Overflow \/ e = Underflow.
Proof. intro H. apply nfit_err in H. destruct H as [[-> _]|[-> _]]; auto. Qed.

Lemma nfit_zero k : is_fixed k = true -> nfit k 0 = Ok 0.
Proof. destruct k; try discriminate; reflexivity. Qed.

(* the library's (value, error) for a result R, read through handleFixedpointError *)
Definition flagged (k : nkind) (R : Z) (underflow_flag : bool) : lret :=
  match nfit k R with
  | Err Overflow => (0, Some L4Pos)
  | Err _ => (0, Some L4Neg)
  | Ok r => if underflow_flag && (R =? 0) then (0, Some L4Under) else (r, None)
  end.

Lemma handle_flagged k R f : handle_fixedpoint_error (flagged k R f) = nfit k R.
Proof.
  unfold flagged. destruct (nfit k R) as [r|e] eqn:E.
  - apply nfit_ok in E. destruct E as [-> _].
    destruct f; cbn [andb]; [|reflexivity].
    destruct (Z.eqb_spec R 0) as [->|]; reflexivity.
  - destruct (nfit_err_kinds _ _ _ E) as [->| ->]; reflexivity.
Qed.

Lemma nclamp_of_nfit k R :
  is_fixed k = true ->
  match nfit k R with
  | Ok r => nclamp k R = r
  | Err Overflow => nmax k = Some (nclamp k R)
  | Err _ => nmin k = Some (nclamp k R)
  end.
Proof.
  intro Hk. destruct k; try discriminate; unfold nfit, nclamp; cbn [nmin nmax];
    rewrite ?p63, ?p64, ?p127, ?p128; brk; try (f_equal; lia); lia.
Qed.

Lemma saturation_flagged k R f : is_fixed k = true ->
  saturation_result k (flagged k R f) = Ok (nclamp k R).
Proof.
  intro Hk. pose proof (nclamp_of_nfit k R Hk) as C. unfold flagged.
  destruct (nfit k R) as [r|e] eqn:E.
  - pose proof (nfit_ok _ _ _ E) as [-> _]. subst.
    destruct f; cbn [andb]; [|cbn; rewrite C; reflexivity].
    destruct (Z.eqb_spec R 0) as [->|]; cbn; rewrite C; reflexivity.
  - destruct (nfit_err_kinds _ _ _ E) as [->| ->]; cbn; rewrite C; reflexivity.
Qed.

Lemma fmd_flagged k a b c m : c <> 0 -> a <> 0 -> b <> 0 ->
  fmd_behaviour k a b c m = flagged k (round_div m (a * b * Z.sgn c) (Z.abs c)) true.
Proof.
  intros Hc Ha Hb. unfold fmd_behaviour, flagged.
  destruct (Z.eqb_spec c 0); [contradiction|].
  destruct (Z.eqb_spec a 0); [contradiction|]. destruct (Z.eqb_spec b 0); [contradiction|].
  cbn [orb]. cbv zeta.
  destruct (nfit k (round_div m (a * b * Z.sgn c) (Z.abs c))) as [r|e] eqn:E; [|reflexivity].
  apply nfit_ok in E. destruct E as [-> _]. reflexivity.
Qed.

Lemma round_div_zero m d : 0 < d -> round_div m 0 d = 0.
Proof.
  intro Hd. unfold round_div. rewrite Z.quot_0_l, Z.rem_0_l by lia. simpl.
  destruct m; repeat match goal with |- context [if ?c then _ else _] => destruct c end; reflexivity.
Qed.

Lemma quot_sgn_abs n d : d <> 0 -> Z.quot (n * Z.sgn d) (Z.abs d) = Z.quot n d.
Proof.
  intro Hd. destruct (Z.ltb_spec d 0).
  - rewrite Z.sgn_neg, Z.abs_neq by lia.
    replace (n * -1) with (- n) by lia. apply Z.quot_opp_opp. lia.
  - rewrite Z.sgn_pos, Z.abs_eq by lia. rewrite Z.mul_1_r. reflexivity.
Qed.

(* handleFixedpointError o FMD = the specification of multiplyDivide *)
Lemma handle_fmd k a b c m : is_fixed k = true ->
  handle_fixedpoint_error (fmd_behaviour k a b c m) = spec_muldiv k m a b c.
Proof.
  intro Hk. unfold spec_muldiv.
  destruct (Z.eqb_spec c 0) as [->|Hc]; [reflexivity|].
  destruct (Z.eq_dec a 0) as [->|Ha]; [|destruct (Z.eq_dec b 0) as [->|Hb]].
  - unfold fmd_behaviour. destruct (Z.eqb_spec c 0); [contradiction|]. cbn [Z.eqb orb].
    rewrite !Z.mul_0_l, round_div_zero by lia. rewrite nfit_zero by assumption. reflexivity.
  - unfold fmd_behaviour. destruct (Z.eqb_spec c 0); [contradiction|].
    rewrite Z.eqb_refl, orb_true_r.
    rewrite Z.mul_0_r, Z.mul_0_l, round_div_zero by lia. rewrite nfit_zero by assumption. reflexivity.
  - rewrite fmd_flagged by assumption. apply handle_flagged.
Qed.

Lemma scale_in_range k : is_fixed k = true -> n_in_range k (scale k) /\ scale k <> 0.
Proof. destruct k; try discriminate; intros _; (split; [split; simpl; unfold e8, e24; lia|discriminate]). Qed.

Section LibProofs.
  Variable lib_fmd : nkind -> Z -> Z -> Z -> rmode -> lret.
  Variables lib_add lib_sub lib_mod : nkind -> Z -> Z -> lret.
  Variable lib_neg : Z -> lret.
  Hypothesis Hlib : lib_as_assumed lib_fmd lib_add lib_sub lib_mod lib_neg.

  Let Hfmd := proj1 Hlib.
  Let Hasm := proj1 (proj2 Hlib).
  Let Hneg := proj2 (proj2 Hlib).

  Theorem muldiv_correct k m a b c :
    is_fixed k = true -> n_in_range k a -> n_in_range k b -> n_in_range k c ->
    ~ fmd_edge k a b c ->
    muldiv_model lib_fmd k m a b c = spec_muldiv k m a b c.
  Proof.
    intros Hk Ha Hb Hc He. unfold muldiv_model. rewrite Hfmd by assumption. apply handle_fmd. assumption.
  Qed.

  (* 1.0 reduces to a 64-bit divisor: multiplication never meets the library's division edge case *)
  Lemma scale_safe k : is_fixed k = true -> safe_divisor (scale k).
  Proof.
    destruct k; try discriminate; intros _.
    - exists 8. split; [lia|]. split; [exists 390625; reflexivity|vm_compute; reflexivity].
    - exists 8. split; [lia|]. split; [exists 390625; reflexivity|vm_compute; reflexivity].
    - exists 24. split; [lia|]. split; [exists 59604644775390625; reflexivity|vm_compute; reflexivity].
    - exists 24. split; [lia|]. split; [exists 59604644775390625; reflexivity|vm_compute; reflexivity].
  Qed.
  Lemma mul_not_edge k a b : is_fixed k = true -> ~ fmd_edge k a b (scale k).
  Proof. intros Hk [_ [H _]]. apply H. apply scale_safe. assumption. Qed.

  Definition div_edge (k : nkind) (op : fop) (a b : Z) : Prop := op = FDiv /\ fmd_edge k a (scale k) b.

  Lemma k128_fixed k : k = NFix128 \/ k = NUFix128 -> is_fixed k = true.
  Proof. intros [->| ->]; reflexivity. Qed.

  Lemma add_flagged k a b : add_behaviour k a b = flagged k (a + b) false.
  Proof. reflexivity. Qed.
  Lemma sub_flagged k a b : sub_behaviour k a b = flagged k (a - b) false.
  Proof. reflexivity. Qed.

  (* the library call of each operator, as a flagged exact result (b <> 0 for division) *)
  Lemma lib_op_flagged k op a b :
    (k = NFix128 \/ k = NUFix128) -> n_in_range k a -> n_in_range k b ->
    (op = FDiv -> b <> 0) -> ~ div_edge k op a b ->
    exists f,
    match op with
    | FAdd => lib_add k a b
    | FSub => lib_sub k a b
    | FMul => lib_mul lib_fmd k a b RTowardZero
    | FDiv => lib_div lib_fmd k a b RTowardZero
    end = flagged k (exact_fix k op a b) f \/
    (exact_fix k op a b = 0 /\
     match op with
     | FAdd => lib_add k a b
     | FSub => lib_sub k a b
     | FMul => lib_mul lib_fmd k a b RTowardZero
     | FDiv => lib_div lib_fmd k a b RTowardZero
     end = (0, None)).
  Proof.
    intros Hk Ha Hb Hdiv Hedge. pose proof (k128_fixed k Hk) as Hf.
    destruct (scale_in_range k Hf) as [Hs Hs0].
    destruct (Hasm k a b Hk Ha Hb) as [A [S M]].
    destruct op; unfold exact_fix.
    - exists false. left. rewrite A. apply add_flagged.
    - exists false. left. rewrite S. apply sub_flagged.
    - exists true. unfold lib_mul. rewrite Hfmd by (try assumption; apply mul_not_edge; assumption).
      assert (Sg: Z.sgn (scale k) = 1 /\ Z.abs (scale k) = scale k) by (destruct Hk as [->| ->]; split; reflexivity).
      destruct Sg as [Sg Ab].
      destruct (Z.eq_dec a 0) as [->|Ha0]; [|destruct (Z.eq_dec b 0) as [->|Hb0]].
      + right. split; [rewrite Z.mul_0_l; apply Z.quot_0_l; assumption|].
        unfold fmd_behaviour. destruct (Z.eqb_spec (scale k) 0); [contradiction|]. reflexivity.
      + right. split; [rewrite Z.mul_0_r; apply Z.quot_0_l; assumption|].
        unfold fmd_behaviour. destruct (Z.eqb_spec (scale k) 0); [contradiction|].
        rewrite Z.eqb_refl, orb_true_r. reflexivity.
      + left. rewrite fmd_flagged by assumption. rewrite Sg, Ab, Z.mul_1_r. reflexivity.
    - exists true. specialize (Hdiv eq_refl). unfold lib_div.
      assert (Hne: ~ fmd_edge k a (scale k) b).
      { intro E. apply Hedge. split; [reflexivity|exact E]. }
      rewrite Hfmd by assumption.
      destruct (Z.eq_dec a 0) as [->|Ha0].
      + right. split; [rewrite Z.mul_0_l; apply Z.quot_0_l; assumption|].
        unfold fmd_behaviour. destruct (Z.eqb_spec b 0); [contradiction|]. reflexivity.
      + left. rewrite fmd_flagged by assumption.
        unfold round_div. rewrite quot_sgn_abs by assumption. reflexivity.
  Qed.

  Lemma zero_divisor_not_edge k a : ~ fmd_edge k a (scale k) 0.
  Proof. intros [_ [_ H]]. simpl in H. rewrite Zdiv_0_r in H. vm_compute in H. discriminate. Qed.

  Theorem fix128_arith_correct k op a b :
    (k = NFix128 \/ k = NUFix128) -> n_in_range k a -> n_in_range k b -> ~ div_edge k op a b ->
    fix128_arith lib_fmd lib_add lib_sub k op a b = spec_arith k op a b.
  Proof.
    intros Hk Ha Hb Hedge. pose proof (k128_fixed k Hk) as Hf. unfold fix128_arith, spec_arith.
    assert (D: op = FDiv -> b = 0 ->
      handle_fixedpoint_error (lib_div lib_fmd k a b RTowardZero) = Err DivZero).
    { intros _ ->. unfold lib_div. destruct (scale_in_range k Hf) as [Hs _].
      rewrite Hfmd by (try assumption; apply zero_divisor_not_edge). reflexivity. }
    assert (G: (op = FDiv -> b <> 0) -> handle_fixedpoint_error
         match op with
         | FAdd => lib_add k a b | FSub => lib_sub k a b
         | FMul => lib_mul lib_fmd k a b RTowardZero | FDiv => lib_div lib_fmd k a b RTowardZero
         end = nfit k (exact_fix k op a b)).
    { intro Hd. destruct (lib_op_flagged k op a b Hk Ha Hb Hd Hedge) as [f [E|[Z0 E]]];
        rewrite E; [apply handle_flagged | rewrite Z0, nfit_zero by assumption; reflexivity]. }
    destruct op; try (apply G; discriminate).
    destruct (Z.eqb_spec b 0) as [Hz|Hz].
    - apply D; [reflexivity|assumption].
    - apply G. intros _. assumption.
  Qed.

  Theorem fix128_sat_correct k op a b :
    (k = NFix128 \/ k = NUFix128) -> sat_declared k op = true -> n_in_range k a -> n_in_range k b ->
    ~ div_edge k op a b ->
    fix128_sat lib_fmd lib_add lib_sub k op a b = spec_sat k op a b.
  Proof.
    intros Hk Hd Ha Hb Hedge. pose proof (k128_fixed k Hk) as Hf. unfold fix128_sat, spec_sat.
    assert (Z0: nclamp k 0 = 0) by (destruct Hk as [->| ->]; reflexivity).
    assert (G: (op = FDiv -> b <> 0) -> saturation_result k
         match op with
         | FAdd => lib_add k a b | FSub => lib_sub k a b
         | FMul => lib_mul lib_fmd k a b RTowardZero | FDiv => lib_div lib_fmd k a b RTowardZero
         end = Ok (nclamp k (exact_fix k op a b))).
    { intro Hdv. destruct (lib_op_flagged k op a b Hk Ha Hb Hdv Hedge) as [f [E|[Z1 E]]];
        rewrite E; [apply saturation_flagged; assumption | rewrite Z1, Z0; reflexivity]. }
    destruct op; try (apply G; discriminate).
    destruct (Z.eqb_spec b 0) as [Hz|Hz].
    - subst b. unfold lib_div. destruct (scale_in_range k Hf) as [Hs _].
      rewrite Hfmd by (try assumption; apply zero_divisor_not_edge). reflexivity.
    - apply G. intros _. assumption.
  Qed.

  Theorem fix128_mod_correct k a b :
    (k = NFix128 \/ k = NUFix128) -> n_in_range k a -> n_in_range k b ->
    fix128_mod lib_mod k a b = (if b =? 0 then Err DivZero else Ok (Z.rem a b)).
  Proof.
    intros Hk Ha Hb. unfold fix128_mod. destruct (Hasm k a b Hk Ha Hb) as [_ [_ M]].
    rewrite M. unfold mod_behaviour. destruct (b =? 0); reflexivity.
  Qed.

  (* unary minus on Fix128: the library reports NegativeOverflowError for the minimum, which the
     wrapper turns into an UNDERFLOW error; every other value is negated exactly *)
  Theorem fix128_neg_partial a :
    n_in_range NFix128 a -> a <> - 2 ^ 127 ->
    fix128_neg lib_neg a = spec_neg NFix128 a.
  Proof.
    intros Ha Hm. unfold fix128_neg, spec_neg. rewrite Hneg by assumption. unfold neg_behaviour.
    destruct (Z.eqb_spec a (- 2 ^ 127)); [contradiction|].
    apply (proj1 (nin_fix128 _)) in Ha. rewrite p127 in *. rewrite nfit_fix128.
    cbn [handle_fixedpoint_error]. brk; try lia. reflexivity.
  Qed.

  Theorem fix128_neg_min_refuted :
    fix128_neg lib_neg (- 2 ^ 127) = Err Underflow /\ spec_neg NFix128 (- 2 ^ 127) = Err Overflow.
  Proof.
    split; [|reflexivity]. unfold fix128_neg. rewrite Hneg by (split; simpl; lia). reflexivity.
  Qed.

  (* ---- all four types ---- *)
  Theorem arith_model_correct k op a b :
    is_fixed k = true -> n_in_range k a -> n_in_range k b -> ~ div_edge k op a b ->
    arith_model lib_fmd lib_add lib_sub k op a b = spec_arith k op a b.
  Proof.
    intros Hk Ha Hb Hedge. destruct k; try discriminate; unfold arith_model.
    - apply fix64_arith_correct; assumption.
    - apply ufix64_arith_correct; assumption.
    - apply fix128_arith_correct; auto.
    - apply fix128_arith_correct; auto.
  Qed.

  Theorem sat_model_correct k op a b :
    is_fixed k = true -> sat_declared k op = true -> n_in_range k a -> n_in_range k b ->
    ~ div_edge k op a b ->
    sat_model lib_fmd lib_add lib_sub k op a b = spec_sat k op a b.
  Proof.
    intros Hk Hd Ha Hb Hedge. destruct k; try discriminate; unfold sat_model.
    - apply fix64_sat_correct; assumption.
    - apply ufix64_sat_correct; assumption.
    - apply fix128_sat_correct; auto.
    - apply fix128_sat_correct; auto.
  Qed.

  Theorem mod_model_allowed k a b :
    is_fixed k = true -> n_in_range k a -> n_in_range k b ->
    spec_mod_allowed k a b (mod_model lib_mod k a b).
  Proof.
    intros Hk Ha Hb. destruct k; try discriminate; unfold mod_model.
    - rewrite fix64_mod_correct by assumption. apply mod_strict_allowed.
    - rewrite ufix64_mod_correct by assumption. apply mod_strict_allowed.
    - rewrite fix128_mod_correct by auto. unfold spec_mod_allowed. destruct (b =? 0); auto.
    - rewrite fix128_mod_correct by auto. unfold spec_mod_allowed. destruct (b =? 0); auto.
  Qed.

  (* exactly when % fails, per type *)
  Theorem mod_model_exact k a b :
    is_fixed k = true -> n_in_range k a -> n_in_range k b ->
    mod_model lib_mod k a b =
      match k with
      | NFix64 | NUFix64 => mod_strict k a b
      | _ => if b =? 0 then Err DivZero else Ok (Z.rem a b)
      end.
  Proof.
    intros Hk Ha Hb. destruct k; try discriminate; unfold mod_model.
    - apply fix64_mod_correct; assumption.
    - apply ufix64_mod_correct; assumption.
    - apply fix128_mod_correct; auto.
    - apply fix128_mod_correct; auto.
  Qed.

  Theorem neg_model_partial k a :
    (k = NFix64 \/ (k = NFix128 /\ a <> - 2 ^ 127)) -> n_in_range k a ->
    neg_model lib_neg k a = spec_neg k a.
  Proof.
    intros [->|[-> Hm]] Ha; unfold neg_model.
    - apply fix64_neg_correct; assumption.
    - apply fix128_neg_partial; assumption.
  Qed.
End LibProofs.

(* the guard is trivially false for the 64-bit types and for every operator but / *)
Lemma div_edge_only_128_div k op a b :
  div_edge k op a b -> (k = NFix128 \/ k = NUFix128) /\ op = FDiv.
Proof. intros [-> [H _]]. split; [exact H|reflexivity]. Qed.

(* the assumed behaviour is consistent: it satisfies its own description (non-vacuity of Hlib) *)
Lemma assumed_behaviour_satisfies :
  lib_as_assumed fmd_behaviour add_behaviour sub_behaviour mod_behaviour neg_behaviour.
Proof. repeat split. Qed.

(* meaning of the specification *)
Theorem spec_arith_sound k op a b z :
  spec_arith k op a b = Ok z -> n_in_range k z /\ z = exact_fix k op a b.
Proof.
  unfold spec_arith. intro H.
  assert (F: forall x, nfit k x = Ok z -> n_in_range k z /\ z = x).
  { intros x E. apply nfit_ok in E. tauto. }
  destruct op; try (apply F; exact H). destruct (b =? 0); [discriminate|apply F; exact H].
Qed.

Theorem spec_arith_errors k op a b e :
  spec_arith k op a b = Err e ->
  (e = DivZero /\ b = 0 /\ op = FDiv) \/
  (e = Overflow /\ exists M, nmax k = Some M /\ exact_fix k op a b > M) \/
  (e = Underflow /\ exists m, nmin k = Some m /\ exact_fix k op a b < m).
Proof.
  unfold spec_arith. intro H.
  destruct op; try (right; apply nfit_err; exact H).
  destruct (Z.eqb_spec b 0); [inversion H; left; auto|right; apply nfit_err; exact H].
Qed.

(* exact_fix is the exact rational result truncated toward zero: within one unit, never away from zero *)
Theorem exact_fix_mul_truncates k a b :
  0 < scale k ->
  let r := exact_fix k FMul a b in
  Z.abs (r * scale k) <= Z.abs (a * b) < Z.abs (r * scale k) + scale k.
Proof.
  intros HS r. subst r. unfold exact_fix.
  pose proof (Z.quot_rem' (a * b) (scale k)) as E.
  pose proof (Z.rem_bound_abs (a * b) (scale k) ltac:(lia)) as B.
  destruct (Z.leb_spec 0 (a * b)).
  - pose proof (Z.rem_nonneg (a * b) (scale k) ltac:(lia) ltac:(lia)).
    pose proof (Z.quot_pos (a * b) (scale k) ltac:(lia) ltac:(lia)). nia.
  - pose proof (Z.rem_nonpos (a * b) (scale k) ltac:(lia) ltac:(lia)).
    assert (Z.quot (a * b) (scale k) <= 0).
    { replace (a * b) with (- (- (a * b))) by lia. rewrite Z.quot_opp_l by lia.
      pose proof (Z.quot_pos (- (a * b)) (scale k) ltac:(lia) ltac:(lia)). lia. }
    nia.
Qed.
