(* Check functions for the per-run case files of C15: the wrappers of C15/Model.v instantiated with
   the assumed library behaviour, against the observed results of the real code; and the Coq
   specification against the Go big.Rat oracle. *)
From CV Require Export C15.Model.

Definition arith_inst := arith_model fmd_behaviour add_behaviour sub_behaviour.
Definition sat_inst := sat_model fmd_behaviour add_behaviour sub_behaviour.
Definition mod_inst := mod_model mod_behaviour.
Definition neg_inst := neg_model neg_behaviour.
Definition muldiv_inst := muldiv_model fmd_behaviour.

Inductive c15case : Type :=
| CArith (k : nkind) (op : fop) (a b : Z) (obs req : res Z)
| CSat (k : nkind) (op : fop) (a b : Z) (obs req : res Z)
| CMod (k : nkind) (a b : Z) (obs : res Z)
| CNeg (k : nkind) (a : Z) (obs req : res Z)
| CMulDiv (k : nkind) (m : rmode) (a b c : Z) (obs req : res Z).

Definition req_eqb := res_eqb Z.eqb.

(* decidable form of spec_mod_allowed *)
Definition mod_allowedb (k : nkind) (a b : Z) (r : res Z) : bool :=
  if b =? 0 then req_eqb r (Err DivZero)
  else req_eqb r (Ok (Z.rem a b)) ||
       match r, nfit k (Z.quot (a * scale k) b) with
       | Err e, Err f => err_eqb e f
       | _, _ => false
       end.

Definition check_c15 (c : c15case) : bool :=
  match c with
  | CArith k op a b obs req => req_eqb (arith_inst k op a b) obs && req_eqb (spec_arith k op a b) req
  | CSat k op a b obs req => req_eqb (sat_inst k op a b) obs && req_eqb (spec_sat k op a b) req
  | CMod k a b obs => req_eqb (mod_inst k a b) obs && mod_allowedb k a b obs
  | CNeg k a obs req => req_eqb (neg_inst k a) obs && req_eqb (spec_neg k a) req
  | CMulDiv k m a b c obs req => req_eqb (muldiv_inst k m a b c) obs && req_eqb (spec_muldiv k m a b c) req
  end.
