(* C15: specification of fixed-point arithmetic (what the property demands).
   A value of Fix64/UFix64 (scale S = 10^8) or Fix128/UFix128 (S = 10^24) is carried as the scaled
   integer a = value * S (kinds, scales, ranges, nfit and the rounding rules come from C16/Spec.v). *)
From CV Require Export C16.Spec.

Definition is_fixed (k : nkind) : bool := match k with NI _ => false | _ => true end.
Definition is_signed_fixed (k : nkind) : bool := match k with NFix64 | NFix128 => true | _ => false end.

Inductive fop : Type := FAdd | FSub | FMul | FDiv.

(* the exact rational result, truncated toward zero to the scale, as a carried integer:
     (a/S)(b/S) = (a*b/S)/S      (a/S)/(b/S) = (a*S/b)/S *)
Definition exact_fix (k : nkind) (op : fop) (a b : Z) : Z :=
  match op with
  | FAdd => a + b
  | FSub => a - b
  | FMul => Z.quot (a * b) (scale k)
  | FDiv => Z.quot (a * scale k) b
  end.

(* + - * / : the truncated exact result, Overflow above the maximum, Underflow below the minimum;
   division by zero fails *)
Definition spec_arith (k : nkind) (op : fop) (a b : Z) : res Z :=
  match op with
  | FDiv => if b =? 0 then Err DivZero else nfit k (exact_fix k op a b)
  | _ => nfit k (exact_fix k op a b)
  end.

(* unary minus *)
Definition spec_neg (k : nkind) (a : Z) : res Z := nfit k (- a).

(* saturating arithmetic: the truncated exact result clamped into the range *)
Definition nclamp (k : nkind) (z : Z) : Z :=
  let z1 := match nmin k with Some m => Z.max m z | None => z end in
  match nmax k with Some M => Z.min M z1 | None => z1 end.
Definition spec_sat (k : nkind) (op : fop) (a b : Z) : res Z :=
  match op with
  | FDiv => if b =? 0 then Err DivZero else Ok (nclamp k (exact_fix k op a b))
  | _ => Ok (nclamp k (exact_fix k op a b))
  end.
(* sema: Fix64, Fix128 declare saturatingAdd/Subtract/Multiply/Divide; UFix64, UFix128 all but Divide *)
Definition sat_declared (k : nkind) (op : fop) : bool :=
  match k, op with
  | (NFix64 | NFix128), _ => true
  | (NUFix64 | NUFix128), (FAdd | FSub | FMul) => true
  | _, _ => false
  end.

(* a % b = a - trunc(a/b)*b (as carried integers: Z.rem a b); it may fail only when the quotient a/b
   is out of range (with that error); b = 0 fails with DivZero *)
Definition spec_mod_allowed (k : nkind) (a b : Z) (r : res Z) : Prop :=
  if b =? 0 then r = Err DivZero
  else r = Ok (Z.rem a b) \/
       (exists e, r = Err e /\ nfit k (Z.quot (a * scale k) b) = Err e).

(* a.multiplyDivide(b, c, rounding: m) = a*b/c rounded by the rule:
   (a/S)(b/S)/(c/S) = (a*b/c)/S; the rules are sign-symmetric, so the sign of c moves to the numerator *)
Definition spec_muldiv (k : nkind) (m : rmode) (a b c : Z) : res Z :=
  if c =? 0 then Err DivZero
  else nfit k (round_div m (a * b * Z.sgn c) (Z.abs c)).
