(* C15: code-shaped model of fixed-point arithmetic.
   Fix64  : interpreter/value_fix64.go (int64 INT32-C predicates; Mul/Div through math/big)
   UFix64 : values/value_ufix64.go + interpreter/value_ufix64.go (uint64 INT30-C; Mul/Div through math/big)
   Fix128, UFix128 : interpreter/value_fix128.go, value_ufix128.go: wrappers around
     github.com/onflow/fixed-point (Add, Sub, Mul, Div, Mod, Neg, FMD) with the error mappings
     handleFixedpointError, fix128SaturationArithmaticResult, ufix128SaturationArithmaticResult;
   multiplyDivide of all four types calls the library's FMD.
   The library is OUTSIDE /repo: its functions enter as Section variables. *)
From CV Require Export Num.IntModel C16.Model C15.Spec.

(* library results: (value, error) as returned by the Go functions *)
Inductive liberr4 : Type := L4Pos | L4Neg | L4Under | L4DivZero.
Definition lret : Type := (Z * option liberr4)%type.

(* value_fix128.go: handleFixedpointError (the library's underflow = "too small to represent" is not
   an error: the returned value is used) *)
Definition handle_fixedpoint_error (r : lret) : res Z :=
  match r with
  | (v, None) | (v, Some L4Under) => Ok v
  | (_, Some L4Pos) => Err Overflow
  | (_, Some L4Neg) => Err Underflow
  | (_, Some L4DivZero) => Err DivZero
  end.

(* fix128SaturationArithmaticResult / ufix128SaturationArithmaticResult *)
Definition saturation_result (k : nkind) (r : lret) : res Z :=
  match r with
  | (v, None) => Ok v
  | (_, Some L4Pos) => Ok (match nmax k with Some M => M | None => 0 end)
  | (_, Some L4Neg) => Ok (match nmin k with Some m => m | None => 0 end)
  | (_, Some L4Under) => Ok 0
  | (_, Some L4DivZero) => Err DivZero
  end.

(* ---------------------------------------------------------------- Fix64 (int64) *)
Definition fix64_checked (r : Z) : res Z :=
  if r <? min_int64 then Err Underflow
  else if r >? max_int64 then Err Overflow
  else Ok (big_int64 r).
Definition fix64_saturated (r : Z) : res Z :=
  if r <? min_int64 then Ok min_int64
  else if r >? max_int64 then Ok max_int64
  else Ok (big_int64 r).

Definition fix64_arith (op : fop) (v o : Z) : res Z :=
  match op with
  | FAdd => sint_native 64 OAdd v o                   (* safeAddInt64 *)
  | FSub => sint_native 64 OSub v o
  | FMul => fix64_checked (Z.quot (v * o) e8)          (* big.Int Mul, Quo by Fix64FactorBig *)
  | FDiv => if o =? 0 then Err DivZero
            else fix64_checked (Z.quot (v * e8) o)
  end.

Definition fix64_sat (op : fop) (v o : Z) : res Z :=
  match op with
  | FAdd => sint_native_sat 64 OAdd v o
  | FSub => sint_native_sat 64 OSub v o
  | FMul => fix64_saturated (Z.quot (v * o) e8)
  | FDiv => if o =? 0 then Err DivZero
            else fix64_saturated (Z.quot (v * e8) o)
  end.

Definition fix64_neg (v : Z) : res Z := sint_native_neg 64 v.

(* Mod: v - int(v/o) * o, through Div, Mul and Minus of the type *)
Definition fix64_mod (v o : Z) : res Z :=
  let* quotient := fix64_arith FDiv v o in
  let truncatedQuotient := wrap_s 64 (wrap_s 64 (Z.quot quotient e8) * e8) in
  let* p := fix64_arith FMul truncatedQuotient o in
  fix64_arith FSub v p.

(* ---------------------------------------------------------------- UFix64 (uint64) *)
Definition ufix64_checked (r : Z) : res Z :=
  if negb (is_uint64 r) then Err Overflow else Ok (big_uint64 r).
Definition ufix64_saturated (r : Z) : res Z :=
  if negb (is_uint64 r) then Ok max_uint64 else Ok (big_uint64 r).

Definition ufix64_arith (op : fop) (v o : Z) : res Z :=
  match op with
  | FAdd => uint_native 64 OAdd v o                   (* values.SafeAddUint64 *)
  | FSub => uint_native 64 OSub v o
  | FMul => ufix64_checked (Z.quot (v * o) e8)
  | FDiv => if o =? 0 then Err DivZero
            else ufix64_checked (Z.quot (v * e8) o)
  end.

Definition ufix64_sat (op : fop) (v o : Z) : res Z :=
  match op with
  | FAdd => uint_native_sat 64 OAdd v o
  | FSub => uint_native_sat 64 OSub v o
  | FMul => ufix64_saturated (Z.quot (v * o) e8)
  | FDiv => Err Internal                               (* unreachable: not declared by sema *)
  end.

Definition ufix64_mod (v o : Z) : res Z :=
  let* quotient := ufix64_arith FDiv v o in
  let truncatedQuotient := wrap_u 64 (wrap_u 64 (quotient / e8) * e8) in
  let* subtrahend := ufix64_arith FMul truncatedQuotient o in
  ufix64_arith FSub v subtrahend.

(* ---------------------------------------------------------------- library-backed operations *)
Section Library.
  (* github.com/onflow/fixed-point: FMD (fused multiply-divide) of Fix64, UFix64, Fix128, UFix128;
     Add, Sub, Mod of Fix128 / UFix128; Neg of Fix128. Arguments and results are the (signed or
     unsigned) integer readings of the raw values. *)
  Variable lib_fmd : nkind -> Z -> Z -> Z -> rmode -> lret.
  Variable lib_add lib_sub lib_mod : nkind -> Z -> Z -> lret.
  Variable lib_neg : Z -> lret.

  (* fix128.go: Mul = a.FMD(b, One, round); Div = a.FMD(One, b, round) *)
  Definition lib_mul (k : nkind) (a b : Z) (m : rmode) : lret := lib_fmd k a b (scale k) m.
  Definition lib_div (k : nkind) (a b : Z) (m : rmode) : lret := lib_fmd k a (scale k) b m.

  Definition fix128_arith (k : nkind) (op : fop) (v o : Z) : res Z :=
    handle_fixedpoint_error
      match op with
      | FAdd => lib_add k v o
      | FSub => lib_sub k v o
      | FMul => lib_mul k v o RTowardZero          (* fix.RoundTruncate *)
      | FDiv => lib_div k v o RTowardZero
      end.

  Definition fix128_sat (k : nkind) (op : fop) (v o : Z) : res Z :=
    saturation_result k
      match op with
      | FAdd => lib_add k v o
      | FSub => lib_sub k v o
      | FMul => lib_mul k v o RTowardZero
      | FDiv => lib_div k v o RTowardZero
      end.

  Definition fix128_mod (k : nkind) (v o : Z) : res Z := handle_fixedpoint_error (lib_mod k v o).
  Definition fix128_neg (v : Z) : res Z := handle_fixedpoint_error (lib_neg v).

  (* MultiplyDivide of the four types *)
  Definition muldiv_model (k : nkind) (m : rmode) (v f d : Z) : res Z :=
    handle_fixedpoint_error (lib_fmd k v f d m).

  (* dispatch by type *)
  Definition arith_model (k : nkind) (op : fop) (v o : Z) : res Z :=
    match k with
    | NFix64 => fix64_arith op v o
    | NUFix64 => ufix64_arith op v o
    | NFix128 | NUFix128 => fix128_arith k op v o
    | NI _ => Err Internal
    end.
  Definition sat_model (k : nkind) (op : fop) (v o : Z) : res Z :=
    match k with
    | NFix64 => fix64_sat op v o
    | NUFix64 => ufix64_sat op v o
    | NFix128 | NUFix128 => fix128_sat k op v o
    | NI _ => Err Internal
    end.
  Definition mod_model (k : nkind) (v o : Z) : res Z :=
    match k with
    | NFix64 => fix64_mod v o
    | NUFix64 => ufix64_mod v o
    | NFix128 | NUFix128 => fix128_mod k v o
    | NI _ => Err Internal
    end.
  Definition neg_model (k : nkind) (v : Z) : res Z :=
    match k with
    | NFix64 => fix64_neg v
    | NFix128 => fix128_neg v
    | _ => Err Internal                                (* Negate is unreachable for unsigned types *)
    end.
End Library.

(* ---------------------------------------------------------------- assumed behaviour of the library *)
(* FMD: division by zero; zero operand; otherwise the exact a*b/c rounded by the rule, flagged as
   positive / negative overflow when out of range and as underflow when a non-zero result rounds to 0 *)
Definition fmd_behaviour (k : nkind) (a b c : Z) (m : rmode) : lret :=
  if c =? 0 then (0, Some L4DivZero)
  else if (a =? 0) || (b =? 0) then (0, None)
  else
    let R := round_div m (a * b * Z.sgn c) (Z.abs c) in
    match nfit k R with
    | Err Overflow => (0, Some L4Pos)
    | Err _ => (0, Some L4Neg)
    | Ok _ => if R =? 0 then (0, Some L4Under) else (R, None)
    end.

Definition add_behaviour (k : nkind) (a b : Z) : lret :=
  match nfit k (a + b) with
  | Err Overflow => (0, Some L4Pos) | Err _ => (0, Some L4Neg) | Ok r => (r, None)
  end.
Definition sub_behaviour (k : nkind) (a b : Z) : lret :=
  match nfit k (a - b) with
  | Err Overflow => (0, Some L4Pos) | Err _ => (0, Some L4Neg) | Ok r => (r, None)
  end.
(* Mod: remainder with the sign of a; only division by zero fails *)
Definition mod_behaviour (k : nkind) (a b : Z) : lret :=
  if b =? 0 then (0, Some L4DivZero) else (Z.rem a b, None).
(* Neg: the minimum cannot be negated: the library reports NegativeOverflowError *)
Definition neg_behaviour (a : Z) : lret :=
  if a =? - 2 ^ 127 then (0, Some L4Neg) else (- a, None).

(* Known defect of the library (v0.1.1, raw128.go div192by128, "edge case" branch): when the divisor does
   not reduce to 64 bits after stripping its trailing zero bits and the low 64-bit word of the truncated
   quotient |a*b| / |c| is 2^64 - 2, FMD may return a magnitude one (or, after rounding, two) units too
   large. The hypothesis about FMD excludes exactly these inputs. 1.0 = 10^24 = 2^24 * 5^24 reduces to
   64 bits, so multiplication (FMD(a, b, 1.0)) is never concerned. *)
Definition safe_divisor (c : Z) : Prop :=
  exists s, 0 <= s /\ (2 ^ s | c) /\ Z.abs c / 2 ^ s < 2 ^ 64.
Definition fmd_edge (k : nkind) (a b c : Z) : Prop :=
  (k = NFix128 \/ k = NUFix128) /\ ~ safe_divisor c /\
  (Z.abs (a * b) / Z.abs c) mod 2 ^ 64 = 2 ^ 64 - 2.

Definition lib_as_assumed (lib_fmd : nkind -> Z -> Z -> Z -> rmode -> lret)
    (lib_add lib_sub lib_mod : nkind -> Z -> Z -> lret) (lib_neg : Z -> lret) : Prop :=
  (forall k a b c m, is_fixed k = true -> n_in_range k a -> n_in_range k b -> n_in_range k c ->
     ~ fmd_edge k a b c ->
     lib_fmd k a b c m = fmd_behaviour k a b c m) /\
  (forall k a b, (k = NFix128 \/ k = NUFix128) -> n_in_range k a -> n_in_range k b ->
     lib_add k a b = add_behaviour k a b /\ lib_sub k a b = sub_behaviour k a b /\
     lib_mod k a b = mod_behaviour k a b) /\
  (forall a, n_in_range NFix128 a -> lib_neg a = neg_behaviour a).
