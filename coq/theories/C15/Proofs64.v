(* C15 proofs, part 1: Fix64 and UFix64 (code inside /repo; no library assumption). *)
From CV Require Import C15.Model C16.ProofsBase C16.ProofsFix Num.WordProofs Num.IntProofs.
From Coq Require Import ZifyBool.
Ltac Zify.zify_post_hook ::= Z.to_euclidean_division_equations.

Lemma r64 x : n_in_range NFix64 x -> in_range (KSigned 64) x.
Proof. intro H. exact H. Qed.
Lemma ru64 x : n_in_range NUFix64 x -> in_range (KUnsigned 64) x.
Proof. intro H. exact H. Qed.

Lemma fit_nfit64 z : fit (KSigned 64) z = nfit NFix64 z.
Proof. reflexivity. Qed.
Lemma fit_nfitu64 z : fit (KUnsigned 64) z = nfit NUFix64 z.
Proof. reflexivity. Qed.
Lemma clamp_nclamp64 z : clamp (KSigned 64) z = nclamp NFix64 z.
Proof. reflexivity. Qed.
Lemma clamp_nclampu64 z : clamp (KUnsigned 64) z = nclamp NUFix64 z.
Proof. reflexivity. Qed.

Lemma fix64_checked_nfit r : fix64_checked r = nfit NFix64 r.
Proof.
  unfold fix64_checked. rewrite nfit_fix64. consts.
  brk; try lia; try reflexivity. rewrite big_int64_id' by lia. reflexivity.
Qed.

Lemma nclamp_fix64 r : nclamp NFix64 r = Z.min 9223372036854775807 (Z.max (-9223372036854775808) r).
Proof. reflexivity. Qed.
Lemma nclamp_ufix64 r : nclamp NUFix64 r = Z.min 18446744073709551615 (Z.max 0 r).
Proof. reflexivity. Qed.

Lemma fix64_saturated_nclamp r : fix64_saturated r = Ok (nclamp NFix64 r).
Proof.
  unfold fix64_saturated. rewrite nclamp_fix64. consts.
  brk; f_equal; try lia. rewrite big_int64_id' by lia. lia.
Qed.

Lemma ufix64_checked_nfit r : 0 <= r -> ufix64_checked r = nfit NUFix64 r.
Proof.
  intro Hr. unfold ufix64_checked, is_uint64. rewrite nfit_ufix64. consts.
  brk; try lia; try reflexivity. rewrite big_uint64_id' by lia. reflexivity.
Qed.

Lemma ufix64_saturated_nclamp r : 0 <= r -> ufix64_saturated r = Ok (nclamp NUFix64 r).
Proof.
  intro Hr. unfold ufix64_saturated, is_uint64. rewrite nclamp_ufix64. consts.
  brk; f_equal; try lia. rewrite big_uint64_id' by lia. lia.
Qed.

Lemma quot_nonneg a b : 0 <= a -> 0 <= b -> 0 <= Z.quot a b.
Proof.
  intros. destruct (Z.eq_dec b 0) as [->|]. destruct a; simpl; lia.
  apply Z.quot_pos; lia.
Qed.

(* ---- + - * / ---- *)
Theorem fix64_arith_correct op a b :
  n_in_range NFix64 a -> n_in_range NFix64 b ->
  fix64_arith op a b = spec_arith NFix64 op a b.
Proof.
  intros Ha Hb. destruct op; unfold fix64_arith, spec_arith, exact_fix.
  - rewrite (sint_native_correct 64 ltac:(lia) OAdd a b (r64 _ Ha) (r64 _ Hb)). apply fit_nfit64.
  - rewrite (sint_native_correct 64 ltac:(lia) OSub a b (r64 _ Ha) (r64 _ Hb)). apply fit_nfit64.
  - apply fix64_checked_nfit.
  - destruct (b =? 0); [reflexivity|]. apply fix64_checked_nfit.
Qed.

Theorem ufix64_arith_correct op a b :
  n_in_range NUFix64 a -> n_in_range NUFix64 b ->
  ufix64_arith op a b = spec_arith NUFix64 op a b.
Proof.
  intros Ha Hb. destruct op; unfold ufix64_arith, spec_arith, exact_fix.
  - rewrite (uint_native_correct 64 ltac:(lia) OAdd a b (ru64 _ Ha) (ru64 _ Hb)). apply fit_nfitu64.
  - rewrite (uint_native_correct 64 ltac:(lia) OSub a b (ru64 _ Ha) (ru64 _ Hb)). apply fit_nfitu64.
  - apply ufix64_checked_nfit. destruct Ha as [Ha _], Hb as [Hb _]; simpl in Ha, Hb.
    apply quot_nonneg; [nia|discriminate].
  - destruct (b =? 0); [reflexivity|]. apply ufix64_checked_nfit.
    destruct Ha as [Ha _], Hb as [Hb _]; simpl in Ha, Hb. apply quot_nonneg; [simpl scale; unfold e8; lia|lia].
Qed.

(* ---- saturating ---- *)
Theorem fix64_sat_correct op a b :
  n_in_range NFix64 a -> n_in_range NFix64 b ->
  fix64_sat op a b = spec_sat NFix64 op a b.
Proof.
  intros Ha Hb. destruct op; unfold fix64_sat, spec_sat, exact_fix.
  - rewrite (sint_native_sat_correct 64 ltac:(lia) OAdd a b ltac:(discriminate) (r64 _ Ha) (r64 _ Hb)).
    unfold IntSpec.spec_sat, exact. rewrite clamp_nclamp64. reflexivity.
  - rewrite (sint_native_sat_correct 64 ltac:(lia) OSub a b ltac:(discriminate) (r64 _ Ha) (r64 _ Hb)).
    unfold IntSpec.spec_sat, exact. rewrite clamp_nclamp64. reflexivity.
  - apply fix64_saturated_nclamp.
  - destruct (b =? 0); [reflexivity|]. apply fix64_saturated_nclamp.
Qed.

Theorem ufix64_sat_correct op a b :
  sat_declared NUFix64 op = true -> n_in_range NUFix64 a -> n_in_range NUFix64 b ->
  ufix64_sat op a b = spec_sat NUFix64 op a b.
Proof.
  intros Hd Ha Hb. destruct op; try discriminate; unfold ufix64_sat, spec_sat, exact_fix.
  - rewrite (uint_native_sat_correct 64 ltac:(lia) OAdd a b ltac:(auto) (ru64 _ Ha) (ru64 _ Hb)).
    unfold IntSpec.spec_sat, exact. rewrite clamp_nclampu64. reflexivity.
  - rewrite (uint_native_sat_correct 64 ltac:(lia) OSub a b ltac:(auto) (ru64 _ Ha) (ru64 _ Hb)).
    unfold IntSpec.spec_sat, exact. rewrite clamp_nclampu64. reflexivity.
  - apply ufix64_saturated_nclamp. destruct Ha as [Ha _], Hb as [Hb _]; simpl in Ha, Hb.
    apply quot_nonneg; [nia|discriminate].
Qed.

Theorem fix64_neg_correct a : n_in_range NFix64 a -> fix64_neg a = spec_neg NFix64 a.
Proof.
  intro Ha. unfold fix64_neg, spec_neg.
  rewrite (sint_native_neg_correct 64 ltac:(lia) a (r64 _ Ha)). apply fit_nfit64.
Qed.

(* ---- % ---- *)
(* the strict behaviour of the 64-bit types: fails exactly when the quotient is out of range *)
Definition mod_strict (k : nkind) (a b : Z) : res Z :=
  if b =? 0 then Err DivZero
  else match nfit k (Z.quot (a * scale k) b) with
       | Err e => Err e
       | Ok _ => Ok (Z.rem a b)
       end.

Lemma mod_strict_allowed k a b : spec_mod_allowed k a b (mod_strict k a b).
Proof.
  unfold spec_mod_allowed, mod_strict. destruct (b =? 0); [reflexivity|].
  destruct (nfit k (Z.quot (a * scale k) b)) eqn:E.
  - left. reflexivity.
  - right. exists e. split; reflexivity.
Qed.

(* (a*S ÷ b) ÷ S = a ÷ b *)
Lemma nested_trunc a b S : b <> 0 -> 0 < S -> Z.quot (Z.quot (a * S) b) S = Z.quot a b.
Proof.
  intros Hb HS. rewrite Z.quot_quot by lia. apply Z.quot_mul_cancel_r; lia.
Qed.

(* |(a ÷ b) * b| <= |a|, same sign as a *)
Lemma quot_mul_bounds a b : b <> 0 ->
  (0 <= a -> 0 <= Z.quot a b * b <= a) /\ (a <= 0 -> a <= Z.quot a b * b <= 0).
Proof.
  intro Hb. pose proof (Z.quot_rem' a b) as E.
  split; intro Ha.
  - pose proof (Z.rem_nonneg a b Hb Ha). pose proof (Z.rem_bound_pos_pos).
    assert (0 <= Z.quot a b * b).
    { destruct (Z.ltb_spec 0 b).
      - pose proof (Z.quot_pos a b Ha ltac:(lia)). nia.
      - assert (Z.quot a b <= 0).
        { replace b with (- (- b)) by lia. rewrite Z.quot_opp_r by lia.
          pose proof (Z.quot_pos a (- b) Ha ltac:(lia)). lia. }
        nia. }
    nia.
  - pose proof (Z.rem_nonpos a b Hb Ha).
    assert (Z.quot a b * b <= 0).
    { replace a with (- (- a)) by lia. rewrite Z.quot_opp_l by lia.
      destruct (Z.ltb_spec 0 b).
      - pose proof (Z.quot_pos (- a) b ltac:(lia) ltac:(lia)). nia.
      - assert (Z.quot (- a) b <= 0).
        { replace b with (- (- b)) by lia. rewrite Z.quot_opp_r by lia.
          pose proof (Z.quot_pos (- a) (- b) ltac:(lia) ltac:(lia)). lia. }
        nia. }
    nia.
Qed.

Theorem fix64_mod_correct a b :
  n_in_range NFix64 a -> n_in_range NFix64 b ->
  fix64_mod a b = mod_strict NFix64 a b.
Proof.
  intros Ha Hb. unfold fix64_mod, mod_strict.
  rewrite (fix64_arith_correct FDiv a b Ha Hb). unfold spec_arith, exact_fix.
  destruct (Z.eqb_spec b 0) as [Hz|Hz]; [reflexivity|].
  simpl scale.
  destruct (nfit NFix64 (Z.quot (a * e8) b)) as [q|e] eqn:Q; [|reflexivity].
  simpl bind.
  rewrite nfit_fix64 in Q. revert Q. brk; intro Q; try discriminate. inversion Q; subst q; clear Q.
  pose proof (nested_trunc a b e8 Hz ltac:(unfold e8; lia)) as N.
  set (Q := Z.quot (a * e8) b) in *.
  apply (proj1 (nin_fix64 _)) in Ha. apply (proj1 (nin_fix64 _)) in Hb.
  destruct (quot_mul_bounds a b Hz) as [P1 P2].
  assert (T: -92233720368 <= Z.quot Q e8 <= 92233720368) by (unfold e8; lia).
  rewrite (wrap_s64_id (Z.quot Q e8)) by lia.
  rewrite wrap_s64_id by (unfold e8; lia).
  assert (M: Z.quot (Z.quot Q e8 * e8 * b) e8 = Z.quot a b * b).
  { rewrite <- N. replace (Z.quot Q e8 * e8 * b) with (Z.quot Q e8 * b * e8) by ring.
    apply Z.quot_mul. discriminate. }
  assert (Hp: n_in_range NFix64 (Z.quot Q e8 * e8)).
  { apply nin_fix64. unfold e8 in *. lia. }
  rewrite (fix64_arith_correct FMul _ b Hp (proj2 (nin_fix64 _) Hb)).
  unfold spec_arith, exact_fix. simpl scale. rewrite M.
  assert (R: -9223372036854775808 <= Z.quot a b * b <= 9223372036854775807) by lia.
  rewrite nfit_fix64. brk; try lia. simpl bind.
  rewrite (fix64_arith_correct FSub a _ (proj2 (nin_fix64 _) Ha) (proj2 (nin_fix64 _) R)).
  unfold spec_arith, exact_fix.
  pose proof (Z.quot_rem' a b) as E.
  replace (a - Z.quot a b * b) with (Z.rem a b) by lia.
  rewrite nfit_fix64. brk; try lia. reflexivity.
Qed.

Theorem ufix64_mod_correct a b :
  n_in_range NUFix64 a -> n_in_range NUFix64 b ->
  ufix64_mod a b = mod_strict NUFix64 a b.
Proof.
  intros Ha Hb. unfold ufix64_mod, mod_strict.
  rewrite (ufix64_arith_correct FDiv a b Ha Hb). unfold spec_arith, exact_fix.
  destruct (Z.eqb_spec b 0) as [Hz|Hz]; [reflexivity|].
  simpl scale.
  destruct (nfit NUFix64 (Z.quot (a * e8) b)) as [q|e] eqn:Q; [|reflexivity].
  simpl bind.
  rewrite nfit_ufix64 in Q. revert Q. brk; intro Q; try discriminate. inversion Q; subst q; clear Q.
  pose proof (nested_trunc a b e8 Hz ltac:(unfold e8; lia)) as N.
  set (Q := Z.quot (a * e8) b) in *.
  apply (proj1 (nin_ufix64 _)) in Ha. apply (proj1 (nin_ufix64 _)) in Hb.
  destruct (quot_mul_bounds a b Hz) as [P1 _]. specialize (P1 ltac:(lia)).
  assert (D: Q / e8 = Z.quot Q e8) by (unfold e8; lia).
  rewrite D.
  assert (T: 0 <= Z.quot Q e8 <= 184467440737) by (unfold e8; lia).
  rewrite (wrap_u64_id (Z.quot Q e8)) by lia.
  rewrite wrap_u64_id by (unfold e8; lia).
  assert (M: Z.quot (Z.quot Q e8 * e8 * b) e8 = Z.quot a b * b).
  { rewrite <- N. replace (Z.quot Q e8 * e8 * b) with (Z.quot Q e8 * b * e8) by ring.
    apply Z.quot_mul. discriminate. }
  assert (Hp: n_in_range NUFix64 (Z.quot Q e8 * e8)).
  { apply nin_ufix64. unfold e8 in *. lia. }
  rewrite (ufix64_arith_correct FMul _ b Hp (proj2 (nin_ufix64 _) Hb)).
  unfold spec_arith, exact_fix. simpl scale. rewrite M.
  assert (R: 0 <= Z.quot a b * b <= 18446744073709551615) by lia.
  rewrite nfit_ufix64. brk; try lia. simpl bind.
  rewrite (ufix64_arith_correct FSub a _ (proj2 (nin_ufix64 _) Ha) (proj2 (nin_ufix64 _) R)).
  unfold spec_arith, exact_fix.
  pose proof (Z.quot_rem' a b) as E. pose proof (Z.rem_nonneg a b Hz ltac:(lia)).
  replace (a - Z.quot a b * b) with (Z.rem a b) by lia.
  rewrite nfit_ufix64. brk; try lia. reflexivity.
Qed.
