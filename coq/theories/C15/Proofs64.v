(* C15 proofs, part 1: Fix64 and UFix64 (code inside /repo; no library assumption). *)
From CV Require Import C15.Model C16.ProofsBase C16.ProofsFix Num.WordProofs Num.IntProofs.
From Coq Require Import ZifyBool.
Ltac Zify.zify_post_hook ::= Z.to_euclidean_division_equations.

Lemma r64 x : n_in_range NFix64 x -> in_range (KSigned 64) x.
Proof. intro H. exact H. Qed.
Lemma ru64 x : n_in_range NUFix64 x -> in_range (KUnsigned 64) x.
Proof. intro H. exact H. Qed.

Lemma fit_nfit64 z : fit (KSigned 64) z = nfit NFix64 z.
Proof. reflexivity. Qed.
Lemma fit_nfitu64 z : fit (KUnsigned 64) z = nfit NUFix64 z.
Proof. reflexivity. Qed.
Lemma clamp_nclamp64 z : clamp (KSigned 64) z = nclamp NFix64 z.
Proof. reflexivity. Qed.
Lemma clamp_nclampu64 z : clamp (KUnsigned 64) z = nclamp NUFix64 z.
Proof. reflexivity. Qed.

Lemma fix64_checked_nfit r : fix64_checked r = nfit NFix64 r.
Proof.
  unfold fix64_checked. rewrite nfit_fix64. consts.
  brk; try lia; try reflexivity. rewrite big_int64_id' by lia. reflexivity.
Qed.

Lemma nclamp_fix64 r : nclamp NFix64 r = Z.min 9223372036854775807 (Z.max (-9223372036854775808) r).
Proof. reflexivity. Qed.
Lemma nclamp_ufix64 r : nclamp NUFix64 r = Z.min 18446744073709551615 (Z.max 0 r).
Proof. reflexivity. Qed.

Lemma fix64_saturated_nclamp r : fix64_saturated r = Ok (nclamp NFix64 r).
Proof.
  unfold fix64_saturated. rewrite nclamp_fix64. consts.
  brk; f_equal; try lia. rewrite big_int64_id' by lia. lia.
Qed.

Lemma ufix64_checked_nfit r : 0 <= r -> ufix64_checked r = nfit NUFix64 r.
Proof.
  intro Hr. unfold ufix64_checked, is_uint64. rewrite nfit_ufix64. consts.
  brk; try lia; try reflexivity. rewrite big_uint64_id' by lia. reflexivity.
Qed.

Lemma ufix64_saturated_nclamp r : 0 <= r -> ufix64_saturated r = Ok (nclamp NUFix64 r).
Proof.
  intro Hr. unfold ufix64_saturated, is_uint64. rewrite nclamp_ufix64. consts.
  brk; f_equal; try lia. rewrite big_uint64_id' by lia. lia.
Qed.

Lemma quot_nonneg a b : 0 <= a -> 0 <= b -> 0 <= Z.quot a b.
Proof.
  intros. destruct (Z.eq_dec b 0) as [->|]. destruct a; simpl; lia.
  apply Z.quot_pos; lia.
Qed.

(* ---- + - * / ---- *)
Theorem fix64_arith_correct op a b :
  n_in_range NFix64 a -> n_in_range NFix64 b ->
  fix64_arith op a b = spec_arith NFix64 op a b.
Proof.
  intros Ha Hb. destruct op; unfold fix64_arith, spec_arith, exact_fix.
  - rewrite (sint_native_correct 64 ltac:(lia) OAdd a b (r64 _ Ha) (r64 _ Hb)). apply fit_nfit64.
  - rewrite (sint_native_correct 64 ltac:(lia) OSub a b (r64 _ Ha) (r64 _ Hb)). apply fit_nfit64.
  - apply fix64_checked_nfit.
  - destruct (b =? 0); [reflexivity|]. apply fix64_checked_nfit.
Qed.

Theorem ufix64_arith_correct op a b :
  n_in_range NUFix64 a -> n_in_range NUFix64 b ->
  ufix64_arith op a b = spec_arith NUFix64 op a b.
Proof.
  intros Ha Hb. destruct op; unfold ufix64_arith, spec_arith, exact_fix.
  - rewrite (uint_native_correct 64 ltac:(lia) OAdd a b (ru64 _ Ha) (ru64 _ Hb)). apply fit_nfitu64.
  - rewrite (uint_native_correct 64 ltac:(lia) OSub a b (ru64 _ Ha) (ru64 _ Hb)). apply fit_nfitu64.
  - apply ufix64_checked_nfit. destruct Ha as [Ha _], Hb as [Hb _]; simpl in Ha, Hb.
    apply quot_nonneg; [nia|discriminate].
  - destruct (b =? 0); [reflexivity|]. apply ufix64_checked_nfit.
    destruct Ha as [Ha _], Hb as [Hb _]; simpl in Ha, Hb. apply quot_nonneg; [simpl scale; unfold e8; lia|lia].
Qed.

(* ---- saturating ---- *)
Theorem fix64_sat_correct op a b :
  n_in_range NFix64 a -> n_in_range NFix64 b ->
  fix64_sat op a b = spec_sat NFix64 op a b.
Proof.
  intros Ha Hb. destruct op; unfold fix64_sat, spec_sat, exact_fix.
  - rewrite (sint_native_sat_correct 64 ltac:(lia) OAdd a b ltac:(discriminate) (r64 _ Ha) (r64 _ Hb)).
    unfold IntSpec.spec_sat, exact. rewrite clamp_nclamp64. reflexivity.
  - rewrite (sint_native_sat_correct 64 ltac:(lia) OSub a b ltac:(discriminate) (r64 _ Ha) (r64 _ Hb)).
    unfold IntSpec.spec_sat, exact. rewrite clamp_nclamp64. reflexivity.
  - apply fix64_saturated_nclamp.
  - destruct (b =? 0); [reflexivity|]. apply fix64_saturated_nclamp.
Qed.

Theorem ufix64_sat_correct op a b :
  sat_declared NUFix64 op = true -> n_in_range NUFix64 a -> n_in_range NUFix64 b ->
  ufix64_sat op a b = spec_sat NUFix64 op a b.
Proof.
  intros Hd Ha Hb. destruct op; try discriminate; unfold ufix64_sat, spec_sat, exact_fix.
  - rewrite (uint_native_sat_correct 64 ltac:(lia) OAdd a b ltac:(auto) (ru64 _ Ha) (ru64 _ Hb)).
    unfold IntSpec.spec_sat, exact. rewrite clamp_nclampu64. reflexivity.
  - rewrite (uint_native_sat_correct 64 ltac:(lia) OSub a b ltac:(auto) (ru64 _ Ha) (ru64 _ Hb)).
    unfold IntSpec.spec_sat, exact. rewrite clamp_nclampu64. reflexivity.
  - apply ufix64_saturated_nclamp. destruct Ha as [Ha _], Hb as [Hb _]; simpl in Ha, Hb.
    apply quot_nonneg; [nia|discriminate].
Qed.

Theorem fix64_neg_correct a : n_in_range NFix64 a -> fix64_neg a = spec_neg NFix64 a.
Proof.
  intro Ha. unfold fix64_neg, spec_neg.
  rewrite (sint_native_neg_correct 64 ltac:(lia) a (r64 _ Ha)). apply fit_nfit64.
Qed.

(* ---- % ---- *)
(* the strict behaviour of the 64-bit types: fails exactly when the quotient is out of range *)
Definition mod_strict (k : nkind) (a b : Z) : res Z :=
  if b =? 0 then Err DivZero
  else match nfit k (Z.quot (a * scale k) b) with
       | Err e => Err e
       | Ok _ => Ok (Z.rem a b)
       end.

Lemma mod_strict_allowed k a b : spec_mod_allowed k a b (mod_strict k a b).
Proof.
  unfold spec_mod_allowed, mod_strict. destruct (b =? 0); [reflexivity|].
  destruct (nfit k (Z.quot (a * scale k) b)) eqn:E.
  - left. reflexivity.
  - right. exists e. split; reflexivity.
Qed.

(* (a*S ÷ b) ÷ S = a ÷ b *)
Lemma nested_trunc a b S : b <> 0 -> 0 < S -> Z.quot (Z.quot (a * S) b) S = Z.quot a b.
Proof.
  intros Hb HS. rewrite Z.quot_quot by lia. apply Z.quot_mul_cancel_r; lia.
Qed.

(* |(a ÷ b) * b| <= |a|, same sign as a *)
Lemma quot_mul_bounds a b : b <> 0 ->
  (0 <= a -> 0 <= Z.quot a b * b <= a) /\ (a <= 0 -> a <= Z.quot a b * b <= 0).
Proof.
  intro Hb. pose proof (Z.quot_rem' a b) as E.
  split; intro Ha.
  - pose proof (Z.rem_nonneg a b Hb Ha). pose proof (Z.rem_bound_pos_pos).
    assert (0 <= Z.quot a b * b).
    { destruct (Z.ltb_spec 0 b).
      - pose proof (Z.quot_pos a b Ha ltac:(lia)). nia.
      - assert (Z.quot a b <= 0).
        { replace b with (- (- b)) by lia. rewrite Z.quot_opp_r by lia.
          pose proof (Z.quot_pos a (- b) Ha ltac:(lia)). lia. }
        nia. }
    nia.
  - pose proof (Z.rem_nonpos a b Hb Ha).
    assert (Z.quot a b * b <= 0).
    { replace a with (- (- a)) by lia. rewrite Z.quot_opp_l by lia.
      destruct (Z.ltb_spec 0 b).
      - pose proof (Z.quot_pos (- a) b ltac:(lia) ltac:(lia)). nia.
      - assert (Z.quot (- a) b <= 0).
        { replace b with (- (- b)) by lia. rewrite Z.quot_opp_r by lia.
          pose proof (Z.quot_pos (- a) (- b) ltac:(lia) ltac:(lia)). lia. }
        nia. }
    nia.
Qed.

Lemma trunc_part_bounds Q lo hi : lo <= Q <= hi -> lo <= 0 <= hi ->
  lo <= Z.quot Q e8 * e8 <= hi /\ (0 <= Q -> 0 <= Z.quot Q e8) /\ Z.abs (Z.quot Q e8) <= Z.abs Q.
Proof. intros. unfold e8. lia. Qed.

Lemma quot_e8_div Q : 0 <= Q -> Q / e8 = Z.quot Q e8.
Proof. intros. unfold e8. lia. Qed.

Theorem fix64_mod_correct a b :
  n_in_range NFix64 a -> n_in_range NFix64 b ->
  fix64_mod a b = mod_strict NFix64 a b.
Proof.
  intros Ha Hb. unfold fix64_mod, mod_strict.
  rewrite (fix64_arith_correct FDiv a b Ha Hb). unfold spec_arith, exact_fix.
  destruct (Z.eqb_spec b 0) as [Hz|Hz]; [reflexivity|].
  simpl scale.
  destruct (nfit NFix64 (Z.quot (a * e8) b)) as [q|e] eqn:Q; [|reflexivity].
  cbn [bind].
  assert (HQ: q = Z.quot (a * e8) b /\ -9223372036854775808 <= q <= 9223372036854775807).
  { rewrite nfit_fix64 in Q. revert Q. brk; intro Q; try discriminate. inversion Q. lia. }
  destruct HQ as [Eq HQ]. clear Q.
  pose proof (nested_trunc a b e8 Hz ltac:(reflexivity)) as N. rewrite <- Eq in N.
  destruct (trunc_part_bounds q _ _ HQ ltac:(lia)) as [T1 _].
  assert (T0: -9223372036854775808 <= Z.quot q e8 <= 9223372036854775807).
  { clear - HQ. unfold e8. lia. }
  rewrite (wrap_s64_id (Z.quot q e8)) by exact T0.
  rewrite wrap_s64_id by exact T1.
  assert (M: Z.quot (Z.quot q e8 * e8 * b) e8 = Z.quot a b * b).
  { rewrite <- N. replace (Z.quot q e8 * e8 * b) with (Z.quot q e8 * b * e8) by ring.
    apply Z.quot_mul. discriminate. }
  rewrite (fix64_arith_correct FMul _ b (proj2 (nin_fix64 _) T1) Hb).
  unfold spec_arith, exact_fix. simpl scale. rewrite M.
  pose proof (proj1 (nin_fix64 _) Ha) as Ha'.
  destruct (quot_mul_bounds a b Hz) as [P1 P2].
  assert (R: -9223372036854775808 <= Z.quot a b * b <= 9223372036854775807).
  { clear - Ha' P1 P2. destruct (Z.leb_spec 0 a); [specialize (P1 H)|specialize (P2 ltac:(lia))]; lia. }
  rewrite nfit_fix64.
  destruct (Z.ltb_spec (Z.quot a b * b) (-9223372036854775808)); [lia|].
  destruct (Z.gtb_spec (Z.quot a b * b) 9223372036854775807); [lia|].
  cbn [bind].
  rewrite (fix64_arith_correct FSub a _ Ha (proj2 (nin_fix64 _) R)).
  unfold spec_arith, exact_fix.
  pose proof (Z.quot_rem' a b) as E.
  assert (E': a - Z.quot a b * b = Z.rem a b) by (clear - E; lia).
  rewrite E'.
  assert (RR: -9223372036854775808 <= Z.rem a b <= 9223372036854775807).
  { rewrite <- E'. clear - Ha' P1 P2.
    destruct (Z.leb_spec 0 a); [specialize (P1 H)|specialize (P2 ltac:(lia))]; lia. }
  rewrite nfit_fix64.
  destruct (Z.ltb_spec (Z.rem a b) (-9223372036854775808)); [lia|].
  destruct (Z.gtb_spec (Z.rem a b) 9223372036854775807); [lia|]. reflexivity.
Qed.

Theorem ufix64_mod_correct a b :
  n_in_range NUFix64 a -> n_in_range NUFix64 b ->
  ufix64_mod a b = mod_strict NUFix64 a b.
Proof.
  intros Ha Hb. unfold ufix64_mod, mod_strict.
  rewrite (ufix64_arith_correct FDiv a b Ha Hb). unfold spec_arith, exact_fix.
  destruct (Z.eqb_spec b 0) as [Hz|Hz]; [reflexivity|].
  simpl scale.
  destruct (nfit NUFix64 (Z.quot (a * e8) b)) as [q|e] eqn:Q; [|reflexivity].
  cbn [bind].
  assert (HQ: q = Z.quot (a * e8) b /\ 0 <= q <= 18446744073709551615).
  { rewrite nfit_ufix64 in Q. revert Q. brk; intro Q; try discriminate. inversion Q. lia. }
  destruct HQ as [Eq HQ]. clear Q.
  pose proof (nested_trunc a b e8 Hz ltac:(reflexivity)) as N. rewrite <- Eq in N.
  rewrite (quot_e8_div q) by lia.
  destruct (trunc_part_bounds q _ _ HQ ltac:(lia)) as [T1 [T2 _]]. specialize (T2 ltac:(lia)).
  assert (T0: 0 <= Z.quot q e8 <= 18446744073709551615).
  { clear - HQ. unfold e8. lia. }
  rewrite (wrap_u64_id (Z.quot q e8)) by exact T0.
  rewrite wrap_u64_id by exact T1.
  assert (M: Z.quot (Z.quot q e8 * e8 * b) e8 = Z.quot a b * b).
  { rewrite <- N. replace (Z.quot q e8 * e8 * b) with (Z.quot q e8 * b * e8) by ring.
    apply Z.quot_mul. discriminate. }
  rewrite (ufix64_arith_correct FMul _ b (proj2 (nin_ufix64 _) T1) Hb).
  unfold spec_arith, exact_fix. simpl scale. rewrite M.
  pose proof (proj1 (nin_ufix64 _) Ha) as Ha'.
  destruct (quot_mul_bounds a b Hz) as [P1 _]. specialize (P1 ltac:(lia)).
  assert (R: 0 <= Z.quot a b * b <= 18446744073709551615) by (clear - Ha' P1; lia).
  rewrite nfit_ufix64.
  destruct (Z.ltb_spec (Z.quot a b * b) 0); [lia|].
  destruct (Z.gtb_spec (Z.quot a b * b) 18446744073709551615); [lia|].
  cbn [bind].
  rewrite (ufix64_arith_correct FSub a _ Ha (proj2 (nin_ufix64 _) R)).
  unfold spec_arith, exact_fix.
  pose proof (Z.quot_rem' a b) as E.
  assert (E': a - Z.quot a b * b = Z.rem a b) by (clear - E; lia).
  rewrite E'.
  assert (RR: 0 <= Z.rem a b <= 18446744073709551615).
  { rewrite <- E'. clear - Ha' P1. lia. }
  rewrite nfit_ufix64.
  destruct (Z.ltb_spec (Z.rem a b) 0); [lia|].
  destruct (Z.gtb_spec (Z.rem a b) 18446744073709551615); [lia|]. reflexivity.
Qed.
