(* C48: proofs. *)
From CV Require Import C48.Model.
Import ListNotations.

(* ------------------------------------------------------------------ optional layers *)

Fixpoint wrap (a : nat) (x : val) : val := match a with O => x | S n => VSome (wrap n x) end.
Fixpoint optn (a : nat) (t : ty) : ty := match a with O => t | S n => TOpt (optn n t) end.

Lemma wrap_some a x : wrap a (VSome x) = wrap (S a) x.
Proof. induction a; simpl; [reflexivity | rewrite IHa; reflexivity]. Qed.

Lemma optn_opt a t : optn a (TOpt t) = optn (S a) t.
Proof. induction a; simpl; [reflexivity | rewrite IHa; reflexivity]. Qed.

Lemma wf_wrap D a x : wf_val D (wrap a x) = wf_val D x.
Proof. induction a; simpl; auto. Qed.

Lemma type_of_wrap a x : type_of (wrap a x) = optn a (type_of x).
Proof. induction a; simpl; [reflexivity | rewrite IHa; reflexivity]. Qed.

Lemma subtype_opt_opt s t : subtype (TOpt s) (TOpt t) = subtype s t.
Proof. reflexivity. Qed.

Lemma subtype_optn a s t : subtype (optn a s) (optn a t) = subtype s t.
Proof. induction a; simpl optn; [reflexivity | rewrite subtype_opt_opt; exact IHa]. Qed.

Lemma boxed_wrap a x t : boxed (wrap a x) (optn a t) = boxed x t.
Proof. induction a; simpl; auto. Qed.

Lemma has_type_wrap D a x t :
  has_type D (wrap a x) (optn a t) = wf_val D x && subtype (type_of x) t && boxed x t.
Proof.
  unfold has_type. rewrite wf_wrap, type_of_wrap, subtype_optn, boxed_wrap. reflexivity.
Qed.

Lemma subtype_never t : subtype TNever t = true.
Proof. destruct t; reflexivity. Qed.

Lemma nil_has_type D a t : has_type D VNil (optn a (TOpt t)) = true.
Proof.
  unfold has_type. simpl wf_val. simpl type_of.
  destruct a; simpl optn; rewrite subtype_opt_opt, subtype_never; reflexivity.
Qed.

(* a non-optional, non-bottom type below T? is below T *)
Lemma subtype_unopt s t :
  match s with TOpt _ | TNever => False | _ => True end ->
  subtype s (TOpt t) = subtype s t.
Proof. destruct s; simpl; intros H; try contradiction; reflexivity. Qed.

Lemma boxed_nonopt x t : match t with TOpt _ => False | _ => True end -> boxed x t = true.
Proof. destruct t; simpl; intros H; try contradiction; reflexivity. Qed.

(* ------------------------------------------------------------------ BoxOptional is correct *)

Lemma box_ok D : forall t depth value inner,
  value = wrap depth inner ->
  wf_val D inner = true -> subtype (type_of inner) t = true ->
  has_type D (box value inner t) (optn depth t) = true.
Proof.
  induction t; intros depth value inner Hv Hwf Hsub;
    try (simpl box; subst value; rewrite has_type_wrap, Hwf, Hsub; reflexivity).
  (* t = TOpt t *)
  simpl box. rewrite optn_opt.
  assert (Hother : match type_of inner with TOpt _ | TNever => False | _ => True end ->
                   match inner with VSome _ | VNil => False | _ => True end ->
                   has_type D (box (VSome value) inner t) (optn (S depth) t) = true).
  { intros Hty _. apply IHt; auto.
    - subst value. reflexivity.
    - rewrite <- (subtype_unopt _ t Hty). exact Hsub. }
  destruct inner; try (apply Hother; simpl; exact I).
  - (* nil *) rewrite <- optn_opt. apply nil_has_type.
  - (* some *)
    apply IHt.
    + subst value. apply wrap_some.
    + exact Hwf.
    + simpl type_of in Hsub. rewrite subtype_opt_opt in Hsub. exact Hsub.
  - (* array: its own static type is an array type *)
    apply Hother; [|exact I]. simpl. simpl in Hwf. destruct t0; try discriminate; exact I.
Qed.

Lemma convert_and_box_ok D v t :
  wf_val D v = true -> subtype (type_of v) t = true -> has_type D (convert_and_box v t) t = true.
Proof.
  intros Hwf Hsub. unfold convert_and_box. apply (box_ok D t 0 v v); auto.
Qed.

(* ------------------------------------------------------------------ T1: emitted events are well typed *)

Lemma convert_args_length ps : forall vs, length vs = length ps -> length (convert_args ps vs) = length ps.
Proof.
  induction ps as [|[n t] pr IH]; intros [|v vr] H; simpl in *; try discriminate; auto.
Qed.

Lemma args_ok_length D ps : forall vs, args_ok D ps vs = true -> length vs = length ps.
Proof.
  induction ps as [|[n t] pr IH]; intros [|v vr] H; simpl in *; try discriminate; auto.
  apply andb_true_iff in H as [_ H]. f_equal. auto.
Qed.

Lemma fields_typed_convert D ps : forall vs,
  args_ok D ps vs = true -> fields_typed D ps (zip_fields ps (convert_args ps vs)) = true.
Proof.
  induction ps as [|[n t] pr IH]; intros [|v vr] H; simpl in *; try discriminate; auto.
  apply andb_true_iff in H as [H Hr]. apply andb_true_iff in H as [Hwf Hsub].
  rewrite Z.eqb_refl, (convert_and_box_ok D v t Hwf Hsub), (IH vr Hr). reflexivity.
Qed.

Theorem emit_well_typed D d args :
  args_ok D (ev_params d) args = true ->
  exists e, emit d args = Ok e /\
            e_type e = ev_id d /\
            fields_typed D (ev_params d) (e_fields e) = true.
Proof.
  intros H. unfold emit.
  pose proof (args_ok_length D _ _ H) as Hlen.
  rewrite (convert_args_length _ _ Hlen), Hlen, Nat.eqb_refl. simpl.
  eexists. split; [reflexivity|]. split; [reflexivity|]. simpl.
  apply fields_typed_convert; auto.
Qed.

(* what fields_typed means *)
Lemma fields_typed_spec D ps : forall fs,
  fields_typed D ps fs = true ->
  map fst fs = map fst ps /\
  Forall2 (fun f p => has_type D (snd f) (snd p) = true) fs ps.
Proof.
  induction ps as [|[n t] pr IH]; intros [|[m v] fr] H; simpl in *; try discriminate.
  - split; [reflexivity | constructor].
  - apply andb_true_iff in H as [H Hr]. apply andb_true_iff in H as [Hn Ht].
    apply Z.eqb_eq in Hn. destruct (IH fr Hr) as [Hm Hf]. split.
    + subst; f_equal; auto.
    + constructor; auto.
Qed.

(* an emit with a wrong number of arguments never reaches the host *)
Theorem emit_count_mismatch d args :
  length args <> length (ev_params d) -> emit d args = Err UserOther.
Proof.
  intros H. unfold emit. apply Nat.eqb_neq in H. rewrite H, andb_false_r. reflexivity.
Qed.

(* ------------------------------------------------------------------ T2: destruction order *)

Section RvalInd.
Variable P : rval -> Prop.
Hypothesis step : forall d fs ns, Forall P ns -> P (RVal d fs ns).
Fixpoint rval_ind2 (r : rval) : P r :=
  match r with
  | RVal d fs ns =>
      step d fs ns ((fix all (l : list rval) : Forall P l :=
                       match l with
                       | [] => Forall_nil P
                       | x :: rest => Forall_cons x (rval_ind2 x) (all rest)
                       end) ns)
  end.
End RvalInd.

Definition nested_loop (ctor : rval -> destroy_event -> res event) (R : list rdecl) :=
  fix all (l : list rval) : res (list event) :=
    match l with
    | [] => Ok []
    | n :: rest =>
        match destroy ctor R n with
        | Err x => Err x
        | Ok t => match all rest with Ok ts => Ok (t ++ ts) | Err x => Err x end
        end
    end.

Definition post_loop := fix all (l : list rval) : list rval :=
  match l with [] => [] | n :: rest => postorder n ++ all rest end.

Lemma destroy_unfold ctor R d fs ns :
  destroy ctor R (RVal d fs ns) =
  match nth_error R d with
  | None => Err Internal
  | Some des =>
      match map_res (ctor (RVal d fs ns)) des with
      | Err x => Err x
      | Ok events =>
          match nested_loop ctor R ns with
          | Err x => Err x
          | Ok nested_events => Ok (nested_events ++ rev events)
          end
      end
  end.
Proof. reflexivity. Qed.

Lemma postorder_unfold d fs ns : postorder (RVal d fs ns) = post_loop ns ++ [RVal d fs ns].
Proof. reflexivity. Qed.

Lemma concat_res_app {A} (l1 l2 : list (res (list A))) :
  concat_res (l1 ++ l2) =
  match concat_res l1 with
  | Err e => Err e
  | Ok x => match concat_res l2 with Ok y => Ok (x ++ y) | Err e => Err e end
  end.
Proof.
  induction l1 as [|[x|e] l1 IH]; simpl.
  - destruct (concat_res l2); reflexivity.
  - rewrite IH. destruct (concat_res l1); [|reflexivity].
    destruct (concat_res l2); [rewrite app_assoc|]; reflexivity.
  - reflexivity.
Qed.

(* whenever the destruction succeeds it delivers exactly the events of the specification:
   every resource of the tree once, nested resources (recursively, in field order) first, and for
   each resource its events in reverse constructor order *)
Theorem destroy_postorder ctor R r t :
  destroy ctor R r = Ok t -> destroy_spec ctor R r = Ok t.
Proof.
  revert t. induction r as [d fs ns IH] using rval_ind2. intros t H.
  rewrite destroy_unfold in H. unfold destroy_spec. rewrite postorder_unfold, map_app, concat_res_app.
  destruct (nth_error R d) as [des|] eqn:Ed; [|discriminate].
  destruct (map_res (ctor (RVal d fs ns)) des) as [events|x] eqn:Em; [|discriminate].
  destruct (nested_loop ctor R ns) as [nev|x] eqn:En; [|discriminate].
  inversion H; subst t. clear H.
  assert (Hn : concat_res (map (own_events ctor R) (post_loop ns)) = Ok nev).
  { clear Em Ed. revert nev En. induction IH as [|n rest Hn Hrest IHrest]; intros nev En; simpl in *.
    - inversion En; reflexivity.
    - destruct (destroy ctor R n) as [tn|x] eqn:Edn; [|discriminate].
      destruct (nested_loop ctor R rest) as [ts|x] eqn:Er; [|discriminate].
      inversion En; subst nev. rewrite map_app, concat_res_app.
      pose proof (Hn tn eq_refl) as Hs. unfold destroy_spec in Hs. rewrite Hs.
      rewrite (IHrest ts eq_refl). reflexivity. }
  rewrite Hn. simpl. unfold own_events. simpl. rewrite Ed, Em. rewrite app_nil_r. reflexivity.
Qed.

(* ------------------------------------------------------------------ T3: default destruction events are well typed (VM shape) *)

Definition default_args_ok (D : struct_env) (r : rval) (de : destroy_event) : Prop :=
  forall vs, eval_args r (de_params de) = Ok vs -> args_ok D (ev_params (decl_of de)) vs = true.

Theorem ctor_vm_well_typed D r de e :
  default_args_ok D r de ->
  ctor_vm r de = Ok e ->
  e_type e = de_id de /\ fields_typed D (ev_params (decl_of de)) (e_fields e) = true.
Proof.
  intros Hok H. unfold ctor_vm in H.
  destruct (eval_args r (de_params de)) as [vs|x] eqn:Ev; [|discriminate].
  destruct (emit_well_typed D (decl_of de) vs (Hok vs Ev)) as [e' [He [Hid Hf]]].
  rewrite He in H. inversion H; subst e'. split; auto.
Qed.

(* the default arguments are the values of the expressions on the resource being destroyed *)
Lemma eval_args_length r ps : forall vs, eval_args r ps = Ok vs -> length vs = length ps.
Proof.
  induction ps as [|[[n t] e] pr IH]; intros vs H; simpl in H.
  - inversion H; reflexivity.
  - destruct (eval_dexp r e); [|discriminate].
    destruct (eval_args r pr) as [vr|]; [|discriminate]. inversion H; subst. simpl. f_equal. auto.
Qed.

Lemma zip_snd ps : forall fs, length fs = length ps -> map snd (zip_fields ps fs) = fs.
Proof.
  induction ps as [|[n t] pr IH]; intros [|v vr] Hl; simpl in *; try discriminate; auto.
  f_equal. apply IH. lia.
Qed.

Theorem ctor_vm_args r de e :
  ctor_vm r de = Ok e ->
  exists vs, eval_args r (de_params de) = Ok vs /\
             map snd (e_fields e) = convert_args (ev_params (decl_of de)) vs.
Proof.
  intros H. unfold ctor_vm in H.
  destruct (eval_args r (de_params de)) as [vs|x] eqn:Ev; [|discriminate].
  exists vs. split; auto. unfold emit in H.
  destruct (_ && _) eqn:Eb; [|discriminate]. inversion H; subst e. simpl.
  apply andb_true_iff in Eb as [Eb _]. apply Nat.eqb_eq in Eb.
  apply zip_snd. exact Eb.
Qed.

(* ------------------------------------------------------------------ the interpreter's default events *)

(* guard excluding the defect: every evaluated default argument is already boxed to its parameter type *)
Fixpoint args_boxed (ps : list (name * ty)) (vs : list val) : bool :=
  match ps, vs with
  | [], [] => true
  | (_, t) :: pr, v :: vr => boxed v t && args_boxed pr vr
  | _, _ => false
  end.

Lemma fields_typed_plain D ps : forall vs,
  args_ok D ps vs = true -> args_boxed ps vs = true ->
  fields_typed D ps (zip_fields ps vs) = true.
Proof.
  induction ps as [|[n t] pr IH]; intros [|v vr] H Hb; simpl in *; try discriminate; auto.
  apply andb_true_iff in H as [H Hr]. apply andb_true_iff in H as [Hwf Hsub].
  apply andb_true_iff in Hb as [Hb Hbr].
  unfold has_type. rewrite Z.eqb_refl, Hwf, Hsub, Hb, (IH vr Hr Hbr). reflexivity.
Qed.

Theorem ctor_interp_well_typed_partial D r de e :
  default_args_ok D r de ->
  (forall vs, eval_args r (de_params de) = Ok vs -> args_boxed (ev_params (decl_of de)) vs = true) ->
  ctor_interp r de = Ok e ->
  e_type e = de_id de /\ fields_typed D (ev_params (decl_of de)) (e_fields e) = true.
Proof.
  intros Hok Hbx H. unfold ctor_interp in H.
  destruct (eval_args r (de_params de)) as [vs|x] eqn:Ev; [|discriminate].
  destruct (Nat.eqb (length vs) (length (de_params de))); [|discriminate].
  inversion H; subst e. simpl. split; [reflexivity|].
  apply fields_typed_plain; auto.
Qed.

(* the full statement, kept as a definition: it is refuted below *)
Definition ctor_interp_well_typed_statement : Prop :=
  forall D r de e, default_args_ok D r de -> ctor_interp r de = Ok e ->
    fields_typed D (ev_params (decl_of de)) (e_fields e) = true.

(* resource R { event ResourceDestroyed(c: Int? = 5) }: the interpreter delivers c = 5, not Optional(5) *)
Definition refute_event : destroy_event :=
  DestroyEvent 1 [(2, TOpt (TNum NInt), DLit (VNum NInt 5))].

Theorem ctor_interp_well_typed_refuted : ~ ctor_interp_well_typed_statement.
Proof.
  intros H.
  specialize (H [] (RVal 0 [] []) refute_event
                (Event 1 [(2, VNum NInt 5)])).
  assert (Hok : default_args_ok [] (RVal 0 [] []) refute_event).
  { intros vs Hv. vm_compute in Hv. inversion Hv; subst. reflexivity. }
  specialize (H Hok eq_refl). vm_compute in H. discriminate.
Qed.
