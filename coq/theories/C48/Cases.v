(* Check function used by the per-run case files of C48. *)
From CV Require Export C48.Model.

Inductive step :=
| StEmit (d : event_decl) (args : list val)
| StDestroy (R : list rdecl) (r : rval).

Definition run_step (ctor : rval -> destroy_event -> res event) (s : step) : res (list event) :=
  match s with
  | StEmit d args => match emit d args with Ok e => Ok [e] | Err x => Err x end
  | StDestroy R r => destroy ctor R r
  end.

Definition run_steps ctor (l : list step) : res (list event) := concat_res (map (run_step ctor) l).

Fixpoint zlist_eqb (a b : list Z) : bool :=
  match a, b with
  | [], [] => true
  | x :: r, y :: s => (x =? y) && zlist_eqb r s
  | _, _ => false
  end.

Definition dom_eqb (a b : dom) : bool :=
  match a, b with DStorage, DStorage | DPublic, DPublic | DPrivate, DPrivate => true | _, _ => false end.

Fixpoint val_eqb (a b : val) : bool :=
  match a, b with
  | VNum k x, VNum k' y => numk_eqb k k' && (x =? y)
  | VBool x, VBool y => Bool.eqb x y
  | VStr x, VStr y | VChar x, VChar y | VMeta x, VMeta y => x =? y
  | VAddr x, VAddr y => x =? y
  | VPath d x, VPath d' y => dom_eqb d d' && (x =? y)
  | VNil, VNil => true
  | VSome x, VSome y => val_eqb x y
  | VArr t l, VArr t' l' =>
      ty_eqb t t' &&
      (fix eq (l l' : list val) := match l, l' with
         | [], [] => true | x :: r, y :: s => val_eqb x y && eq r s | _, _ => false end) l l'
  | VDict k v l, VDict k' v' l' =>
      ty_eqb k k' && ty_eqb v v' &&
      (fix eq (l l' : list (val * val)) := match l, l' with
         | [], [] => true
         | (a1, b1) :: r, (a2, b2) :: s => val_eqb a1 a2 && val_eqb b1 b2 && eq r s
         | _, _ => false end) l l'
  | VStruct i l, VStruct j l' =>
      Nat.eqb i j &&
      (fix eq (l l' : list val) := match l, l' with
         | [], [] => true | x :: r, y :: s => val_eqb x y && eq r s | _, _ => false end) l l'
  | _, _ => false
  end.

Fixpoint fields_eqb (a b : list (name * val)) : bool :=
  match a, b with
  | [], [] => true
  | (n, v) :: r, (m, w) :: s => (n =? m) && val_eqb v w && fields_eqb r s
  | _, _ => false
  end.

Definition event_eqb (a b : event) : bool :=
  (e_type a =? e_type b) && fields_eqb (e_fields a) (e_fields b).

Fixpoint events_eqb (a b : list event) : bool :=
  match a, b with
  | [], [] => true
  | x :: r, y :: s => event_eqb x y && events_eqb r s
  | _, _ => false
  end.

Definition step_ok (D : struct_env) (s : step) : bool :=
  match s with
  | StEmit d args => args_ok D (ev_params d) args
  | StDestroy _ _ => true
  end.

(* (struct declarations, steps, events received from the interpreter, from the VM) *)
Definition check_case (c : struct_env * list step * list event * list event) : bool :=
  let '(D, steps, oi, ov) := c in
  forallb (step_ok D) steps
  && match run_steps ctor_interp steps with Ok evs => events_eqb evs oi | Err _ => false end
  && match run_steps ctor_vm steps with Ok evs => events_eqb evs ov | Err _ => false end.
