(* C48  Emitted events conform to their declared types: executable model (definitions only).

   Values and types of the exportable fragment (all concrete number kinds, abstract number
   supertypes, Bool, String, Character, Address, paths, Type values, optionals, variable/constant
   sized arrays, dictionaries, structs).  Code-shaped parts:
     - interpreter.BoxOptional (the loop)                          -> box
     - interpreter.ConvertAndBox as used by VisitEmitStatement     -> convert_and_box / emit
       (on checker-accepted arguments of this fragment `convert` is the identity: it converts only
        when the value's type differs from a concrete numeric/address target, or strips
        authorizations of references, neither of which occurs here)
     - runtime.EmitEventFields (field count check, one host call, declared type)  -> emit
     - CompositeValue.Destroy: default-event arguments evaluated first, nested resources destroyed
       (their events first), own events emitted LIFO by the deferred calls   -> destroy
     - the two engines differ on default arguments: the VM passes them through the event
       constructor call (ConvertAndBox to the parameter type), the interpreter's event initializer
       stores the evaluated default arguments as they are                   -> ctor_vm / ctor_interp
   Specification: has_type (runtime type is a subtype of the declared type, the value is boxed to
   the declared optional depth, containers are well-formed), postorder. *)
From CV Require Export Base.Prelude.

Inductive numk :=
| NInt | NUInt
| NInt8 | NInt16 | NInt32 | NInt64 | NInt128 | NInt256
| NUInt8 | NUInt16 | NUInt32 | NUInt64 | NUInt128 | NUInt256
| NWord8 | NWord16 | NWord32 | NWord64 | NWord128 | NWord256
| NFix64 | NUFix64.

Inductive absk :=
| ANumber | ASignedNumber | AInteger | ASignedInteger | AFixedSizeUnsignedInteger
| AFixedPoint | ASignedFixedPoint.

Inductive pathk := PStorage | PPublic | PPrivate | PCapability | PAnyPath.
Inductive dom := DStorage | DPublic | DPrivate.

Inductive ty :=
| TNever | TNum (k : numk) | TAbs (a : absk) | TBool | TString | TChar | TAddress
| TPath (k : pathk) | TMeta
| TOpt (t : ty) | TVArr (t : ty) | TCArr (n : nat) (t : ty) | TDict (k v : ty) | TStruct (id : nat).

Inductive val :=
| VNum (k : numk) (z : Z)              (* fixed-point values: the raw scaled integer *)
| VBool (b : bool) | VStr (s : Z) | VChar (s : Z) | VAddr (z : Z)   (* text: bytes packed into one Z *)
| VPath (d : dom) (id : Z) | VMeta (s : Z)
| VNil | VSome (v : val)
| VArr (t : ty) (l : list val)         (* t: the array's own static type (TVArr e / TCArr n e) *)
| VDict (k v : ty) (l : list (val * val))
| VStruct (id : nat) (fs : list val).

(* ------------------------------------------------------------------ types *)

Definition numk_eqb (a b : numk) : bool :=
  match a, b with
  | NInt, NInt | NUInt, NUInt | NInt8, NInt8 | NInt16, NInt16 | NInt32, NInt32 | NInt64, NInt64
  | NInt128, NInt128 | NInt256, NInt256 | NUInt8, NUInt8 | NUInt16, NUInt16 | NUInt32, NUInt32
  | NUInt64, NUInt64 | NUInt128, NUInt128 | NUInt256, NUInt256 | NWord8, NWord8 | NWord16, NWord16
  | NWord32, NWord32 | NWord64, NWord64 | NWord128, NWord128 | NWord256, NWord256
  | NFix64, NFix64 | NUFix64, NUFix64 => true
  | _, _ => false
  end.

Definition absk_eqb (a b : absk) : bool :=
  match a, b with
  | ANumber, ANumber | ASignedNumber, ASignedNumber | AInteger, AInteger
  | ASignedInteger, ASignedInteger | AFixedSizeUnsignedInteger, AFixedSizeUnsignedInteger
  | AFixedPoint, AFixedPoint | ASignedFixedPoint, ASignedFixedPoint => true
  | _, _ => false
  end.

Definition pathk_eqb (a b : pathk) : bool :=
  match a, b with
  | PStorage, PStorage | PPublic, PPublic | PPrivate, PPrivate | PCapability, PCapability
  | PAnyPath, PAnyPath => true
  | _, _ => false
  end.

Fixpoint ty_eqb (a b : ty) : bool :=
  match a, b with
  | TNever, TNever | TBool, TBool | TString, TString | TChar, TChar | TAddress, TAddress
  | TMeta, TMeta => true
  | TNum x, TNum y => numk_eqb x y
  | TAbs x, TAbs y => absk_eqb x y
  | TPath x, TPath y => pathk_eqb x y
  | TOpt x, TOpt y => ty_eqb x y
  | TVArr x, TVArr y => ty_eqb x y
  | TCArr n x, TCArr m y => Nat.eqb n m && ty_eqb x y
  | TDict k v, TDict k' v' => ty_eqb k k' && ty_eqb v v'
  | TStruct i, TStruct j => Nat.eqb i j
  | _, _ => false
  end.

Definition is_signed_int (k : numk) : bool :=
  match k with NInt | NInt8 | NInt16 | NInt32 | NInt64 | NInt128 | NInt256 => true | _ => false end.
Definition is_fixed_unsigned (k : numk) : bool :=
  match k with
  | NUInt8 | NUInt16 | NUInt32 | NUInt64 | NUInt128 | NUInt256
  | NWord8 | NWord16 | NWord32 | NWord64 | NWord128 | NWord256 => true
  | _ => false end.
Definition is_fixed_point (k : numk) : bool := match k with NFix64 | NUFix64 => true | _ => false end.

(* the numeric hierarchy: Number > SignedNumber > {SignedInteger, SignedFixedPoint};
   Number > Integer > {SignedInteger, FixedSizeUnsignedInteger, UInt}; Number > FixedPoint *)
Definition num_in (k : numk) (a : absk) : bool :=
  match a with
  | ANumber => true
  | ASignedNumber => is_signed_int k || match k with NFix64 => true | _ => false end
  | AInteger => negb (is_fixed_point k)
  | ASignedInteger => is_signed_int k
  | AFixedSizeUnsignedInteger => is_fixed_unsigned k
  | AFixedPoint => is_fixed_point k
  | ASignedFixedPoint => match k with NFix64 => true | _ => false end
  end.

Definition abs_sub (a b : absk) : bool :=
  absk_eqb a b ||
  match a, b with
  | _, ANumber => true
  | ASignedInteger, (ASignedNumber | AInteger) => true
  | ASignedFixedPoint, (ASignedNumber | AFixedPoint) => true
  | AFixedSizeUnsignedInteger, AInteger => true
  | _, _ => false
  end.

Definition path_sub (a b : pathk) : bool :=
  pathk_eqb a b ||
  match a, b with
  | _, PAnyPath => true
  | (PPublic | PPrivate), PCapability => true
  | _, _ => false
  end.

(* subtyping on the fragment: Never is bottom, T <: T?, optionals / arrays / dictionaries covariant *)
Fixpoint subtype (a b : ty) {struct b} : bool :=
  match a with
  | TNever => true
  | _ =>
    match b with
    | TOpt b' => match a with TOpt a' => subtype a' b' | _ => subtype a b' end
    | TVArr b' => match a with TVArr a' => subtype a' b' | _ => false end
    | TCArr n b' => match a with TCArr m a' => Nat.eqb m n && subtype a' b' | _ => false end
    | TDict kb vb => match a with TDict ka va => subtype ka kb && subtype va vb | _ => false end
    | TAbs y => match a with TNum k => num_in k y | TAbs x => abs_sub x y | _ => false end
    | TPath y => match a with TPath x => path_sub x y | _ => false end
    | _ => ty_eqb a b
    end
  end.

Definition path_of_dom (d : dom) : pathk :=
  match d with DStorage => PStorage | DPublic => PPublic | DPrivate => PPrivate end.

Fixpoint type_of (v : val) : ty :=
  match v with
  | VNum k _ => TNum k | VBool _ => TBool | VStr _ => TString | VChar _ => TChar
  | VAddr _ => TAddress | VPath d _ => TPath (path_of_dom d) | VMeta _ => TMeta
  | VNil => TOpt TNever | VSome x => TOpt (type_of x)
  | VArr t _ => t | VDict k v _ => TDict k v | VStruct id _ => TStruct id
  end.

(* ------------------------------------------------------------------ well-formed values *)

Definition num_range (k : numk) : option (Z * Z) :=
  match k with
  | NInt => None | NUInt => Some (0, -1)                  (* hi < lo encodes "no upper bound" *)
  | NInt8 => Some (-(2^7), 2^7 - 1) | NInt16 => Some (-(2^15), 2^15 - 1)
  | NInt32 => Some (-(2^31), 2^31 - 1) | NInt64 => Some (-(2^63), 2^63 - 1)
  | NInt128 => Some (-(2^127), 2^127 - 1) | NInt256 => Some (-(2^255), 2^255 - 1)
  | NUInt8 | NWord8 => Some (0, 2^8 - 1) | NUInt16 | NWord16 => Some (0, 2^16 - 1)
  | NUInt32 | NWord32 => Some (0, 2^32 - 1) | NUInt64 | NWord64 => Some (0, 2^64 - 1)
  | NUInt128 | NWord128 => Some (0, 2^128 - 1) | NUInt256 | NWord256 => Some (0, 2^256 - 1)
  | NFix64 => Some (-(2^63), 2^63 - 1) | NUFix64 => Some (0, 2^64 - 1)
  end.

Definition in_num_range (k : numk) (z : Z) : bool :=
  match num_range k with
  | None => true
  | Some (lo, hi) => (lo <=? z) && ((hi <? lo) || (z <=? hi))
  end.

(* boxed to the declared optional depth *)
Fixpoint boxed (v : val) (t : ty) {struct t} : bool :=
  match t with
  | TOpt t' => match v with VNil => true | VSome x => boxed x t' | _ => false end
  | _ => true
  end.

Definition struct_env := list (list ty).

Fixpoint wf_val (D : struct_env) (v : val) : bool :=
  let conf := fun x t => wf_val D x && subtype (type_of x) t && boxed x t in
  match v with
  | VNum k z => in_num_range k z
  | VAddr z => (0 <=? z) && (z <? 2 ^ 64)
  | VSome x => wf_val D x
  | VArr t l =>
      match t with
      | TVArr e => (fix all (l : list val) := match l with [] => true | x :: r => conf x e && all r end) l
      | TCArr n e => Nat.eqb (length l) n &&
                     (fix all (l : list val) := match l with [] => true | x :: r => conf x e && all r end) l
      | _ => false
      end
  | VDict k vt l =>
      (fix all (l : list (val * val)) :=
         match l with [] => true | (a, b) :: r => conf a k && conf b vt && all r end) l
  | VStruct id fs =>
      match nth_error D id with
      | Some ts =>
          (fix all2 (l : list val) (ts : list ty) :=
             match l, ts with
             | [], [] => true
             | x :: r, t :: tr => conf x t && all2 r tr
             | _, _ => false
             end) fs ts
      | None => false
      end
  | _ => true
  end.

(* the value is a proper value of a field declared with type t *)
Definition has_type (D : struct_env) (v : val) (t : ty) : bool :=
  wf_val D v && subtype (type_of v) t && boxed v t.

(* ------------------------------------------------------------------ emit *)

(* interpreter.BoxOptional *)
Fixpoint box (value inner : val) (t : ty) : val :=
  match t with
  | TOpt t' =>
      match inner with
      | VSome i => box value i t'
      | VNil => inner                   (* NOTE: nested nil will be unboxed! *)
      | _ => box (VSome value) inner t'
      end
  | _ => value
  end.

Definition convert_and_box (v : val) (t : ty) : val := box v v t.

Definition name := Z.   (* identifier / type ID: bytes packed into one Z (opaque) *)
Record event_decl := EventDecl { ev_id : name; ev_params : list (name * ty) }.
Record event := Event { e_type : name; e_fields : list (name * val) }.

Fixpoint zip_fields (ps : list (name * ty)) (vs : list val) : list (name * val) :=
  match ps, vs with
  | (n, _) :: pr, v :: vr => (n, v) :: zip_fields pr vr
  | _, _ => []
  end.

Fixpoint convert_args (ps : list (name * ty)) (vs : list val) : list val :=
  match ps, vs with
  | (_, t) :: pr, v :: vr => convert_and_box v t :: convert_args pr vr
  | _, _ => []
  end.

(* VisitEmitStatement + EmitEventFields: one event for the host, or the count-mismatch error *)
Definition emit (d : event_decl) (args : list val) : res event :=
  let fields := convert_args (ev_params d) args in
  if Nat.eqb (length fields) (length (ev_params d)) && Nat.eqb (length args) (length (ev_params d))
  then Ok (Event (ev_id d) (zip_fields (ev_params d) fields))
  else Err UserOther.

(* the checker's guarantee for the arguments of an accepted emit / constructor call: well-formed
   values whose runtime types are subtypes of the parameter types *)
Fixpoint args_ok (D : struct_env) (ps : list (name * ty)) (vs : list val) : bool :=
  match ps, vs with
  | [], [] => true
  | (_, t) :: pr, v :: vr => wf_val D v && subtype (type_of v) t && args_ok D pr vr
  | _, _ => false
  end.

(* all fields of an event have their declared types, names in declaration order *)
Fixpoint fields_typed (D : struct_env) (ps : list (name * ty)) (fs : list (name * val)) : bool :=
  match ps, fs with
  | [], [] => true
  | (n, t) :: pr, (m, v) :: fr => (n =? m) && has_type D v t && fields_typed D pr fr
  | _, _ => false
  end.

(* ------------------------------------------------------------------ default destruction events *)

Inductive dexp :=
| DLit (v : val)
| DField (i : nat)                 (* self.f_i *)
| DNested (i j : nat)              (* self.r_i.f_j : field of a nested resource *)
| DDictGet (i : nat) (key : val).  (* self.f_i[key] : optional *)

Record destroy_event := DestroyEvent { de_id : name; de_params : list (name * ty * dexp) }.

(* a resource type: its own ResourceDestroyed event (if any) followed by the inherited ones in the
   order of the function table: own, then conformances in reverse order *)
Definition rdecl := list destroy_event.

Inductive rval := RVal (decl : nat) (fields : list val) (nested : list rval).

Definition r_fields (r : rval) := match r with RVal _ f _ => f end.
Definition r_nested (r : rval) := match r with RVal _ _ n => n end.
Definition r_decl (r : rval) := match r with RVal d _ _ => d end.

Definition val_eqb_key (a b : val) : bool :=
  match a, b with
  | VStr x, VStr y => x =? y
  | VNum k x, VNum k' y => numk_eqb k k' && (x =? y)
  | VBool x, VBool y => Bool.eqb x y
  | VAddr x, VAddr y => x =? y
  | _, _ => false
  end.

Fixpoint dict_get (key : val) (l : list (val * val)) : val :=
  match l with
  | [] => VNil
  | (k, v) :: r => if val_eqb_key key k then VSome v else dict_get key r
  end.

Definition eval_dexp (r : rval) (e : dexp) : res val :=
  match e with
  | DLit v => Ok v
  | DField i => match nth_error (r_fields r) i with Some v => Ok v | None => Err Internal end
  | DNested i j =>
      match nth_error (r_nested r) i with
      | Some n => match nth_error (r_fields n) j with Some v => Ok v | None => Err Internal end
      | None => Err Internal
      end
  | DDictGet i key =>
      match nth_error (r_fields r) i with
      | Some (VDict _ _ l) => Ok (dict_get key l)
      | _ => Err Internal
      end
  end.

Fixpoint eval_args (r : rval) (ps : list (name * ty * dexp)) : res (list val) :=
  match ps with
  | [] => Ok []
  | (_, _, e) :: pr =>
      match eval_dexp r e with
      | Err x => Err x
      | Ok v => match eval_args r pr with Ok vs => Ok (v :: vs) | Err x => Err x end
      end
  end.

Definition decl_of (de : destroy_event) : event_decl :=
  EventDecl (de_id de) (map (fun p => (fst (fst p), snd (fst p))) (de_params de)).

(* VM: R.ResourceDestroyed(defaultArgs...) is an ordinary constructor call: arguments converted
   and boxed to the parameter types *)
Definition ctor_vm (r : rval) (de : destroy_event) : res event :=
  match eval_args r (de_params de) with
  | Err x => Err x
  | Ok vs => emit (decl_of de) vs
  end.

(* interpreter: the event initializer stores evaluateDefaultDestroyEvent's values unchanged *)
Definition ctor_interp (r : rval) (de : destroy_event) : res event :=
  match eval_args r (de_params de) with
  | Err x => Err x
  | Ok vs => if Nat.eqb (length vs) (length (de_params de))
             then Ok (Event (de_id de) (zip_fields (ev_params (decl_of de)) vs))
             else Err UserOther
  end.

Fixpoint map_res {A B} (f : A -> res B) (l : list A) : res (list B) :=
  match l with
  | [] => Ok []
  | x :: r => match f x with
              | Err e => Err e
              | Ok y => match map_res f r with Ok ys => Ok (y :: ys) | Err e => Err e end
              end
  end.

(* CompositeValue.Destroy: (1) construct the default events (arguments read from the still intact
   resource), pushing one deferred emission per event; (2) destroy the nested resources in field
   order (their events reach the host now); (3) the deferred emissions run last-in first-out *)
Fixpoint destroy (ctor : rval -> destroy_event -> res event) (R : list rdecl) (r : rval)
  : res (list event) :=
  match r with
  | RVal d fields nested =>
      match nth_error R d with
      | None => Err Internal
      | Some des =>
          match map_res (ctor r) des with
          | Err x => Err x
          | Ok events =>
              let deferred := rev events in                (* stack of deferred calls, top first *)
              match (fix all (l : list rval) : res (list event) :=
                       match l with
                       | [] => Ok []
                       | n :: rest =>
                           match destroy ctor R n with
                           | Err x => Err x
                           | Ok t => match all rest with Ok ts => Ok (t ++ ts) | Err x => Err x end
                           end
                       end) nested with
              | Err x => Err x
              | Ok nested_events => Ok (nested_events ++ deferred)
              end
          end
      end
  end.

(* ------------------------------------------------------------------ specification of destruction *)

(* static type of a default-argument expression, given the declared field types *)
Record rtype := RType { rt_fields : list ty; rt_nested : list nat (* decl index of nested *) }.

Definition dexp_ty (RT : list rtype) (d : nat) (e : dexp) : option ty :=
  match nth_error RT d with
  | None => None
  | Some rt =>
    match e with
    | DLit v => Some (type_of v)
    | DField i => nth_error (rt_fields rt) i
    | DNested i j =>
        match nth_error (rt_nested rt) i with
        | Some dn => match nth_error RT dn with Some rn => nth_error (rt_fields rn) j | None => None end
        | None => None
        end
    | DDictGet i _ =>
        match nth_error (rt_fields rt) i with Some (TDict _ v) => Some (TOpt v) | _ => None end
    end
  end.

(* the events one resource owes, in emission order: reverse of the constructor order *)
Definition own_events (ctor : rval -> destroy_event -> res event) (R : list rdecl) (r : rval)
  : res (list event) :=
  match nth_error R (r_decl r) with
  | None => Err Internal
  | Some des => match map_res (ctor r) des with Ok evs => Ok (rev evs) | Err x => Err x end
  end.

(* post-order: every nested resource (recursively, in field order) before the resource itself *)
Fixpoint postorder (r : rval) : list rval :=
  match r with
  | RVal _ _ nested =>
      (fix all (l : list rval) := match l with [] => [] | n :: rest => postorder n ++ all rest end) nested
      ++ [r]
  end.

Fixpoint concat_res {A} (l : list (res (list A))) : res (list A) :=
  match l with
  | [] => Ok []
  | Err e :: _ => Err e
  | Ok x :: r => match concat_res r with Ok y => Ok (x ++ y) | Err e => Err e end
  end.

Definition destroy_spec (ctor : rval -> destroy_event -> res event) (R : list rdecl) (r : rval)
  : res (list event) :=
  concat_res (map (own_events ctor R) (postorder r)).
