(* C36: proofs about the memo/pool interleaving model of C36/Memo.v. *)
From Coq Require Import ZArith List String Bool Lia PeanoNat.
From CV Require Import C36.Memo.
Import ListNotations.
Open Scope Z_scope.

(* ---------------------------------------------------------------- tables *)
Lemma empty_consistent f : consistent f empty_table.
Proof. intros k v H. discriminate H. Qed.

Lemma upd_consistent f tb k : consistent f tb -> consistent f (upd tb k (f k)).
Proof.
  intros H k' v. unfold upd. destruct (Z.eqb_spec k' k) as [E | E].
  - intros [= <-]. now subst.
  - apply H.
Qed.

(* ---------------------------------------------------------------- objects *)
Lemma set_field_same o fl v : set_field o fl v fl = v.
Proof. unfold set_field. now rewrite String.eqb_refl. Qed.

Lemma set_field_other o fl v g : g <> fl -> set_field o fl v g = o g.
Proof. intro H. unfold set_field. destruct (String.eqb_spec g fl); [contradiction | reflexivity]. Qed.

Lemma clear_with_notin reset : forall o g, ~ In g reset -> clear_with reset o g = o g.
Proof.
  induction reset as [| a r IH]; intros o g Hn; simpl; [reflexivity |].
  unfold clear_with in *. simpl. rewrite IH.
  - apply set_field_other. intro E. apply Hn. now left.
  - intro Hi. apply Hn. now right.
Qed.

Lemma clear_with_in reset : forall o g, In g reset -> clear_with reset o g = 0.
Proof.
  induction reset as [| a r IH]; intros o g Hi; [destruct Hi |].
  unfold clear_with in *. simpl.
  destruct (in_dec string_dec g r) as [Hr | Hr].
  - now apply IH.
  - destruct Hi as [E | Hi]; [| contradiction]. subst a.
    change (clear_with r (set_field o g 0) g = 0).
    rewrite clear_with_notin by assumption. apply set_field_same.
Qed.

Lemma mem_field_In fl l : mem_field fl l = true <-> In fl l.
Proof.
  unfold mem_field. rewrite existsb_exists. split.
  - intros [x [Hi E]]. apply String.eqb_eq in E. now subst.
  - intro Hi. exists fl. split; [assumption | apply String.eqb_refl].
Qed.

(* a clear function that assigns every declared field makes any recycled object
   indistinguishable from a new one *)
Lemma view_clear fields reset :
  all_reset fields reset = true -> forall o, view fields (clear_with reset o) = view fields fresh.
Proof.
  intros H o. unfold view. apply map_ext_in. intros g Hg.
  unfold all_reset in H. rewrite forallb_forall in H.
  specialize (H g Hg). apply mem_field_In in H.
  now rewrite clear_with_in.
Qed.

(* ---------------------------------------------------------------- lists *)
Lemma nth_error_set_nth_eq {A} (l : list A) : forall n x y,
  nth_error l n = Some x -> nth_error (set_nth n y l) n = Some y.
Proof.
  induction l as [| a l IH]; intros [| n] x y H; simpl in *; try discriminate; [reflexivity |].
  eapply IH; eassumption.
Qed.

Lemma nth_error_set_nth_neq {A} (l : list A) : forall n m y,
  n <> m -> nth_error (set_nth n y l) m = nth_error l m.
Proof.
  induction l as [| a l IH]; intros [| n] [| m] y H; simpl; try reflexivity; try congruence.
  apply IH. congruence.
Qed.

Lemma nth_error_set_nth_none {A} (l : list A) : forall n m y,
  nth_error l m = None -> nth_error (set_nth n y l) m = None.
Proof.
  induction l as [| a l IH]; intros [| n] [| m] y H; simpl in *; try reflexivity; try discriminate;
    try assumption.
  now apply IH.
Qed.

(* ---------------------------------------------------------------- one step *)
Section Sound.
  Variable f : Z -> Z.
  Variable fill : nat -> Z -> Z.
  Variables fields reset : list field.
  Hypothesis Hfill : forall t k, fill t k = f k.
  Hypothesis Hclear : all_reset fields reset = true.

  Notation tstep := (tstep fill fields reset).
  Notation tdenote := (tdenote f fields).
  Notation tcost := (tcost f fields).
  Notation denote := (denote f fields).
  Notation cost := (cost f fields).

  Lemma tstep_inv t sh ts :
    consistent f (fst sh) ->
    consistent f (fst (fst (tstep t sh ts)))
    /\ tdenote (snd (tstep t sh ts)) = tdenote ts
    /\ (tcost (snd (tstep t sh ts)) <= pred (tcost ts))%nat.
  Proof.
    intro Hc. destruct sh as [tb pl]. simpl in Hc.
    destruct ts as [p | k cont | o body]; [destruct p as [r | k cont | k cont | body] |..]; simpl.
    - repeat split; auto.
    - destruct (tb k) as [v |] eqn:E; simpl.
      + apply Hc in E. subst v. repeat split; auto; try lia.
      + repeat split; auto.
    - destruct (tb k) as [v |] eqn:E; simpl.
      + apply Hc in E. subst v. repeat split; auto.
      + rewrite Hfill. repeat split; auto. now apply upd_consistent.
    - destruct pl as [| o pl]; simpl; repeat split; auto.
    - rewrite Hfill. repeat split; auto. now apply upd_consistent.
    - rewrite (view_clear _ _ Hclear). repeat split; auto.
  Qed.

  Lemma tcost_zero ts : tcost ts = O -> exists r, ts = Run (Ret r).
  Proof.
    destruct ts as [p | |]; simpl; try discriminate.
    destruct p; simpl; try discriminate. intros _. now eexists.
  Qed.

  Notation step := (step fill fields reset).
  Notation run := (run fill fields reset).

  Lemma step_inv c a :
    consistent f (fst (shared c)) ->
    consistent f (fst (shared (step c a)))
    /\ (forall t ts, nth_error (threads c) t = Some ts ->
          exists ts1, nth_error (threads (step c a)) t = Some ts1
                      /\ tdenote ts1 = tdenote ts
                      /\ (tcost ts1 <= tcost ts - (if Nat.eq_dec a t then 1 else 0))%nat)
    /\ (forall t, nth_error (threads c) t = None -> nth_error (threads (step c a)) t = None).
  Proof.
    intro Hc. unfold step. destruct (nth_error (threads c) a) as [tsa |] eqn:Ea.
    - destruct (tstep_inv a (shared c) tsa Hc) as [H1 [H2 H3]]. simpl.
      split; [exact H1 | split].
      + intros t ts Ht. destruct (Nat.eq_dec a t) as [E | E].
        * subst t. rewrite Ea in Ht. injection Ht as <-.
          eexists. split; [eapply nth_error_set_nth_eq; eassumption |].
          split; [exact H2 | lia].
        * exists ts. rewrite nth_error_set_nth_neq by assumption.
          split; [assumption | split; [reflexivity | lia]].
      + intros t Ht. now apply nth_error_set_nth_none.
    - split; [assumption | split].
      + intros t ts Ht. exists ts. split; [assumption | split; [reflexivity |]].
        destruct (Nat.eq_dec a t); [subst; congruence | lia].
      + auto.
  Qed.

  Lemma run_inv s : forall c,
    consistent f (fst (shared c)) ->
    consistent f (fst (shared (run s c)))
    /\ (forall t ts, nth_error (threads c) t = Some ts ->
          exists ts1, nth_error (threads (run s c)) t = Some ts1
                      /\ tdenote ts1 = tdenote ts
                      /\ (tcost ts1 <= tcost ts - count_occ Nat.eq_dec s t)%nat)
    /\ (forall t, nth_error (threads c) t = None -> nth_error (threads (run s c)) t = None).
  Proof.
    induction s as [| a s IH]; intros c Hc.
    - simpl. split; [assumption | split; [| auto]].
      intros t ts Ht. exists ts. repeat split; auto. lia.
    - destruct (step_inv c a Hc) as [S1 [S2 S3]].
      destruct (IH (step c a) S1) as [R1 [R2 R3]].
      change (run (a :: s) c) with (run s (step c a)).
      split; [exact R1 | split].
      + intros t ts Ht. destruct (S2 t ts Ht) as [ts1 [A1 [A2 A3]]].
        destruct (R2 t ts1 A1) as [ts2 [B1 [B2 B3]]].
        exists ts2. split; [assumption | split; [congruence |]].
        simpl. destruct (Nat.eq_dec a t); lia.
      + intros t Ht. apply R3. now apply S3.
  Qed.

  (* SAFETY: whatever the schedule, the warm-up state of the caches and the garbage in the pool,
     a thread that has finished returns the value of the pure computation it denotes *)
  Theorem run_result_sound tb0 pool0 ps s t r :
    consistent f tb0 ->
    result (run s (init tb0 pool0 ps)) t = Some r ->
    exists p, nth_error ps t = Some p /\ r = denote p.
  Proof.
    intros Hc Hr. destruct (run_inv s (init tb0 pool0 ps) Hc) as [_ [R2 R3]].
    unfold result in Hr.
    destruct (nth_error ps t) as [p |] eqn:Ep.
    - exists p. split; [reflexivity |].
      assert (Ht : nth_error (threads (init tb0 pool0 ps)) t = Some (Run p)).
      { simpl. now rewrite nth_error_map, Ep. }
      destruct (R2 t _ Ht) as [ts1 [A1 [A2 _]]]. rewrite A1 in Hr.
      destruct ts1 as [q | |]; simpl in Hr; try discriminate.
      destruct q; simpl in Hr; try discriminate. injection Hr as <-. exact A2.
    - assert (Ht : nth_error (threads (init tb0 pool0 ps)) t = None).
      { simpl. now rewrite nth_error_map, Ep. }
      rewrite (R3 t Ht) in Hr. discriminate.
  Qed.

  (* LIVENESS (no blocking): a thread that is scheduled at least [cost p] times has finished *)
  Theorem run_result_complete tb0 pool0 ps s t p :
    consistent f tb0 ->
    nth_error ps t = Some p ->
    (cost p <= count_occ Nat.eq_dec s t)%nat ->
    result (run s (init tb0 pool0 ps)) t = Some (denote p).
  Proof.
    intros Hc Ep Hn. destruct (run_inv s (init tb0 pool0 ps) Hc) as [_ [R2 _]].
    assert (Ht : nth_error (threads (init tb0 pool0 ps)) t = Some (Run p)).
    { simpl. now rewrite nth_error_map, Ep. }
    destruct (R2 t _ Ht) as [ts1 [A1 [A2 A3]]]. simpl in A3.
    destruct (tcost_zero ts1) as [r Er]; [lia |]. subst ts1.
    unfold result. rewrite A1. simpl in *. now rewrite A2.
  Qed.

  (* the same facts for the thread running alone from a cold table and an empty pool *)
  Lemma alone_inv t n : forall sh ts,
    consistent f (fst sh) ->
    tdenote (alone_from fill fields reset t n sh ts) = tdenote ts
    /\ (tcost (alone_from fill fields reset t n sh ts) <= tcost ts - n)%nat.
  Proof.
    induction n as [| n IH]; intros sh ts Hc; simpl.
    - split; [reflexivity | lia].
    - destruct (tstep_inv t sh ts Hc) as [H1 [H2 H3]].
      destruct (IH _ (snd (tstep t sh ts)) H1) as [I1 I2].
      split; [congruence | lia].
  Qed.

  Theorem alone_sound t p n r : alone fill fields reset t p n = Some r -> r = denote p.
  Proof.
    unfold alone. intro H.
    destruct (alone_inv t n (empty_table, []) (Run p) (empty_consistent f)) as [I1 _].
    destruct (alone_from fill fields reset t n (empty_table, []) (Run p)) as [q | |];
      simpl in H; try discriminate.
    destruct q; simpl in H; try discriminate. injection H as <-. exact I1.
  Qed.

  Theorem alone_complete t p n : (cost p <= n)%nat -> alone fill fields reset t p n = Some (denote p).
  Proof.
    intro Hn. unfold alone.
    destruct (alone_inv t n (empty_table, []) (Run p) (empty_consistent f)) as [I1 I2].
    simpl in I2.
    destruct (tcost_zero (alone_from fill fields reset t n (empty_table, []) (Run p))) as [r Er]; [lia |].
    rewrite Er in *. simpl in *. now rewrite I1.
  Qed.

  (* caches stay consistent: the next program starts from a consistent table again *)
  Theorem run_keeps_consistent tb0 pool0 ps s :
    consistent f tb0 -> consistent f (fst (shared (run s (init tb0 pool0 ps)))).
  Proof. intro Hc. now destruct (run_inv s (init tb0 pool0 ps) Hc) as [R1 _]. Qed.

  (* C36 main theorem: for EVERY schedule, every thread that has finished has the result of its
     sequential (alone) run, and every thread scheduled often enough has finished. *)
  Theorem memo_linearizable tb0 pool0 ps s t :
    consistent f tb0 ->
    (forall r, result (run s (init tb0 pool0 ps)) t = Some r ->
       exists p, nth_error ps t = Some p /\ r = denote p
                 /\ forall n, (cost p <= n)%nat -> alone fill fields reset t p n = Some r)
    /\ (forall p, nth_error ps t = Some p -> (cost p <= count_occ Nat.eq_dec s t)%nat ->
          result (run s (init tb0 pool0 ps)) t = Some (denote p)).
  Proof.
    intro Hc. split.
    - intros r Hr. destruct (run_result_sound _ _ _ _ _ _ Hc Hr) as [p [Ep Er]].
      exists p. split; [assumption | split; [assumption |]].
      intros n Hn. subst r. now apply alone_complete.
    - intros p Ep Hn. now apply run_result_complete.
  Qed.
End Sound.

(* ---------------------------------------------------------------- both hypotheses are needed *)
Definition lin_statement (f : Z -> Z) (fill : nat -> Z -> Z) (fields reset : list field) : Prop :=
  forall tb0 pool0 ps s t r r' n,
    consistent f tb0 ->
    result (run fill fields reset s (init tb0 pool0 ps)) t = Some r ->
    alone fill fields reset t (nth t ps (Ret 0)) n = Some r' ->
    r = r'.

Lemma lin_statement_holds f fill fields reset :
  (forall t k, fill t k = f k) -> all_reset fields reset = true -> lin_statement f fill fields reset.
Proof.
  intros Hf Hcl tb0 pool0 ps s t r r' n Hc Hr Ha.
  destruct (run_result_sound f fill fields reset Hf Hcl _ _ _ _ _ _ Hc Hr) as [p [Ep Er]].
  rewrite (nth_error_nth _ _ _ Ep) in Ha.
  apply (alone_sound f fill fields reset Hf Hcl) in Ha. congruence.
Qed.

(* a fill that depends on the computing thread (not idempotent): thread 0 observes thread 1's store *)
Definition bad_fill : nat -> Z -> Z := fun t k => k * 10 + Z.of_nat t.
Lemma memo_nonidempotent_refuted :
  exists f fill, (forall k, fill O k = f k) /\ ~ lin_statement f fill [] [].
Proof.
  exists (fun k => k * 10), bad_fill. split.
  - intro k. unfold bad_fill. simpl. lia.
  - intro H.
    specialize (H empty_table [] [Memo 5 Ret; Memo 5 Ret] [1%nat; 1%nat; O; O] O 51 50 2%nat
                  (empty_consistent _)).
    assert (E : 51 = 50) by (apply H; vm_compute; reflexivity). discriminate E.
Qed.

(* a clear function that forgets one field: thread 1 sees what thread 0 left in the object *)
Definition leak_body : list Z -> list (field * Z) * prog :=
  fun v => ([("b"%string, 7)], Ret (nth 1 v 0)).
Lemma pool_incomplete_clear_refuted :
  exists f fill fields reset, (forall t k, fill t k = f k) /\ all_reset fields reset = false
                              /\ ~ lin_statement f fill fields reset.
Proof.
  exists (fun k => k), (fun _ k => k), ["a"%string; "b"%string], ["a"%string].
  split; [reflexivity | split; [reflexivity |]].
  intro H.
  specialize (H empty_table [] [Pooled leak_body; Pooled leak_body] [O; O; 1%nat; 1%nat] 1%nat 7 0 2%nat
                (empty_consistent _)).
  assert (E : 7 = 0) by (apply H; vm_compute; reflexivity). discriminate E.
Qed.
