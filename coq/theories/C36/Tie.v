(* C36: obligations on the tables regenerated from /repo's source (Gen/GenC36Clear.v), discharged by
   computation, and the instantiation of the linearizability theorem for every real pool. *)
From Coq Require Import ZArith List String Bool.
From CV Require Import C36.Memo C36.Proofs Gen.GenC36Clear.
Import ListNotations.
Open Scope string_scope.

Definition pool_row := (string * (list string * list string))%type.
Definition pool_name (p : pool_row) := fst p.
Definition pool_fields (p : pool_row) := fst (snd p).
Definition pool_reset (p : pool_row) := snd (snd p).

Definition exempt_field (p : pool_row) (fl : string) : bool :=
  mem_field ("pool:" ++ pool_name p ++ ":" ++ fl) exempt.
(* the fields the obligation is about: all declared fields except the allow-listed ones *)
Definition eff_fields (p : pool_row) : list string :=
  filter (fun fl => negb (exempt_field p fl)) (pool_fields p).
Definition pool_ok (p : pool_row) : bool := all_reset (eff_fields p) (pool_reset p).

Definition memo_ok (m : string * bool) : bool := snd m || mem_field ("memo:" ++ fst m) exempt.

(* OBLIGATION 1 (re-checked against the current source on every run): every field of every pooled
   struct is reset between Pool.Get and the first use, or before Pool.Put *)
Lemma pools_ok : forallb pool_ok pools = true.
Proof. vm_compute. reflexivity. Qed.

(* OBLIGATION 2: every function that stores into a lazily filled cache cell loads the cell first
   (the Load / miss / compute / Store shape of the model's [Memo] step) *)
Lemma memo_sites_ok : forallb memo_ok memo_sites = true.
Proof. vm_compute. reflexivity. Qed.

(* the pools named by the property are among the extracted ones (the table is not vacuous) *)
Lemma anchors_present :
  existsb (fun p => String.eqb (pool_name p) "parser/lexer.pool") pools = true
  /\ existsb (fun p => String.eqb (pool_name p) "sema.resourcesPool") pools = true
  /\ existsb (fun p => String.eqb (pool_name p) "bbq/vm.referenceSetPool") pools = true
  /\ existsb (fun m => String.eqb (fst m) "sema:EntitlementMapAccess.entitlementImage:images") memo_sites = true
  /\ existsb (fun m => String.eqb (fst m) "interpreter:smallIntegerValueCache.Get:m") memo_sites = true.
Proof. vm_compute. repeat split. Qed.

Lemma pool_ok_of p : In p pools -> all_reset (eff_fields p) (pool_reset p) = true.
Proof.
  intro Hin. pose proof pools_ok as H. rewrite forallb_forall in H. exact (H p Hin).
Qed.

(* a recycled object of any real pool is indistinguishable from a new one *)
Theorem real_pool_objects_fresh p :
  In p pools -> forall o, view (eff_fields p) (clear_with (pool_reset p) o) = view (eff_fields p) fresh.
Proof. intros Hin o. apply view_clear. now apply pool_ok_of. Qed.

(* memo_linearizable for each pool of the current source *)
Theorem real_pools_linearizable p :
  In p pools ->
  forall (f : Z -> Z) (fill : nat -> Z -> Z), (forall t k, fill t k = f k) ->
  forall tb0 pool0 ps s t, consistent f tb0 ->
    (forall r, result (run fill (eff_fields p) (pool_reset p) s (init tb0 pool0 ps)) t = Some r ->
       exists q, nth_error ps t = Some q /\ r = denote f (eff_fields p) q
                 /\ forall n, (cost f (eff_fields p) q <= n)%nat ->
                      alone fill (eff_fields p) (pool_reset p) t q n = Some r)
    /\ (forall q, nth_error ps t = Some q ->
          (cost f (eff_fields p) q <= count_occ Nat.eq_dec s t)%nat ->
          result (run fill (eff_fields p) (pool_reset p) s (init tb0 pool0 ps)) t
          = Some (denote f (eff_fields p) q)).
Proof.
  intros Hin f fill Hf tb0 pool0 ps s t Hc.
  apply memo_linearizable; auto. now apply pool_ok_of.
Qed.
