(* C36 / C31 shared model: memo tables, pooled objects and their interleavings.

   What is modelled (definitions only; proofs are in C36/Proofs.v):

   * a MEMO TABLE caches a pure function [f : Z -> Z] (keys encode "which cache, which key":
     sema member resolvers per type, type-ID strings, entitlement-map images per entitlement,
     small integer values per (value, static type), ...).  The Go code reaches such a table through
     - atomic.Pointer / sync.Map:  v := cell.Load(); if v != nil { use v } ; c := compute(); cell.Store(c); use c
       (two atomic steps; between them any other goroutine may run)            -> [Memo]
     - sync.Once / mutex:  once.Do(func(){ cell = compute() }); use cell        -> [MemoOnce] (one atomic step)
     The value a thread stores is [fill t k]: what thread [t] computes for key [k].  The discipline
     "stores only write f k for key k" is the hypothesis [forall t k, fill t k = f k] of the theorems;
     the model itself does not assume it (a thread-dependent fill is how a cache filled with
     checker-/gauge-specific data would show up).

   * a POOL (sync.Pool) hands an object to exactly one goroutine at a time (this exclusivity is
     sync.Pool's contract and is part of the trusted base).  An object is a valuation of field names.
     The user takes an object ([Pooled], atomic pop or New), runs the struct's clear function
     (= a sequence of assignments of the zero value to the fields of the list [reset]), works with it
     (sees the declared [fields], writes arbitrary fields), and puts it back dirty.  The lists [fields]
     and [reset] of the REAL pools are regenerated from /repo's source on every run (Gen/GenC36Clear.v).

   * a SCHEDULE is an arbitrary list of thread ids, of any length; one list element = one atomic step
     of that thread (steps of finished or non-existent threads are no-ops).  Thread-local work between
     two shared accesses commutes with every other thread's steps and is folded into the adjacent step. *)
From Coq Require Import ZArith List String Bool Lia.
Import ListNotations.
Open Scope Z_scope.

(* ---------------------------------------------------------------- memo tables *)
Definition table := Z -> option Z.
Definition empty_table : table := fun _ => None.
Definition upd (tb : table) (k v : Z) : table := fun k' => if Z.eqb k' k then Some v else tb k'.

(* every cached entry is the value of the memoised function *)
Definition consistent (f : Z -> Z) (tb : table) : Prop := forall k v, tb k = Some v -> v = f k.

(* table built from a list of entries (executable; for examples and case files) *)
Definition table_of (l : list (Z * Z)) : table :=
  fold_left (fun tb kv => upd tb (fst kv) (snd kv)) l empty_table.

(* ---------------------------------------------------------------- pooled objects *)
Definition field := string.
Definition obj := field -> Z.                       (* zero value of every field = 0 *)
Definition fresh : obj := fun _ => 0.
Definition set_field (o : obj) (fl : field) (v : Z) : obj :=
  fun g => if String.eqb g fl then v else o g.
(* clear(): one assignment [l.fl = zero] per element of the reset list, in order *)
Definition clear_with (reset : list field) (o : obj) : obj :=
  fold_left (fun o fl => set_field o fl 0) reset o.
Definition view (fields : list field) (o : obj) : list Z := map o fields.
Definition apply_writes (ws : list (field * Z)) (o : obj) : obj :=
  fold_left (fun o w => set_field o (fst w) (snd w)) ws o.

(* ---------------------------------------------------------------- thread programs *)
Inductive prog : Type :=
| Ret (r : Z)
| Memo (k : Z) (cont : Z -> prog)
| MemoOnce (k : Z) (cont : Z -> prog)
| Pooled (body : list Z -> list (field * Z) * prog).

Inductive tstate : Type :=
| Run (p : prog)
| Miss (k : Z) (cont : Z -> prog)                          (* loaded nil; about to compute and Store *)
| Hold (o : obj) (body : list Z -> list (field * Z) * prog). (* owns a pooled object, not yet cleared *)

Section Machine.
  Variable fill : nat -> Z -> Z.        (* what thread t computes (and stores) for key k *)
  Variable fields : list field.         (* declared fields of the pooled struct *)
  Variable reset : list field.          (* fields assigned by its clear function *)

  (* one atomic step of thread t on the shared table and pool *)
  Definition tstep (t : nat) (sh : table * list obj) (ts : tstate) : (table * list obj) * tstate :=
    let tb := fst sh in
    let pl := snd sh in
    match ts with
    | Run (Ret r) => (sh, ts)
    | Run (Memo k cont) =>
        match tb k with
        | Some v => (sh, Run (cont v))
        | None => (sh, Miss k cont)
        end
    | Miss k cont =>
        let v := fill t k in ((upd tb k v, pl), Run (cont v))
    | Run (MemoOnce k cont) =>
        match tb k with
        | Some v => (sh, Run (cont v))
        | None => let v := fill t k in ((upd tb k v, pl), Run (cont v))
        end
    | Run (Pooled body) =>
        match pl with
        | [] => ((tb, []), Hold fresh body)           (* sync.Pool.New *)
        | o :: pl' => ((tb, pl'), Hold o body)
        end
    | Hold o body =>
        let o1 := clear_with reset o in
        let wp := body (view fields o1) in
        ((tb, apply_writes (fst wp) o1 :: pl), Run (snd wp))
    end.

  Record config := mkc { shared : table * list obj; threads : list tstate }.

  Fixpoint set_nth {A} (n : nat) (x : A) (l : list A) : list A :=
    match l, n with
    | [], _ => []
    | _ :: r, O => x :: r
    | y :: r, S n' => y :: set_nth n' x r
    end.

  Definition step (c : config) (t : nat) : config :=
    match nth_error (threads c) t with
    | None => c
    | Some ts =>
        let r := tstep t (shared c) ts in
        mkc (fst r) (set_nth t (snd r) (threads c))
    end.

  Definition run (s : list nat) (c : config) : config := fold_left step s c.

  Definition init (tb : table) (pl : list obj) (ps : list prog) : config :=
    mkc (tb, pl) (map Run ps).

  Definition tresult (ts : tstate) : option Z :=
    match ts with Run (Ret r) => Some r | _ => None end.
  Definition result (c : config) (t : nat) : option Z :=
    match nth_error (threads c) t with Some ts => tresult ts | None => None end.

  (* the thread running alone from a cold table and an empty pool, for n steps *)
  Fixpoint alone_from (t : nat) (n : nat) (sh : table * list obj) (ts : tstate) : tstate :=
    match n with
    | O => ts
    | S n' => let r := tstep t sh ts in alone_from t n' (fst r) (snd r)
    end.
  Definition alone (t : nat) (p : prog) (n : nat) : option Z :=
    tresult (alone_from t n (empty_table, []) (Run p)).
End Machine.

(* ---------------------------------------------------------------- sequential meaning *)
Section Spec.
  Variable f : Z -> Z.
  Variable fields : list field.

  (* the pure computation the program denotes: every memo lookup returns f k,
     every pooled object looks freshly allocated *)
  Fixpoint denote (p : prog) : Z :=
    match p with
    | Ret r => r
    | Memo k cont => denote (cont (f k))
    | MemoOnce k cont => denote (cont (f k))
    | Pooled body => denote (snd (body (view fields fresh)))
    end.

  (* upper bound on the number of own steps the thread needs *)
  Fixpoint cost (p : prog) : nat :=
    match p with
    | Ret _ => O
    | Memo k cont => S (S (cost (cont (f k))))
    | MemoOnce k cont => S (cost (cont (f k)))
    | Pooled body => S (S (cost (snd (body (view fields fresh)))))
    end.

  Definition tdenote (ts : tstate) : Z :=
    match ts with
    | Run p => denote p
    | Miss k cont => denote (cont (f k))
    | Hold _ body => denote (snd (body (view fields fresh)))
    end.
  Definition tcost (ts : tstate) : nat :=
    match ts with
    | Run p => cost p
    | Miss k cont => S (cost (cont (f k)))
    | Hold _ body => S (cost (snd (body (view fields fresh))))
    end.
End Spec.

(* every declared field is assigned by clear (decidable form, used on the regenerated tables) *)
Definition mem_field (fl : field) (l : list field) : bool := existsb (String.eqb fl) l.
Definition all_reset (fields reset : list field) : bool := forallb (fun fl => mem_field fl reset) fields.
