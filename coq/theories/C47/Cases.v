(* C47 — check function for the per-run case files. *)
From CV Require Export C47.Model.

(* (width in bytes, modulo argument, blocks delivered by the generator, observed result,
    sizes of the buffers passed to ReadRandom, in call order) *)
Definition check_random (c : Z * option Z * list (list Z) * res Z * list Z) : bool :=
  let '(width, modulo, blocks, obs, sizes) := c in
  res_eqb Z.eqb (revertible_random width modulo blocks) obs &&
  (Z.of_nat (length sizes) =? reads_used width modulo blocks) &&
  match request_size width modulo with
  | Ok n => forallb (Z.eqb n) sizes
  | Err _ => match sizes with [] => true | _ => false end
  end.
