(* C47 — bounded and exactly uniform: proofs about the model of stdlib/random.go. *)
From CV Require Import C47.Model.
From Coq Require Import ZifyBool.

(* ---------- powers of two, masks ---------- *)
Lemma pow2_pos k : 0 <= k -> 0 < 2 ^ k.
Proof. intros. apply Z.pow_pos_nonneg; lia. Qed.

Lemma land_mask x k : 0 <= k -> Z.land x (2 ^ k - 1) = x mod 2 ^ k.
Proof.
  intros Hk. replace (2 ^ k - 1) with (Z.ones k) by (rewrite Z.ones_equiv; lia).
  apply Z.land_ones, Hk.
Qed.

Lemma lor_double_1 a : Z.lor (Z.shiftl a 1) 1 = 2 * a + 1.
Proof.
  rewrite Z.shiftl_mul_pow2 by lia. change (2 ^ 1) with 2.
  assert (Z.land (a * 2) 1 = 0) as H0.
  { replace 1 with (Z.ones 1) by reflexivity. rewrite Z.land_ones by lia.
    change (2 ^ 1) with 2. apply Z.mod_mul. lia. }
  rewrite <- Z.lxor_lor by exact H0. rewrite <- Z.add_nocarry_lxor by exact H0. lia.
Qed.

Lemma next_mask i : 0 <= i < 64 -> u64 (Z.lor (Z.shiftl (2 ^ i - 1) 1) 1) = 2 ^ (i + 1) - 1.
Proof.
  intros Hi. rewrite lor_double_1. unfold u64.
  rewrite Z.pow_add_r by lia. change (2 ^ 1) with 2.
  pose proof (pow2_pos i ltac:(lia)).
  assert (2 ^ i * 2 <= 2 ^ 64).
  { replace 64 with ((i + 1) + (63 - i)) by lia. rewrite Z.pow_add_r by lia.
    rewrite (Z.pow_add_r 2 i 1) by lia. change (2 ^ 1) with 2.
    pose proof (pow2_pos (63 - i) ltac:(lia)). nia. }
  replace (2 * (2 ^ i - 1) + 1) with (2 ^ i * 2 - 1) by lia. apply Z.mod_small. lia.
Qed.

(* BitLen *)
Lemma bit_len_spec z : 0 <= z ->
  0 <= bit_len z /\ z < 2 ^ bit_len z /\ (0 < bit_len z -> 2 ^ (bit_len z - 1) <= z).
Proof.
  intros Hz. unfold bit_len. destruct (Z.eqb_spec z 0) as [->|N].
  - simpl. lia.
  - assert (0 < z) as Hp by lia. pose proof (Z.log2_spec z Hp) as [L1 L2].
    pose proof (Z.log2_nonneg z). replace (Z.succ (Z.log2 z)) with (Z.log2 z + 1) in L2 by lia.
    replace (Z.log2 z + 1 - 1) with (Z.log2 z) by lia. lia.
Qed.

Lemma bit_len_unique z k : 0 <= z -> 0 <= k -> z < 2 ^ k -> (0 < k -> 2 ^ (k - 1) <= z) -> k = bit_len z.
Proof.
  intros Hz Hk H1 H2. destruct (bit_len_spec z Hz) as [B0 [B1 B2]].
  destruct (Z.lt_trichotomy k (bit_len z)) as [L|[E|G]]; [|exact E|].
  - exfalso. specialize (B2 ltac:(lia)).
    assert (2 ^ k <= 2 ^ (bit_len z - 1)) by (apply Z.pow_le_mono_r; lia). lia.
  - exfalso. specialize (H2 ltac:(lia)).
    assert (2 ^ bit_len z <= 2 ^ (k - 1)) by (apply Z.pow_le_mono_r; lia). lia.
Qed.

(* the loop `for max&mask != max` stops exactly at the bit length of max *)
Lemma mask_test max i : 0 <= max -> 0 <= i -> (Z.land max (2 ^ i - 1) =? max) = (max <? 2 ^ i).
Proof.
  intros Hm Hi. rewrite land_mask by exact Hi. pose proof (pow2_pos i Hi).
  destruct (Z.ltb_spec max (2 ^ i)).
  - rewrite Z.mod_small by lia. apply Z.eqb_refl.
  - apply Z.eqb_neq. pose proof (Z.mod_pos_bound max (2 ^ i) ltac:(lia)). lia.
Qed.

Lemma mask_loop_from max : 0 <= max < 2 ^ 64 -> forall fuel i,
  0 <= i <= bit_len max -> (bit_len max - i <= Z.of_nat fuel) ->
  (0 < i -> 2 ^ (i - 1) <= max) ->
  mask_loop fuel max (2 ^ i - 1) i = Ok (2 ^ bit_len max - 1, bit_len max).
Proof.
  intros Hm. destruct (bit_len_spec max ltac:(lia)) as [B0 [B1 B2]].
  assert (bit_len max <= 64) as B64.
  { destruct (Z.le_gt_cases (bit_len max) 64); [assumption|]. exfalso.
    specialize (B2 ltac:(lia)).
    assert (2 ^ 64 <= 2 ^ (bit_len max - 1)) by (apply Z.pow_le_mono_r; lia). lia. }
  induction fuel as [|f IH]; intros i Hi Hf Hlow.
  - assert (i = bit_len max) as -> by lia. simpl. rewrite mask_test by lia.
    destruct (Z.ltb_spec max (2 ^ bit_len max)); [reflexivity|lia].
  - cbn [mask_loop]. rewrite mask_test by lia.
    destruct (Z.ltb_spec max (2 ^ i)) as [Hlt|Hge].
    + assert (i = bit_len max) as -> by (apply bit_len_unique; lia). reflexivity.
    + assert (i < bit_len max) as Hlt.
      { destruct (Z.lt_ge_cases i (bit_len max)); [assumption|]. exfalso.
        assert (i = bit_len max) by lia. subst. lia. }
      rewrite next_mask by lia. apply IH; try lia.
      intros _. replace (i + 1 - 1) with i by lia. exact Hge.
Qed.

Theorem mask_loop_spec max : 0 <= max < 2 ^ 64 ->
  mask_loop mask_fuel max 0 0 = Ok (2 ^ bit_len max - 1, bit_len max).
Proof.
  intros Hm. destruct (bit_len_spec max ltac:(lia)) as [B0 [B1 B2]].
  assert (bit_len max <= 64) as B64.
  { destruct (Z.le_gt_cases (bit_len max) 64); [assumption|]. exfalso.
    specialize (B2 ltac:(lia)).
    assert (2 ^ 64 <= 2 ^ (bit_len max - 1)) by (apply Z.pow_le_mono_r; lia). lia. }
  apply (mask_loop_from max Hm mask_fuel 0); try lia. unfold mask_fuel. lia.
Qed.

(* both paths use: mask = 2^k - 1 with k = BitLen(modulo-1), byteSize = ceil(k/8) *)
Lemma sizes64_spec m : 0 < m <= 2 ^ 64 ->
  sizes64 m = Ok (bit_len (m - 1), (bit_len (m - 1) + 7) / 8).
Proof.
  intros Hm. unfold sizes64. rewrite mask_loop_spec by lia. simpl.
  rewrite Z.shiftr_div_pow2 by lia. reflexivity.
Qed.

Lemma random64_mod_spec m blocks : 0 < m <= 2 ^ 64 ->
  random64_mod m blocks = reject_loop (2 ^ bit_len (m - 1) - 1) (m - 1) blocks.
Proof.
  intros Hm. unfold random64_mod. destruct (Z.eqb_spec m 0); [lia|].
  rewrite mask_loop_spec by lia. reflexivity.
Qed.

Lemma random_big_mod_spec m blocks : 0 < m ->
  random_big_mod m blocks = reject_loop (2 ^ bit_len (m - 1) - 1) (m - 1) blocks.
Proof.
  intros Hm. unfold random_big_mod, big_sizes. destruct (Z.eqb_spec m 0); [lia|].
  destruct (bit_len_spec (m - 1) ltac:(lia)) as [B0 _].
  rewrite Z.shiftl_1_l. reflexivity.
Qed.

(* ---------- every accepted draw is below the modulus ---------- *)
Lemma accept_range k max block v : 0 <= k -> accept (2 ^ k - 1) max block = Some v -> 0 <= v <= max.
Proof.
  intros Hk. unfold accept. rewrite land_mask by exact Hk.
  destruct (Z.leb_spec (be_value block mod 2 ^ k) max); [|discriminate].
  intros H0; inversion H0; subst. pose proof (Z.mod_pos_bound (be_value block) (2 ^ k) (pow2_pos k Hk)). lia.
Qed.

Lemma reject_loop_range k max blocks v : 0 <= k ->
  reject_loop (2 ^ k - 1) max blocks = Ok v -> 0 <= v <= max.
Proof.
  intros Hk. induction blocks as [|b r IH]; simpl; [discriminate|].
  destruct (accept (2 ^ k - 1) max b) as [x|] eqn:E.
  - intros Hv; inversion Hv; subst. eapply accept_range; eauto.
  - exact IH.
Qed.

(* the loop returns the value of the first accepted block *)
Lemma reject_loop_first mask max pre b post v :
  Forall (fun x => accept mask max x = None) pre -> accept mask max b = Some v ->
  reject_loop mask max (pre ++ b :: post) = Ok v.
Proof.
  intros Hp Hb. induction pre as [|x pre IH]; simpl.
  - rewrite Hb. reflexivity.
  - inversion Hp; subst. rewrite H1. apply IH, H2.
Qed.

Theorem draw_lt_modulo width m blocks v :
  0 < m -> (width <= 8 -> m <= 2 ^ 64) ->
  revertible_random width (Some m) blocks = Ok v -> 0 <= v < m.
Proof.
  intros Hm Hw. unfold revertible_random. destruct (Z.leb_spec width 8).
  - rewrite random64_mod_spec by lia. intros Hr.
    apply reject_loop_range in Hr; [lia|]. apply (bit_len_spec (m - 1)); lia.
  - rewrite random_big_mod_spec by lia. intros Hr.
    apply reject_loop_range in Hr; [lia|]. apply (bit_len_spec (m - 1)); lia.
Qed.

Theorem zero_modulo_is_user_error width blocks :
  revertible_random width (Some 0) blocks = Err UserOther.
Proof. unfold revertible_random. destruct (width <=? 8); reflexivity. Qed.

(* ---------- big-endian value: blocks of length n <-> numbers below 256^n ---------- *)
Lemma fold_be acc bs :
  fold_left (fun a b => a * 256 + b) bs acc = acc * 256 ^ Z.of_nat (length bs) + be_value bs.
Proof.
  unfold be_value. revert acc. induction bs as [|b r IH]; intros acc.
  - simpl. lia.
  - cbn [fold_left length]. rewrite IH, (IH (0 * 256 + b)).
    rewrite Nat2Z.inj_succ, Z.pow_succ_r by lia. ring.
Qed.

Lemma be_value_cons b r : be_value (b :: r) = b * 256 ^ Z.of_nat (length r) + be_value r.
Proof. unfold be_value at 1. cbn [fold_left]. rewrite fold_be. ring. Qed.

Lemma be_value_snoc r b : be_value (r ++ [b]) = be_value r * 256 + b.
Proof. unfold be_value. rewrite fold_left_app. reflexivity. Qed.

Lemma be_value_range bs : Forall byte_ok bs -> 0 <= be_value bs < 256 ^ Z.of_nat (length bs).
Proof.
  induction bs as [|b r IH] using rev_ind; intros H.
  - simpl. unfold be_value; simpl. lia.
  - apply Forall_app in H. destruct H as [Hr Hb]. inversion Hb; subst. unfold byte_ok in *.
    specialize (IH Hr). rewrite be_value_snoc, app_length. simpl length.
    rewrite Nat2Z.inj_add, Z.pow_add_r by lia. change (256 ^ Z.of_nat 1) with 256. lia.
Qed.

Lemma block_of_length n x : length (block_of n x) = n.
Proof. revert x. induction n as [|k IH]; intros x; simpl; [reflexivity|]. rewrite app_length, IH. simpl. lia. Qed.

Lemma block_of_ok n x : block_ok (Z.of_nat n) (block_of n x).
Proof.
  split; [rewrite block_of_length; reflexivity|].
  revert x. induction n as [|k IH]; intros x; simpl; [constructor|].
  apply Forall_app. split; [apply IH|]. constructor; [|constructor].
  unfold byte_ok. apply Z.mod_pos_bound. lia.
Qed.

Lemma be_value_block_of n x : 0 <= x < 256 ^ Z.of_nat n -> be_value (block_of n x) = x.
Proof.
  revert x. induction n as [|k IH]; intros x Hx.
  - simpl in *. unfold be_value; simpl. lia.
  - cbn [block_of]. rewrite be_value_snoc. rewrite IH.
    + pose proof (Z.div_mod x 256 ltac:(lia)). lia.
    + rewrite Nat2Z.inj_succ, Z.pow_succ_r in Hx by lia.
      split; [apply Z.div_pos; lia|]. apply Z.div_lt_upper_bound; lia.
Qed.

Lemma block_of_be_value bs : Forall byte_ok bs -> block_of (length bs) (be_value bs) = bs.
Proof.
  induction bs as [|b r IH] using rev_ind; intros H; [reflexivity|].
  apply Forall_app in H. destruct H as [Hr Hb]. inversion Hb; subst. unfold byte_ok in *.
  rewrite app_length. simpl length. rewrite Nat.add_comm. cbn [block_of Nat.add].
  rewrite be_value_snoc.
  replace ((be_value r * 256 + b) / 256) with (be_value r).
  2:{ apply Z.div_unique with b; lia. }
  replace ((be_value r * 256 + b) mod 256) with b.
  2:{ apply Z.mod_unique with (be_value r); lia. }
  rewrite IH by exact Hr. reflexivity.
Qed.

(* without a modulo argument the map  block -> result  is a bijection onto [0, 2^(8*width)) *)
Theorem nomod_bijection (n : nat) :
  (forall b, block_ok (Z.of_nat n) b -> 0 <= random_nomod b < 2 ^ (8 * Z.of_nat n)) /\
  (forall b b', block_ok (Z.of_nat n) b -> block_ok (Z.of_nat n) b' -> random_nomod b = random_nomod b' -> b = b') /\
  (forall x, 0 <= x < 2 ^ (8 * Z.of_nat n) ->
     exists b, block_ok (Z.of_nat n) b /\ random_nomod b = x).
Proof.
  assert (2 ^ (8 * Z.of_nat n) = 256 ^ Z.of_nat n) as E.
  { rewrite Z.pow_mul_r by lia. reflexivity. }
  rewrite E. unfold random_nomod. split; [|split].
  - intros b [Hl Hb]. pose proof (be_value_range b Hb) as H. apply Nat2Z.inj in Hl. rewrite Hl in H. exact H.
  - intros b b' [Hl Hb] [Hl' Hb'] Hv. apply Nat2Z.inj in Hl. apply Nat2Z.inj in Hl'.
    rewrite <- (block_of_be_value b Hb), <- (block_of_be_value b' Hb'), Hl, Hl', Hv. reflexivity.
  - intros x Hx. exists (block_of n x). split; [apply block_of_ok|apply be_value_block_of, Hx].
Qed.

(* ---------- counting blocks ---------- *)
Lemma zrange_S n : zrange (S n) = zrange n ++ [Z.of_nat n].
Proof. unfold zrange. rewrite seq_S, map_app. reflexivity. Qed.

Lemma seq_shift_z b : forall a,
  map Z.of_nat (seq a b) = map (fun x => Z.of_nat a + x) (map Z.of_nat (seq 0 b)).
Proof.
  induction b as [|b IH]; intros a; [reflexivity|].
  cbn [seq map]. f_equal; [lia|].
  rewrite (IH (S a)), (IH 1%nat). rewrite !map_map.
  apply map_ext. intros x. lia.
Qed.

Lemma zrange_add a b : zrange (a + b) = zrange a ++ map (fun x => Z.of_nat a + x) (zrange b).
Proof. unfold zrange. rewrite seq_app, map_app. f_equal. apply seq_shift_z. Qed.

Lemma in_zrange x n : In x (zrange n) <-> 0 <= x < Z.of_nat n.
Proof.
  unfold zrange. rewrite in_map_iff. split.
  - intros [y [<- Hy]]. apply in_seq in Hy. lia.
  - intros H. exists (Z.to_nat x). split; [lia|]. apply in_seq. lia.
Qed.

Lemma count_none (p : Z -> bool) l : (forall x, In x l -> p x = false) -> length (filter p l) = 0%nat.
Proof.
  induction l as [|x l IH]; intros H; [reflexivity|]. simpl.
  rewrite (H x) by (left; reflexivity). apply IH. intros y Hy. apply H. right; exact Hy.
Qed.

Lemma count_eq K v : 0 <= v < Z.of_nat K -> length (filter (fun x => x =? v) (zrange K)) = 1%nat.
Proof.
  induction K as [|K IH]; intros Hv; [lia|].
  rewrite zrange_S, filter_app, app_length. simpl.
  destruct (Z.eqb_spec (Z.of_nat K) v) as [E|N].
  - rewrite count_none; [reflexivity|]. intros x Hx. apply in_zrange in Hx. apply Z.eqb_neq. lia.
  - rewrite IH by lia. reflexivity.
Qed.

Lemma filter_map_length {A B} (f : A -> B) (p : B -> bool) l :
  length (filter p (map f l)) = length (filter (fun x => p (f x)) l).
Proof.
  induction l as [|x l IH]; [reflexivity|]. simpl. destruct (p (f x)); simpl; rewrite IH; reflexivity.
Qed.

Lemma count_mod K Q v : (0 < K)%nat -> 0 <= v < Z.of_nat K ->
  length (filter (fun x => x mod Z.of_nat K =? v) (zrange (Q * K))) = Q.
Proof.
  intros HK Hv. induction Q as [|Q IH]; [reflexivity|].
  replace (S Q * K)%nat with (Q * K + K)%nat by lia.
  rewrite zrange_add, filter_app, app_length, IH, filter_map_length.
  rewrite (filter_ext_in _ (fun x => x =? v)).
  - rewrite count_eq by exact Hv. lia.
  - intros x Hx. apply in_zrange in Hx. f_equal.
    rewrite Nat2Z.inj_mul, Z.add_comm, Z_mod_plus_full. apply Z.mod_small. exact Hx.
Qed.

(* all blocks of length n, in lexicographic order, have the values 0, 1, ..., 256^n - 1 *)
Lemma all_blocks_len n : forall b, In b (all_blocks n) -> length b = n.
Proof.
  induction n as [|n IH]; intros b Hb.
  - simpl in Hb. destruct Hb as [<-|[]]. reflexivity.
  - cbn [all_blocks] in Hb. apply in_flat_map in Hb. destruct Hb as [x [_ Hb]].
    apply in_map_iff in Hb. destruct Hb as [r [<- Hr]]. simpl. f_equal. apply IH, Hr.
Qed.

Lemma all_blocks_ok n : forall b, In b (all_blocks n) -> block_ok (Z.of_nat n) b.
Proof.
  intros b Hb. split; [rewrite (all_blocks_len n b Hb); reflexivity|].
  revert b Hb. induction n as [|n IH]; intros b Hb.
  - simpl in Hb. destruct Hb as [<-|[]]. constructor.
  - cbn [all_blocks] in Hb. apply in_flat_map in Hb. destruct Hb as [x [Hx Hb]].
    apply in_map_iff in Hb. destruct Hb as [r [<- Hr]]. constructor; [|apply IH, Hr].
    apply in_zrange in Hx. unfold byte_ok. simpl in Hx. lia.
Qed.

Lemma chunks B K :
  flat_map (fun b => map (fun x => b * Z.of_nat K + x) (zrange K)) (zrange B) = zrange (B * K).
Proof.
  induction B as [|B IH]; [reflexivity|].
  rewrite zrange_S, flat_map_app, IH. simpl flat_map. rewrite app_nil_r.
  replace (S B * K)%nat with (B * K + K)%nat by lia. rewrite zrange_add. f_equal.
  apply map_ext. intros x. lia.
Qed.

Lemma flat_map_ext_in' {A B} (f g : A -> list B) l :
  (forall x, In x l -> f x = g x) -> flat_map f l = flat_map g l.
Proof.
  induction l as [|x l IH]; intros H; [reflexivity|]. simpl.
  rewrite (H x) by (left; reflexivity). f_equal. apply IH. intros y Hy. apply H. right; exact Hy.
Qed.

Lemma all_blocks_values n : map be_value (all_blocks n) = zrange (256 ^ n).
Proof.
  induction n as [|n IH]; [reflexivity|].
  cbn [all_blocks]. rewrite flat_map_concat_map, concat_map, map_map.
  rewrite <- flat_map_concat_map.
  replace (256 ^ S n)%nat with (256 * 256 ^ n)%nat by (simpl; lia).
  rewrite <- chunks. apply flat_map_ext_in'. intros b _.
  rewrite map_map. rewrite <- IH, map_map.
  apply map_ext_in. intros r Hr. rewrite be_value_cons, (all_blocks_len n r Hr).
  rewrite Nat2Z.inj_pow. reflexivity.
Qed.

(* how accept decides, in arithmetic terms *)
Lemma accepted_as_mod k max v block : 0 <= k -> 0 <= v <= max ->
  accepted_as (2 ^ k - 1) max v block = (be_value block mod 2 ^ k =? v).
Proof.
  intros Hk Hv. unfold accepted_as, accept. rewrite land_mask by exact Hk.
  destruct (Z.leb_spec (be_value block mod 2 ^ k) max); [reflexivity|].
  symmetry. apply Z.eqb_neq. lia.
Qed.

(* the number of blocks of n bytes accepted as v, for ANY v <= max, is 2^(8n-k) *)
Theorem accepted_count k max v n :
  0 <= k -> 0 <= v <= max -> max < 2 ^ k -> k <= 8 * Z.of_nat n ->
  Z.of_nat (length (filter (accepted_as (2 ^ k - 1) max v) (all_blocks n))) = 2 ^ (8 * Z.of_nat n - k).
Proof.
  intros Hk Hv Hmax Hkn.
  rewrite (filter_ext _ (fun b => (fun x => x mod 2 ^ k =? v) (be_value b)))
    by (intros b; apply accepted_as_mod; assumption).
  rewrite <- (filter_map_length be_value (fun x => x mod 2 ^ k =? v)), all_blocks_values.
  set (k' := Z.to_nat k). set (q := (8 * n - k')%nat).
  assert ((256 ^ n)%nat = (2 ^ q * 2 ^ k')%nat) as E.
  { change 256%nat with (2 ^ 8)%nat. rewrite <- Nat.pow_mul_r, <- Nat.pow_add_r. f_equal. unfold q, k'. lia. }
  assert (2 ^ k = Z.of_nat (2 ^ k')) as Ek.
  { rewrite Nat2Z.inj_pow. unfold k'. rewrite Z2Nat.id by exact Hk. reflexivity. }
  rewrite E, Ek. rewrite count_mod.
  - rewrite Nat2Z.inj_pow. f_equal. unfold q, k'. lia.
  - apply Nat.neq_0_lt_0, Nat.pow_nonzero. lia.
  - rewrite <- Ek. lia.
Qed.

(* exact uniformity, 64-bit path: with the mask, bitSize and byteSize the code computes, every
   value below the modulus is hit by the same number of byte blocks, 2^(8*byteSize - bitSize) *)
Theorem uniform64 m mask bitSize v :
  0 < m <= 2 ^ 64 -> mask_loop mask_fuel (m - 1) 0 0 = Ok (mask, bitSize) -> 0 <= v < m ->
  let byteSize := Z.shiftr (bitSize + 7) 3 in
  Z.of_nat (length (filter (accepted_as mask (m - 1) v) (all_blocks (Z.to_nat byteSize))))
  = 2 ^ (8 * byteSize - bitSize).
Proof.
  intros Hm Hl Hv byteSize. rewrite mask_loop_spec in Hl by lia. inversion Hl; subst mask bitSize. clear Hl.
  destruct (bit_len_spec (m - 1) ltac:(lia)) as [B0 [B1 _]].
  assert (byteSize = (bit_len (m - 1) + 7) / 8) as Eb by (unfold byteSize; rewrite Z.shiftr_div_pow2 by lia; reflexivity).
  assert (0 <= byteSize) by (rewrite Eb; apply Z.div_pos; lia).
  assert (bit_len (m - 1) <= 8 * byteSize).
  { rewrite Eb. pose proof (Z.div_mod (bit_len (m - 1) + 7) 8 ltac:(lia)).
    pose proof (Z.mod_pos_bound (bit_len (m - 1) + 7) 8 ltac:(lia)). lia. }
  rewrite accepted_count by (rewrite ?Z2Nat.id by lia; lia). rewrite Z2Nat.id by lia. reflexivity.
Qed.

Theorem uniform_big m mask bitSize byteSize v :
  0 < m -> big_sizes m = (mask, bitSize, byteSize) -> 0 <= v < m ->
  Z.of_nat (length (filter (accepted_as mask (m - 1) v) (all_blocks (Z.to_nat byteSize))))
  = 2 ^ (8 * byteSize - bitSize).
Proof.
  intros Hm Hs Hv. unfold big_sizes in Hs.
  destruct (bit_len_spec (m - 1) ltac:(lia)) as [B0 [B1 _]].
  rewrite Z.shiftl_1_l in Hs. rewrite Z.shiftr_div_pow2 in Hs by lia. change (2 ^ 3) with 8 in Hs.
  inversion Hs; subst mask bitSize. clear Hs.
  set (bs := (bit_len (m - 1) + 7) / 8) in *.
  assert (0 <= bs) by (apply Z.div_pos; lia).
  assert (bit_len (m - 1) <= 8 * bs).
  { unfold bs. pose proof (Z.div_mod (bit_len (m - 1) + 7) 8 ltac:(lia)).
    pose proof (Z.mod_pos_bound (bit_len (m - 1) + 7) 8 ltac:(lia)). lia. }
  rewrite accepted_count by (rewrite ?Z2Nat.id by lia; lia). rewrite Z2Nat.id by lia. reflexivity.
Qed.

(* so any two values below the modulus are equally likely under uniformly random bytes *)
Corollary no_modulo_bias64 m mask bitSize v w :
  0 < m <= 2 ^ 64 -> mask_loop mask_fuel (m - 1) 0 0 = Ok (mask, bitSize) ->
  0 <= v < m -> 0 <= w < m ->
  let n := Z.to_nat (Z.shiftr (bitSize + 7) 3) in
  length (filter (accepted_as mask (m - 1) v) (all_blocks n)) =
  length (filter (accepted_as mask (m - 1) w) (all_blocks n)).
Proof.
  intros Hm Hl Hv Hw n. subst n. apply Nat2Z.inj.
  pose proof (uniform64 m mask bitSize v Hm Hl Hv) as Ev.
  pose proof (uniform64 m mask bitSize w Hm Hl Hw) as Ew. cbv zeta in Ev, Ew.
  rewrite Ev, Ew. reflexivity.
Qed.

Corollary no_modulo_bias_big m mask bitSize byteSize v w :
  0 < m -> big_sizes m = (mask, bitSize, byteSize) -> 0 <= v < m -> 0 <= w < m ->
  length (filter (accepted_as mask (m - 1) v) (all_blocks (Z.to_nat byteSize))) =
  length (filter (accepted_as mask (m - 1) w) (all_blocks (Z.to_nat byteSize))).
Proof.
  intros Hm Hs Hv Hw. apply Nat2Z.inj.
  rewrite (uniform_big m mask bitSize byteSize v Hm Hs Hv), (uniform_big m mask bitSize byteSize w Hm Hs Hw).
  reflexivity.
Qed.

(* more than half of all blocks are accepted: the modulus exceeds half the mask range *)
Theorem acceptance_at_least_half m : 1 < m -> 2 ^ bit_len (m - 1) < 2 * m.
Proof.
  intros Hm. destruct (bit_len_spec (m - 1) ltac:(lia)) as [B0 [B1 B2]].
  assert (0 < bit_len (m - 1)).
  { unfold bit_len. destruct (Z.eqb_spec (m - 1) 0); [lia|]. pose proof (Z.log2_nonneg (m - 1)). lia. }
  specialize (B2 ltac:(lia)).
  replace (bit_len (m - 1)) with (bit_len (m - 1) - 1 + 1) by lia.
  rewrite Z.pow_add_r by lia. change (2 ^ 1) with 2. lia.
Qed.
