(* C47 — code-shaped model of stdlib/random.go: getUint64RandomNumber (types of at most 8 bytes)
   and getBigRandomNumber (UInt128/256, Word128/256).

   The random generator is a source of byte blocks: each call ReadRandom(buf) fills buf, i.e.
   delivers the next block, whose length is len(buf).  Bytes are integers in [0,256). *)
From CV Require Export Base.Prelude.

Definition byte_ok (b : Z) : Prop := 0 <= b < 256.
Definition block_ok (n : Z) (bs : list Z) : Prop := Z.of_nat (length bs) = n /\ Forall byte_ok bs.

(* binary.BigEndian.Uint64 of an 8-byte buffer whose leading bytes are zero, resp.
   big.Int.SetBytes: the big-endian value of the block *)
Definition be_value (bs : list Z) : Z := fold_left (fun acc b => acc * 256 + b) bs 0.

(* ---------- 64-bit path ---------- *)
Definition u64 (z : Z) : Z := z mod 2 ^ 64.

(*  mask := uint64(0); bitSize := 0
    for max&mask != max { bitSize++; mask = (mask << 1) | 1 }           *)
Fixpoint mask_loop (fuel : nat) (max mask bitSize : Z) : res (Z * Z) :=
  if Z.land max mask =? max then Ok (mask, bitSize)
  else match fuel with
       | O => Err OutOfFuel
       | S f => mask_loop f max (u64 (Z.lor (Z.shiftl mask 1) 1)) (bitSize + 1)
       end.

Definition mask_fuel : nat := 64.

(* one round of the rejection loop on a given block: Some v = accepted with result v *)
Definition accept (mask max : Z) (block : list Z) : option Z :=
  let random := Z.land (be_value block) mask in
  if random <=? max then Some random else None.

(* the rejection loop over the blocks the generator delivers; an exhausted source = the loop
   would keep waiting (model-only outcome OutOfFuel) *)
Fixpoint reject_loop (mask max : Z) (blocks : list (list Z)) : res Z :=
  match blocks with
  | [] => Err OutOfFuel
  | b :: r => match accept mask max b with
              | Some v => Ok v
              | None => reject_loop mask max r
              end
  end.

(* getUint64RandomNumber with a modulo argument; the result is then cast to the type *)
Definition random64_mod (modulo : Z) (blocks : list (list Z)) : res Z :=
  if modulo =? 0 then Err UserOther                  (* ZeroModuloError *)
  else
    let max := modulo - 1 in
    let* (mask, bitSize) := mask_loop mask_fuel max 0 0 in
    reject_loop mask max blocks.

(* sizes requested from the generator in that case *)
Definition sizes64 (modulo : Z) : res (Z * Z) :=        (* (bitSize, byteSize) *)
  let* (mask, bitSize) := mask_loop mask_fuel (modulo - 1) 0 0 in
  Ok (bitSize, Z.shiftr (bitSize + 7) 3).

(* without modulo: `bytes` random bytes in the low end of the zeroed 8-byte buffer *)
Definition random_nomod (block : list Z) : Z := be_value block.

(* ---------- big path ---------- *)
Definition bit_len (z : Z) : Z := if z =? 0 then 0 else Z.log2 z + 1.       (* big.Int.BitLen *)

Definition big_sizes (modulo : Z) : Z * Z * Z :=                            (* (mask, bitSize, byteSize) *)
  let max := modulo - 1 in
  let bitSize := bit_len max in
  (Z.shiftl 1 bitSize - 1, bitSize, Z.shiftr (bitSize + 7) 3).

Definition random_big_mod (modulo : Z) (blocks : list (list Z)) : res Z :=
  if modulo =? 0 then Err UserOther
  else
    let '(mask, _, _) := big_sizes modulo in
    reject_loop mask (modulo - 1) blocks.

(* ---------- the whole function, by type width in bytes ---------- *)
(* width 1,2,4,8 use the 64-bit path, 16 and 32 the big path; modulo = None when the argument is absent *)
Definition revertible_random (width : Z) (modulo : option Z) (blocks : list (list Z)) : res Z :=
  match modulo with
  | None => match blocks with b :: _ => Ok (random_nomod b) | [] => Err OutOfFuel end
  | Some m => if width <=? 8 then random64_mod m blocks else random_big_mod m blocks
  end.

(* number of bytes requested per ReadRandom call *)
Definition request_size (width : Z) (modulo : option Z) : res Z :=
  match modulo with
  | None => Ok width
  | Some m => if m =? 0 then Err UserOther
              else if width <=? 8 then let* (_, bsz) := sizes64 m in Ok bsz
              else let '(_, _, bsz) := big_sizes m in Ok bsz
  end.

(* ---------- enumeration of byte blocks (used only to STATE the counting theorem) ---------- *)
Definition zrange (n : nat) : list Z := map Z.of_nat (seq 0 n).
Fixpoint all_blocks (n : nat) : list (list Z) :=
  match n with
  | O => [[]]
  | S k => flat_map (fun b => map (cons b) (all_blocks k)) (zrange 256)
  end.

Definition accepted_as (mask max v : Z) (block : list Z) : bool :=
  match accept mask max block with Some x => x =? v | None => false end.

(* the block with a given value *)
Fixpoint block_of (n : nat) (x : Z) : list Z :=
  match n with
  | O => []
  | S k => block_of k (x / 256) ++ [x mod 256]
  end.

(* number of ReadRandom calls made (blocks consumed) *)
Fixpoint reject_reads (mask max : Z) (blocks : list (list Z)) : Z :=
  match blocks with
  | [] => 0
  | b :: r => match accept mask max b with
              | Some _ => 1
              | None => 1 + reject_reads mask max r
              end
  end.

Definition reads_used (width : Z) (modulo : option Z) (blocks : list (list Z)) : Z :=
  match modulo with
  | None => 1
  | Some m =>
      if m =? 0 then 0
      else if width <=? 8 then
        match mask_loop mask_fuel (m - 1) 0 0 with
        | Ok (mask, _) => reject_reads mask (m - 1) blocks
        | Err _ => 0
        end
      else let '(mask, _, _) := big_sizes m in reject_reads mask (m - 1) blocks
  end.
