(* C31: metering vs. caches.  Definitions only (proofs in C31/Proofs.v).

   A run is a FUNCTION of (program, state, cache):
   * the program is a tree of commands: report a usage to the gauge ([Meter kind amount], the model of
     common.UseMemory / common.UseComputation), read / write the state, consult a process-wide cache of a
     pure function ([Lookup]: small-integer value cache, member resolvers, entitlement-map images,
     type-ID strings ...), finish with a result;
   * the state [store] is what the property calls "the same state" (ledger + embedder-provided programs);
   * the cache [table] (shared with C36: C36/Memo.v) is process history: whatever earlier programs left.
   On a cache miss the implementation computes the value ([f key]) and stores it.  What that computation
   WOULD report to the gauge if it were metered is [fill_cost key]; whether it is reported is the switch
   [metered_fill].  The Go code's discipline (interpreter/integer.go: "It is important NOT to meter the
   memory usage in this function") is [metered_fill = false]. *)
From Coq Require Import ZArith List Bool.
From CV Require Import C36.Memo.
Import ListNotations.
Open Scope Z_scope.

Definition event := (Z * Z)%type.                 (* (kind, amount) as seen by the gauge *)
Definition store := Z -> Z.
Definition set_store (s : store) (a v : Z) : store := fun a' => if Z.eqb a' a then v else s a'.

Inductive prog : Type :=
| Done (r : Z)
| Meter (kind amount : Z) (k : prog)
| Lookup (key : Z) (cont : Z -> prog)
| Get (a : Z) (cont : Z -> prog)
| Put (a v : Z) (k : prog).

Record outcome := mko { trace : list event; value : Z; final : store; cache : table }.

Section Run.
  Variable f : Z -> Z.
  Variable fill_cost : Z -> list event.
  Variable metered_fill : bool.

  Fixpoint run (p : prog) (s : store) (c : table) : outcome :=
    match p with
    | Done r => mko [] r s c
    | Meter k a p' =>
        let o := run p' s c in mko ((k, a) :: trace o) (value o) (final o) (cache o)
    | Lookup key cont =>
        match c key with
        | Some v => run (cont v) s c
        | None =>
            let v := f key in
            let o := run (cont v) s (upd c key v) in
            mko ((if metered_fill then fill_cost key else []) ++ trace o) (value o) (final o) (cache o)
        end
    | Get a cont => run (cont (s a)) s c
    | Put a v p' => run p' (set_store s a v) c
    end.

  (* the cache left behind by a history of earlier runs (each with its own state) *)
  Definition cache_after (h : list (prog * store)) (c0 : table) : table :=
    fold_left (fun c ps => cache (run (fst ps) (snd ps) c)) h c0.
End Run.
