(* C31: obligation on the table of cache-fill sites regenerated from /repo's source (Gen/GenC31Fill.v):
   no function that fills a process-wide cache can report to a gauge, i.e. the switch [metered_fill] of the
   model is [false] at every real site (unless allow-listed with a reason). *)
From Coq Require Import List String Bool.
From CV Require Import C36.Memo Gen.GenC31Fill.
Import ListNotations.
Open Scope string_scope.

Definition fill_ok (m : string * bool) : bool := negb (snd m) || mem_field ("fill:" ++ fst m) fill_exempt.

Lemma fills_unmetered : forallb fill_ok fill_sites = true.
Proof. vm_compute. reflexivity. Qed.

Lemma fill_anchors_present :
  existsb (fun m => String.eqb (fst m) "interpreter:smallIntegerValueCache.Get:m") fill_sites = true
  /\ existsb (fun m => String.eqb (fst m) "sema:EntitlementMapAccess.entitlementImage:images") fill_sites = true
  /\ existsb (fun m => String.eqb (fst m) "sema:FunctionType.ID:typeID") fill_sites = true
  /\ existsb (fun m => String.eqb (fst m) "sema:CompositeType.ComputeAndCacheMembers:memberResolvers") fill_sites = true.
Proof. vm_compute. repeat split. Qed.
