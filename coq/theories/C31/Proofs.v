(* C31: proofs.  Unmetered fill => the usage trace, the result and the final state of a run do not
   depend on the cache; runs keep caches consistent; hence no history of earlier programs changes the
   trace of the next one.  Metered fill => refuted. *)
From Coq Require Import ZArith List Bool Lia.
From CV Require Import C36.Memo C36.Proofs C31.Model.
Import ListNotations.
Open Scope Z_scope.

Section Indep.
  Variable f : Z -> Z.
  Variable fill_cost : Z -> list event.
  Notation run := (run f fill_cost false).

  Lemma run_cache_independent p : forall s c1 c2,
    consistent f c1 -> consistent f c2 ->
    trace (run p s c1) = trace (run p s c2)
    /\ value (run p s c1) = value (run p s c2)
    /\ (forall a, final (run p s c1) a = final (run p s c2) a).
  Proof.
    induction p as [r | k a p IH | key cont IH | a cont IH | a v p IH]; intros s c1 c2 H1 H2; simpl.
    - repeat split; reflexivity.
    - destruct (IH s c1 c2 H1 H2) as [T [V F]]. simpl. repeat split; auto. now rewrite T.
    - destruct (c1 key) as [v1 |] eqn:E1; destruct (c2 key) as [v2 |] eqn:E2; simpl.
      + apply H1 in E1. apply H2 in E2. subst. now apply IH.
      + apply H1 in E1. subst. apply IH; auto. now apply upd_consistent.
      + apply H2 in E2. subst. apply IH; auto. now apply upd_consistent.
      + apply IH; now apply upd_consistent.
    - now apply IH.
    - now apply IH.
  Qed.

  Lemma run_keeps_consistent p : forall s c, consistent f c -> consistent f (cache (run p s c)).
  Proof.
    induction p as [r | k a p IH | key cont IH | a cont IH | a v p IH]; intros s c H; simpl.
    - assumption.
    - now apply IH.
    - destruct (c key) as [v |] eqn:E; simpl.
      + now apply IH.
      + apply IH. now apply upd_consistent.
    - now apply IH.
    - now apply IH.
  Qed.

  Theorem meter_trace_cache_independent p s c1 c2 :
    consistent f c1 -> consistent f c2 -> trace (run p s c1) = trace (run p s c2).
  Proof. intros H1 H2. now destruct (run_cache_independent p s c1 c2 H1 H2). Qed.

  Lemma cache_after_consistent h : forall c0,
    consistent f c0 -> consistent f (cache_after f fill_cost false h c0).
  Proof.
    induction h as [| [p s] h IH]; intros c0 H; simpl; [assumption |].
    apply IH. now apply run_keeps_consistent.
  Qed.

  (* whatever ran before in this process (h1), and whatever ran before in another process (h2, e.g. nothing:
     a fresh process), the next run reports the same usages, returns the same value and leaves the same state *)
  Theorem meter_trace_history_independent h1 h2 p s :
    trace (run p s (cache_after f fill_cost false h1 empty_table))
    = trace (run p s (cache_after f fill_cost false h2 empty_table))
    /\ value (run p s (cache_after f fill_cost false h1 empty_table))
       = value (run p s (cache_after f fill_cost false h2 empty_table)).
  Proof.
    destruct (run_cache_independent p s _ _
                (cache_after_consistent h1 _ (empty_consistent f))
                (cache_after_consistent h2 _ (empty_consistent f))) as [T [V _]].
    now split.
  Qed.
End Indep.

(* the discipline is necessary: if the fill path meters, a cold and a warm process disagree *)
Definition indep_statement (f : Z -> Z) (fill_cost : Z -> list event) (metered : bool) : Prop :=
  forall p s c1 c2, consistent f c1 -> consistent f c2 ->
    trace (run f fill_cost metered p s c1) = trace (run f fill_cost metered p s c2).

Lemma metered_fill_refuted :
  exists f fill_cost, ~ indep_statement f fill_cost true.
Proof.
  exists (fun k => k + 1), (fun _ => [(7, 16)]). intro H.
  specialize (H (Lookup 0 (fun v => Meter 1 v (Done v))) (fun _ => 0) empty_table (upd empty_table 0 1)
                (empty_consistent _)).
  assert (C : consistent (fun k => k + 1) (upd empty_table 0 1)).
  { change 1 with ((fun k => k + 1) 0) at 2. apply upd_consistent. apply empty_consistent. }
  specialize (H C). vm_compute in H. discriminate H.
Qed.
