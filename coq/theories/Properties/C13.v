(* C13  Saturating arithmetic clamps to the type's range.
   Property theorems only; proofs are in Num/IntProofs.v.
   (Integer kinds here; the fixed-point kinds are covered in Properties/C15.v's model.) *)
From CV Require Import Num.IntModel Num.IntProofs.

(* For every kind and every saturating operation that sema declares for it, the code-shaped model
   returns the exact result clamped into the range of the type, failing only for a zero divisor. *)
Theorem C13_saturating_clamps : forall k op v o,
  wf_kind k -> sat_declared k op = true -> in_range k v -> in_range k o ->
  sat_model k op v o = spec_sat k op v o.
Proof. exact sat_model_correct. Qed.
Print Assumptions C13_saturating_clamps.

Theorem C13_result_is_clamped_exact : forall k op v o z,
  wf_kind k -> spec_sat k op v o = Ok z -> z = clamp k (exact op v o).
Proof. exact spec_sat_sound. Qed.
Print Assumptions C13_result_is_clamped_exact.

(* clamp lands in the range and is the identity on representable results *)
Theorem C13_clamp_in_range : forall k z, wf_kind k ->
  (match kmin k, kmax k with Some m, Some M => m <= M | _, _ => True end) ->
  in_range k (clamp k z) /\ (in_range k z -> clamp k z = z).
Proof. exact clamp_in_range. Qed.
Print Assumptions C13_clamp_in_range.

Example C13_ex :
  sat_model (KSigned 8) OAdd 100 100 = Ok 127 /\ sat_model (KSigned 8) OSub (-100) 100 = Ok (-128) /\
  sat_model (KSigned 8) OMul (-128) (-1) = Ok 127 /\ sat_model (KSigned 8) ODiv (-128) (-1) = Ok 127 /\
  sat_model (KSigned 8) ODiv 5 0 = Err DivZero /\
  sat_model (KUnsigned 8) OSub 3 5 = Ok 0 /\ sat_model (KUnsigned 64) OMul (2 ^ 63) 2 = Ok (2 ^ 64 - 1) /\
  sat_model (KSigned 256) OMul (2 ^ 200) (- 2 ^ 200) = Ok (- 2 ^ 255) /\
  sat_model KUInt OSub 3 5 = Ok 0.
Proof. vm_compute. repeat split. Qed.

(* ---- fixed-point kinds (Fix64, UFix64, Fix128, UFix128): model and proofs shared with C15.
   (imported here, after the integer theorems, so that the names above keep their Num.IntModel meaning) ---- *)
From CV Require Import C15.Model C15.Proofs64 C15.ProofsLib.

(* Fix64 / UFix64 saturating functions are code inside /repo (transcribed): no assumption *)
Theorem C13_fix64_saturating_clamps : forall op a b,
  n_in_range NFix64 a -> n_in_range NFix64 b -> fix64_sat op a b = spec_sat NFix64 op a b.
Proof. exact fix64_sat_correct. Qed.
Print Assumptions C13_fix64_saturating_clamps.

Theorem C13_ufix64_saturating_clamps : forall op a b,
  sat_declared NUFix64 op = true -> n_in_range NUFix64 a -> n_in_range NUFix64 b ->
  ufix64_sat op a b = spec_sat NUFix64 op a b.
Proof. exact ufix64_sat_correct. Qed.
Print Assumptions C13_ufix64_saturating_clamps.

(* all four fixed-point kinds with the external fixed-point library as assumed (a hypothesis, not an axiom);
   div_edge excludes the library's known division defect (known_findings/C13.json) *)
Theorem C13_fixed_saturating_clamps_partial : forall lib_fmd lib_add lib_sub lib_mod lib_neg,
  lib_as_assumed lib_fmd lib_add lib_sub lib_mod lib_neg ->
  forall k op a b, is_fixed k = true -> sat_declared k op = true -> n_in_range k a -> n_in_range k b ->
  ~ div_edge k op a b ->
  sat_model lib_fmd lib_add lib_sub k op a b = spec_sat k op a b.
Proof. exact sat_model_correct. Qed.
Print Assumptions C13_fixed_saturating_clamps_partial.

Example C13_fix64_ex :
  fix64_sat FDiv 9223372036854775807 (-50000000) = spec_sat NFix64 FDiv 9223372036854775807 (-50000000).
Proof. vm_compute. reflexivity. Qed.
