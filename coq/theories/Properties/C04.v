(* C04  References to moved or destroyed resources become unusable.
   Property theorems only; model: C02/Model.v, proofs: C02/RefProofs.v (invariant from C02/Proofs.v).
   [moved_by c st] is the resource (a whole tree) that command c moves or destroys in state st,
   obtained by a pure look-up of the source place; [uuids T] lists T and everything nested in it. *)
From Coq Require Import ZArith List.
From CV Require Import C02.Model C02.Proofs C02.RefProofs.
Import ListNotations.
Open Scope Z_scope.

(* After a resource is moved (variable, container slot, storage, method argument) or destroyed,
   every ephemeral reference previously taken to it or to any resource nested inside it is dead... *)
Theorem C04_ref_invalidated_after_move : forall c st st' T u r,
  step c st = Done st' -> moved_by c st = Some T -> In u (uuids T) ->
  assoc r (refs st) = Some (REph u) -> assoc r (refs st') = Some RDead.
Proof. exact ref_invalidated_after_move. Qed.
Print Assumptions C04_ref_invalidated_after_move.

(* ... and stays dead in every later state: every later use fails with the invalidated-reference error *)
Theorem C04_dead_forever : forall cs st st' r,
  run cs st = Done st' -> assoc r (refs st) = Some RDead ->
  assoc r (refs st') = Some RDead /\ forall k, step (CUse r k) st' = Fail EInvalidRef.
Proof. exact dead_forever. Qed.
Print Assumptions C04_dead_forever.

(* so do stepping into it, unwrapping, casting, and using it as the receiver of a mutation *)
Theorem C04_dead_uses_fail : forall st r, assoc r (refs st) = Some RDead ->
  (forall r' s, step (CRefStep r' (BRef r) s) st = Fail EInvalidRef) /\
  (forall r', step (CRefUnwrap r' r) st = Fail EInvalidRef) /\
  (forall r', step (CRefCopy r' r) st = Fail EInvalidRef) /\
  (forall r' t f, step (CRefCast r' r t f) st = Fail EInvalidRef) /\
  (forall t, step (CSetTag (BRef r) t) st = Fail EInvalidRef) /\
  (forall d s, step (CXfer (PChild (BRef r) d) s) st = Fail EInvalidRef).
Proof. exact dead_uses_fail. Qed.
Print Assumptions C04_dead_uses_fail.

(* a reference obtained by stepping into a resource targets a resource nested in it (so the
   first theorem applies to it whenever the outer resource, or anything containing it, moves) *)
Theorem C04_step_target_nested : forall st r b s p c st',
  base_res st b = Done p -> peek_kid s (r_kids p) = Some c -> step (CRefStep r b s) st = Done st' ->
  assoc r (refs st') = Some (REph (r_uuid c)) /\ In (r_uuid c) (uuids p).
Proof. exact step_target_nested. Qed.
Print Assumptions C04_step_target_nested.

(* a copy of a reference value (plain copy, function argument / result, stored in a struct field,
   array, dictionary or optional and read back, directly or through a reference to the holder) is a
   tracked reference to the same target, so it dies with the target like the original *)
Theorem C04_copy_same_target : forall st r r0 u st',
  step (CRefCopy r r0) st = Done st' -> assoc r0 (refs st) = Some (REph u) ->
  assoc r (refs st') = Some (REph u) /\ assoc r0 (refs st') = Some (REph u).
Proof. exact copy_same_target. Qed.
Print Assumptions C04_copy_same_target.

(* References to a resource that has not moved stay usable ... *)
Theorem C04_ref_stable_if_not_moved : forall c st st' u r,
  wf st -> step c st = Done st' ->
  assoc r (refs st) = Some (REph u) ->
  (forall T, moved_by c st = Some T -> ~ In u (uuids T)) ->
  assoc r (refs st') = Some (REph u) /\
  exists x, find_st u st' = Some x /\ r_uuid x = u /\
            step (CUse r UTag) st' = Done (add_log st' (LInt (r_tag x))).
Proof. exact ref_stable_if_not_moved. Qed.
Print Assumptions C04_ref_stable_if_not_moved.

(* ... and read current contents: a change made through another access path is seen *)
Theorem C04_ref_reads_current : forall st b x t r,
  wf st -> base_res st b = Done x -> assoc r (refs st) = Some (REph (r_uuid x)) ->
  exists st', step (CSetTag b t) st = Done st' /\
              step (CUse r UTag) st' = Done (add_log st' (LInt t)).
Proof. exact ref_reads_current. Qed.
Print Assumptions C04_ref_reads_current.

(* Storage references are never cleared and always reach the value currently stored at their
   path, subject to a dynamic check of its type. *)
Theorem C04_storage_ref_kept : forall c st st' r p t, step c st = Done st' ->
  assoc r (refs st) = Some (RSto p t) -> assoc r (refs st') = Some (RSto p t).
Proof. exact sto_ref_kept. Qed.
Print Assumptions C04_storage_ref_kept.

Theorem C04_storage_ref_reads_current : forall st r p t, assoc r (refs st) = Some (RSto p t) ->
  step (CUse r UTag) st =
  match assoc p (store st) with
  | Some x => if has_ty t x then Done (add_log st (LInt (r_tag x))) else Fail EDeref
  | None => Fail EDeref
  end.
Proof. exact sto_ref_reads_current. Qed.
Print Assumptions C04_storage_ref_reads_current.

(* the states the theorems with [wf] speak about include every reachable state *)
Theorem C04_reachable_wf : forall st, reach st -> wf st.
Proof. exact reach_wf. Qed.
Print Assumptions C04_reachable_wf.

(* ---- non-vacuity *)
Definition ex_cmds : list cmd :=
  [ CXfer (PVar 1) (SNew false 2); CXfer (PVar 2) (SNew true 6); CXfer (PVar 3) (SNew true 7);
    CXfer (PChild (BVar 1) SlArrEnd) (SPlace (PVar 2) false None);
    CXfer (PChild (BVar 1) (SlDict 0)) (SPlace (PVar 3) false None);
    CRefVar 10 1;                          (* reference to the outer resource *)
    CRefStep 11 (BRef 10) (SlArr 0);       (* to the array element *)
    CRefStep 12 (BVar 1) (SlDict 0);       (* to the dictionary value *)
    CRefUnwrap 13 12;
    CRefCopy 14 13;                        (* re-read through a holder *)
    CSetTag (BRef 13) 70; CUse 13 UTag;    (* usable, reads current contents *)
    CXfer (PVar 4) (SPlace (PChild (BVar 1) (SlArr 0)) false None) ].   (* move the element out *)

Example C04_ex_after_remove :
  match run ex_cmds (begin_tx (mkP [] 1)) with
  | Done st =>
      logs st = [LInt 70] /\
      assoc 11 (refs st) = Some RDead /\                (* element reference is dead *)
      assoc 10 (refs st) = Some (REph 1) /\             (* outer and sibling references are not *)
      assoc 13 (refs st) = Some (REph 3) /\
      step (CUse 11 UTag) st = Fail EInvalidRef /\
      (* now move the outer resource: the sibling (nested) reference dies too *)
      match step (CXfer (PSto 0) (SPlace (PVar 1) false None)) st with
      | Done st2 => assoc 13 (refs st2) = Some RDead /\ assoc 14 (refs st2) = Some RDead /\ assoc 10 (refs st2) = Some RDead
                    /\ moved_by (CXfer (PSto 0) (SPlace (PVar 1) false None)) st
                       = Some (Rs 1 false 2 [(KDict 0, Rs 3 true 70 [])])
      | Fail _ => False
      end
  | Fail _ => False
  end.
Proof. vm_compute. repeat split. Qed.

Example C04_ex_storage_ref :
  match run [ CXfer (PVar 1) (SNew false 2); CXfer (PSto 0) (SPlace (PVar 1) false None);
              CBorrow 5 0 TQ; CUse 5 UOptTag;
              CXfer (PVar 2) (SPlace (PSto 0) false None); CDestroy 2;
              CXfer (PVar 3) (SNew false 9); CXfer (PSto 0) (SPlace (PVar 3) false None);
              CUse 5 UOptTag;
              CXfer (PVar 4) (SPlace (PSto 0) false None); CDestroy 4;
              CXfer (PVar 6) (SNew true 11); CXfer (PSto 0) (SPlace (PVar 6) false None) ]
            (begin_tx (mkP [] 1)) with
  | Done st => logs st = [LInt 2; LInt 9] /\ step (CUse 5 UOptTag) st = Fail EDeref
  | Fail _ => False
  end.
Proof. vm_compute. repeat split. Qed.
