(* C46  RLP decoding accepts exactly canonical encodings and never crashes.
   Property theorems only; the model is C46/Model.v (transcription of stdlib/rlp/rlp.go and of the
   wrappers in stdlib/rlp.go), the specification is C46/Spec.v (reference encoder), proofs are in
   C46/Proofs.v and C46/Proofs2.v.
   Hypotheses common to all statements: the input is a list of bytes, shorter than 2^62
   (true of every Go slice). *)
From CV Require Import C46.Model C46.Spec C46.Proofs C46.Cases C46.Proofs2.

(* ---- every canonical encoding is accepted and decodes to what was encoded ---- *)

Theorem C46_decode_encode_string : forall p,
  bytes p -> len (encode_string p) < 2 ^ 62 -> rlp_decode_string (encode_string p) = Ok p.
Proof. exact rlp_decode_encode_string. Qed.
Print Assumptions C46_decode_encode_string.

(* decodeList returns the encoded items; an item is a canonical string encoding or a list payload
   under a canonical list prefix (decodeList is documented not to decode recursively) *)
Theorem C46_decode_encode_list : forall items,
  Forall item_ok items ->
  bytes (list_frame (concat items)) -> len (list_frame (concat items)) < 2 ^ 62 ->
  rlp_decode_list (list_frame (concat items)) = Ok items.
Proof. exact rlp_decode_encode_list. Qed.
Print Assumptions C46_decode_encode_list.

(* ... in particular for the full recursive encoder, at any nesting depth *)
Theorem C46_decode_encode_nested : forall l,
  item_bytes (Lst l) -> len (encode (Lst l)) < 2 ^ 62 ->
  rlp_decode_list (encode (Lst l)) = Ok (map encode l).
Proof. exact rlp_decode_encode_nested. Qed.
Print Assumptions C46_decode_encode_nested.

(* ---- decodeString: exactly the canonical encodings, user error otherwise (outside the crash class) ---- *)

Theorem C46_string_exact_partial : forall inp,
  bytes inp -> len inp < 2 ^ 62 -> ~ string_crash inp ->
  string_decoder_exact rlp_decode_string inp.
Proof. exact rlp_string_exact. Qed.
Print Assumptions C46_string_exact_partial.

(* the crash class of decodeString is exact *)
Theorem C46_string_crash_exact : forall inp,
  bytes inp -> len inp < 2 ^ 62 -> (rlp_decode_string inp = Err Crash <-> string_crash inp).
Proof. exact rlp_string_crash_iff. Qed.
Print Assumptions C46_string_crash_exact.

(* ---- decodeList ---- *)

(* what it accepts, exactly (outside the crash class): framings of items that are canonical or of the
   non-canonical form 0x81 x with x < 0x80 *)
Theorem C46_list_accepts_partial : forall inp,
  bytes inp -> len inp < 2 ^ 62 -> no_huge_len inp ->
  list_decoder_accepts rlp_decode_list inp.
Proof. exact rlp_list_accepts. Qed.
Print Assumptions C46_list_accepts_partial.

(* the property's statement for decodeList, and its refutation: [0xc2,0x81,0x05] is accepted *)
Definition C46_list_exact_statement : Prop :=
  forall inp, bytes inp -> len inp < 2 ^ 62 -> no_huge_len inp -> list_decoder_exact rlp_decode_list inp.

Theorem C46_list_exact_refuted :
  exists inp, bytes inp /\ len inp < 2 ^ 62 /\ no_huge_len inp /\ ~ list_decoder_exact rlp_decode_list inp.
Proof. exact rlp_list_exact_refuted. Qed.
Print Assumptions C46_list_exact_refuted.

(* it holds under the guard that excludes exactly that item form *)
Theorem C46_list_exact_partial : forall inp,
  bytes inp -> len inp < 2 ^ 62 -> no_huge_len inp ->
  (forall items, accepted_list inp items -> Forall item_ok items) ->
  list_decoder_exact rlp_decode_list inp.
Proof. exact rlp_list_exact. Qed.
Print Assumptions C46_list_exact_partial.

(* without any guard: whatever decodeList returns is the framing of the returned items *)
Theorem C46_list_sound : forall inp items,
  bytes inp -> len inp < 2 ^ 62 -> rlp_decode_list inp = Ok items -> accepted_list inp items.
Proof. exact rlp_list_sound. Qed.
Print Assumptions C46_list_sound.

(* ---- never crash ---- *)

Definition C46_never_crash_statement : Prop := never_crash_statement.

(* refuted: index out of range after a 0x81 prefix; int overflow of start + length in DecodeString and
   in the item loop of DecodeList (both long-form prefixes) *)
Theorem C46_never_crash_witnesses :
  (bytes w_index /\ len w_index < 2 ^ 62 /\ rlp_decode_string w_index = Err Crash) /\
  (bytes w_overflow /\ len w_overflow < 2 ^ 62 /\ rlp_decode_string w_overflow = Err Crash) /\
  (bytes w_list_overflow /\ len w_list_overflow < 2 ^ 62 /\ rlp_decode_list w_list_overflow = Err Crash) /\
  (bytes w_list_overflow2 /\ len w_list_overflow2 < 2 ^ 62 /\ rlp_decode_list w_list_overflow2 = Err Crash).
Proof. exact never_crash_witnesses. Qed.
Print Assumptions C46_never_crash_witnesses.

Theorem C46_never_crash_refuted : ~ C46_never_crash_statement.
Proof. exact never_crash_refuted. Qed.
Print Assumptions C46_never_crash_refuted.

Theorem C46_never_crash_partial : forall inp,
  bytes inp -> len inp < 2 ^ 62 -> ~ string_crash inp -> no_huge_len inp ->
  graceful (rlp_decode_string inp) /\ graceful (rlp_decode_list inp).
Proof. exact never_crash_partial. Qed.
Print Assumptions C46_never_crash_partial.

(* the crash class of decodeList is exact too (list_crash: a canonical list prefix passing the size test, well-framed
   items covering less than the announced size, then an item prefix 0xbf/0xff whose 8-byte length overflows int) *)
Theorem C46_list_crash_exact : forall inp,
  bytes inp -> len inp < 2 ^ 62 -> (rlp_decode_list inp = Err Crash <-> list_crash inp).
Proof. exact rlp_list_crash_iff. Qed.
Print Assumptions C46_list_crash_exact.

(* never_crash under the exact guard *)
Theorem C46_never_crash_partial_exact : forall inp,
  bytes inp -> len inp < 2 ^ 62 -> ~ string_crash inp -> ~ list_crash inp ->
  graceful (rlp_decode_string inp) /\ graceful (rlp_decode_list inp).
Proof. exact never_crash_partial_exact. Qed.
Print Assumptions C46_never_crash_partial_exact.

(* every crash of decodeList comes from a long-form prefix with an overflowing 8-byte length *)
Theorem C46_list_crash_only_overflow : forall inp,
  bytes inp -> len inp < 2 ^ 62 -> rlp_decode_list inp = Err Crash -> has_huge_len inp.
Proof. exact rlp_list_crash_only_huge. Qed.
Print Assumptions C46_list_crash_only_overflow.

(* no other outcome exists (no internal error; the loop fuel of the model is never exhausted) *)
Theorem C46_outcome_classes : forall inp,
  bytes inp -> len inp < 2 ^ 62 ->
  (exists p, rlp_decode_list inp = Ok p) \/ rlp_decode_list inp = Err UserOther \/ rlp_decode_list inp = Err Crash.
Proof. exact outcome_classes_list. Qed.
Print Assumptions C46_outcome_classes.

(* ---- with the defect classes mapped to user errors, the property holds at full strength ---- *)

Theorem C46_repaired_string_exact : forall inp,
  bytes inp -> len inp < 2 ^ 62 -> string_decoder_exact required_string inp.
Proof. exact required_string_exact. Qed.
Print Assumptions C46_repaired_string_exact.

Theorem C46_repaired_list_exact : forall inp,
  bytes inp -> len inp < 2 ^ 62 -> list_decoder_exact required_list inp.
Proof. exact required_list_exact. Qed.
Print Assumptions C46_repaired_list_exact.

Theorem C46_repaired_never_crash : forall inp,
  bytes inp -> len inp < 2 ^ 62 -> graceful (required_string inp) /\ graceful (required_list inp).
Proof. exact required_graceful. Qed.
Print Assumptions C46_repaired_never_crash.

(* ---- non-vacuity ---- *)

(* short and long forms round-trip; a 60-byte string uses the long form 0xb8 0x3c *)
Example C46_ex_roundtrip :
  rlp_decode_string (encode_string [1; 2; 3]) = Ok [1; 2; 3] /\
  rlp_decode_string (encode_string [200]) = Ok [200] /\
  encode_string (repeat 7 60) = 184 :: 60 :: repeat 7 60 /\
  rlp_decode_string (encode_string (repeat 7 60)) = Ok (repeat 7 60) /\
  rlp_decode_list (encode (Lst [Str [1]; Str [200]; Lst [Str []; Str (repeat 9 60)]]))
    = Ok (map encode [Str [1]; Str [200]; Lst [Str []; Str (repeat 9 60)]]).
Proof. vm_compute. repeat split. Qed.

(* inputs satisfying the guards of the partial theorems, with each kind of outcome *)
Example C46_ex_guards :
  (~ string_crash [130; 1] /\ no_huge_len [130; 1] /\ rlp_decode_string [130; 1] = Err UserOther) /\
  (~ string_crash [129; 5] /\ rlp_decode_string [129; 5] = Err UserOther) /\
  (~ string_crash [184; 1; 0] /\ rlp_decode_string [184; 1; 0] = Err UserOther) /\
  (no_huge_len [194; 1; 2] /\ rlp_decode_list [194; 1; 2] = Ok [[1]; [2]]) /\
  (no_huge_len [194; 1] /\ rlp_decode_list [194; 1] = Err UserOther).
Proof.
  repeat split; try reflexivity;
    try (apply short_no_huge_len; vm_compute; reflexivity);
    try (apply short_no_string_crash; [vm_compute; reflexivity|discriminate]).
Qed.

(* the accepted non-canonical list and what the property requires on it *)
Example C46_ex_nc1 :
  rlp_decode_list [194; 129; 5] = Ok [[129; 5]] /\ required_list [194; 129; 5] = Err UserOther /\
  rlp_decode_string [129; 5] = Err UserOther.
Proof. vm_compute. repeat split. Qed.
