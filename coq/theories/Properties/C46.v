(* C46  RLP decoding accepts exactly canonical encodings and never crashes.
   Property theorems only; the model is C46/Model.v (transcription of stdlib/rlp/rlp.go as of commit 8b09734 and of
   the wrappers in stdlib/rlp.go), the specification is C46/Spec.v (reference encoder), proofs are in
   C46/Proofs.v and C46/Proofs2.v.
   Hypotheses common to all statements: the input is a list of bytes, shorter than 2^62
   (true of every Go slice). *)
From CV Require Import C46.Model C46.Spec C46.Proofs C46.Proofs2.

(* ---- every canonical encoding is accepted and decodes to what was encoded ---- *)

Theorem C46_decode_encode_string : forall p,
  bytes p -> len (encode_string p) < 2 ^ 62 -> rlp_decode_string (encode_string p) = Ok p.
Proof. exact rlp_decode_encode_string. Qed.
Print Assumptions C46_decode_encode_string.

(* decodeList returns the encoded items; an item is a canonical string encoding or a list payload
   under a canonical list prefix (decodeList is documented not to decode recursively) *)
Theorem C46_decode_encode_list : forall items,
  Forall item_ok items ->
  bytes (list_frame (concat items)) -> len (list_frame (concat items)) < 2 ^ 62 ->
  rlp_decode_list (list_frame (concat items)) = Ok items.
Proof. exact rlp_decode_encode_list. Qed.
Print Assumptions C46_decode_encode_list.

(* ... in particular for the full recursive encoder, at any nesting depth *)
Theorem C46_decode_encode_nested : forall l,
  item_bytes (Lst l) -> len (encode (Lst l)) < 2 ^ 62 ->
  rlp_decode_list (encode (Lst l)) = Ok (map encode l).
Proof. exact rlp_decode_encode_nested. Qed.
Print Assumptions C46_decode_encode_nested.

(* ---- exactly the canonical encodings: value for those, user error for every other input ---- *)

Theorem C46_string_exact : forall inp,
  bytes inp -> len inp < 2 ^ 62 -> string_decoder_exact rlp_decode_string inp.
Proof. exact rlp_string_exact. Qed.
Print Assumptions C46_string_exact.

Theorem C46_list_exact : forall inp,
  bytes inp -> len inp < 2 ^ 62 -> list_decoder_exact rlp_decode_list inp.
Proof. exact rlp_list_exact. Qed.
Print Assumptions C46_list_exact.

Theorem C46_string_rejects_noncanonical : forall inp,
  bytes inp -> len inp < 2 ^ 62 -> (forall p, ~ canonical_string inp p) -> rlp_decode_string inp = Err UserOther.
Proof. exact string_rejects_noncanonical. Qed.
Print Assumptions C46_string_rejects_noncanonical.

Theorem C46_list_rejects_noncanonical : forall inp,
  bytes inp -> len inp < 2 ^ 62 -> (forall items, ~ canonical_list inp items) -> rlp_decode_list inp = Err UserOther.
Proof. exact list_rejects_noncanonical. Qed.
Print Assumptions C46_list_rejects_noncanonical.

(* the list-item rule: an item 0x81 x with x < 0x80 is never returned *)
Theorem C46_list_item_rule : forall inp items,
  bytes inp -> len inp < 2 ^ 62 -> Exists item_nc1 items -> rlp_decode_list inp <> Ok items.
Proof. exact list_with_nc1_item_rejected. Qed.
Print Assumptions C46_list_item_rule.

(* ---- never crash, at full strength ---- *)

Definition C46_never_crash_statement : Prop := never_crash_statement.

Theorem C46_never_crash : C46_never_crash_statement.
Proof. exact never_crash. Qed.
Print Assumptions C46_never_crash.

(* no other outcome exists (no internal error; the loop fuel of the model is never exhausted) *)
Theorem C46_outcome_classes : forall inp,
  bytes inp -> len inp < 2 ^ 62 ->
  (exists p, rlp_decode_list inp = Ok p) \/ rlp_decode_list inp = Err UserOther.
Proof. exact outcome_classes_list. Qed.
Print Assumptions C46_outcome_classes.

(* the inputs on which the code before commit 8b09734 panicked or accepted a non-canonical list *)
Theorem C46_former_witnesses_rejected :
  rlp_decode_string w_index = Err UserOther /\
  rlp_decode_string w_overflow = Err UserOther /\
  rlp_decode_list w_list_overflow = Err UserOther /\
  rlp_decode_list w_list_overflow2 = Err UserOther /\
  rlp_decode_list w_list_nc1 = Err UserOther.
Proof. exact former_witnesses_rejected. Qed.
Print Assumptions C46_former_witnesses_rejected.

(* ---- non-vacuity ---- *)

(* short and long forms round-trip; a 60-byte string uses the long form 0xb8 0x3c *)
Example C46_ex_roundtrip :
  rlp_decode_string (encode_string [1; 2; 3]) = Ok [1; 2; 3] /\
  rlp_decode_string (encode_string [200]) = Ok [200] /\
  encode_string (repeat 7 60) = 184 :: 60 :: repeat 7 60 /\
  rlp_decode_string (encode_string (repeat 7 60)) = Ok (repeat 7 60) /\
  rlp_decode_list (encode (Lst [Str [1]; Str [200]; Lst [Str []; Str (repeat 9 60)]]))
    = Ok (map encode [Str [1]; Str [200]; Lst [Str []; Str (repeat 9 60)]]).
Proof. vm_compute. repeat split. Qed.

(* each kind of outcome occurs *)
Example C46_ex_outcomes :
  rlp_decode_string [130; 1] = Err UserOther /\ rlp_decode_string [129; 5] = Err UserOther /\
  rlp_decode_string [184; 1; 0] = Err UserOther /\ rlp_decode_string [129; 128] = Ok [128] /\
  rlp_decode_list [194; 1; 2] = Ok [[1]; [2]] /\ rlp_decode_list [194; 1] = Err UserOther /\
  rlp_decode_list [194; 129; 200] = Ok [[129; 200]] /\ rlp_decode_list [194; 129; 5] = Err UserOther.
Proof. vm_compute. repeat split. Qed.
