(* C27  Accepted contract updates keep existing stored data usable.
   Property theorems only; the model is C27/Model.v (validator, transcribed), the specification
   is C27/Spec.v (name resolution, value typing, conformance, usability), proofs in C27/Proofs.v. *)
From CV Require Import C27.Model C27.Spec C27.Proofs.

(* The property at full strength: for every pair of programs accepted by the type checker
   (wf_scope: necessary conditions of checker acceptance) whose update the validator accepts, every
   value that could be in storage under the old program is usable under the new one.
   It does NOT hold for the validator as written: see the four refutations below. *)
Definition C27_statement : Prop :=
  forall acct xc old new F v,
    wf_scope acct old = true -> wf_scope acct new = true ->
    validate acct old new = [] ->
    wf_value acct xc F old v = true ->
    usable acct xc F old new v = true.

(* What holds: the statement under exactly the guards that exclude the four ways it fails
   - interfaces keep the interfaces they inherit from (the validator checks conformances of
     composites only);
   - entitlement / entitlement-mapping declarations are kept (the validator never looks at them);
   - no new declaration takes the name of something the old program imported (the comparator
     equates the imported name `S` with the qualified name `C.S` without consulting the import);
   - the value does not contain a type the new program removes with #removedType
     (the documented purpose of the pragma).
   For all programs, all values (any nesting depth), all closure depths F. *)
Theorem C27_accepted_update_keeps_data_usable_partial :
  forall acct xc old new F v,
    validate acct old new = [] ->
    wf_scope acct old = true -> wf_scope acct new = true ->
    iface_confs_kept acct old new = true ->
    ents_kept old new = true ->
    no_import_capture acct old new = true ->
    mentions_removed new v = false ->
    wf_value acct xc F old v = true ->
    usable acct xc F old new v = true.
Proof. exact usable_preserved_b. Qed.
Print Assumptions C27_accepted_update_keeps_data_usable_partial.

(* Histories: along any chain of accepted updates P -> Q1 -> ... -> Qn (each step under the guards),
   a value written under P that no later version removes with #removedType is usable across every
   step and is still a well-formed stored value of the last version: every field the last version
   declares is present with a value of the declared type, at any depth. *)
Theorem C27_update_history_keeps_data_usable_partial :
  forall acct xc F v l P,
    chain_ok acct P l ->
    (forall Q, In Q l -> mentions_removed Q v = false) ->
    wf_value acct xc F P v = true ->
    all_usable acct xc F P l v /\ wf_value acct xc F (last l P) v = true.
Proof. intros; apply chain_preserved; auto. Qed.
Print Assumptions C27_update_history_keeps_data_usable_partial.

(* ------------------------------------------------------------------ witnesses *)
Definition nC : name := 100.   Definition nS : name := 101.
Definition nI : name := 102.   Definition nJ : name := 103.
Definition nxs : name := 104.  Definition na : name := 105.
Definition nE : name := 106.   Definition nR : name := 107.
Definition ncap : name := 108.

(* 1. interface I drops `: J`; S: I was stored in a [{J}] *)
Definition w1_J := Decl KStructIface nJ [(na, TNom (bInt, []))] [] [] [] [] None.
Definition w1_S := Decl KStruct nS [(na, TNom (bInt, []))] [] [(nI, [])] [] [] None.
Definition w1_root (i : decl) :=
  Decl KContract nC [(nxs, TVar (TInter [(nJ, [])]))] [w1_J; i; w1_S] [] [] [] None.
Definition w1_old := Program [] (w1_root (Decl KStructIface nI [] [] [(nJ, [])] [] [] None)).
Definition w1_new := Program [] (w1_root (Decl KStructIface nI [] [] [] [] [] None)).
Definition w1_v := VComp [nC] [nxs] [VArr [VComp [nC; nS] [na] [VPrim bInt]]].

Theorem C27_refuted_interface_inheritance_removed :
  validate [] w1_old w1_new = [] /\ wf_scope [] w1_old = true /\ wf_scope [] w1_new = true
  /\ ents_kept w1_old w1_new = true /\ no_import_capture [] w1_old w1_new = true
  /\ mentions_removed w1_new w1_v = false
  /\ wf_value [] [] 4 w1_old w1_v = true
  /\ usable [] [] 4 w1_old w1_new w1_v = false.
Proof. vm_compute. repeat split. Qed.
Print Assumptions C27_refuted_interface_inheritance_removed.

(* 2. entitlement E removed; a stored type value / capability borrow type mentions it *)
Definition w2_R := Decl KResource nR [] [] [] [] [] None.
Definition w2_old := Program [] (Decl KContract nC [] [Decl KEntitlement nE [] [] [] [] [] None; w2_R] [] [] [] None).
Definition w2_new := Program [] (Decl KContract nC [] [w2_R] [] [] [] None).
Definition w2_v := VArr [VType (SRef (SConj [TLocal [nC; nE]]) (SNom (TLocal [nC; nR])));
                         VCap (SRef (SConj [TLocal [nC; nE]]) (SNom (TLocal [nC; nR])))].

Theorem C27_refuted_entitlement_removed :
  validate [] w2_old w2_new = [] /\ wf_scope [] w2_old = true /\ wf_scope [] w2_new = true
  /\ iface_confs_kept [] w2_old w2_new = true /\ no_import_capture [] w2_old w2_new = true
  /\ mentions_removed w2_new w2_v = false
  /\ wf_value [] [] 4 w2_old w2_v = true
  /\ usable [] [] 4 w2_old w2_new w2_v = false.
Proof. vm_compute. repeat split. Qed.
Print Assumptions C27_refuted_entitlement_removed.

(* 3. old: import S from 0x2; cap: Capability<&S>?   new: struct S {...}; cap: Capability<&C.S>? *)
Definition w3_capty (n : nom) := TOpt (TInst (TNom (bCapability, [])) [TRef ANone (TNom n)]).
Definition w3_old := Program [(Some 2, [(nS, 0)])]
  (Decl KContract nC [(ncap, w3_capty (nS, []))] [] [] [] [] None).
Definition w3_new := Program []
  (Decl KContract nC [(ncap, w3_capty (nC, [nS]))] [Decl KStruct nS [] [] [] [] [] None] [] [] [] None).
Definition w3_v := VComp [nC] [ncap] [VSome (VCap (SRef SUnauth (SNom (TExt (2, nS) []))))].

Theorem C27_refuted_import_captured_by_new_declaration :
  validate [] w3_old w3_new = [] /\ wf_scope [] w3_old = true /\ wf_scope [] w3_new = true
  /\ iface_confs_kept [] w3_old w3_new = true /\ ents_kept w3_old w3_new = true
  /\ mentions_removed w3_new w3_v = false
  /\ wf_value [] [] 4 w3_old w3_v = true
  /\ usable [] [] 4 w3_old w3_new w3_v = false.
Proof. vm_compute. repeat split. Qed.
Print Assumptions C27_refuted_import_captured_by_new_declaration.

(* 4. #removedType(S): values of S are given up (by design of the pragma) *)
Definition w4_old := Program [] (Decl KContract nC [] [Decl KStruct nS [] [] [] [] [] None] [] [] [] None).
Definition w4_new := Program [] (Decl KContract nC [] [] [] [] [PRemoved nS] None).
Definition w4_v := VComp [nC; nS] [] [].

Theorem C27_refuted_removed_type_pragma :
  validate [] w4_old w4_new = [] /\ wf_scope [] w4_old = true /\ wf_scope [] w4_new = true
  /\ iface_confs_kept [] w4_old w4_new = true /\ ents_kept w4_old w4_new = true
  /\ no_import_capture [] w4_old w4_new = true
  /\ wf_value [] [] 4 w4_old w4_v = true
  /\ usable [] [] 4 w4_old w4_new w4_v = false.
Proof. vm_compute. repeat split. Qed.
Print Assumptions C27_refuted_removed_type_pragma.

Theorem C27_statement_refuted : ~ C27_statement.
Proof.
  intros H.
  destruct C27_refuted_interface_inheritance_removed as [A [B [C [_ [_ [_ [D E]]]]]]].
  rewrite (H [] [] w1_old w1_new 4%nat w1_v B C A D) in E. discriminate.
Qed.
Print Assumptions C27_statement_refuted.

(* ------------------------------------------------------------------ non-vacuity *)
(* an accepted update satisfying every guard: a field is removed, a field is re-spelled with a
   qualified name, an enum case is appended, a conformance and a new struct are added; the stored
   contract value holds an enum, a nested struct and an interface-typed array *)
Definition nf : name := 110.  Definition ne : name := 111.  Definition ns : name := 112.
Definition nc1 : name := 113. Definition nc2 : name := 114. Definition nc3 : name := 115.
Definition nT : name := 116.
Definition ex_J := Decl KStructIface nJ [(na, TNom (bInt, []))] [] [] [] [] None.
Definition ex_I := Decl KStructIface nI [] [] [(nJ, [])] [] [] None.
Definition ex_old := Program []
  (Decl KContract nC
     [(nxs, TVar (TInter [(nJ, [])])); (ne, TNom (nE, [])); (ns, TOpt (TNom (nS, []))); (nf, TNom (bString, []))]
     [ex_J; ex_I;
      Decl KStruct nS [(na, TNom (bInt, [])); (nf, TNom (bBool, []))] [] [(nI, [])] [] [] None;
      Decl KEnum nE [] [] [(bUInt8, [])] [nc1; nc2] [] None]
     [] [] [] None).
Definition ex_new := Program []
  (Decl KContract nC
     [(ns, TOpt (TNom (nC, [nS]))); (nxs, TVar (TInter [(nJ, [])])); (ne, TNom (nE, []))]
     [ex_J; ex_I;
      Decl KStruct nS [(na, TNom (bInt, []))] [] [(nI, []); (nJ, [])] [] [] None;
      Decl KEnum nE [] [] [(bUInt8, [])] [nc1; nc2; nc3] [] None;
      Decl KStruct nT [(na, TNom (bInt, []))] [] [] [] [] None]
     [] [] [] None).
Definition ex_s := VComp [nC; nS] [na; nf] [VPrim bInt; VPrim bBool].
Definition ex_v := VComp [nC] [nxs; ne; ns; nf] [VArr [ex_s; ex_s]; VEnum [nC; nE] 1; VSome ex_s; VPrim bString].

Example C27_ex_hypotheses :
  validate [] ex_old ex_new = [] /\ wf_scope [] ex_old = true /\ wf_scope [] ex_new = true
  /\ iface_confs_kept [] ex_old ex_new = true /\ ents_kept ex_old ex_new = true
  /\ no_import_capture [] ex_old ex_new = true /\ mentions_removed ex_new ex_v = false
  /\ wf_value [] [] 4 ex_old ex_v = true.
Proof. vm_compute. repeat split. Qed.

Example C27_ex_usable : usable [] [] 4 ex_old ex_new ex_v = true.
Proof. vm_compute. reflexivity. Qed.

(* the validator does reject the updates the property is about: retyped field, new field in an
   existing composite, removed conformance of a composite, reordered enum cases, removed struct *)
Example C27_ex_rejections :
  let root fs nested := Program [] (Decl KContract nC fs nested [] [] [] None) in
  let S fs confs := Decl KStruct nS fs [] confs [] [] None in
  let E cs := Decl KEnum nE [] [] [(bUInt8, [])] cs [] None in
  map uerr_code (validate [] (root [] [S [(na, TNom (bInt, []))] []]) (root [] [S [(na, TOpt (TNom (bInt, []))) ] []])) = [(3, nS, na)]
  /\ map uerr_code (validate [] (root [] [S [] []]) (root [] [S [(na, TNom (bInt, []))] []])) = [(2, nS, na)]
  /\ map uerr_code (validate [] (root [] [ex_J; S [] [(nJ, [])]]) (root [] [ex_J; S [] []])) = [(11, nS, 0)]
  /\ map uerr_code (validate [] (root [] [E [nc1; nc2]]) (root [] [E [nc2; nc1]])) = [(10, nc1, nc2); (10, nc2, nc1)]
  /\ map uerr_code (validate [] (root [] [S [] []]) (root [] [])) = [(5, nS, 0)].
Proof. vm_compute. repeat split. Qed.

(* #removedType is a tombstone carried by every later version: the pragma cannot be dropped, and a
   name it covers cannot be declared again - also when the immediately preceding version no longer
   declares it (v1: struct S; v2: #removedType(S); v3: #removedType(S) + struct S {a: String}) *)
Example C27_ex_removed_type_cannot_return :
  let root prs nested := Program [] (Decl KContract nC [] nested [] [] prs None) in
  let S1 := Decl KStruct nS [(na, TNom (bInt, []))] [] [] [] [] None in
  let S3 := Decl KStruct nS [(na, TNom (bString, []))] [] [] [] [] None in
  let R3 := Decl KResource nS [] [] [] [] [] None in
  let I3 := Decl KStructIface nS [] [] [] [] [] None in
  let A3 := Decl KAttachment nS [] [] [] [] [] (Some (nT, [])) in
  validate [] (root [] [S1]) (root [PRemoved nS] []) = []
  /\ map uerr_code (validate [] (root [PRemoved nS] []) (root [PRemoved nS] [S3])) = [(7, nS, 0)]
  /\ map uerr_code (validate [] (root [PRemoved nS] []) (root [PRemoved nS] [S1])) = [(7, nS, 0)]
  /\ map uerr_code (validate [] (root [PRemoved nS] []) (root [PRemoved nS] [R3])) = [(7, nS, 0)]
  /\ map uerr_code (validate [] (root [PRemoved nS] []) (root [PRemoved nS] [I3])) = [(7, nS, 0)]
  /\ map uerr_code (validate [] (root [PRemoved nS] []) (root [PRemoved nS] [A3])) = [(7, nS, 0)]
  /\ map uerr_code (validate [] (root [PRemoved nS] []) (root [] [S3])) = [(8, nS, 0)]
  /\ map uerr_code (validate [] (root [PRemoved nS] []) (root [] [])) = [(8, nS, 0)].
Proof. vm_compute. repeat split. Qed.

