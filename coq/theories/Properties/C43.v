(* C43  JSON-Cadence and CCF decode to the same value.
   A corollary of C41 (proved) and of the CCF round trip (a hypothesis: the CCF decoder is not
   modelled, see C42); the real decoders are compared with each other on every run. *)
From CV Require Import C41.Json C41.Cases C41.ValueProofs C41.Findings C43.Corollary.

(* For every value in the domain of the JSON round-trip theorem and of the (assumed) CCF round trip,
   both codecs encode it, both encodings decode, and the two decoded values are equal after erasing
   the static type information JSON-Cadence does not carry. *)
Theorem C43_same_erased_value_partial :
  forall valid_char tid_canon is_simple,
  (forall k, is_simple (ckind_name k) = false) ->
  forall (ccf_bytes : Type) (ccf_encode : xval -> res ccf_bytes) (ccf_decode : ccf_bytes -> res xval)
         (ccf_dom : xval -> Prop),
  (forall v, ccf_dom v -> exists b v', ccf_encode v = Ok b /\ ccf_decode b = Ok v' /\ erase v' = erase v) ->
  forall v, wf_val valid_char tid_canon is_simple v = true -> ccf_dom v ->
  exists j b vj vc,
    json_encode v = Ok j /\ json_decode valid_char tid_canon is_simple j = Ok vj /\
    ccf_encode v = Ok b /\ ccf_decode b = Ok vc /\
    erase vj = erase vc.
Proof. exact same_erased_value. Qed.
Print Assumptions C43_same_erased_value_partial.

(* The type ID of the JSON-decoded value, when it has one, is the type ID of the original value
   (which a CCF round trip preserves: observed by C42/C43's correspondence runs). *)
Theorem C43_json_type_id_preserved :
  forall v, has_id (type_of (jnorm v)) = true -> spine_typed v ->
  ty_id (type_of (jnorm v)) = ty_id (type_of v).
Proof. exact json_type_id_preserved. Qed.
Print Assumptions C43_json_type_id_preserved.

(* non-vacuity: the example value of C41 is in the domain; a typed optional composite has an ID *)
Example C43_ex_domain : wf_val any_char id_tid is_simple_tbl ex_value = true.
Proof. exact ex_value_wf. Qed.
Example C43_ex_type_id :
  let v := VOptional (Some ex_value) in
  has_id (type_of (jnorm v)) = true /\ spine_typed v /\
  ty_id (type_of (jnorm v)) = ty_id (type_of v).
Proof. vm_compute. repeat split. Qed.
