(* C39  The formatter preserves meaning and comments and is idempotent.
   PARTIAL (skeleton model): the theorems are about the model pipeline
     scan -> group -> attach -> (strip semicolons) -> (sort imports) -> render -> collapse blank lines
   of C39/Model.v on programs made of single-line top-level declarations and imports, comment-only lines,
   end-of-line comments and blank lines, for every option setting.  The model's output is compared line by line
   with the real formatter's on generated skeleton programs in every run; the full grammar is reached only by
   the direct monitors of the harness.  Proofs: C39/Proofs.v, C39/Idem.v. *)
From Coq Require Import ZArith List Bool Permutation.
From CV Require Import C39.Model C39.Proofs C39.Idem C39.Cases.
Import ListNotations.
Open Scope Z_scope.

(* every comment of the input occurs in the output exactly once (same multiset), for every import table,
   every option combination and every input *)
Theorem C39_comments_preserved_partial :
  forall imp keep srt strip ls,
  Permutation (line_comments (format imp keep srt strip ls)) (line_comments ls).
Proof. exact comments_preserved. Qed.
Print Assumptions C39_comments_preserved_partial.

(* the declaration skeleton: identical without import sorting ... *)
Theorem C39_ast_preserved_nosort :
  forall imp keep strip ls, line_decls (format imp keep false strip ls) = line_decls ls.
Proof. exact ast_preserved_nosort. Qed.
Print Assumptions C39_ast_preserved_nosort.

(* ... and with import sorting a permutation that leaves every non-import declaration in place, keeps imports at
   import positions, orders the imports by (group, key) and is stable (imports with equal keys keep their order) *)
Theorem C39_ast_preserved_sort :
  forall imp keep strip ls,
  exists es es',
    map decl es = line_decls ls
    /\ map decl es' = line_decls (format imp keep true strip ls)
    /\ Permutation es' es
    /\ map (is_import imp) es' = map (is_import imp) es
    /\ filter (fun e => negb (is_import imp e)) es' = filter (fun e => negb (is_import imp e)) es
    /\ ordered imp (filter (is_import imp) es')
    /\ forall k, filter (same_key imp k) (filter (is_import imp) es')
                 = filter (same_key imp k) (filter (is_import imp) es).
Proof. exact ast_preserved_sort. Qed.
Print Assumptions C39_ast_preserved_sort.

(* the formatter is a fixed point of itself *)
Theorem C39_format_idempotent :
  forall imp keep srt strip ls,
  format imp keep srt strip (format imp keep srt strip ls) = format imp keep srt strip ls.
Proof. exact format_idempotent. Qed.
Print Assumptions C39_format_idempotent.

(* ------------------------------------------------------------------ non-vacuity *)
(* header comment, unsorted imports with a duplicate and comments, a declaration with a semicolon and an
   end-of-line comment, trailing and leading comments, footer; the three option regimes *)
Definition ex_in : list line :=
  [LCmt 2; LBlank;
   LCode 7 false (Some 4); LCmt 6; LCode 12 true None; LCode 8 false None; LBlank; LBlank;
   LCmt 8; LCode 0 true (Some 10); LCmt 12; LBlank; LCmt 14; LCmt 16; LCode 3 false None; LBlank; LBlank; LCmt 18].
Example C39_ex_default :
  format sk_imp 1 true true ex_in =
  [LCmt 2; LBlank;
   LCode 8 false None; LCode 7 false (Some 4); LCmt 6; LCode 12 false None; LBlank;
   LCmt 8; LCode 0 false (Some 10); LCmt 12; LBlank; LCmt 14; LCmt 16; LCode 3 false None; LBlank; LCmt 18].
Proof. vm_compute. reflexivity. Qed.
Example C39_ex_keep0_nosort_semis :
  format sk_imp 0 false false ex_in =
  [LCmt 2; LCode 7 false (Some 4); LCmt 6; LCode 12 true None; LCode 8 false None;
   LCmt 8; LCode 0 true (Some 10); LCmt 12; LCmt 14; LCmt 16; LCode 3 false None; LCmt 18].
Proof. vm_compute. reflexivity. Qed.
Example C39_ex_fixed_points :
  format sk_imp 1 true true (format sk_imp 1 true true ex_in) = format sk_imp 1 true true ex_in
  /\ format sk_imp 0 false false (format sk_imp 0 false false ex_in) = format sk_imp 0 false false ex_in
  /\ line_comments (format sk_imp 1 true true ex_in) = [2; 4; 6; 8; 10; 12; 14; 16; 18]
  /\ line_decls (format sk_imp 1 true true ex_in) = [8; 7; 12; 0; 3]
  /\ line_decls ex_in = [7; 12; 8; 0; 3].
Proof. vm_compute. repeat split. Qed.
