(* C40  Literals denote their written values.
   Property theorems only; proofs are in C40/Proofs.v (and C17/Proofs.v for fixedpoint.CheckRange).
   The model (C40/Model.v) is code-shaped and is tied to /repo by the correspondence run. *)
From CV Require Import C40.Model C40.Proofs.
Open Scope Z_scope.

(* ---- an integer literal in any base with any underscores denotes sum digit_i * base^i; a parse error exactly for a
        leading/trailing underscore, no digits, or a character that is not a digit of the base ---- *)
Theorem C40_int_literal_value : forall b text,
  int_lit_value b text =
  if starts_with_us text || ends_with_us text then None
  else match text_digits (base_val b) text with
       | None | Some [] => None
       | Some ds => Some (digits_sum (base_val b) ds)
       end.
Proof. exact int_lit_value_spec. Qed.
Print Assumptions C40_int_literal_value.

(* ---- rejected exactly when the (signed) value is outside the expected type's range; accepted with that value ---- *)
Theorem C40_int_literal_range : forall k neg b text v,
  int_lit_value b text = Some v -> (neg = true -> v <> 0) ->
  let w := if neg then - v else v in
  (in_range k w -> check_int_literal k neg b text = VAccept w) /\
  (~ in_range k w -> check_int_literal k neg b text = VRange).
Proof. exact check_int_literal_range. Qed.
Print Assumptions C40_int_literal_range.

(* checker + parser = specification, for every expected integer kind, sign, base and text, except `-0` *)
Theorem C40_int_literal_partial : forall k neg b text,
  (neg = true -> int_lit_value b text = Some 0 -> k = KInt) ->
  check_int_literal k neg b text = spec_int_literal k neg b text.
Proof. exact check_int_literal_partial. Qed.
Print Assumptions C40_int_literal_partial.

(* REFUTED on the unchanged tree: `let x: Int8 = -0` / `let x: UInt8 = -0x00` are type errors although 0 is in range
   (the parser folds the minus sign into the literal only for positive values) *)
Theorem C40_int_literal_minus_zero_refuted :
  check_int_literal (KSigned 8) true B10 [48] = VType /\
  spec_int_literal (KSigned 8) true B10 [48] = VAccept 0 /\
  check_int_literal (KUnsigned 8) true B16 [48; 48] = VType /\
  check_int_literal KInt true B10 [48] = VAccept 0.
Proof. exact check_int_literal_minus_zero. Qed.
Print Assumptions C40_int_literal_minus_zero_refuted.

(* ---- a fixed-point literal's parts are its written digits ---- *)
Theorem C40_fix_part_value : forall s ds,
  text_digits 10 s = Some ds ->
  fix_part s = (digits_sum 10 ds, if Z.of_nat (length ds) =? 0 then 1 else Z.of_nat (length ds)).
Proof. exact fix_part_spec. Qed.
Print Assumptions C40_fix_part_value.

(* ---- it denotes its exact decimal value and is rejected exactly for too many fractional digits (VScale) or an
        out-of-range value (VRange) -- under the guard excluding the two defects below ---- *)
Theorem C40_fix_literal_partial : forall f p,
  0 <= fp_int p -> 0 <= fp_frac p < 10 ^ fp_scale p -> 0 <= fp_scale p ->
  fix_guard f p ->
  ~ (fp_neg p = true /\ fsigned f = false /\ fix_exact f p = 0) ->
  check_fix_parsed f p = spec_fix_parsed f p.
Proof. exact check_fix_parsed_partial. Qed.
Print Assumptions C40_fix_literal_partial.

(* the side conditions of the previous theorem hold for every literal the parser produces *)
Theorem C40_fix_literal_parse_facts : forall neg ip fp,
  let p := fix_lit_parse neg ip fp in
  0 <= fp_int p /\ 0 <= fp_frac p < 10 ^ fp_scale p /\ 0 <= fp_scale p.
Proof. exact fix_lit_parse_facts. Qed.
Print Assumptions C40_fix_literal_parse_facts.

(* REFUTED on the unchanged tree: `92233720368.6` is accepted for Fix64 and evaluates to -92233720368.49551616
   (CheckRange compares unscaled fractional digits); `-0.0` is rejected for UFix64 although 0.0 is in range *)
Theorem C40_fix_literal_refuted :
  check_fix_literal FFix64 false [57;50;50;51;51;55;50;48;51;54;56] [54] = VAccept (-9223372036849551616) /\
  spec_fix_parsed FFix64 (fix_lit_parse false [57;50;50;51;51;55;50;48;51;54;56] [54]) = VRange /\
  check_fix_literal FUFix64 true [48] [48] = VRange /\
  spec_fix_parsed FUFix64 (fix_lit_parse true [48] [48]) = VAccept 0.
Proof. exact check_fix_literal_defects. Qed.
Print Assumptions C40_fix_literal_refuted.

(* ---- string literals: every simple escape decodes to the intended code point ---- *)
Theorem C40_simple_escapes : forall rest acc,
  dec SNorm (92 :: 48 :: rest) acc = dec SNorm rest (0 :: acc) /\
  dec SNorm (92 :: 110 :: rest) acc = dec SNorm rest (10 :: acc) /\
  dec SNorm (92 :: 114 :: rest) acc = dec SNorm rest (13 :: acc) /\
  dec SNorm (92 :: 116 :: rest) acc = dec SNorm rest (9 :: acc) /\
  dec SNorm (92 :: 34 :: rest) acc = dec SNorm rest (34 :: acc) /\
  dec SNorm (92 :: 39 :: rest) acc = dec SNorm rest (39 :: acc) /\
  dec SNorm (92 :: 92 :: rest) acc = dec SNorm rest (92 :: acc).
Proof. exact simple_escapes. Qed.
Print Assumptions C40_simple_escapes.

(* ---- \u{h..h} (1 to 8 hex digits, either case) decodes to the code point the digits spell, for every Unicode scalar value ---- *)
Theorem C40_unicode_escape_partial : forall ds cs rest acc,
  hex_chars ds cs -> 1 <= len cs <= 8 -> digits_ok 16 ds ->
  valid_scalar (val 16 ds) = true ->
  dec SNorm (92 :: 117 :: 123 :: cs ++ 125 :: rest) acc = dec SNorm rest (val 16 ds :: acc).
Proof. exact unicode_escape_partial. Qed.
Print Assumptions C40_unicode_escape_partial.

(* REFUTED otherwise: "\u{D800}" and "\u{110000}" are accepted and decode to U+FFFD; "\u{}" is accepted and decodes to nothing *)
Theorem C40_unicode_escape_refuted :
  decode_string [92;117;123; 68;56;48;48; 125] = Some [65533] /\
  decode_string [92;117;123; 49;49;48;48;48;48; 125] = Some [65533] /\
  decode_string [92;117;123; 125] = Some [].
Proof. exact unicode_escape_defects. Qed.
Print Assumptions C40_unicode_escape_refuted.

(* ---- printing (ast.QuoteString) then parsing is the identity on every string of Unicode scalar values ---- *)
Theorem C40_quote_roundtrip : forall cps,
  Forall (fun r => valid_scalar r = true) cps -> decode_string (quote_string cps) = Some cps.
Proof. exact quote_roundtrip. Qed.
Print Assumptions C40_quote_roundtrip.

(* non-vacuity *)
Example C40_ex_int : int_lit_value B16 [70; 95; 102] = Some 255                 (* F_f *)
  /\ int_lit_value B2 [49; 48; 95; 49] = Some 5                                  (* 10_1 *)
  /\ int_lit_value B8 [55; 55] = Some 63
  /\ int_lit_value B10 [48; 48; 55] = Some 7                                     (* 007 *)
  /\ int_lit_value B16 [95; 49] = None /\ int_lit_value B10 [49; 95] = None /\ int_lit_value B2 [] = None
  /\ check_int_literal (KSigned 8) true B10 [49; 50; 56] = VAccept (-128)
  /\ check_int_literal (KSigned 8) false B10 [49; 50; 56] = VRange
  /\ check_int_literal (KUnsigned 256) false B16 (repeat 102 64) = VAccept (2 ^ 256 - 1)
  /\ check_int_literal (KUnsigned 256) false B16 (49 :: repeat 48 64) = VRange.
Proof. vm_compute. repeat split. Qed.
Example C40_ex_fix : check_fix_literal FUFix64 false [48; 95; 49] [48; 95; 53] = VAccept 105000000   (* 0_1.0_5 *)
  /\ check_fix_literal FFix64 false [49] [49;50;51;52;53;54;55;56;57] = VScale
  /\ check_fix_literal FFix64 true [57;50;50;51;51;55;50;48;51;54;56] [53;52;55;55;53;56;48;56] = VAccept (- 2 ^ 63)
  /\ check_fix_literal FFix64 true [57;50;50;51;51;55;50;48;51;54;56] [53;52;55;55;53;56;48;57] = VRange
  /\ fix_guard FFix64 (fix_lit_parse false [49] [53]).
Proof. vm_compute. repeat split; try (right; split; discriminate). Qed.
Example C40_ex_str : decode_string [97; 92; 110; 92; 117; 123; 49; 70; 54; 48; 48; 125; 92; 34] = Some [97; 10; 128512; 34]
  /\ decode_string [92; 120] = None /\ decode_string [92; 117; 123; 52; 71; 125] = None
  /\ decode_string [92; 117; 123; 48;48;48;48;48;48;52;49; 125] = Some [65]
  /\ decode_string [92; 117; 123; 48;48;48;48;48;48;48;52;49; 125] = None
  /\ quote_string [97; 10; 128512; 34; 127] = [97; 92; 110; 92; 117; 123; 49; 102; 54; 48; 48; 125; 92; 34; 92; 117; 123; 55; 102; 125].
Proof. vm_compute. repeat split. Qed.
