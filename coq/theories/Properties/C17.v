(* C17  Textual and byte encodings of numbers and addresses round-trip.
   Property theorems only; proofs are in C17/Proofs.v, C17/BytesProofs.v, C17/Summary.v.
   The model (C17/Model.v) is code-shaped and is tied to /repo by the correspondence run. *)
From CV Require Import C17.Model C17.Proofs C17.BytesProofs C17.Summary.
Open Scope Z_scope.

(* ---- T.fromString(x.toString()) = x, every integer kind of every width, every value ---- *)
Theorem C17_int_string_roundtrip : forall k x,
  (match k with KSigned n | KUnsigned n | KWord n => 0 < n | _ => True end) ->
  in_range k x -> int_from_string k (int_to_string x) = Some x.
Proof. exact int_string_roundtrip. Qed.
Print Assumptions C17_int_string_roundtrip.

(* ---- ... and every fixed-point kind (values are the raw scaled integers) ---- *)
Theorem C17_fix_string_roundtrip : forall f x,
  fin_range f x -> fix_from_string f (fix_to_string f x) = Some x.
Proof. exact fix_string_roundtrip. Qed.
Print Assumptions C17_fix_string_roundtrip.

(* ---- acceptance depends only on the class: one grammar + the type's range check ---- *)
(* signed integers of every width and Int: holds *)
Theorem C17_signed_accept_uniform : accept_uniform signed_kind.
Proof. exact signed_accept_uniform. Qed.
Print Assumptions C17_signed_accept_uniform.

Theorem C17_signed_from_string_spec : forall k s,
  signed_kind k -> int_from_string k s = spec_int_from_string k s.
Proof. exact signed_from_string_spec. Qed.
Print Assumptions C17_signed_from_string_spec.

(* unsigned integers: REFUTED on the unchanged tree -- "+5" is nil for UInt8 and 5 for UInt128/UInt,
   "-0" is nil for Word64 and 0 for Word256 *)
Theorem C17_unsigned_accept_refuted : ~ accept_uniform unsigned_kind.
Proof. exact unsigned_accept_not_uniform. Qed.
Print Assumptions C17_unsigned_accept_refuted.

Theorem C17_unsigned_accept_refuted_witness :
  int_from_string (KUnsigned 8) witness_plus5 = None /\
  int_from_string (KUnsigned 128) witness_plus5 = Some 5 /\
  int_from_string KUInt witness_plus5 = Some 5 /\
  int_from_string (KWord 64) witness_minus0 = None /\
  int_from_string (KWord 256) witness_minus0 = Some 0 /\
  in_range (KUnsigned 8) 5 /\ in_range (KWord 64) 0.
Proof. exact unsigned_accept_differs. Qed.
Print Assumptions C17_unsigned_accept_refuted_witness.

(* partial: it holds inside each parser family *)
Theorem C17_small_unsigned_accept_partial : accept_uniform small_unsigned_kind.
Proof. exact small_unsigned_accept_uniform. Qed.
Print Assumptions C17_small_unsigned_accept_partial.

Theorem C17_big_unsigned_accept_partial : accept_uniform big_unsigned_kind.
Proof. exact big_unsigned_accept_uniform. Qed.
Print Assumptions C17_big_unsigned_accept_partial.

Theorem C17_int_from_string_spec_partial : forall k s,
  signed_kind k \/ small_unsigned_kind k -> int_from_string k s = spec_int_from_string k s.
Proof. exact int_from_string_spec_partial. Qed.
Print Assumptions C17_int_from_string_spec_partial.

(* the range check: every accepted string denotes a value of the type, for every integer kind
   (UInt included: since the fix commit 3d918c1 UInt.fromString("-5") is nil) *)
Theorem C17_int_from_string_in_range : forall k s v,
  (match k with KSigned n | KUnsigned n | KWord n => 0 < n | _ => True end) ->
  int_from_string k s = Some v -> in_range k v.
Proof. exact int_from_string_in_range. Qed.
Print Assumptions C17_int_from_string_in_range.

Theorem C17_uint_from_string_negative : int_from_string KUInt witness_minus5 = None.
Proof. exact uint_from_string_negative. Qed.
Print Assumptions C17_uint_from_string_negative.

(* fixed-point: the grammar is shared by construction (parse_fixed_point); the type-specific part must be
   "at most [scale] fractional digits and the exact value in range".  REFUTED: CheckRange compares the
   unscaled fractional digits, "92233720368.6" passes for Fix64 and the value wraps. *)
Theorem C17_fix_from_string_refuted :
  fix_from_string FFix64 witness_fix64_wrap = Some (-9223372036849551616) /\
  spec_fix_from_string FFix64 witness_fix64_wrap = None.
Proof. exact fix_from_string_wraps. Qed.
Print Assumptions C17_fix_from_string_refuted.

(* partial: every string whose fractional part has all [scale] digits, or whose integer part is not the
   type's extreme integer part *)
Theorem C17_fix_from_string_partial : forall f s,
  (forall p, parse_fixed_point s = Some p -> fix_guard f p) ->
  fix_from_string f s = spec_fix_from_string f s.
Proof. exact fix_from_string_partial. Qed.
Print Assumptions C17_fix_from_string_partial.

(* ---- T.fromBigEndianBytes(x.toBigEndianBytes()) = x: every kind, every width 8*m, every value ---- *)
Theorem C17_be_roundtrip : forall k x,
  nvalid k -> n_in_range k x ->
  exists bs, to_be k x = Ok bs /\ bytes_ok bs /\ from_be k bs = Ok (Some x).
Proof. exact be_roundtrip. Qed.
Print Assumptions C17_be_roundtrip.

(* ---- nil exactly for inputs longer than the type's size (never for Int/UInt) ---- *)
Theorem C17_be_nil_iff : forall k bs,
  from_be k bs = Ok None <-> (byte_size k <> 0 /\ len bs > byte_size k).
Proof. exact from_be_nil_iff. Qed.
Print Assumptions C17_be_nil_iff.

(* ---- it never fails (the defensive panic of padWithZeroes is unreachable), results are values of the type ---- *)
Theorem C17_be_total : forall k bs, nvalid k -> exists r, from_be k bs = Ok r.
Proof. exact from_be_total. Qed.
Print Assumptions C17_be_total.

Theorem C17_be_in_range : forall k bs v,
  nvalid k -> bytes_ok bs -> from_be k bs = Ok (Some v) -> n_in_range k v.
Proof. exact from_be_in_range. Qed.
Print Assumptions C17_be_in_range.

(* ---- addresses and hex strings ---- *)
Theorem C17_addr_string_roundtrip : forall a, addr_ok a -> addr_from_string (addr_to_string a) = Some a.
Proof. exact addr_string_roundtrip. Qed.
Print Assumptions C17_addr_string_roundtrip.

Theorem C17_addr_bytes_roundtrip : forall a, addr_ok a -> addr_from_bytes (addr_to_bytes a) = Ok a.
Proof. exact addr_bytes_roundtrip. Qed.
Print Assumptions C17_addr_bytes_roundtrip.

Theorem C17_hex_roundtrip : forall bs, bytes_ok bs -> hex_decode (hex_encode bs) = Some bs.
Proof. exact hex_roundtrip. Qed.
Print Assumptions C17_hex_roundtrip.

(* ---- the full-strength statement (Summary.v: C17_statement) does not hold on the unchanged tree ---- *)
Theorem C17_statement_refuted : ~ C17_statement.
Proof. exact C17_statement_false. Qed.
Print Assumptions C17_statement_refuted.

(* non-vacuity: concrete, non-trivial instances *)
Example C17_ex_int : int_from_string (KSigned 8) (int_to_string (-128)) = Some (-128)
  /\ int_to_string (-128) = [45; 49; 50; 56]
  /\ int_from_string (KSigned 8) [49; 50; 56] = None                      (* "128" *)
  /\ int_from_string (KUnsigned 256) (int_to_string (2 ^ 256 - 1)) = Some (2 ^ 256 - 1)
  /\ int_from_string KInt [43; 48; 48; 55] = Some 7.                      (* "+007" *)
Proof. vm_compute. repeat split. Qed.
Example C17_ex_fix : fix_to_string FFix64 (-50000000) = [45; 48; 46; 53; 48; 48; 48; 48; 48; 48; 48]   (* "-0.50000000" *)
  /\ fix_from_string FFix64 (fix_to_string FFix64 (- 2 ^ 63)) = Some (- 2 ^ 63)
  /\ fix_from_string FUFix128 (fix_to_string FUFix128 (2 ^ 128 - 1)) = Some (2 ^ 128 - 1)
  /\ fix_from_string FFix64 [49; 46; 49; 50; 51; 52; 53; 54; 55; 56; 57] = None   (* "1.123456789": 9 digits *)
  /\ fix_guard FFix64 {| fp_neg := false; fp_int := 1; fp_frac := 5; fp_scale := 1 |}.
Proof. vm_compute. repeat split; try (right; split; discriminate). Qed.
Example C17_ex_be : to_be (NInt KInt) (-129) = Ok [255; 127]
  /\ from_be (NInt KInt) [255; 127] = Ok (Some (-129))
  /\ to_be (NInt (KSigned 128)) (-2) = Ok [255;255;255;255;255;255;255;255;255;255;255;255;255;255;255;254]
  /\ from_be (NInt (KSigned 16)) [255] = Ok (Some 255)
  /\ from_be (NInt (KSigned 16)) [1; 2; 3] = Ok None
  /\ from_be (NFix FFix64) [255;255;255;255;255;255;255;255] = Ok (Some (-1)).
Proof. vm_compute. repeat split. Qed.
Example C17_ex_addr : addr_from_string (addr_to_string 2748) = Some 2748
  /\ addr_from_string [48; 120; 65; 66; 99] = Some 2748                   (* "0xABc" *)
  /\ hex_decode (hex_encode [10; 255]) = Some [10; 255].
Proof. vm_compute. repeat split. Qed.
