(* C11  Sized integer arithmetic is exact or fails.
   Property theorems only; proofs are in Num/IntProofs.v. *)
From CV Require Import Num.IntModel Num.IntProofs.

(* For every integer kind other than WordN (Int8..Int256, UInt8..UInt256, Int, UInt, any width n>0),
   every operator + - * / % and all operands of the type, the code-shaped model (native INT32-C /
   INT30-C predicates for widths <= 64, math/big with bound comparison above) equals the
   specification "exact result if representable, else Overflow/Underflow; DivZero iff divisor 0". *)
Theorem C11_checked_exact_or_fails : forall k op v o,
  wf_kind k -> is_word k = false -> in_range k v -> in_range k o ->
  checked_model k op v o = spec_checked k op v o.
Proof. exact checked_model_correct. Qed.
Print Assumptions C11_checked_exact_or_fails.

(* unary minus *)
Theorem C11_negate_exact_or_fails : forall k v,
  wf_kind k -> (match k with KSigned _ | KInt => True | _ => False end) -> in_range k v ->
  neg_model k v = fit k (- v).
Proof. exact neg_model_correct. Qed.
Print Assumptions C11_negate_exact_or_fails.

(* what the specification means: a successful result is the exact mathematical result
   (truncated division) and lies in the type: never a wrapped value ... *)
Theorem C11_ok_is_exact : forall k op v o z,
  spec_checked k op v o = Ok z -> in_range k z /\ z = exact op v o.
Proof. exact spec_checked_sound. Qed.
Print Assumptions C11_ok_is_exact.

(* ... and a failure is exactly: DivZero for a zero divisor, Overflow (Underflow) when the exact
   result is above the maximum (below the minimum) of a bounded kind. *)
Theorem C11_errors_classified : forall k op v o e,
  spec_checked k op v o = Err e ->
  (e = DivZero /\ o = 0 /\ (op = ODiv \/ op = ORem)) \/
  (e = Overflow /\ exists M, kmax k = Some M /\ exact op v o > M) \/
  (e = Underflow /\ exists m, kmin k = Some m /\ exact op v o < m).
Proof. exact spec_checked_errors. Qed.
Print Assumptions C11_errors_classified.

Example C11_ex :
  checked_model (KSigned 8) OAdd 100 28 = Err Overflow /\
  checked_model (KSigned 8) OMul (-128) (-1) = Err Overflow /\
  checked_model (KSigned 8) ODiv (-128) (-1) = Err Overflow /\
  checked_model (KSigned 8) ORem (-128) (-1) = Ok 0 /\
  checked_model (KSigned 64) OMul (2 ^ 32) (- 2 ^ 31) = Ok (- 2 ^ 63) /\
  checked_model (KSigned 64) OMul (2 ^ 32) (2 ^ 31) = Err Overflow /\
  checked_model (KUnsigned 8) OSub 3 5 = Err Underflow /\
  checked_model (KUnsigned 256) OAdd (2 ^ 256 - 1) 1 = Err Overflow /\
  checked_model (KSigned 128) OSub (- 2 ^ 127) 1 = Err Underflow /\
  checked_model KUInt OSub 3 5 = Err Underflow /\
  checked_model KInt OMul (2 ^ 200) (- 2 ^ 200) = Ok (- 2 ^ 400) /\
  checked_model KInt ODiv (-7) 2 = Ok (-3) /\ checked_model KInt ORem (-7) 2 = Ok (-1).
Proof. vm_compute. repeat split. Qed.
