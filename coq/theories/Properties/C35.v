(* C35  Compilation is deterministic and bytecode encodings round-trip.
   Property theorems only (the codec part: LEB128 and instruction operands); models: C35/Leb128Model.v,
   C35/InstrModel.v and the table Gen/GenC35Opcodes.v regenerated from bbq/opcode on every run;
   proofs: C35/Leb128Proofs.v, C35/InstrProofs.v, C35/GenCheck.v. *)
From CV Require Import C35.Leb128Model C35.Leb128Proofs.
From CV Require Import C35.InstrModel C35.InstrProofs Gen.GenC35Opcodes C35.GenCheck.
Local Open Scope list_scope.

(* ---- LEB128: for EVERY value of the type, Append produces between 1 and 5 (10) bytes after the existing
   data, and Read applied to those bytes followed by anything returns the value and the number of bytes ---- *)

Theorem C35_leb_u32_roundtrip : forall v, 0 <= v < 2 ^ 32 -> leb_roundtrip AppendUint32 ReadUint32 5 v.
Proof. exact leb_u32_roundtrip. Qed.
Print Assumptions C35_leb_u32_roundtrip.

Theorem C35_leb_u64_roundtrip : forall v, 0 <= v < 2 ^ 64 -> leb_roundtrip AppendUint64 ReadUint64 10 v.
Proof. exact leb_u64_roundtrip. Qed.
Print Assumptions C35_leb_u64_roundtrip.

Theorem C35_leb_i32_roundtrip : forall v, - 2 ^ 31 <= v < 2 ^ 31 -> leb_roundtrip AppendInt32 ReadInt32 5 v.
Proof. exact leb_i32_roundtrip. Qed.
Print Assumptions C35_leb_i32_roundtrip.

Theorem C35_leb_i64_roundtrip : forall v, - 2 ^ 63 <= v < 2 ^ 63 -> leb_roundtrip AppendInt64 ReadInt64 10 v.
Proof. exact leb_i64_roundtrip. Qed.
Print Assumptions C35_leb_i64_roundtrip.

(* the transcribed loops compute the textbook encoding (any number of 7-bit groups) *)
Theorem C35_leb_append_is_leb128 : forall nb data v,
  (0 < nb)%nat -> 0 <= v < 128 ^ Z.of_nat nb -> append_uint nb data v = Ok (data ++ enc_u nb v).
Proof. exact append_uint_enc. Qed.
Print Assumptions C35_leb_append_is_leb128.

Theorem C35_leb_append_signed_is_leb128 : forall nb data v,
  (0 < nb)%nat -> - 64 * 128 ^ (Z.of_nat nb - 1) <= v < 64 * 128 ^ (Z.of_nat nb - 1) ->
  append_int nb data v = Ok (data ++ enc_s nb v).
Proof. exact append_int_enc. Qed.
Print Assumptions C35_leb_append_signed_is_leb128.

(* ---- instruction operand codec ---- *)

(* generic: any table passing the consistency check; the 16-bit ip bound is the explicit hypothesis *)
Theorem C35_instr_roundtrip : forall t e vals prefix suffix,
  table_ok t = true -> In e t -> Forall2 wf_field (e_fields e) vals ->
  exists enc,
    encode_instruction t (e_num e, vals) = Ok enc /\
    (InstrModel.len prefix + InstrModel.len enc <= 65535 ->
     decode_instruction t (InstrModel.len prefix) (prefix ++ enc ++ suffix)
     = Ok ((e_num e, vals), InstrModel.len prefix + InstrModel.len enc)).
Proof. exact instr_roundtrip. Qed.
Print Assumptions C35_instr_roundtrip.

(* the table regenerated from the current instructions.yml / opcode.go / instructions.go passes the check:
   Decode mirrors Encode field by field, every field is assigned, helper = field type = YAML operand type,
   DecodeInstruction dispatches every opcode to its own instruction, opcode numbers are distinct bytes *)
Theorem C35_generated_table_ok : table_ok gen_opcodes = true.
Proof. exact gen_table_ok. Qed.
Print Assumptions C35_generated_table_ok.

Theorem C35_generated_constants_covered :
  forallb (fun p => existsb (fun e => e_num e =? snd p) gen_opcodes) gen_opcode_constants = true.
Proof. exact gen_constants_covered. Qed.
Print Assumptions C35_generated_constants_covered.

(* hence: every instruction of every opcode of the current source round-trips *)
Theorem C35_instr_roundtrip_all_opcodes : forall e vals prefix suffix,
  In e gen_opcodes -> Forall2 wf_field (e_fields e) vals ->
  exists enc,
    encode_instruction gen_opcodes (e_num e, vals) = Ok enc /\
    (InstrModel.len prefix + InstrModel.len enc <= 65535 ->
     decode_instruction gen_opcodes (InstrModel.len prefix) (prefix ++ enc ++ suffix)
     = Ok ((e_num e, vals), InstrModel.len prefix + InstrModel.len enc)).
Proof. exact gen_instr_roundtrip. Qed.
Print Assumptions C35_instr_roundtrip_all_opcodes.

(* ---- non-vacuity ---- *)

Example C35_ex_leb :
  AppendUint32 [7] 300 = Ok [7; 172; 2] /\ ReadUint32 [172; 2; 9] = Ok (300, 2) /\
  AppendUint32 [] (2 ^ 32 - 1) = Ok [255; 255; 255; 255; 15] /\ ReadUint32 [255; 255; 255; 255; 15] = Ok (2 ^ 32 - 1, 5) /\
  AppendInt32 [] (- 2 ^ 31) = Ok [128; 128; 128; 128; 120] /\ ReadInt32 [128; 128; 128; 128; 120] = Ok (- 2 ^ 31, 5) /\
  AppendInt64 [] (- 2 ^ 63) = Ok [128; 128; 128; 128; 128; 128; 128; 128; 128; 127] /\
  ReadInt64 [128; 128; 128; 128; 128; 128; 128; 128; 128; 127; 1] = Ok (- 2 ^ 63, 10) /\
  AppendInt32 [] (-65) = Ok [191; 127] /\ AppendInt32 [] 64 = Ok [192; 0] /\
  AppendUint64 [] (2 ^ 64 - 1) = Ok [255; 255; 255; 255; 255; 255; 255; 255; 255; 1].
Proof. vm_compute. repeat split. Qed.

(* the table is not empty, has instructions with every kind of operand, and a concrete instruction of each shape
   decodes back inside a buffer *)
Example C35_ex_table :
  Nat.leb 80 (List.length gen_opcodes) = true /\
  existsb (fun e => existsb (fun p => match snd p with CUpvalueArray => true | _ => false end) (e_enc e)) gen_opcodes = true /\
  existsb (fun e => existsb (fun p => match snd p with CUint16Array => true | _ => false end) (e_enc e)) gen_opcodes = true /\
  existsb (fun e => existsb (fun p => match snd p with CPathDomain => true | _ => false end) (e_enc e)) gen_opcodes = true.
Proof. vm_compute. repeat split. Qed.

Example C35_ex_instr :
  let e := mk_entry 200 "Demo" [FUint16; FUpvalues; FBool] [(0%nat, CUint16); (1%nat, CUpvalueArray); (2%nat, CBool)]
             [(0%nat, CUint16); (1%nat, CUpvalueArray); (2%nat, CBool)] [200] [CUint16; CUpvalueArray; CBool] in
  table_ok [e] = true /\
  encode_instruction [e] (200, [VNum 258; VUps [(65535, true); (1, false)]; VBool true])
    = Ok [200; 1; 2; 0; 2; 255; 255; 1; 0; 1; 0; 1] /\
  decode_instruction [e] 2 ([9; 9] ++ [200; 1; 2; 0; 2; 255; 255; 1; 0; 1; 0; 1] ++ [7])
    = Ok ((200, [VNum 258; VUps [(65535, true); (1, false)]; VBool true]), 14).
Proof. vm_compute. repeat split. Qed.

(* the ip bound matters: the same instruction placed so that it ends beyond position 65535 comes back with a wrapped ip *)
Example C35_ex_ip_wraps :
  let e := mk_entry 200 "Demo" [FUint16] [(0%nat, CUint16)] [(0%nat, CUint16)] [200] [CUint16] in
  decode_instruction [e] 65534 (repeat 0 (Z.to_nat 65534) ++ [200; 1; 2]) <> Ok ((200, [VNum 258]), 65537).
Proof. vm_compute. discriminate. Qed.
