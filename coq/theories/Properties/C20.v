(* C20  Arrays and dictionaries behave like their mathematical models.
   Property theorems only; proofs are in C20/ArrayProofs.v, C20/DictProofs.v, C20/DictRefine.v.
   Models: C20/ArrayModel.v, C20/DictModel.v (code-shaped); specifications: C20/ArraySpec.v
   (lists) and std++ gmap (finite maps). *)
From stdpp Require Import gmap.
From CV Require Import C20.ArrayModel C20.ArraySpec C20.ArrayProofs.
From CV Require Import C20.DictModel C20.DictProofs C20.DictRefine C20.Cases.

(* ------------------------------------------------------------------ arrays *)

(* For every element type and element equality, every history of programs (each a list of
   operations run in place through a reference, on a loaded value saved back, on a copy, or in a
   script) from every initial contents, on variable- or constant-sized arrays: every output, every
   error class, every rejection and the final contents computed by the code-shaped model equal
   those of the list specification. *)
Theorem C20_array_history : forall (V : Type) (veqb : V -> V -> bool) fixed (h : list tx) (s : list V),
  model_history veqb fixed s h = spec_history veqb fixed s h.
Proof. exact @ArrayProofs.history_refines. Qed.
Print Assumptions C20_array_history.

(* one operation at a time, the same statement *)
Theorem C20_array_step : forall (V : Type) (veqb : V -> V -> bool) (l : list V) (o : aop),
  astep veqb l o = spec_step veqb l o.
Proof. exact @astep_spec. Qed.
Print Assumptions C20_array_step.

(* the model's Go-shaped loops never run out of fuel: no history reaches the model-only outcome *)
Theorem C20_array_never_stuck : forall (V : Type) (veqb : V -> V -> bool) fixed (h : list tx) (s : list V),
  Forall (fun x => match x with XRan _ TStuck => False | _ => True end)
         (fst (model_history veqb fixed s h)).
Proof. exact @history_never_stuck. Qed.
Print Assumptions C20_array_never_stuck.

(* stored contents after any history = the effects of exactly the well-typed, successful,
   persisting programs, in order (commit + reload is the identity; failures roll back) *)
Theorem C20_array_final_state : forall (V : Type) (veqb : V -> V -> bool) fixed (h : list tx) (s : list V),
  snd (model_history veqb fixed s h) = spec_final veqb fixed s h.
Proof. exact @history_final_state. Qed.
Print Assumptions C20_array_final_state.

Theorem C20_array_failed_tx_no_effect :
  forall (V : Type) (veqb : V -> V -> bool) fixed (s : list V) t x s',
  exec_tx (astep veqb) fixed s t = (x, s') ->
  (x = XRejected \/ (exists outs e, x = XRan outs (TFail e)) \/ persists (tmode t) = false) ->
  s' = s.
Proof. exact @failed_tx_no_effect. Qed.
Print Assumptions C20_array_failed_tx_no_effect.

(* constant-sized arrays keep their size in every reachable state *)
Theorem C20_array_fixed_size : forall (V : Type) (veqb : V -> V -> bool) (h : list tx) (s : list V),
  length (snd (model_history veqb true s h)) = length s.
Proof. exact @fixed_size_invariant. Qed.
Print Assumptions C20_array_fixed_size.

(* length bookkeeping of every successful operation *)
Theorem C20_array_length : forall (V : Type) (veqb : V -> V -> bool) (l : list V) o l' out,
  astep veqb l o = SOk l' out -> length_effect o (len l) l'.
Proof. exact @step_length. Qed.
Print Assumptions C20_array_length.

(* an operation fails exactly when an index is invalid (array counts fit a Go int) *)
Theorem C20_array_fails_iff_invalid_index :
  forall (V : Type) (veqb : V -> V -> bool) (l : list V) o,
  len l < 2 ^ 63 -> ((exists e, astep veqb l o = SErr e) <-> ~ op_valid l o).
Proof. exact @step_fails_iff_invalid. Qed.
Print Assumptions C20_array_fails_iff_invalid_index.

(* the error is ArrayIndexOutOfBounds / ArraySliceIndices / InvalidSliceIndex, except for an index
   that does not even fit a Go int, which is reported as overflow *)
Theorem C20_array_overflow_only_beyond_int :
  forall (V : Type) (veqb : V -> V -> bool) (l : list V) o,
  astep veqb l o = SErr EIntOverflow ->
  match o with
  | OpInsert i _ | OpRemove i | OpGet i | OpSet i _ => fits_int i = false
  | OpPure (PSlice a b) | OpAssign (PSlice a b) => fits_int a = false \/ fits_int b = false
  | _ => False
  end.
Proof. exact @overflow_only_beyond_int. Qed.
Print Assumptions C20_array_overflow_only_beyond_int.

(* algebraic laws of the code-shaped operations *)
Theorem C20_reverse_involutive : forall (V : Type) (l r : list V),
  arr_reverse l = Some (COk r) -> arr_reverse r = Some (COk l).
Proof. exact @reverse_involutive. Qed.
Print Assumptions C20_reverse_involutive.

Theorem C20_slice_concat : forall (V : Type) (l : list V) k,
  len l < 2 ^ 63 -> 0 <= k <= len l ->
  exists a b, arr_slice l 0 k = COk a /\ arr_slice l k (len l) = COk b /\ arr_concat a b = l.
Proof. exact @slice_concat. Qed.
Print Assumptions C20_slice_concat.

Theorem C20_contains_iff_first_index : forall (V : Type) (veqb : V -> V -> bool) (l : list V) x,
  arr_contains veqb l x = true <-> arr_first_index veqb l x <> None.
Proof. exact @contains_iff_first_index. Qed.
Print Assumptions C20_contains_iff_first_index.

Theorem C20_first_index_least : forall (V : Type) (veqb : V -> V -> bool) (l : list V) x i,
  arr_first_index veqb l x = Some i ->
  0 <= i < len l /\
  (exists y, nth_error l (Z.to_nat i) = Some y /\ veqb x y = true) /\
  (forall j y, 0 <= j < i -> nth_error l (Z.to_nat j) = Some y -> veqb x y = false).
Proof. exact @first_index_least. Qed.
Print Assumptions C20_first_index_least.

Theorem C20_first_index_none : forall (V : Type) (veqb : V -> V -> bool) (l : list V) x,
  arr_first_index veqb l x = None -> forall y, In y l -> veqb x y = false.
Proof. exact @first_index_none. Qed.
Print Assumptions C20_first_index_none.

Theorem C20_set_then_get : forall (V : Type) (l l' : list V) i x,
  arr_set l i x = COk l' ->
  arr_get l' i = COk x /\ (forall j, j <> i -> arr_get l' j = arr_get l j) /\ len l' = len l.
Proof. exact @set_then_get. Qed.
Print Assumptions C20_set_then_get.

Theorem C20_insert_then_remove : forall (V : Type) (l l' : list V) i x,
  arr_insert l i x = COk l' -> arr_remove l' i = COk (l, x).
Proof. exact @insert_then_remove. Qed.
Print Assumptions C20_insert_then_remove.

Theorem C20_append_then_remove_last : forall (V : Type) (l : list V) x,
  arr_remove_last (arr_append l x) = COk (l, x).
Proof. exact @append_then_remove_last. Qed.
Print Assumptions C20_append_then_remove_last.

(* ------------------------------------------------------------------ dictionaries *)

(* For every key type with decidable equality (countable, for gmap), every value type, every
   digest order [place], every history from every duplicate-free state: the invariant holds at the
   end (and, by the same theorem on prefixes, in every reachable state), the final state abstracts
   to the finite map obtained by folding insert/delete over the persisting programs, and every
   output is the finite-map answer (keys/values/entries up to the iteration order). *)
Theorem C20_dict_history :
  forall (K : Type) (E : EqDecision K) (C : Countable K) (V : Type) (keqb : K -> K -> bool),
  (forall a b, keqb a b = true <-> a = b) ->
  forall (place : K -> list (K * V) -> nat) (h : list dtx) (s : list (K * V)),
  DictProofs.wf s ->
  let '(xs, s') := drun_history keqb place s h in
  DictProofs.wf s' /\ abs s' = foldl gcommit (abs s) h /\ ghistory_ok (abs s) h xs.
Proof. exact @DictRefine.history_refines. Qed.
Print Assumptions C20_dict_history.

Theorem C20_dict_step :
  forall (K : Type) (E : EqDecision K) (C : Countable K) (V : Type) (keqb : K -> K -> bool),
  (forall a b, keqb a b = true <-> a = b) ->
  forall (place : K -> list (K * V) -> nat) (d : list (K * V)) o,
  DictProofs.wf d ->
  let '(d', out) := dstep keqb place d o in
  DictProofs.wf d' /\ abs d' = gstep (abs d) o /\ gout (abs d) o out.
Proof. exact @dstep_refines. Qed.
Print Assumptions C20_dict_step.

Theorem C20_dict_invariant :
  forall (K V : Type) (keqb : K -> K -> bool), (forall a b, keqb a b = true <-> a = b) ->
  forall (place : K -> list (K * V) -> nat) (h : list dtx) (s : list (K * V)),
  DictProofs.wf s -> DictProofs.wf (snd (drun_history keqb place s h)).
Proof. exact @history_wf. Qed.
Print Assumptions C20_dict_invariant.

(* insert returns the previous value, remove the removed value; lookups afterwards; length *)
Theorem C20_dict_insert :
  forall (K V : Type) (keqb : K -> K -> bool), (forall a b, keqb a b = true <-> a = b) ->
  forall (place : K -> list (K * V) -> nat) (d : list (K * V)) k v,
  DictProofs.wf d ->
  let '(d', old) := dict_insert keqb place d k v in
  DictProofs.wf d' /\ old = m_get keqb d k /\
  (forall k', m_get keqb d' k' = if keqb k' k then Some v else m_get keqb d k') /\
  dict_length d' = dict_length d + (if old then 0 else 1).
Proof. exact @insert_spec. Qed.
Print Assumptions C20_dict_insert.

Theorem C20_dict_remove :
  forall (K V : Type) (keqb : K -> K -> bool), (forall a b, keqb a b = true <-> a = b) ->
  forall (d : list (K * V)) k,
  DictProofs.wf d ->
  let '(d', old) := dict_remove keqb d k in
  DictProofs.wf d' /\ old = m_get keqb d k /\
  (forall k', m_get keqb d' k' = if keqb k' k then None else m_get keqb d k') /\
  dict_length d' = dict_length d - (if old then 1 else 0).
Proof. exact @remove_spec. Qed.
Print Assumptions C20_dict_remove.

(* d[k] = v inserts, d[k] = nil removes *)
Theorem C20_dict_index_assignment :
  forall (K V : Type) (keqb : K -> K -> bool), (forall a b, keqb a b = true <-> a = b) ->
  forall (place : K -> list (K * V) -> nat) (d : list (K * V)) k (value : option V),
  DictProofs.wf d ->
  let d' := dict_set_key keqb place d k value in
  DictProofs.wf d' /\ (forall k', m_get keqb d' k' = if keqb k' k then value else m_get keqb d k').
Proof. exact @set_key_spec. Qed.
Print Assumptions C20_dict_index_assignment.

Theorem C20_dict_keys_values_aligned : forall (K V : Type) (d : list (K * V)),
  combine (dict_keys d) (dict_values d) = d /\
  length (dict_keys d) = length d /\ length (dict_values d) = length d /\
  dict_length d = Z.of_nat (length (dict_keys d)).
Proof. exact @keys_values_aligned. Qed.
Print Assumptions C20_dict_keys_values_aligned.

Theorem C20_dict_keys_values_lookup :
  forall (K V : Type) (keqb : K -> K -> bool), (forall a b, keqb a b = true <-> a = b) ->
  forall (d : list (K * V)) i k v,
  DictProofs.wf d -> nth_error (dict_keys d) i = Some k -> nth_error (dict_values d) i = Some v ->
  dict_get_key keqb d k = Some v.
Proof. exact @keys_values_lookup. Qed.
Print Assumptions C20_dict_keys_values_lookup.

Theorem C20_dict_contains_key_dom :
  forall (K : Type) (E : EqDecision K) (C : Countable K) (V : Type) (keqb : K -> K -> bool),
  (forall a b, keqb a b = true <-> a = b) ->
  forall (d : list (K * V)) k, dict_contains_key keqb d k = true <-> k ∈ dom (abs d).
Proof. exact @contains_key_dom. Qed.
Print Assumptions C20_dict_contains_key_dom.

Theorem C20_dict_for_each_key_prefix : forall (K V : Type) (d : list (K * V)) cont,
  exists rest,
    dict_keys d = dict_for_each_key d cont ++ rest /\
    Forall (fun k => cont k = true) (removelast (dict_for_each_key d cont)) /\
    (rest <> [] -> exists k, last (dict_for_each_key d cont) k = k /\ cont k = false /\
                             dict_for_each_key d cont <> []).
Proof. exact @for_each_key_prefix. Qed.
Print Assumptions C20_dict_for_each_key_prefix.

Theorem C20_dict_aborted_tx_no_effect :
  forall (K V : Type) (keqb : K -> K -> bool) (place : K -> list (K * V) -> nat) (s : list (K * V)) t,
  dpersists (dmode_of t) = false \/ dabort t = true -> snd (dexec_tx keqb place s t) = s.
Proof. exact @aborted_tx_no_effect. Qed.
Print Assumptions C20_dict_aborted_tx_no_effect.

(* ------------------------------------------------------------------ non-vacuity *)
Open Scope Z_scope.
Example C20_ex_array :
  model_history Z.eqb false [1; 2; 3]
    [ {| tmode := MRef; tops := [OpAppend 4; OpRemove 0; OpInsert 1 9; OpGet 3; OpFirstIndex 4;
                                 OpPure PReverse; OpPure (PSlice 1 3); OpRemoveLast] |};
      {| tmode := MLoadSave; tops := [OpSet 0 7; OpGet 5] |};            (* fails: rolled back *)
      {| tmode := MCopy; tops := [OpAppend 5; OpLength] |};              (* not persisted *)
      {| tmode := MRef; tops := [OpAssign (PConcat [8; 8]); OpPure (PSlice 3 2)] |};
      {| tmode := MRef; tops := [OpGet (2 ^ 64)] |} ]
  = ([ XRan [RUnit; RVal 1; RUnit; RVal 4; ROptZ (Some 3); RList [4; 3; 9; 2]; RList [9; 3]; RVal 4] TDone;
       XRan [RUnit] (TFail EIndex);
       XRan [RUnit; RZ 4] TDone;
       XRan [RUnit] (TFail ESliceOrder);
       XRan [] (TFail EIntOverflow) ],
     [2; 9; 3]).
Proof. vm_compute. reflexivity. Qed.

Example C20_ex_fixed :
  model_history Z.eqb true [1; 2; 3]
    [ {| tmode := MRef; tops := [OpSet 1 5; OpAssign PReverse; OpToVariable] |};
      {| tmode := MRef; tops := [OpSet 0 0; OpAppend 4] |} ]                (* rejected statically *)
  = ([ XRan [RUnit; RUnit; RList [3; 5; 1]] TDone; XRejected ], [3; 5; 1]).
Proof. vm_compute. reflexivity. Qed.

Example C20_ex_dict :
  drun_history Z.eqb place_sorted [(1, 10); (5, 50)]
    [ {| dmode_of := DRef; dabort := false;
         dops := [DInsert 3 30; DInsert 1 11; DRemove 7; DSetNil 5; DGet 5; DContainsKey 3; DLength;
                  DKeys; DValues; DForEachKey (stop_at 3)] |};
      {| dmode_of := DRef; dabort := true; dops := [DSet 9 90; DLength] |} ]
  = ([ [QOpt None; QOpt (Some 10); QOpt None; QUnit; QOpt None; QBool true; QZ 2;
        QKeys [1; 3]; QVals [11; 30]; QKeys [1; 3]];
       [QUnit; QZ 3] ],
     [(1, 11); (3, 30)]).
Proof. vm_compute. reflexivity. Qed.

Example C20_ex_wf : DictProofs.wf [(1, 10); (5, 50)].
Proof. repeat constructor; simpl; intuition discriminate. Qed.
