(* C19  Strings behave as sequences of grapheme clusters of their normalized form.
   Property theorems only; proofs are in C19/Proofs.v, C19/Utf8Proofs.v, C19/MiscProofs.v.

   Model: C19/Model.v (code-shaped transcription of interpreter/value_string.go at the byte /
   grapheme-boundary level).  Specification: C19/Spec.v (structural recursions over the list of
   clusters).  External, NOT modelled: Unicode normalisation [nfc] (x/text/unicode/norm) and
   grapheme segmentation [B] (rivo/uniseg); they are universally quantified and constrained only by
   the hypotheses [wf] (B s is a strictly increasing list of byte offsets from 0 to len s) and
   [stable] (every run of consecutive clusters of s, taken on its own, is in NFC and is segmented
   into the same clusters). *)
From CV Require Import C19.Spec C19.Proofs C19.Utf8Proofs C19.Utf8Order C19.MiscProofs C19.Cases C19.Examples.

(* length = number of clusters *)
Theorem C19_length : forall B s, wf B s -> s_length B s = Ok (length (cl_of B s)).
Proof. exact length_correct. Qed.
Print Assumptions C19_length.

(* s[i] = i-th cluster; fails exactly when i is out of range *)
Theorem C19_index : forall nfc B s i, wf B s -> stable nfc B s ->
  s_get_key nfc B s i = get_spec (cl_of B s) i.
Proof. exact get_key_correct. Qed.
Print Assumptions C19_index.

Theorem C19_index_fails_exactly : forall cl i, (- 2 ^ 63 <= i < 2 ^ 63)%Z ->
  ((exists c, get_spec cl i = Ok c) <-> (0 <= i < Z.of_nat (length cl))%Z).
Proof. exact get_ok_iff. Qed.
Print Assumptions C19_index_fails_exactly.

(* slice(from, upTo) = the clusters from..upTo-1 (firstn (upTo-from) (skipn from clusters));
   fails exactly for out-of-range or reversed bounds *)
Theorem C19_slice : forall nfc B s from to, wf B s -> stable nfc B s ->
  s_Slice nfc B s from to = Slice_spec (cl_of B s) from to.
Proof. exact slice_correct. Qed.
Print Assumptions C19_slice.

Theorem C19_slice_fails_exactly : forall cl from to,
  (- 2 ^ 63 <= from < 2 ^ 63)%Z -> (- 2 ^ 63 <= to < 2 ^ 63)%Z ->
  ((exists r, Slice_spec cl from to = Ok r) <-> (0 <= from <= to /\ to <= Z.of_nat (length cl))%Z).
Proof. exact slice_ok_iff. Qed.
Print Assumptions C19_slice_fails_exactly.

(* iteration yields the clusters in order *)
Theorem C19_iteration : forall nfc B s, wf B s -> stable nfc B s -> s_chars nfc B s = Ok (cl_of B s).
Proof. exact chars_correct. Qed.
Print Assumptions C19_iteration.

(* concat / fromCharacters: NFC of the concatenation *)
Theorem C19_concat : forall nfc a b, s_concat nfc a b = nfc (a ++ b).
Proof. exact concat_is_nfc. Qed.
Print Assumptions C19_concat.

Theorem C19_from_characters : forall nfc cs, s_from_characters nfc cs = nfc (concat cs).
Proof. exact from_characters_is_nfc. Qed.
Print Assumptions C19_from_characters.

(* index(of:) = index of the first cluster-aligned occurrence, -1 if none, 0 for the empty needle *)
Theorem C19_index_of : forall B s o, wf B s -> s_index_of B s o = Ok (index_spec (cl_of B s) o).
Proof. exact index_of_correct. Qed.
Print Assumptions C19_index_of.

Theorem C19_contains : forall B s o, wf B s ->
  s_contains B s o = Ok (0 <=? index_spec (cl_of B s) o)%Z.
Proof. exact contains_correct. Qed.
Print Assumptions C19_contains.

(* count = number of non-overlapping cluster-aligned occurrences (clusters + 1 for the empty needle) *)
Theorem C19_count : forall nfc B s o, wf B s -> stable nfc B s -> wf B o ->
  s_count nfc B s o = Ok (count_spec (cl_of B s) o).
Proof. exact count_correct. Qed.
Print Assumptions C19_count.

(* split = the pieces between non-overlapping aligned occurrences (the clusters for the empty separator) *)
Theorem C19_split : forall nfc B s sep, wf B s -> stable nfc B s -> wf B sep ->
  s_split nfc B s sep = Ok (split_spec (cl_of B s) sep).
Proof. exact split_correct. Qed.
Print Assumptions C19_split.

(* String.join: NFC of the intercalation *)
Theorem C19_join : forall nfc l sep,
  s_join nfc l sep = match l with [x] => x | _ => nfc (intercalate sep l) end.
Proof. exact s_join_spec. Qed.
Print Assumptions C19_join.

(* join sep (split s sep) = s for every non-empty separator *)
Theorem C19_join_split : forall nfc B s sep parts,
  wf B s -> stable nfc B s -> wf B sep -> sep <> [] ->
  s_split nfc B s sep = Ok parts -> s_join nfc parts sep = s.
Proof. exact join_split_correct. Qed.
Print Assumptions C19_join_split.

(* replaceAll = NFC of the text with every non-overlapping aligned occurrence replaced *)
Theorem C19_replace_all : forall nfc B s o r, wf B s -> stable nfc B s -> wf B o ->
  s_replace_all nfc B s o r = Ok (nfc (replace_spec (cl_of B s) o r)).
Proof. exact replace_all_correct. Qed.
Print Assumptions C19_replace_all.

(* equality = equality of the cluster sequences; ordering is a strict total order consistent with it *)
Theorem C19_equal : forall B a b, wf B a -> wf B b -> (s_equal a b = true <-> cl_of B a = cl_of B b).
Proof. exact equal_correct. Qed.
Print Assumptions C19_equal.

Theorem C19_order_total : forall a b,
  (s_less a b = true /\ s_equal a b = false /\ s_greater a b = false) \/
  (s_less a b = false /\ s_equal a b = true /\ s_greater a b = false) \/
  (s_less a b = false /\ s_equal a b = false /\ s_greater a b = true).
Proof. exact string_order_total. Qed.
Print Assumptions C19_order_total.

Theorem C19_order_le_ge : forall a b,
  s_less_equal a b = (s_less a b || s_equal a b) /\ s_greater_equal a b = (s_greater a b || s_equal a b).
Proof. exact string_order_le_ge. Qed.
Print Assumptions C19_order_le_ge.

Theorem C19_order_trans : forall a b c, s_less a b = true -> s_less b c = true -> s_less a c = true.
Proof. exact string_less_trans. Qed.
Print Assumptions C19_order_trans.

(* the ordering of strings (bytewise on the UTF-8 of the NFC form) is the lexicographic order of code points *)
Theorem C19_order_is_code_point_order : forall a b, Forall scalar a -> Forall scalar b ->
  s_less (utf8_enc a) (utf8_enc b) = cps_ltb a b.
Proof. exact utf8_order. Qed.
Print Assumptions C19_order_is_code_point_order.

(* toLower on ASCII text *)
Theorem C19_to_lower_ascii : forall nfc lower s,
  (forall s, forallb is_ascii s = true -> nfc s = s) ->
  (forall s, forallb is_ascii s = true -> lower s = map ascii_lower s) ->
  forallb is_ascii s = true -> s_to_lower nfc lower s = map ascii_lower s.
Proof. exact to_lower_ascii. Qed.
Print Assumptions C19_to_lower_ascii.

(* utf8: the bytes of a string are the UTF-8 encoding of its code points, and UTF-8 round-trips *)
Theorem C19_utf8_roundtrip : forall cps, Forall scalar cps -> utf8_dec (s_utf8 (utf8_enc cps)) = Some cps.
Proof. exact dec_enc. Qed.
Print Assumptions C19_utf8_roundtrip.

Theorem C19_utf8_canonical : forall p cps, Forall byte p -> utf8_dec p = Some cps ->
  utf8_enc cps = p /\ Forall scalar cps.
Proof. exact enc_dec. Qed.
Print Assumptions C19_utf8_canonical.

Theorem C19_utf8_injective : forall a b, Forall scalar a -> Forall scalar b -> utf8_enc a = utf8_enc b -> a = b.
Proof. exact enc_inj. Qed.
Print Assumptions C19_utf8_injective.

(* fromUTF8 accepts exactly the encodings of sequences of Unicode scalar values *)
Theorem C19_from_utf8 : forall nfc buf, Forall byte buf ->
  (forall cps, Forall scalar cps -> utf8_enc cps = buf -> s_from_utf8 nfc buf = Some (nfc buf)) /\
  ((forall cps, Forall scalar cps -> utf8_enc cps <> buf) -> s_from_utf8 nfc buf = None).
Proof. exact from_utf8_correct. Qed.
Print Assumptions C19_from_utf8.

(* decodeHex (encodeHex bs) = bs *)
Theorem C19_hex_roundtrip : forall nfc bs,
  (forall s, forallb is_ascii s = true -> nfc s = s) ->
  Forall byte bs -> s_decode_hex (s_encode_hex nfc bs) = HexOk bs.
Proof. exact decode_hex_encode_hex. Qed.
Print Assumptions C19_hex_roundtrip.

Theorem C19_hex_decode_length : forall s bs, hex_decode s = HexOk bs -> length s = (2 * length bs)%nat.
Proof. exact hex_decode_ok_length. Qed.
Print Assumptions C19_hex_decode_length.

(* StringBuilder *)
Theorem C19_string_builder : forall nfc l,
  sb_to_string nfc (map SbAppend l) = nfc (concat l) /\ sb_length (map SbAppend l) = length (concat l).
Proof. exact sb_to_string_appends. Qed.
Print Assumptions C19_string_builder.

Theorem C19_string_builder_clear : forall ops1 ops2, sb_run (ops1 ++ SbClear :: ops2) [] = sb_run ops2 [].
Proof. exact sb_clear_forgets. Qed.
Print Assumptions C19_string_builder_clear.

(* ---------- non-vacuity ---------- *)
(* the hypotheses are satisfiable by a non-trivial instance: the text  x U+0301 CR LF a x  (7 bytes,
   4 clusters [x U+0301][CR LF][a][x]) with oracle tables answering for all its cluster runs *)
Example C19_hyps_satisfiable :
  wf ex_B ex_s /\ stable ex_nfc ex_B ex_s /\ cl_of ex_B ex_s = [[120; 204; 129]; [13; 10]; [97]; [120]].
Proof. exact (conj ex_wf (conj ex_stable ex_clusters)). Qed.

(* on it: "x" occurs at byte 0 inside the cluster [x U+0301] (not aligned) and as the last cluster;
   LF alone is never aligned *)
Example C19_ex_search :
  s_index_of ex_B ex_s [120] = Ok 3%Z /\ s_count ex_nfc ex_B ex_s [120] = Ok 1%nat
  /\ s_contains ex_B ex_s [10] = Ok false /\ s_index_of ex_B ex_s [13; 10] = Ok 1%Z
  /\ s_length ex_B ex_s = Ok 4%nat.
Proof. vm_compute. repeat split. Qed.

Example C19_ex_slice_split :
  s_Slice ex_nfc ex_B ex_s 1 3 = Ok [13; 10; 97] /\ s_Slice ex_nfc ex_B ex_s 3 1 = Err UserOther
  /\ s_Slice ex_nfc ex_B ex_s 0 5 = Err IndexOOB /\ s_get_key ex_nfc ex_B ex_s 0 = Ok [120; 204; 129]
  /\ s_get_key ex_nfc ex_B ex_s 4 = Err IndexOOB
  /\ s_split ex_nfc ex_B ex_s [13; 10] = Ok [[120; 204; 129]; [97; 120]]
  /\ s_replace_all ex_nfc ex_B ex_s [120] [45; 45] = Ok [120; 204; 129; 13; 10; 97; 45; 45].
Proof. vm_compute. repeat split. Qed.

Example C19_ex_utf8_hex :
  utf8_enc [233; 8364; 128105] = [195; 169; 226; 130; 172; 240; 159; 145; 169]
  /\ utf8_dec [195; 169; 226; 130; 172; 240; 159; 145; 169] = Some [233; 8364; 128105]
  /\ utf8_valid [237; 160; 128] = false /\ utf8_valid [192; 128] = false /\ utf8_valid [244; 144; 128; 128] = false
  /\ hex_decode (hex_encode [0; 171; 255]) = HexOk [0; 171; 255]
  /\ hex_decode [97; 103] = HexBadByte 103 /\ hex_decode [97; 98; 99] = HexBadLen.
Proof. vm_compute. repeat split. Qed.
