(* C14  Bitwise operations and shifts follow two's-complement semantics.
   Property theorems only; proofs are in Num/BitsProofs.v. *)
From CV Require Import Num.BitsModel Num.BitsProofs.

(* For every integer and word kind (any width 0 < n <= 2^64; native Go operator shape for n <= 64,
   math/big + toTwosComplement/truncate/fromTwosComplement shape above; Int, UInt) and ALL operands
   of the type: & | ^ compute the operation on the two's-complement representation at the width,
   x << k = x * 2^k truncated to the width, x >> k = floor (x / 2^k) for every k >= 0, k < 0 fails
   with NegShift; Int/UInt may instead fail with Overflow when k >= 2^64. *)
Theorem C14_bits_follow_twos_complement : forall k op v o,
  wf_bits_kind k -> in_range k v -> in_range k o ->
  bits_allowed k op v o (bits_model k op v o).
Proof. exact bits_model_allowed. Qed.
Print Assumptions C14_bits_follow_twos_complement.

(* bounded kinds: exactly the specification, never an Overflow error *)
Theorem C14_bounded_exact : forall k op v o,
  wf_bits_kind k -> (k <> KInt /\ k <> KUInt) -> in_range k v -> in_range k o ->
  bits_model k op v o = spec_bits k op v o.
Proof. exact bits_model_bounded_exact. Qed.
Print Assumptions C14_bounded_exact.

(* reading of the right-shift specification *)
Theorem C14_shr_is_floor : forall k a b z,
  spec_bits k BShr a b = Ok z -> 0 <= b /\ z = a / 2 ^ b.
Proof. exact spec_bits_shr_floor. Qed.
Print Assumptions C14_shr_is_floor.

(* non-vacuity, including the two inputs on which the pinned tree was wrong before the fix: commits *)
Example C14_ex :
  bits_model (KSigned 128) BShl 1 7 = Ok 128 /\
  bits_model (KSigned 128) BShl 255 0 = Ok 255 /\
  bits_model (KSigned 128) BShl 1 127 = Ok (- 2 ^ 127) /\
  bits_model (KSigned 128) BShr (-5) (2 ^ 64) = Ok (-1) /\
  bits_model (KSigned 128) BShr (-5) 200 = Ok (-1) /\
  bits_model (KSigned 8) BShl 1 7 = Ok (-128) /\
  bits_model (KSigned 8) BShl 1 9 = Ok 0 /\
  bits_model (KSigned 8) BShr (-128) 9 = Ok (-1) /\
  bits_model (KSigned 8) BAnd (-1) 127 = Ok 127 /\
  bits_model (KSigned 8) BXor (-128) 127 = Ok (-1) /\
  bits_model (KSigned 8) BShl 3 (-1) = Err NegShift /\
  bits_model (KWord 256) BShl (2 ^ 255) 1 = Ok 0 /\
  bits_model KInt BShl (-3) 100 = Ok (- 3 * 2 ^ 100) /\
  bits_model KInt BShr 1 (2 ^ 64) = Err Overflow.
Proof. vm_compute. repeat split. Qed.
