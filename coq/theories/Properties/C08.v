(* C08  Subtyping is a consistent preorder across all implementations.
   Property theorems only.  The relation is the one generated on every run from
   tools/subtype-gen/rules.yaml (Gen/GenC08Subtype.v); proofs are in C08/*.v. *)
From Coq Require Import ZArith List Bool.
From CV Require Import Base.Prelude C08.Model Gen.GenC08Subtype C08.Spec C08.Refine C08.Subtype C08.Fuel C08.Laws
  C08.EqualProofs C08.Wf C08.Refuted C08.TransD C08.Runtime.
Import ListNotations.
Open Scope Z_scope.

(* The rule function generated from rules.yaml defines the same relation as the hand-written
   specification of the rules: Equal-or-generated-rules = Equal-or-specified-rules for every pair of
   types, every environment and every reflexive recursive relation (the rules are only ever applied
   after Equal has been tested).  (This is the theorem a rule change breaks.) *)
Theorem C08_generated_rules_meet_spec : forall E f, (forall x, f x x = true) -> forall a b,
  ty_equal E a b || gen_step E f a b = ty_equal E a b || spec_step E f a b.
Proof. exact gen_step_spec. Qed.
Print Assumptions C08_generated_rules_meet_spec.

(* Fuel is never the reason for an answer: any fuel above the size of the two types gives the
   same result, and the relation satisfies its defining equation without fuel. *)
Theorem C08_fuel_adequate : forall E n a b,
  (fuel_of a b <= n)%nat ->
  ty_equal E a b || gen_check E n a b = ty_equal E a b || gen_check E (fuel_of a b) a b.
Proof. exact fuel_adequate. Qed.
Print Assumptions C08_fuel_adequate.

Theorem C08_unfold : forall E a b,
  is_subtype E a b = ty_equal E a b || spec_step E (is_subtype E) a b.
Proof. exact is_subtype_unfold. Qed.
Print Assumptions C08_unfold.

(* Type.Equal is an equivalence *)
Theorem C08_equal_equivalence : forall E,
  (forall a, ty_equal E a a = true)
  /\ (forall a b, ty_equal E a b = ty_equal E b a)
  /\ (forall a b c, ty_equal E a b = true -> ty_equal E b c = true -> ty_equal E a c = true).
Proof. intro E. split; [apply ty_equal_refl | split; [apply ty_equal_sym | apply ty_equal_trans]]. Qed.
Print Assumptions C08_equal_equivalence.

(* reflexive, Never below and Any above every type: all types, all environments *)
Theorem C08_reflexive : forall E a, is_subtype E a a = true.
Proof. exact is_subtype_refl. Qed.
Print Assumptions C08_reflexive.

Theorem C08_never_bottom : forall E b, is_subtype E (TPrim PNever) b = true.
Proof. exact never_is_bottom. Qed.
Print Assumptions C08_never_bottom.

Theorem C08_any_top : forall E a, is_subtype E a (TPrim PAny) = true.
Proof. exact any_is_top. Qed.
Print Assumptions C08_any_top.

Theorem C08_anystruct_top : forall E a,
  is_resource E a = false -> a <> TPrim PAny -> is_subtype E a (TPrim PAnyStruct) = true.
Proof. exact anystruct_is_top_of_structs. Qed.
Print Assumptions C08_anystruct_top.

Theorem C08_anyresource_top : forall E a,
  is_resource E a = true -> is_subtype E a (TPrim PAnyResource) = true.
Proof. exact anyresource_is_top_of_resources. Qed.
Print Assumptions C08_anyresource_top.

(* transitivity as the property states it is FALSE for the relation the rules define (and for the
   real sema.IsSubType, see known_findings/C08.json): counterexamples in a well-formed environment *)
Definition C08_transitive_statement := trans_statement.
Theorem C08_transitive_refuted : wf_env_b demo_env = true /\ ~ C08_transitive_statement demo_env.
Proof. exact trans_refuted. Qed.
Print Assumptions C08_transitive_refuted.

(* ... and it is TRUE on the types that avoid those shapes: for every well-formed environment and
   all types satisfying [plain] (no legacy restricted type, no interface used directly as a type, and
   neither Never nor Any as the element of an optional / array / dictionary), of any size. *)
Theorem C08_transitive_partial : forall E, wf_env_b E = true ->
  forall a b c, plain E a = true -> plain E b = true -> plain E c = true ->
  is_subtype E a b = true -> is_subtype E b c = true -> is_subtype E a c = true.
Proof. exact trans_plain. Qed.
Print Assumptions C08_transitive_partial.

(* Run-time subtype tests (interpreter.IsSubTypeOfSemaType, transcribed in C08/Runtime.v) against the
   checker's relation: the full statement is false (Never? <: AnyResource at run time only,
   Any? <: AnyStruct in the checker only) ... *)
Definition C08_runtime_agrees_statement := rt_agrees_statement.
Theorem C08_runtime_agrees_refuted : forall E,
  rt_sub_sema E (TOptional (TPrim PNever)) (TPrim PAnyResource) = true
  /\ is_subtype E (TOptional (TPrim PNever)) (TPrim PAnyResource) = false
  /\ rt_sub_sema E (TOptional (TPrim PAny)) (TPrim PAnyStruct) = false
  /\ is_subtype E (TOptional (TPrim PAny)) (TPrim PAnyStruct) = true.
Proof. exact rt_agrees_refuted. Qed.
Print Assumptions C08_runtime_agrees_refuted.

(* ... and true whenever the innermost non-optional type of the subtype is neither Never nor Any
   (any supertype, any environment). *)
Theorem C08_runtime_agrees_partial : forall E a b,
  core_ok a = true -> rt_sub_sema E a b = is_subtype E a b.
Proof. exact rt_agrees_partial. Qed.
Print Assumptions C08_runtime_agrees_partial.

(* non-vacuity *)
Example C08_ex_subtypes :
  is_subtype demo_env (TPrim PInt8) (TPrim PNumber) = true
  /\ is_subtype demo_env (TComposite 0) (TIntersection None [0]) = true
  /\ is_subtype demo_env (TOptional (TComposite 1)) (TOptional (TPrim PAnyStruct)) = true
  /\ is_subtype demo_env (TRef (AConj [1; 2]) (TComposite 1)) (TRef (AConj [1]) (TIntersection None [1])) = true
  /\ is_subtype demo_env (TRef (AConj [1]) (TComposite 1)) (TRef (AConj [1; 2]) (TComposite 1)) = false
  /\ is_subtype demo_env (TFunction true [] [TPrim PInteger] (TPrim PInt) None false)
                         (TFunction false [] [TPrim PInt8] (TPrim PNumber) None false) = true
  /\ is_subtype demo_env (TPrim PUInt8) (TPrim PSignedInteger) = false.
Proof. vm_compute. repeat split. Qed.

(* a non-trivial instance of the hypotheses of C08_transitive_partial: a chain through a resource
   array, an optional and AnyResource in the well-formed demo environment *)
Example C08_ex_transitive_instance :
  let a := TVarArray (TComposite 0) in
  let b := TVarArray (TIntersection None [0]) in
  let c := TOptional (TPrim PAnyResource) in
  wf_env_b demo_env = true /\ plain demo_env a = true /\ plain demo_env b = true /\ plain demo_env c = true
  /\ is_subtype demo_env a b = true /\ is_subtype demo_env b c = true /\ is_subtype demo_env a c = true
  /\ ty_equal demo_env a b = false /\ ty_equal demo_env b c = false.
Proof. vm_compute. repeat split. Qed.

Example C08_ex_runtime_instance :
  core_ok (TOptional (TOptional (TComposite 0))) = true
  /\ rt_sub_sema demo_env (TOptional (TOptional (TComposite 0))) (TOptional (TPrim PAnyResource)) = true
  /\ rt_sub_sema demo_env (TOptional (TComposite 1)) (TPrim PAnyResource) = false.
Proof. vm_compute. repeat split. Qed.
