(* C07  View functions have no observable side effects.
   Property theorems only; models in C07/{Syntax,Check,Sem}.v, proofs in C07/{Lemmas,Invariants,Soundness,SoundE,SoundX,SoundC,Proofs}.v.

   [chk_prog false] is the transcription of the checker's purity analysis (purity scopes, view-assignment rule,
   impure operations, built-in purity table regenerated from sema on every run).  [chk_prog true] additionally
   observes (a) emit statements in function bodies, (b) assignment targets rooted at `self` in initializers that go
   through a reference- or resource-typed member, (c) attach to a resource.  The property holds for every program of
   the fragment accepted by [chk_prog true] (the _partial theorems, proved for all programs, states, arguments and
   fuel) and fails for [chk_prog false] exactly through (a), (b), (c) (the _refuted theorems). *)
From CV Require Import C07.Sem C07.Lemmas C07.Invariants C07.Soundness C07.Cases C07.Witness C07.Proofs C07.Strict.
From CV Require Import Gen.GenC07Purity C07.Sites.

(* the full-strength statement of the property for the code-shaped analysis *)
Definition C07_statement : Prop := full_statement_call /\ full_statement_init.

(* Any function or method accepted as view, run from any well-formed state with any arguments: every cell that
   existed before the call (callers' variables, contract fields, captured variables, resource objects, stored
   values) is unchanged, the storage map and the set of destroyed resources are unchanged, and the only events
   are those declared by emit conditions. *)
Theorem C07_view_function_no_effect_partial : forall P fuel fd self vs st v st',
  chk_prog true P = [] -> In fd P -> fview fd = true -> finit fd = false ->
  wf_state P st -> wf_args P st vs ->
  call fuel P fd self vs st = Ok (v, st') ->
  unchanged st st'.
Proof. exact view_call_no_effect. Qed.
Print Assumptions C07_view_function_no_effect_partial.

(* Any initializer accepted as view (the object under construction is new). *)
Theorem C07_view_initializer_no_effect_partial : forall P fuel k vs st v st',
  chk_prog true P = [] -> init_view P k = true ->
  wf_state P st -> wf_args P st vs ->
  construct fuel P k vs st = Ok (v, st') ->
  unchanged st st'.
Proof. exact view_init_no_effect. Qed.
Print Assumptions C07_view_initializer_no_effect_partial.

(* Any view function value (closure), whatever it captured. *)
Theorem C07_view_closure_no_effect_partial : forall P fuel ce cd ps body vs st v st',
  chk_prog true P = [] -> wf_state P st -> vok P st (VClo true ce cd ps body) -> wf_args P st vs ->
  call_clo fuel P ce cd ps body vs st = Ok (v, st') ->
  unchanged st st'.
Proof. exact view_closure_no_effect. Qed.
Print Assumptions C07_view_closure_no_effect_partial.

(* Pre- and post-conditions, of view and non-view functions alike. *)
Theorem C07_conditions_no_effect_partial : forall P fuel r cs st st' c,
  chk_prog true P = [] -> strict c = true -> chk_conds P (senv_of r) c cs = [] ->
  wf_state P st -> env_fun st r -> env_le r (depth c) ->
  run_conds fuel P r (depth c) cs st = Ok st' ->
  unchanged st st'.
Proof. exact conditions_no_effect. Qed.
Print Assumptions C07_conditions_no_effect_partial.

Theorem C07_preconditions_no_effect_partial : forall P fuel fd self vs st r1 d1 r2 st1 st2,
  chk_prog true P = [] -> In fd P -> wf_state P st -> wf_args P st vs ->
  fun_env fd self = Ok (r1, d1) ->
  bind_params (fparams fd) vs (S d1) r1 st = Ok (r2, st1) ->
  run_conds fuel P r2 (S (S d1)) (fpre fd) st1 = Ok st2 ->
  unchanged st1 st2.
Proof. exact preconditions_no_effect. Qed.
Print Assumptions C07_preconditions_no_effect_partial.

(* "unchanged" means what it should: anything readable before reads the same afterwards *)
Theorem C07_unchanged_reads : forall st st' lp v, unchanged st st' -> read_lv st lp = Ok v -> read_lv st' lp = Ok v.
Proof. exact unchanged_read. Qed.
Print Assumptions C07_unchanged_reads.

(* The purity table extracted from sema in this run: no function of the hand-written ground truth
   (corpus/C07/mutates_receiver.json) is view, and no view built-in takes a non-view function. *)
Theorem C07_builtin_purity_table :
  forallb (fun e => implb (bmut e) (negb (bview e)) && implb (bview e) (bfpview e)) builtins = true.
Proof. exact table_ok. Qed.
Print Assumptions C07_builtin_purity_table.

(* ... and the built-ins the model gives a semantics to are in that table with the model's mutation flag. *)
Theorem C07_builtin_table_models :
  forallb (fun b => match find_builtin (bname b) with Some e => Bool.eqb (bmut e) (mutating b) | None => false end)
          all_builtins = true.
Proof. exact table_consistent. Qed.
Print Assumptions C07_builtin_table_models.

(* The wiring of the purity checks in the sema sources of this run (which functions call EnforcePurity,
   ObserveImpureOperation, InNewPurityScope, enforceViewAssignment and the shared helper checkAssignment, how often) is the
   wiring the model transcribes: in particular enforceViewAssignment sits in checkAssignment, which serves assignment
   statements AND the second value transfer of variable declarations. *)
Theorem C07_purity_wiring : sites_eqb purity_sites expected_sites = true.
Proof. exact purity_wiring. Qed.
Print Assumptions C07_purity_wiring.

(* The code-shaped analysis accepts programs with effects. *)
Theorem C07_view_body_emit_refuted : ~ full_statement_call.
Proof. exact refuted_emit_in_view_body. Qed.
Print Assumptions C07_view_body_emit_refuted.

Theorem C07_view_attach_refuted : ~ full_statement_call.
Proof. exact refuted_attach_in_view. Qed.
Print Assumptions C07_view_attach_refuted.

Theorem C07_view_init_self_reference_refuted : ~ full_statement_init.
Proof. exact refuted_view_init_self_chain. Qed.
Print Assumptions C07_view_init_self_reference_refuted.

Theorem C07_view_init_self_resource_refuted : ~ full_statement_init.
Proof. exact refuted_view_init_self_resource. Qed.
Print Assumptions C07_view_init_self_resource_refuted.

(* The guard of the _partial theorems is a restriction of what the implementation accepts: every program the strict
   analysis accepts is accepted by the code-shaped analysis. *)
Theorem C07_strict_accepts_subset : forall P, chk_prog true P = [] -> chk_prog false P = [].
Proof. exact strict_accepts_subset. Qed.
Print Assumptions C07_strict_accepts_subset.

(* ---- non-vacuity *)
(* the hypotheses are satisfiable: the world of the correspondence run is a well-formed state with well-formed
   arguments (including a view and a non-view closure) ... *)
Example C07_ex_world : forall P, wf_state P init_state /\ wf_args P init_state test_args.
Proof. intro P. split; [apply init_state_ok|apply test_args_ok]. Qed.

(* ... a view method that writes to its by-value parameters, a copy of self, a dereferenced copy, and swaps elements of a
   parameter array is accepted by the strict analysis, runs, and returns 77 + 82 *)
Example C07_ex_accepted :
  chk_prog true w_param_struct_writes_are_local = [] /\
  match find_method w_param_struct_writes_are_local 9 with
  | Some fd => fview fd = true /\
      match call 80 w_param_struct_writes_are_local fd (Some (6%nat, [])) test_args init_state with
      | Ok (VInt z, _) => z = 159%Z
      | _ => False
      end
  | None => False
  end.
Proof. vm_compute. split; [reflexivity|split; reflexivity]. Qed.

(* ... emit conditions are accepted and their events are the only ones *)
Example C07_ex_emit_conditions :
  chk_prog true w_emit_conditions = [] /\
  match find_global w_emit_conditions 9 with
  | Some fd =>
      match call 80 w_emit_conditions fd None test_args init_state with
      | Ok (VInt z, st') => z = 2%Z /\ evs st' = [(true, 11%Z); (true, 41%Z)]
      | _ => False
      end
  | None => False
  end.
Proof. vm_compute. split; [reflexivity|split; reflexivity]. Qed.
