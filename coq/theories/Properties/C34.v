(* C34  The bytecode VM is observationally equivalent to the interpreter.
   Property theorems only; proofs are in MC/Sim*.v, MC/CompileCorrect.v, MC/StrictAgree.v, MC/PeepholeProofs.v.
   [eval P strict] is the definitional interpreter of MiniCadence (MC/Interp.v, shaped after /repo/interpreter),
   [compile] the compiler (MC/Compile.v, transcribed from /repo/bbq/compiler/compiler.go), [run_vm] the
   stack VM (MC/VM.v, shaped after /repo/bbq/vm/vm.go).  Outcomes are compared completely:
   result value or error class, final heap and the log trace. *)
From CV Require Import MC.Interp MC.VM MC.Cases MC.CompileCorrect MC.StrictAgree MC.Peephole MC.PeepholeProofs.

(* Full statement for the interpreter as written (strict = false). *)
Definition C34_statement : Prop :=
  forall P fuel res s',
    eval P false fuel (ECall (FnUser 0) ENone) [] (mkSt [] []) = (res, s') -> acceptable res ->
    exists k, run_vm (compile P) k = (res, s').

(* Partial: for every program of the fragment, every fuel and every outcome of the
   language-definition interpreter other than fuel exhaustion and Internal (ill-typed operands, which
   checker-accepted programs never produce), the VM running the compiled program yields the same
   result or error, the same final heap and the same log -- and so does the interpreter as written. *)
Theorem C34_compile_correct_partial : forall P fuel res s',
  run_def P fuel = (res, s') -> acceptable res ->
  exists k, run_vm (compile P) k = (res, s').
Proof. exact compile_correct_run. Qed.
Print Assumptions C34_compile_correct_partial.

Theorem C34_interpreter_as_written_partial : forall P fuel res s',
  run_def P fuel = (res, s') -> acceptable res ->
  eval P false fuel (ECall (FnUser 0) ENone) [] (mkSt [] []) = (res, s').
Proof.
  intros P fuel res s' H A. apply strict_agrees; auto.
  destruct res; [discriminate|]. destruct A. congruence.
Qed.
Print Assumptions C34_interpreter_as_written_partial.

(* Refuted for the interpreter as written: `let five: Int8 = 5; let x: Int8 = (probe(1,true) ? five : nil) ?? probe(2,3)`
   -- the interpreter answers 3 after logging 1,2; the VM answers 5 after logging 1.
   Real-code reproduction: corpus/C34/coalesce_unboxed_conditional.cdc. *)
Definition c34_witness : program :=
  [mkFun [] (BCons (SLet 1 O (EInt 5))
            (BCons (SLet 2 O (ECoalesce (ECond (ECall FnProbe (EMore (EInt 1) O (EMore (EBool true) O ENone))) (EVar 1) ENil)
                                        (ECall FnProbe (EMore (EInt 2) O (EMore (EInt 3) O ENone))) O))
            (BCons (SReturn (Some (O, EVar 2))) BNil)))].

Theorem C34_refuted :
  exists P fuel k v1 s1 v2 s2,
    eval P false fuel (ECall (FnUser 0) ENone) [] (mkSt [] []) = (Ok v1, s1) /\
    run_vm (compile P) k = (Ok v2, s2) /\ (v1 <> v2 /\ tr s1 <> tr s2).
Proof.
  exists c34_witness, 40%nat, 200%nat, (VInt 3), (mkSt [] [VInt 1; VInt 2]), (VInt 5), (mkSt [] [VInt 1]).
  split; [vm_compute; reflexivity|]. split; [vm_compute; reflexivity|]. split; discriminate.
Qed.
Print Assumptions C34_refuted.

Theorem C34_statement_refuted : ~ C34_statement.
Proof.
  intros H.
  destruct (H c34_witness 40%nat (Ok (VInt 3)) (mkSt [] [VInt 1; VInt 2])) as [k Hk].
  - vm_compute. reflexivity.
  - exact I.
  - pose proof (run_mono (compile c34_witness) k _ _ _ Hk ltac:(discriminate) 200%nat) as A.
    assert (B : run_vm (compile c34_witness) 200 = (Ok (VInt 5), mkSt [] [VInt 1])) by (vm_compute; reflexivity).
    pose proof (run_mono (compile c34_witness) 200 _ _ _ B ltac:(discriminate) k) as B'.
    unfold run_vm in *. replace (200 + k)%nat with (k + 200)%nat in B' by apply Nat.add_comm.
    rewrite A in B'. discriminate.
Qed.
Print Assumptions C34_statement_refuted.

(* every window replaced by the peephole pass behaves like its replacement, from every machine state *)
Theorem C34_peephole_preserves : forall C i1 i2 rep,
  pattern i1 i2 = Some rep -> exists j, rep = [j] /\ window_ok C i1 i2 j.
Proof. exact peephole_preserves. Qed.
Print Assumptions C34_peephole_preserves.

(* ---------------------------------------------------------------- non-vacuity *)

(* var a = [1,2,3]; var i = 0; while i < 3 { i = i + 1; if a[i-1] == 2 { continue }; log(a[i-1]) };
   for x in a { if x > 2 { break } }; a[0] <-> a[2]; return a[0] + helper(4)   with helper(n) = n * 2 *)
Definition c34_example : program :=
  let a := 1%nat in let i := 2%nat in let x := 3%nat in
  let idx := EBin BSub (EVar i) (EInt 1) in
  [mkFun []
     (BCons (SLet a O (EArr (EMore (EInt 1) O (EMore (EInt 2) O (EMore (EInt 3) O ENone)))))
     (BCons (SLet i O (EInt 0))
     (BCons (SWhile (EBin BLt (EVar i) (EInt 3))
              (BCons (SAssign (TVar i) O (EBin BAdd (EVar i) (EInt 1)))
              (BCons (SIf (EBin BEq (EIndex (EVar a) idx) (EInt 2)) (BCons SContinue BNil) None)
              (BCons (SExpr (ECall FnLog (EMore (EIndex (EVar a) idx) O ENone))) BNil))))
     (BCons (SFor x O (EVar a) (BCons (SIf (EBin BGt (EVar x) (EInt 2)) (BCons SBreak BNil) None) BNil))
     (BCons (SSwap (TIndex (EVar a) (EInt 0)) (TIndex (EVar a) (EInt 2)) O)
     (BCons (SReturn (Some (O, EBin BAdd (EIndex (EVar a) (EInt 0)) (ECall (FnUser 1) (EMore (EInt 4) O ENone)))))
      BNil))))));
   mkFun [5%nat] (BCons (SReturn (Some (O, EBin BMul (EVar 5) (EInt 2)))) BNil)].

Example C34_ex_agree :
  run_def c34_example 60 = (Ok (VInt 11), snd (run_def c34_example 60)) /\
  acceptable (fst (run_def c34_example 60)) /\
  run_vm (compile c34_example) 400 = run_def c34_example 60 /\
  tr (snd (run_def c34_example 60)) = [VInt 1; VInt 3] /\
  run_vm (peephole (compile c34_example)) 400 = run_def c34_example 60.
Proof. vm_compute. repeat split. Qed.

(* an error outcome: overflow inside a called function is reported identically *)
Example C34_ex_error :
  let P := [mkFun [] (BCons (SReturn (Some (O, ECall (FnUser 1) (EMore (EInt 100) O ENone)))) BNil);
            mkFun [5%nat] (BCons (SExpr (ECall FnLog (EMore (EVar 5) O ENone)))
                          (BCons (SReturn (Some (O, EBin BAdd (EVar 5) (EVar 5)))) BNil))] in
  run_def P 30 = (Err Overflow, mkSt [] [VInt 100]) /\ run_vm (compile P) 100 = (Err Overflow, mkSt [] [VInt 100]).
Proof. vm_compute. split; reflexivity. Qed.
