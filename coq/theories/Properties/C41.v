(* C41  JSON-Cadence encoding round-trips and decoding is robust.
   Property theorems only; models in C41/Values.v, C41/Json.v, proofs in C41/*Proofs.v, NoCrash.v.

   External behaviour enters as the parameters [valid_char] (sema.IsValidCharacter),
   [tid_canon] (common.DecodeTypeID / sema.NativeCompositeTypes: the ID of the type the decoder
   builds from a type ID string, None when rejected) and [is_simple] (the decoder's table of
   simple types); the only hypothesis on them is that the nine nominal kind names are not
   simple types. *)
From CV Require Import C41.Json C41.Cases C41.TypeProofs C41.ValueProofs C41.NoCrash C41.Findings.

(* Every value of the domain [wf_val] (valid characters, numbers in range, type IDs the decoder
   accepts, no attachments, embedded types inside [wf_ty]) is encoded; decoding the encoding gives
   a value that equals the original after erasure and re-encodes to the same JSON.
   Structural induction over all values and types: no depth bound. *)
Theorem C41_json_roundtrip_partial :
  forall valid_char tid_canon is_simple,
  (forall k, is_simple (ckind_name k) = false) ->
  forall v, wf_val valid_char tid_canon is_simple v = true ->
  exists j v', json_encode v = Ok j /\
               json_decode valid_char tid_canon is_simple j = Ok v' /\
               erase v' = erase v /\
               json_encode v' = Ok j.
Proof. exact json_roundtrip. Qed.
Print Assumptions C41_json_roundtrip_partial.

(* Every type embedded in a value (type values, capability borrow types, function values)
   decodes to the same type: nil, or any type of the domain [wf_ty] - recursive types
   (back references), parameterised and function types included. *)
Theorem C41_embedded_types_roundtrip_partial :
  forall tid_canon is_simple,
  (forall k, is_simple (ckind_name k) = false) ->
  forall t, wf_top_ty tid_canon is_simple t = true ->
  dec_ty_top tid_canon is_simple (enc_ty t) = Ok t.
Proof. exact json_embedded_type_roundtrip. Qed.
Print Assumptions C41_embedded_types_roundtrip_partial.

(* The full statement (every encodable value round-trips) does not hold: witnesses for the four
   input classes excluded from the domain above (composite type shared by a field and an
   initializer, type parameter without bound, attachment value, array size above 2^53). *)
Definition C41_roundtrip_statement : Prop :=
  forall v, enc_ok v = true -> roundtrips v.
Theorem C41_json_roundtrip_refuted :
  Forall (fun v => ~ roundtrips v) [v_shared; v_nobound; v_attachment; v_bigsize].
Proof. exact not_roundtrips. Qed.
Print Assumptions C41_json_roundtrip_refuted.

(* Decoding never crashes: the model decoder is a total function; its outcome is a value, an
   error, or [Err Crash] (a panic escaping Decode).  [Err Crash] is impossible for documents
   that do not contain the string "Restriction" ... *)
Definition C41_decode_total_statement : Prop :=
  forall valid_char tid_canon is_simple j, json_decode valid_char tid_canon is_simple j <> Err Crash.
Theorem C41_decode_total_partial :
  forall valid_char tid_canon is_simple j,
  no_restriction j = true -> json_decode valid_char tid_canon is_simple j <> Err Crash.
Proof. exact decode_no_crash_partial. Qed.
Print Assumptions C41_decode_total_partial.
(* ... and happens with it. *)
Theorem C41_decode_total_refuted :
  exists j, json_decode any_char id_tid is_simple_tbl j = Err Crash.
Proof. exact restriction_crashes. Qed.
Print Assumptions C41_decode_total_refuted.

(* non-vacuity: a nested composite value with a recursive resource type, a function type value
   with a bounded type parameter, a capability, fixed-point dictionary keys is in the domain,
   decodes to a value that differs from it (static types erased / re-derived) and equals it
   after erasure; the table of simple types of the pinned tree satisfies the hypothesis. *)
Example C41_ex_domain : wf_val any_char id_tid is_simple_tbl ex_value = true.
Proof. exact ex_value_wf. Qed.
Example C41_ex_decodes :
  json_decode any_char id_tid is_simple_tbl (enc_val ex_value) = Ok (jnorm ex_value)
  /\ jnorm ex_value <> ex_value /\ erase (jnorm ex_value) = erase ex_value.
Proof. exact ex_value_decodes. Qed.
Example C41_ex_type : wf_top_ty id_tid is_simple_tbl tNode = true.
Proof. exact ex_type_wf. Qed.
Example C41_ex_hypothesis : forall k, is_simple_tbl (ckind_name k) = false.
Proof. exact simple_tbl_not_ckind. Qed.
