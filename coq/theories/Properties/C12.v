(* C12  Word arithmetic wraps modulo 2^n.
   Property theorems only; proofs are in Num/WordProofs.v. *)
From CV Require Import Num.WordModel Num.WordProofs.

(* For every width n > 0, every operator and all operands of the type, the code-shaped model
   of WordN arithmetic returns exactly (a op b) mod 2^n ... *)
Theorem C12_word_wraps : forall n o v w,
  0 < n -> in_range (KWord n) v -> in_range (KWord n) w ->
  word_model n o v w = spec_word n o v w.
Proof. exact word_model_correct. Qed.
Print Assumptions C12_word_wraps.

(* ... the result is a value of the type ... *)
Theorem C12_result_in_range : forall n o v w z,
  0 < n -> spec_word n o v w = Ok z -> in_range (KWord n) z.
Proof. exact spec_word_in_range. Qed.
Print Assumptions C12_result_in_range.

(* ... and the only failure is division (or remainder) by zero: never overflow/underflow. *)
Theorem C12_only_divzero : forall n o v w e,
  spec_word n o v w = Err e -> e = DivZero /\ w = 0 /\ (o = ODiv \/ o = ORem).
Proof. exact spec_word_errors. Qed.
Print Assumptions C12_only_divzero.

(* non-vacuity: concrete in-range operands at each width wrap as expected *)
Example C12_ex8 : word_model 8 OAdd 250 10 = Ok 4 /\ word_model 8 OMul 200 3 = Ok 88
  /\ word_model 8 OSub 3 5 = Ok 254 /\ word_model 8 ODiv 7 0 = Err DivZero.
Proof. vm_compute. repeat split. Qed.
Example C12_ex256 : word_model 256 OAdd (2 ^ 256 - 1) 2 = Ok 1
  /\ word_model 256 OMul (2 ^ 255) 2 = Ok 0 /\ word_model 128 OSub 0 1 = Ok (2 ^ 128 - 1).
Proof. vm_compute. repeat split. Qed.
