(* C50  Access modifiers and constant fields are enforced by the checker.
   Property theorems only.  Model: C50/Model.v (transcribed from sema/check_member_expression.go,
   check_assignment.go, check_conditional.go, the containerTypes bookkeeping of the declaration visitors,
   AccessCheckModeStrict as used by the runtime); specification: C50/Spec.v (scope rules over positions in
   the declaration tree; executions of initializer bodies); proofs: C50/Proofs.v. *)
From CV Require Import C50.Model C50.Spec C50.Proofs.

(* For every program (any declaration tree, any accesses, members of any access kind declared anywhere),
   the list of verdicts produced by the checker's traversal -- which maintains the mutable containerTypes
   map on entering/leaving each declaration -- is, access by access, the declarative verdict at the
   access's position in the tree. *)
Theorem C50_check_program_spec : forall p,
  check_program p = map (spec_result (p_loc p)) (sites_of p).
Proof. exact check_program_spec. Qed.
Print Assumptions C50_check_program_spec.

(* a read or call is rejected (InvalidAccessError) exactly when the scope rule forbids it *)
Theorem C50_readable_iff_spec : forall p id e,
  In (id, e) (check_program p) ->
  exists site q, In (site, q) (sites_of p) /\ q_id q = id /\
    e_access e = negb (spec_readable (p_loc p) site (q_via q) (q_member q)).
Proof. exact readable_iff_spec. Qed.
Print Assumptions C50_readable_iff_spec.

(* an assignment is rejected (InvalidAssignmentAccessError) exactly outside the declaring composite, and
   (AssignmentToConstantMemberError) whenever the member is not a `var` field; reads report neither *)
Theorem C50_writeable_iff_spec : forall p id e,
  In (id, e) (check_program p) ->
  exists site q, In (site, q) (sites_of p) /\ q_id q = id /\
    match q_op q with
    | OpAssign =>
        e_assign e = negb (spec_writeable (p_loc p) site (q_member q)) /\
        e_const e = match m_kind (q_member q) with VVar => false | _ => true end
    | _ => e_assign e = false /\ e_const e = false
    end.
Proof. exact writeable_iff_spec. Qed.
Print Assumptions C50_writeable_iff_spec.

(* Initializers (assignments to fields of self and if/else, no return):
   every field is assigned on every execution path of an accepted initializer ... *)
Theorem C50_fields_initialized_on_every_path : forall fields is_let body errors,
  check_init fields is_let body = (errors, []) ->
  forall path f, In f fields -> In f (assignments body path).
Proof. exact fields_initialized_on_every_path. Qed.
Print Assumptions C50_fields_initialized_on_every_path.

(* ... full statement: and every constant field exactly once. *)
Definition C50_let_once_statement : Prop := let_once_statement.

(* FINDING: false.  `if c { self.x = 1 }  self.x = 2` is accepted (the checker only tracks definitely
   initialized fields), and with c = true the `let` field is assigned twice. *)
Theorem C50_let_field_assigned_once_in_init_refuted : ~ C50_let_once_statement.
Proof. exact let_once_refuted. Qed.
Print Assumptions C50_let_field_assigned_once_in_init_refuted.

(* True under the exact guard: both branches of every if/else assign the same fields. *)
Theorem C50_let_field_assigned_once_in_init_partial : forall fields is_let body,
  balanced_stmts body ->
  check_init fields is_let body = ([], []) ->
  forall path f, In f fields -> is_let f = true -> count f (assignments body path) = 1%nat.
Proof. exact let_field_assigned_once_in_init_partial. Qed.
Print Assumptions C50_let_field_assigned_once_in_init_partial.

(* ---- non-vacuity *)
(* contract 1 at account 1 containing struct 2 with a site; struct 3 with a site; a top-level site *)
Example C50_ex_scopes :
  let c1 := LAddr 1 1 in
  let S := T c1 [(1, true); (2, false)] in
  let C := T c1 [(1, true)] in
  let qs := fun base : Z =>
    [Q (base + 1) S (APrim PSelf) VLet ViaOwned OpRead;
     Q (base + 2) S (APrim PContract) VFun ViaOwned OpCall;
     Q (base + 3) S (APrim PAccount) VVar ViaOwned OpAssign;
     Q (base + 4) C (APrim PSelf) VVar ViaOwned OpRead;
     Q (base + 5) S (ASet Conj [7]) VFun (ViaRef Unauthorized) OpCall;
     Q (base + 6) S (ASet Conj [7]) VFun (ViaRef (ASet Conj [7; 8])) OpCall] in
  let prog := fun l top =>
    P l (DCons (Decl 1 true [] (DCons (Decl 2 false [qs 100] DNil) (DCons (Decl 3 false [qs 200] DNil) DNil))) DNil) top in
  (* inside S / in the sibling / in another contract of the same account / in a script *)
  map (fun r => (fst r, e_access (snd r), e_assign (snd r))) (check_program (prog c1 []))
  = [(101, false, false); (102, false, false); (103, false, false); (104, false, false); (105, true, false); (106, false, false);
     (201, true, false); (202, false, false); (203, false, true); (204, false, false); (205, true, false); (206, false, false)]
  /\
  map (fun r => (fst r, e_access (snd r), e_assign (snd r))) (check_program (P (LAddr 1 5) DNil [qs 300]))
  = [(301, true, false); (302, true, false); (303, false, true); (304, true, false); (305, true, false); (306, false, false)]
  /\
  map (fun r => (fst r, e_access (snd r), e_assign (snd r))) (check_program (P (LOther 9) DNil [qs 400]))
  = [(401, true, false); (402, true, false); (403, true, true); (404, true, false); (405, true, false); (406, false, false)].
Proof. vm_compute. repeat split. Qed.

Example C50_ex_init :
  let body_ok := SCons (SIf (SCons (SAssign 1) (SCons (SAssign 2) SNil)) (SCons (SAssign 2) (SCons (SAssign 1) SNil))) SNil in
  let body_twice := SCons (SAssign 1) (SCons (SAssign 1) SNil) in
  let body_partial := SCons (SIf (SCons (SAssign 1) SNil) SNil) SNil in
  let body_bad := SCons (SIf (SCons (SAssign 1) SNil) SNil) (SCons (SAssign 1) SNil) in
  check_init [1; 2] (fun _ => true) body_ok = ([], []) /\
  balanced_stmts body_ok /\
  check_init [1] (fun _ => true) body_twice = ([1], []) /\
  check_init [1] (fun _ => true) body_partial = ([], [1]) /\
  check_init [1] (fun _ => true) body_bad = ([], []) /\
  assignments body_bad [true] = [1; 1] /\ assignments body_bad [false] = [1].
Proof.
  vm_compute. repeat split; try (intros; simpl in *; tauto).
Qed.
