(* C03  The checker rejects every resource-linearity violation.
   Property theorems only; models in C03/Model.v (checker) and C03/Paths.v (paths, linearity),
   proofs in C03/Proofs*.v and C03/Refute.v. *)
From CV Require Import C03.Model C03.Paths C03.Witness C03.Proofs C03.Refute.

(* Full-strength statement of the main direction: whenever the (model of the real) checker reports no error
   for a well-positioned function declaration, every control-flow path of every function declared in it
   (branch conditions unknown, loop bodies any number of times) is linear. *)
Definition C03_sound_statement : Prop :=
  forall f, is_fun f -> check_prog f = [] -> wf_prog f = true -> linear_prog f.

(* It does NOT hold for the analysis in /repo: four accepted programs with a non-linear path
   (force-assignment into an invalidated variable; re-invalidation in a second loop iteration hidden by a
   halt; a halted resp. returned branch from which a break escapes). *)
Theorem C03_sound_refuted_assign :
  check_prog w_assign = [] /\ wf_prog w_assign = true /\ ~ linear_prog w_assign.
Proof. exact w_assign_refutes. Qed.
Print Assumptions C03_sound_refuted_assign.

Theorem C03_sound_refuted_loop_halt :
  check_prog w_loop_halt = [] /\ wf_prog w_loop_halt = true /\ ~ linear_prog w_loop_halt.
Proof. exact w_loop_halt_refutes. Qed.
Print Assumptions C03_sound_refuted_loop_halt.

Theorem C03_sound_refuted_halt_jump :
  check_prog w_halt_jump = [] /\ wf_prog w_halt_jump = true /\ ~ linear_prog w_halt_jump.
Proof. exact w_halt_jump_refutes. Qed.
Print Assumptions C03_sound_refuted_halt_jump.

Theorem C03_sound_refuted_return_jump :
  check_prog w_return_jump = [] /\ wf_prog w_return_jump = true /\ ~ linear_prog w_return_jump.
Proof. exact w_return_jump_refutes. Qed.
Print Assumptions C03_sound_refuted_return_jump.

(* The statement holds for ALL programs of the fragment on which the three extra diagnostics of the model
   (which mark exactly the places of the defects above) are silent. *)
Theorem C03_sound_partial : forall p pb params rr body,
  let f := SFun p pb params rr body in
  check_prog f = [] -> strict_diags f = [] -> wf_prog f = true -> linear_prog f.
Proof. exact sound_strict. Qed.
Print Assumptions C03_sound_partial.

(* the witnesses are exactly outside the guard *)
Theorem C03_witnesses_flagged :
  strict_diags w_assign <> [] /\ strict_diags w_loop_halt <> [] /\
  strict_diags w_halt_jump <> [] /\ strict_diags w_return_jump <> [].
Proof. exact witnesses_flagged. Qed.
Print Assumptions C03_witnesses_flagged.

(* Converse direction of the property text: a program all of whose paths are linear is accepted
   (no loss / use-after-invalidation error). *)
Definition C03_complete_statement : Prop :=
  forall f, is_fun f -> wf_prog f = true -> linear_prog f ->
            forall e, In e (check_prog f) -> linearity_error e = false.

(* Refuted: the analysis is conservative (invalidation followed by a halt in a branch). *)
Theorem C03_complete_refuted :
  wf_prog w_conservative = true /\ linear_prog w_conservative /\
  exists e, In e (check_prog w_conservative) /\ linearity_error e = true.
Proof. exact w_conservative_refutes. Qed.
Print Assumptions C03_complete_refuted.

(* non-vacuity: accepted, well-positioned programs without diagnostics, with branches, returns, loops and breaks;
   and a program that the analysis rejects *)
Example C03_ex_accepted :
  check_prog ex_branch_both = [] /\ strict_diags ex_branch_both = [] /\ wf_prog ex_branch_both = true /\
  check_prog ex_branch_return = [] /\ strict_diags ex_branch_return = [] /\ wf_prog ex_branch_return = true /\
  check_prog ex_loop_break = [] /\ strict_diags ex_loop_break = [] /\ wf_prog ex_loop_break = true.
Proof. vm_compute. repeat split. Qed.

Example C03_ex_rejected : check_prog ex_loop_loss = [ELoss 639] /\ wf_prog ex_loop_loss = true.
Proof. vm_compute. repeat split. Qed.
