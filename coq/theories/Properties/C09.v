(* C09  Dynamic casts and run-time type tests agree.
   Property theorems only; models in C09/{Types,Model,Spec,Cases}.v, proofs in C09/{TypesProofs,Proofs}.v.
   D ranges over all declaration environments; D0 is the environment of the correspondence run. *)
From CV Require Import C09.Types C09.TypesProofs C09.Model C09.Spec C09.Cases C09.Proofs.
Import ListNotations.
Open Scope Z_scope.

(* First sentence, for every value of the proved class (Spec.ok_value) that is neither optional nor a
   reference, bound to a variable of any declared type it conforms to, and every well-formed target:
   `as?` succeeds  <->  isInstance  <->  getType().isSubtype  <->  run-time type <: target,
   in the interpreter and in the VM, and the casts raise no (internal) error. *)
Theorem C09_cast_iff_instance_iff_subtype_partial : forall D SX v T,
  is_optional v = false -> is_reference v = false -> ok_value v = true ->
  wf_ty (dyn_type v) -> wf_ty T -> is_sub D (dyn_type v) SX = true ->
  agree_at D SX v T /\
  (forall e, interp_cast D OpFailable SX v T <> Err e) /\
  (forall e, vm_cast D OpFailable SX v T <> Err e).
Proof. exact agree_nonopt_nonref. Qed.
Print Assumptions C09_cast_iff_instance_iff_subtype_partial.

(* The full statement (which includes ephemeral references) is false for the code as transcribed:
   isInstance / getType are evaluated on the referenced value (finding; Proofs.ref_witness_facts). *)
Theorem C09_statement_refuted : ~ C09_statement D0.
Proof. exact statement_refuted. Qed.
Print Assumptions C09_statement_refuted.

(* `as?` yields nil exactly when the run-time type of the (possibly unboxed) value is not a subtype of
   the target: all values, all types, no side condition. *)
Theorem C09_failable_nil_iff_not_subtype : forall D SX v T,
  interp_cast D OpFailable SX v T = Ok VNil <->
  is_sub D (dyn_type (interp_cast_value T v)) T = false.
Proof. exact failable_nil_iff. Qed.
Print Assumptions C09_failable_nil_iff_not_subtype.

(* A successful cast yields the original value (exactly for values that are not references or
   capabilities; up to the authorization / borrowed type imposed by the target for those). *)
Theorem C09_cast_returns_same_value : forall D SX v T r,
  is_optional v = false -> ok_value v = true -> wf_ty T ->
  interp_cast D OpFailable SX v T = Ok (VSome r) ->
  erase (unbox r) = erase v /\ (plain v = true -> unbox r = v).
Proof. exact cast_same_value. Qed.
Print Assumptions C09_cast_returns_same_value.

(* `as!` fails (type mismatch) exactly when `as?` yields nil; otherwise they yield the same value.
   All values (optional, references, ...), all types, both engines. *)
Theorem C09_force_fails_iff_failable_nil : forall D SX v T,
  (interp_cast D OpForce SX v T = Err TypeMismatch <-> interp_cast D OpFailable SX v T = Ok VNil) /\
  (forall r, interp_cast D OpForce SX v T = Ok r <-> interp_cast D OpFailable SX v T = Ok (VSome r)).
Proof. exact force_vs_failable. Qed.
Print Assumptions C09_force_fails_iff_failable_nil.

Theorem C09_force_fails_iff_failable_nil_vm : forall D SX v T,
  (vm_cast D OpForce SX v T = Err TypeMismatch <-> vm_cast D OpFailable SX v T = Ok VNil) /\
  (forall r, vm_cast D OpForce SX v T = Ok r <-> vm_cast D OpFailable SX v T = Ok (VSome r)).
Proof. exact vm_force_vs_failable. Qed.
Print Assumptions C09_force_fails_iff_failable_nil_vm.

(* Casts first unwrap optional values unless the target is AnyStruct / AnyResource or an optional of them. *)
Theorem C09_cast_unwraps_optionals : forall D op SX v T,
  op <> OpSimple ->
  is_prim (unwrap_opt T) PAnyStruct = false -> is_prim (unwrap_opt T) PAnyResource = false ->
  interp_cast D op SX (VSome v) T = interp_cast D op (dyn_type (unbox v)) (unbox v) T.
Proof. exact cast_unwraps_optionals. Qed.
Print Assumptions C09_cast_unwraps_optionals.

Theorem C09_cast_keeps_optionals_for_any : forall T v,
  is_prim (unwrap_opt T) PAnyStruct || is_prim (unwrap_opt T) PAnyResource = true ->
  interp_cast_value T v = v.
Proof. exact cast_keeps_optionals_for_any. Qed.
Print Assumptions C09_cast_keeps_optionals_for_any.

(* The two subtype implementations behind the paths (sema.IsSubType for the interpreter cast and
   Type.isSubtype; interpreter.IsSubType on static types for isInstance and the VM) agree on all
   well-formed types except [exc] ... *)
Theorem C09_subtype_paths_agree : forall D s t,
  wf_ty s -> wf_ty t -> exc s t = false -> is_sub_static D s t = is_sub D s t.
Proof. exact is_sub_static_spec. Qed.
Print Assumptions C09_subtype_paths_agree.

(* ... where they differ (finding): Never?..? against AnyResource?..? with fewer optional layers *)
Theorem C09_subtype_paths_differ : forall D s t,
  wf_ty t -> exc s t = true -> is_sub_static D s t = true /\ is_sub D s t = false.
Proof. exact is_sub_static_exc. Qed.
Print Assumptions C09_subtype_paths_differ.

(* The VM opcodes compute exactly what the interpreter computes, for all three cast operators,
   outside that exception ... *)
Theorem C09_vm_equals_interpreter_partial : forall D op SX v T,
  wf_ty (dyn_type (interp_cast_value T v)) -> wf_ty T ->
  exc (dyn_type (interp_cast_value T v)) T = false ->
  vm_cast D op SX v T = interp_cast D op SX v T.
Proof. exact vm_equals_interpreter. Qed.
Print Assumptions C09_vm_equals_interpreter_partial.

(* ... and differ on it: `let x: @R0? <- nil`, `x as? @AnyResource` is nil in the interpreter and
   Some(nil) in the VM; `x as! @AnyResource` fails in the interpreter and succeeds in the VM. *)
Theorem C09_vm_equals_interpreter_refuted :
  interp_cast D0 OpFailable (TOpt (TComp 3)) VNil (TPrim PAnyResource) = Ok VNil /\
  vm_cast D0 OpFailable (TOpt (TComp 3)) VNil (TPrim PAnyResource) = Ok (VSome VNil) /\
  interp_cast D0 OpForce (TOpt (TComp 3)) VNil (TPrim PAnyResource) = Err TypeMismatch /\
  vm_cast D0 OpForce (TOpt (TComp 3)) VNil (TPrim PAnyResource) = Ok VNil /\
  call_is_instance D0 VNil (TPrim PAnyResource) = true /\
  call_type_is_subtype D0 VNil (TPrim PAnyResource) = false.
Proof. exact vm_differs_from_interpreter. Qed.
Print Assumptions C09_vm_equals_interpreter_refuted.

(* ------------------------------------------------------------------ non-vacuity *)
(* an array [Int8] held in an AnyStruct variable: cast to [Int8]? succeeds and boxes, cast to [Integer]
   succeeds (covariance), cast to [Int16] yields nil, as! [Int16] is a type mismatch *)
Definition ex_arr : value := VArray None (TPrim PInt8) [VNum PInt8 1; VNum PInt8 (-128)].
Example C09_ex_array :
  is_optional ex_arr = false /\ is_reference ex_arr = false /\ ok_value ex_arr = true /\
  interp_cast D0 OpFailable (TPrim PAnyStruct) ex_arr (TOpt (TVar (TPrim PInt8))) = Ok (VSome (VSome ex_arr)) /\
  cast_ok (interp_cast D0 OpFailable (TPrim PAnyStruct) ex_arr (TVar (TPrim PInteger))) = true /\
  call_is_instance D0 ex_arr (TVar (TPrim PInteger)) = true /\
  interp_cast D0 OpFailable (TPrim PAnyStruct) ex_arr (TVar (TPrim PInt16)) = Ok VNil /\
  vm_cast D0 OpForce (TPrim PAnyStruct) ex_arr (TVar (TPrim PInt16)) = Err TypeMismatch /\
  call_is_instance D0 ex_arr (TVar (TPrim PInt16)) = false.
Proof. vm_compute. repeat split. Qed.

(* optionals: Some(Some(5)) cast to Int unwraps both layers; cast to AnyStruct keeps them *)
Example C09_ex_optional :
  interp_cast D0 OpFailable (TPrim PAnyStruct) (VSome (VSome (VNum PInt 5))) (TPrim PInt) = Ok (VSome (VNum PInt 5)) /\
  interp_cast D0 OpFailable (TPrim PAnyStruct) (VSome (VSome (VNum PInt 5))) (TOpt (TPrim PInt)) = Ok (VSome (VSome (VNum PInt 5))) /\
  interp_cast D0 OpFailable (TPrim PAnyStruct) (VSome (VSome (VNum PInt 5))) (TPrim PAnyStruct)
    = Ok (VSome (VSome (VSome (VNum PInt 5)))) /\
  interp_cast D0 OpForce (TPrim PAnyStruct) (VSome (VSome (VNum PInt 5))) (TPrim PString) = Err TypeMismatch.
Proof. vm_compute. repeat split. Qed.

(* a composite against intersections, a reference with entitlements against other authorizations *)
Example C09_ex_composite_reference :
  cast_ok (interp_cast D0 OpFailable (TPrim PAnyStruct) (VComp 1 7) (TInter [0%nat; 2%nat])) = true /\
  cast_ok (interp_cast D0 OpFailable (TPrim PAnyStruct) (VComp 0 7) (TInter [0%nat; 2%nat])) = false /\
  cast_ok (interp_cast D0 OpFailable (TRef (Conj [0%nat]) (TInter [0%nat]))
             (VRef (Conj [0%nat]) (TInter [0%nat]) (VComp 0 1)) (TRef (Conj [0%nat]) (TComp 0))) = true /\
  cast_ok (interp_cast D0 OpFailable (TRef (Conj [0%nat]) (TInter [0%nat]))
             (VRef (Conj [0%nat]) (TInter [0%nat]) (VComp 0 1)) (TRef (Conj [0%nat; 1%nat]) (TComp 0))) = false /\
  cast_ok (vm_cast D0 OpFailable (TRef (Conj [0%nat]) (TInter [0%nat]))
             (VRef (Conj [0%nat]) (TInter [0%nat]) (VComp 0 1)) (TRef (Disj [0%nat; 1%nat]) (TComp 0))) = true.
Proof. vm_compute. repeat split. Qed.

(* the exception really is one: exc holds for (Never?, AnyResource) *)
Example C09_ex_exc : exc (TOpt (TPrim PNever)) (TPrim PAnyResource) = true /\
  exc (TOpt (TOpt (TPrim PNever))) (TOpt (TPrim PAnyResource)) = true /\
  exc (TOpt (TPrim PNever)) (TOpt (TPrim PAnyResource)) = false.
Proof. vm_compute. repeat split. Qed.
