(* C47  revertibleRandom is bounded and exactly uniform.
   Property theorems only; model in C47/Model.v (transcription of stdlib/random.go),
   proofs in C47/Proofs.v.  All moduli, all widths; nothing is enumerated in the proofs. *)
From CV Require Import C47.Model.
From CV Require C47.Proofs.

(* Every result is below the modulo: for both code paths (width <= 8 bytes: uint64 path, which
   requires the modulo to fit 64 bits; wider: math/big path), every generator output. *)
Theorem C47_draw_lt_modulo : forall width m blocks v,
  0 < m -> (width <= 8 -> m <= 2 ^ 64) ->
  revertible_random width (Some m) blocks = Ok v -> 0 <= v < m.
Proof. exact Proofs.draw_lt_modulo. Qed.
Print Assumptions C47_draw_lt_modulo.

(* The mask loop of the uint64 path computes 2^bitlen(max)-1 and bitlen(max), never runs out of fuel. *)
Theorem C47_mask_loop : forall max, 0 <= max < 2 ^ 64 ->
  mask_loop mask_fuel max 0 0 = Ok (2 ^ bit_len max - 1, bit_len max).
Proof. exact Proofs.mask_loop_spec. Qed.
Print Assumptions C47_mask_loop.

(* Exact uniformity, uint64 path: with the mask/bitSize/byteSize the code computes, EVERY value v
   below the modulo is produced by exactly 2^(8*byteSize-bitSize) of the 256^byteSize byte blocks. *)
Theorem C47_uniform64 : forall m mask bitSize v,
  0 < m <= 2 ^ 64 -> mask_loop mask_fuel (m - 1) 0 0 = Ok (mask, bitSize) -> 0 <= v < m ->
  let byteSize := Z.shiftr (bitSize + 7) 3 in
  Z.of_nat (length (filter (accepted_as mask (m - 1) v) (all_blocks (Z.to_nat byteSize))))
  = 2 ^ (8 * byteSize - bitSize).
Proof. exact Proofs.uniform64. Qed.
Print Assumptions C47_uniform64.

(* ... the same for the math/big path, any modulo *)
Theorem C47_uniform_big : forall m mask bitSize byteSize v,
  0 < m -> big_sizes m = (mask, bitSize, byteSize) -> 0 <= v < m ->
  Z.of_nat (length (filter (accepted_as mask (m - 1) v) (all_blocks (Z.to_nat byteSize))))
  = 2 ^ (8 * byteSize - bitSize).
Proof. exact Proofs.uniform_big. Qed.
Print Assumptions C47_uniform_big.

(* no modulo bias: any two values below the modulo are hit by the same number of blocks *)
Theorem C47_no_modulo_bias64 : forall m mask bitSize v w,
  0 < m <= 2 ^ 64 -> mask_loop mask_fuel (m - 1) 0 0 = Ok (mask, bitSize) ->
  0 <= v < m -> 0 <= w < m ->
  let n := Z.to_nat (Z.shiftr (bitSize + 7) 3) in
  length (filter (accepted_as mask (m - 1) v) (all_blocks n)) =
  length (filter (accepted_as mask (m - 1) w) (all_blocks n)).
Proof. exact Proofs.no_modulo_bias64. Qed.
Print Assumptions C47_no_modulo_bias64.

Theorem C47_no_modulo_bias_big : forall m mask bitSize byteSize v w,
  0 < m -> big_sizes m = (mask, bitSize, byteSize) -> 0 <= v < m -> 0 <= w < m ->
  length (filter (accepted_as mask (m - 1) v) (all_blocks (Z.to_nat byteSize))) =
  length (filter (accepted_as mask (m - 1) w) (all_blocks (Z.to_nat byteSize))).
Proof. exact Proofs.no_modulo_bias_big. Qed.
Print Assumptions C47_no_modulo_bias_big.

(* the enumeration used in these statements is the right one: exactly the well-formed blocks,
   in the order of their big-endian values 0, 1, ..., 256^n - 1 *)
Theorem C47_all_blocks_values : forall n, map be_value (all_blocks n) = zrange (256 ^ n).
Proof. exact Proofs.all_blocks_values. Qed.
Print Assumptions C47_all_blocks_values.
Theorem C47_all_blocks_ok : forall n b, In b (all_blocks n) -> block_ok (Z.of_nat n) b.
Proof. exact Proofs.all_blocks_ok. Qed.
Print Assumptions C47_all_blocks_ok.

(* Without a modulo the map  bytes -> result  is a bijection between the blocks of n bytes and
   [0, 2^(8n)): uniform bytes give a uniform value of the type. *)
Theorem C47_nomod_bijection : forall n : nat,
  (forall b, block_ok (Z.of_nat n) b -> 0 <= random_nomod b < 2 ^ (8 * Z.of_nat n)) /\
  (forall b b', block_ok (Z.of_nat n) b -> block_ok (Z.of_nat n) b' -> random_nomod b = random_nomod b' -> b = b') /\
  (forall x, 0 <= x < 2 ^ (8 * Z.of_nat n) -> exists b, block_ok (Z.of_nat n) b /\ random_nomod b = x).
Proof. exact Proofs.nomod_bijection. Qed.
Print Assumptions C47_nomod_bijection.

(* A zero modulo is a user error, whatever the generator delivers. *)
Theorem C47_zero_modulo : forall width blocks, revertible_random width (Some 0) blocks = Err UserOther.
Proof. exact Proofs.zero_modulo_is_user_error. Qed.
Print Assumptions C47_zero_modulo.

(* the loop returns the value of the first accepted block; more than half of all blocks are accepted *)
Theorem C47_first_accepted : forall mask max pre b post v,
  Forall (fun x => accept mask max x = None) pre -> accept mask max b = Some v ->
  reject_loop mask max (pre ++ b :: post) = Ok v.
Proof. exact Proofs.reject_loop_first. Qed.
Print Assumptions C47_first_accepted.
Theorem C47_acceptance_at_least_half : forall m, 1 < m -> 2 ^ bit_len (m - 1) < 2 * m.
Proof. exact Proofs.acceptance_at_least_half. Qed.
Print Assumptions C47_acceptance_at_least_half.

(* ---------- non-vacuity ---------- *)
(* modulo 200 (UInt8): mask 255, 8 bits, 1 byte; 0xFF rejected, 0xC8 = 200 rejected, 0xC7 = 199 accepted *)
Example C47_ex8 :
  sizes64 200 = Ok (8, 1) /\
  revertible_random 1 (Some 200) [[255]; [200]; [199]] = Ok 199 /\
  reads_used 1 (Some 200) [[255]; [200]; [199]] = 3.
Proof. vm_compute. repeat split. Qed.
(* modulo 5: 3 bits of one byte are used; the 5 high bits are ignored: 0xFA -> 2 *)
Example C47_ex_mask :
  mask_loop mask_fuel 4 0 0 = Ok (7, 3) /\ revertible_random 2 (Some 5) [[250]] = Ok 2 /\
  length (filter (accepted_as 7 4 2) (all_blocks 1)) = 32%nat.
Proof. vm_compute. repeat split. Qed.
(* big path: modulo 2^64+1 needs 65 bits = 9 bytes *)
Example C47_ex_big :
  big_sizes (2 ^ 64 + 1) = (2 ^ 65 - 1, 65, 9) /\
  revertible_random 16 (Some (2 ^ 64 + 1)) [[1; 0; 0; 0; 0; 0; 0; 0; 1]; [3; 0; 0; 0; 0; 0; 0; 0; 0]] = Ok (2 ^ 64) /\
  revertible_random 32 None [[1; 2]] = Ok 258.
Proof. vm_compute. repeat split. Qed.
