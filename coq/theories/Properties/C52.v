(* C52  Evaluation order and short-circuiting follow the language definition.
   Property theorems only; proofs are in MC/Frame.v, MC/EvalOrder.v, MC/Keys.v.
   [eval P strict n e r s] is the definitional interpreter of MiniCadence (MC/Interp.v, written in the
   shape of /repo/interpreter); [strict = false] is the interpreter as written, [strict = true] the
   language definition (they differ only in `??` applied to a non-optional left value).
   [out_e P strict n e r h] is the log output of evaluating e on heap h. *)
From CV Require Import MC.Interp MC.Frame MC.EvalOrder MC.Keys MC.VM MC.CompileCorrect.

(* ---- the log only grows, by an output that does not depend on what was logged before *)
Theorem C52_trace_extends : forall P strict n e r s,
  tr (snd (eval P strict n e r s)) = tr s ++ out_e P strict n e r (hp s).
Proof. exact eval_trace. Qed.
Print Assumptions C52_trace_extends.

Theorem C52_statement_trace_extends : forall P strict n c r s,
  tr (snd (exec P strict n c r s)) = tr s ++ out_s P strict n c r (hp s).
Proof. exact exec_trace. Qed.
Print Assumptions C52_statement_trace_extends.

(* ---- operands: left, then right, each once; an error in the left operand stops the evaluation *)
Theorem C52_binary_left_to_right : forall P strict n op a b r h,
  out_e P strict (S n) (EBin op a b) r h =
  match eval P strict n a r (mkSt h []) with
  | (Ok _, s1) => out_e P strict n a r h ++ out_e P strict n b r (hp s1)
  | (Err _, _) => out_e P strict n a r h
  end.
Proof. exact bin_trace. Qed.
Print Assumptions C52_binary_left_to_right.

Theorem C52_binary_operator_last : forall P strict n op a b r s,
  eval P strict (S n) (EBin op a b) r s =
  match eval P strict n a r s with
  | (Ok va, s1) =>
    match eval P strict n b r s1 with
    | (Ok vb, s2) => (binop_apply op va vb, s2)
    | (Err e, s2) => (Err e, s2)
    end
  | (Err e, s1) => (Err e, s1)
  end.
Proof. exact bin_result. Qed.
Print Assumptions C52_binary_operator_last.

(* ---- whole nested expressions: every probe site at most once, in left-to-right order; for
        expressions without short-circuit forms exactly once each when the evaluation succeeds, and a
        prefix of the sites when an error stops it (later probes do not appear) *)
Theorem C52_once_each_left_to_right : forall P strict n e r s,
  probe_only e = true ->
  exists l, tr (snd (eval P strict n e r s)) = tr s ++ map VInt l /\ sub l (keys e) /\
            (strict_e e = true ->
             prefix l (keys e) /\ (is_ok (fst (eval P strict n e r s)) = true -> l = keys e)).
Proof. intros P strict n e r s H. exact (proj1 (keys_sound P strict n) e r s H). Qed.
Print Assumptions C52_once_each_left_to_right.

(* arguments, array entries and dictionary entries: the same for expression lists *)
Theorem C52_entries_once_each_left_to_right : forall P strict n es bx r s,
  probe_only_l es = true ->
  exists l, tr (snd (evals P strict n es bx r s)) = tr s ++ map VInt l /\ sub l (keys_l es) /\
            (strict_l es = true ->
             prefix l (keys_l es) /\ (is_ok (fst (evals P strict n es bx r s)) = true -> l = keys_l es)).
Proof. intros P strict n es bx r s H. exact (proj2 (keys_sound P strict n) es bx r s H). Qed.
Print Assumptions C52_entries_once_each_left_to_right.

Theorem C52_entries_left_to_right : forall P strict n e c rest bx r h,
  out_es P strict (S n) (EMore e c rest) bx r h =
  match eval P strict n e r (mkSt h []) with
  | (Ok v, s1) =>
    match tconv (if bx then c else O) v s1 with
    | (Ok _, s2) => out_e P strict n e r h ++ out_es P strict n rest bx r (hp s2)
    | (Err _, _) => out_e P strict n e r h
    end
  | (Err _, _) => out_e P strict n e r h
  end.
Proof. exact exprs_trace. Qed.
Print Assumptions C52_entries_left_to_right.

Theorem C52_array_literal : forall P strict n es r h,
  out_e P strict (S n) (EArr es) r h = out_es P strict n es true r h.
Proof. exact arr_trace. Qed.
Print Assumptions C52_array_literal.

Theorem C52_dictionary_literal : forall P strict n es r h,
  out_e P strict (S n) (EDict es) r h = out_es P strict n es true r h.
Proof. exact dict_trace. Qed.
Print Assumptions C52_dictionary_literal.

Theorem C52_arguments_before_call : forall P strict n f args r h,
  exists tail, out_e P strict (S n) (ECall f args) r h = out_es P strict n args false r h ++ tail.
Proof. exact call_args_first. Qed.
Print Assumptions C52_arguments_before_call.

(* ---- && and || *)
Theorem C52_and_trace : forall P strict n a b r h,
  out_e P strict (S n) (EAnd a b) r h =
  match eval P strict n a r (mkSt h []) with
  | (Ok (VBool true), s1) => out_e P strict n a r h ++ out_e P strict n b r (hp s1)
  | _ => out_e P strict n a r h
  end.
Proof. exact and_trace. Qed.
Print Assumptions C52_and_trace.

Theorem C52_or_trace : forall P strict n a b r h,
  out_e P strict (S n) (EOr a b) r h =
  match eval P strict n a r (mkSt h []) with
  | (Ok (VBool false), s1) => out_e P strict n a r h ++ out_e P strict n b r (hp s1)
  | _ => out_e P strict n a r h
  end.
Proof. exact or_trace. Qed.
Print Assumptions C52_or_trace.

Theorem C52_and_short_circuit : forall P strict n a b r s s1,
  eval P strict n a r s = (Ok (VBool false), s1) ->
  eval P strict (S n) (EAnd a b) r s = (Ok (VBool false), s1).
Proof. exact and_short_circuit. Qed.
Print Assumptions C52_and_short_circuit.

Theorem C52_and_evaluates_right : forall P strict n a b r s s1,
  eval P strict n a r s = (Ok (VBool true), s1) ->
  eval P strict (S n) (EAnd a b) r s =
  match eval P strict n b r s1 with
  | (Ok (VBool vb), s2) => (Ok (VBool vb), s2)
  | (Ok _, s2) => (Err Internal, s2)
  | (Err e, s2) => (Err e, s2)
  end.
Proof. exact and_evaluates_right. Qed.
Print Assumptions C52_and_evaluates_right.

Theorem C52_or_short_circuit : forall P strict n a b r s s1,
  eval P strict n a r s = (Ok (VBool true), s1) ->
  eval P strict (S n) (EOr a b) r s = (Ok (VBool true), s1).
Proof. exact or_short_circuit. Qed.
Print Assumptions C52_or_short_circuit.

Theorem C52_or_evaluates_right : forall P strict n a b r s s1,
  eval P strict n a r s = (Ok (VBool false), s1) ->
  eval P strict (S n) (EOr a b) r s =
  match eval P strict n b r s1 with
  | (Ok (VBool vb), s2) => (Ok (VBool vb), s2)
  | (Ok _, s2) => (Err Internal, s2)
  | (Err e, s2) => (Err e, s2)
  end.
Proof. exact or_evaluates_right. Qed.
Print Assumptions C52_or_evaluates_right.

(* ---- conditional operator: exactly the selected branch *)
Theorem C52_conditional_selects : forall P strict n c a b r s s1 (t : bool),
  eval P strict n c r s = (Ok (VBool t), s1) ->
  eval P strict (S n) (ECond c a b) r s = eval P strict n (if t then a else b) r s1.
Proof. exact cond_selects. Qed.
Print Assumptions C52_conditional_selects.

Theorem C52_conditional_trace : forall P strict n c a b r h,
  out_e P strict (S n) (ECond c a b) r h =
  match eval P strict n c r (mkSt h []) with
  | (Ok (VBool true), s1) => out_e P strict n c r h ++ out_e P strict n a r (hp s1)
  | (Ok (VBool false), s1) => out_e P strict n c r h ++ out_e P strict n b r (hp s1)
  | _ => out_e P strict n c r h
  end.
Proof. exact cond_trace. Qed.
Print Assumptions C52_conditional_trace.

(* ---- nil-coalescing.  Full statement: the right operand runs exactly when the left value is nil. *)
Definition C52_coalesce_statement : Prop :=
  forall P n a b c r s va s1,
    eval P false n a r s = (Ok va, s1) ->
    (va = VNil ->
     eval P false (S n) (ECoalesce a b c) r s =
     match eval P false n b r s1 with (Ok vb, s2) => (Ok (box c vb), s2) | (Err e, s2) => (Err e, s2) end) /\
    (va <> VNil -> snd (eval P false (S n) (ECoalesce a b c) r s) = s1).

Theorem C52_coalesce_nil : forall P strict n a b c r s s1,
  eval P strict n a r s = (Ok VNil, s1) ->
  eval P strict (S n) (ECoalesce a b c) r s =
  match eval P strict n b r s1 with
  | (Ok vb, s2) => (Ok (box c vb), s2)
  | (Err e, s2) => (Err e, s2)
  end.
Proof. exact coalesce_nil. Qed.
Print Assumptions C52_coalesce_nil.

(* partial: under the guard that the left value is an optional value (Some/nil), as the language
   definition guarantees for an operand of optional type *)
Theorem C52_coalesce_partial : forall P strict n a b c r s va s1,
  eval P strict n a r s = (Ok va, s1) ->
  is_optional va = true ->
  va <> VNil ->
  eval P strict (S n) (ECoalesce a b c) r s = (Ok (box c (match va with VSome v => v | _ => va end)), s1).
Proof. exact coalesce_partial. Qed.
Print Assumptions C52_coalesce_partial.

(* refuted on the interpreter as written: `(true ? 5 : nil) ?? probe(2, 3)` -- the conditional yields
   the unboxed 5 (no conversion to its optional result type), the interpreter's `??` tests for
   SomeValue only and therefore runs the right operand although the left value is not nil.
   Real-code reproduction: corpus/C52/coalesce_unboxed_conditional.cdc (interpreter: logs 1,2 result 3;
   VM: logs 1 result 5). *)
Definition c52_witness_left : expr := ECond (EBool true) (EInt 5) ENil.
Definition c52_witness_right : expr := ECall FnProbe (EMore (EInt 2) O (EMore (EInt 3) O ENone)).

Theorem C52_coalesce_refuted :
  exists P n a b c r s va s1,
    eval P false n a r s = (Ok va, s1) /\ va <> VNil /\
    snd (eval P false (S n) (ECoalesce a b c) r s) <> s1.
Proof.
  exists [], 5%nat, c52_witness_left, c52_witness_right, O, [], (mkSt [] []), (VInt 5), (mkSt [] []).
  split; [vm_compute; reflexivity|]. split; [discriminate|]. vm_compute. discriminate.
Qed.
Print Assumptions C52_coalesce_refuted.

(* the language-definition reading (strict = true) never runs the right operand on a non-nil left value *)
Theorem C52_coalesce_strict : forall P n a b c r s va s1,
  eval P true n a r s = (Ok va, s1) -> va <> VNil ->
  snd (eval P true (S n) (ECoalesce a b c) r s) = s1.
Proof.
  intros P n a b c r s va s1 H Hn. simpl. unfold bindM. rewrite H.
  destruct va; try reflexivity. congruence.
Qed.
Print Assumptions C52_coalesce_strict.

(* ---- optional chaining: the member is read exactly when the receiver is not nil *)
Theorem C52_optional_chaining_nil : forall P strict n a f r s s1,
  eval P strict n a r s = (Ok VNil, s1) ->
  eval P strict (S n) (EOptMember a f) r s = (Ok VNil, s1).
Proof. exact optmember_nil. Qed.
Print Assumptions C52_optional_chaining_nil.

Theorem C52_optional_chaining_some : forall P strict n a f r s s1 w,
  eval P strict n a r s = (Ok (VSome w), s1) ->
  eval P strict (S n) (EOptMember a f) r s =
  match get_field (hp s1) w f with
  | Ok v => (Ok (wrap true v), s1)
  | Err e => (Err e, s1)
  end.
Proof. exact optmember_some. Qed.
Print Assumptions C52_optional_chaining_some.

(* ---- assignment: target sub-expressions (container, then index) before the value; the write and
        its bounds check come last *)
Theorem C52_assign_index_trace : forall P strict n a i cv e r h,
  out_s P strict (S (S n)) (SAssign (TIndex a i) cv e) r h =
  match eval P strict n a r (mkSt h []) with
  | (Ok va, s1) =>
    match eval P strict n i r s1 with
    | (Ok vi, s2) =>
      match tconv O vi s2 with
      | (Ok _, s3) => out_e P strict n a r h ++ out_e P strict n i r (hp s1) ++ out_e P strict (S n) e r (hp s3)
      | (Err _, _) => out_e P strict n a r h ++ out_e P strict n i r (hp s1)
      end
    | (Err _, _) => out_e P strict n a r h ++ out_e P strict n i r (hp s1)
    end
  | (Err _, _) => out_e P strict n a r h
  end.
Proof. exact assign_index_trace. Qed.
Print Assumptions C52_assign_index_trace.

Theorem C52_assign_index_order : forall P strict n a i cv e r s,
  exec P strict (S (S n)) (SAssign (TIndex a i) cv e) r s =
  match eval P strict n a r s with
  | (Ok va, s1) =>
    match eval P strict n i r s1 with
    | (Ok vi, s2) =>
      match tconv O vi s2 with
      | (Ok vi', s3) =>
        match eval P strict (S n) e r s3 with
        | (Ok v, s4) =>
          match tconv cv v s4 with
          | (Ok v', s5) =>
            match set_index (hp s5) va vi' v' with
            | Ok h' => (Ok (ONormal, r), with_hp s5 h')
            | Err er => (Err er, s5)
            end
          | (Err er, s5) => (Err er, s5)
          end
        | (Err er, s4) => (Err er, s4)
        end
      | (Err er, s3) => (Err er, s3)
      end
    | (Err er, s2) => (Err er, s2)
    end
  | (Err er, s1) => (Err er, s1)
  end.
Proof. exact assign_index_order. Qed.
Print Assumptions C52_assign_index_order.

Theorem C52_assign_member_order : forall P strict n a f cv e r s,
  exec P strict (S (S n)) (SAssign (TMember a f) cv e) r s =
  match eval P strict n a r s with
  | (Ok va, s1) =>
    match eval P strict (S n) e r s1 with
    | (Ok v, s2) =>
      match tconv cv v s2 with
      | (Ok v', s3) =>
        match set_field (hp s3) va f v' with
        | Ok h' => (Ok (ONormal, r), with_hp s3 h')
        | Err er => (Err er, s3)
        end
      | (Err er, s3) => (Err er, s3)
      end
    | (Err er, s2) => (Err er, s2)
    end
  | (Err er, s1) => (Err er, s1)
  end.
Proof. exact assign_member_order. Qed.
Print Assumptions C52_assign_member_order.

(* ---- swap: sub-expressions of the left side, then of the right side; reads and writes log nothing *)
Theorem C52_swap_trace : forall P strict n t1 t2 cv r h,
  out_s P strict (S n) (SSwap t1 t2 cv) r h =
  match eval_target P strict n t1 r (mkSt h []) with
  | (Ok _, s1) => out_t P strict n t1 r h ++ out_t P strict n t2 r (hp s1)
  | (Err _, _) => out_t P strict n t1 r h
  end.
Proof. exact swap_trace. Qed.
Print Assumptions C52_swap_trace.

Theorem C52_swap_side_trace : forall P strict n a i r h,
  out_t P strict (S n) (TIndex a i) r h =
  match eval P strict n a r (mkSt h []) with
  | (Ok _, s1) => out_e P strict n a r h ++ out_e P strict n i r (hp s1)
  | (Err _, _) => out_e P strict n a r h
  end.
Proof. exact target_index_trace. Qed.
Print Assumptions C52_swap_side_trace.

(* ---- the same way in both engines: the VM running the compiled program logs exactly what the
        (language-definition) interpreter logs, for every program of the fragment (corollary of C34) *)
Theorem C52_vm_logs_the_same : forall P fuel res s',
  run_def P fuel = (res, s') -> acceptable res ->
  exists k, fst (run_vm (compile P) k) = res /\ tr (snd (run_vm (compile P) k)) = tr s'.
Proof.
  intros P fuel res s' H A. destruct (compile_correct_run P fuel res s' H A) as [k Hk].
  exists k. rewrite Hk. split; reflexivity.
Qed.
Print Assumptions C52_vm_logs_the_same.

(* ---------------------------------------------------------------- non-vacuity *)

Definition probe (k : Z) (v : expr) : expr := ECall FnProbe (EMore (EInt k) O (EMore v O ENone)).

(* (probe(1,100) + probe(2,100)) + probe(3,1): overflow after probes 1 and 2; probe 3 does not run *)
Example C52_ex_error_stops :
  let e := EBin BAdd (EBin BAdd (probe 1 (EInt 100)) (probe 2 (EInt 100))) (probe 3 (EInt 1)) in
  probe_only e = true /\ strict_e e = true /\ keys e = [1; 2; 3] /\
  eval [] false 20 e [] (mkSt [] []) = (Err Overflow, mkSt [] [VInt 1; VInt 2]).
Proof. vm_compute. repeat split. Qed.

(* probe(1,false) && probe(2,true) || probe(3, true): 2 is skipped, 3 runs *)
Example C52_ex_short_circuit :
  let e := EOr (EAnd (probe 1 (EBool false)) (probe 2 (EBool true))) (probe 3 (EBool true)) in
  probe_only e = true /\ keys e = [1; 2; 3] /\
  eval [] false 20 e [] (mkSt [] []) = (Ok (VBool true), mkSt [] [VInt 1; VInt 3]).
Proof. vm_compute. repeat split. Qed.

(* var a = [1,2,3]; a[probe(1,5)] = probe(2,9): both probes run, then the write fails out of bounds *)
Example C52_ex_assign_order :
  let P := [mkFun [] (BCons (SLet 1 O (EArr (EMore (EInt 1) O (EMore (EInt 2) O (EMore (EInt 3) O ENone)))))
                     (BCons (SAssign (TIndex (EVar 1) (probe 1 (EInt 5))) O (probe 2 (EInt 9))) BNil))] in
  let '(r, s) := eval P false 30 (ECall (FnUser 0) ENone) [] (mkSt [] []) in
  r = Err IndexOOB /\ tr s = [VInt 1; VInt 2].
Proof. vm_compute. split; reflexivity. Qed.
