(* C24  Failed transactions and all scripts write no ledger registers.
   Property theorems only; model in C24/Model.v, proofs in C24/Proofs.v.

   The property at full strength is the conjunction below. It does NOT hold of the executor
   model (nor of the implementation): see the [_refuted] theorems, each a defect class
   reproduced on the real code by the check of this property. The [_partial] theorems state
   the property under the exact guards excluding those classes. *)
From CV Require Import Base.Prelude C24.Model C24.Proofs.

Definition C24_statement : Prop :=
  script_no_writes_statement /\ failed_tx_no_writes_statement /\ success_writes_after_end_statement.

(* Whatever the executor (script / transaction), the program, the injected failure point and the
   outcome: the ledger changes only through the Write events of the host trace. *)
Theorem C24_ledger_changes_only_by_writes : forall k L p fp ok tr L',
  run k L p fp = (ok, tr, L') -> L' = replay L tr.
Proof. exact ledger_changes_only_by_writes. Qed.
Print Assumptions C24_ledger_changes_only_by_writes.

(* A script (succeeding or failing anywhere) whose program does not call
   storage.used / storage.capacity / account creation issues no write. *)
Theorem C24_script_no_writes_partial : forall L p fp ok tr L',
  flush_free p -> run KScript L p fp = (ok, tr, L') -> writes tr = [] /\ L' = L.
Proof. exact script_no_writes_partial. Qed.
Print Assumptions C24_script_no_writes_partial.

(* A transaction failing at ANY point - a failing statement, an injected failure before any
   statement, during the commit-time application of contract updates, or at the commit-time
   metering - issues no write, unless the failure is the commit-time metering of a
   transaction that created an account storage map. *)
Theorem C24_failed_tx_no_writes_partial : forall L p fp tr L',
  flush_free p -> run KTx L p fp = (false, tr, L') ->
  ~ (fp = Some AtCommitMeter /\ fresh_at_commit L p fp <> []) ->
  writes tr = [] /\ L' = L.
Proof. exact failed_tx_no_writes_partial. Qed.
Print Assumptions C24_failed_tx_no_writes_partial.

(* A contract-function call (runtime.InvokeContractFunction) behaves like a transaction unless
   the failure strikes while its result is exported, which happens after the commit. *)
Theorem C24_failed_call_no_writes_partial : forall L p fp tr L',
  flush_free p -> run KCall L p fp = (false, tr, L') ->
  fp <> Some AtExport ->
  ~ (fp = Some AtCommitMeter /\ fresh_at_commit L p fp <> []) ->
  writes tr = [] /\ L' = L.
Proof. exact failed_call_no_writes_partial. Qed.
Print Assumptions C24_failed_call_no_writes_partial.

(* A successful transaction writes only after its program has finished. *)
Theorem C24_success_writes_after_end_partial : forall L p fp tr L',
  flush_free p -> run KTx L p fp = (true, tr, L') ->
  exists pre post, tr = pre ++ End :: post /\ writes pre = [] /\ forallb is_write post = true.
Proof. exact success_writes_after_end_partial. Qed.
Print Assumptions C24_success_writes_after_end_partial.

(* ... and those writes hold everything a later transaction observes (no guard needed). *)
Theorem C24_next_tx_observes_exactly_writes : forall L p fp tr L',
  run KTx L p fp = (true, tr, L') ->
  L' = replay L tr /\ forall r, snd r <> 0 -> lget L' r = final_view L p fp r.
Proof. exact next_tx_observes_exactly_writes. Qed.
Print Assumptions C24_next_tx_observes_exactly_writes.

(* ---- the defect classes ---- *)
Theorem C24_script_no_writes_refuted :
  exists L p, writes (snd (fst (run KScript L p None))) <> [].
Proof. exact script_no_writes_refuted. Qed.
Print Assumptions C24_script_no_writes_refuted.

Theorem C24_failed_tx_no_writes_refuted_flush :
  exists L p, fst (fst (run KTx L p None)) = false /\ writes (snd (fst (run KTx L p None))) <> [].
Proof. exact failed_tx_no_writes_refuted_flush. Qed.
Print Assumptions C24_failed_tx_no_writes_refuted_flush.

Theorem C24_failed_tx_no_writes_refuted_commit_meter :
  exists L p fp, flush_free p /\ fst (fst (run KTx L p fp)) = false /\
                 writes (snd (fst (run KTx L p fp))) = [Write (2, 0) (Some 1)].
Proof. exact failed_tx_no_writes_refuted_commit_meter. Qed.
Print Assumptions C24_failed_tx_no_writes_refuted_commit_meter.

Theorem C24_failed_call_no_writes_refuted_export :
  exists L p, flush_free p /\ fst (fst (run KCall L p (Some AtExport))) = false /\
              writes (snd (fst (run KCall L p (Some AtExport)))) = [Write (1, 20) (Some 3)].
Proof. exact failed_call_no_writes_refuted_export. Qed.
Print Assumptions C24_failed_call_no_writes_refuted_export.

Theorem C24_success_writes_after_end_refuted :
  exists L p, fst (fst (run KTx L p None)) = true /\
    forall pre post, snd (fst (run KTx L p None)) = pre ++ End :: post -> writes pre <> [].
Proof. exact success_writes_after_end_refuted. Qed.
Print Assumptions C24_success_writes_after_end_refuted.

(* ---- non-vacuity ---- *)
(* a flush-free transaction: saves into a fresh account, records a contract update, succeeds:
   all writes come after End, and the next transaction reads what it wrote *)
Example C24_ex_success :
  run KTx [] [IGet (2, 1); ISet (2, 1) 5; IUpd (2, 40) (Some 7); ILog 999] None
  = (true,
     [Read (2, 1); Log 999; End; Write (2, 0) (Some 1); Write (2, 1) (Some 5);
      Write (2, 1040) (Some 7); Write (2, 40) (Some 7)],
     [((2, 0), Some 1); ((2, 1), Some 5); ((2, 1040), Some 7); ((2, 40), Some 7)]).
Proof. vm_compute. reflexivity. Qed.

(* the same program failing in its post-condition, at an injected point, or while the commit
   applies the contract update: no write, ledger untouched *)
Example C24_ex_failures :
  run KTx [] [ISet (2, 1) 5; IUpd (2, 40) (Some 7); ILog 999; IFail] None = (false, [Log 999], []) /\
  run KTx [] [ISet (2, 1) 5; IUpd (2, 40) (Some 7); ILog 999] (Some (AtStep 1)) = (false, [], []) /\
  run KTx [] [ISet (2, 1) 5; IUpd (2, 40) (Some 7); ILog 999] (Some AtCommitUpdates)
    = (false, [Log 999; End], []) /\
  run KScript [] [ISet (2, 1) 5; ILog 999] None = (true, [Log 999; End], []).
Proof. vm_compute. repeat split. Qed.

(* the guard of the failed-transaction theorem is satisfiable with the metering failure too:
   the account already exists, so nothing is written before the metering *)
Example C24_ex_meter_existing_account :
  run KTx [((2, 0), Some 1)] [ISet (2, 1) 5; ILog 999] (Some AtCommitMeter)
  = (false, [Log 999; End], [((2, 0), Some 1)]) /\
  fresh_at_commit [((2, 0), Some 1)] [ISet (2, 1) 5; ILog 999] (Some AtCommitMeter) = [].
Proof. vm_compute. split; reflexivity. Qed.
