(* C37  Lexing, parsing and checking are total and report in-range positions.
   Property theorems only; proofs are in C37/{Utf8Facts,EndPos,DriverProofs,ScannerProofs,Proofs}.v.

   What is proved here concerns the LEXER: the model C37/Model.v transcribes lexer.go (driver) and
   state.go (scanner); C37/Abstract.v is the driver over an arbitrary scanner.  Totality of the real
   parser and checker is observed by the correspondence run, not proved (see props_meta/C37.json).

   Specification (C37/Spec.v): line = 1 + number of '\n' before the offset, column = number of BYTES since
   the line start — the meaning documented on ast.Position.Column and computed by
   ast.NewPositionAtCodeOffset. *)
From CV Require Import Base.Prelude C37.Utf8 C37.Spec C37.Model C37.Abstract C37.ScannerProofs C37.Proofs.

(* ---- the pool: the result of Lex does not depend on what the pooled lexer lexed before ---- *)
Theorem C37_lex_after_clear_independent : forall pooled pooled' inp,
  Lex pooled inp = Lex pooled' inp /\ token_stream pooled inp = token_stream pooled' inp.
Proof. exact lex_after_clear_independent. Qed.
Print Assumptions C37_lex_after_clear_independent.

(* every field of the lexer struct (list regenerated from lexer.go on every run) is assigned by clear()
   or by Lex(), and clear() assigns only fields the model resets *)
Theorem C37_clear_resets_every_field :
  Tables.fields_covered = true /\ Tables.clear_known = true /\ Tables.lex_known = true /\ Tables.codes_match = true.
Proof. exact clear_resets_every_field. Qed.
Print Assumptions C37_clear_resets_every_field.

(* ---- the driver over ANY scanner ---- *)
(* For every input and every sequence of emissions (kind, endOffset) a scanner may perform: if the
   resulting token stream is regular — every emission consumed at least one byte and stayed inside the
   input — the consuming tokens tile [0, startOffset) contiguously in order, and every token's offsets
   are in range and ordered, its lines match its offsets (any bytes, valid UTF-8 or not), and its columns
   match its offsets whenever the input up to the token's end is ASCII. *)
Theorem C37_driver_any_scanner : forall inp ems d',
  Forall (fun x => kind_ok (fst x)) ems ->
  drun inp d_init ems = Ok d' ->
  regular inp 0 (rev (d_rtoks d')) ->
  tiles 0 (d_so d') (cons_ranges (rev (d_rtoks d'))) /\
  Forall (tok_ok inp) (rev (d_rtoks d')) /\
  0 <= d_so d' <= zlen inp.
Proof. exact DriverProofs.abstract_run_ok. Qed.
Print Assumptions C37_driver_any_scanner.

(* ---- the concrete lexer model (driver + scanner of state.go), any pooled state, any byte input ---- *)
Theorem C37_tokens_tile_input_partial : forall pooled inp,
  let l := fst (Lex pooled inp) in
  regular inp 0 (rev (l_rtokens l)) ->
  tiles 0 (l_startOffset l) (cons_ranges (rev (l_rtokens l))) /\ 0 <= l_startOffset l <= zlen inp.
Proof. exact tokens_tile_input_partial. Qed.
Print Assumptions C37_tokens_tile_input_partial.

Theorem C37_token_pos_matches_offset_partial : forall pooled inp,
  let l := fst (Lex pooled inp) in
  regular inp 0 (rev (l_rtokens l)) ->
  Forall (tok_ok inp) (rev (l_rtokens l)).
Proof. exact token_pos_matches_offset_partial. Qed.
Print Assumptions C37_token_pos_matches_offset_partial.

Theorem C37_eof_token_partial : forall pooled inp t,
  let l := fst (Lex pooled inp) in
  regular inp 0 (rev (l_rtokens l)) ->
  l_startOffset l = zlen inp -> l_endOffset l = zlen inp + 1 ->
  eof_token l = Ok t ->
  t_start t = t_end t /\ p_off (t_start t) = zlen inp /\
  p_line (t_start t) = line_of_offset inp (zlen inp) /\
  (ascii inp -> (p_line (t_start t), p_col (t_start t)) = pos_of_offset inp (zlen inp)).
Proof. exact eof_token_ok. Qed.
Print Assumptions C37_eof_token_partial.

(* ---- the unrestricted statements are false for the model of the real lexer (findings) ---- *)
Definition C37_token_pos_matches_offset_statement : Prop := statement_pos_bytes.
Definition C37_positions_in_range_statement : Prop := statement_range.

(* column = byte count fails ("é" x), column = rune count fails (/*€*/ x), and even on pure ASCII input the
   columns after adjacent string templates are wrong ("\(a)\(b)" z) *)
Theorem C37_token_pos_matches_offset_refuted :
  ~ statement_pos_bytes /\ ~ statement_pos_runes /\
  (exists inp t, ascii inp /\ In t (emitted inp) /\
     (p_line (t_start t), p_col (t_start t)) <> pos_of_offset inp (p_off (t_start t))).
Proof. exact pos_statement_refuted. Qed.
Print Assumptions C37_token_pos_matches_offset_refuted.

(* a token with end before start ("\(a)\(b)"), and a token reaching past the input (0a) *)
Theorem C37_positions_in_range_refuted :
  ~ statement_range /\
  (exists inp t, In t (emitted inp) /\ p_off (t_end t) < p_off (t_start t)) /\
  (exists inp t, In t (emitted inp) /\ zlen inp <= p_off (t_end t)).
Proof. exact range_statement_refuted. Qed.
Print Assumptions C37_positions_in_range_refuted.

(* ---- non-vacuity: concrete inputs whose token streams are regular ---- *)
(* "let x = 1\n  f(\"a\") // é\ny" : three lines, a string, a comment with a multi-byte rune, 16 tokens, fully covered *)
Definition ex_inp : list Z :=
  [108;101;116;32;120;32;61;32;49;10;32;32;102;40;34;97;34;41;32;47;47;32;195;169;10;121].
Example C37_ex_regular :
  regular ex_inp 0 (emitted ex_inp) /\
  l_startOffset (fst (Lex fresh_lexer ex_inp)) = zlen ex_inp /\
  l_endOffset (fst (Lex fresh_lexer ex_inp)) = zlen ex_inp + 1 /\
  length (emitted ex_inp) = 16%nat.
Proof. vm_compute. repeat split; try reflexivity; try (intro HH; discriminate HH). Qed.
(* an abstract run that is not produced by the real scanner: two tokens [0,1] [2,2] and an error marker *)
Example C37_ex_abstract :
  exists d', drun [97;98;10] d_init [(KToken TokenIdentifier 0, 2); (KError, 3); (KToken TokenSpace 2, 3)] = Ok d' /\
             regular [97;98;10] 0 (rev (d_rtoks d')) /\ d_so d' = 3.
Proof. eexists. vm_compute. repeat split; try reflexivity; try (intro HH; discriminate HH). Qed.
