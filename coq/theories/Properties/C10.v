(* C10  Function pre- and post-conditions are always enforced.
   Property theorems only; the model is C10/Model.v, proofs are in C10/{Lemmas,Conf,Interp,
   ExecLemmas,Desugar,Proofs}.v.

   `call` is the interpreter-shaped model (condition wrappers applied in reverse conformance
   order, `before` extracted into statements evaluated at entry, `result` bound after the body);
   `desugar` is the compiler's source-to-source desugaring run by the same `call` (= the VM);
   `applies p f d`: d is the composite's own declaration of f or the declaration of f in an
   interface the composite implements (reachable through conformances, any depth);
   holds_pre / holds_post: the independent reading of a condition (before(e) = e in the entry
   state, result = the returned value). *)
From CV Require Import C10.Model C10.Proofs.

(* A call returns normally only if every own and inherited pre-condition held in the entry state
   and every own and inherited post-condition holds in the exit state, with before-values taken
   from the entry state and result = the returned value (any fuel, any state, any trace). *)
Theorem C10_conditions_enforced : forall nf p, wf_prog nf p = true ->
  forall n f a b (st : state) (tr : trace) r st' tr',
  length st = nf ->
  call n p f a b (st, tr) = (Ok r, (st', tr')) ->
  forall d, applies p f d ->
    (forall c, In (CTest c) (f_pre d) -> holds_pre a b st c) /\
    (forall c, In (CTest c) (f_post d) -> holds_post a b st st' r c).
Proof. exact conditions_enforced. Qed.
Print Assumptions C10_conditions_enforced.

(* A false pre-condition, own or inherited from any implemented interface: the call fails with
   exactly CondFail, the state is unchanged (the body never ran) and the only events written are
   those of emit pre-conditions of applicable declarations. *)
Theorem C10_failing_precondition : forall nf p, wf_prog nf p = true ->
  forall n f a b (st : state) (tr : trace) d c,
  length st = nf ->
  applies p f d -> In (CTest c) (f_pre d) -> seval a b None st None c = Ok 0 ->
  exists evs,
    call (S n) p f a b (st, tr) = (Err CondFail, (st, tr ++ evs)) /\
    Forall (fun ev => exists d' e, applies p f d' /\ In (CEmit (fst ev) e) (f_pre d') /\
                                   seval a b None st None e = Ok (snd ev)) evs.
Proof. exact failing_precondition. Qed.
Print Assumptions C10_failing_precondition.

(* A false post-condition, own or inherited, after the pre-conditions passed and the
   implementation's body returned r in state st2: the call fails with exactly CondFail. *)
Theorem C10_failing_postcondition : forall nf p, wf_prog nf p = true ->
  forall n f a b (st : state) (tr : trace) d0 own u tr1 r st2 tr2 d c,
  length st = nf ->
  impl_decl p f = Some (d0, own) ->
  schecks a b None st None (spec_pres p f d0 own) tr = (Ok u, tr1) ->
  exec_fun_body (call n p) p d0 a b (st, tr1) = (Ok r, (st2, tr2)) ->
  applies p f d -> In (CTest c) (f_post d) -> seval a b (Some st) st2 (Some r) c = Ok 0 ->
  exists tr3, call (S n) p f a b (st, tr) = (Err CondFail, (st2, tr3)).
Proof. exact failing_postcondition. Qed.
Print Assumptions C10_failing_postcondition.

(* The interpreter-shaped evaluation (nested wrappers, extracted before-statements) is the flat
   specification: inherited pre-conditions in conformance order, own pre-conditions, the body,
   own post-conditions, inherited post-conditions in reverse order. *)
Theorem C10_call_flat_spec : forall nf p, wf_prog nf p = true ->
  forall n f a b (st : state) (tr : trace),
  length st = nf ->
  call (S n) p f a b (st, tr) = spec_invoke (call n p) p f a b (st, tr).
Proof. exact call_flat_spec. Qed.
Print Assumptions C10_call_flat_spec.

(* The compiler's desugaring preserves every observable: outcome, state and event trace of every
   call, hence of every script. *)
Theorem C10_desugar_equiv : forall nf p, wf_prog nf p = true ->
  forall n f a b (st : state) (tr : trace),
  length st = nf ->
  call n (desugar p) f a b (st, tr) = call n p f a b (st, tr).
Proof. exact desugar_equiv. Qed.
Print Assumptions C10_desugar_equiv.

Theorem C10_desugar_equiv_script : forall nf p, wf_prog nf p = true ->
  forall n cs (st : state) (tr : trace),
  length st = nf ->
  run_calls n (desugar p) cs (st, tr) = run_calls n p cs (st, tr).
Proof. exact desugar_equiv_script. Qed.
Print Assumptions C10_desugar_equiv_script.

(* ------------------------------------------------------------------ non-vacuity *)
Open Scope Z_scope.

Definition ex_gt0 (e : exp) := EBin BLt (EConst 0) e.
(* interface I0 { fun f0(a, b): Int { pre { a > 0 }  post { before(self.x0) <= result } } } *)
Definition exI0 : iface := IFace [] [(0%nat, FDecl [CTest (ex_gt0 (EParam false))]
     [CTest (EBin BLe (EBefore (EField 0)) EResult)] SSkip BNone SSkip)].
(* interface I1: I0 { fun f0(a, b): Int { pre { emit Ev(21, a) }
     post { self.x0 == before(self.x0) + a }  self.x0 = self.x0 + a; return self.x0 } } *)
Definition exI1 : iface := IFace [0%nat] [(0%nat, FDecl [CEmit 21 (EParam false)]
     [CTest (EBin BEq (EField 0) (EBin BAdd (EBefore (EField 0)) (EParam false)))] SSkip
     (BStmts (SSeq (SAssign 0 (EBin BAdd (EField 0) (EParam false))) (SReturn (EField 0)))) SSkip)].
(* struct S: I1 { fun f1(a, b): Int { pre { 0 <= b } post { result > 0 }
     l0 = self.f0(a, b); return l0 + 1 } }   -- f0 is the default function inherited from I1 *)
Definition exP : prog := Prog [exI0; exI1] [1%nat]
  [(1%nat, FDecl [CTest (EBin BLe (EConst 0) (EParam true))] [CTest (ex_gt0 EResult)] SSkip
     (BStmts (SSeq (SCall false 0%nat (EParam false) (EParam true))
                   (SReturn (EBin BAdd (ELocal false) (EConst 1))))) SSkip)].

(* hypotheses of C10_conditions_enforced hold on a nested call through an inherited default *)
Example C10_ex_success :
  wf_prog 1 exP = true /\ effective_conformances exP = [1%nat; 0%nat] /\
  call 5 exP 1%nat 2 0 ([3], []) = (Ok 6, ([5], [(21, 2)])).
Proof. vm_compute. repeat split. Qed.

(* hypotheses of C10_failing_precondition: the false pre-condition is inherited from I0, which S
   implements only through I1; the state stays [3], the emit pre-condition of I1 ran first *)
Example C10_ex_failing_pre :
  applies exP 0%nat (FDecl [CTest (ex_gt0 (EParam false))]
     [CTest (EBin BLe (EBefore (EField 0)) EResult)] SSkip BNone SSkip) /\
  seval (-1) 0 None [3] None (ex_gt0 (EParam false)) = Ok 0 /\
  call 5 exP 0%nat (-1) 0 ([3], []) = (Err CondFail, ([3], [(21, -1)])).
Proof.
  split; [|vm_compute; split; reflexivity].
  right. exists 0%nat. split; [|reflexivity].
  eapply impl_parent; [apply impl_direct; simpl; auto | simpl; auto].
Qed.

(* a false post-condition after a successful nested call: f0 returns -8 (all its own and inherited
   conditions hold), f1 returns -7 and its post-condition result > 0 is false *)
Example C10_ex_failing_post :
  call 5 exP 1%nat 1 0 ([-9], []) = (Err CondFail, ([-8], [(21, 1)])).
Proof. vm_compute. reflexivity. Qed.

(* the desugared program is a different program (conditions inlined, a delegator for f0) with the
   same behaviour *)
Example C10_ex_desugar :
  length (p_funs (desugar exP)) = 2%nat /\
  (exists d, find_fun 0%nat (p_funs (desugar exP)) = Some d /\ f_body d = BDelegate 1%nat 0%nat) /\
  call 5 (desugar exP) 1%nat 2 0 ([3], []) = (Ok 6, ([5], [(21, 2)])) /\
  call 5 (desugar exP) 0%nat (-1) 0 ([3], []) = (Err CondFail, ([3], [(21, -1)])).
Proof.
  split; [reflexivity|]. split; [eexists; split; vm_compute; reflexivity|].
  vm_compute. split; reflexivity.
Qed.
