(* C31  Metering is deterministic and independent of execution history.
   PARTIAL: the model cannot predict the amounts the Go implementation meters; it states and proves the
   independence STRUCTURE (caches are memo tables of pure functions whose fill path reports nothing to the
   gauges).  That the real caches have this structure, and the amounts themselves, are observed by the
   correspondence leg (fresh process vs. arbitrary history, recorded gauge call sequences).
   Proofs are in C31/Proofs.v; the cache model is shared with C36 (C36/Memo.v). *)
From Coq Require Import ZArith List Bool.
From CV Require Import C36.Memo C36.Proofs C31.Model C31.Proofs.
Import ListNotations.
Open Scope Z_scope.

(* two runs of the same program on the same state, started with ANY two caches that are consistent with the
   memoised function, report the same sequence of (kind, amount) usages *)
Theorem C31_meter_trace_cache_independent_partial :
  forall (f : Z -> Z) (fill_cost : Z -> list event) p s c1 c2,
  consistent f c1 -> consistent f c2 ->
  trace (run f fill_cost false p s c1) = trace (run f fill_cost false p s c2).
Proof. exact meter_trace_cache_independent. Qed.
Print Assumptions C31_meter_trace_cache_independent_partial.

(* ... and also return the same value and leave the same state *)
Theorem C31_result_cache_independent :
  forall (f : Z -> Z) (fill_cost : Z -> list event) p s c1 c2,
  consistent f c1 -> consistent f c2 ->
  trace (run f fill_cost false p s c1) = trace (run f fill_cost false p s c2)
  /\ value (run f fill_cost false p s c1) = value (run f fill_cost false p s c2)
  /\ (forall a, final (run f fill_cost false p s c1) a = final (run f fill_cost false p s c2) a).
Proof. exact run_cache_independent. Qed.
Print Assumptions C31_result_cache_independent.

(* a run extends a consistent cache to a consistent cache *)
Theorem C31_run_keeps_cache_consistent :
  forall (f : Z -> Z) (fill_cost : Z -> list event) p s c,
  consistent f c -> consistent f (cache (run f fill_cost false p s c)).
Proof. exact run_keeps_consistent. Qed.
Print Assumptions C31_run_keeps_cache_consistent.

(* hence, by induction on the history: whatever programs (on whatever states) ran earlier in this process
   (h1) or in another one (h2; h2 = [] is the fresh process), the next run meters identically *)
Theorem C31_history_independent :
  forall (f : Z -> Z) (fill_cost : Z -> list event) h1 h2 p s,
  trace (run f fill_cost false p s (cache_after f fill_cost false h1 empty_table))
  = trace (run f fill_cost false p s (cache_after f fill_cost false h2 empty_table))
  /\ value (run f fill_cost false p s (cache_after f fill_cost false h1 empty_table))
     = value (run f fill_cost false p s (cache_after f fill_cost false h2 empty_table)).
Proof. exact meter_trace_history_independent. Qed.
Print Assumptions C31_history_independent.

(* the unmetered-fill discipline is necessary *)
Theorem C31_metered_fill_refuted : exists f fill_cost, ~ indep_statement f fill_cost true.
Proof. exact metered_fill_refuted. Qed.
Print Assumptions C31_metered_fill_refuted.

(* ------------------------------------------------------------------ non-vacuity *)
(* a program that looks up two small integers, meters an amount that depends on a cached value, reads and
   writes the state; run cold, warm, and after a history that warmed one of the two keys *)
Definition ex_f : Z -> Z := fun k => k * 3.
Definition ex_cost : Z -> list event := fun k => [(100, 8 + k)].
Definition ex_p : prog :=
  Meter 1 40 (Lookup 5 (fun a => Get 0 (fun x => Meter 2 (a + x) (Lookup 9 (fun b => Put 0 b (Meter 3 b (Done (a + b)))))))).
Definition ex_s : store := fun a => if Z.eqb a 0 then 11 else 0.
Definition ex_warm : table := upd (upd empty_table 5 15) 9 27.
Definition ex_hist : list (prog * store) := [(Lookup 9 (fun b => Done b), ex_s)].
Example C31_ex_hyps : consistent ex_f empty_table /\ consistent ex_f ex_warm.
Proof.
  split; [apply empty_consistent |].
  change 27 with (ex_f 9). apply upd_consistent. change 15 with (ex_f 5). apply upd_consistent.
  apply empty_consistent.
Qed.
Example C31_ex_runs :
  trace (run ex_f ex_cost false ex_p ex_s empty_table) = [(1, 40); (2, 26); (3, 27)]
  /\ trace (run ex_f ex_cost false ex_p ex_s ex_warm) = [(1, 40); (2, 26); (3, 27)]
  /\ trace (run ex_f ex_cost false ex_p ex_s (cache_after ex_f ex_cost false ex_hist empty_table))
     = [(1, 40); (2, 26); (3, 27)]
  /\ value (run ex_f ex_cost false ex_p ex_s empty_table) = 42
  /\ final (run ex_f ex_cost false ex_p ex_s ex_warm) 0 = 27
  /\ trace (run ex_f ex_cost true ex_p ex_s empty_table) = [(1, 40); (100, 13); (2, 26); (100, 17); (3, 27)]
  /\ trace (run ex_f ex_cost true ex_p ex_s ex_warm) = [(1, 40); (2, 26); (3, 27)].
Proof. vm_compute. repeat split. Qed.
