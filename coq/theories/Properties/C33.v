(* C33  Execution outcomes are deterministic  (PARTIAL: see props_meta/C33.json).
   Property theorems only; model in C33/Model.v, proofs in C33/Proofs.v.
   What is proved: the commit logic (sort dirty slabs by slab id, sort new account registers by
   address, apply encoded results in key order) makes the register writes independent of Go map
   iteration order and of the worker schedule; a small executor parameterised by an explicit
   nondeterminism oracle has oracle-independent outcomes.  That Go maps / the scheduler are the only
   sources of nondeterminism in the real runtime is observed (repeated runs), not proved. *)
From CV Require Import Base.Prelude C33.Model C33.Proofs.
From Coq Require Import Permutation.

(* whatever the iteration order of the dirty-slab map, commit writes the same registers in the same order *)
Theorem C33_commit_perm_invariant_partial :
  forall (Slab Bytes : Type) (enc : Slab -> Bytes) (d1 d2 : list ((Z * Z) * option Slab)),
  NoDup (map fst d1) -> Permutation d1 d2 ->
  commit Slab Bytes enc d1 = commit Slab Bytes enc d2.
Proof. exact commit_perm_invariant. Qed.
Print Assumptions C33_commit_perm_invariant_partial.

(* parallel encoding: any partition of the encoding jobs over workers and any arrival order of their
   results give exactly the writes of the sequential commit *)
Theorem C33_commit_worker_invariant_partial :
  forall (Slab Bytes : Type) (enc : Slab -> Bytes) (d : list ((Z * Z) * option Slab))
         (parts : list (list ((Z * Z) * option Slab))) (results : list ((Z * Z) * option Bytes)),
  NoDup (map fst d) ->
  Permutation (concat parts) (isort (owned Slab d)) ->
  Permutation results (concat (map (map (enc1 Slab Bytes enc)) parts)) ->
  fast_commit Slab Bytes d results = commit Slab Bytes enc d.
Proof. exact commit_worker_invariant. Qed.
Print Assumptions C33_commit_worker_invariant_partial.

(* new account storage registers *)
Theorem C33_acct_commit_perm_invariant_partial :
  forall m1 m2 : list ((Z * Z) * Z),
  NoDup (map fst m1) -> Permutation m1 m2 -> acct_commit m1 = acct_commit m2.
Proof. exact acct_commit_perm_invariant. Qed.
Print Assumptions C33_acct_commit_perm_invariant_partial.

(* independent of the sorting algorithm (Go's sort.Slice vs. the model's insertion sort): a sorted
   permutation of a list with distinct slab ids is unique *)
Theorem C33_sorted_order_unique_partial :
  forall (V : Type) (l1 l2 : list ((Z * Z) * V)),
  sorted l1 -> sorted l2 -> Permutation l1 l2 -> NoDup (map fst l1) -> l1 = l2.
Proof. intros V l1 l2. exact (sorted_perm_unique l1 l2). Qed.
Print Assumptions C33_sorted_order_unique_partial.

(* all observables of the model executor (success flag, events, logs, account register writes, slab
   register writes in order) are a function of the program alone: they do not depend on the oracle
   (map iteration orders, work partition, result interleaving) *)
Theorem C33_exec_oracle_independent_partial :
  forall (Slab Bytes Ev : Type) (enc : Slab -> Bytes) (o1 o2 : oracle) (p : list (effect Slab Ev)),
  exec Slab Bytes Ev enc o1 p = exec Slab Bytes Ev enc o2 p.
Proof. exact exec_oracle_independent. Qed.
Print Assumptions C33_exec_oracle_independent_partial.

(* ---- non-vacuity *)
Definition d_a : list ((Z * Z) * option Z) :=
  [((2, 7), Some 70); ((1, 9), None); ((0, 3), Some 1); ((2, 1), Some 21); ((1, 2), Some 12)].
Definition d_b : list ((Z * Z) * option Z) :=
  [((1, 2), Some 12); ((2, 1), Some 21); ((2, 7), Some 70); ((0, 3), Some 1); ((1, 9), None)].

Example C33_ex_commit :
  commit Z Z (fun x => x + 1000) d_a = [((1, 2), Some 1012); ((1, 9), None); ((2, 1), Some 1021); ((2, 7), Some 1070)]
  /\ commit Z Z (fun x => x + 1000) d_b = commit Z Z (fun x => x + 1000) d_a
  /\ fast_commit Z Z d_a [((2, 7), Some 1070); ((1, 2), Some 1012); ((2, 1), Some 1021); ((1, 9), None)]
     = commit Z Z (fun x => x + 1000) d_a.
Proof. vm_compute. repeat split. Qed.

(* without the sort the two iteration orders give different write sequences: the sort is what the theorem needs *)
Example C33_ex_unsorted_differs :
  map (enc1 Z Z (fun x => x + 1000)) (owned Z d_a) <> map (enc1 Z Z (fun x => x + 1000)) (owned Z d_b).
Proof. vm_compute. discriminate. Qed.

Example C33_ex_check_writes :
  check_writes [(0, 1, 0); (0, 3, 0); (1, 1, 4); (1, 1, 9); (1, 3, 1)] = true
  /\ check_writes [(0, 3, 0); (0, 1, 0); (1, 1, 4)] = false
  /\ check_writes [(0, 1, 0); (1, 3, 1); (1, 1, 9)] = false
  /\ check_writes [(1, 1, 4); (0, 1, 0)] = false
  /\ check_writes [(1, 1, 4); (1, 1, 4)] = false
  /\ check_tx_commits (1, [(1, 2, 4); (1, 2, 6); (0, 1, 0); (1, 1, 3); (1, 1, 8)]) = true
  /\ check_tx_commits (0, [(1, 2, 4); (1, 2, 6); (0, 1, 0); (1, 1, 3); (1, 1, 8)]) = false
  /\ check_tx_commits (1, [(1, 2, 6); (1, 2, 4); (1, 1, 8); (1, 1, 3)]) = false.
Proof. vm_compute. repeat split. Qed.
