(* C45  Type identity is preserved across representations.
   Property theorems only; model in C45/Model.v, proofs in C45/Proofs.v and C45/DecodeProofs.v. *)
From Coq Require Import ZArith List Bool.
From CV Require Import Base.Prelude C45.Model C45.Proofs C45.DecodeProofs.
Import ListNotations.
Open Scope Z_scope.

(* A type's ID is the same in the checker, in the run-time static-type representation and in the
   exported external representation: the three separately transcribed printers agree through the
   conversions, for every type. *)
Theorem C45_ids_coincide : forall t,
  id_static (to_static t) = id_sema t /\ id_cadence (export t) = id_sema t.
Proof. exact three_ids_coincide. Qed.
Print Assumptions C45_ids_coincide.

(* Converting a type from the checker to run-time form and back yields the same type, in every
   environment that knows the nominal types it mentions. *)
Theorem C45_static_roundtrip : forall E t, env_ok E t -> to_sema E (to_static t) = Some t.
Proof. exact to_sema_to_static. Qed.
Print Assumptions C45_static_roundtrip.

(* Exporting and importing again gives the static type (attachment and function types cannot be
   imported: ImportType panics on them, see known_findings/C45.json for attachments). *)
Theorem C45_export_import : forall t, importable t = true -> import (export t) = Ok (to_static t).
Proof. exact import_export. Qed.
Print Assumptions C45_export_import.

(* A type ID decodes to the location and qualified identifier it was built from: full statement ... *)
Definition C45_decode_statement := decode_statement.
(* ... refuted: a string / identifier location containing a dot (the file name "foo.cdc") ... *)
Theorem C45_decode_refuted :
  decode_type_id (encode_type_id (LString foo_cdc) [67]) = Ok (LString [102; 111; 111], [99; 100; 99; 46; 67])
  /\ ~ C45_decode_statement.
Proof. exact decode_refuted. Qed.
Print Assumptions C45_decode_refuted.
(* ... and true for every location kind under wf_loc: 8-byte addresses and 32-byte transaction /
   script IDs, string / identifier locations without a dot, the contract name of an address location
   equal to the first identifier (the name is not part of the ID), and identifiers without location
   not starting with a location prefix. *)
Theorem C45_decode_partial : forall l qid, wf_loc l qid -> decode_type_id (encode_type_id l qid) = Ok (l, qid).
Proof. exact decode_encode. Qed.
Print Assumptions C45_decode_partial.

(* The run-time type constructors build exactly the static types of the corresponding types. *)
Theorem C45_constructors :
  (forall t, mk_optional (to_static t) = to_static (SOpt t))
  /\ (forall t, mk_variable_array (to_static t) = to_static (SVar t))
  /\ (forall t n, mk_constant_array (to_static t) n = to_static (SConst t n))
  /\ (forall k v, mk_dictionary (to_static k) (to_static v) = to_static (SDict k v))
  /\ (forall t, mk_reference [] (to_static t) = to_static (SRef SUnauth t))
  /\ (forall e ents t, mk_reference (map nom_id (e :: ents)) (to_static t) = to_static (SRef (SSet true (e :: ents)) t))
  /\ (forall ifaces, mk_intersection ifaces = to_static (SInter ifaces))
  /\ (forall t, mk_capability (to_static t) = to_static (SCap (Some t)))
  /\ (forall t, mk_inclusive_range (to_static t) = to_static (SRange t)).
Proof. exact constructors_build_static. Qed.
Print Assumptions C45_constructors.

(* non-vacuity *)
Definition exE : nominal := {| n_loc := LAddress [0;0;0;0;0;0;0;1] [67]; n_qid := [67; 46; 69] |}.   (* A.0000000000000001.C.E *)
Definition exF : nominal := {| n_loc := LAddress [0;0;0;0;0;0;0;1] [67]; n_qid := [67; 46; 70] |}.
Definition exI : nominal := {| n_loc := LString [120]; n_qid := [73] |}.                               (* S.x.I *)
Definition exT : sty :=
  SOpt (SRef (SSet true [exF; exE]) (SDict (SPrim [73; 110; 116]) (SInter [(KStruct, exI)]))).
Example C45_ex_id :
  id_sema exT = [40; 97;117;116;104;40; 65;46;48;48;48;48;48;48;48;48;48;48;48;48;48;48;48;49;46;67;46;69; 44;
                 65;46;48;48;48;48;48;48;48;48;48;48;48;48;48;48;48;49;46;67;46;70; 41; 38;
                 123; 73;110;116; 58; 123; 83;46;120;46;73; 125; 125; 41; 63]
  /\ id_static (to_static exT) = id_sema exT /\ id_cadence (export exT) = id_sema exT
  /\ import (export exT) = Ok (to_static exT)
  /\ decode_type_id (nom_id exE) = Ok (n_loc exE, n_qid exE)
  /\ decode_type_id (nom_id exI) = Ok (n_loc exI, n_qid exI).
Proof. vm_compute. repeat split. Qed.
Example C45_ex_env :
  let E := {| comp_kind_of := fun _ _ => None;
              iface_kind_of := fun l q => if str_eqb q [73] then Some KStruct else None;
              ent_exists := fun _ _ => true; map_exists := fun _ _ => false |} in
  to_sema E (to_static exT) = Some exT.
Proof. vm_compute. reflexivity. Qed.
