(* C23  Committed storage is always healthy.
   Property theorems only; model in C23/Model.v, proofs in C23/Proofs.v. *)
From CV Require Import C23.Model C23.Proofs C23.Cases.

(* After every transaction (committed or aborted) of EVERY history of storage operations
   (save, load+destroy, move between paths/accounts, copy, overwrite / insert / remove of nested
   children through references with the displaced value destroyed, saved elsewhere or inserted into
   another stored container, aborts) the slab graph is healthy: storage paths and root slabs are
   unique, every root and child reference resolves, no slab has two parents, and every allocated
   slab is reachable from exactly one root. *)
Theorem C23_healthy_after_every_tx : forall h : list (list op),
  Forall healthy (trace NoFault init h).
Proof. exact healthy_after_every_tx. Qed.
Print Assumptions C23_healthy_after_every_tx.

Theorem C23_healthy_final : forall h : list (list op), healthy (run NoFault init h).
Proof. exact healthy_final. Qed.
Print Assumptions C23_healthy_final.

(* step form: from any state satisfying the invariant, any transaction preserves it, and the
   invariant implies health *)
Theorem C23_step_preserves : forall st tx,
  wf st -> wf (snd (exec_tx NoFault st tx)) /\ healthy (snd (exec_tx NoFault st tx)).
Proof. exact healthy_step. Qed.
Print Assumptions C23_step_preserves.

(* an aborted transaction discards everything it did *)
Theorem C23_abort_discards : forall ft st tx,
  fst (exec_tx ft st tx) = false -> snd (exec_tx ft st tx) = st.
Proof. exact abort_discards. Qed.
Print Assumptions C23_abort_discards.

(* the health specification really excludes leaks: a state with an allocated, unreferenced slab is not healthy *)
Theorem C23_leak_is_unhealthy : forall st, all_referred_b st = false -> ~ healthy st.
Proof. exact leak_refutes_health. Qed.
Print Assumptions C23_leak_is_unhealthy.

(* composite value (id, pad, arr, dict) *)
Definition R (i pad : Z) (arr : list shape) (dict : list (Z * shape)) : shape :=
  Sh i [(0, Sh pad []); (1, Sh 0 (map (fun s => (0, s)) arr)); (2, Sh 0 dict)].

(* ---- contract updates (account.contracts.add / remove): the code-shaped model of the recorded-update map.
   The full statement is FALSE for the transcribed code (known finding): *)
Definition C23_full_statement_with_contracts : Prop :=
  forall h : list (list cop), Forall healthy (trace_c NoFault init h).

(* witness: one transaction adds a contract and removes it again; it commits and leaves the contract value's
   slab allocated and referenced by nothing *)
Theorem C23_contract_add_remove_refuted :
  exists h : list (list cop), fst (exec_ctx NoFault init (hd [] h)) = true /\ ~ healthy (run_c NoFault init h).
Proof.
  exists [[CAdd (2, 1001) (Sh 3 [(0, Sh 0 [])]); CRemove (2, 1001)]].
  split; [vm_compute; reflexivity|]. apply leak_refutes_health. vm_compute. reflexivity.
Qed.
Print Assumptions C23_contract_add_remove_refuted.

Theorem C23_full_statement_with_contracts_refuted : ~ C23_full_statement_with_contracts.
Proof.
  intros H. specialize (H [[CAdd (2, 1001) (Sh 3 [(0, Sh 0 [])]); CRemove (2, 1001)]]).
  inversion H as [|? ? H1 _]; subst. revert H1. apply leak_refutes_health. vm_compute. reflexivity.
Qed.
Print Assumptions C23_full_statement_with_contracts_refuted.

(* second defect of the transcribed code (known finding): a reference to a struct's array field is kept,
   the field is overwritten (the old array is deep-removed), then the stale reference is used to append:
   the removed slab is stored again and nothing references it.  Slab 2 is the arr field of the value saved
   first; OPut ... (Pos 1) replaces the whole field. *)
Theorem C23_stale_reference_refuted :
  exists tx1 tx2 : list cop,
    let st1 := snd (exec_ctx NoFault init tx1) in
    fst (exec_ctx NoFault init tx1) = true /\ fst (exec_ctx NoFault st1 tx2) = true
    /\ healthy st1 /\ ~ healthy (run_c NoFault init [tx1; tx2]).
Proof.
  exists [CStorage (OSave (1, 0) (R 1 0 [R 2 0 [] []] []))].
  exists [CStorage (OPut false (1, 0) [] (Pos 1) (Sh 0 [(0, R 4 0 [] [])]) DDestroy); CStale 2 (R 5 0 [] [])].
  cbv zeta. split; [vm_compute; reflexivity|]. split; [vm_compute; reflexivity|]. split.
  - pose proof (healthy_with_contracts [[CStorage (OSave (1, 0) (R 1 0 [R 2 0 [] []] []))]]) as H.
    assert (G : Forall (fun tx => no_add_remove [] tx = true) [[CStorage (OSave (1, 0) (R 1 0 [R 2 0 [] []] []))]])
      by (constructor; [reflexivity|constructor]).
    specialize (H G). inversion H; subst. assumption.
  - apply leak_refutes_health. vm_compute. reflexivity.
Qed.
Print Assumptions C23_stale_reference_refuted.

(* under the exact guard excluding the defects (no transaction removes a contract it added itself; no mutation
   through a retained container reference) every
   history of storage operations, contract additions and contract removals keeps storage healthy *)
Theorem C23_healthy_with_contracts_partial : forall h : list (list cop),
  Forall (fun tx => no_add_remove [] tx = true) h -> Forall healthy (trace_c NoFault init h).
Proof. exact healthy_with_contracts. Qed.
Print Assumptions C23_healthy_with_contracts_partial.

(* the contract layer does not change the meaning of storage-only transactions *)
Theorem C23_storage_only_embedding : forall ft st os, exec_ctx ft st (map CStorage os) = exec_tx ft st os.
Proof. exact exec_ctx_storage. Qed.
Print Assumptions C23_storage_only_embedding.

(* ---- non-vacuity: concrete histories *)

Definition h1 : list (list op) :=
  [ [OSave (1, 1) (R 1 600 [R 2 700 [] []; R 3 10 [] []] [(5, R 4 900 [] [(7, R 8 0 [] [])])])];
    [OPut false (1, 1) [Pos 2] (Key 5) (R 9 1000 [] []) (DSave (2, 1))];       (* overwrite dict value, old one moved to account 2 *)
    [OPut false (1, 1) [Pos 1] (Pos 0) (R 10 0 [] []) DDestroy; OFail];         (* aborted *)
    [ODel (1, 1) [Pos 1] (Pos 1) (DInsert (2, 1) [Pos 2; Key 7; Pos 1] (Pos 0))]; (* move array element into a nested array elsewhere *)
    [OCopy (2, 1) (1, 2)];
    [ORemove (1, 1) DDestroy] ].

Example C23_ex_history :
  map fst (dump (run NoFault init h1)) = [(1, 2); (2, 1)]
  /\ length (slabs (run NoFault init h1)) = 24%nat
  /\ map (fun st => length (slabs st)) (trace NoFault init h1) = [20; 24; 24; 24; 36; 24]%nat
  /\ all_referred_b (run NoFault init h1) = true.
Proof. vm_compute. repeat split. Qed.

(* the same histories under each seeded fault leave an unreferenced slab: the invariant fails *)
Example C23_leak_overwrite : ~ healthy (run LeakOverwrite init h1).
Proof. apply leak_refutes_health. vm_compute. reflexivity. Qed.
Example C23_leak_transfer : ~ healthy (run LeakTransfer init h1).
Proof. apply leak_refutes_health. vm_compute. reflexivity. Qed.
Example C23_shallow_destroy : ~ healthy (run ShallowDestroy init h1).
Proof. apply leak_refutes_health. vm_compute. reflexivity. Qed.
Example C23_keep_root_slab : ~ healthy (run KeepRootSlab init h1).
Proof. apply leak_refutes_health. vm_compute. reflexivity. Qed.

(* contracts: deploy, redeploy after removal in another transaction, storage work in between: guard holds, healthy *)
Definition h2 : list (list cop) :=
  [ [CAdd (1, 1000) (Sh 6 [(0, Sh 0 [(0, Sh 1 []); (0, Sh 2 [])])]); CStorage (OSave (1, 1) (R 1 600 [R 2 700 [] []] []))];
    [CAdd (1, 1000) (Sh 2 [])];                                  (* already deployed: aborts *)
    [CRemove (1, 1000); CStorage (ORemove (1, 1) (DSave (2, 2)))];
    [CAdd (1, 1000) (Sh 5 [(0, Sh 0 [])]); CAdd (2, 1000) (Sh 1 [])];
    [CRemove (3, 1000)] ].

Example C23_ex_contracts :
  forallb (no_add_remove []) h2 = true
  /\ map (fun st => length (slabs st)) (trace_c NoFault init h2) = [12; 12; 8; 11; 11]%nat
  /\ all_referred_b (run_c NoFault init h2) = true.
Proof. vm_compute. repeat split. Qed.
