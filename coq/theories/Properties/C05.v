(* C05  Non-resource values have copy semantics.
   Property theorems only; proofs are in C05/Proofs.v, the model in C05/Model.v. *)
From CV Require Import C05.Model C05.Proofs C05.Cases.
Local Open Scope nat_scope.

(* Every transfer goes through [copy]: the copy has only fresh identities ... *)
Theorem C05_copy_fresh : forall n v v' n',
  copy n v = (v', n') -> n <= n' /\ (forall i, In i (ids v') -> n <= i < n').
Proof. exact copy_fresh. Qed.
Print Assumptions C05_copy_fresh.

(* ... hence shares no container with the original, at any nesting depth ... *)
Theorem C05_copy_disjoint : forall n v,
  (forall i, In i (ids v) -> i < n) ->
  forall i, In i (ids (fst (copy n v))) -> ~ In i (ids v).
Proof. exact copy_disjoint. Qed.
Print Assumptions C05_copy_disjoint.

(* ... and reads the same as the original. *)
Theorem C05_copy_reads_same : forall v n, erase (fst (copy n v)) = erase v.
Proof. exact copy_erase. Qed.
Print Assumptions C05_copy_reads_same.

(* Frame lemma: a mutation at a container identity does not change a value that does not
   contain that identity. *)
Theorem C05_frame : forall i t v, ~ In i (ids v) -> subst_id i t v = v.
Proof. exact subst_frame. Qed.
Print Assumptions C05_frame.

(* In every reachable state of every program (assignments, mutations at any depth directly or
   through references, references, storage save/load/copy, calls with copied arguments,
   transaction boundaries), distinct variables and storage slots own disjoint identities. *)
Theorem C05_invariant : forall prog st st' obs,
  inv st -> run st prog = Some (st', obs) -> inv st'.
Proof. exact run_inv. Qed.
Print Assumptions C05_invariant.

Theorem C05_invariant_initially : inv empty_store.
Proof. exact inv_empty. Qed.
Print Assumptions C05_invariant_initially.

(* A transfer  k := rt.p  yields a value that reads the same, shares nothing with any place of the
   store, and re-establishes the invariant. *)
Theorem C05_assign_copies : forall st k rt p st' obs src,
  inv st -> read st rt p = Some src ->
  exec st (SAssign k (EPart (PRead rt p))) = Some (st', obs) ->
  exists t, lookup (ents st') k = Some t /\ erase t = erase src /\
            (forall i, In i (ids t) -> next st <= i) /\
            (forall k0 v0, In (k0, v0) (ents st) -> forall i, In i (ids t) -> ~ In i (ids v0)) /\
            inv st'.
Proof. exact assign_copies. Qed.
Print Assumptions C05_assign_copies.

(* copy_independent: for ANY sequence of mutations applied through one place e (a variable or a
   storage slot) — directly at any path, or through references into e, including references
   taken during the sequence — every other variable and storage slot keeps its value, so every
   read through another copy, at any nesting depth, returns what it returned before. *)
Theorem C05_copy_independent : forall st0 e R,
  inv st0 ->
  (forall r i, In r R -> lookup_ref (refs st0) r = Some i -> mine st0 e i) ->
  forall ms st' obs,
  Forall (through e R) ms -> run st0 ms = Some (st', obs) ->
  forall k, k <> e ->
    lookup (ents st') k = lookup (ents st0) k /\
    (forall p, read st' (RKey k) p = read st0 (RKey k) p).
Proof. exact independent. Qed.
Print Assumptions C05_copy_independent.

(* storage: mutating a variable (e.g. one that was saved, or one copied/loaded from storage)
   never changes a stored value *)
Theorem C05_storage_copy_independent : forall st0 s y ms st' obs,
  inv st0 -> (forall r i, In r [] -> lookup_ref (refs st0) r = Some i -> mine st0 (KVar y) i) ->
  Forall (through (KVar y) []) ms -> run st0 ms = Some (st', obs) ->
  lookup (ents st') (KSlot s) = lookup (ents st0) (KSlot s).
Proof. exact storage_copy_independent. Qed.
Print Assumptions C05_storage_copy_independent.

(* save / mutate / end of transaction / copy out / mutate: storage still reads as what was saved *)
Theorem C05_storage_roundtrip_independent : forall st0 x p s y src R1 R2 ms1 ms2 st' obs,
  inv st0 ->
  read st0 (RKey (KVar x)) p = Some src ->
  (forall r, In r R1 -> lookup_ref (refs st0) r = None) ->
  Forall (through (KVar x) R1) ms1 -> Forall (through (KVar y) R2) ms2 ->
  run st0 ([SAssign (KSlot s) (EPart (PRead (RKey (KVar x)) p))] ++ ms1 ++ [SEndTx] ++
           [SAssign (KVar y) (EPart (PRead (RKey (KSlot s)) []))] ++ ms2) = Some (st', obs) ->
  exists t, lookup (ents st') (KSlot s) = Some t /\ erase t = erase src.
Proof. exact storage_roundtrip_independent. Qed.
Print Assumptions C05_storage_roundtrip_independent.

Theorem C05_end_tx_keeps_storage : forall st st' obs s,
  exec st SEndTx = Some (st', obs) ->
  lookup (ents st') (KSlot s) = lookup (ents st) (KSlot s) /\ refs st' = [] /\
  (forall x, lookup (ents st') (KVar x) = None).
Proof. exact end_tx_keeps_storage. Qed.
Print Assumptions C05_end_tx_keeps_storage.

(* ------------------------------------------------------------------ non-vacuity *)
Local Open Scope Z_scope.
(* x = [[1],[2]]; y = x; r = &y[0]; r.append(9); y[1][0] = 7; save y; end tx; z = copy of slot; z[0].append(5) *)
Example C05_ex_program :
  option_map snd (run empty_store
    [ SAssign (KVar 0) (EPart (PLit (arr [ints [1]; ints [2]])));
      SAssign (KVar 1) (EPart (PRead (RKey (KVar 0)) []));
      STakeRef 0 (RKey (KVar 1)) [0];
      SMutate (RRef 0) [] (EAppend (EPart (PLit (TPrim 9))));
      SMutate (RKey (KVar 1)) [1] (ESet 0 (EPart (PLit (TPrim 7))));
      SObs (RKey (KVar 0)) []; SObs (RKey (KVar 1)) [];
      SAssign (KSlot 0) (EPart (PRead (RKey (KVar 1)) []));
      SMutate (RKey (KVar 1)) [] (ERemove 0);
      SEndTx;
      SAssign (KVar 2) (EPart (PRead (RKey (KSlot 0)) []));
      SMutate (RKey (KVar 2)) [0] (EAppend (EPart (PLit (TPrim 5))));
      SObs (RKey (KVar 2)) []; SObs (RKey (KSlot 0)) [] ])
  = Some [ arr [ints [1]; ints [2]]; arr [ints [1; 9]; ints [7]];
           arr [ints [1; 9; 5]; ints [7]]; arr [ints [1; 9]; ints [7]] ].
Proof. vm_compute. reflexivity. Qed.

(* the model can express aliasing: a store that violates the invariant (two variables sharing
   identity 5) shows a mutation through one variable in the other — this is what the invariant,
   and the theorems above, exclude for reachable states *)
Example C05_ex_aliasing_is_expressible :
  let shared := TNode 5%nat KArr [(0, TPrim 1)] in
  let st := {| ents := [(KVar 0, shared); (KVar 1, shared)]; refs := []; next := 6%nat |} in
  option_map snd (run st [ SMutate (RKey (KVar 0)) [] (EAppend (EPart (PLit (TPrim 2))));
                           SObs (RKey (KVar 1)) [] ])
  = Some [ ints [1; 2] ].
Proof. vm_compute. reflexivity. Qed.

Example C05_ex_through :
  Forall (through (KVar 1) [0%nat])
    [ STakeRef 0 (RKey (KVar 1)) [0];
      SMutate (RRef 0) [] (EAppend (EPart (PLit (TPrim 9))));
      SMutate (RKey (KVar 1)) [1] (ESet 0 (EPart (PRead (RKey (KVar 0)) [0; 0]))) ].
Proof. repeat constructor. Qed.
