(* C15  Fixed-point arithmetic is exact at the type's scale.
   Property theorems only; proofs are in C15/Proofs64.v and C15/ProofsLib.v.
   Model: C15/Model.v. Fix64 and UFix64 (+ - * / % negate, saturating variants) are code inside /repo
   and are transcribed; their theorems carry no assumption. Fix128 / UFix128 arithmetic and
   multiplyDivide of all four types call github.com/onflow/fixed-point (outside /repo): the Cadence
   wrappers and error mappings are transcribed, the library functions are universally quantified
   and constrained by the hypothesis lib_as_assumed (they compute the rounded exact result and flag
   overflow / underflow / division by zero) -- for those operations the correspondence run is the
   only tie to the code. The library has a known division defect on a narrow input class
   (fmd_edge: quotient whose low 64-bit word is 2^64-2, divisor not reducible to 64 bits), which the
   hypothesis and therefore the theorems about / , saturatingDivide and multiplyDivide of the 128-bit
   types exclude (C15_lib_division_edge_witness records an observed instance). Also covers the fixed-point part of C13 (theorems C15_sat_fix64, C15_sat_ufix64, C15_sat_all). *)
From CV Require Import C15.Model C15.Proofs64 C15.ProofsLib C15.Cases.

(* ---- Fix64 / UFix64: + - * /, all operands, no assumption ---- *)
Theorem C15_fix64_arith_exact_or_fails : forall op a b,
  n_in_range NFix64 a -> n_in_range NFix64 b ->
  fix64_arith op a b = spec_arith NFix64 op a b.
Proof. exact fix64_arith_correct. Qed.
Print Assumptions C15_fix64_arith_exact_or_fails.

Theorem C15_ufix64_arith_exact_or_fails : forall op a b,
  n_in_range NUFix64 a -> n_in_range NUFix64 b ->
  ufix64_arith op a b = spec_arith NUFix64 op a b.
Proof. exact ufix64_arith_correct. Qed.
Print Assumptions C15_ufix64_arith_exact_or_fails.

(* % of the 64-bit types: a - trunc(a/b)*b, failing exactly when b = 0 (DivZero) or the quotient is
   out of range (with the quotient's error) *)
Theorem C15_fix64_mod : forall a b,
  n_in_range NFix64 a -> n_in_range NFix64 b -> fix64_mod a b = mod_strict NFix64 a b.
Proof. exact fix64_mod_correct. Qed.
Print Assumptions C15_fix64_mod.

Theorem C15_ufix64_mod : forall a b,
  n_in_range NUFix64 a -> n_in_range NUFix64 b -> ufix64_mod a b = mod_strict NUFix64 a b.
Proof. exact ufix64_mod_correct. Qed.
Print Assumptions C15_ufix64_mod.

Theorem C15_fix64_negate : forall a, n_in_range NFix64 a -> fix64_neg a = spec_neg NFix64 a.
Proof. exact fix64_neg_correct. Qed.
Print Assumptions C15_fix64_negate.

(* saturating functions of the 64-bit types (fixed-point part of C13) *)
Theorem C15_sat_fix64 : forall op a b,
  n_in_range NFix64 a -> n_in_range NFix64 b -> fix64_sat op a b = spec_sat NFix64 op a b.
Proof. exact fix64_sat_correct. Qed.
Print Assumptions C15_sat_fix64.

Theorem C15_sat_ufix64 : forall op a b,
  sat_declared NUFix64 op = true -> n_in_range NUFix64 a -> n_in_range NUFix64 b ->
  ufix64_sat op a b = spec_sat NUFix64 op a b.
Proof. exact ufix64_sat_correct. Qed.
Print Assumptions C15_sat_ufix64.

(* ---- all four types, library as assumed ---- *)
Theorem C15_arith_exact_or_fails : forall lib_fmd lib_add lib_sub lib_mod lib_neg,
  lib_as_assumed lib_fmd lib_add lib_sub lib_mod lib_neg ->
  forall k op a b, is_fixed k = true -> n_in_range k a -> n_in_range k b -> ~ div_edge k op a b ->
  arith_model lib_fmd lib_add lib_sub k op a b = spec_arith k op a b.
Proof. exact arith_model_correct. Qed.
Print Assumptions C15_arith_exact_or_fails.

Theorem C15_mod_allowed : forall lib_fmd lib_add lib_sub lib_mod lib_neg,
  lib_as_assumed lib_fmd lib_add lib_sub lib_mod lib_neg ->
  forall k a b, is_fixed k = true -> n_in_range k a -> n_in_range k b ->
  spec_mod_allowed k a b (mod_model lib_mod k a b).
Proof. exact mod_model_allowed. Qed.
Print Assumptions C15_mod_allowed.

(* exactly when % fails: Fix64/UFix64 as above, Fix128/UFix128 only for a zero divisor *)
Theorem C15_mod_exact : forall lib_fmd lib_add lib_sub lib_mod lib_neg,
  lib_as_assumed lib_fmd lib_add lib_sub lib_mod lib_neg ->
  forall k a b, is_fixed k = true -> n_in_range k a -> n_in_range k b ->
  mod_model lib_mod k a b =
    match k with
    | NFix64 | NUFix64 => mod_strict k a b
    | _ => if b =? 0 then Err DivZero else Ok (Z.rem a b)
    end.
Proof. exact mod_model_exact. Qed.
Print Assumptions C15_mod_exact.

Theorem C15_multiply_divide : forall lib_fmd lib_add lib_sub lib_mod lib_neg,
  lib_as_assumed lib_fmd lib_add lib_sub lib_mod lib_neg ->
  forall k m a b c, is_fixed k = true -> n_in_range k a -> n_in_range k b -> n_in_range k c ->
  ~ fmd_edge k a b c ->
  muldiv_model lib_fmd k m a b c = spec_muldiv k m a b c.
Proof. exact muldiv_correct. Qed.
Print Assumptions C15_multiply_divide.

Theorem C15_sat_all : forall lib_fmd lib_add lib_sub lib_mod lib_neg,
  lib_as_assumed lib_fmd lib_add lib_sub lib_mod lib_neg ->
  forall k op a b, is_fixed k = true -> sat_declared k op = true -> n_in_range k a -> n_in_range k b ->
  ~ div_edge k op a b ->
  sat_model lib_fmd lib_add lib_sub k op a b = spec_sat k op a b.
Proof. exact sat_model_correct. Qed.
Print Assumptions C15_sat_all.

(* the guard div_edge concerns only / of Fix128 and UFix128 (never + - *, never the 64-bit types) *)
Theorem C15_division_edge_scope : forall k op a b,
  div_edge k op a b -> (k = NFix128 \/ k = NUFix128) /\ op = FDiv.
Proof. exact div_edge_only_128_div. Qed.
Print Assumptions C15_division_edge_scope.

(* the full statements (no guard) -- false for the real library, see the witness below *)
Definition C15_division_statement : Prop :=
  forall lib_fmd lib_add lib_sub lib_mod lib_neg,
  lib_as_assumed lib_fmd lib_add lib_sub lib_mod lib_neg ->
  forall k a b, is_fixed k = true -> n_in_range k a -> n_in_range k b ->
  arith_model lib_fmd lib_add lib_sub k FDiv a b = spec_arith k FDiv a b.

(* An instance of the excluded class, observed on the real code on every run of the check
   (known finding fix128-division-edge): UFix128 52.572240717353133641610668 / 2849946.879909258078115628637149
   returns 0.000018446744073709551615; the property requires the truncated quotient ...614.
   The input lies in fmd_edge's arithmetic condition: the truncated quotient is 2^64 - 2. *)
Theorem C15_lib_division_edge_witness :
  spec_arith NUFix128 FDiv 52572240717353133641610668 2849946879909258078115628637149 = Ok 18446744073709551614 /\
  (Z.abs (52572240717353133641610668 * scale NUFix128) / Z.abs 2849946879909258078115628637149) mod 2 ^ 64 = 2 ^ 64 - 2.
Proof. vm_compute. split; reflexivity. Qed.
Print Assumptions C15_lib_division_edge_witness.

(* unary minus: exact-or-fail, except that -(Fix128.min) fails with an UNDERFLOW error although the
   exact result lies above the maximum *)
Definition C15_negate_statement : Prop :=
  forall lib_fmd lib_add lib_sub lib_mod lib_neg,
  lib_as_assumed lib_fmd lib_add lib_sub lib_mod lib_neg ->
  forall k a, is_signed_fixed k = true -> n_in_range k a -> neg_model lib_neg k a = spec_neg k a.

Theorem C15_negate_partial : forall lib_fmd lib_add lib_sub lib_mod lib_neg,
  lib_as_assumed lib_fmd lib_add lib_sub lib_mod lib_neg ->
  forall k a, (k = NFix64 \/ (k = NFix128 /\ a <> - 2 ^ 127)) -> n_in_range k a ->
  neg_model lib_neg k a = spec_neg k a.
Proof. exact neg_model_partial. Qed.
Print Assumptions C15_negate_partial.

Theorem C15_negate_fix128_min_refuted : forall lib_fmd lib_add lib_sub lib_mod lib_neg,
  lib_as_assumed lib_fmd lib_add lib_sub lib_mod lib_neg ->
  fix128_neg lib_neg (- 2 ^ 127) = Err Underflow /\ spec_neg NFix128 (- 2 ^ 127) = Err Overflow.
Proof. exact fix128_neg_min_refuted. Qed.
Print Assumptions C15_negate_fix128_min_refuted.

(* the hypothesis about the library is satisfiable (by the behaviour it describes) *)
Theorem C15_library_assumption_consistent :
  lib_as_assumed fmd_behaviour add_behaviour sub_behaviour mod_behaviour neg_behaviour.
Proof. exact assumed_behaviour_satisfies. Qed.
Print Assumptions C15_library_assumption_consistent.

(* ---- meaning of the specification ---- *)
Theorem C15_ok_is_truncated_exact : forall k op a b z,
  spec_arith k op a b = Ok z -> n_in_range k z /\ z = exact_fix k op a b.
Proof. exact spec_arith_sound. Qed.
Print Assumptions C15_ok_is_truncated_exact.

Theorem C15_errors_classified : forall k op a b e,
  spec_arith k op a b = Err e ->
  (e = DivZero /\ b = 0 /\ op = FDiv) \/
  (e = Overflow /\ exists M, nmax k = Some M /\ exact_fix k op a b > M) \/
  (e = Underflow /\ exists m, nmin k = Some m /\ exact_fix k op a b < m).
Proof. exact spec_arith_errors. Qed.
Print Assumptions C15_errors_classified.

(* the truncated product lies within one unit of the exact product, on the side of zero *)
Theorem C15_product_truncated_toward_zero : forall k a b,
  0 < scale k ->
  let r := exact_fix k FMul a b in
  Z.abs (r * scale k) <= Z.abs (a * b) < Z.abs (r * scale k) + scale k.
Proof. exact exact_fix_mul_truncates. Qed.
Print Assumptions C15_product_truncated_toward_zero.

(* non-vacuity (the library-backed operations instantiated with the assumed behaviour) *)
Example C15_ex :
  fix64_arith FMul (-150000000) 50000001 = Ok (-75000001) /\            (* -1.5 * 0.50000001 = -0.750000015 -> -0.75000001 *)
  fix64_arith FMul 9223372036854775807 100000001 = Err Overflow /\
  fix64_arith FMul (-9223372036854775808) 100000001 = Err Underflow /\
  fix64_arith FDiv (-100000000) 300000000 = Ok (-33333333) /\
  fix64_arith FDiv 100000000 0 = Err DivZero /\
  fix64_arith FDiv (-9223372036854775808) (-100000000) = Err Overflow /\
  fix64_mod (-700000000) 200000000 = Ok (-100000000) /\
  fix64_mod 9223372036854775807 1 = Err Overflow /\
  ufix64_arith FSub 1 2 = Err Underflow /\
  ufix64_arith FMul 18446744073709551615 100000000 = Ok 18446744073709551615 /\
  ufix64_arith FMul 18446744073709551615 100000001 = Err Overflow /\
  fix64_sat FSub (-9223372036854775808) 1 = Ok (-9223372036854775808) /\
  fix64_sat FMul (-9223372036854775808) (-100000001) = Ok 9223372036854775807 /\
  ufix64_sat FSub 1 2 = Ok 0 /\
  arith_inst NFix128 FMul (-1500000000000000000000000) 500000000000000000000001 = Ok (-750000000000000000000001) /\
  arith_inst NFix128 FDiv 1 (2 * e24) = Ok 0 /\
  arith_inst NUFix128 FSub 1 2 = Err Underflow /\
  arith_inst NFix128 FAdd (2 ^ 127 - 1) 1 = Err Overflow /\
  sat_inst NFix128 FAdd (2 ^ 127 - 1) 1 = Ok (2 ^ 127 - 1) /\
  sat_inst NUFix128 FSub 1 2 = Ok 0 /\
  mod_inst NFix128 (-7 * e24) (2 * e24) = Ok (- e24) /\
  mod_inst NFix128 (2 ^ 127 - 1) 1 = Ok 0 /\
  muldiv_inst NFix64 RTowardZero 1000000000 1000000000 300000000 = Ok 3333333333 /\
  muldiv_inst NFix64 RAwayFromZero 1000000000 1000000000 300000000 = Ok 3333333334 /\
  muldiv_inst NFix64 RNearestHalfEven 5 1 2 = Ok 2 /\
  muldiv_inst NFix64 RNearestHalfAway (-5) 1 2 = Ok (-3) /\
  muldiv_inst NFix64 RNearestHalfEven 5 1 (-2) = Ok (-2) /\
  muldiv_inst NUFix64 RTowardZero 1 1 0 = Err DivZero /\
  muldiv_inst NUFix128 RAwayFromZero 1 1 (2 ^ 128 - 1) = Ok 1 /\
  muldiv_inst NUFix128 RTowardZero 1 1 (2 ^ 128 - 1) = Ok 0 /\
  neg_inst NFix128 (- 2 ^ 127) = Err Underflow /\
  neg_inst NFix64 (- 2 ^ 63) = Err Overflow.
Proof. vm_compute. repeat split. Qed.
