(* C32  Big-integer memory metering never under-reports.
   Property theorems only; proofs are in Num/MeterProofs{,2,3}.v.
   [never_underreports o] is the full statement for operation o: for all operands the operation accepts
   (word lengths below 2^24), 8 * len(result.Bits()) <= the amount metered by the estimator. *)
From CV Require Import Num.MeterModel Num.MeterProofs Num.MeterProofs2 Num.MeterProofs3.

Theorem C32_plus : never_underreports MPlus.   Proof. exact plus_ok. Qed.
Theorem C32_minus : never_underreports MMinus. Proof. exact minus_ok. Qed.
Theorem C32_mul : never_underreports MMul.     Proof. exact mul_ok. Qed.
Theorem C32_div : never_underreports MDiv.     Proof. exact div_ok. Qed.
Theorem C32_neg : never_underreports MNeg.     Proof. exact neg_ok. Qed.
Theorem C32_shl : never_underreports MShl.     Proof. exact shl_ok. Qed.
Theorem C32_or_xor_and : never_underreports MOr /\ never_underreports MXor /\ never_underreports MAnd.
Proof. exact or_xor_and_ok. Qed.
Print Assumptions C32_plus. Print Assumptions C32_minus. Print Assumptions C32_mul.
Print Assumptions C32_div. Print Assumptions C32_neg. Print Assumptions C32_shl.
Print Assumptions C32_or_xor_and.

(* The full statement is FALSE of the faithful model for % and >> (genuine defects of the pinned
   tree, see known_findings/C32.json): witnesses by computation ... *)
Theorem C32_mod_refuted : ~ never_underreports MMod.
Proof. exact mod_refuted. Qed.
Print Assumptions C32_mod_refuted.
Theorem C32_shr_refuted : ~ never_underreports MShr.
Proof. exact shr_refuted. Qed.
Print Assumptions C32_shr_refuted.

(* ... and what does hold: % outside the middle estimator branch (or when that branch still covers
   |b| words), >> for negative values or amounts below 40 bits. *)
Theorem C32_mod_partial : forall a b, op_defined MMod a b -> words a < 2 ^ 24 -> words b < 2 ^ 24 ->
  (a < b \/ words b = 1 \/ 100 <= words b \/ 2 * words b <= words a + 5) ->
  result_bytes MMod a b <= metered MMod a b.
Proof. exact mod_partial. Qed.
Print Assumptions C32_mod_partial.
Theorem C32_shr_partial : forall a b, op_defined MShr a b -> words a < 2 ^ 24 -> words b < 2 ^ 24 ->
  (a < 0 \/ b < 40) -> result_bytes MShr a b <= metered MShr a b.
Proof. exact shr_partial. Qed.
Print Assumptions C32_shr_partial.

Example C32_ex :
  words (2 ^ 64) = 2 /\ words (2 ^ 64 - 1) = 1 /\ words 0 = 0 /\ words (- 2 ^ 6399) = 100 /\
  metered MShr (2 ^ 6399) 640 = 192 /\ result_bytes MShr (2 ^ 6399) 640 = 720 /\
  metered MMod (2 ^ 3200 - 1) (2 ^ 2559 + 12345) = 120 /\ result_bytes MMod (2 ^ 3200 - 1) (2 ^ 2559 + 12345) = 320 /\
  metered MMul (2 ^ 6399) (2 ^ 6399) = 8 * 908.
Proof. vm_compute. repeat split. Qed.

(* the estimators depend on the operands only through their summary (used by the correspondence run) *)
Theorem C32_metered_factors_through_summary : forall o a b, metered_s o (summ a b) = metered o a b.
Proof. exact metered_summ. Qed.
Print Assumptions C32_metered_factors_through_summary.
