(* C49  Attachments follow their lifecycle rules.
   Property theorems only; model in C49/Model.v, proofs in C49/{Lemmas,Proofs,Invariant,Specs,Specs2}.v.
   The theorems are about every state reachable by ANY history of operations ([run state0 ops]) or about any state
   satisfying the invariant that every such state satisfies ([inv], see C49_reachable_inv); they hold for every
   route (variable, array, dictionary, optional, function call, resource field), both base kinds and both
   attachment types. *)
From CV Require Import C49.Model C49.Lemmas C49.Proofs C49.Invariant C49.Specs C49.Specs2.
From Coq Require Import Permutation.
Open Scope Z_scope.

(* A value has at most one attachment of each attachment type. *)
Theorem C49_at_most_one_per_type : forall ops i o,
  alookup i (sto (run state0 ops)) = Some o -> NoDup (keys (oatts o)).
Proof. exact at_most_one_per_type. Qed.
Print Assumptions C49_at_most_one_per_type.

Theorem C49_reachable_inv : forall ops, inv (run state0 ops).
Proof. exact run_inv. Qed.
Print Assumptions C49_reachable_inv.

(* attach moves the base into the result (same kind, fields, uuid; other attachments kept; the new attachment's
   initializer has seen the base) and fails, changing nothing, if an attachment of that type exists. *)
Theorem C49_attach_moves_base_and_fails_if_present : forall st i t n r o,
  alookup i (sto st) = Some o ->
  (tlookup t (oatts o) <> None -> step st (OAttach i t n r) = (st, Err UserOther, [])) /\
  (tlookup t (oatts o) = None ->
   exists st' o' u,
     step st (OAttach i t n r) = (st', Ok [], []) /\
     alookup i (sto st') = Some o' /\
     okind o' = okind o /\ ox o' = ox o /\ ouuid o' = ouuid o /\
     oatts o' = stripl (oatts o) ++ [(t, mkAtt n (ox o) (inner_of (okind o) t u n) None)] /\
     (forall j, j <> i -> alookup j (sto st') = alookup j (sto st))).
Proof. exact attach_spec. Qed.
Print Assumptions C49_attach_moves_base_and_fails_if_present.

(* Attachments travel with their base through moves (resources) / copies (structs), through every route and through
   account storage: the whole base, with all attachments and their states, arrives. *)
Theorem C49_travel_with_base : forall st i j r o,
  inv st -> alookup i (sto st) = Some o -> i <> j -> alookup j (sto st) = None ->
  exists st',
    step st (OMove i j r) = (st', Ok [], []) /\
    alookup j (sto st') = Some o /\
    alookup i (sto st') = (match okind o with KRes => None | KStruct => Some o end) /\
    (forall k, k <> i -> k <> j -> alookup k (sto st') = alookup k (sto st)).
Proof. exact move_spec. Qed.
Print Assumptions C49_travel_with_base.

(* Inside attachment code `self` is the attachment and `base` the CURRENT carrier, whatever route the base took
   (every operation also round-trips through storage): base[T] yields self.n, self.bx0, and base.x / base.uuid of
   the carrier; nothing stored changes. *)
Theorem C49_base_self_binding : forall st i t r o,
  inv st -> alookup i (sto st) = Some o ->
  exists st',
    step st (ORead i t r) =
      (st', Ok (match tlookup t (oatts o) with
                | None => [0]
                | Some a => [1; an a; abx0 a; ox o; ouuid o]
                end), []) /\
    (forall k, alookup k (sto st') = alookup k (sto st)).
Proof. exact read_spec. Qed.
Print Assumptions C49_base_self_binding.

(* ... also after the base was moved / copied and the new carrier changed: the attachment of the new carrier sees the
   new field; the struct original, whose copy was made while it was bound, still sees its own. *)
Theorem C49_base_binding_after_move : forall st i x t r o a,
  inv st -> alookup i (sto st) = Some o -> tlookup t (oatts o) = Some a ->
  exists st' o',
    step st (OSetX i x t r) =
      (st', Ok (match okind o with KRes => [1; x] | KStruct => [1; x; 1; ox o] end), []) /\
    alookup i (sto st') = Some o' /\ ox o' = x /\ okind o' = okind o /\ ouuid o' = ouuid o /\ oatts o' = oatts o /\
    (forall k, k <> i -> alookup k (sto st') = alookup k (sto st)).
Proof. exact setx_spec. Qed.
Print Assumptions C49_base_binding_after_move.

(* remove destroys the attachment: it is gone, and (resource attachments) its nested resources' and its own destroy
   events are emitted exactly once, with `base` still bound; removing an absent attachment does nothing. *)
Theorem C49_remove_destroys : forall st i t o,
  inv st -> alookup i (sto st) = Some o ->
  exists st' o',
    step st (ORemove i t) =
      (st', Ok [], match tlookup t (oatts o), okind o with
                   | Some a, KRes => att_events o (t, a)
                   | _, _ => []
                   end) /\
    alookup i (sto st') = Some o' /\
    okind o' = okind o /\ ox o' = ox o /\ ouuid o' = ouuid o /\
    oatts o' = tremove t (oatts o) /\
    (forall k, k <> i -> alookup k (sto st') = alookup k (sto st)).
Proof. exact remove_spec. Qed.
Print Assumptions C49_remove_destroys.

Theorem C49_removed_is_gone : forall t l, tlookup t (tremove t l) = None.
Proof. exact tlookup_tremove_same. Qed.
Print Assumptions C49_removed_is_gone.

(* Destroying a base destroys all its attachments: every attachment's events (nested first) precede the base's own
   event, and each attachment is destroyed exactly once. *)
Theorem C49_destroy_base_destroys_all : forall st i o,
  inv st -> alookup i (sto st) = Some o ->
  exists st',
    step st (ODestroy i) =
      (st', Ok [], match okind o with
                   | KRes => flat_map (att_events o) (iter_order KRes (oatts o)) ++ [EvBase (ouuid o) (ox o)]
                   | KStruct => []
                   end) /\
    alookup i (sto st') = None /\
    (forall k, k <> i -> alookup k (sto st') = alookup k (sto st)).
Proof. exact destroy_spec. Qed.
Print Assumptions C49_destroy_base_destroys_all.

Theorem C49_destroy_each_attachment_once : forall st i o st' obs evs0,
  inv st -> alookup i (sto st) = Some o -> okind o = KRes ->
  step st (ODestroy i) = (st', obs, evs0) ->
  Permutation (att_evs_of evs0) (map (fun ta => (fst ta, an (snd ta))) (oatts o)) /\
  (exists pre, evs0 = pre ++ [EvBase (ouuid o) (ox o)]).
Proof. exact destroy_all_once. Qed.
Print Assumptions C49_destroy_each_attachment_once.

(* forEachAttachment visits every attachment once; mutating an attachment through base[T] changes that attachment only *)
Theorem C49_for_each_attachment : forall st i o,
  inv st -> alookup i (sto st) = Some o ->
  exists st',
    step st (OForEach i) =
      (st', Ok (flat_map (fun ta => [tcode (fst ta); an (snd ta)]) (iter_order (okind o) (oatts o))), []) /\
    (forall k, alookup k (sto st') = alookup k (sto st)).
Proof. exact foreach_spec. Qed.
Print Assumptions C49_for_each_attachment.

Theorem C49_iteration_visits_each_once : forall k l, Permutation (iter_order k l) l.
Proof. exact iter_order_perm. Qed.
Print Assumptions C49_iteration_visits_each_once.

Theorem C49_incr_changes_one_attachment : forall st i t o a,
  inv st -> alookup i (sto st) = Some o -> tlookup t (oatts o) = Some a ->
  exists st' o',
    step st (OIncr i t) = (st', Ok [an a + 1], []) /\
    alookup i (sto st') = Some o' /\
    okind o' = okind o /\ ox o' = ox o /\ ouuid o' = ouuid o /\
    tlookup t (oatts o') = Some (mkAtt (an a + 1) (abx0 a) (ainner a) None) /\
    (forall t', t' <> t -> tlookup t' (oatts o') = tlookup t' (oatts o)) /\
    (forall k, k <> i -> alookup k (sto st') = alookup k (sto st)).
Proof. exact incr_spec. Qed.
Print Assumptions C49_incr_changes_one_attachment.

(* ---- non-vacuity: a concrete history reaches a state with a resource base carrying both attachments (one owning a
   nested resource), after a double attach was refused, a move through a resource field and a struct copy *)
Definition ex_hist : list op :=
  [ OCreate 0 KRes 5; OAttach 0 TA 1 RVar; OAttach 0 TB 2 RArray; OAttach 0 TB 3 RDict; OMove 0 1 RField;
    OCreate 2 KStruct 7; OAttach 2 TA 4 RCall; OSetX 1 70 TA RDict ].

Example C49_ex_state :
  match alookup 1 (sto (run state0 ex_hist)), alookup 2 (sto (run state0 ex_hist)), alookup 0 (sto (run state0 ex_hist)) with
  | Some r, Some s, None =>
      okind r = KRes /\ ox r = 70 /\ ouuid r = 1 /\ keys (oatts r) = [TA; TB] /\
      tlookup TA (oatts r) = Some (mkAtt 1 5 (Some (2, 10)) None) /\
      okind s = KStruct /\ keys (oatts s) = [TA]
  | _, _, _ => False
  end.
Proof. vm_compute. repeat split. Qed.

Example C49_ex_destroy :
  snd (step (run state0 ex_hist) (ODestroy 1)) = [EvAtt TB 1 2 70; EvInner 2 10; EvAtt TA 1 1 70; EvBase 1 70].
Proof. vm_compute. reflexivity. Qed.

Example C49_ex_double_attach :
  snd (fst (step (run state0 ex_hist) (OAttach 1 TA 9 RVar))) = Err UserOther.
Proof. vm_compute. reflexivity. Qed.
