(* C25  Capabilities, publishing and inbox follow the controller model.
   Property theorems only; proofs are in C25/Proofs.v, definitions in C25/Model.v.

   [run_code] is the machine over the code-shaped controller store (four storage domains as in
   stdlib/account.go, with its unreachable-checks as Internal errors); [run_spec] is the same
   machine over the controller specification (one table of controller records per account).
   A history is a list of transactions, each a list of operations; [tx_stale] is the oracle for
   the storage layer's write-back of retargeted controller objects ([] = written back). *)
From CV Require Import C25.Model C25.Proofs.

(* For ALL histories whose retargets were written back, every per-operation result and every
   event of the code-shaped machine equals the controller specification's. *)
Theorem C25_refinement_partial : forall h, Forall nostale h -> run_code h = run_spec h.
Proof. exact refinement. Qed.
Print Assumptions C25_refinement_partial.

(* The full statement (no guard) is kept as a definition and is refuted on the unchanged tree:
   retarget does not write the controller back (known finding retarget-not-persisted). *)
Definition C25_statement : Prop := refinement_statement.
Theorem C25_refinement_refuted : ~ C25_statement.
Proof. exact refinement_refuted. Qed.
Print Assumptions C25_refinement_refuted.
Theorem C25_internal_error_refuted : exists h, In (RFail FInternal) (all_results (run_code h)).
Proof. exact no_internal_refuted. Qed.
Print Assumptions C25_internal_error_refuted.

(* Under the guard none of the defensive unreachable-checks of the bookkeeping can fire. *)
Theorem C25_no_internal_error_partial :
  forall h, Forall nostale h -> ~ In (RFail FInternal) (all_results (run_code h)).
Proof. exact no_internal. Qed.
Print Assumptions C25_no_internal_error_partial.

(* Issued ids are fresh: positive and strictly increasing per account along the whole history,
   failed transactions included (every history, no guard). *)
Theorem C25_ids_fresh : forall h a, incr_above 0 (issued_hist a h (run_code h)).
Proof. exact ids_fresh. Qed.
Print Assumptions C25_ids_fresh.

(* getControllers / forEachController (storage path or account) report exactly the live
   controllers of that target, strictly increasing (observations are compared sorted), after
   every history and at every point inside a transaction. *)
Theorem C25_controllers_exact_partial : forall h ops a k m,
  Forall nostale h -> m <> LEachStop ->
  let g := state_after h ops in
  exists l, fst (fst (step code_impl g (OList a k m))) = RIds l /\
            (forall id, In id l <-> is_target g a id k) /\ incr_above 0 l.
Proof. exact controllers_exact. Qed.
Print Assumptions C25_controllers_exact_partial.

(* A successful delete makes the controller dead; a dead controller stays dead through every
   continuation (ids are never reused; every history, no guard); capabilities naming a dead
   controller never borrow, check or resolve again. *)
Theorem C25_delete_makes_dead : forall h ops a b id,
  let g := state_after h ops in
  fst (fst (step code_impl g (ODelete a b id))) = RUnit ->
  dead (snd (step code_impl g (ODelete a b id))) a id.
Proof. exact delete_makes_dead. Qed.
Print Assumptions C25_delete_makes_dead.
Theorem C25_dead_forever : forall g a id,
  dead g a id ->
  (forall ops, dead (snd (fst (run_ops code_impl g ops))) a id) /\
  (forall h, dead (snd (run code_impl g h)) a id).
Proof. exact dead_forever. Qed.
Print Assumptions C25_dead_forever.
Theorem C25_dead_never_borrows : forall g a id c w,
  dead g a id -> cap_addr c = a -> cap_id c = id ->
  borrow_ctrl code_impl (g_cs g) (g_rs g) c w = false /\
  borrow_cap code_impl (g_cs g) (g_rs g) c w = false /\
  checked_ctrl code_impl (g_cs g) c w = None.
Proof. exact dead_no_borrow. Qed.
Print Assumptions C25_dead_never_borrows.

(* retarget moves the controller between the path sets and touches nothing else *)
Theorem C25_retarget_moves_partial : forall g a id ct p,
  inv g -> fetch code_impl (g_cs g) a false id = Some ct ->
  let '(r, ev, g') := step code_impl g (ORetarget a id p) in
  r = RUnit /\ ev = [EvTarget id a p] /\ inv g' /\
  is_target g' a id (KStorage p) /\
  (forall q, q <> p -> ~ is_target g' a id (KStorage q)) /\
  (forall a' id' k, (a', id') <> (a, id) -> is_target g' a' id' k <-> is_target g a' id' k).
Proof. exact retarget_moves. Qed.
Print Assumptions C25_retarget_moves_partial.
(* [inv] holds after every history of the guard, at every point of a transaction *)
Theorem C25_inv_reachable : forall h ops, Forall nostale h -> inv (state_after h ops).
Proof. exact state_after_inv. Qed.
Print Assumptions C25_inv_reachable.

(* borrow / check succeed exactly under the rule of the property text: live controller,
   T's authorization permitted by the capability's and the controller's, T's referenced type a
   subtype or supertype of theirs, and the target holds a value whose type is a subtype of T's
   referenced type (account controllers: no stored value involved). *)
Theorem C25_borrow_iff_rule : forall s rs c w,
  borrow_ctrl code_impl s rs c (Some w) = true <-> borrow_rule code_impl s rs c w.
Proof. exact (borrow_iff_rule code_impl). Qed.
Print Assumptions C25_borrow_iff_rule.
Theorem C25_cap_borrow_iff_rule : forall s rs c w,
  borrow_cap code_impl s rs c (Some w) = true <-> cap_id c <> 0 /\ borrow_rule code_impl s rs c w.
Proof. exact (cap_borrow_iff_rule code_impl). Qed.
Print Assumptions C25_cap_borrow_iff_rule.

(* capabilities.borrow / get see only what is currently published and apply the same rule;
   what is published changes only by publish / unpublish of that account and path *)
Theorem C25_public_borrow : forall g tgt pp w,
  fst (fst (step code_impl g (OBorrowPub tgt pp w))) = RBool true <->
  exists c, pub (g_rs g tgt) pp = Some c /\ borrow_rule code_impl (g_cs g) (g_rs g) c w.
Proof. exact (borrow_pub_rule code_impl). Qed.
Print Assumptions C25_public_borrow.
Theorem C25_public_get : forall g a tgt pp w slot c',
  fst (fst (step code_impl g (OGet a tgt pp w slot))) = RCap c' ->
  (cap_id c' = 0 /\ cap_addr c' = tgt /\ cap_bt c' = w) \/
  (exists c ct, pub (g_rs g tgt) pp = Some c /\ c' = mkCap (cap_id c) (cap_addr c) w /\
                i_get code_impl (g_cs g) (cap_addr c) (cap_id c) = Some ct /\
                can_borrow w (cap_bt c) = true /\ can_borrow w (c_bt ct) = true).
Proof. exact (get_pub_rule code_impl). Qed.
Print Assumptions C25_public_get.
Theorem C25_published_frame : forall g o a pp,
  let g' := snd (step code_impl g o) in
  pub (g_rs g' a) pp = pub (g_rs g a) pp \/
  (exists slot c, o = OPublish a slot pp /\ slots (g_rs g a) slot = Some c /\ cap_addr c = a /\
                  pub (g_rs g a) pp = None /\ pub (g_rs g' a) pp = Some c) \/
  (exists slot, o = OUnpublish a pp slot /\ pub (g_rs g' a) pp = None).
Proof. exact (pub_frame code_impl). Qed.
Print Assumptions C25_published_frame.

(* inbox: a claim returns only what that provider published under that name for the claimer,
   at the requested authorization, once; the entry changes only by the provider's publish /
   unpublish and the recipient's claim *)
Theorem C25_claim_exact_once : forall g a name prov w slot c',
  fst (fst (step code_impl g (OInboxClaim a name prov w slot))) = RCap c' ->
  let g' := snd (step code_impl g (OInboxClaim a name prov w slot)) in
  exists c, inbox (g_rs g prov) name = Some (c, a) /\ ref_sub (cap_bt c) w = true /\
            c' = conv_cap c w /\
            inbox (g_rs g' prov) name = None /\
            forall w' slot', fst (fst (step code_impl g' (OInboxClaim a name prov w' slot'))) = RNone.
Proof. exact (claim_exact code_impl). Qed.
Print Assumptions C25_claim_exact_once.
Theorem C25_inbox_frame : forall g o prov name,
  let g' := snd (step code_impl g o) in
  inbox (g_rs g' prov) name = inbox (g_rs g prov) name \/
  (exists slot recip c, o = OInboxPublish prov slot name recip /\ slots (g_rs g prov) slot = Some c /\
                        inbox (g_rs g' prov) name = Some (c, recip)) \/
  (exists w slot, o = OInboxUnpublish prov name w slot /\ inbox (g_rs g' prov) name = None) \/
  (exists a w slot c, o = OInboxClaim a name prov w slot /\ inbox (g_rs g prov) name = Some (c, a) /\
                      inbox (g_rs g' prov) name = None).
Proof. exact (inbox_frame code_impl). Qed.
Print Assumptions C25_inbox_frame.

(* ---------------------------------------------------------------- non-vacuity *)
Definition ex_history : list tx :=
  [mkTx [OPut 1 0 VA; OIssue 1 (KStorage 0) (AConj [0], BI) 0; OIssue 1 (KStorage 0) (AUn, BA) 1;
         OIssue 1 KAccount (AUn, BAcct) 2; OPublish 1 1 0; OInboxPublish 1 0 0 2] [];
   mkTx [OIssue 1 (KStorage 2) (AUn, BB) 3; OPanic] [];
   mkTx [ORetarget 1 2 1; OList 1 (KStorage 0) LGet; OList 1 (KStorage 1) LEach; OList 1 KAccount LGet;
         OCapCheck 1 0 (AUn, BI) false; OCapCheck 1 0 (AConj [0], BA) false; OCapCheck 1 0 (AConj [1], BI) false;
         OCapCheck 1 0 (AUn, BC) false; OBorrowPub 1 0 (AUn, BI); OInboxClaim 3 0 1 (AUn, BI) 0;
         OInboxClaim 2 0 1 (AUn, BI) 0; OInboxClaim 2 0 1 (AUn, BI) 1; OIssue 1 (KStorage 0) (AUn, BA) 3] [];
   mkTx [ODelete 1 false 1; OCapCheck 1 0 (AUn, BI) false; OCapBorrow 2 0 (AUn, BI) false;
         OList 1 (KStorage 0) LGet; OGetCtrl 1 false 2] []].

Example C25_ex_guard : Forall nostale ex_history.
Proof. repeat constructor. Qed.

(* the example exercises fresh ids across a failed transaction (1,2,3,[4 rolled back],5), retarget,
   listings, the borrow rule in all four outcomes, public borrow, claim (wrong claimer, right
   claimer, second claim), delete and borrow after delete *)
Example C25_ex_run : run_code ex_history =
  [([RUnit; RId 1; RId 2; RId 3; RUnit; RUnit],
    [EvIssued 1 1 (AConj [0], BI) 0; EvIssued 2 1 (AUn, BA) 0; EvAcctIssued 3 1 (AUn, BAcct);
     EvPublished 1 0 (mkCap 2 1 (AUn, BA)); EvInboxPublished 1 2 0 (AConj [0], BI)]);
   ([RId 4; RFail FPanic], [EvIssued 4 1 (AUn, BB) 2]);
   ([RUnit; RIds [1]; RIds [2]; RIds [3]; RBool true; RBool true; RBool false; RBool false; RBool false;
     RNone; RCap (mkCap 1 1 (AUn, BI)); RNone; RId 5],
    [EvTarget 2 1 1; EvInboxClaimed 1 2 0; EvIssued 5 1 (AUn, BA) 0]);
   ([RUnit; RBool false; RBool false; RIds [5]; RCtrl 2 (AUn, BA) (KStorage 1) 0],
    [EvDeleted 1 1])].
Proof. vm_compute. reflexivity. Qed.

Example C25_ex_refines : run_code ex_history = run_spec ex_history.
Proof. vm_compute. reflexivity. Qed.

Example C25_ex_ids : issued_hist 1 ex_history (run_code ex_history) = [1; 2; 3; 4; 5].
Proof. vm_compute. reflexivity. Qed.

(* the stale oracle changes the outcome: the guard is not vacuous *)
Example C25_ex_stale : ~ Forall nostale stale_history /\ run_code stale_history <> run_spec stale_history.
Proof.
  split.
  - intro H. inversion H as [|? ? _ H2]. inversion H2 as [|? ? H3 _]. discriminate H3.
  - vm_compute. discriminate.
Qed.
