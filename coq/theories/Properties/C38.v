(* C38  Printing a parsed program and re-parsing it yields the same AST.
   Property theorems only; proofs are in C38/{RoundTrip,StrProofs}.v.

   Model (C38/Syntax.v, Parser.v): the expression printer of ast/expression.go (precedence table of
   ast/precedence.go, parenthesizedExpressionDoc and the per-node rules) rendered to tokens, and the Pratt
   parser of parser/expression.go (binding powers, prefix/infix/postfix denotations, literal folding of
   prefix minus, labelled arguments).  Declarations, statements, types and the remaining expression forms
   are covered by the real round trip of the correspondence run only (see props_meta/C38.json). *)
From CV Require Import Base.Prelude C38.Syntax C38.Parser C38.Guards C38.Str C38.RoundTrip C38.StrProofs.

(* For EVERY expression of the modelled forms satisfying the guard [ok] — prefix minus is not left applied
   to a positive literal (the parser folds it), no cast is applied to a bare operand ending in an open move
   `<-`, no postfix operator is applied to a negative literal, no member access directly on an integer
   literal (its text `5.x` is lexed as a malformed fixed-point literal) — the parser reads the printed tokens back as
   the same expression and consumes all of them, for all sufficiently large fuel (fuel is a device of the
   model: the real parser is not fuel-bounded). *)
Theorem C38_print_parse_roundtrip_partial : forall e, ok e ->
  exists f0, forall f, (f0 <= f)%nat -> parse_expr f 0 (pr e) = Some (e, []).
Proof. exact print_parse_roundtrip. Qed.
Print Assumptions C38_print_parse_roundtrip_partial.

(* the guard is decidable (used by the correspondence run) *)
Theorem C38_guard_decidable : forall e, okb e = true -> ok e.
Proof. exact okb_sound. Qed.
Print Assumptions C38_guard_decidable.

(* the unrestricted statement (every AST the parser can produce survives print + parse) is false for the
   model of the real printer/parser: `(<-a) as T` prints as `<- a as T`, `(-5)!` prints as `-5!` *)
Definition C38_roundtrip_statement : Prop := roundtrip_statement.
Theorem C38_roundtrip_refuted :
  ~ roundtrip_statement /\
  (parse_fuel 20 w_move_cast_src = Some w_move_cast /\ forall f, parse_fuel f (pr w_move_cast) <> Some w_move_cast) /\
  (parse_fuel 20 w_neg_force_src = Some w_neg_force /\ forall f, parse_fuel f (pr w_neg_force) <> Some w_neg_force).
Proof. exact (conj roundtrip_statement_refuted (conj witness_move_cast witness_neg_force)). Qed.
Print Assumptions C38_roundtrip_refuted.

(* string literals: unescaping the escaped text of any string of Unicode scalar values gives it back *)
Theorem C38_string_escape_roundtrip : forall s, Forall scalar s -> unescape_text (escape s) = Some s.
Proof. exact unescape_escape. Qed.
Print Assumptions C38_string_escape_roundtrip.

(* ---- non-vacuity ---- *)
(* -(a + b) * c ?? d ?? (x as? T)?.f(l: !y, -5)[i]! ? p : q < r  satisfies the guard and round-trips *)
Definition ex_e : expr :=
  ECond
    (EBin ONilC (EBin OMul (EUn UMinus (EBin OAdd (EId 1) (EId 2))) (EId 3))
       (EBin ONilC (EId 4)
          (EForce (EIndex (EInvoke (EMember true (ECast CAsQ (EId 5) (mkTy [6; 7] 1)) 8)
                                   [(Some 9, EUn UNot (EId 10)); (None, EInt (-5))]) (EId 11)))))
    (EId 12) (EBin OLt (EId 13) (EId 14)).
Example C38_ex_roundtrip : okb ex_e = true /\ parse_expr 60 0 (pr ex_e) = Some (ex_e, []) /\ length (pr ex_e) = 37%nat.
Proof. vm_compute. repeat split. Qed.
Example C38_ex_string :
  Forall scalar [0; 10; 34; 92; 65; 233; 8364; 128512; 1114111] /\
  unescape_text (escape [0; 10; 34; 92; 65; 233; 8364; 128512; 1114111]) = Some [0; 10; 34; 92; 65; 233; 8364; 128512; 1114111].
Proof. split; [repeat constructor; unfold scalar; lia|vm_compute; reflexivity]. Qed.
