(* C28  Host failures are never swallowed.
   Property theorems only; proofs are in C28/Proofs.v, the model in C28/Model.v.
   Interface_methods is regenerated from /repo/runtime/{interface,external}.go on every run. *)
From CV Require Import C28.Model C28.Proofs Gen.GenC28Table.

(* Tie to the source: every method of runtime.Interface / runtime.Metrics is forwarded by ExternalInterface
   inside errors.WrapPanic and its error result goes through interpreter.WrappedExternalError
   (finite domain: decided by computation on the extracted table). *)
Theorem C28_all_wrapped : forallb wrapped Interface_methods = true.
Proof. vm_compute. reflexivity. Qed.
Print Assumptions C28_all_wrapped.

(* ... and the table lists every callback of the model with the right signature *)
Theorem C28_table_ok : table_ok Interface_methods = true.
Proof. vm_compute. reflexivity. Qed.
Print Assumptions C28_table_ok.

(* host_failure_propagates, for ALL programs using only the documented handlers and ALL oracles:
   if any host call outside the documented exceptions fails (error or panic), the run ends with an external
   error carrying such a failure (never Ok, never a user/internal error); it is the FIRST such failure unless
   a metrics callback fails later; the carried failure is exactly what the host answered at that call; nothing
   is committed unless the failing call is a SetValue of the commit phase itself. *)
Theorem C28_host_failure_propagates_partial : forall p, clean p = true -> propagates Interface_methods p.
Proof. intros p H. exact (clean_propagates Interface_methods p C28_table_ok H). Qed.
Print Assumptions C28_host_failure_propagates_partial.

Theorem C28_failure_class : forall p o, clean p = true ->
  unexcused (out_trace (run Interface_methods o p)) <> [] ->
  class_of (out_res (run Interface_methods o p)) = Err HostFail.
Proof. intros p o H. exact (failure_class Interface_methods p o C28_table_ok H). Qed.
Print Assumptions C28_failure_class.

Theorem C28_success_means_no_failure : forall p o, clean p = true ->
  out_res (run Interface_methods o p) = RNorm -> unexcused (out_trace (run Interface_methods o p)) = [].
Proof. intros p o H. exact (success_means_no_failure Interface_methods p o C28_table_ok H). Qed.
Print Assumptions C28_success_means_no_failure.

Theorem C28_commit_prefix : forall o p st1, clean p = true ->
  exec Interface_methods o [] p init_state = (st1, RNorm) ->
  exists rest, st_pending st1 = out_ledger (run Interface_methods o p) ++ rest
               /\ (out_res (run Interface_methods o p) = RNorm -> rest = []).
Proof. intros o p st1 H. exact (commit_prefix Interface_methods o p st1 C28_table_ok H). Qed.
Print Assumptions C28_commit_prefix.

(* The statement at full strength (all programs, i.e. including the handlers of the code that are NOT
   documented exceptions) is C28_statement; it is false for the unchanged tree: *)
Theorem C28_statement_refuted : ~ C28_statement Interface_methods.
Proof. exact (C28_statement_false Interface_methods C28_table_ok). Qed.
Print Assumptions C28_statement_refuted.

(* witnesses: storage iteration, BLS aggregation, VM type loading / program recovery *)
Theorem C28_iteration_swallows_refuted : exists p, ~ propagates Interface_methods p.
Proof. exists p_iter. exact (iter_refutes Interface_methods C28_table_ok). Qed.
Theorem C28_bls_swallows_refuted : exists p, ~ propagates Interface_methods p.
Proof. exists p_bls. exact (bls_refutes Interface_methods C28_table_ok). Qed.
Theorem C28_dropped_error_refuted : exists p, ~ propagates Interface_methods p.
Proof. exists p_drop. exact (drop_refutes Interface_methods C28_table_ok). Qed.

(* ---- non-vacuity: concrete programs and oracles ---- *)
Definition ex_prog : cmd :=
  Seq (Call cb_GetSigningAccounts)
  (Seq (Metered cb_ProgramInterpreted
         (Seq (Call cb_GetValue)
         (Seq (Handle HTry (Seq (Call cb_GetAccountContractCode) (Call cb_UpdateAccountContractCode)))
         (Seq (Handle HKeyVal (Call cb_ValidatePublicKey))
         (Seq (Call cb_EmitEvent) (Seq (Write 1) (Write 2)))))))
       Skip).
Definition ex_fail (k : cb) (i : nat) (m : fmode) : oracle :=
  fun k' i' => if cb_eqb k k' && Nat.eqb i i' then HFail m 5 else HOk 0.

Example C28_ex_clean : clean ex_prog = true.
Proof. vm_compute. reflexivity. Qed.
(* no failure: success, both writes committed *)
Example C28_ex_ok : let out := run Interface_methods (fun _ _ => HOk 0) ex_prog in
  out_res out = RNorm /\ out_ledger out = [1; 2] /\ length (out_trace out) = 9%nat.
Proof. vm_compute. repeat split. Qed.
(* EmitEvent panics: the run fails carrying exactly that failure, nothing is committed *)
Example C28_ex_emit : let out := run Interface_methods (ex_fail cb_EmitEvent 0 MPanicErr) ex_prog in
  out_res out = RHost (mk_flt cb_EmitEvent 0 MPanicErr 5) true /\ out_ledger out = []
  /\ unexcused (out_trace out) = [mk_flt cb_EmitEvent 0 MPanicErr 5].
Proof. vm_compute. repeat split. Qed.
(* a failure inside tryUpdate is a documented exception: the run goes on and succeeds *)
Example C28_ex_try : let out := run Interface_methods (ex_fail cb_UpdateAccountContractCode 0 MErr) ex_prog in
  out_res out = RNorm /\ unexcused (out_trace out) = [] /\ out_ledger out = [1; 2].
Proof. vm_compute. repeat split. Qed.
(* ValidatePublicKey returns an error: invalid-key user error; it panics: host failure *)
Example C28_ex_key : out_res (run Interface_methods (ex_fail cb_ValidatePublicKey 0 MErr) ex_prog)
                     = RUser (Some (mk_flt cb_ValidatePublicKey 0 MErr 5))
  /\ out_res (run Interface_methods (ex_fail cb_ValidatePublicKey 0 MPanicVal) ex_prog)
     = RHost (mk_flt cb_ValidatePublicKey 0 MPanicVal 5) false.
Proof. vm_compute. repeat split. Qed.
(* second SetValue of the commit fails: the run fails with it, only the first write was made *)
Example C28_ex_commit : let out := run Interface_methods (ex_fail cb_SetValue 1 MErr) ex_prog in
  out_res out = RHost (mk_flt cb_SetValue 1 MErr 5) true /\ out_ledger out = [1].
Proof. vm_compute. repeat split. Qed.
(* an unwrapped method (hypothetical table) would surface as an internal error: the table hypothesis matters *)
Example C28_ex_unwrapped :
  out_res (run [mk_row cb_GetValue true true true false] (ex_fail cb_GetValue 0 MErr) (Call cb_GetValue))
  = RInternal.
Proof. vm_compute. reflexivity. Qed.
