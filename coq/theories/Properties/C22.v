(* C22  Account storage behaves as a typed path-indexed map across transactions.
   Property theorems only; models in C22/Model.v, proofs in C22/Proofs.v. *)
From CV Require Import C22.Model C22.Proofs C22.Cases.

(* Refinement, for ALL histories of transactions and scripts over all accounts/paths/values/
   type arguments, from any well-formed chain state: the trace of results and errors computed
   by the code-shaped machine (lazy account/domain map creation, per-transaction cache,
   remove-then-check load, static-type fast path, commit only on success) is a trace of the
   plain typed map [addr -> path -> option (value, type)], and the committed registers always
   denote that map. *)
Theorem C22_refines_map : forall h L L' os,
  wf_ledger L -> run_history L h = (L', os) ->
  wf_ledger L' /\ spec_history (abs L) h os (abs L').
Proof. exact run_history_refines. Qed.
Print Assumptions C22_refines_map.

Theorem C22_refines_map_from_empty : forall h,
  spec_history (abs empty_ledger) h (snd (run_history empty_ledger h))
               (abs (fst (run_history empty_ledger h))).
Proof. exact refines_map_from_empty. Qed.
Print Assumptions C22_refines_map_from_empty.

(* One operation: same statement at the level of a single call inside a transaction. *)
Theorem C22_step_refines : forall w o w' out,
  wfw w -> step w o = (w', out) ->
  wfw w' /\ base w' = base w /\ spec_step (absw w) o out (absw w') /\ out <> Fail ECrashed.
Proof. exact step_sim. Qed.
Print Assumptions C22_step_refines.

(* The map specification is tight: without enumeration operations it admits exactly one
   trace (so the refinement fixes every result), and storagePaths is fixed up to order. *)
Theorem C22_spec_functional : forall h s1 s2 os1 os2 s1' s2',
  seq s1 s2 -> (forall t, In t h -> no_enum (t_body t)) ->
  spec_history s1 h os1 s1' -> spec_history s2 h os2 s2' ->
  os1 = os2 /\ seq s1' s2'.
Proof. exact spec_history_functional. Qed.
Print Assumptions C22_spec_functional.

Theorem C22_spec_paths_unique : forall s1 s2 a l1 l2 s1' s2',
  seq s1 s2 ->
  spec_step s1 (OPaths a) (Done (RPaths l1)) s1' -> spec_step s2 (OPaths a) (Done (RPaths l2)) s2' ->
  Permutation.Permutation l1 l2 /\ seq s1' s2'.
Proof. exact spec_paths_unique. Qed.
Print Assumptions C22_spec_paths_unique.

(* The static-type fast path of load/copy/check agrees with the subtype table used by borrow. *)
Theorem C22_static_subtype_path : forall d t, static_sub d t = sub d t.
Proof. exact static_sub_correct. Qed.
Print Assumptions C22_static_subtype_path.

Theorem C22_abort_preserves_committed_state : forall L t L' xs,
  (forall e, run_tx L t = (L', (xs, Some e)) -> L' = L) /\
  (t_script t = true -> forall o, run_tx L t = (L', o) -> L' = L).
Proof. exact abort_preserves_committed_state. Qed.
Print Assumptions C22_abort_preserves_committed_state.

Theorem C22_commit_reload_identity : forall L t L' xs,
  wf_ledger L -> t_script t = false -> run_tx L t = (L', (xs, None)) ->
  seq (abs L') (absw (fst (run_ops (begin L) (t_body t)))).
Proof. exact commit_reload_identity. Qed.
Print Assumptions C22_commit_reload_identity.

Theorem C22_enumeration_exact : forall w a,
  wfw w ->
  (forall w' l, step w (OPaths a) = (w', Done (RPaths l)) ->
     NoDup l /\ forall p, In p l <-> absw w a p <> None) /\
  (forall w' k l, step w (OForEach a k) = (w', Done (RVisited l)) -> (length l < k)%nat ->
     NoDup (map fst l) /\ forall p d, In (p, d) l <-> exists v, absw w a p = Some (v, d)).
Proof. exact enumeration_exact. Qed.
Print Assumptions C22_enumeration_exact.

(* Go-level failures of the storage layer (account register without its slab, nil storage
   map dereference in WriteStored) are unreachable from well-formed chain states. *)
Theorem C22_never_crashes : forall h L, wf_ledger L ->
  forall xs, In (xs, Some ECrashed) (snd (run_history L h)) -> False.
Proof. exact never_crashes. Qed.
Print Assumptions C22_never_crashes.

(* ---- non-vacuity: a concrete history exercising lazy creation, abort, script, reload ---- *)
Definition ex_history : list tx :=
  [ T false [OSave 2 0 5 DInt; OSave 2 1 7 DR2; OSave 2 0 6 DStr]          (* aborts: occupied *)
  ; T false [OSave 2 0 5 DInt; OSave 3 1 7 DR2; OCheck 2 0 TInteger; OAssert true]
  ; T true  [OLoad 2 0 TAnyStruct; OType 2 0; OPaths 2]                    (* script: discarded *)
  ; T false [OLoad 2 0 TStr]                                               (* mismatch: abort *)
  ; T false [OMove 3 1 TRI 2 0]                                            (* occupied: abort *)
  ; T false [OMove 2 0 TOptInt 1 3; OBorrow 3 1 TAnyResource; OCopy 1 3 TInt; OAssert false]
  ; T false [OMove 2 0 TOptInt 1 3; OCopy 1 3 TOptInt; OPaths 1; OForEach 3 1]
  ; T true  [ODescribe 1 3; ODescribe 2 0; ODescribe 3 1; OCopy 1 3 TInt] ].

Example C22_ex_trace :
  snd (run_history empty_ledger ex_history) =
  [ ([RUnit; RUnit], Some EOverwrite)
  ; ([RUnit; RUnit; RBool true; RUnit], None)
  ; ([RVal 5 DInt; RNil; RPaths []], None)
  ; ([], Some EMismatch)
  ; ([], Some EOverwrite)
  ; ([RVal 5 DOptInt; RVal 7 DR2], Some EMismatch)
  ; ([RVal 5 DOptInt; RVal 5 DOptInt; RPaths [3]; RVisited [(1, DR2)]], None)
  ; ([RVal 5 DOptInt; RNil; RVal 7 DR2], Some EMismatch) ].
Proof. vm_compute. reflexivity. Qed.

Example C22_ex_wf : wf_ledger init_ledger /\ wf_ledger empty_ledger.
Proof.
  split; [|exact wf_empty]. split; simpl.
  - intros a [H|[]]. subst. simpl. congruence.
  - intros a d. destruct a as [|q|q]; try discriminate. destruct (1 =? q)%positive; discriminate.
Qed.

(* the aborted transactions and the script above left the registers as they were *)
Example C22_ex_abort :
  fst (run_tx empty_ledger (T false [OSave 2 0 5 DInt; OPanic])) = empty_ledger /\
  fst (run_tx empty_ledger (T true [OSave 2 0 5 DInt])) = empty_ledger /\
  abs (fst (run_tx empty_ledger (T false [OSave 2 0 5 DInt]))) 2 0 = Some (5, DInt).
Proof. vm_compute. repeat split. Qed.
