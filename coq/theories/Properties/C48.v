(* C48  Emitted events conform to their declared types.
   Property theorems only; the model is C48/Model.v, proofs are in C48/Proofs.v.

   `emit d args` is the model of an emit statement as the host sees it (VisitEmitStatement:
   ConvertAndBox of every argument to its parameter type, EmitEventFields: one event carrying the
   declared type and the fields in declaration order); `args_ok` is what the checker guarantees
   for the arguments (well-formed values whose runtime types are subtypes of the parameter types);
   `fields_typed D ps fs`: names in declaration order and every value has_type its declared type
   (runtime type a subtype of it, boxed to the declared optional depth, containers well-formed);
   `destroy ctor R r`: CompositeValue.Destroy with the events built by `ctor`
   (ctor_vm: constructor call with conversion; ctor_interp: the interpreter's event initializer). *)
From CV Require Import C48.Model C48.Proofs.

(* For ALL event declarations and ALL accepted argument lists: the host receives exactly one event,
   with the declared type ID and exactly the declared fields, in order, each of its declared type. *)
Theorem C48_emitted_event_well_typed : forall D d args,
  args_ok D (ev_params d) args = true ->
  exists e, emit d args = Ok e /\
            e_type e = ev_id d /\
            fields_typed D (ev_params d) (e_fields e) = true.
Proof. exact emit_well_typed. Qed.
Print Assumptions C48_emitted_event_well_typed.

Theorem C48_fields_typed_meaning : forall D ps fs,
  fields_typed D ps fs = true ->
  map fst fs = map fst ps /\
  Forall2 (fun f p => has_type D (snd f) (snd p) = true) fs ps.
Proof. exact fields_typed_spec. Qed.
Print Assumptions C48_fields_typed_meaning.

(* an event whose field count differs from the declaration never reaches the host *)
Theorem C48_emit_count_mismatch : forall d args,
  length args <> length (ev_params d) -> emit d args = Err UserOther.
Proof. exact emit_count_mismatch. Qed.
Print Assumptions C48_emit_count_mismatch.

(* Destruction (either engine's event constructor): whenever it succeeds, the host receives exactly
   the default events of every resource of the tree, each once, nested resources (recursively) first. *)
Theorem C48_default_destroy_order : forall ctor R r t,
  destroy ctor R r = Ok t -> destroy_spec ctor R r = Ok t.
Proof. exact destroy_postorder. Qed.
Print Assumptions C48_default_destroy_order.

(* Default destruction events (VM shape): the fields are the values of the default-argument
   expressions evaluated on the resource being destroyed, converted to the parameter types ... *)
Theorem C48_default_destroy_event_args : forall r de e,
  ctor_vm r de = Ok e ->
  exists vs, eval_args r (de_params de) = Ok vs /\
             map snd (e_fields e) = convert_args (ev_params (decl_of de)) vs.
Proof. exact ctor_vm_args. Qed.
Print Assumptions C48_default_destroy_event_args.

(* ... and the event is well typed whenever the default arguments have (sub)types of the parameters *)
Theorem C48_default_destroy_event_well_typed : forall D r de e,
  default_args_ok D r de ->
  ctor_vm r de = Ok e ->
  e_type e = de_id de /\ fields_typed D (ev_params (decl_of de)) (e_fields e) = true.
Proof. exact ctor_vm_well_typed. Qed.
Print Assumptions C48_default_destroy_event_well_typed.

(* The interpreter's shape stores the default arguments unconverted: the full statement is refuted
   (event ResourceDestroyed(c: Int? = 5) delivers the unboxed 5) ... *)
Theorem C48_default_destroy_interp_refuted : ~ ctor_interp_well_typed_statement.
Proof. exact ctor_interp_well_typed_refuted. Qed.
Print Assumptions C48_default_destroy_interp_refuted.

(* ... and holds under the exact guard excluding the defect: every default argument is already boxed
   to the optional depth of its parameter type *)
Theorem C48_default_destroy_interp_partial : forall D r de e,
  default_args_ok D r de ->
  (forall vs, eval_args r (de_params de) = Ok vs -> args_boxed (ev_params (decl_of de)) vs = true) ->
  ctor_interp r de = Ok e ->
  e_type e = de_id de /\ fields_typed D (ev_params (decl_of de)) (e_fields e) = true.
Proof. exact ctor_interp_well_typed_partial. Qed.
Print Assumptions C48_default_destroy_interp_partial.

(* ------------------------------------------------------------------ non-vacuity *)
Open Scope Z_scope.

(* struct P { a: Int; b: String? } *)
Definition exD : struct_env := [[TNum NInt; TOpt TString]].
(* event E(p1: Int?, p2: [Integer], p3: UInt8??, p4: P, p5: Path) *)
Definition exE : event_decl :=
  EventDecl 100 [(1, TOpt (TNum NInt)); (2, TVArr (TAbs AInteger)); (3, TOpt (TOpt (TNum NUInt8)));
                 (4, TStruct 0); (5, TPath PAnyPath)].
(* emit E(p1: 5, p2: [-128, 127] as [Int8], p3: Some(nil), p4: P(6, "x"), p5: /storage/y) *)
Definition exArgs : list val :=
  [VNum NInt 5; VArr (TVArr (TNum NInt8)) [VNum NInt8 (-128); VNum NInt8 127]; VSome VNil;
   VStruct 0 [VNum NInt 6; VSome (VStr 7)]; VPath DStorage 9].

Example C48_ex_emit :
  args_ok exD (ev_params exE) exArgs = true /\
  emit exE exArgs = Ok (Event 100
    [(1, VSome (VNum NInt 5));
     (2, VArr (TVArr (TNum NInt8)) [VNum NInt8 (-128); VNum NInt8 127]);
     (3, VNil); (4, VStruct 0 [VNum NInt 6; VSome (VStr 7)]); (5, VPath DStorage 9)]).
Proof. vm_compute. split; reflexivity. Qed.

(* R0 { x: Int; ResourceDestroyed(a: Int? = self.x) + inherited ResourceDestroyed(s: String = "..") }
   R1 { d: {String: Int}; n0: @R0; ResourceDestroyed(a: Int = self.n0.x, b: Int? = self.d["k"]) } *)
Definition exR : list rdecl :=
  [ [DestroyEvent 200 [(1, TOpt (TNum NInt), DField 0)]; DestroyEvent 201 [(1, TString, DLit (VStr 8))]];
    [DestroyEvent 210 [(1, TNum NInt, DNested 0 0); (2, TOpt (TNum NInt), DDictGet 0 (VStr 11))]] ].
Definition exRv : rval :=
  RVal 1 [VDict TString (TNum NInt) [(VStr 11, VNum NInt 9)]] [RVal 0 [VNum NInt 41] []].

Example C48_ex_destroy :
  destroy ctor_vm exR exRv = Ok
    [Event 201 [(1, VStr 8)]; Event 200 [(1, VSome (VNum NInt 41))];
     Event 210 [(1, VNum NInt 41); (2, VSome (VNum NInt 9))]] /\
  destroy ctor_interp exR exRv = Ok
    [Event 201 [(1, VStr 8)]; Event 200 [(1, VNum NInt 41)];
     Event 210 [(1, VNum NInt 41); (2, VSome (VNum NInt 9))]].
Proof. vm_compute. split; reflexivity. Qed.
