(* C44  Stored-value encodings round-trip and stay stable across versions.
   Property theorems only. Model: C44/Model.v (encoders/decoders transcribed field by field, CBOR
   items as trees, tag numbers from Gen/GenC44Tags.v regenerated from source on every run),
   value well-formedness: C44/Spec.v, proofs: C44/Proofs.v.
   The external behaviours (UTF-8 validity, NFC normalisation, grapheme segmentation) are
   arbitrary functions: the theorems hold for every choice of them. *)
From CV Require Import C44.Model C44.Spec C44.Proofs C44.Cases.

(* every storable value (all number kinds, bool, nil, void, strings, characters, addresses, paths,
   optionals nested to any depth, capabilities, published values, type values, capability
   controllers, the deprecated link/path-capability values) decodes from its encoding to itself *)
Theorem C44_storable_roundtrip :
  forall utf8_valid nfc valid_char v,
    wf_storable utf8_valid nfc valid_char v ->
    dec_storable utf8_valid nfc valid_char (enc_storable v) = Ok v.
Proof. exact storable_roundtrip. Qed.
Print Assumptions C44_storable_roundtrip.

(* every static type (primitive, optional, composite/interface with every location kind,
   variable/constant sized arrays, dictionary, reference with every authorization kind,
   intersection with legacy type, capability, inclusive range) decodes from its encoding to itself *)
Theorem C44_static_type_roundtrip :
  forall utf8_valid t, wf_sty utf8_valid t -> dec_sty utf8_valid (enc_sty t) = Ok t.
Proof. exact sty_roundtrip. Qed.
Print Assumptions C44_static_type_roundtrip.

(* on the image of the encoder, re-encoding the decoded value yields the identical item
   (hence, through the deterministic serializer, identical bytes) *)
Theorem C44_storable_reencode_identical :
  forall utf8_valid nfc valid_char v v',
    wf_storable utf8_valid nfc valid_char v ->
    dec_storable utf8_valid nfc valid_char (enc_storable v) = Ok v' ->
    serialize (enc_storable v') = serialize (enc_storable v).
Proof. intros. f_equal. eapply storable_reencode; eauto. Qed.
Print Assumptions C44_storable_reencode_identical.

Theorem C44_static_type_reencode_identical :
  forall utf8_valid t t',
    wf_sty utf8_valid t -> dec_sty utf8_valid (enc_sty t) = Ok t' ->
    serialize (enc_sty t') = serialize (enc_sty t).
Proof. intros. f_equal. eapply sty_reencode; eauto. Qed.
Print Assumptions C44_static_type_reencode_identical.

(* the tag table extracted from the source of the tree under check: no two kinds share a number,
   every number has the one-byte form the encoders write (0xd8 nn) *)
Theorem C44_tag_table_injective : NoDup cbor_tag_table.
Proof. exact tag_table_injective. Qed.
Print Assumptions C44_tag_table_injective.

Theorem C44_tag_table_one_byte : Forall (fun t => 24 <= t <= 255) cbor_tag_table.
Proof. exact tag_table_one_byte. Qed.
Print Assumptions C44_tag_table_one_byte.

Theorem C44_primitive_type_codes_injective : NoDup prim_table.
Proof. exact prim_table_injective. Qed.
Print Assumptions C44_primitive_type_codes_injective.

(* ------------------------------------------------------------------ the one excluded value *)
(* wf_sty excludes exactly one primitive code: the deprecated PrimitiveStaticTypeCapability, which the
   decoder deliberately maps to the capability static type without borrow type (a migration) *)
Example C44_deprecated_primitive_capability_is_migrated :
  dec_sty (fun _ => true) (enc_sty (TPrimitive prim_Capability)) = Ok (TCapability None).
Proof. vm_compute. reflexivity. Qed.

(* ------------------------------------------------------------------ non-vacuity *)
Definition ex_utf8 (_ : str) := true.
Definition ex_nfc (s : str) := s.
Definition ex_char (s : str) := Z.of_nat (length s) =? 1.

Definition ex_loc := LAddress 66 [67; 111].                    (* 0x42.Co *)
Definition ex_ref :=
  TReference None (AEntSet 0 [[65; 46; 69]; [65; 46; 70]])
    (TIntersection (Some (TPrimitive prim_AnyStruct)) [(ex_loc, [67; 46; 73]); (LString [115], [74])]).
Definition ex_value :=
  VPublished (2 ^ 64 - 1)
    (VCapability 1 (2 ^ 64 - 1)
       (TOptional (TDictionary (TConstSized 3 (TComposite (LTransaction (repeat 7 32)) [83]))
                               (TCapability (Some ex_ref))))).
Definition ex_some := VSome (VSome (VSome (VNum KInt256 (- 2 ^ 255)))).
Definition ex_ctrl := VStorageCapCon ex_ref 7 1 [102; 111; 111].

Ltac leaf :=
  first [ exact I | reflexivity
        | (vm_compute; reflexivity)
        | (vm_compute; let H := fresh in intros H; discriminate H)
        | (repeat constructor; reflexivity) ].

Example C44_ex_wf :
  wf_storable ex_utf8 ex_nfc ex_char ex_value /\ wf_storable ex_utf8 ex_nfc ex_char ex_some
  /\ wf_storable ex_utf8 ex_nfc ex_char ex_ctrl /\ wf_storable ex_utf8 ex_nfc ex_char (VCharacter [97])
  /\ wf_storable ex_utf8 ex_nfc ex_char (VNum KInt (- 2 ^ 300)).
Proof.
  unfold ex_value, ex_some, ex_ctrl, ex_ref, ex_loc.
  cbn [wf_storable wf_sty wf_authz wf_location wf_iface in_range is_reference is_capability fst snd].
  unfold wf_addr, wf_str, wf_iface, wf_location, max_int64. cbn [fst snd empty_type_id].
  timeout 60 (repeat match goal with
         | |- _ /\ _ => split
         | |- Forall _ [] => constructor
         | |- Forall _ (_ :: _) => constructor
         | |- context [fst (_, _)] => cbn [fst snd empty_type_id]; unfold wf_addr, wf_str
         end; leaf).
Qed.

Example C44_ex_roundtrip :
  dec_storable ex_utf8 ex_nfc ex_char (enc_storable ex_value) = Ok ex_value
  /\ dec_storable ex_utf8 ex_nfc ex_char (enc_storable ex_some) = Ok ex_some
  /\ dec_storable ex_utf8 ex_nfc ex_char (enc_storable ex_ctrl) = Ok ex_ctrl.
Proof. vm_compute. repeat split. Qed.

(* the bytes: Some(Some(Some(Int256 min))) = d8 89 82 03 d8 9e c3 58 20 7f ff.. ;  path /storage/foo *)
Example C44_ex_bytes :
  firstn 9 (serialize (enc_storable ex_some)) = [216; tag_SomeValueWithNestedLevels; 130; 3; 216; tag_Int256Value; 195; 88; 32]
  /\ serialize (enc_storable (VPath 1 [102; 111; 111])) = [216; tag_PathValue; 130; 1; 99; 102; 111; 111]
  /\ serialize (enc_storable (VNum KUInt64 (2 ^ 64 - 1))) = [216; tag_UInt64Value; 27; 255; 255; 255; 255; 255; 255; 255; 255].
Proof. vm_compute. repeat split. Qed.

(* the decoders reject what the property says they must: wrong array length, out-of-range numbers,
   wrong inner tags *)
Example C44_ex_rejections :
  dec_storable ex_utf8 ex_nfc ex_char (CTag tag_PathValue (CArr [CUint 1; CText [102]; CUint 0])) = Err Internal
  /\ dec_storable ex_utf8 ex_nfc ex_char (CTag tag_UInt8Value (CUint 256)) = Err Internal
  /\ dec_storable ex_utf8 ex_nfc ex_char (CTag tag_Int8Value (CNint 128)) = Err Internal
  /\ dec_storable ex_utf8 ex_nfc ex_char (CTag tag_CapabilityValue (CArr [CTag tag_PathValue (CBytes [1]); CUint 1; enc_sty (TPrimitive prim_Int)])) = Err Internal
  /\ dec_storable ex_utf8 ex_nfc ex_char (CTag tag_SomeValueWithNestedLevels (CArr [CUint 1; CNil])) = Err Internal.
Proof. vm_compute. repeat split. Qed.
