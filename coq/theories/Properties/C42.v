(* C42  CCF round-trips, is canonical in deterministic mode, and never crashes.
   Property theorems only; model of the encoder in C42/Cbor.v, C42/Ccf.v (tied to /repo by
   byte-exact comparison with the real encoder on every run), proofs in C42/SortProofs.v,
   C42/CcfProofs.v.  Proved: canonical form of the deterministic encoding and the behaviour of
   the decoder's order checks.  The CCF decoder is not modelled: the round trip and freedom from
   panics are established by the correspondence run (Go oracle), not by proof. *)
From CV Require Import C42.Ccf C42.CcfDec C42.Cases C42.SortProofs C42.CcfProofs C42.CcfDecProofs C42.Examples.
From Coq Require Import Permutation Sorting.Sorted String.

(* The sorted order is determined by the entries: any two sorted arrangements of the same
   entries coincide when the order is antisymmetric on them.  So
   sort.Sort in the Go code and the insertion sort of the model produce the same list. *)
Theorem C42_sorted_order_unique :
  forall (A : Type) (le : A -> A -> bool) (l1 l2 : list A),
  Permutation l1 l2 ->
  StronglySorted (fun a b => le a b = true) l1 -> StronglySorted (fun a b => le a b = true) l2 ->
  (forall x y, In x l1 -> In y l1 -> le x y = true -> le y x = true -> x = y) ->
  l1 = l2.
Proof. exact @sorted_perm_unique. Qed.
Print Assumptions C42_sorted_order_unique.

(* Dictionaries: entries in any order (keys with distinct encodings) give the same encoding,
   in every mode (dictionary entries are always sorted by their encoded keys). *)
Theorem C42_canonical_dictionary :
  forall sid env m tids st t l1 l2 c,
  Permutation l1 l2 ->
  NoDup (map (fun kv => match t with
                        | TDict kt _ => option_map cbor_bytes
                            (match enc_value sid env m tids kt (fst kv) with Ok ck => Some ck | Err _ => None end)
                        | _ => None
                        end) l1) ->
  enc_value sid env m tids st (VDict t l1) = Ok c ->
  enc_value sid env m tids st (VDict t l2) = Ok c.
Proof. exact dictionary_canonical. Qed.
Print Assumptions C42_canonical_dictionary.

(* Deterministic mode: intersection members in any order (distinct type IDs) ... *)
Theorem C42_canonical_intersection :
  forall sid tids ts1 ts2 c,
  Permutation ts1 ts2 -> NoDup (map ty_id ts1) ->
  enc_inline sid mode_det tids (TIntersection ts1) = Ok c ->
  enc_inline sid mode_det tids (TIntersection ts2) = Ok c.
Proof. exact intersection_canonical. Qed.
Print Assumptions C42_canonical_intersection.

(* ... entitlements in any order ... *)
Theorem C42_canonical_entitlements :
  forall tv cj e1 e2, Permutation e1 e2 ->
  Ccf.enc_auth mode_det tv (ASet cj e1) = Ccf.enc_auth mode_det tv (ASet cj e2).
Proof. exact entitlements_canonical. Qed.
Print Assumptions C42_canonical_entitlements.

(* ... and type definitions collected in any order give the same message. *)
Theorem C42_canonical_typedefs :
  forall sid env m d1 d2 v, Permutation d1 d2 ->
  ccf_encode sid env m d1 v = ccf_encode sid env m d2 v.
Proof. exact typedefs_canonical. Qed.
Print Assumptions C42_canonical_typedefs.

(* The decoder's dictionary key check (decodeDictionary: non-decreasing raw key bytes) accepts the
   key order of every encoding and rejects any two adjacent keys in descending order. *)
Theorem C42_decoder_accepts_sorted_dictionary :
  forall (B : Type) (ps : list (list Z * B)),
  dict_keys_check (map fst (sort_by (fun x y => bytes_le (fst x) (fst y)) ps)) = true.
Proof. exact @dict_check_accepts_sorted. Qed.
Print Assumptions C42_decoder_accepts_sorted_dictionary.

Theorem C42_decoder_rejects_unsorted_dictionary :
  forall a b pre post, bytes_le a b = false -> dict_keys_check (pre ++ a :: b :: post) = false.
Proof. exact dict_check_rejects_unsorted. Qed.
Print Assumptions C42_decoder_rejects_unsorted_dictionary.

(* The strict decoder's check on field names / type IDs / entitlements (strictly increasing,
   length first) accepts every sorted duplicate-free list of non-empty names and rejects any two
   adjacent names that are not strictly increasing (unsorted or duplicate). *)
Theorem C42_strict_accepts_sorted_names :
  forall names, NoDup names -> ~ In [] names -> names_check (sort_by lenlex_le names) = true.
Proof. exact names_check_accepts_sorted. Qed.
Print Assumptions C42_strict_accepts_sorted_names.

Theorem C42_strict_rejects_unsorted_names :
  forall a b pre post, lenlex_lt a b = false -> names_check (pre ++ a :: b :: post) = false.
Proof. exact names_check_rejects_unsorted. Qed.
Print Assumptions C42_strict_rejects_unsorted_names.

(* Round trip on the concretely typed fragment (default mode): a value v of exactly the static type st
   (simple types, optionals, arrays, dictionaries, ranges, capabilities, composites by reference to
   their definitions; no nil of a nested optional type, no some(())) is decoded from its encoding
   by the model of decodeValue; the result is v with its dictionary entries in the order of their
   encoded keys.  Structural induction over all such values. *)
Theorem C42_ccf_value_roundtrip_partial :
  forall sid env tids valid_char v st c,
  vtyped env valid_char st v -> tfrag st ->
  enc_value sid env mode_default tids st v = Ok c ->
  dec_value valid_char env c st = Ok (cnorm sid env tids v) /\
  (is_cnil c = true -> v = VVoid \/ is_opt st = true).
Proof. exact ccf_value_roundtrip. Qed.
Print Assumptions C42_ccf_value_roundtrip_partial.

(* Round trip: the full statement fails for every conceivable decoder, because the encoding is not
   injective: nil and some(nil) of a nested optional type (and nil / some(()) of Void?) have the
   same encoding. *)
Definition C42_roundtrip_statement (dec : xty -> cbor -> res xval) : Prop :=
  forall st v c, enc_value ccf_sid no_env mode_default [] st v = Ok c -> dec st c = Ok v.
Theorem C42_roundtrip_refuted : forall dec, ~ C42_roundtrip_statement dec.
Proof. exact no_decoder_roundtrips. Qed.
Print Assumptions C42_roundtrip_refuted.

(* non-vacuity *)
Example C42_ex_dictionary :
  d_entries1 <> d_entries2 /\
  ccf_encode ccf_sid no_env mode_det [] (VDict d_type d_entries1) =
  ccf_encode ccf_sid no_env mode_det [] (VDict d_type d_entries2) /\
  option_map cbor_bytes (match ccf_encode ccf_sid no_env mode_det [] (VDict d_type d_entries1) with Ok c => Some c | _ => None end)
  = Some (hx "d88282d88d82d88901d889048860c241046161c241036162c24101626161c24102").
Proof. exact ex_dict_same_bytes. Qed.
Example C42_ex_checks :
  dict_keys_check [hx "60"; hx "6161"; hx "6162"; hx "626161"] = true /\
  dict_keys_check [hx "60"; hx "6162"; hx "6161"; hx "626161"] = false /\
  names_check [sc "a"; sc "b"; sc "aa"] = true /\ names_check [sc "aa"; sc "b"] = false /\
  names_check [sc "a"; sc "a"] = false.
Proof. exact ex_dict_check. Qed.
Example C42_ex_typed : vtyped ex_env any_char (TRef (sc "S.test.S")) ex_typed_value /\ tfrag (TRef (sc "S.test.S")).
Proof. exact ex_typed. Qed.
Example C42_ex_typed_roundtrip :
  exists c, enc_value ccf_sid ex_env mode_default [sc "S.test.S"] (TRef (sc "S.test.S")) ex_typed_value = Ok c /\
            dec_value any_char ex_env c (TRef (sc "S.test.S")) =
              Ok (cnorm ccf_sid ex_env [sc "S.test.S"] ex_typed_value) /\
            cnorm ccf_sid ex_env [sc "S.test.S"] ex_typed_value <> ex_typed_value.
Proof. exact ex_typed_roundtrip. Qed.
Example C42_ex_nested_nil :
  VOptional None <> VOptional (Some (VOptional None)) /\
  enc_value ccf_sid no_env mode_default [] tOptOptInt (VOptional None) =
  enc_value ccf_sid no_env mode_default [] tOptOptInt (VOptional (Some (VOptional None))).
Proof. exact nested_nil_same_encoding. Qed.
Example C42_ex_optional_void :
  VOptional None <> VOptional (Some VVoid) /\
  enc_value ccf_sid no_env mode_default [] tOptVoid (VOptional None) =
  enc_value ccf_sid no_env mode_default [] tOptVoid (VOptional (Some VVoid)).
Proof. exact optional_void_same_encoding. Qed.
