(* C26  Contract deployment, update and removal follow the lifecycle model.
   Property theorems only; proofs are in C26/Proofs.v, definitions in C26/Model.v.

   [run_code e] is the code-shaped machine for engine e (host code map updated immediately and
   discarded by the host on failure, contract values written at commit from the ordered map of
   pending updates, storage health check at commit); [run_spec] is the lifecycle specification
   (one map of deployed sources per account; inside a transaction the names added / touched).
   A history is a list of transactions (scripts are transactions that only read). *)
From CV Require Import C26.Model C26.Proofs.

(* For ALL histories that avoid the two defects of the unchanged tree (guard [ok_hist], judged on
   the specification: no remove of a contract added in the same transaction; interpreter: no
   borrow of a contract added in the same transaction), every per-operation result and every
   event of the code-shaped machine equals the specification's. *)
Theorem C26_refinement_partial : forall e h, ok_hist e s0 h = true -> run_code e h = run_spec h.
Proof. exact refinement. Qed.
Print Assumptions C26_refinement_partial.

(* The unguarded statement is kept as a definition and refuted (known findings
   add-then-remove-same-tx-internal, borrow-after-add-same-tx-crash). *)
Definition C26_statement : Prop := refinement_statement.
Theorem C26_refinement_refuted : ~ C26_statement.
Proof. exact refinement_refuted. Qed.
Print Assumptions C26_refinement_refuted.
Theorem C26_refuted_interpreter_borrow : run_code Interp crash_history <> run_spec crash_history.
Proof. exact refinement_refuted_interp. Qed.
Print Assumptions C26_refuted_interpreter_borrow.
Theorem C26_refuted_add_remove : forall e, run_code e leak_history <> run_spec leak_history.
Proof. exact refinement_refuted_leak. Qed.
Print Assumptions C26_refuted_add_remove.

(* After every guarded history the host's code map is the specification's deployed map, and code
   is deployed exactly where a contract instance is stored (deferred writes were all applied). *)
Theorem C26_final_codes_partial : forall e h,
  ok_hist e s0 h = true ->
  forall a n, codes (snd (c_run e c0 h)) a n = dep (snd (s_run s0 h)) a n.
Proof. exact final_codes_spec. Qed.
Print Assumptions C26_final_codes_partial.
Theorem C26_codes_iff_instances_partial : forall e h,
  ok_hist e s0 h = true ->
  let c := snd (c_run e c0 h) in
  forall a n, codes c a n = None <-> vals c a n = None.
Proof. exact codes_iff_instances. Qed.
Print Assumptions C26_codes_iff_instances_partial.

(* The lifecycle rules (of the specification, hence of the code-shaped machine on guarded
   histories): add fails for an existing name ... *)
Theorem C26_add_fails_if_present : forall st a n src old,
  dep st a n = Some old -> s_step st (OAdd a n src) = (RFail FUser, [], st).
Proof. exact add_fails_if_present. Qed.
Print Assumptions C26_add_fails_if_present.
(* ... update fails for a missing one ... *)
Theorem C26_update_fails_if_absent : forall st a n src,
  dep st a n = None -> s_step st (OUpdate a n src) = (RFail FUser, [], st).
Proof. exact update_fails_if_absent. Qed.
Print Assumptions C26_update_fails_if_absent.
(* ... successful add / update deploy exactly the given valid, correctly named (and, for update,
   compatible) source ... *)
Theorem C26_add_success : forall st a n src ev st',
  s_step st (OAdd a n src) = (RUnit, ev, st') ->
  dep st a n = None /\ check_src n src = None /\ ev = [EvAdded a n src] /\
  dep st' = upd2 (dep st) a n (Some src).
Proof. exact add_success. Qed.
Print Assumptions C26_add_success.
Theorem C26_update_success : forall st a n src ev st',
  s_step st (OUpdate a n src) = (RUnit, ev, st') ->
  exists old, dep st a n = Some old /\ check_src n src = None /\
              src_compat old src = true /\ ev = [EvUpdated a n src] /\
              dep st' = upd2 (dep st) a n (Some src).
Proof. exact update_success. Qed.
Print Assumptions C26_update_success.
(* ... a failed tryUpdate changes nothing (and reports it); tryUpdate never aborts the
   transaction and succeeds exactly when update would, with the same effect ... *)
Theorem C26_try_update_failure_changes_nothing : forall st a n src ev st',
  s_step st (OTryUpdate a n src) = (RBool false, ev, st') -> ev = [] /\ st' = st.
Proof. exact try_update_failure. Qed.
Print Assumptions C26_try_update_failure_changes_nothing.
Theorem C26_try_update_success : forall st a n src ev st',
  s_step st (OTryUpdate a n src) = (RBool true, ev, st') <->
  s_step st (OUpdate a n src) = (RUnit, ev, st').
Proof. exact try_update_success. Qed.
Print Assumptions C26_try_update_success.
Theorem C26_try_update_never_fails : forall st a n src,
  is_fail (fst (fst (s_step st (OTryUpdate a n src)))) = false.
Proof. exact try_update_never_fails. Qed.
Print Assumptions C26_try_update_never_fails.
(* ... remove is refused for contracts declaring enums, and otherwise removes exactly that
   contract (nil when there is none). *)
Theorem C26_remove_enum_refused : forall st a n old,
  dep st a n = Some old -> src_has_enum old = true ->
  s_step st (ORemove a n) = (RFail FRemoval, [], st).
Proof. exact remove_enum_refused. Qed.
Print Assumptions C26_remove_enum_refused.
(* the test is code-shaped (loop over the nested composite declarations in source order, as
   containsEnums); it holds exactly when SOME nested declaration is an enum, wherever it stands *)
Theorem C26_has_enum_iff_declares_enum : forall s, src_has_enum s = true <-> declares_enum s.
Proof. exact has_enum_iff. Qed.
Print Assumptions C26_has_enum_iff_declares_enum.
Theorem C26_remove_semantics : forall st a n,
  match dep st a n with
  | None => s_step st (ORemove a n) = (RNone, [], st)
  | Some old =>
      src_has_enum old = false ->
      exists st', s_step st (ORemove a n) = (RCode old, [EvRemoved a n old], st') /\
                  dep st' = upd2 (dep st) a n None
  end.
Proof. exact remove_semantics. Qed.
Print Assumptions C26_remove_semantics.

(* get / names read the deployed map (also inside the changing transaction: the code is visible
   immediately); names lists exactly the deployed names *)
Theorem C26_get_reads_deployed : forall st a n,
  s_step st (OGet a n) = (match dep st a n with Some s => RCode s | None => RNone end, [], st).
Proof. exact get_reads_deployed. Qed.
Print Assumptions C26_get_reads_deployed.
Theorem C26_names_exact : forall st a n,
  In n (names_of (dep st a) all_names) <-> In n all_names /\ dep st a n <> None.
Proof. intros. apply names_of_spec. Qed.
Print Assumptions C26_names_exact.

(* Transactions: the changes of a successful transaction are the state every later transaction
   (and script) starts from; a failed transaction's changes are invisible; reading changes
   nothing. *)
Theorem C26_tx_commit_visible : forall st ops rs evs st',
  s_run_ops st ops = (rs, evs, st', true) ->
  s_run_tx st ops = ((rs, evs), mkS (dep st') [] []).
Proof. exact tx_commit. Qed.
Print Assumptions C26_tx_commit_visible.
Theorem C26_tx_abort_invisible : forall st ops rs evs st',
  s_run_ops st ops = (rs, evs, st', false) ->
  s_run_tx st ops = ((rs, evs), mkS (dep st) [] []).
Proof. exact tx_abort. Qed.
Print Assumptions C26_tx_abort_invisible.
Theorem C26_reads_change_nothing : forall st ops,
  forallb read_only ops = true -> boundary_s st ->
  snd (s_run_tx st ops) = st /\ snd (fst (s_run_ops st ops)) = st.
Proof. exact reads_change_nothing. Qed.
Print Assumptions C26_reads_change_nothing.

(* ---------------------------------------------------------------- non-vacuity *)
Definition esrc (n v : Z) : source :=
  mkSrc SValid n 0 [mkD KSIface 4 0; mkD KEnum 1 1; mkD KStruct 2 0; mkD KEvent 3 0] v.
Definition ex_history : list (list op) :=
  [[OAdd 1 0 (vsrc 0 0 1); ONames 1; OGet 1 0; OAdd 2 1 (esrc 1 2)];
   [OBorrow 1 0; OUpdate 1 0 (vsrc 0 3 3); OTryUpdate 1 0 (vsrc 0 0 4); OGet 1 0;
    OTryUpdate 1 2 (vsrc 2 0 5); OTryUpdate 1 0 (mkSrc STypeError 0 3 [] 6)];
   [OUpdate 1 0 (vsrc 0 3 7); OAdd 1 1 (vsrc 1 0 8); OPanic];
   [OGet 1 0; ONames 1; ORemove 2 1];
   [ORemove 1 0; OAdd 1 0 (vsrc 0 0 9)];
   [ORemove 1 0; ONames 1; OBorrow 1 0];
   [OAdd 1 0 (mkSrc SInitPanics 0 0 [] 10)];
   [OAdd 1 0 (vsrc 1 0 11)];
   [ONames 1; ONames 2; OGet 2 1; OBorrow 2 1]].

Example C26_ex_guard : ok_hist Interp s0 ex_history = true /\ ok_hist VM s0 ex_history = true.
Proof. vm_compute. auto. Qed.

Example C26_ex_run : run_code Interp ex_history =
  [([RUnit; RNames [0]; RCode (vsrc 0 0 1); RUnit], [EvAdded 1 0 (vsrc 0 0 1); EvAdded 2 1 (esrc 1 2)]);
   ([RBool true; RUnit; RBool false; RCode (vsrc 0 3 3); RBool false; RBool false], [EvUpdated 1 0 (vsrc 0 3 3)]);
   ([RUnit; RUnit; RFail FPanic], [EvUpdated 1 0 (vsrc 0 3 7); EvAdded 1 1 (vsrc 1 0 8)]);
   ([RCode (vsrc 0 3 3); RNames [0]; RFail FRemoval], []);
   ([RCode (vsrc 0 3 3); RFail FUser], [EvRemoved 1 0 (vsrc 0 3 3)]);
   ([RCode (vsrc 0 3 3); RNames []; RBool false], [EvRemoved 1 0 (vsrc 0 3 3)]);
   ([RFail FPanic], []);
   ([RFail FUser], []);
   ([RNames []; RNames [1]; RCode (esrc 1 2); RBool true], [])].
Proof. vm_compute. reflexivity. Qed.

Example C26_ex_refines : run_code VM ex_history = run_spec ex_history.
Proof. vm_compute. reflexivity. Qed.
