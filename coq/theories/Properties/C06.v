(* C06  Entitlement authorization algebra is sound and upcasts never escalate.
   Property theorems only; the model is C06/Model.v (transcribed from sema/access.go,
   sema/type_tags.go, sema/check_member_expression.go), the specification C06/Spec.v
   (holders = arbitrary subsets of an unbounded entitlement universe), the proofs C06/Proofs.v. *)
From CV Require Import C06.Model C06.Spec C06.Proofs.

(* A requirement is satisfied by an authorization exactly per set semantics.
   e.PermitsAccess(other) is true iff every holder that satisfies `other` satisfies `e`
   (conjunction: all listed entitlements held; disjunction: at least one; unauthorized: nothing required).
   All conjunctions/disjunctions including empty ones, except the single corner
   (empty conjunction, unauthorized), see C06_permits_sem_empty_conj_refuted. *)
Theorem C06_permits_sem : forall req have,
  is_authz req = true -> is_authz have = true ->
  ~ (req = ASet Conj [] /\ have = Unauthorized) ->
  (permits req have = true <-> stronger have req).
Proof. exact permits_sem. Qed.
Print Assumptions C06_permits_sem.

(* The raw Go constructor accepts an empty conjunction, which means "nothing required" but is not
   permitted by unauthorized. No checker path builds it (C06_results_well_formed). *)
Theorem C06_permits_sem_empty_conj_refuted :
  exists req have, is_authz req = true /\ is_authz have = true /\
    stronger have req /\ permits req have = false.
Proof. exact permits_sem_empty_conj_refuted. Qed.
Print Assumptions C06_permits_sem_empty_conj_refuted.

Theorem C06_permits_refl : forall a, (forall m, a <> AMap m) -> permits a a = true.
Proof. exact permits_refl. Qed.
Print Assumptions C06_permits_refl.

Theorem C06_permits_trans : forall c b a,
  lang_access a = true -> lang_access b = true -> lang_access c = true ->
  permits c b = true -> permits b a = true -> permits c a = true.
Proof. exact permits_trans. Qed.
Print Assumptions C06_permits_trans.

(* with the internal accesses (AccessNone) the relation is not transitive *)
Theorem C06_permits_trans_internal_refuted :
  exists c b a, permits c b = true /\ permits b a = true /\ permits c a = false.
Proof. exact permits_trans_refuted. Qed.
Print Assumptions C06_permits_trans_internal_refuted.

(* Equal on entitlement sets is: same kind and same elements; it implies mutual PermitsAccess *)
Theorem C06_equal_sets : forall k s k' s',
  equal (ASet k s) (ASet k' s') = true <-> k = k' /\ (forall x, In x s <-> In x s').
Proof. exact equal_sets. Qed.
Print Assumptions C06_equal_sets.

Theorem C06_equal_sound : forall a b,
  (forall m, a <> AMap m) -> equal a b = true -> permits a b = true /\ permits b a = true.
Proof. exact equal_sound. Qed.
Print Assumptions C06_equal_sound.

(* Nested access: the authorization derived by IntersectAccess is permitted by both sources,
   i.e. either source can be used where the result is required: nothing is gained ... *)
Theorem C06_intersect_no_escalation : forall a b,
  ok_access a = true -> ok_access b = true ->
  permits (intersect a b) a = true /\ permits (intersect a b) b = true.
Proof. exact intersect_no_escalation. Qed.
Print Assumptions C06_intersect_no_escalation.

(* ... semantically: every holder satisfying one of the sources satisfies the result *)
Theorem C06_intersect_sem : forall a b H,
  wf_authz a = true -> wf_authz b = true ->
  sat a H \/ sat b H -> sat (intersect a b) H.
Proof. exact intersect_sem. Qed.
Print Assumptions C06_intersect_sem.

(* ... and throughout a nested type (GetDescendantReferenceType / intersectReferenceAuthorizationsInType) *)
Theorem C06_narrow_below_outer : forall t outer,
  wf_authz outer = true -> all_ok t ->
  Forall (fun a => permits a outer = true) (ref_auths (narrow outer t)).
Proof. exact narrow_below_outer. Qed.
Print Assumptions C06_narrow_below_outer.

Theorem C06_narrow_weaker : forall t outer,
  ok_access outer = true -> all_ok t -> ty_weaker (narrow outer t) t.
Proof. exact narrow_weaker. Qed.
Print Assumptions C06_narrow_weaker.

Theorem C06_descendant_below_outer : forall t au outer,
  wf_authz outer = true -> all_ok t ->
  under_opt (descendant_ok au outer (is_ref_under_opt t)) (descendant t au outer).
Proof. exact descendant_below_outer. Qed.
Print Assumptions C06_descendant_below_outer.

(* the least common authorization of two references is an upper bound of both *)
Theorem C06_lca_upper_bound : forall a b,
  wf_authz a = true -> wf_authz b = true ->
  permits (lca a b) a = true /\ permits (lca a b) b = true.
Proof. exact lca_upper_bound. Qed.
Print Assumptions C06_lca_upper_bound.

(* results of the derivations are well formed (never an empty entitlement set) *)
Theorem C06_results_well_formed : forall m a b r,
  (nonempty_sets a = true -> ok_access b = true -> nonempty_sets (intersect a b) = true) /\
  (is_authz a = true -> image m a = Ok r -> wf_authz r = true).
Proof. exact results_well_formed. Qed.
Print Assumptions C06_results_well_formed.

(* Mapping image.  Full statement (kept as a Definition): a holder satisfying the source obtains through
   the mapping a set of entitlements that satisfies the derived authorization. *)
Definition C06_image_sound_statement : Prop := image_sound_statement.

(* FINDING: false for the model of the code (and for the code): a member of a disjunctive source without
   an image still contributes nothing but the other members' images are granted. *)
Theorem C06_image_sound_refuted : ~ C06_image_sound_statement.
Proof. exact image_sound_refuted. Qed.
Print Assumptions C06_image_sound_refuted.

(* True under the exact guard: every member of a disjunctive source has a non-empty image. *)
Theorem C06_image_sound_partial : forall m a r H,
  is_authz a = true -> disj_total m a = true ->
  image m a = Ok r -> sat a H -> sat r (map_holder m H).
Proof. exact image_sound_partial. Qed.
Print Assumptions C06_image_sound_partial.

(* Upcasts.  Full statement: what is reached through the supertype reference is reached through the subtype
   with at least that authorization (or the subtype access is rejected). *)
Definition C06_upcast_statement : Prop := upcast_statement.

Theorem C06_upcast_refuted : ~ C06_upcast_statement.
Proof. exact upcast_refuted. Qed.
Print Assumptions C06_upcast_refuted.

Theorem C06_image_monotone_partial : forall m sub sup rsub rsup,
  wf_authz sub = true -> wf_authz sup = true ->
  permits sup sub = true ->
  image m sup = Ok rsup -> image m sub = Ok rsub ->
  disj_total m sup = true \/ rsup = Unauthorized ->
  permits rsup rsub = true.
Proof. exact image_monotone_partial. Qed.
Print Assumptions C06_image_monotone_partial.

Theorem C06_upcast_no_escalation_partial : forall sub sup mb rsup,
  wf_authz sub = true -> wf_authz sup = true ->
  ref_subtype sub sup = true ->
  match mb with
  | MEnt req => lang_access req = true
  | MMapped m => disj_total m sup = true \/ rsup = Unauthorized
  end ->
  member_via sup mb = Reached rsup ->
  match member_via sub mb with
  | Reached rsub => permits rsup rsub = true
  | Rejected =>
      exists m s, mb = MMapped m /\ sub = ASet Disj s /\
                  exists e, In e s /\ 1 < Z.of_nat (length (ent_image m e))
  end.
Proof. exact upcast_no_escalation_partial. Qed.
Print Assumptions C06_upcast_no_escalation_partial.

(* ---- non-vacuity: concrete instances *)
Example C06_ex_permits :
  permits (ASet Conj [1; 2]) (ASet Conj [3; 2; 1]) = true /\        (* auth(1,2,3) satisfies access(1,2) *)
  permits (ASet Conj [1; 2]) (ASet Conj [1]) = false /\
  permits (ASet Disj [1; 2]) (ASet Conj [2; 4]) = true /\           (* auth(2,4) satisfies access(1|2) *)
  permits (ASet Disj [1; 2]) (ASet Disj [1; 3]) = false /\
  permits (ASet Conj [1]) (ASet Disj [1; 1]) = true /\              (* one-element disjunction *)
  permits (ASet Conj [1]) Unauthorized = false /\
  permits Unauthorized (ASet Disj [1; 2]) = true.
Proof. vm_compute. repeat split. Qed.

Example C06_ex_intersect :
  intersect (ASet Conj [1; 2]) (ASet Conj [2; 3]) = ASet Conj [2] /\
  intersect (ASet Conj [1; 2; 3]) (ASet Disj [1; 2]) = ASet Disj [1; 2] /\
  intersect (ASet Conj [1]) (ASet Disj [1; 2]) = Unauthorized /\
  intersect (ASet Disj [1; 2]) (ASet Disj [1; 2]) = Unauthorized /\
  narrow (ASet Conj [1; 2]) (TVar (TRef (ASet Conj [2; 3]) (TOpt (TRef (ASet Conj [2; 3]) (TBase 0)))))
    = TVar (TRef (ASet Conj [2]) (TOpt (TRef (ASet Conj [2]) (TBase 0)))).
Proof. vm_compute. repeat split. Qed.

Example C06_ex_image :
  let m := {| rels := [(1, 10); (1, 11); (2, 12)]; incl_id := false |} in
  image m (ASet Conj [1; 2]) = Ok (ASet Conj [10; 11; 12]) /\
  image m (ASet Disj [1; 2]) = Err UserOther /\
  image m (ASet Disj [2; 3]) = Ok (ASet Disj [12]) /\              (* the defect: 3 has no image *)
  disj_total m (ASet Disj [2; 3]) = false /\
  image m (ASet Conj [3]) = Ok Unauthorized /\
  image {| rels := [(1, 10)]; incl_id := true |} (ASet Disj [1; 2]) = Err UserOther /\
  image {| rels := []; incl_id := true |} (ASet Disj [1; 2]) = Ok (ASet Disj [1; 2]).
Proof. vm_compute. repeat split. Qed.

(* the guarded upcast theorem applies to a non-trivial instance: auth(1,2) <: auth(1|2), mapping total on {1,2} *)
Example C06_ex_upcast :
  let m := {| rels := [(1, 10); (2, 11)]; incl_id := false |} in
  wf_authz (ASet Conj [1; 2]) = true /\ wf_authz (ASet Disj [1; 2]) = true /\
  ref_subtype (ASet Conj [1; 2]) (ASet Disj [1; 2]) = true /\
  disj_total m (ASet Disj [1; 2]) = true /\
  member_via (ASet Disj [1; 2]) (MMapped m) = Reached (ASet Disj [10; 11]) /\
  member_via (ASet Conj [1; 2]) (MMapped m) = Reached (ASet Conj [10; 11]) /\
  permits (ASet Disj [10; 11]) (ASet Conj [10; 11]) = true.
Proof. vm_compute. repeat split. Qed.
