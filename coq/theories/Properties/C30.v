(* C30  Every execution is bounded by the metering and depth limits.
   Property theorems only; proofs are in C30/Proofs.v, the machine in C30/Model.v. *)
From CV Require Import C30.Model C30.Proofs.

(* bounded_execution: for ALL cost profiles that meter every statement and every loop iteration (>= 1), ALL
   programs (function table + main) and ALL finite limits, the run reaches a final state within
   2 * (computation limit) + 1 machine steps, and the final state is a normal result, a computation-limit,
   memory-limit or call-depth error (user errors), or the rejection of an ill-scoped program (unbound function,
   break outside a loop: programs the checker never lets run). *)
Theorem C30_bounded_execution : forall pr lim funs main,
  metered pr -> 0 <= l_comp lim ->
  exists n f, (n <= 2 * Z.to_nat (l_comp lim) + 1)%nat
              /\ steps pr lim funs n (init pr lim main) = inr f /\ final_ok f.
Proof.
  intros pr lim funs main Hm H0.
  destruct (bounded pr lim funs Hm (init pr lim main) H0) as (n & f & Hn & Hs & Hf).
  exists n, f. split; [|split; assumption].
  unfold measure, init in Hn. simpl in Hn. rewrite n_open_stmts in Hn. lia.
Qed.
Print Assumptions C30_bounded_execution.

(* both engines' profiles meter every statement and loop iteration *)
Theorem C30_engines_metered : metered interp_profile /\ metered vm_profile.
Proof. unfold metered, interp_profile, vm_profile; simpl; repeat split; lia. Qed.
Print Assumptions C30_engines_metered.

Theorem C30_bounded_both_engines : forall vm lim funs main, 0 <= l_comp lim ->
  let pr := if vm : bool then vm_profile else interp_profile in
  exists n f, (n <= 2 * Z.to_nat (l_comp lim) + 1)%nat
              /\ steps pr lim funs n (init pr lim main) = inr f /\ final_ok f.
Proof.
  intros vm lim funs main H0. destruct vm; simpl;
    apply C30_bounded_execution; auto; apply C30_engines_metered.
Qed.
Print Assumptions C30_bounded_both_engines.

(* the depth counter is exact (= calls in progress, + 1 where the entry point is counted) and never exceeds the
   limit: in every reachable state at most l_depth calls are nested, so the depth check trips before call
   number l_depth + 1 *)
Theorem C30_depth_bounded : forall pr lim funs main n c,
  steps pr lim funs n (init pr lim main) = inl c ->
  depth c = (if count_main pr then 1 else 0) + Z.of_nat (n_ret (k c))
  /\ depth c <= Z.max (if count_main pr then 1 else 0) (l_depth lim).
Proof.
  intros pr lim funs main n c H.
  exact (steps_depth pr lim funs n _ _ (init_depth pr lim main) H).
Qed.
Print Assumptions C30_depth_bounded.

(* every form of call made by a statement is balanced: after the statement's calls (user-defined callees at any
   nesting, built-ins, optional-chaining invocations on nil that invoke nothing) the call depth, the continuation
   and the variables are what they were before; so the depth limit is reached exactly by the calls in progress *)
Theorem C30_calls_balanced : forall pr lim a c c',
  eval_aux pr lim a c = inl c' -> depth c' = depth c /\ k c' = k c /\ r c' = r c.
Proof.
  intros pr lim a c c' H. destruct (eval_aux_frame pr lim a c c' H) as (A & B & C). auto.
Qed.
Print Assumptions C30_calls_balanced.

(* the metering hypothesis is necessary: if loop iterations are not metered, `while true {}` runs forever
   whatever the limits *)
Theorem C30_unmetered_loop_diverges : forall lim funs n c,
  k c = [KLoop BTrue []] -> 0 <= comp_left c ->
  exists c', steps unmetered_loops lim funs n c = inl c'.
Proof. exact unmetered_loop_diverges. Qed.
Print Assumptions C30_unmetered_loop_diverges.

(* ---- non-vacuity: concrete programs ---- *)
Definition L (c : Z) (m : option Z) (d : Z) := mk_limits c m d.
(* while true { x0 = x0 + 1 } *)
Definition p_spin : list stmt := [SWhile BTrue [SAssign 0 (EAdd (EVar 0) (EConst 1))]].
(* var a = []; while true { a.append(1) } *)
Definition p_grow : list stmt := [SDeclArr 4; SWhile BTrue [SAppend 4 (EConst 1)]].
(* var s = "ab"; while true { s = s.concat(s) } *)
Definition p_double : list stmt := [SDeclStr 5; SWhile BTrue [SConcat 5]].
(* fun f0(n) { x2 = f0(n + 1); return x2 }   main: x0 = f0(0) *)
Definition f_rec : list (list stmt) := [[SCall 2 0 [EAdd (EVar 0) (EConst 1)]; SReturn (EVar 2)]].
Definition p_rec : list stmt := [SCall 0 0 [EConst 0]; SReturn (EVar 0)].
(* x0 = 0; while x0 < 3 { x0 = x0 + 1 }; return x0 *)
Definition p_count : list stmt :=
  [SAssign 0 (EConst 0); SWhile (BLt (EVar 0) (EConst 3)) [SAssign 0 (EAdd (EVar 0) (EConst 1))]; SReturn (EVar 0)].

Example C30_ex_spin :
  run_pow interp_profile (L 1000 None 2000) [] 20 (init interp_profile (L 1000 None 2000) p_spin)
  = inr (FLimit LimitComputation)
  /\ run_pow vm_profile (L 1000 None 2000) [] 20 (init vm_profile (L 1000 None 2000) p_spin)
  = inr (FLimit LimitComputation).
Proof. vm_compute. split; reflexivity. Qed.
Example C30_ex_grow :
  run_pow interp_profile (L 100000 (Some 500) 2000) [] 20 (init interp_profile (L 100000 (Some 500) 2000) p_grow)
  = inr (FLimit LimitMemory).
Proof. vm_compute. reflexivity. Qed.
Example C30_ex_double :
  run_pow vm_profile (L 100000 (Some 1000000) 2000) [] 20 (init vm_profile (L 100000 (Some 1000000) 2000) p_double)
  = inr (FLimit LimitComputation)
  /\ run_pow vm_profile (L 100000 (Some 1000) 2000) [] 20 (init vm_profile (L 100000 (Some 1000) 2000) p_double)
  = inr (FLimit LimitMemory).
Proof. vm_compute. split; reflexivity. Qed.
Example C30_ex_rec :
  run_pow interp_profile (L 1000000 None 50) f_rec 20 (init interp_profile (L 1000000 None 50) p_rec)
  = inr (FLimit LimitDepth)
  /\ run_pow vm_profile (L 1000000 None 50) f_rec 20 (init vm_profile (L 1000000 None 50) p_rec)
  = inr (FLimit LimitDepth).
Proof. vm_compute. split; reflexivity. Qed.
(* charges of the two engines on a terminating loop: statements 9 vs 6 (next-test charge), loops 3, invocations 1 *)
Example C30_ex_count :
  run_pow interp_profile (L 1000 None 2000) [] 10 (init interp_profile (L 1000 None 2000) p_count)
  = inr (FDone 3 9 3 1 0)
  /\ run_pow vm_profile (L 1000 None 2000) [] 10 (init vm_profile (L 1000 None 2000) p_count)
  = inr (FDone 3 6 3 1 0).
Proof. vm_compute. split; reflexivity. Qed.

(* Both engines, under the CONFIGURED limit: in every reachable state at most l_depth calls are in progress
   (the VM also counts the entry point, so one less), i.e. recursion deeper than the configured limit is
   impossible in either engine; the run then ends with LimitDepth (examples below).
   (Before fix 0182225 the VM ignored the configured limit; the refuted statement was removed with the fix.) *)
Theorem C30_depth_limit_both_engines : forall (vm : bool) lim funs main n c,
  let pr := if vm then vm_profile else interp_profile in
  0 <= l_depth lim ->
  steps pr lim funs n (init pr lim main) = inl c ->
  Z.of_nat (n_ret (k c)) <= l_depth lim.
Proof.
  intros vm lim funs main n c pr Hd H.
  destruct (C30_depth_bounded pr lim funs main n c H) as [E L].
  unfold pr in E, L. destruct vm; cbn [count_main vm_profile interp_profile] in E, L; lia.
Qed.
Print Assumptions C30_depth_limit_both_engines.

(* recursion 30 deep under a configured limit of 10: call-depth error in both engines; 9 deep: fine in both *)
Definition f_rec30 : list (list stmt) :=
  [[SIf (BLt (EVar 0) (EConst 1)) [SReturn (EConst 0)] []; SCall 2 0 [ESub (EVar 0) (EConst 1)]; SReturn (EVar 2)]].
Example C30_ex_configured_limit :
  run_pow interp_profile (L 100000 None 10) f_rec30 12
    (init interp_profile (L 100000 None 10) [SCall 0 0 [EConst 30]; SReturn (EVar 0)]) = inr (FLimit LimitDepth)
  /\ run_pow vm_profile (L 100000 None 10) f_rec30 12
    (init vm_profile (L 100000 None 10) [SCall 0 0 [EConst 30]; SReturn (EVar 0)]) = inr (FLimit LimitDepth)
  /\ (exists a b d e, run_pow interp_profile (L 100000 None 10) f_rec30 12
    (init interp_profile (L 100000 None 10) [SCall 0 0 [EConst 7]; SReturn (EVar 0)]) = inr (FDone 0 a b d e))
  /\ (exists a b d e, run_pow vm_profile (L 100000 None 10) f_rec30 12
    (init vm_profile (L 100000 None 10) [SCall 0 0 [EConst 7]; SReturn (EVar 0)]) = inr (FDone 0 a b d e)).
Proof. vm_compute. repeat split; repeat eexists. Qed.
