(* Property C01: checker-accepted programs never fail with internal errors.

   Model: coq/theories/C01 (typed mini-Cadence: Syntax, Check = the type checker producing the
   elaborated program, Interp = definitional interpreter with fuel whose [Err Internal] outcomes
   sit exactly at the defensive checks of /repo/interpreter).  The theorems below quantify over
   ALL programs of the model, all well-typed arguments of main and all fuels. *)
From CV Require Import C01.Proofs.

(* ------------------------------------------------------------------ the property on the model *)

(* The interpreter in which the value of a conditional expression is converted/boxed to the
   checker's join type (what the language definition requires: an expression of type T? evaluates
   to nil or Some): an accepted program run on well-typed arguments never hits a defensive check -
   the outcome is a value, a user error or OutOfFuel. *)
Theorem C01_interp_sound :
  forall p p' args, check_program p = Some p' -> wt_args p' args ->
  forall fuel, ~ is_internal (run true fuel p' args).
Proof.
  intros p p' args Hc Ha fuel.
  pose proof (run_sound false true (fun H => False_ind _ (Bool.diff_true_false H)) p p' Hc fuel args Ha) as H.
  destruct (run true fuel p' args) as [v|e]; simpl; [tauto|]. destruct e; tauto.
Qed.
Print Assumptions C01_interp_sound.

(* type preservation at the top: a value returned by main has main's declared return type *)
Theorem C01_interp_result_typed :
  forall p p' args fuel v, check_program p = Some p' -> wt_args p' args ->
  run true fuel p' args = Ok v ->
  exists fd, nth_error (p_funs p') O = Some fd /\ wt (p_decls p') v (fn_ret fd) = true.
Proof.
  intros p p' args fuel v Hc Ha Hr.
  pose proof (run_sound false true (fun H => False_ind _ (Bool.diff_true_false H)) p p' Hc fuel args Ha) as H.
  rewrite Hr in H. exact H.
Qed.
Print Assumptions C01_interp_result_typed.

(* The full-strength statement for the interpreter AS WRITTEN in /repo
   (interpreter_expression.go VisitConditionalExpression returns the branch value unconverted). *)
Definition C01_interp_as_written_statement : Prop :=
  forall p p' args, check_program p = Some p' -> wt_args p' args ->
  forall fuel, ~ is_internal (run false fuel p' args).

(* struct S { var a: Int8 }  fun main(c: Bool): Int8? { let s = S(3); return (c ? s : nil)?.a } *)
Definition refuting_program : program :=
  mkProg [(false, [TInt8])]
         [mkFun [TBool] (TOpt TInt8)
                (BCons (SLet None (ECtor 0 (EMore (ELit8 3) TVoid ENone)) TVoid TVoid)
                (BCons (SReturn (Some (EOptMember (ECond (EVar 0) (EVar 1) ENil TVoid TVoid TVoid) 0 TVoid))
                                TVoid TVoid) BNil))].

(* It is false: the member-access defensive check fires (MemberAccessTypeError in /repo). *)
Theorem C01_interp_as_written_refuted :
  exists p p' args fuel,
    check_program p = Some p' /\ wt_args p' args /\ run false fuel p' args = Err Internal.
Proof.
  exists refuting_program.
  destruct (check_program refuting_program) as [p'|] eqn:E; [|vm_compute in E; discriminate].
  exists p', [VBool true], 100%nat.
  vm_compute in E. inversion E; subst. vm_compute. repeat split; reflexivity.
Qed.
Print Assumptions C01_interp_as_written_refuted.

Theorem C01_interp_as_written_statement_false : ~ C01_interp_as_written_statement.
Proof.
  intro H. destruct C01_interp_as_written_refuted as (p & p' & args & fuel & Hc & Ha & Hr).
  apply (H p p' args Hc Ha fuel). rewrite Hr. exact I.
Qed.
Print Assumptions C01_interp_as_written_statement_false.

(* Under the exact guard that excludes the defect - every conditional expression's branch types
   equal their join type, so that no boxing is owed - the interpreter as written is sound. *)
Theorem C01_interp_as_written_partial :
  forall p p' args, check_program_uniform_cond p = Some p' -> wt_args p' args ->
  forall fuel, ~ is_internal (run false fuel p' args).
Proof.
  intros p p' args Hc Ha fuel.
  pose proof (run_sound true false (fun _ => eq_refl) p p' Hc fuel args Ha) as H.
  destruct (run false fuel p' args) as [v|e]; simpl; [tauto|]. destruct e; tauto.
Qed.
Print Assumptions C01_interp_as_written_partial.

(* ------------------------------------------------------------------ non-vacuity *)

(* struct S { var a: Int8; var b: Int8? }   resource R { var v: Int }
   fun main(c: Bool): Int8? {
     let s = S(3, nil); let r <- create R(10); let o = (c ? s : nil)?.a
     var arr: [Int8?] = [1, nil]; arr.append(o); var total: Int8 = 0
     for e in arr { total = total + (e ?? 1) }
     var d: {String: Int8} = {"k": total}; d["j"] = o
     let z = f(o, <- r)
     while total < 100 { total = total + z; if total > 50 { break } }
     return d["j"] ?? (arr[2] as? Int8) }
   fun f(x: Int8?, r: @R): Int8 { let y = x ?? 7; let n = r.v; destroy r; return y } *)
Definition ex_decls : decls := [(false, [TInt8; TOpt TInt8]); (true, [TInt])].
Definition V := TVoid.
Definition ex_main : fundef :=
  mkFun [TBool] (TOpt TInt8)
   (BCons (SLet None (ECtor 0 (EMore (ELit8 3) V (EMore ENil V ENone))) V V)
   (BCons (SLet None (ECtor 1 (EMore (ELitInt 10) V ENone)) V V)
   (BCons (SLet None (EOptMember (ECond (EVar 0) (EVar 1) ENil V V V) 0 V) V V)
   (BCons (SLet (Some (TArr (TOpt TInt8))) (EArr (EMore (ELit8 1) V (EMore ENil V ENone)) (TOpt TInt8)) V V)
   (BCons (SAppend (TgVar 4) (EVar 3) V V)
   (BCons (SLet (Some TInt8) (ELit8 0) V V)
   (BCons (SFor (EVar 4) V
            (BCons (SAssign (TgVar 5) (EBin BAdd (EVar 5) (ECoalesce (EVar 6) (ELit8 1) V V V)) V V) BNil))
   (BCons (SLet (Some (TDict TStr TInt8)) (EDict (EMore (EStr [107]) V (EMore (EVar 5) V ENone)) TStr TInt8) V V)
   (BCons (SAssign (TgIndex (TgVar 6) (EStr [106])) (EVar 3) V V)
   (BCons (SLet None (ECall 1 (EMore (EVar 3) V (EMore (EMove 2) V ENone))) V V)
   (BCons (SWhile (EBin BLt (EVar 5) (ELit8 100))
            (BCons (SAssign (TgVar 5) (EBin BAdd (EVar 5) (EVar 7)) V V)
            (BCons (SIf (EBin BGt (EVar 5) (ELit8 50)) (BCons SBreak BNil) BNil) BNil)))
   (BCons (SReturn (Some (ECoalesce (EIndex (EVar 6) (EStr [106]) V V V)
                                    (ECast CFailable (EIndex (EVar 4) (ELitInt 2) V V V) V TInt8) V V V)) V V)
    BNil)))))))))))).
Definition ex_f : fundef :=
  mkFun [TOpt TInt8; TRes 1] TInt8
   (BCons (SLet None (ECoalesce (EVar 0) (ELit8 7) V V V) V V)
   (BCons (SLet None (EMember (EVar 1) 0 V) V V)
   (BCons (SDestroy (EMove 1))
   (BCons (SReturn (Some (EVar 2)) V V) BNil)))).
Definition ex_prog : program := mkProg ex_decls [ex_main; ex_f].

(* the hypotheses of C01_interp_sound are satisfiable by a program that exercises every guarded
   operation (transfers with boxing, member access on a conditional, resource move, index, cast, ...) *)
Example ex_accepted : exists p', check_program ex_prog = Some p' /\ wt_args p' [VBool true] /\
                                 run true 200 p' [VBool true] = Ok (VSome (VI8 3)) /\
                                 run true 200 p' [VBool false] = Ok VNil.
Proof.
  destruct (check_program ex_prog) as [p'|] eqn:E; [|vm_compute in E; discriminate].
  exists p'. vm_compute in E. inversion E; subst. vm_compute. repeat split; reflexivity.
Qed.

(* the same program is rejected by the guarded checker (its conditional needs boxing) and fails
   with Internal in the interpreter as written *)
Example ex_guard_excludes : check_program_uniform_cond ex_prog = None.
Proof. vm_compute. reflexivity. Qed.

(* ... while the guard does accept programs with conditionals whose branches already have the join type *)
Definition ex_uniform : program :=
  mkProg [] [mkFun [TBool; TOpt TInt8] TInt8
               (BCons (SReturn (Some (ECoalesce (ECond (EVar 0) (EVar 1) (ECast CStatic ENil V (TOpt TInt8)) V V V)
                                                (ELit8 9) V V V)) V V) BNil)].
Example ex_uniform_accepted : exists p', check_program_uniform_cond ex_uniform = Some p' /\
                                         wt_args p' [VBool true; VSome (VI8 4)] /\
                                         run false 100 p' [VBool true; VSome (VI8 4)] = Ok (VI8 4).
Proof.
  destruct (check_program_uniform_cond ex_uniform) as [p'|] eqn:E; [|vm_compute in E; discriminate].
  exists p'. vm_compute in E. inversion E; subst. vm_compute. repeat split; reflexivity.
Qed.

(* the checker does reject ill-typed programs: T? assigned to T, missing return, use after move *)
Example ex_reject_opt_to_nonopt :
  check_program (mkProg [] [mkFun [TOpt TInt8] TInt8
     (BCons (SLet (Some TInt8) (EVar 0) V V) (BCons (SReturn (Some (EVar 1)) V V) BNil))]) = None.
Proof. vm_compute. reflexivity. Qed.

Example ex_reject_missing_return :
  check_program (mkProg [] [mkFun [TBool] TInt8
     (BCons (SIf (EVar 0) (BCons (SReturn (Some (ELit8 1)) V V) BNil) BNil) BNil)]) = None.
Proof. vm_compute. reflexivity. Qed.

Example ex_reject_use_after_move :
  check_program (mkProg [(true, [])] [mkFun [] TVoid
     (BCons (SLet None (ECtor 0 ENone) V V)
     (BCons (SDestroy (EMove 0)) (BCons (SDestroy (EMove 0)) BNil)))]) = None.
Proof. vm_compute. reflexivity. Qed.

(* guard: the else block must definitely exit. `while c { guard let x = o else { if false { break } } }`
   - the shape a checker that only tests "maybe jumped" would accept - is rejected; with `else { break }`
   it is accepted, and when the binding fails the loop is left *)
Definition guard_prog (els : block) : program :=
  mkProg [] [mkFun [TBool; TOpt TInt8] TInt8
     (BCons (SWhile (EVar 0)
               (BCons (SGuardLet (EVar 1) V els (BCons (SReturn (Some (EVar 2)) V V) BNil)) BNil))
     (BCons (SReturn (Some (ELit8 7)) V V) BNil))].

Example ex_reject_guard_else_falls_through :
  check_program (guard_prog (BCons (SIf (EBool false) (BCons SBreak BNil) BNil) BNil)) = None /\
  check_program (guard_prog BNil) = None.
Proof. vm_compute. split; reflexivity. Qed.

Example ex_accept_guard_else_break :
  exists p', check_program (guard_prog (BCons SBreak BNil)) = Some p' /\
             run true 100 p' [VBool true; VNil] = Ok (VI8 7) /\
             run true 100 p' [VBool true; VSome (VI8 3)] = Ok (VI8 3).
Proof.
  destruct (check_program (guard_prog (BCons SBreak BNil))) as [p'|] eqn:E; [|vm_compute in E; discriminate].
  exists p'. vm_compute in E. inversion E; subst. vm_compute. repeat split; reflexivity.
Qed.
