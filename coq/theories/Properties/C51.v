(* C51  Internal ordered collections behave like their models.
   Property theorems only; models in C51/*Model.v, proofs in C51/*Proofs.v.
   Every theorem quantifies over ALL operation histories (lists of operations). *)
From CV Require Import C51.OMapModel C51.BiMapModel C51.PSetModel C51.ITreeModel.
From CV Require C51.OMapProofs C51.BiMapProofs C51.PSetProofs C51.ITreeProofs.

(* ================= ordered map (common/orderedmap) ================= *)

(* A map that starts as the zero value (OrderedMap{}, `pairs` nil until the first write) answers every
   history exactly as the association list in insertion order does ... *)
Theorem C51_omap_zero : forall ops, om_run om_zero ops = sp_run [] ops.
Proof. exact OMapProofs.om_zero_refines. Qed.
Print Assumptions C51_omap_zero.

(* ... and so does a map created by orderedmap.New. *)
Theorem C51_omap_new : forall ops, om_run om_new ops = sp_run [] ops.
Proof. exact OMapProofs.om_new_refines. Qed.
Print Assumptions C51_omap_new.

(* What the specification promises about order: setting a present key keeps every key where it is,
   a new key goes to the end, lookups follow the last write, delete removes exactly that key. *)
Theorem C51_omap_reinsert_keeps_position : forall l k v,
  ahas k l = true -> map fst (sp_set l k v) = map fst l.
Proof. exact OMapProofs.sp_set_existing_keeps_order. Qed.
Print Assumptions C51_omap_reinsert_keeps_position.
Theorem C51_omap_new_key_appended : forall l k v, ahas k l = false -> sp_set l k v = l ++ [(k, v)].
Proof. exact OMapProofs.sp_set_new_appends. Qed.
Print Assumptions C51_omap_new_key_appended.
Theorem C51_omap_lookup_after_set : forall l k v k',
  alookup k' (sp_set l k v) = if k' =? k then Some v else alookup k' l.
Proof. exact OMapProofs.sp_set_lookup. Qed.
Print Assumptions C51_omap_lookup_after_set.
Theorem C51_omap_lookup_after_delete : forall l k k',
  alookup k' (sp_del l k) = if k' =? k then None else alookup k' l.
Proof. exact OMapProofs.sp_del_lookup. Qed.
Print Assumptions C51_omap_lookup_after_delete.

(* ================= bidirectional map (common/bimap) ================= *)
Theorem C51_bimap_refines : forall ops, bm_run bm_new ops = bs_run [] ops.
Proof. exact BiMapProofs.bm_refines. Qed.
Print Assumptions C51_bimap_refines.

(* after every history forward and backward are mutually inverse *)
Theorem C51_bimap_inverse : forall ops k v,
  bm_get (BiMapProofs.bm_after ops) k = Some v <-> bm_get_inv (BiMapProofs.bm_after ops) v = Some k.
Proof. exact BiMapProofs.bm_get_roundtrip. Qed.
Print Assumptions C51_bimap_inverse.

(* ================= persistent ordered set (common/persistent) ================= *)
(* contains / forEach / isEmpty = the concatenation of the own items along self :: ancestors *)
Theorem C51_pset_refines : forall ops, ps_run [] ops = s_run [] ops.
Proof. exact PSetProofs.ps_refines. Qed.
Print Assumptions C51_pset_refines.

(* after ANY history, writing to a set changes no observation of any of its proper ancestors *)
Theorem C51_pset_write_never_affects_ancestor : forall ops h w g q,
  PSetProofs.ancestor (PSetProofs.ps_after ops) h g ->
  PSetProofs.writes h w = true -> PSetProofs.reads g q = true ->
  snd (ps_step (fst (ps_step (PSetProofs.ps_after ops) w)) q) = snd (ps_step (PSetProofs.ps_after ops) q).
Proof. exact PSetProofs.ps_write_never_affects_ancestor. Qed.
Print Assumptions C51_pset_write_never_affects_ancestor.

(* a clone starts with exactly the items of its parent *)
Theorem C51_pset_clone_view : forall sh p,
  s_valid sh p = true -> s_view (s_new sh (Some p)) (length sh) = s_view sh p.
Proof. exact PSetProofs.s_clone_view. Qed.
Print Assumptions C51_pset_clone_view.

(* histories that only use existing sets never hit the model's invalid-handle outcome *)
Theorem C51_pset_valid_no_crash : forall ops, hist_valid 0 ops = true -> ~ In VCrash (ps_run [] ops).
Proof. exact PSetProofs.ps_valid_no_crash. Qed.
Print Assumptions C51_pset_valid_no_crash.

(* ================= interval search tree (common/intervalst) ================= *)
(* For EVERY choice list (every behaviour of math/rand) and every history, each answer is one the
   plain list of entries allows: SearchAll = exactly the entries containing p (as a multiset),
   Search/SearchInterval/Get/Contains present iff some entry matches, and the entry returned matches. *)
Theorem C51_itree_conforms : forall cs ops, conforms [] ops (it_run cs Leaf ops).
Proof. exact ITreeProofs.it_conforms. Qed.
Print Assumptions C51_itree_conforms.

(* BST order on (Min,Max), cached maxima and sizes hold after every history, for every choice list *)
Theorem C51_itree_invariant : forall ops cs, ITreeProofs.wf (fst (ITreeProofs.it_after cs ops)).
Proof. exact ITreeProofs.it_after_wf. Qed.
Print Assumptions C51_itree_invariant.

(* insertion never dereferences nil in a rotation *)
Theorem C51_itree_no_crash : forall cs ops, ~ In ICrash (it_run cs Leaf ops).
Proof. exact ITreeProofs.it_no_crash. Qed.
Print Assumptions C51_itree_no_crash.

(* on a well-formed tree SearchAll returns precisely the matching entries, in pre-order *)
Theorem C51_itree_search_all_exact : forall t p, ITreeProofs.wf t ->
  snd (t_search_all t p []) = filter (e_contains p) (ITreeProofs.elems t).
Proof. exact ITreeProofs.search_all_exact. Qed.
Print Assumptions C51_itree_search_all_exact.

(* ================= non-vacuity ================= *)
(* a zero-value history: queries before the first write, then re-insertion, deletion and iteration *)
Example C51_ex_omap :
  let ops := [OForAny 5; OForAll 5; OSet 1 10; OSet 2 20; OSet 1 11; OForeach; ODelete 1; OSet 1 12; OForeach; OForAny 2; ONext 2] in
  om_run om_zero ops = [VBool false; VBool true; VOpt None; VOpt None; VOpt (Some 10); VList [(1, 11); (2, 20)]; VOpt (Some 11);
                        VOpt None; VList [(2, 20); (1, 12)]; VBool true; VPair (Some (1, 12))].
Proof. vm_compute. reflexivity. Qed.

Example C51_ex_bimap :
  bm_run bm_new [BInsert 1 10; BInsert 2 10; BGet 1; BGetInv 10; BInsert 2 20; BGetInv 10; BSize]
  = [VUnit; VUnit; VOpt None; VOpt (Some 2); VUnit; VOpt None; VInt 1].
Proof. vm_compute. reflexivity. Qed.

(* set 1 is a clone of set 0; adding to 1 leaves 0 unchanged, 1 sees both *)
Example C51_ex_pset :
  let ops := [PNew None; PAdd 0%nat 5; PClone 0%nat; PAdd 1%nat 7; PForEach 0%nat; PForEach 1%nat; PContains 1%nat 5] in
  hist_valid 0 ops = true /\
  PSetProofs.ancestor (PSetProofs.ps_after ops) 1%nat 0%nat /\
  ps_run [] ops = [VUnit; VUnit; VUnit; VUnit; VList [(5, 0)]; VList [(7, 0); (5, 0)]; VBool true].
Proof.
  split; [vm_compute; reflexivity|]. split; [|vm_compute; reflexivity].
  eapply PSetProofs.anc_parent; vm_compute; reflexivity.
Qed.

(* overlapping and duplicate intervals, with root insertions chosen at various depths *)
Example C51_ex_itree :
  it_run [false; true; false; false; true; true]
         Leaf [IPut 3 5 100; IPut 3 5 101; IPut 0 9 102; IPut 4 4 103; IPut 7 8 104; ISearchAll 4; ISearch 10; IContains 3 5; IValues]
  = [IUnit; IUnit; IUnit; IUnit; IUnit;
     IEntries [(0, 9, 102); (3, 5, 100); (4, 4, 103); (3, 5, 101)]; IEntry None; IBool true;
     IVals [101; 103; 100; 102; 104]].
Proof. vm_compute. reflexivity. Qed.
