(* C21  InclusiveRange iteration and membership match the arithmetic sequence.
   Property theorems only; proofs are in Num/RangeProofs.v.

   Full statement of the property for a successfully constructed range r over kind k:
     (a) iterating r yields exactly seq_list r and terminates without error, and
     (b) contains r x = Ok (memberb r x) for every x of the type (never fails).
   The faithful model REFUTES both on the pinned tree (four witnesses below, genuine defects listed
   in known_findings/C21.json); the partial theorems state exactly the guards under which they hold. *)
From CV Require Import Num.RangeModel Num.IntProofs Num.RangeProofs.

Definition C21_iter_statement : Prop := forall k r, wf_kind k -> wf_range k r ->
  iterate (Z.to_nat (seq_count r)) k r = Ok (seq_list r).
Definition C21_contains_statement : Prop := forall k r x, wf_kind k -> wf_range k r -> in_range k x ->
  contains k r x = Ok (memberb r x).

(* (a) holds whenever the element after the last one is still representable in the type *)
Theorem C21_iter_partial : forall k r, wf_kind k -> wf_range k r ->
  in_range k (r_start r + seq_count r * r_step r) ->
  iterate (Z.to_nat (seq_count r)) k r = Ok (seq_list r).
Proof. exact iterate_partial. Qed.
Print Assumptions C21_iter_partial.

Theorem C21_iter_refuted_overflow : exists k r, wf_kind k /\ wf_range k r /\ iterate 10 k r = Err Overflow.
Proof. exact iterate_refuted_overflow. Qed.
Theorem C21_iter_refuted_underflow : exists k r, wf_kind k /\ wf_range k r /\ iterate 10 k r = Err Underflow.
Proof. exact iterate_refuted_underflow. Qed.
Theorem C21_iter_refuted_word_wrap : exists k r, wf_kind k /\ wf_range k r /\
  seq_list r = [250; 251; 252; 253; 254; 255] /\ iterate 300 k r = Err OutOfFuel.
Proof. exact iterate_refuted_word_wrap. Qed.
Print Assumptions C21_iter_refuted_overflow.
Print Assumptions C21_iter_refuted_word_wrap.

(* (b) holds when needle - start is representable and the needle is not a non-member end point *)
Theorem C21_contains_partial : forall k r x, wf_kind k -> wf_range k r -> in_range k x ->
  in_range k (x - r_start r) -> (x = r_end r -> memberb r x = true) ->
  contains k r x = Ok (memberb r x).
Proof. exact contains_partial. Qed.
Print Assumptions C21_contains_partial.

(* memberb is membership in the arithmetic sequence start, start+step, ... not beyond end *)
Theorem C21_memberb_is_membership : forall r x, r_step r <> 0 ->
  (r_start r < r_end r -> r_step r > 0) -> (r_start r > r_end r -> r_step r < 0) ->
  (memberb r x = true <-> member r x).
Proof. exact memberb_spec. Qed.
Print Assumptions C21_memberb_is_membership.

Theorem C21_contains_refuted_end : exists k r x, wf_kind k /\ wf_range k r /\ in_range k x /\
  memberb r x = false /\ contains k r x = Ok true.
Proof. exact contains_refuted_end_nonmember. Qed.
Theorem C21_contains_refuted_overflow : exists k r x, wf_kind k /\ wf_range k r /\ in_range k x /\
  memberb r x = true /\ contains k r x = Err Overflow.
Proof. exact contains_refuted_diff_overflow. Qed.
Print Assumptions C21_contains_refuted_end.

Example C21_ex :
  iterate 400 (KSigned 8) {| r_start := 5; r_end := -4; r_step := -3 |} = Ok [5; 2; -1; -4] /\
  iterate 400 (KUnsigned 8) {| r_start := 250; r_end := 254; r_step := 2 |} = Err Overflow /\
  iterate 400 (KUnsigned 8) {| r_start := 250; r_end := 254; r_step := 1 |} = Ok [250; 251; 252; 253; 254] /\
  contains (KSigned 8) {| r_start := 10; r_end := 3; r_step := -2 |} 4 = Ok true /\
  contains (KSigned 8) {| r_start := 10; r_end := 3; r_step := -2 |} 5 = Ok false /\
  construct (KUnsigned 8) 10 3 None = Err UserOther /\
  construct (KSigned 8) 10 3 None = Ok {| r_start := 10; r_end := 3; r_step := -1 |}.
Proof. vm_compute. repeat split. Qed.
