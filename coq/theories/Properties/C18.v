(* C18  Equality, ordering and hashing obey their laws.
   Property theorems only; proofs are in C18/Proofs.v.

   Model: C18/Model.v - per-kind transcription of Equal / Less... / HashInput of the interpreter's
   values (numbers of all kinds, strings and characters compared and hashed through their NFC form,
   booleans, addresses, paths, enums, type values with StaticType.Equal and StaticType.ID, optionals,
   arrays) and a dictionary keyed by (digest of the hash input, Equal).
   External, not modelled: Unicode normalisation [nfc] and the hash function [digest] of atree; both are
   universally quantified.  [wfv] says that intersection types and entitlement sets inside type values
   list each member once (guaranteed by the checker / by the ordered-set representation) and that
   no type value is the unknown type (which Equal deliberately treats as unequal to everything). *)
From CV Require Import C18.Model C18.Proofs C18.Cases.

(* == is an equivalence relation *)
Theorem C18_equal_reflexive : forall nfc v, wfv v -> equal nfc v v = true.
Proof. exact equal_refl. Qed.
Print Assumptions C18_equal_reflexive.

Theorem C18_equal_symmetric : forall nfc v w, wfv v -> wfv w -> equal nfc v w = true -> equal nfc w v = true.
Proof. exact equal_sym. Qed.
Print Assumptions C18_equal_symmetric.

Theorem C18_equal_transitive : forall nfc u v w, wfv u -> wfv v -> wfv w ->
  equal nfc u v = true -> equal nfc v w = true -> equal nfc u w = true.
Proof. exact equal_trans. Qed.
Print Assumptions C18_equal_transitive.

(* < <= > >= on every comparable kind: exactly one of <, ==, > holds; <= and >= are their unions with == *)
Theorem C18_order_total : forall nfc v w lt, less nfc v w = Some lt ->
  exists gt, greater nfc v w = Some gt /\ trichotomy lt (equal nfc v w) gt /\
             less_equal nfc v w = Some (lt || equal nfc v w) /\ greater_equal nfc v w = Some (gt || equal nfc v w).
Proof. exact order_total. Qed.
Print Assumptions C18_order_total.

Theorem C18_less_transitive : forall nfc u v w,
  less nfc u v = Some true -> less nfc v w = Some true -> less nfc u w = Some true.
Proof. exact less_trans. Qed.
Print Assumptions C18_less_transitive.

(* equal values have the same hash input *)
Theorem C18_equal_hash : forall nfc v w, wfv v -> wfv w -> equal nfc v w = true -> hash_input nfc v = hash_input nfc w.
Proof. exact equal_hash. Qed.
Print Assumptions C18_equal_hash.

(* a text and its normal form are equal values with the same hash input, for every idempotent normalisation *)
Theorem C18_canonical_forms_equal : forall nfc s, nfc (nfc s) = nfc s ->
  equal nfc (VStr s) (VStr (nfc s)) = true /\ equal nfc (VChar s) (VChar (nfc s)) = true
  /\ hash_input nfc (VStr s) = hash_input nfc (VStr (nfc s)).
Proof. exact canonical_equal. Qed.
Print Assumptions C18_canonical_forms_equal.

(* equal static types have the same type ID (the hash input of type values) *)
Theorem C18_static_type_id : forall a b, wf_sty a -> wf_sty b -> sty_equal a b = true -> sty_id a = sty_id b.
Proof. exact sty_equal_id. Qed.
Print Assumptions C18_static_type_id.

(* equal hashable keys are interchangeable: inserting both leaves one entry and either one finds it *)
Theorem C18_dict_equal_keys_interchangeable : forall nfc (V : Type) digest d k1 k2 (v1 v2 : V),
  wfd V d -> wfv k1 -> wfv k2 -> hash_input nfc k1 <> None -> equal nfc k1 k2 = true ->
  let d1 := d_set nfc V digest d k1 v1 in
  let d2 := d_set nfc V digest d1 k2 v2 in
  length d2 = length d1 /\ d_get nfc V digest d2 k1 = Some v2 /\ d_get nfc V digest d2 k2 = Some v2
  /\ d_get nfc V digest d1 k2 = Some v1.
Proof. exact dict_equal_keys_interchangeable. Qed.
Print Assumptions C18_dict_equal_keys_interchangeable.

Theorem C18_dict_lookup_equal_keys : forall nfc (V : Type) digest d k1 k2,
  wfd V d -> wfv k1 -> wfv k2 -> equal nfc k1 k2 = true ->
  d_get nfc V digest d k1 = d_get nfc V digest d k2.
Proof. exact dict_lookup_equal_keys. Qed.
Print Assumptions C18_dict_lookup_equal_keys.

(* ---------- non-vacuity ---------- *)
Definition ex_nfc18 : list Z -> list Z :=
  ntab_nfc [([101; 204; 129], [195; 169])].      (* e U+0301  |->  U+00E9 ; identity elsewhere *)
Definition ex_I12 := VType (Some (SRef (ASet false [[69; 49]; [69; 50]]) (SInter [[73; 49]; [73; 50]]))).
Definition ex_I21 := VType (Some (SRef (ASet false [[69; 50]; [69; 49]]) (SInter [[73; 50]; [73; 49]]))).

(* differently written but equal values: equal, same hash input, one dictionary entry *)
Example C18_ex_equal_hash :
  wfv ex_I12 /\ wfv ex_I21 /\ equal ex_nfc18 ex_I12 ex_I21 = true
  /\ hash_input ex_nfc18 ex_I12 = hash_input ex_nfc18 ex_I21
  /\ hash_input ex_nfc18 ex_I12 = Some (5 :: [97; 117; 116; 104; 40; 69; 49; 44; 69; 50; 41; 38; 123; 73; 49; 44; 73; 50; 125])
  /\ equal ex_nfc18 (VStr [101; 204; 129]) (VStr [195; 169]) = true
  /\ hash_input ex_nfc18 (VStr [101; 204; 129]) = Some [1; 195; 169]
  /\ equal ex_nfc18 (VNum KInt8 1) (VNum KInt16 1) = false
  /\ equal ex_nfc18 (VPath 1 [102]) (VPath 3 [102]) = false.
Proof. vm_compute. repeat split; repeat constructor; simpl; intuition; discriminate. Qed.

Example C18_ex_dict :
  let d := d_set ex_nfc18 Z digest_inj (d_set ex_nfc18 Z digest_inj [] (VStr [101; 204; 129]) 1) (VStr [195; 169]) 2 in
  length d = 1%nat /\ d_get ex_nfc18 Z digest_inj d (VStr [101; 204; 129]) = Some 2
  /\ d_get ex_nfc18 Z digest_inj d (VStr [101]) = None.
Proof. vm_compute. repeat split. Qed.

Example C18_ex_order :
  less ex_nfc18 (VNum KInt128 (-5)) (VNum KInt128 3) = Some true
  /\ less ex_nfc18 (VStr [101; 204; 129]) (VStr [195; 169]) = Some false
  /\ less_equal ex_nfc18 (VStr [101; 204; 129]) (VStr [195; 169]) = Some true
  /\ less ex_nfc18 (VBool false) (VBool true) = Some true
  /\ less ex_nfc18 (VNum KInt8 1) (VNum KInt16 2) = None
  /\ hash_input ex_nfc18 (VNum KInt (-129)) = Some [10; 255; 127]
  /\ hash_input ex_nfc18 (VNum KInt 128) = Some [10; 0; 128]
  /\ hash_input ex_nfc18 (VNum KInt16 (-2)) = Some [12; 255; 254].
Proof. vm_compute. repeat split. Qed.
