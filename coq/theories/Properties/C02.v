(* C02  Resources are never duplicated or lost at run time.
   Property theorems only; the model is C02/Model.v, the proofs are in C02/Proofs.v.
   Everything is stated for ALL histories (lists of transactions, each a list of commands) of the
   model: creation, moves between variables / optional fields / array slots / dictionary entries /
   storage paths (directly and through references), destruction, taking and using references. *)
From Coq Require Import ZArith List Permutation.
From CV Require Import C02.Model C02.Proofs C02.Defect.
Import ListNotations.
Open Scope Z_scope.

(* Conservation.  For every history started from empty storage: the uuids created by the
   successful transactions are, as a multiset, exactly the destroyed ones plus the ones sitting
   in committed storage at the end (failed transactions are rolled back and contribute nothing). *)
Theorem C02_conservation : forall h n0 p' os,
  run_hist h (mkP [] n0) = (p', os) ->
  Permutation (created_ok n0 os) (map uuid3 (destroyed_ok os) ++ uuids_l (p_store p')).
Proof. exact conservation. Qed.
Print Assumptions C02_conservation.

(* The same three statements (conservation, uniqueness, events exactly once) for histories run
   in the presence of the contract: a stored value that is not a resource but owns resources in its
   fields (optional field, array, dictionary) and is only accessed in place.  What the contract owns
   counts as stored; uuid 0 is the contract value itself. *)
Theorem C02_conservation_with_contract : forall h n0 p' os, 0 < n0 ->
  run_hist h (init_pstate n0) = (p', os) ->
  Permutation (0 :: created_ok n0 os) (map uuid3 (destroyed_ok os) ++ uuids_l (p_store p')) /\
  NoDup (map uuid3 (destroyed_ok os) ++ uuids_l (p_store p')) /\
  forall u e t, In (u, e, t) (destroyed_ok os) ->
    cnt u (map fst (events_of (destroyed_ok os))) = if e then 1%nat else 0%nat.
Proof. intros h n0 p' os Hn H. exact (conservation_from h _ p' os (hinv_contract n0 Hn) H). Qed.
Print Assumptions C02_conservation_with_contract.

(* Per transaction, from any well-formed committed state: what was stored before plus what the
   transaction created is what it destroyed plus what is stored afterwards. *)
Theorem C02_conservation_tx : forall cs p p' o, pwf p -> run_tx cs p = (p', o) ->
  p_next p <= p_next p' /\ o_next o = p_next p' /\ o_store o = p_store p' /\
  (tx_ok o = false -> p_store p' = p_store p) /\
  (tx_ok o = true ->
     forall z, (cnt z (uuids_l (p_store p)) + cnt z (seqZ (p_next p) (p_next p')) =
                cnt z (uuids_l (p_store p')) + cnt z (flat_map uuids (o_dead o)))%nat).
Proof. exact run_tx_inv. Qed.
Print Assumptions C02_conservation_tx.

(* Each destroyed uuid appears exactly once in the destroy trace, no stored uuid occurs twice,
   and nothing is both destroyed and stored. *)
Theorem C02_destroyed_stored_unique : forall h n0 p' os,
  run_hist h (mkP [] n0) = (p', os) ->
  NoDup (map uuid3 (destroyed_ok os) ++ uuids_l (p_store p')).
Proof. exact destroyed_stored_unique. Qed.
Print Assumptions C02_destroyed_stored_unique.

(* The invariant: in every state reachable inside any transaction of any history, every uuid is
   owned by exactly one location (one variable tree or one storage tree, at one position), no
   live uuid is among the destroyed ones, and all are below the uuid counter. *)
Theorem C02_live_unique : forall st, reach st ->
  NoDup (live st ++ dead_uuids st) /\ forall u, In u (live st) -> u < next st.
Proof. exact live_unique. Qed.
Print Assumptions C02_live_unique.

(* Destruction events: for every destroyed resource (nested ones are in the trace, see below)
   there is exactly one ResourceDestroyed event if its type declares one, and none otherwise. *)
Theorem C02_events_exactly_once : forall h n0 p' os,
  run_hist h (mkP [] n0) = (p', os) ->
  forall u e t, In (u, e, t) (destroyed_ok os) ->
  cnt u (map fst (events_of (destroyed_ok os))) = if e then 1%nat else 0%nat.
Proof. exact events_exactly_once. Qed.
Print Assumptions C02_events_exactly_once.

(* Destroying a variable destroys its whole content: the trace of the destroyed tree contains
   every resource nested in it exactly once, nested ones before the container. *)
Theorem C02_destroy_covers_nested : forall st x r st',
  assoc x (vars st) = Some r -> step (CDestroy x) st = Done st' ->
  dead st' = dead st ++ [r] /\
  (forall z, cnt z (map uuid3 (destroy_trace r)) = cnt z (uuids r)) /\
  exists pre, destroy_trace r = pre ++ [(r_uuid r, r_ev r, r_tag r)].
Proof. exact destroy_covers_nested. Qed.
Print Assumptions C02_destroy_covers_nested.

(* The model's defensive failure (a usable reference whose target cannot be found) is never hit
   from a reachable state: it is not used to make the other theorems true. *)
Theorem C02_no_internal : forall st c, reach st -> step c st <> Fail EInternal.
Proof. exact reach_no_internal. Qed.
Print Assumptions C02_no_internal.

(* ---- the known finding on the tree under test (known_findings/C02.json), stated in Coq:
   the VM's treatment of `x.arr[i] <-> y` for a resource-typed field `arr` (C02/Defect.v, transcribed
   from the compiler's swap code: the field is removed and never put back) does NOT conserve
   resources - witnessed from a reachable state by vm_compute.  The theorems above are about the
   model, in which that statement has its language-defined meaning (a swap); the correspondence
   run therefore ties them to the code for all generated programs except those containing this
   statement form, which are reported as KNOWN-FINDING. *)
Definition C02_vm_swap_member_index_statement : Prop := vm_swap_member_index_conserves.
Theorem C02_vm_swap_member_index_refuted : ~ C02_vm_swap_member_index_statement.
Proof. exact vm_swap_member_index_refuted. Qed.
Print Assumptions C02_vm_swap_member_index_refuted.

(* ---- non-vacuity: a concrete three-transaction history with nesting three deep, a move out of
   a nested array, storage across transactions, a failing transaction that is rolled back *)
Definition ex_hist : list (list cmd) :=
  [ [ CXfer (PVar 1) (SNew true 10); CXfer (PVar 2) (SNew false 20); CXfer (PVar 3) (SNew true 30);
      CXfer (PChild (BVar 2) SlArrEnd) (SPlace (PVar 3) false None);
      CXfer (PChild (BVar 1) (SlDict 1)) (SPlace (PVar 2) false None);
      CXfer (PVar 4) (SNew true 40);
      CXfer (PChild (BVar 1) SlOpt) (SPlace (PVar 4) false None);
      CXfer (PSto 0) (SPlace (PVar 1) false None) ];
    [ CXfer (PVar 5) (SPlace (PSto 0) true (Some TR));
      CXfer (PVar 6) (SNew true 50);
      CXfer (PSto 0) (SPlace (PVar 6) false None);
      CXfer (PSto 0) (SPlace (PVar 5) false None) ];   (* fails: path occupied *)
    [ CXfer (PVar 7) (SPlace (PSto 0) true None);
      CRefVar 8 7;
      CRefStep 9 (BRef 8) (SlDict 1);
      CRefUnwrap 10 9;
      CXfer (PVar 11) (SPlace (PChild (BRef 10) (SlArr 0)) false None);
      CDestroy 7;
      CXfer (PSto 2) (SPlace (PVar 11) false None) ] ].

Example C02_ex_run :
  let '(p, os) := run_hist ex_hist (mkP [] 1) in
  map o_err os = [None; Some EOverwrite; None] /\
  created_ok 1 os = [1; 2; 3; 4] /\
  map uuid3 (destroyed_ok os) = [4; 2; 1] /\
  events_of (destroyed_ok os) = [(4, 40); (1, 10)] /\
  uuids_l (p_store p) = [3] /\ p_next p = 6.
Proof. vm_compute. repeat split. Qed.

(* a state inside the third transaction is reachable, so C02_live_unique applies to it *)
Definition ex_p2 : pstate :=
  fst (run_tx (nth 1 ex_hist []) (fst (run_tx (nth 0 ex_hist []) (mkP [] 1)))).
Definition ex_cs : list cmd := [CXfer (PVar 7) (SPlace (PSto 0) true None); CRefVar 8 7].

Example C02_ex_reach : exists st, run ex_cs (begin_tx ex_p2) = Done st /\ reach st /\ length (live st) = 4%nat.
Proof.
  destruct (run ex_cs (begin_tx ex_p2)) as [st|] eqn:Hr; [|vm_compute in Hr; discriminate].
  exists st. split; [reflexivity|]. split.
  - eapply reach_run; [|exact Hr]. apply reach_begin. unfold ex_p2.
    apply preach_tx. apply preach_tx. apply preach_init.
  - vm_compute in Hr. inversion Hr; subst. vm_compute. reflexivity.
Qed.
