(* C29  Entry-point arguments are validated against parameter types.
   Property theorems only; models in C29/{Model,Spec,Cases}.v (types and subtyping: C09/Types.v),
   proofs in C29/Proofs.v.  E ranges over all declaration environments, lcs over all element-type
   inference functions (sema.LeastCommonSuperType is an oracle of the model); E0 / lcs0 are those of the
   correspondence run. *)
From CV Require Import C09.Types C29.Model C29.Spec C29.Cases C29.Proofs.
Import ListNotations.
Open Scope Z_scope.

(* For every (importable) parameter type and every argument: if the pipeline
   decode -> ImportValue -> IsImportable -> IsSubTypeOfSemaType -> ConformsToStaticType accepts, the value
   handed to the program is importable at every depth, its run-time type is a (sema) subtype of the
   parameter type, and every nested element / field conforms to its container's static type / its
   declared field type (no missing, extra or wrongly typed field, right kind tag, right array size). *)
Theorem C29_import_sound : forall E lcs T x v,
  ty_importable E T = true ->
  validate E lcs T x = Accept v ->
  Importable E v /\ is_sub (base E) (dyn_type v) T = true /\ WellTyped E v.
Proof. exact import_sound. Qed.
Print Assumptions C29_import_sound.

(* acceptance is exactly the conjunction of the stages *)
Theorem C29_accept_iff_all_stages : forall E lcs T x v,
  validate E lcs T x = Accept v <->
  decode_ok x = true /\ import E lcs x (Some T) = Ok v /\ importable E v = true /\
  is_sub_of_sema (base E) (dyn_type v) T = true /\ conforms E v = true.
Proof. exact accept_iff. Qed.
Print Assumptions C29_accept_iff_all_stages.

(* No rejection is an internal error — provided element-type inference for untyped arrays never
   fails and no dictionary key of the argument is a composite (enum) value ... *)
Theorem C29_reject_user_error_partial : forall E lcs T x,
  (forall ts, lcs ts <> None) -> plain_keys x = true -> validate E lcs T x <> Reject RInternal.
Proof. exact reject_user_error. Qed.
Print Assumptions C29_reject_user_error_partial.

(* ... which it does in the real code (finding): `[]` for an AnyStruct parameter, `[[]]` for [AnyStruct]
   are rejected with an internal error, while `{}` is rejected with a user error. *)
Theorem C29_reject_user_error_refuted :
  validate E0 lcs0 (TPrim PAnyStruct) (XArray []) = Reject RInternal /\
  validate E0 lcs0 (TVar (TPrim PAnyStruct)) (XArray [XArray []]) = Reject RInternal /\
  validate E0 lcs0 (TPrim PAnyStruct) (XDict []) = Reject RImport.
Proof. exact empty_array_internal. Qed.
Print Assumptions C29_reject_user_error_refuted.

(* ... nor the second (finding): dictionary keys are hashed when the dictionary is assembled, before any
   conformance check; an enum key without rawValue, with a non-enum kind tag or with a container raw value
   raises an internal error (a wrongly typed scalar raw value is properly rejected as malformed). *)
Theorem C29_enum_key_internal_refuted :
  validate E0 lcs0 (TDict (TComp 6) (TPrim PInt)) (en_key []) = Reject RInternal /\
  validate E0 lcs0 (TDict (TComp 6) (TPrim PInt)) (XDict [(XComp KStruct 6 [(8%nat, XNum PUInt8 0)], XNum PInt 1)]) = Reject RInternal /\
  validate E0 lcs0 (TDict (TComp 6) (TPrim PInt)) (en_key [(8%nat, XArray [XNum PUInt8 1])]) = Reject RInternal /\
  validate E0 lcs0 (TDict (TComp 6) (TPrim PInt)) (en_key [(8%nat, XString [97])]) = Reject RMalformed /\
  validate E0 lcs0 (TDict (TComp 6) (TPrim PInt)) (en_key [(8%nat, XNum PUInt16 1)]) = Reject RMalformed /\
  (exists v, validate E0 lcs0 (TDict (TComp 6) (TPrim PInt)) (en_key [(8%nat, XNum PUInt8 1)]) = Accept v).
Proof. exact enum_key_hash_internal. Qed.
Print Assumptions C29_enum_key_internal_refuted.

(* Third finding: an array whose static element type is a fixed-size simple type and which wrongly
   contains a container, nested in another container or a composite field, is rejected with atree's
   CopyError (a storage-layer error, unclassified in the VM) instead of an invalid-argument error. *)
Theorem C29_reject_argument_error_refuted :
  validate E0 lcs0 (TVar (TVar (TPrim PWord16))) (XArray [XArray [XComp KStruct 0 [(0%nat, XNum PInt 1)]]]) = Reject RCopy /\
  validate E0 lcs0 (TVar (TVar (TPrim PInt))) (XArray [XArray [XComp KStruct 0 [(0%nat, XNum PInt 1)]]]) = Reject RMalformed /\
  validate E0 lcs0 (TVar (TPrim PWord16)) (XArray [XComp KStruct 0 [(0%nat, XNum PInt 1)]]) = Reject RMalformed.
Proof. exact nested_simple_array_copy_error. Qed.
Print Assumptions C29_reject_argument_error_refuted.

(* numbers that do not fit their type never get past the decoder *)
Theorem C29_out_of_range_rejected : forall E lcs T p n,
  in_num_range p n = false -> validate E lcs T (XNum p n) = Reject RDecode.
Proof. exact out_of_range_rejected. Qed.
Print Assumptions C29_out_of_range_rejected.

(* ------------------------------------------------------------------ non-vacuity *)
Definition s0 (n : Z) : xval := XComp KStruct 0 [(0%nat, XNum PInt n)].

(* accepted: a struct for an interface-typed parameter; a typed dictionary; an untyped mixed array *)
Example C29_ex_accept :
  validate E0 lcs0 (TInter [0%nat]) (s0 7) = Accept (IComp KStruct 0 [(0%nat, INum PInt 7)]) /\
  validate E0 lcs0 (TDict (TPrim PString) (TPrim PUInt8)) (XDict [(XString [97], XNum PUInt8 255)])
    = Accept (IDict (TPrim PString) (TPrim PUInt8) [(IString [97], INum PUInt8 255)]) /\
  validate E0 lcs0 (TPrim PAnyStruct) (XArray [XNum PInt8 1; XNum PInt16 2])
    = Accept (IArray None (TPrim PSignedInteger) [INum PInt8 1; INum PInt16 2]) /\
  ty_importable E0 (TInter [0%nat]) = true.
Proof. vm_compute. repeat split. Qed.

(* rejected, each at its stage *)
Example C29_ex_reject :
  validate E0 lcs0 (TPrim PInt8) (XNum PInt8 128) = Reject RDecode /\
  validate E0 lcs0 (TOpt (TPrim PInt8)) (XSome (XNum PInt16 1)) = Reject RType /\
  validate E0 lcs0 (TComp 0) (XComp KStruct 0 []) = Reject RMalformed /\                        (* missing field *)
  validate E0 lcs0 (TComp 0) (XComp KStruct 0 [(0%nat, XNum PInt 1); (7%nat, XNum PInt 2)]) = Reject RMalformed /\
  validate E0 lcs0 (TComp 0) (XComp KStruct 0 [(0%nat, XString [97])]) = Reject RMalformed /\  (* field type *)
  validate E0 lcs0 (TComp 0) (XComp KResource 0 [(0%nat, XNum PInt 1)]) = Reject RMalformed /\ (* kind tag *)
  validate E0 lcs0 (TComp 0) (XComp KStruct 9 [(0%nat, XNum PInt 1)]) = Reject RImport /\       (* type id *)
  validate E0 lcs0 (TComp 0) (XComp KStruct 1 [(0%nat, XNum PInt 1); (1%nat, XNone)]) = Reject RType /\
  validate E0 lcs0 (TPrim PAnyStruct) (XCap (TRef Unauth (TPrim PInt)) 1 1) = Reject RNotImportable /\
  validate E0 lcs0 (TPrim PAnyStruct) (XComp KResource 4 [(0%nat, XNum PInt 1)]) = Reject RNotImportable /\
  validate E0 lcs0 (TConst (TPrim PInt8) 2) (XArray [XNum PInt8 1]) = Reject RMalformed /\
  validate E0 lcs0 (TDict (TPrim PString) (TPrim PUInt8)) (XDict [(XString [97], XNum PUInt16 1)]) = Reject RImport.
Proof. vm_compute. repeat split. Qed.
