(* C16  Numeric conversions preserve value or fail.
   Property theorems only; proofs are in C16/Proofs*.v, witnesses in C16/Refute.v.
   Model: C16/Model.v (code-shaped transcription of ToInt/ToBigInt, the BigNumberValue classification,
   every Convert* function, and the two functions of github.com/onflow/fixed-point used by the
   rounding converters). Specification: C16/Spec.v.
   The floor-instead-of-truncation defect of conversions from negative Fix128 values was repaired in
   /repo (fix: 5739f35); the model is the repaired code and C16_from_fix128_to_integer is the full
   theorem for those conversions. The tree still departs from the property on the input classes
   conv_defect / conv_round_defect; the full statement is kept as C16.Refute.C16_statement(_round),
   refuted below, and proved under the guards that exclude exactly those classes. *)
From CV Require Import Num.IntProofs C16.Model C16.ProofsBase C16.ProofsInt C16.ProofsFix C16.ProofsRound C16.ProofsSpec C16.Refute.

(* All 27 x 27 (source kind, target kind) pairs (integer kinds of any width n > 0), ALL source values
   of the source kind: outside the defect classes conv_defect, `T(x)` computes the specification:
   the number truncated toward zero at the target's scale, exact-or-fail (Overflow above the maximum,
   Underflow below the minimum), reduced modulo 2^n for Word targets. *)
Theorem C16_conversions_partial : forall s t x,
  wf_nkind s -> wf_nkind t -> n_in_range s x -> ~ conv_defect s t x ->
  conv_model s t x = spec_conv s t x.
Proof. exact conv_model_correct. Qed.
Print Assumptions C16_conversions_partial.

(* Every source kind (in particular Fix128, negative values with a fractional part included) to
   every integer kind, ALL source values, no guard: the integer part truncated toward zero,
   exact-or-fail, modulo 2^n for Word targets. *)
Theorem C16_to_integer_kinds : forall s k x,
  wf_nkind s -> wf_kind k -> n_in_range s x ->
  conv_model s (NI k) x = spec_conv s (NI k) x.
Proof. exact int_target_correct. Qed.
Print Assumptions C16_to_integer_kinds.

(* The pairs without any defect class (everything except Fix128/UFix128 -> Fix64/UFix64 and
   Int128/Int256/Int -> Fix64): the property holds for every source value. *)
Theorem C16_conversions_defect_free_pairs : forall s t x,
  wf_nkind s -> wf_nkind t -> n_in_range s x -> defect_free_pair s t ->
  conv_model s t x = spec_conv s t x.
Proof. exact conv_model_correct_defect_free. Qed.
Print Assumptions C16_conversions_defect_free_pairs.

(* `Fix64(x, rounding: m)` / `UFix64(x, rounding: m)` for every source kind, every rule, every value:
   the specification with the requested rounding, outside conv_round_defect (a non-zero 128-bit value
   that rounds to zero; for the other source kinds the classes of the plain conversion). *)
Theorem C16_rounding_partial : forall s t m x,
  wf_nkind s -> (t = NFix64 \/ t = NUFix64) -> n_in_range s x -> ~ conv_round_defect s t m x ->
  conv_model_round s t m x = spec_conv_round s t m x.
Proof. exact conv_model_round_correct. Qed.
Print Assumptions C16_rounding_partial.

(* the full statements are false for the faithful model *)
Theorem C16_conversions_refuted : ~ C16_statement.
Proof. exact statement_refuted. Qed.
Print Assumptions C16_conversions_refuted.

Theorem C16_rounding_refuted : ~ C16_statement_round.
Proof. exact statement_round_refuted. Qed.
Print Assumptions C16_rounding_refuted.

(* one witness per defect class: model result (= observed on the real code) and required result *)
Theorem C16_fix128_to_ufix64_refuted :
  conv_model NFix128 NUFix64 (-1) = Err Underflow /\ spec_conv NFix128 NUFix64 (-1) = Ok 0.
Proof. exact fix128_to_ufix64_refuted. Qed.
Print Assumptions C16_fix128_to_ufix64_refuted.

Theorem C16_range_before_trunc_low_refuted :
  conv_model NFix128 NFix64 (-9223372036854775808 * e16 - 1) = Err Underflow /\
  spec_conv NFix128 NFix64 (-9223372036854775808 * e16 - 1) = Ok (-9223372036854775808).
Proof. exact range_before_trunc_low_refuted. Qed.
Print Assumptions C16_range_before_trunc_low_refuted.

Theorem C16_range_before_trunc_refuted :
  conv_model NUFix128 NFix64 (9223372036854775807 * e16 + 1) = Err Overflow /\
  spec_conv NUFix128 NFix64 (9223372036854775807 * e16 + 1) = Ok 9223372036854775807.
Proof. exact range_before_trunc_refuted. Qed.
Print Assumptions C16_range_before_trunc_refuted.

Theorem C16_bigint_to_fix64_error_kind_refuted :
  conv_model (NI (KSigned 128)) NFix64 (- 2 ^ 100) = Err Overflow /\
  spec_conv (NI (KSigned 128)) NFix64 (- 2 ^ 100) = Err Underflow.
Proof. exact bigint_to_fix64_error_kind_refuted. Qed.
Print Assumptions C16_bigint_to_fix64_error_kind_refuted.

Theorem C16_round_to_zero_refuted :
  conv_model_round NFix128 NFix64 RTowardZero 1 = Err Underflow /\
  spec_conv_round NFix128 NFix64 RTowardZero 1 = Ok 0 /\
  conv_model_round NUFix128 NUFix64 RNearestHalfEven 4000000000000000 = Err Underflow /\
  spec_conv_round NUFix128 NUFix64 RNearestHalfEven 4000000000000000 = Ok 0.
Proof. exact round_to_zero_refuted. Qed.
Print Assumptions C16_round_to_zero_refuted.

(* meaning of the specification: a result is a value of the target kind equal to the rounded number
   (mod 2^n for Word targets); a failure means the rounded number is out of the target's range *)
Theorem C16_ok_is_rounded_value : forall s t m x z,
  wf_nkind t -> spec_conv_round s t m x = Ok z ->
  n_in_range t z /\
  (if n_is_word t then exists n, t = NI (KWord n) /\ z = round_div m (x * scale t) (scale s) mod 2 ^ n
   else z = round_div m (x * scale t) (scale s)).
Proof. exact spec_conv_sound. Qed.
Print Assumptions C16_ok_is_rounded_value.

Theorem C16_errors_classified : forall s t m x e,
  spec_conv_round s t m x = Err e ->
  n_is_word t = false /\
  ((e = Overflow /\ exists M, nmax t = Some M /\ round_div m (x * scale t) (scale s) > M) \/
   (e = Underflow /\ exists mn, nmin t = Some mn /\ round_div m (x * scale t) (scale s) < mn)).
Proof. exact spec_conv_errors. Qed.
Print Assumptions C16_errors_classified.

(* same mathematical value when representable *)
Theorem C16_representable_value_preserved : forall s t m x y,
  n_is_word t = false -> 0 < scale s -> x * scale t = y * scale s -> n_in_range t y ->
  spec_conv_round s t m x = Ok y.
Proof. exact spec_conv_exact. Qed.
Print Assumptions C16_representable_value_preserved.

(* the rounding rules: the result is within one unit of the exact number (strictly), the two
   "nearest" rules within half a unit; towardZero is truncation *)
Theorem C16_rounding_error_below_one_unit : forall m n d,
  0 < d -> Z.abs (round_div m n d * d - n) < d.
Proof. exact round_div_error_bound. Qed.
Print Assumptions C16_rounding_error_below_one_unit.

Theorem C16_nearest_rounding_within_half_unit : forall m n d,
  0 < d -> (m = RNearestHalfAway \/ m = RNearestHalfEven) ->
  2 * Z.abs (round_div m n d * d - n) <= d.
Proof. exact round_div_nearest. Qed.
Print Assumptions C16_nearest_rounding_within_half_unit.

(* non-vacuity *)
Example C16_ex :
  conv_model (NI (KUnsigned 64)) (NI (KUnsigned 128)) (2 ^ 64 - 1) = Ok (2 ^ 64 - 1) /\
  conv_model (NI (KWord 64)) (NI (KSigned 256)) (2 ^ 64 - 1) = Ok (2 ^ 64 - 1) /\
  conv_model (NI (KUnsigned 64)) NFix64 (2 ^ 64 - 1) = Err Overflow /\
  conv_model (NI (KSigned 128)) (NI (KWord 64)) (- 2 ^ 64 - 1) = Ok (2 ^ 64 - 1) /\
  conv_model NFix64 (NI (KSigned 8)) (-150000000) = Ok (-1) /\
  conv_model NFix64 (NI (KSigned 8)) 12799000000 = Ok 127 /\
  conv_model NFix64 (NI (KSigned 8)) 12800000000 = Err Overflow /\
  conv_model NFix64 (NI (KUnsigned 8)) (-50000000) = Ok 0 /\
  conv_model NFix64 (NI (KUnsigned 8)) (-100000000) = Err Underflow /\
  conv_model NFix64 (NI (KWord 8)) (-150000000) = Ok 255 /\
  conv_model NUFix64 NFix64 (2 ^ 63) = Err Overflow /\
  conv_model NFix64 NFix128 (-1) = Ok (- e16) /\
  conv_model NUFix128 NFix128 (2 ^ 127) = Err Overflow /\
  conv_model (NI KInt) NFix64 92233720368 = Ok 9223372036800000000 /\
  conv_model (NI KInt) NFix64 92233720369 = Err Overflow /\
  conv_model (NI KInt) NFix64 (-92233720369) = Err Underflow /\
  conv_model NFix128 NFix64 15000000000000000 = Ok 1 /\
  conv_model NFix128 (NI (KSigned 8)) (-1500000000000000000000000) = Ok (-1) /\
  conv_model NFix128 (NI (KUnsigned 8)) (-1) = Ok 0 /\
  conv_model NFix128 (NI (KWord 8)) (-1500000000000000000000000) = Ok 255 /\
  conv_model NFix128 NFix64 (-1) = Ok 0 /\
  conv_model NFix128 NFix64 (-10000000000000001) = Ok (-1) /\
  conv_model_round NFix128 NFix64 RAwayFromZero 15000000000000000 = Ok 2 /\
  conv_model_round NFix128 NFix64 RNearestHalfEven 15000000000000000 = Ok 2 /\
  conv_model_round NFix128 NFix64 RNearestHalfEven 25000000000000000 = Ok 2 /\
  conv_model_round NFix128 NFix64 RNearestHalfAway (-25000000000000000) = Ok (-3) /\
  conv_model_round NFix128 NFix64 RTowardZero (-9223372036854775808 * e16 - 1) = Ok (-9223372036854775808) /\
  conv_model_round NFix128 NUFix64 RAwayFromZero (9223372036854775807 * e16 + 1) = Ok 9223372036854775808.
Proof. vm_compute. repeat split. Qed.

(* the guards of the partial theorems hold on ordinary inputs and fail on the witnesses *)
Example C16_guard_ex :
  ~ conv_defect NFix128 NFix64 (-1) /\
  ~ conv_defect NFix128 NFix64 (3 * e16) /\
  ~ conv_defect NFix128 NUFix64 (- e16) /\
  ~ conv_round_defect NFix128 NFix64 RAwayFromZero 1 /\
  conv_defect NFix128 NUFix64 (-1) /\
  conv_round_defect NFix128 NFix64 RTowardZero 1.
Proof.
  unfold conv_defect, conv_round_defect, round_zero_defect, e16, e24, max_int64, min_int64, max_uint64.
  repeat split; try lia; try (vm_compute; congruence);
    try (intros [H1 H2]; vm_compute in H2; congruence).
Qed.
