(* C18  Proofs: equality is an equivalence, ordering a strict total order consistent with it,
   equal values have equal hash input, equal keys are interchangeable in a dictionary. *)
From CV Require Import C18.Model C19.Proofs C19.MiscProofs.
From Coq Require Import Lia Permutation.

Local Open Scope Z_scope.

(* ---------- lists of type IDs ---------- *)

Lemma mem_In x l : mem x l = true <-> In x l.
Proof.
  unfold mem. rewrite existsb_exists. split.
  - intros [y [Hy E]]. apply bytes_eqb_eq in E. subst. exact Hy.
  - intros H. exists x. split; auto. apply bytes_eqb_refl.
Qed.

Lemma all_in_incl a b : all_in a b = true <-> incl a b.
Proof.
  unfold all_in. rewrite forallb_forall. unfold incl. split; intros H x Hx.
  - apply mem_In. auto.
  - apply mem_In. auto.
Qed.

Lemma all_in_refl a : all_in a a = true.
Proof. apply all_in_incl. apply incl_refl. Qed.

(* a <= b in Go string order *)
Definition ble (a b : list Z) : bool := negb (bytes_ltb b a).

Lemma ble_antisym a b : ble a b = true -> ble b a = true -> a = b.
Proof.
  unfold ble. intros H1 H2. apply negb_true_iff in H1, H2. apply bytes_ltb_total; auto.
Qed.

Lemma ble_total a b : ble a b = true \/ ble b a = true.
Proof.
  unfold ble. destruct (bytes_ltb b a) eqn:E; auto. right.
  rewrite (bytes_ltb_asym _ _ E). reflexivity.
Qed.

Lemma ble_trans a b c : ble a b = true -> ble b c = true -> ble a c = true.
Proof.
  unfold ble. intros H1 H2. apply negb_true_iff in H1, H2. apply negb_true_iff.
  destruct (bytes_ltb c a) eqn:E; auto.
  (* c < a, not b < a, not c < b: then a <= b <= c < a *)
  destruct (bytes_ltb a b) eqn:E1.
  - pose proof (bytes_ltb_trans _ _ _ E E1). congruence.
  - assert (a = b) by (apply bytes_ltb_total; auto). subst. congruence.
Qed.

Fixpoint sorted (l : list (list Z)) : Prop :=
  match l with
  | [] => True
  | x :: r => (forall y, In y r -> ble x y = true) /\ sorted r
  end.

Lemma insert_perm x l : Permutation (insert_sorted x l) (x :: l).
Proof.
  induction l as [|y r IH]; simpl. reflexivity.
  destruct (bytes_ltb y x). rewrite IH. apply perm_swap. reflexivity.
Qed.

Lemma sort_perm l : Permutation (sort_ids l) l.
Proof. induction l as [|x r IH]; simpl. reflexivity. rewrite insert_perm. constructor. exact IH. Qed.

Lemma insert_sorted_ok x l : sorted l -> sorted (insert_sorted x l).
Proof.
  induction l as [|y r IH]; simpl; intros H. split; [intros ? []|exact I].
  destruct H as [Hy Hr]. destruct (bytes_ltb y x) eqn:E.
  - split; [|auto]. intros z Hz. apply (Permutation_in _ (insert_perm x r)) in Hz.
    destruct Hz as [<-|Hz]; auto. unfold ble. rewrite (bytes_ltb_asym _ _ E). reflexivity.
  - split; [|split; auto]. intros z [<-|Hz]. unfold ble. rewrite E. reflexivity.
    apply ble_trans with y; auto. unfold ble. rewrite E. reflexivity.
Qed.

Lemma sort_sorted l : sorted (sort_ids l).
Proof. induction l; simpl. exact I. apply insert_sorted_ok; auto. Qed.

Lemma sorted_perm_eq : forall l l', sorted l -> sorted l' -> Permutation l l' -> l = l'.
Proof.
  induction l as [|x r IH]; intros l' H H' P.
  - apply Permutation_nil in P. subst. reflexivity.
  - destruct l' as [|x' r']. apply Permutation_sym, Permutation_nil in P. discriminate.
    destruct H as [Hx Hr], H' as [Hx' Hr'].
    assert (x = x').
    { apply ble_antisym.
      - assert (In x' (x :: r)) by (apply (Permutation_in _ (Permutation_sym P)); left; auto).
        destruct H as [->|H]. unfold ble. rewrite bytes_ltb_irrefl. reflexivity. auto.
      - assert (In x (x' :: r')) by (apply (Permutation_in _ P); left; auto).
        destruct H as [->|H]. unfold ble. rewrite bytes_ltb_irrefl. reflexivity. auto. }
    subst. f_equal. apply IH; auto. eapply Permutation_cons_inv; eauto.
Qed.

Lemma sort_perm_eq l l' : Permutation l l' -> sort_ids l = sort_ids l'.
Proof.
  intros P. apply sorted_perm_eq; try apply sort_sorted.
  rewrite sort_perm. rewrite P. symmetry. apply sort_perm.
Qed.

Lemma set_eq_perm (a b : list (list Z)) : NoDup a -> NoDup b ->
  length a = length b -> incl a b -> Permutation a b.
Proof.
  intros Ha Hb Hl Hi. apply NoDup_Permutation; auto.
  intros x. split; [apply Hi|]. apply (NoDup_length_incl Ha); auto. lia.
Qed.

(* ---------- authorizations and static types ---------- *)

Definition wf_auth (a : auth) : Prop := match a with ASet _ es => NoDup es | _ => True end.

Fixpoint wf_sty (t : sty) : Prop :=
  match t with
  | SOpt t | SVarArr t | SConstArr t _ | SCap t | SRange t => wf_sty t
  | SDict k v => wf_sty k /\ wf_sty v
  | SRef a t => wf_auth a /\ wf_sty t
  | SInter ids => NoDup ids
  | _ => True
  end.

Lemma auth_equal_refl a : auth_equal a a = true.
Proof.
  destruct a; simpl; auto.
  - rewrite eqb_reflx, Nat.eqb_refl, all_in_refl. reflexivity.
  - apply bytes_eqb_refl.
Qed.

Lemma auth_equal_perm a b : wf_auth a -> wf_auth b -> auth_equal a b = true ->
  match a, b with
  | AUnauth, AUnauth => True
  | ASet k1 e1, ASet k2 e2 => k1 = k2 /\ Permutation e1 e2
  | AMap x, AMap y => x = y
  | _, _ => False
  end.
Proof.
  destruct a, b; simpl; intros Ha Hb H; try discriminate; auto.
  - apply andb_true_iff in H as [H H3]. apply andb_true_iff in H as [H1 H2].
    apply eqb_prop in H1. apply Nat.eqb_eq in H2. apply all_in_incl in H3.
    split; auto. apply Permutation_sym. apply set_eq_perm; auto.
  - apply bytes_eqb_eq; auto.
Qed.

Lemma auth_equal_of_perm k e1 e2 : Permutation e1 e2 -> auth_equal (ASet k e1) (ASet k e2) = true.
Proof.
  intros P. simpl. rewrite eqb_reflx. rewrite (Permutation_length P), Nat.eqb_refl. simpl.
  apply all_in_incl. intros x Hx. apply (Permutation_in _ (Permutation_sym P)); auto.
Qed.

Lemma auth_equal_sym a b : wf_auth a -> wf_auth b -> auth_equal a b = true -> auth_equal b a = true.
Proof.
  intros Ha Hb H. pose proof (auth_equal_perm a b Ha Hb H) as P.
  destruct a, b; try contradiction; auto.
  - destruct P as [-> P]. apply auth_equal_of_perm. symmetry. exact P.
  - subst. apply auth_equal_refl.
Qed.

Lemma auth_equal_trans a b c : wf_auth a -> wf_auth b -> wf_auth c ->
  auth_equal a b = true -> auth_equal b c = true -> auth_equal a c = true.
Proof.
  intros Ha Hb Hc H1 H2.
  pose proof (auth_equal_perm a b Ha Hb H1) as P1. pose proof (auth_equal_perm b c Hb Hc H2) as P2.
  destruct a, b, c; try contradiction; auto.
  - destruct P1 as [-> P1], P2 as [-> P2]. apply auth_equal_of_perm. rewrite P1. exact P2.
  - subst. apply auth_equal_refl.
Qed.

Lemma auth_equal_id a b : wf_auth a -> wf_auth b -> auth_equal a b = true -> auth_id a = auth_id b.
Proof.
  intros Ha Hb H. pose proof (auth_equal_perm a b Ha Hb H) as P.
  destruct a, b; try contradiction; auto.
  destruct P as [-> P]. simpl. rewrite (sort_perm_eq _ _ P). reflexivity.
Qed.

Lemma sty_equal_refl t : sty_equal t t = true.
Proof.
  induction t; simpl; try apply bytes_eqb_refl; auto.
  - rewrite Z.eqb_refl. auto.
  - rewrite IHt1, IHt2. reflexivity.
  - rewrite auth_equal_refl. auto.
  - rewrite Nat.eqb_refl, all_in_refl. reflexivity.
Qed.

(* equal static types are the same up to the order of intersections / entitlement sets *)
Lemma inter_perm x y : NoDup x -> NoDup y ->
  (length x =? length y)%nat && all_in x y = true -> Permutation x y.
Proof.
  intros Hx Hy H. apply andb_true_iff in H as [H1 H2]. apply Nat.eqb_eq in H1. apply all_in_incl in H2.
  apply set_eq_perm; auto.
Qed.

Lemma inter_of_perm x y : Permutation x y -> (length x =? length y)%nat && all_in x y = true.
Proof.
  intros P. rewrite (Permutation_length P), Nat.eqb_refl. simpl.
  apply all_in_incl. intros z Hz. apply (Permutation_in _ P); auto.
Qed.

Lemma sty_equal_sym : forall a b, wf_sty a -> wf_sty b -> sty_equal a b = true -> sty_equal b a = true.
Proof.
  induction a; destruct b; simpl; intros Ha Hb H; try discriminate; auto.
  - apply bytes_eqb_eq in H. subst. apply bytes_eqb_refl.
  - apply bytes_eqb_eq in H. subst. apply bytes_eqb_refl.
  - apply bytes_eqb_eq in H. subst. apply bytes_eqb_refl.
  - apply andb_true_iff in H as [H1 H2]. apply Z.eqb_eq in H1. subst. rewrite Z.eqb_refl. simpl. auto.
  - apply andb_true_iff in H as [H1 H2]. destruct Ha, Hb. rewrite IHa1, IHa2; auto.
  - apply andb_true_iff in H as [H1 H2]. destruct Ha, Hb. rewrite auth_equal_sym, IHa; auto.
  - apply inter_of_perm. symmetry. apply inter_perm; auto.
Qed.

Lemma sty_equal_trans : forall a b c, wf_sty a -> wf_sty b -> wf_sty c ->
  sty_equal a b = true -> sty_equal b c = true -> sty_equal a c = true.
Proof.
  induction a; destruct b; try discriminate; destruct c; simpl; intros Ha Hb Hc H1 H2; try discriminate; eauto.
  - apply bytes_eqb_eq in H1, H2. subst. apply bytes_eqb_refl.
  - apply bytes_eqb_eq in H1, H2. subst. apply bytes_eqb_refl.
  - apply bytes_eqb_eq in H1, H2. subst. apply bytes_eqb_refl.
  - apply andb_true_iff in H1 as [A1 A2]. apply andb_true_iff in H2 as [B1 B2].
    apply Z.eqb_eq in A1, B1. subst. rewrite Z.eqb_refl. simpl. eauto.
  - apply andb_true_iff in H1 as [A1 A2]. apply andb_true_iff in H2 as [B1 B2].
    destruct Ha, Hb, Hc. rewrite (IHa1 b1 c1), (IHa2 b2 c2); auto.
  - apply andb_true_iff in H1 as [A1 A2]. apply andb_true_iff in H2 as [B1 B2].
    destruct Ha, Hb, Hc. rewrite (auth_equal_trans a a1 a2), (IHa b c); auto.
  - apply inter_of_perm. rewrite (inter_perm ids ids0 Ha Hb H1). apply inter_perm; auto.
Qed.

Lemma singleton_perm (x : list Z) l : Permutation [x] l -> l = [x].
Proof. intros P. apply Permutation_length_1_inv in P. exact P. Qed.

Lemma sty_equal_id : forall a b, wf_sty a -> wf_sty b -> sty_equal a b = true -> sty_id a = sty_id b.
Proof.
  induction a; destruct b; simpl; intros Ha Hb H; try discriminate; auto.
  - apply bytes_eqb_eq in H. congruence.
  - apply bytes_eqb_eq in H. congruence.
  - apply bytes_eqb_eq in H. congruence.
  - rewrite (IHa b); auto.
  - rewrite (IHa b); auto.
  - apply andb_true_iff in H as [H1 H2]. apply Z.eqb_eq in H1. subst. rewrite (IHa b); auto.
  - apply andb_true_iff in H as [H1 H2]. destruct Ha, Hb. rewrite (IHa1 b1), (IHa2 b2); auto.
  - apply andb_true_iff in H as [H1 H2]. destruct Ha, Hb.
    rewrite (auth_equal_id a a1), (IHa b); auto.
  - rewrite (IHa b); auto.
  - pose proof (inter_perm ids ids0 Ha Hb H) as P.
    destruct ids as [|x [|x' r]].
    + apply Permutation_nil in P. subst. reflexivity.
    + apply singleton_perm in P. subst. reflexivity.
    + destruct ids0 as [|y [|y' r0]].
      * apply Permutation_sym, Permutation_nil in P. discriminate.
      * apply Permutation_sym, singleton_perm in P. discriminate.
      * rewrite (sort_perm_eq _ _ P). reflexivity.
  - rewrite (IHa b); auto.
Qed.

(* ---------- values ---------- *)

Section ValueInd.
  Variable Q : value -> Prop.
  Hypothesis HNum : forall k z, Q (VNum k z).
  Hypothesis HBool : forall b, Q (VBool b).
  Hypothesis HStr : forall s, Q (VStr s).
  Hypothesis HChar : forall s, Q (VChar s).
  Hypothesis HAddr : forall z, Q (VAddr z).
  Hypothesis HPath : forall d i, Q (VPath d i).
  Hypothesis HEnum : forall t k z, Q (VEnum t k z).
  Hypothesis HType : forall t, Q (VType t).
  Hypothesis HNil : Q VNil.
  Hypothesis HSome : forall v, Q v -> Q (VSome v).
  Hypothesis HArr : forall t l, Forall Q l -> Q (VArr t l).

  Fixpoint value_ind' (v : value) : Q v :=
    match v with
    | VNum k z => HNum k z
    | VBool b => HBool b
    | VStr s => HStr s
    | VChar s => HChar s
    | VAddr z => HAddr z
    | VPath d i => HPath d i
    | VEnum t k z => HEnum t k z
    | VType t => HType t
    | VNil => HNil
    | VSome v => HSome v (value_ind' v)
    | VArr t l => HArr t l ((fix go (l : list value) : Forall Q l :=
                               match l with
                               | [] => Forall_nil Q
                               | x :: r => Forall_cons x (value_ind' x) (go r)
                               end) l)
    end.
End ValueInd.

(* well-formed: intersections and entitlement sets inside type values / array types have no duplicates;
   known: no unknown (nil) type value anywhere *)
Fixpoint wfv (v : value) : Prop :=
  match v with
  | VType (Some t) => wf_sty t
  | VType None => False
  | VSome v => wfv v
  | VArr t l => wf_sty t /\ (fix all (l : list value) : Prop := match l with [] => True | x :: r => wfv x /\ all r end) l
  | _ => True
  end.

Fixpoint all2 (f : value -> value -> bool) (l m : list value) : bool :=
  match l, m with
  | [], [] => true
  | x :: l', y :: m' => f x y && all2 f l' m'
  | _, _ => false
  end.

Fixpoint wfl (l : list value) : Prop := match l with [] => True | x :: r => wfv x /\ wfl r end.

Lemma wfv_arr t l : wfv (VArr t l) <-> wf_sty t /\ wfl l.
Proof.
  simpl. split; intros [H1 H2]; split; auto; clear H1; induction l; simpl in *; auto; destruct H2; split; auto.
Qed.

Lemma numkind_eqb_eq a b : numkind_eqb a b = true <-> a = b.
Proof.
  unfold numkind_eqb. split.
  - destruct a, b; simpl; intros H; try reflexivity; discriminate.
  - intros ->. apply Z.eqb_refl.
Qed.

Section EqLaws.
  Variable nfc : list Z -> list Z.
  Notation equal := (equal nfc).
  Notation hash_input := (hash_input nfc).

  Lemma equal_arr t l u m :
    equal (VArr t l) (VArr u m) = (length l =? length m)%nat && sty_equal t u && all2 equal l m.
  Proof.
    simpl. f_equal. revert m. induction l as [|x l IH]; destruct m; simpl; auto. rewrite IH. reflexivity.
  Qed.

  Theorem equal_refl : forall v, wfv v -> equal v v = true.
  Proof.
    induction v using value_ind'; intros Hw; try (simpl; auto; fail).
    - simpl. rewrite (proj2 (numkind_eqb_eq k k) eq_refl), Z.eqb_refl. reflexivity.
    - simpl. apply eqb_reflx.
    - simpl. apply bytes_eqb_refl.
    - simpl. apply bytes_eqb_refl.
    - simpl. apply Z.eqb_refl.
    - simpl. rewrite Z.eqb_refl. simpl. apply bytes_eqb_refl.
    - simpl. rewrite bytes_eqb_refl, (proj2 (numkind_eqb_eq k k) eq_refl), Z.eqb_refl. reflexivity.
    - destruct t; simpl in *. apply sty_equal_refl. contradiction.
    - rewrite equal_arr. apply wfv_arr in Hw as [Ht Hl]. rewrite Nat.eqb_refl, sty_equal_refl. simpl.
      induction l as [|x l IH]; simpl; auto. inversion H; subst. destruct Hl. rewrite H2, IH; auto.
  Qed.

  Theorem equal_sym : forall v w, wfv v -> wfv w -> equal v w = true -> equal w v = true.
  Proof.
    induction v using value_ind'; destruct w; intros Hv Hw E; repeat match goal with x : option sty |- _ => destruct x end; try (simpl in E; discriminate); try (simpl in *; auto; fail); try (simpl in *; contradiction).
    - simpl in *. apply andb_true_iff in E as [H1 H2]. apply numkind_eqb_eq in H1. apply Z.eqb_eq in H2. subst.
      rewrite (proj2 (numkind_eqb_eq k0 k0) eq_refl), Z.eqb_refl. reflexivity.
    - simpl in *. apply eqb_prop in E. subst. apply eqb_reflx.
    - simpl in *. apply bytes_eqb_eq in E. rewrite E. apply bytes_eqb_refl.
    - simpl in *. apply bytes_eqb_eq in E. rewrite E. apply bytes_eqb_refl.
    - simpl in *. apply Z.eqb_eq in E. subst. apply Z.eqb_refl.
    - simpl in *. destruct (Z.eqb_spec domain d); simpl in E; [|discriminate]. subst.
      apply bytes_eqb_eq in E. subst. rewrite Z.eqb_refl. simpl. apply bytes_eqb_refl.
    - simpl in *. apply andb_true_iff in E as [H0 E]. apply andb_true_iff in E as [H1 H2].
      apply bytes_eqb_eq in H0. apply numkind_eqb_eq in H1. apply Z.eqb_eq in H2. subst.
      rewrite bytes_eqb_refl, (proj2 (numkind_eqb_eq k0 k0) eq_refl), Z.eqb_refl. reflexivity.
    - repeat match goal with x : option sty |- _ => destruct x end; simpl in *; try discriminate; try contradiction;
      apply sty_equal_sym; auto.
    - rewrite equal_arr in *. apply wfv_arr in Hv as [Ht Hl], Hw as [Ht0 Hl0].
      apply andb_true_iff in E as [E0 H3]. apply andb_true_iff in E0 as [H1 H2].
      apply Nat.eqb_eq in H1. rewrite H1, Nat.eqb_refl. rewrite sty_equal_sym; auto. simpl.
      clear H1 H2. revert l0 Hl0 H3. induction l as [|x l IH]; destruct l0; simpl; intros; auto; try discriminate.
      inversion H; subst. destruct Hl, Hl0. apply andb_true_iff in H3 as [A1 A2]. rewrite H2, IH; auto.
  Qed.

  Theorem equal_trans : forall u v w, wfv u -> wfv v -> wfv w ->
    equal u v = true -> equal v w = true -> equal u w = true.
  Proof.
    induction u using value_ind'; destruct v; destruct w; intros Hu Hv Hw H1 H2;
      repeat match goal with x : option sty |- _ => destruct x end; try (simpl in *; discriminate); try (simpl in *; eauto; fail); try (simpl in *; contradiction).
    - simpl in *. apply andb_true_iff in H1 as [A1 A2]. apply andb_true_iff in H2 as [B1 B2].
      apply numkind_eqb_eq in A1, B1. apply Z.eqb_eq in A2, B2. subst.
      rewrite (proj2 (numkind_eqb_eq k1 k1) eq_refl), Z.eqb_refl. reflexivity.
    - simpl in *. apply eqb_prop in H1, H2. subst. apply eqb_reflx.
    - simpl in *. apply bytes_eqb_eq in H1, H2. rewrite H1, H2. apply bytes_eqb_refl.
    - simpl in *. apply bytes_eqb_eq in H1, H2. rewrite H1, H2. apply bytes_eqb_refl.
    - simpl in *. apply Z.eqb_eq in H1, H2. subst. apply Z.eqb_refl.
    - simpl in *. destruct (Z.eqb_spec domain d); simpl in H1; [|discriminate].
      destruct (Z.eqb_spec domain0 domain); simpl in H2; [|discriminate]. subst.
      apply bytes_eqb_eq in H1, H2. subst. rewrite Z.eqb_refl. simpl. apply bytes_eqb_refl.
    - simpl in *. apply andb_true_iff in H1 as [A0 A]. apply andb_true_iff in A as [A1 A2].
      apply andb_true_iff in H2 as [B0 B]. apply andb_true_iff in B as [B1 B2].
      apply bytes_eqb_eq in A0, B0. apply numkind_eqb_eq in A1, B1. apply Z.eqb_eq in A2, B2. subst.
      rewrite bytes_eqb_refl, (proj2 (numkind_eqb_eq k1 k1) eq_refl), Z.eqb_refl. reflexivity.
    - repeat match goal with x : option sty |- _ => destruct x end; simpl in *; try discriminate; try contradiction;
      match goal with A : sty_equal ?a ?b = true, B : sty_equal ?b ?c = true |- _ => apply (sty_equal_trans a b c); auto end.
    - rewrite equal_arr in *. apply wfv_arr in Hu as [Ht Hl], Hv as [Ht0 Hl0], Hw as [Ht1 Hl1].
      apply andb_true_iff in H1 as [A A3]. apply andb_true_iff in A as [A1 A2].
      apply andb_true_iff in H2 as [B B3]. apply andb_true_iff in B as [B1 B2].
      apply Nat.eqb_eq in A1, B1. rewrite A1, B1, Nat.eqb_refl.
      rewrite (sty_equal_trans t t0 t1); auto. simpl.
      clear A1 B1 A2 B2. revert l0 l1 Hl0 Hl1 A3 B3.
      induction l as [|x l IH]; destruct l0; try discriminate; destruct l1; simpl; intros; auto; try discriminate.
      inversion H; subst. destruct Hl, Hl0, Hl1.
      apply andb_true_iff in A3 as [A1 A2]. apply andb_true_iff in B3 as [B1 B2].
      rewrite (H2 v v0), (IH H3 H1 l0 l1); auto.
  Qed.

  (* equal values have equal hash input *)
  Theorem equal_hash : forall v w, wfv v -> wfv w -> equal v w = true -> hash_input v = hash_input w.
  Proof.
    destruct v, w; intros Hv Hw H; repeat match goal with x : option sty |- _ => destruct x end; try (simpl in H; discriminate); try reflexivity; try (simpl in *; contradiction).
    - simpl in *. apply andb_true_iff in H as [H1 H2]. apply numkind_eqb_eq in H1. apply Z.eqb_eq in H2. subst. reflexivity.
    - simpl in *. apply eqb_prop in H. subst. reflexivity.
    - simpl in *. apply bytes_eqb_eq in H. rewrite H. reflexivity.
    - simpl in *. apply bytes_eqb_eq in H. rewrite H. reflexivity.
    - simpl in *. apply Z.eqb_eq in H. subst. reflexivity.
    - simpl in *. destruct (Z.eqb_spec domain0 domain); simpl in H; [|discriminate]. subst.
      apply bytes_eqb_eq in H. subst. reflexivity.
    - simpl in *. apply andb_true_iff in H as [H0 H]. apply andb_true_iff in H as [H1 H2].
      apply bytes_eqb_eq in H0. apply numkind_eqb_eq in H1. apply Z.eqb_eq in H2. subst. reflexivity.
    - repeat match goal with x : option sty |- _ => destruct x end; simpl in *; try discriminate; try contradiction;
      match goal with H : sty_equal ?a ?b = true |- _ => rewrite (sty_equal_id a b); auto end.
  Qed.

  (* the source text of a string and its normal form denote equal values *)
  Theorem canonical_equal s : nfc (nfc s) = nfc s ->
    equal (VStr s) (VStr (nfc s)) = true /\ equal (VChar s) (VChar (nfc s)) = true
    /\ hash_input (VStr s) = hash_input (VStr (nfc s)).
  Proof. intros H. simpl. rewrite H, bytes_eqb_refl. auto. Qed.

  (* ---------- ordering ---------- *)

  Notation less := (less nfc).
  Notation less_equal := (less_equal nfc).
  Notation greater := (greater nfc).
  Notation greater_equal := (greater_equal nfc).

  Definition trichotomy (lt eq gt : bool) : Prop :=
    (lt = true /\ eq = false /\ gt = false) \/ (lt = false /\ eq = true /\ gt = false) \/
    (lt = false /\ eq = false /\ gt = true).

  Lemma bytes_trichotomy a b : trichotomy (bytes_ltb a b) (bytes_eqb a b) (bytes_ltb b a).
  Proof. exact (string_order_total a b). Qed.

  Theorem order_total v w lt : less v w = Some lt ->
    exists gt, greater v w = Some gt /\ trichotomy lt (equal v w) gt /\
               less_equal v w = Some (lt || equal v w) /\ greater_equal v w = Some (gt || equal v w).
  Proof.
    destruct v, w; simpl; intros H; try discriminate.
    - unfold Model.greater, Model.greater_equal, Model.less, Model.less_equal, numkind_eqb in *.
      rewrite (Z.eqb_sym (nk_tag k0) (nk_tag k)).
      destruct (nk_tag k =? nk_tag k0); [|discriminate]. injection H as <-.
      exists (z0 <? z). split; [reflexivity|]. unfold trichotomy. simpl.
      destruct (Z.ltb_spec z z0), (Z.ltb_spec z0 z), (Z.eqb_spec z z0), (Z.leb_spec z z0), (Z.leb_spec z0 z);
        try lia; simpl; intuition.
    - injection H as <-. unfold greater, greater_equal. simpl. exists (negb b0 && b).
      split; [reflexivity|]. unfold trichotomy. destruct b, b0; simpl; intuition.
    - injection H as <-. unfold greater, greater_equal. simpl. exists (bytes_ltb (nfc raw0) (nfc raw)).
      split; [reflexivity|]. split. apply bytes_trichotomy.
      destruct (bytes_trichotomy (nfc raw) (nfc raw0)) as [[A [B C]]|[[A [B C]]|[A [B C]]]];
        rewrite A, B, C; auto.
    - injection H as <-. unfold greater, greater_equal. simpl. exists (bytes_ltb (nfc raw0) (nfc raw)).
      split; [reflexivity|]. split. apply bytes_trichotomy.
      destruct (bytes_trichotomy (nfc raw) (nfc raw0)) as [[A [B C]]|[[A [B C]]|[A [B C]]]];
        rewrite A, B, C; auto.
  Qed.

  Theorem less_trans u v w : less u v = Some true -> less v w = Some true -> less u w = Some true.
  Proof.
    destruct u, v; simpl; intros H1; try discriminate; destruct w; simpl; intros H2; try discriminate.
    - unfold numkind_eqb in *. destruct (Z.eqb_spec (nk_tag k) (nk_tag k0)); [|discriminate].
      destruct (Z.eqb_spec (nk_tag k0) (nk_tag k1)); [|discriminate].
      destruct (Z.eqb_spec (nk_tag k) (nk_tag k1)); [|lia].
      injection H1 as H1. injection H2 as H2. apply Z.ltb_lt in H1, H2. f_equal. apply Z.ltb_lt. lia.
    - destruct b, b0, b1; simpl in *; congruence.
    - injection H1 as H1. injection H2 as H2. f_equal. eapply bytes_ltb_trans; eauto.
    - injection H1 as H1. injection H2 as H2. f_equal. eapply bytes_ltb_trans; eauto.
  Qed.

  (* ---------- dictionary ---------- *)
  Section DictLaws.
    Variable V : Type.
    Variable digest : list Z -> Z.
    Notation key_match := (key_match nfc digest).
    Notation d_get := (d_get nfc V digest).
    Notation d_set := (d_set nfc V digest).

    Definition wfd (d : list (value * V)) : Prop := Forall (fun e => wfv (fst e)) d.

    (* a stored key matches k1 iff it matches any key equal to k1 *)
    Lemma key_match_congr k' k1 k2 : wfv k' -> wfv k1 -> wfv k2 -> equal k1 k2 = true ->
      key_match k' k1 = key_match k' k2.
    Proof.
      intros H' H1 H2 E. unfold key_match. rewrite <- (equal_hash k1 k2 H1 H2 E).
      destruct (hash_input k') as [a|]; auto. destruct (hash_input k1) as [b|]; auto. f_equal.
      destruct (equal k1 k') eqn:A.
      - symmetry. apply (equal_trans k2 k1 k'); auto. apply equal_sym; auto.
      - destruct (equal k2 k') eqn:B; auto. rewrite (equal_trans k1 k2 k') in A; auto.
    Qed.

    Lemma d_get_congr d k1 k2 : wfd d -> wfv k1 -> wfv k2 -> equal k1 k2 = true -> d_get d k1 = d_get d k2.
    Proof.
      intros Hd H1 H2 E. induction Hd as [|[k' v] r Hk Hr IH]; simpl. reflexivity.
      rewrite (key_match_congr k' k1 k2); auto. rewrite IH. reflexivity.
    Qed.

    Lemma key_match_self k : wfv k -> hash_input k <> None -> key_match k k = true.
    Proof.
      intros Hw Hh. unfold key_match. destruct (hash_input k); [|congruence].
      rewrite Z.eqb_refl, equal_refl; auto.
    Qed.

    Lemma d_get_set_same d k v : wfv k -> hash_input k <> None -> d_get (d_set d k v) k = Some v.
    Proof.
      intros Hw Hh. induction d as [|[k' v'] r IH]; simpl.
      - rewrite key_match_self; auto.
      - destruct (key_match k' k) eqn:E; simpl; rewrite E; auto.
    Qed.

    Lemma d_set_length d k v : length (d_set d k v) = match d_get d k with Some _ => length d | None => S (length d) end.
    Proof.
      induction d as [|[k' v'] r IH]; simpl. reflexivity.
      destruct (key_match k' k); simpl. reflexivity. rewrite IH. destruct (d_get r k); reflexivity.
    Qed.

    Lemma wfd_set d k v : wfd d -> wfv k -> wfd (d_set d k v).
    Proof.
      intros Hd Hk. induction Hd as [|[k' v'] r Hk' Hr IH]; simpl. repeat constructor; auto.
      destruct (key_match k' k); constructor; auto.
    Qed.

    (* inserting two equal keys leaves one entry, and either key finds the last value *)
    Theorem dict_equal_keys_interchangeable d k1 k2 v1 v2 :
      wfd d -> wfv k1 -> wfv k2 -> hash_input k1 <> None -> equal k1 k2 = true ->
      let d1 := d_set d k1 v1 in
      let d2 := d_set d1 k2 v2 in
      length d2 = length d1 /\ d_get d2 k1 = Some v2 /\ d_get d2 k2 = Some v2
      /\ d_get d1 k2 = Some v1.
    Proof.
      intros Hd H1 H2 Hh E d1 d2.
      assert (Hh2 : hash_input k2 <> None) by (rewrite <- (equal_hash k1 k2 H1 H2 E); auto).
      assert (Hd1 : wfd d1) by (apply wfd_set; auto).
      assert (G1 : d_get d1 k2 = Some v1).
      { rewrite <- (d_get_congr d1 k1 k2); auto. apply d_get_set_same; auto. }
      repeat split; auto.
      - unfold d2. rewrite d_set_length, G1. reflexivity.
      - rewrite (d_get_congr d2 k1 k2); auto. apply d_get_set_same; auto. apply wfd_set; auto.
      - apply d_get_set_same; auto.
    Qed.

    (* in every dictionary, equal keys find the same entry *)
    Theorem dict_lookup_equal_keys d k1 k2 : wfd d -> wfv k1 -> wfv k2 -> equal k1 k2 = true ->
      d_get d k1 = d_get d k2.
    Proof. apply d_get_congr. Qed.
  End DictLaws.
End EqLaws.
