(* C18  Check functions for the per-run case files. *)
From CV Require Export C18.Model C19.Cases.

Local Open Scope Z_scope.

(* strings travel as code points; type IDs and path identifiers as (ASCII) bytes *)
Definition Vs (c : cps) : value := VStr (utf8_enc c).
Definition Vc (c : cps) : value := VChar (utf8_enc c).
Definition Vp (d : Z) (c : cps) : value := VPath d (utf8_enc c).

Definition ntab := list (cps * cps).

Fixpoint ntab_nfc (t : list (list Z * list Z)) (raw : list Z) : list Z :=
  match t with
  | [] => raw
  | (k, v) :: r => if bytes_eqb k raw then v else ntab_nfc r raw
  end.

(* an injective stand-in for the hash function of atree *)
Definition digest_inj (b : list Z) : Z := fold_left (fun acc x => acc * 257 + x + 1) b 0.

Inductive c18op :=
| CEqual (a b : value)
| CCmp (k : cmpk) (a b : value)
| CHash (a : value)
| CDict (ins : list (value * Z)) (probe : list value).

Inductive c18obs :=
| QBool (b : bool)
| QBytes (l : list Z)
| QNone
| QDict (len : Z) (res : list Z).     (* -1 for a missing key *)

Fixpoint zs_eqb (a b : list Z) : bool :=
  match a, b with
  | [], [] => true
  | x :: a', y :: b' => (x =? y) && zs_eqb a' b'
  | _, _ => false
  end.

Definition obs18_eqb (x y : c18obs) : bool :=
  match x, y with
  | QBool a, QBool b => Bool.eqb a b
  | QBytes a, QBytes b => zs_eqb a b
  | QNone, QNone => true
  | QDict n a, QDict m b => (n =? m) && zs_eqb a b
  | _, _ => false
  end.

Definition run18 (nfc : list Z -> list Z) (o : c18op) : c18obs :=
  match o with
  | CEqual a b => QBool (equal nfc a b)
  | CCmp k a b =>
      match (match k with
             | CLt => less nfc a b | CLe => less_equal nfc a b
             | CGt => greater nfc a b | CGe => greater_equal nfc a b
             | CEq => Some (equal nfc a b) | CNe => Some (negb (equal nfc a b))
             end) with
      | Some r => QBool r
      | None => QNone
      end
  | CHash a => match hash_input nfc a with Some b => QBytes b | None => QNone end
  | CDict ins probe =>
      let d := fold_left (fun d kv => d_set nfc Z digest_inj d (fst kv) (snd kv)) ins [] in
      QDict (Z.of_nat (length d))
            (map (fun k => match d_get nfc Z digest_inj d k with Some v => v | None => -1 end) probe)
  end.

Definition case18 := (ntab * c18op * c18obs)%type.

Definition check18 (c : case18) : bool :=
  let '(t, o, ob) := c in
  let nt := map (fun e => (utf8_enc (fst e), utf8_enc (snd e))) t in
  obs18_eqb (run18 (ntab_nfc nt) o) ob.
