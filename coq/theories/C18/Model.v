(* C18  Code-shaped model of equality, ordering and hash input of Cadence values
   (interpreter/value_*.go: Equal, Less/LessEqual/Greater/GreaterEqual, HashInput;
    interpreter/statictype.go: StaticType.Equal and ID; values/big.go: big-endian encodings).
   Definitions only; proofs are in Proofs.v.
   Unicode normalisation is external: [nfc] is a Section variable. *)
From CV Require Export C19.Model.

Local Open Scope Z_scope.

(* ---------- numbers ---------- *)

Inductive numkind :=
| KInt | KInt8 | KInt16 | KInt32 | KInt64 | KInt128 | KInt256
| KUInt | KUInt8 | KUInt16 | KUInt32 | KUInt64 | KUInt128 | KUInt256
| KWord8 | KWord16 | KWord32 | KWord64 | KWord128 | KWord256
| KFix64 | KFix128 | KUFix64 | KUFix128.

(* HashInputType (interpreter/hashablevalue.go) *)
Definition nk_tag (k : numkind) : Z :=
  match k with
  | KInt => 10 | KInt8 => 11 | KInt16 => 12 | KInt32 => 13 | KInt64 => 14 | KInt128 => 15 | KInt256 => 16
  | KUInt => 18 | KUInt8 => 19 | KUInt16 => 20 | KUInt32 => 21 | KUInt64 => 22 | KUInt128 => 23 | KUInt256 => 24
  | KWord8 => 27 | KWord16 => 28 | KWord32 => 29 | KWord64 => 30 | KWord128 => 31 | KWord256 => 32
  | KFix64 => 38 | KFix128 => 39 | KUFix64 => 46 | KUFix128 => 47
  end.

Definition numkind_eqb (a b : numkind) : bool := nk_tag a =? nk_tag b.

Inductive nenc := EFixed (w : nat) | ESignedMin | EUnsignedMin.

Definition nk_enc (k : numkind) : nenc :=
  match k with
  | KInt | KInt128 | KInt256 => ESignedMin
  | KUInt | KUInt128 | KUInt256 | KWord128 | KWord256 => EUnsignedMin
  | KInt8 | KUInt8 | KWord8 => EFixed 1
  | KInt16 | KUInt16 | KWord16 => EFixed 2
  | KInt32 | KUInt32 | KWord32 => EFixed 4
  | KInt64 | KUInt64 | KWord64 | KFix64 | KUFix64 => EFixed 8
  | KFix128 | KUFix128 => EFixed 16
  end.

(* binary.BigEndian.PutUintN(uintN(v)): w bytes of the two's complement *)
Fixpoint be_fixed (w : nat) (z : Z) : bytes :=
  match w with
  | O => []
  | S w' => ((z / 256 ^ Z.of_nat w') mod 256) :: be_fixed w' z
  end.

(* big.Int.Bytes(): minimal big-endian bytes of a non-negative integer, [] for 0 *)
Fixpoint big_bytes_f (fuel : nat) (x : Z) : bytes :=
  match fuel with
  | O => []
  | S f => if x <=? 0 then [] else big_bytes_f f (x / 256) ++ [x mod 256]
  end.
Definition big_bytes (x : Z) : bytes := big_bytes_f (S (Z.to_nat (Z.log2 x))) x.

(* values.SignedBigIntToBigEndianBytes *)
Definition signed_min_bytes (z : Z) : bytes :=
  if z <? 0 then
    let bs := map (fun b => Z.lxor b 255) (big_bytes (- z - 1)) in
    match bs with
    | [] => [255]
    | b0 :: _ => if Z.land b0 128 =? 0 then 255 :: bs else bs
    end
  else if z =? 0 then [0]
  else
    let bs := big_bytes z in
    match bs with
    | b0 :: _ => if negb (Z.land b0 128 =? 0) then 0 :: bs else bs
    | [] => bs
    end.

(* values.UnsignedBigIntToBigEndianBytes *)
Definition unsigned_min_bytes (z : Z) : bytes := if z =? 0 then [0] else big_bytes z.

Definition num_bytes (k : numkind) (z : Z) : bytes :=
  match nk_enc k with
  | EFixed w => be_fixed w z
  | ESignedMin => signed_min_bytes z
  | EUnsignedMin => unsigned_min_bytes z
  end.

(* ---------- static types (the payload of Type values) ---------- *)

Inductive auth :=
| AUnauth
| ASet (disj : bool) (es : list bytes)     (* EntitlementSetAuthorization: ordered set of type IDs, kind *)
| AMap (id : bytes).

Inductive sty :=
| SPrim (id : bytes)
| SComposite (id : bytes)
| SInterface (id : bytes)
| SOpt (t : sty)
| SVarArr (t : sty)
| SConstArr (t : sty) (n : Z)
| SDict (k v : sty)
| SRef (a : auth) (t : sty)
| SCapNone
| SCap (t : sty)
| SInter (ids : list bytes)                (* IntersectionStaticType: interface type IDs *)
| SRange (t : sty).

Definition mem (x : bytes) (l : list bytes) : bool := existsb (bytes_eqb x) l.

(* for every element of a there is an equal element of b (the nested loops of Equal) *)
Definition all_in (a b : list bytes) : bool := forallb (fun x => mem x b) a.

Definition auth_equal (a b : auth) : bool :=
  match a, b with
  | AUnauth, AUnauth => true
  | ASet k1 e1, ASet k2 e2 =>
      Bool.eqb k1 k2 && (length e2 =? length e1)%nat && all_in e2 e1
  | AMap x, AMap y => bytes_eqb x y
  | _, _ => false
  end.

Fixpoint sty_equal (a b : sty) : bool :=
  match a, b with
  | SPrim x, SPrim y => bytes_eqb x y
  | SComposite x, SComposite y => bytes_eqb y x
  | SInterface x, SInterface y => bytes_eqb y x
  | SOpt t, SOpt u => sty_equal t u
  | SVarArr t, SVarArr u => sty_equal t u
  | SConstArr t n, SConstArr u m => (n =? m) && sty_equal t u
  | SDict k v, SDict k' v' => sty_equal k k' && sty_equal v v'
  | SRef x t, SRef y u => auth_equal x y && sty_equal t u
  | SCapNone, SCapNone => true
  | SCap t, SCap u => sty_equal t u
  | SInter x, SInter y => (length x =? length y)%nat && all_in x y
  | SRange t, SRange u => sty_equal t u
  | _, _ => false
  end.

(* slices.Sort on type IDs: insertion sort by Go string order *)
Fixpoint insert_sorted (x : bytes) (l : list bytes) : list bytes :=
  match l with
  | [] => [x]
  | y :: r => if bytes_ltb y x then y :: insert_sorted x r else x :: l
  end.
Fixpoint sort_ids (l : list bytes) : list bytes :=
  match l with
  | [] => []
  | x :: r => insert_sorted x (sort_ids r)
  end.

Fixpoint join_ids (sep : Z) (l : list bytes) : bytes :=
  match l with
  | [] => []
  | [x] => x
  | x :: r => x ++ sep :: join_ids sep r
  end.

(* strconv decimal of a non-negative integer *)
Fixpoint dec_f (fuel : nat) (n : Z) : bytes :=
  match fuel with
  | O => []
  | S f => if n <? 10 then [48 + n] else dec_f f (n / 10) ++ [48 + n mod 10]
  end.
Definition dec (n : Z) : bytes := if n <? 0 then 45 :: dec_f (S (Z.to_nat (Z.log2 (- n)))) (- n)
                                  else dec_f (S (Z.to_nat (Z.log2 n))) n.

Definition s_auth := [97; 117; 116; 104; 40].                       (* "auth(" *)
Definition s_cap := [67; 97; 112; 97; 98; 105; 108; 105; 116; 121]. (* "Capability" *)
Definition s_range := [73; 110; 99; 108; 117; 115; 105; 118; 101; 82; 97; 110; 103; 101]. (* "InclusiveRange" *)

(* sema.FormatEntitlementSetTypeID / EntitlementMapAuthorization.ID *)
Definition auth_id (a : auth) : bytes :=
  match a with
  | AUnauth => []
  | ASet disj es => join_ids (if disj then 124 else 44) (sort_ids es)
  | AMap id => id
  end.

(* StaticType.ID *)
Fixpoint sty_id (t : sty) : bytes :=
  match t with
  | SPrim id | SComposite id | SInterface id => id
  | SOpt t => 40 :: sty_id t ++ [41; 63]                                   (* "(%s)?" *)
  | SVarArr t => 91 :: sty_id t ++ [93]                                    (* "[%s]" *)
  | SConstArr t n => 91 :: sty_id t ++ 59 :: dec n ++ [93]                 (* "[%s;%d]" *)
  | SDict k v => 123 :: sty_id k ++ 58 :: sty_id v ++ [125]                (* "{%s:%s}" *)
  | SRef a t =>
      let aid := auth_id a in
      (match aid with [] => [] | _ => s_auth ++ aid ++ [41] end) ++ 38 :: sty_id t
  | SCapNone => s_cap
  | SCap t => match sty_id t with [] => s_cap | b => s_cap ++ 60 :: b ++ [62] end
  | SInter ids =>
      match ids with
      | [x] => 123 :: x ++ [125]
      | _ => 123 :: join_ids 44 (sort_ids ids) ++ [125]
      end
  | SRange t => match sty_id t with [] => s_range | b => s_range ++ 60 :: b ++ [62] end
  end.

(* ---------- values ---------- *)

Inductive value :=
| VNum (k : numkind) (z : Z)
| VBool (b : bool)
| VStr (raw : bytes)                       (* StringValue made from source text raw: Str = nfc raw *)
| VChar (raw : bytes)
| VAddr (z : Z)                            (* 8 bytes *)
| VPath (domain : Z) (ident : bytes)
| VEnum (tid : bytes) (k : numkind) (raw : Z)   (* enum composite: type ID, raw value *)
| VType (t : option sty)                   (* None: unknown type *)
| VNil
| VSome (v : value)
| VArr (t : sty) (l : list value).

Section Eq.
  Variable nfc : bytes -> bytes.

  Fixpoint equal (v w : value) {struct v} : bool :=
    match v, w with
    | VNum k a, VNum k' b => numkind_eqb k k' && (a =? b)
    | VBool a, VBool b => Bool.eqb a b
    | VStr a, VStr b => bytes_eqb (nfc a) (nfc b)
    | VChar a, VChar b => bytes_eqb (nfc a) (nfc b)
    | VAddr a, VAddr b => a =? b
    | VPath d i, VPath d' i' => if negb (d' =? d) then false else bytes_eqb i' i
    | VEnum t k a, VEnum t' k' b => bytes_eqb t t' && (numkind_eqb k k' && (a =? b))
    | VType (Some t), VType (Some u) => sty_equal t u
    | VType _, VType _ => false               (* unknown types are never equal to another type *)
    | VNil, VNil => true
    | VSome a, VSome b => equal a b
    | VArr t l, VArr u m =>
        (length l =? length m)%nat && sty_equal t u &&
        (fix all2 (l m : list value) : bool :=
           match l, m with
           | [], [] => true
           | x :: l', y :: m' => equal x y && all2 l' m'
           | _, _ => false
           end) l m
    | _, _ => false
    end.

  (* comparable kinds: numbers of the same kind, Bool, String, Character; None otherwise *)
  Definition less (v w : value) : option bool :=
    match v, w with
    | VNum k a, VNum k' b => if numkind_eqb k k' then Some (a <? b) else None
    | VBool a, VBool b => Some (negb a && b)
    | VStr a, VStr b => Some (bytes_ltb (nfc a) (nfc b))
    | VChar a, VChar b => Some (bytes_ltb (nfc a) (nfc b))
    | _, _ => None
    end.
  Definition less_equal (v w : value) : option bool :=
    match v, w with
    | VNum k a, VNum k' b => if numkind_eqb k k' then Some (a <=? b) else None
    | VBool a, VBool b => Some (negb a || b)
    | VStr a, VStr b => Some (negb (bytes_ltb (nfc b) (nfc a)))
    | VChar a, VChar b => Some (negb (bytes_ltb (nfc b) (nfc a)))
    | _, _ => None
    end.
  Definition greater (v w : value) : option bool := less w v.
  Definition greater_equal (v w : value) : option bool := less_equal w v.

  (* HashInput: None for kinds that are not hashable (optionals, arrays, unknown type) *)
  Definition hash_input (v : value) : option bytes :=
    match v with
    | VNum k z => Some (nk_tag k :: num_bytes k z)
    | VBool b => Some [0; if b then 1 else 0]
    | VStr raw => Some (1 :: nfc raw)
    | VChar raw => Some (6 :: nfc raw)
    | VAddr z => Some (3 :: be_fixed 8 z)
    | VPath d i => Some (4 :: d :: i)
    | VEnum tid k z => Some (2 :: tid ++ nk_tag k :: num_bytes k z)
    | VType (Some t) => Some (5 :: sty_id t)
    | _ => None
    end.

  (* ---------- dictionary keyed by (digest of hash input, equal) ---------- *)
  Section Dict.
    Variable V : Type.
    Variable digest : bytes -> Z.             (* the hash function of atree (circlehash): arbitrary *)

    (* does the stored key k' match the probed key k ? *)
    Definition key_match (k' k : value) : bool :=
      match hash_input k', hash_input k with
      | Some a, Some b => (digest a =? digest b) && equal k k'
      | _, _ => false
      end.

    Fixpoint d_get (d : list (value * V)) (k : value) : option V :=
      match d with
      | [] => None
      | (k', v) :: r => if key_match k' k then Some v else d_get r k
      end.

    Fixpoint d_set (d : list (value * V)) (k : value) (v : V) : list (value * V) :=
      match d with
      | [] => [(k, v)]
      | (k', v') :: r => if key_match k' k then (k', v) :: r else (k', v') :: d_set r k v
      end.

    Fixpoint d_remove (d : list (value * V)) (k : value) : list (value * V) :=
      match d with
      | [] => []
      | (k', v') :: r => if key_match k' k then r else (k', v') :: d_remove r k
      end.
  End Dict.
End Eq.
