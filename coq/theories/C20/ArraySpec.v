(* C20  Arrays: the mathematical specification — finite sequences with the standard list
   functions (firstn/skipn/nth_error/rev/++/filter/map/existsb).  Independent of the model's
   recursion schemes; no proofs in this file. *)
From CV Require Export C20.ArrayModel.

Section ArraySpec.
  Context {V : Type}.
  Variable veqb : V -> V -> bool.

  Definition len (l : list V) : Z := Z.of_nat (length l).
  Definition fits_int (z : Z) : bool := (- 2 ^ 63 <=? z) && (z <? 2 ^ 63).

  (* longest prefix whose elements all fail [p] *)
  Fixpoint prefix_not (p : V -> bool) (l : list V) : list V :=
    match l with
    | [] => []
    | x :: r => if p x then [] else x :: prefix_not p r
    end.

  Definition spec_first_index (l : list V) (x : V) : option Z :=
    let k := len (prefix_not (veqb x) l) in
    if k <? len l then Some k else None.

  Definition spec_insert (l : list V) (i : Z) (x : V) : cres (list V) :=
    if negb (fits_int i) then CErr EIntOverflow
    else if (0 <=? i) && (i <=? len l)
         then COk (firstn (Z.to_nat i) l ++ x :: skipn (Z.to_nat i) l)
         else CErr EIndex.

  Definition spec_remove (l : list V) (i : Z) : cres (list V * V) :=
    if negb (fits_int i) then CErr EIntOverflow
    else if (0 <=? i) && (i <? len l)
         then match nth_error l (Z.to_nat i) with
              | Some v => COk (firstn (Z.to_nat i) l ++ skipn (Z.to_nat (i + 1)) l, v)
              | None => CErr EIndex
              end
         else CErr EIndex.

  Definition spec_get (l : list V) (i : Z) : cres V :=
    if negb (fits_int i) then CErr EIntOverflow
    else if (0 <=? i) && (i <? len l)
         then match nth_error l (Z.to_nat i) with Some v => COk v | None => CErr EIndex end
         else CErr EIndex.

  Definition spec_set (l : list V) (i : Z) (x : V) : cres (list V) :=
    if negb (fits_int i) then CErr EIntOverflow
    else if (0 <=? i) && (i <? len l)
         then COk (firstn (Z.to_nat i) l ++ x :: skipn (Z.to_nat (i + 1)) l)
         else CErr EIndex.

  Definition spec_slice (l : list V) (a b : Z) : cres (list V) :=
    if negb (fits_int a) || negb (fits_int b) then CErr EIntOverflow
    else if (0 <=? a) && (a <=? len l) && (0 <=? b) && (b <=? len l)
         then if a <=? b
              then COk (firstn (Z.to_nat (b - a)) (skipn (Z.to_nat a) l))
              else CErr ESliceOrder
         else CErr ESliceBounds.

  Definition spec_pure (l : list V) (p : pureop) : cres (list V) :=
    match p with
    | PSlice a b => spec_slice l a b
    | PReverse => COk (rev l)
    | PConcat other => COk (l ++ other)
    | PFilter f => COk (filter f l)
    | PMap f => COk (map f l)
    end.

  Definition lift (r : cres (list V)) (k : list V -> @stepres V) : @stepres V :=
    match r with COk x => k x | CErr e => SErr e end.

  Definition spec_step (l : list V) (o : @aop V) : @stepres V :=
    match o with
    | OpAppend x => SOk (l ++ [x]) RUnit
    | OpAppendAll other => SOk (l ++ other) RUnit
    | OpInsert i x => lift (spec_insert l i x) (fun l' => SOk l' RUnit)
    | OpRemove i => match spec_remove l i with COk (l', v) => SOk l' (RVal v) | CErr e => SErr e end
    | OpRemoveFirst => match l with [] => SErr EIndex | x :: r => SOk r (RVal x) end
    | OpRemoveLast => match rev l with [] => SErr EIndex | x :: r => SOk (rev r) (RVal x) end
    | OpGet i => match spec_get l i with COk v => SOk l (RVal v) | CErr e => SErr e end
    | OpSet i x => lift (spec_set l i x) (fun l' => SOk l' RUnit)
    | OpContains x => SOk l (RBool (existsb (veqb x) l))
    | OpFirstIndex x => SOk l (ROptZ (spec_first_index l x))
    | OpLength => SOk l (RZ (len l))
    | OpPure p => lift (spec_pure l p) (fun r => SOk l (RList r))
    | OpAssign p => lift (spec_pure l p) (fun r => SOk r RUnit)
    | OpToConstant n => SOk l (ROptList (if len l =? n then Some l else None))
    | OpToVariable => SOk l (RList l)
    | OpRead => SOk l (RList l)
    end.

  Definition spec_history := run_history spec_step.

  (* the committed state after a program, stated without reference to execution order details:
     all operations apply (left to right) if the program is well-typed, none fails and the access
     mode persists; otherwise the committed state is unchanged. *)
  Fixpoint apply_all (l : list V) (ops : list aop) : option (list V) :=
    match ops with
    | [] => Some l
    | o :: r => match spec_step l o with SOk l' _ => apply_all l' r | _ => None end
    end.

  Definition spec_commit (fixed : bool) (s : list V) (t : tx) : list V :=
    if forallb (op_allowed fixed) (tops t) && persists (tmode t)
    then match apply_all s (tops t) with Some s' => s' | None => s end
    else s.

  Definition spec_final (fixed : bool) (s : list V) (h : list tx) : list V :=
    fold_left (spec_commit fixed) h s.
End ArraySpec.
