(* C20  Dictionaries: refinement of the association-list model to std++ finite maps (gmap).
   abs d = list_to_map d;  abs (step d o) = spec_step (abs d) o  for every operation, every
   output is the finite-map answer, for every history. *)
From stdpp Require Import gmap.
From CV Require Import C20.DictModel C20.DictProofs.

Section DictRefine.
  Context `{Countable K} {V : Type}.
  Variable keqb : K -> K -> bool.
  Hypothesis keqb_eq : forall a b, keqb a b = true <-> a = b.
  Variable place : K -> list (K * V) -> nat.

  Notation dict := (list (K * V)).
  Notation wf := (@DictProofs.wf K V).

  Definition abs (d : dict) : gmap K V := list_to_map d.

  Lemma abs_lookup (d : dict) k : abs d !! k = m_get keqb d k.
  Proof.
    unfold abs. induction d as [|[k' v] r IH]; simpl.
    - apply lookup_empty.
    - destruct (keqb k k') eqn:E.
      + apply keqb_eq in E. subst. apply lookup_insert.
      + rewrite lookup_insert_ne; auto. intros ->.
        rewrite (proj2 (keqb_eq k k) eq_refl) in E. discriminate.
  Qed.

  Lemma keqb_decide (a b : K) : keqb a b = bool_decide (a = b).
  Proof.
    destruct (keqb a b) eqn:E.
    - apply keqb_eq in E. subst. now rewrite bool_decide_eq_true_2.
    - rewrite bool_decide_eq_false_2; auto. intros ->.
      rewrite (proj2 (keqb_eq b b) eq_refl) in E. discriminate.
  Qed.

  (* finite-map specification of the state change *)
  Definition gstep (m : gmap K V) (o : @dop K V) : gmap K V :=
    match o with
    | DInsert k v | DSet k v => <[k := v]> m
    | DRemove k | DSetNil k => delete k m
    | _ => m
    end.

  (* finite-map specification of the output *)
  Definition gout (m : gmap K V) (o : @dop K V) (out : @dout K V) : Prop :=
    match o, out with
    | DInsert k _, QOpt old | DRemove k, QOpt old | DGet k, QOpt old => old = m !! k
    | DSet _ _, QUnit | DSetNil _, QUnit => True
    | DContainsKey k, QBool b => b = bool_decide (k ∈ dom m)
    | DLength, QZ z => z = Z.of_nat (size m)
    | DKeys, QKeys l | DIterate, QKeys l => l ≡ₚ (map_to_list m).*1
    | DValues, QVals l => l ≡ₚ (map_to_list m).*2
    | DEntries, QEntries l => l ≡ₚ map_to_list m
    | DForEachKey cont, QKeys l =>
        exists rest, l ++ rest ≡ₚ (map_to_list m).*1 /\
          Forall (fun k => cont k = true) (removelast l) /\
          (rest <> [] -> exists k, last l k = k /\ cont k = false /\ l <> [])
    | _, _ => False
    end.

  Lemma wf_nodup (d : dict) : wf d -> base.NoDup d.*1.
  Proof. unfold DictProofs.wf. rewrite dict_keys_map. apply NoDup_ListNoDup. Qed.

  Lemma abs_to_list (d : dict) : wf d -> map_to_list (abs d) ≡ₚ d.
  Proof. intro W. apply map_to_list_to_map. now apply wf_nodup. Qed.

  Lemma abs_ext (d' : dict) (m : gmap K V) :
    (forall k, m_get keqb d' k = m !! k) -> abs d' = m.
  Proof. intro E. apply map_eq. intro k. now rewrite abs_lookup, E. Qed.

  Theorem dstep_refines (d : dict) o :
    wf d ->
    let '(d', out) := dstep keqb place d o in
    wf d' /\ abs d' = gstep (abs d) o /\ gout (abs d) o out.
  Proof.
    intro W.
    pose proof (dstep_wf keqb keqb_eq place d o W) as W'.
    destruct o; simpl in *.
    - pose proof (insert_spec keqb keqb_eq place d k v W) as S.
      destruct (dict_insert keqb place d k v) as [d' old]. cbv beta iota in S. destruct S as [_ [O [L _]]].
      split; auto. split; [|now rewrite abs_lookup].
      apply abs_ext. intro k'. rewrite L, keqb_decide.
      case_bool_decide; subst; [now rewrite lookup_insert|].
      rewrite lookup_insert_ne by auto. now rewrite abs_lookup.
    - pose proof (remove_spec keqb keqb_eq d k W) as S.
      destruct (dict_remove keqb d k) as [d' old]. cbv beta iota in S. destruct S as [_ [O [L _]]].
      split; auto. split; [|now rewrite abs_lookup].
      apply abs_ext. intro k'. rewrite L, keqb_decide.
      case_bool_decide; subst; [now rewrite lookup_delete|].
      rewrite lookup_delete_ne by auto. now rewrite abs_lookup.
    - split; auto. split; auto. now rewrite abs_lookup.
    - pose proof (insert_spec keqb keqb_eq place d k v W) as S.
      destruct (dict_insert keqb place d k v) as [d' old]. cbv beta iota in S. destruct S as [_ [O [L _]]].
      simpl in *. split; auto. split; auto.
      apply abs_ext. intro k'. rewrite L, keqb_decide.
      case_bool_decide; subst; [now rewrite lookup_insert|].
      rewrite lookup_insert_ne by auto. now rewrite abs_lookup.
    - pose proof (remove_spec keqb keqb_eq d k W) as S.
      destruct (dict_remove keqb d k) as [d' old]. cbv beta iota in S. destruct S as [_ [O [L _]]].
      simpl in *. split; auto. split; auto.
      apply abs_ext. intro k'. rewrite L, keqb_decide.
      case_bool_decide; subst; [now rewrite lookup_delete|].
      rewrite lookup_delete_ne by auto. now rewrite abs_lookup.
    - split; auto. split; auto.
      unfold dict_contains_key. rewrite m_has_get, <- abs_lookup.
      destruct (abs d !! k) eqn:E.
      + rewrite bool_decide_eq_true_2; auto. apply elem_of_dom. eauto.
      + rewrite bool_decide_eq_false_2; auto. intro I. apply elem_of_dom in I.
        destruct I as [? I]. congruence.
    - split; auto. split; auto.
      unfold dict_length, m_count. f_equal.
      unfold size, map_size. symmetry. apply Permutation_length.
      now apply abs_to_list.
    - split; auto. split; auto. rewrite dict_keys_map.
      symmetry. apply fmap_Permutation. now apply abs_to_list.
    - split; auto. split; auto. rewrite dict_values_map.
      symmetry. apply fmap_Permutation. now apply abs_to_list.
    - split; auto. split; auto.
      destruct (keys_values_aligned d) as [A _]. rewrite A. symmetry. now apply abs_to_list.
    - split; auto. split; auto.
      destruct (for_each_key_prefix d cont) as [rest [A [B C]]].
      exists rest. split; auto. rewrite <- A, dict_keys_map.
      symmetry. apply fmap_Permutation. now apply abs_to_list.
    - split; auto. split; auto. rewrite dict_keys_map.
      symmetry. apply fmap_Permutation. now apply abs_to_list.
  Qed.

  (* histories on finite maps *)
  Definition gcommit (m : gmap K V) (t : @dtx K V) : gmap K V :=
    if dpersists (dmode_of t) && negb (dabort t) then foldl gstep m (dops t) else m.

  Fixpoint gouts_ok (m : gmap K V) (ops : list (@dop K V)) (outs : list (@dout K V)) : Prop :=
    match ops, outs with
    | [], [] => True
    | o :: r, out :: outs' => gout m o out /\ gouts_ok (gstep m o) r outs'
    | _, _ => False
    end.

  Fixpoint ghistory_ok (m : gmap K V) (h : list (@dtx K V)) (xs : list (list (@dout K V))) : Prop :=
    match h, xs with
    | [], [] => True
    | t :: r, x :: xs' => gouts_ok m (dops t) x /\ ghistory_ok (gcommit m t) r xs'
    | _, _ => False
    end.

  Lemma drun_ops_refines ops (d : dict) :
    wf d ->
    let '(outs, d') := drun_ops keqb place d ops in
    wf d' /\ abs d' = foldl gstep (abs d) ops /\ gouts_ok (abs d) ops outs.
  Proof.
    revert d; induction ops as [|o r IH]; intros d W; simpl; auto.
    pose proof (dstep_refines d o W) as S.
    destruct (dstep keqb place d o) as [d1 out]. destruct S as [W1 [A1 G1]].
    specialize (IH d1 W1). destruct (drun_ops keqb place d1 r) as [outs d2].
    destruct IH as [W2 [A2 G2]]. rewrite <- A1. auto.
  Qed.

  (* History theorem: from any duplicate-free state, after any history, the model state abstracts
     to the finite map obtained by applying the persisting, non-aborted programs' inserts and
     deletes, every output is the finite-map answer, and the invariant holds. *)
  Theorem history_refines (h : list dtx) (s : dict) :
    wf s ->
    let '(xs, s') := drun_history keqb place s h in
    wf s' /\ abs s' = foldl gcommit (abs s) h /\ ghistory_ok (abs s) h xs.
  Proof.
    revert s; induction h as [|t r IH]; intros s W; simpl; auto.
    unfold dexec_tx.
    pose proof (drun_ops_refines (dops t) s W) as S.
    destruct (drun_ops keqb place s (dops t)) as [outs s1]. destruct S as [W1 [A1 G1]].
    set (s2 := if dpersists (dmode_of t) && negb (dabort t) then s1 else s).
    assert (W2 : wf s2) by (unfold s2; destruct (dpersists (dmode_of t) && negb (dabort t)); auto).
    assert (A2 : abs s2 = gcommit (abs s) t).
    { unfold s2, gcommit. destruct (dpersists (dmode_of t) && negb (dabort t)); auto. }
    specialize (IH s2 W2). destruct (drun_history keqb place s2 r) as [xs sf].
    destruct IH as [Wf [Af Gf]]. rewrite <- A2. auto.
  Qed.

  (* containsKey k  <->  k ∈ dom *)
  Theorem contains_key_dom (d : dict) k :
    dict_contains_key keqb d k = true <-> k ∈ dom (abs d).
  Proof.
    unfold dict_contains_key. rewrite m_has_get, <- abs_lookup, elem_of_dom.
    destruct (abs d !! k); split; try discriminate; eauto. intros [? ?]. discriminate.
  Qed.
End DictRefine.
