(* C20  check functions for the per-run case files: a case is a whole history executed on real
   Cadence arrays / dictionaries together with everything that was observed. *)
From Coq Require Import Sorting.Mergesort Orders.
From CV Require Export C20.ArrayModel C20.DictModel.

(* ------------------------------------------------------------------ arrays over element ids *)
Definition pmod (m r : Z) : Z -> bool := fun x => x mod m =? r.
Definition pconst (b : bool) : Z -> bool := fun _ => b.
Definition faff (a b : Z) : Z -> Z := fun x => a * x + b.

Fixpoint list_eqb {A} (e : A -> A -> bool) (a b : list A) : bool :=
  match a, b with
  | [], [] => true
  | x :: r, y :: s => e x y && list_eqb e r s
  | _, _ => false
  end.

Definition opt_eqb {A} (e : A -> A -> bool) (a b : option A) : bool :=
  match a, b with
  | None, None => true
  | Some x, Some y => e x y
  | _, _ => false
  end.

Definition aout_eqb (a b : @aout Z) : bool :=
  match a, b with
  | RUnit, RUnit => true
  | RVal x, RVal y => x =? y
  | ROptZ x, ROptZ y => opt_eqb Z.eqb x y
  | RBool x, RBool y => Bool.eqb x y
  | RZ x, RZ y => x =? y
  | RList x, RList y => list_eqb Z.eqb x y
  | ROptList x, ROptList y => opt_eqb (list_eqb Z.eqb) x y
  | _, _ => false
  end.

Definition txend_eqb (a b : txend) : bool :=
  match a, b with
  | TDone, TDone => true
  | TFail e, TFail f => cerr_eqb e f
  | _, _ => false            (* TStuck is never an observation *)
  end.

Definition txres_eqb (a b : @txres Z) : bool :=
  match a, b with
  | XRejected, XRejected => true
  | XRan o e, XRan p f => list_eqb aout_eqb o p && txend_eqb e f
  | _, _ => false
  end.

(* programs with what the implementation did; [check_array] replays them on the model *)
Fixpoint array_replay (fixed : bool) (s : list Z) (h : list (@tx Z * @txres Z)) : option (list Z) :=
  match h with
  | [] => Some s
  | (t, obs) :: r =>
      let '(x, s') := exec_tx (astep Z.eqb) fixed s t in
      if txres_eqb x obs then array_replay fixed s' r else None
  end.

(* (constant-sized?, initial contents, history with observations, final contents read back) *)
Definition check_array (c : bool * list Z * list (@tx Z * @txres Z) * list Z) : bool :=
  let '(fixed, init, h, final) := c in
  match array_replay fixed init h with
  | Some s => list_eqb Z.eqb s final
  | None => false
  end.

(* ------------------------------------------------------------------ dictionaries over ids *)
Module ZOrder <: TotalLeBool.
  Definition t := Z.
  Definition leb := Z.leb.
  Theorem leb_total : forall a b, leb a b = true \/ leb b a = true.
  Proof. intros a b. unfold leb. destruct (Z.leb_spec a b); auto. right. apply Z.leb_le. lia. Qed.
End ZOrder.
Module ZSort := Sort ZOrder.

(* canonical digest order for the executable instance: keys ascending *)
Definition place_sorted (k : Z) (d : list (Z * Z)) : nat :=
  length (filter (fun e => fst e <? k) d).

Definition stop_at (k : Z) : Z -> bool := fun x => negb (x =? k).
Definition never_stop : Z -> bool := fun _ => true.

Definition pair_eqb (a b : Z * Z) : bool := (fst a =? fst b) && (snd a =? snd b).

Fixpoint mem (x : Z) (l : list Z) : bool :=
  match l with [] => false | y :: r => (x =? y) || mem x r end.
Fixpoint nodup_b (l : list Z) : bool :=
  match l with [] => true | x :: r => negb (mem x r) && nodup_b r end.

(* forEachKey observation (raw visiting order) against the model's key set *)
Definition foreach_ok (keys : list Z) (cont : Z -> bool) (obs : list Z) : bool :=
  nodup_b obs && forallb (fun k => mem k keys) obs &&
  forallb cont (removelast obs) &&
  (if forallb cont keys
   then list_eqb Z.eqb (ZSort.sort obs) keys
   else match rev obs with
        | last :: _ => negb (cont last)
        | [] => false
        end).

(* outputs are observed up to iteration order: the harness sorts key lists, value lists and
   entry lists (by key); the model instance iterates in ascending key order *)
Definition dout_ok (d : list (Z * Z)) (o : @dop Z Z) (m obs : @dout Z Z) : bool :=
  match o, m, obs with
  | DForEachKey cont, QKeys _, QKeys l => foreach_ok (dict_keys d) cont l
  | _, QUnit, QUnit => true
  | _, QOpt x, QOpt y => opt_eqb Z.eqb x y
  | _, QBool x, QBool y => Bool.eqb x y
  | _, QZ x, QZ y => x =? y
  | _, QKeys x, QKeys y => list_eqb Z.eqb x y
  | _, QVals x, QVals y => list_eqb Z.eqb (ZSort.sort x) y
  | _, QEntries x, QEntries y => list_eqb pair_eqb x y
  | _, _, _ => false
  end.

Fixpoint dops_replay (d : list (Z * Z)) (ops : list (@dop Z Z)) (obs : list (@dout Z Z))
  : option (list (Z * Z)) :=
  match ops, obs with
  | [], [] => Some d
  | o :: r, x :: xs =>
      let '(d', m) := dstep Z.eqb place_sorted d o in
      if dout_ok d o m x then dops_replay d' r xs else None
  | _, _ => None
  end.

Fixpoint dict_replay (s : list (Z * Z)) (h : list (@dtx Z Z * list (@dout Z Z)))
  : option (list (Z * Z)) :=
  match h with
  | [] => Some s
  | (t, obs) :: r =>
      match dops_replay s (dops t) obs with
      | Some s' => dict_replay (if dpersists (dmode_of t) && negb (dabort t) then s' else s) r
      | None => None
      end
  end.

(* (initial entries sorted by key, history with observations, final entries sorted by key) *)
Definition check_dict (c : list (Z * Z) * list (@dtx Z Z * list (@dout Z Z)) * list (Z * Z)) : bool :=
  let '(init, h, final) := c in
  match dict_replay init h with
  | Some s => list_eqb pair_eqb s final
  | None => false
  end.
