(* C20  Dictionaries: executable model of Cadence dictionaries, shaped after
   interpreter/value_dictionary.go.

   Layer 0 ([m_*]) is the part of atree.OrderedMap the Cadence code relies on (modelled, not
   verified): a sequence of key/value entries without duplicate keys, iterated in an order fixed
   by the keys' digests.  The digest order is not specified by Cadence; it enters as the
   section variable [place] (where a NEW key lands among the existing entries) and every theorem
   holds for every [place].  Updating an existing key keeps the stored key and its position
   (value_dictionary.go: "atree.OrderedMap reuses existing stored key").
   Layer 1 ([dict_*]) transcribes *DictionaryValue: Insert returns the previous value as an
   optional, Remove returns the removed value or nil (KeyNotFoundError -> nil), SetKey dispatches
   on SomeValue / NilValue (d[k] = v inserts, d[k] = nil removes), GetKey wraps in an optional,
   keys / values / forEachKey / for-in read the same iteration order.
   No proofs in this file. *)
From CV Require Export Base.Prelude.

Section Dict.
  Context {K V : Type}.
  Variable keqb : K -> K -> bool.                    (* valueComparator on keys *)
  Variable place : K -> list (K * V) -> nat.         (* digest order: position of a new key *)

  Definition dict := list (K * V).

  (* ------------------------------------------------------------------ layer 0: atree.OrderedMap *)
  Fixpoint m_get (d : dict) (k : K) : option V :=      (* None = atree.KeyNotFoundError *)
    match d with
    | [] => None
    | (k', v) :: r => if keqb k k' then Some v else m_get r k
    end.

  Fixpoint m_has (d : dict) (k : K) : bool :=
    match d with
    | [] => false
    | (k', _) :: r => if keqb k k' then true else m_has r k
    end.

  (* replace the value of an existing key in place, keeping the stored key *)
  Fixpoint m_update (d : dict) (k : K) (v : V) : dict :=
    match d with
    | [] => []
    | (k', v') :: r => if keqb k k' then (k', v) :: r else (k', v') :: m_update r k v
    end.

  Fixpoint insert_at (n : nat) (e : K * V) (d : dict) : dict :=
    match n, d with
    | O, _ => e :: d
    | S m, x :: r => x :: insert_at m e r
    | S _, [] => [e]
    end.

  (* OrderedMap.Set: returns the existing value storable (nil for a new key) *)
  Definition m_set (d : dict) (k : K) (v : V) : dict * option V :=
    match m_get d k with
    | Some old => (m_update d k v, Some old)
    | None => (insert_at (place k d) (k, v) d, None)
    end.

  (* OrderedMap.Remove: removed key and value, None = KeyNotFoundError *)
  Fixpoint m_remove (d : dict) (k : K) : option (dict * (K * V)) :=
    match d with
    | [] => None
    | (k', v') :: r =>
        if keqb k k' then Some (r, (k', v'))
        else match m_remove r k with
             | Some (r', e) => Some ((k', v') :: r', e)
             | None => None
             end
    end.

  Definition m_count (d : dict) : Z := Z.of_nat (length d).

  (* ------------------------------------------------------------------ layer 1: *DictionaryValue *)
  Definition dict_insert (d : dict) (k : K) (v : V) : dict * option V := m_set d k v.

  Definition dict_remove (d : dict) (k : K) : dict * option V :=
    match m_remove d k with
    | Some (d', (_, v)) => (d', Some v)
    | None => (d, None)
    end.

  Definition dict_get_key (d : dict) (k : K) : option V := m_get d k.

  (* SetKey: d[k] = value, value : V? *)
  Definition dict_set_key (d : dict) (k : K) (value : option V) : dict :=
    match value with
    | Some v => fst (dict_insert d k v)
    | None => fst (dict_remove d k)
    end.

  Definition dict_contains_key (d : dict) (k : K) : bool := m_has d k.
  Definition dict_length (d : dict) : Z := m_count d.

  (* keys / values: NewArrayValueWithIterator over iterator.NextKey / NextValue *)
  Fixpoint dict_keys (d : dict) : list K :=
    match d with [] => [] | (k, _) :: r => k :: dict_keys r end.
  Fixpoint dict_values (d : dict) : list V :=
    match d with [] => [] | (_, v) :: r => v :: dict_values r end.

  (* forEachKey: IterateReadOnlyKeys, stop when the callback returns false.
     Result: the keys the callback was invoked on. *)
  Fixpoint dict_for_each_key (d : dict) (cont : K -> bool) : list K :=
    match d with
    | [] => []
    | (k, _) :: r => if cont k then k :: dict_for_each_key r cont else [k]
    end.

  (* ------------------------------------------------------------------ operations and histories *)
  Inductive dop : Type :=
  | DInsert (k : K) (v : V)          (* d.insert(key: k, v) *)
  | DRemove (k : K)                  (* d.remove(key: k) *)
  | DGet (k : K)                     (* d[k] *)
  | DSet (k : K) (v : V)             (* d[k] = v *)
  | DSetNil (k : K)                  (* d[k] = nil *)
  | DContainsKey (k : K)
  | DLength
  | DKeys
  | DValues
  | DEntries                         (* keys and values of the same state, paired by position *)
  | DForEachKey (cont : K -> bool)
  | DIterate.                        (* for k in d { ... } *)

  Inductive dout : Type :=
  | QUnit
  | QOpt (o : option V)
  | QBool (b : bool)
  | QZ (z : Z)
  | QKeys (l : list K)
  | QVals (l : list V)
  | QEntries (l : list (K * V)).

  Definition dstep (d : dict) (o : dop) : dict * dout :=
    match o with
    | DInsert k v => let '(d', old) := dict_insert d k v in (d', QOpt old)
    | DRemove k => let '(d', old) := dict_remove d k in (d', QOpt old)
    | DGet k => (d, QOpt (dict_get_key d k))
    | DSet k v => (dict_set_key d k (Some v), QUnit)
    | DSetNil k => (dict_set_key d k None, QUnit)
    | DContainsKey k => (d, QBool (dict_contains_key d k))
    | DLength => (d, QZ (dict_length d))
    | DKeys => (d, QKeys (dict_keys d))
    | DValues => (d, QVals (dict_values d))
    | DEntries => (d, QEntries (combine (dict_keys d) (dict_values d)))
    | DForEachKey cont => (d, QKeys (dict_for_each_key d cont))
    | DIterate => (d, QKeys (dict_keys d))
    end.

  (* Programs: dictionary operations never fail; a program may still abort for an unrelated
     reason ([abort] = the program ends with a failing statement after its operations), which
     rolls everything back. *)
  Inductive dmode : Type := DRef | DLoadSave | DCopy | DScript.
  Definition dpersists (m : dmode) : bool :=
    match m with DRef | DLoadSave => true | DCopy | DScript => false end.

  Record dtx : Type := { dmode_of : dmode; dops : list dop; dabort : bool }.

  Fixpoint drun_ops (d : dict) (ops : list dop) : list dout * dict :=
    match ops with
    | [] => ([], d)
    | o :: r =>
        let '(d', out) := dstep d o in
        let '(outs, df) := drun_ops d' r in
        (out :: outs, df)
    end.

  Definition dexec_tx (s : dict) (t : dtx) : list dout * dict :=
    let '(outs, s') := drun_ops s (dops t) in
    (outs, if dpersists (dmode_of t) && negb (dabort t) then s' else s).

  Fixpoint drun_history (s : dict) (h : list dtx) : list (list dout) * dict :=
    match h with
    | [] => ([], s)
    | t :: r =>
        let '(x, s') := dexec_tx s t in
        let '(xs, sf) := drun_history s' r in
        (x :: xs, sf)
    end.
End Dict.
