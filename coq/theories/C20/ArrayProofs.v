(* C20  Arrays: the code-shaped model meets the list specification, for every operation, every
   program and every history; invariants and algebraic laws. *)
From CV Require Import C20.ArrayModel C20.ArraySpec.

(* goals of the form  true/false = (a <? b)  or  (a <=? b) *)
Ltac bs1 :=
  first [ apply Z.ltb_lt; lia | apply Z.ltb_ge; lia | apply Z.leb_le; lia | apply Z.leb_gt; lia
        | apply andb_true_intro; split; bs1 ].
Ltac bsolve := first [ bs1 | symmetry; bs1 ].

Section ArrayProofs.
  Context {V : Type}.
  Variable veqb : V -> V -> bool.

  (* ---------------------------------------------------------------- layer 0 *)
  Lemma take_firstn n (l : list V) : take n l = firstn n l.
  Proof. revert l; induction n; intros [|x r]; simpl; auto; now rewrite IHn. Qed.

  Lemma drop_skipn n (l : list V) : drop n l = skipn n l.
  Proof. revert l; induction n; intros [|x r]; simpl; auto. Qed.

  Lemma insert_nth_spec n x (l : list V) :
    (n <= length l)%nat -> insert_nth n x l = firstn n l ++ x :: skipn n l.
  Proof.
    revert l; induction n; intros [|y r] H; simpl in *; auto; try lia.
    rewrite IHn by lia. reflexivity.
  Qed.

  Lemma set_nth_spec n x (l : list V) :
    (n < length l)%nat -> set_nth n x l = firstn n l ++ x :: skipn (S n) l.
  Proof.
    revert n; induction l as [|y r IH]; intros [|n] H; simpl in *; auto; try lia.
    rewrite IH by lia. reflexivity.
  Qed.

  Lemma remove_nth_spec n (l : list V) :
    remove_nth n l = firstn n l ++ skipn (S n) l.
  Proof.
    revert n; induction l as [|y r IH]; intros [|n]; simpl in *; auto.
    rewrite IH. reflexivity.
  Qed.

  Lemma to_int_fits z : to_int z = if fits_int z then COk z else CErr EIntOverflow.
  Proof.
    unfold to_int, fits_int, int_min, int_max.
    destruct (Z.leb_spec (- 2 ^ 63) z), (Z.leb_spec z (2 ^ 63 - 1)), (Z.ltb_spec z (2 ^ 63));
      cbn [andb]; try reflexivity; lia.
  Qed.

  Lemma nth_error_in_range (l : list V) n : (n < length l)%nat -> exists v, nth_error l n = Some v.
  Proof.
    intro H. destruct (nth_error l n) eqn:E; eauto.
    apply nth_error_None in E. lia.
  Qed.

  (* ---------------------------------------------------------------- single operations *)
  Lemma arr_get_spec (l : list V) i : arr_get l i = spec_get l i.
  Proof.
    unfold arr_get, spec_get, arr_get_int, at_get, a_count, len. rewrite to_int_fits.
    destruct (fits_int i); simpl; auto.
    destruct (i <? 0) eqn:A; simpl.
    - replace (0 <=? i) with false by bsolve. reflexivity.
    - replace (0 <=? i) with true by bsolve. simpl.
      destruct (i <? Z.of_nat (length l)) eqn:B; auto.
  Qed.

  Lemma arr_set_spec (l : list V) i x : arr_set l i x = spec_set l i x.
  Proof.
    unfold arr_set, spec_set, at_set, a_count, len. rewrite to_int_fits.
    destruct (fits_int i); simpl; auto.
    destruct (i <? 0) eqn:A; simpl.
    - replace (0 <=? i) with false by bsolve. reflexivity.
    - replace (0 <=? i) with true by bsolve. simpl.
      destruct (i <? Z.of_nat (length l)) eqn:B; auto.
      destruct (nth_error_in_range l (Z.to_nat i)) as [v Hv]; [lia|].
      rewrite Hv, set_nth_spec by lia.
      replace (Z.to_nat (i + 1)) with (S (Z.to_nat i)) by lia. reflexivity.
  Qed.

  Lemma arr_insert_spec (l : list V) i x : arr_insert l i x = spec_insert l i x.
  Proof.
    unfold arr_insert, spec_insert, arr_insert_int, at_insert, a_count, len. rewrite to_int_fits.
    destruct (fits_int i); simpl; auto.
    destruct (i <? 0) eqn:A; simpl.
    - replace (0 <=? i) with false by bsolve. reflexivity.
    - replace (0 <=? i) with true by bsolve. simpl.
      destruct (i <=? Z.of_nat (length l)) eqn:B; auto.
      rewrite insert_nth_spec by lia. reflexivity.
  Qed.

  Lemma arr_remove_int_spec (l : list V) i :
    fits_int i = true -> arr_remove_int l i = spec_remove l i.
  Proof.
    intro F. unfold spec_remove, arr_remove_int, at_remove, a_count, len. rewrite F. simpl.
    destruct (i <? 0) eqn:A; simpl.
    - replace (0 <=? i) with false by bsolve. reflexivity.
    - replace (0 <=? i) with true by bsolve. simpl.
      destruct (i <? Z.of_nat (length l)) eqn:B; auto.
      destruct (nth_error_in_range l (Z.to_nat i)) as [v Hv]; [lia|].
      rewrite Hv, remove_nth_spec.
      replace (Z.to_nat (i + 1)) with (S (Z.to_nat i)) by lia. reflexivity.
  Qed.

  Lemma arr_remove_spec (l : list V) i : arr_remove l i = spec_remove l i.
  Proof.
    unfold arr_remove. rewrite to_int_fits. destruct (fits_int i) eqn:F; simpl.
    - now apply arr_remove_int_spec.
    - unfold spec_remove. now rewrite F.
  Qed.

  Lemma arr_remove_first_spec (l : list V) :
    arr_remove_first l = match l with [] => CErr EIndex | x :: r => COk (r, x) end.
  Proof.
    unfold arr_remove_first, arr_remove_int, at_remove, a_count. simpl.
    destruct l; reflexivity.
  Qed.

  Lemma firstn_removelast_rev (x : V) r :
    firstn (length r) (rev r ++ [x]) = rev r.
  Proof.
    rewrite <- (rev_length r). rewrite firstn_app, firstn_all, Nat.sub_diag. simpl.
    now rewrite app_nil_r.
  Qed.

  Lemma arr_remove_last_spec (l : list V) :
    arr_remove_last l = match rev l with [] => CErr EIndex | x :: r => COk (rev r, x) end.
  Proof.
    unfold arr_remove_last, arr_remove_int, at_remove, a_count.
    destruct (rev l) as [|x r] eqn:E.
    - assert (l = []) by (rewrite <- (rev_involutive l), E; reflexivity). subst. reflexivity.
    - assert (L : l = rev r ++ [x]) by (rewrite <- (rev_involutive l), E; reflexivity).
      assert (Hlen : length l = S (length r)).
      { rewrite L, app_length, rev_length. simpl. lia. }
      rewrite Hlen.
      replace (Z.of_nat (S (length r)) - 1 <? 0) with false by bsolve.
      replace (Z.of_nat (S (length r)) - 1 <? Z.of_nat (S (length r))) with true by bsolve.
      replace (Z.to_nat (Z.of_nat (S (length r)) - 1)) with (length r) by lia.
      assert (N : nth_error l (length r) = Some x).
      { rewrite L, nth_error_app2; rewrite rev_length; [|lia]. now rewrite Nat.sub_diag. }
      rewrite N, remove_nth_spec. f_equal. f_equal.
      rewrite L at 1. rewrite firstn_removelast_rev.
      rewrite skipn_all2; [now rewrite app_nil_r | lia].
  Qed.

  Lemma arr_append_all_spec (other l : list V) : arr_append_all l other = l ++ other.
  Proof.
    revert l; induction other as [|x r IH]; intro l; simpl.
    - now rewrite app_nil_r.
    - rewrite IH. unfold arr_append, at_append. now rewrite <- app_assoc.
  Qed.

  Lemma arr_concat_spec (a b : list V) : arr_concat a b = a ++ b.
  Proof. induction a; simpl; auto; now rewrite IHa. Qed.

  Lemma arr_contains_spec (l : list V) x : arr_contains veqb l x = existsb (veqb x) l.
  Proof. induction l; simpl; auto; destruct (veqb x a); auto. Qed.

  Lemma first_index_from_spec (l : list V) x c :
    first_index_from veqb l x c =
      let k := len (prefix_not (veqb x) l) in
      if k <? len l then Some (c + k) else None.
  Proof.
    revert c; induction l as [|e r IH]; intro c; simpl; auto.
    destruct (veqb x e) eqn:E; simpl.
    - unfold len; simpl. f_equal. lia.
    - rewrite IH. unfold len; simpl.
      destruct (Z.of_nat (length (prefix_not (veqb x) r)) <? Z.of_nat (length r)) eqn:A.
      + replace (Z.pos (Pos.of_succ_nat (length (prefix_not (veqb x) r))) <?
                 Z.pos (Pos.of_succ_nat (length r))) with true by bsolve.
        f_equal. lia.
      + replace (Z.pos (Pos.of_succ_nat (length (prefix_not (veqb x) r))) <?
                 Z.pos (Pos.of_succ_nat (length r))) with false by bsolve.
        reflexivity.
  Qed.

  Lemma arr_first_index_spec (l : list V) x : arr_first_index veqb l x = spec_first_index veqb l x.
  Proof.
    unfold arr_first_index, spec_first_index. rewrite first_index_from_spec. simpl.
    destruct (len (prefix_not (veqb x) l) <? len l); auto.
  Qed.

  Lemma arr_slice_spec (l : list V) a b : arr_slice l a b = spec_slice l a b.
  Proof.
    unfold arr_slice, spec_slice, at_range, a_count, len. rewrite !to_int_fits.
    destruct (fits_int a); simpl; auto.
    destruct (fits_int b); simpl; auto.
    destruct (a <? 0) eqn:A; simpl.
    { replace (0 <=? a) with false by bsolve. reflexivity. }
    replace (0 <=? a) with true by bsolve. simpl.
    destruct (b <? 0) eqn:B; simpl.
    { replace (0 <=? b) with false by bsolve. now rewrite andb_false_r. }
    replace (0 <=? b) with true by bsolve. simpl.
    destruct (Z.of_nat (length l) <? a) eqn:C; simpl.
    { replace (a <=? Z.of_nat (length l)) with false by bsolve. reflexivity. }
    replace (a <=? Z.of_nat (length l)) with true by bsolve. simpl.
    destruct (Z.of_nat (length l) <? b) eqn:D; simpl.
    { replace (b <=? Z.of_nat (length l)) with false by bsolve. reflexivity. }
    replace (b <=? Z.of_nat (length l)) with true by bsolve.
    destruct (b <? a) eqn:E.
    { replace (a <=? b) with false by bsolve. reflexivity. }
    replace (a <=? b) with true by bsolve.
    now rewrite take_firstn, drop_skipn.
  Qed.

  Lemma firstn_S_snoc (l : list V) k v :
    nth_error l k = Some v -> firstn (S k) l = firstn k l ++ [v].
  Proof.
    revert k; induction l as [|y r IH]; intros [|k] H; simpl in *; try discriminate.
    - now inversion H.
    - f_equal. now apply IH.
  Qed.

  Lemma reverse_iter_unfold f (l : list V) index :
    reverse_iter (S f) l index =
      if index <? 0 then Some (COk [])
      else match arr_get_int l index with
           | CErr e => Some (CErr e)
           | COk v => match reverse_iter f l (index - 1) with
                      | Some (COk r) => Some (COk (v :: r))
                      | other => other
                      end
           end.
  Proof. reflexivity. Qed.

  Lemma reverse_iter_spec (l : list V) k :
    (k <= length l)%nat ->
    reverse_iter (S k) l (Z.of_nat k - 1) = Some (COk (rev (firstn k l))).
  Proof.
    induction k as [|k IH]; intro H.
    - reflexivity.
    - rewrite reverse_iter_unfold.
      replace (Z.of_nat (S k) - 1 <? 0) with false by bsolve.
      unfold arr_get_int, at_get, a_count.
      replace (Z.of_nat (S k) - 1 <? 0) with false by bsolve.
      replace (Z.of_nat (S k) - 1 <? Z.of_nat (length l)) with true by bsolve.
      replace (Z.to_nat (Z.of_nat (S k) - 1)) with k by lia.
      destruct (nth_error_in_range l k) as [v Hv]; [lia|].
      rewrite Hv.
      replace (Z.of_nat (S k) - 1 - 1) with (Z.of_nat k - 1) by lia.
      rewrite IH by lia.
      rewrite (firstn_S_snoc l k v Hv), rev_app_distr. reflexivity.
  Qed.

  Lemma arr_reverse_spec (l : list V) : arr_reverse l = Some (COk (rev l)).
  Proof.
    unfold arr_reverse, a_count. rewrite reverse_iter_spec by lia. now rewrite firstn_all.
  Qed.

  Lemma arr_filter_spec p (l : list V) : arr_filter p l = filter p l.
  Proof. induction l; simpl; auto; destruct (p a); now rewrite IHl. Qed.

  Lemma arr_map_spec f (l : list V) : arr_map f l = map f l.
  Proof. induction l; simpl; auto; now rewrite IHl. Qed.

  Lemma run_pure_spec (l : list V) p : run_pure l p = Some (spec_pure l p).
  Proof.
    destruct p; simpl.
    - now rewrite arr_slice_spec.
    - apply arr_reverse_spec.
    - now rewrite arr_concat_spec.
    - now rewrite arr_filter_spec.
    - now rewrite arr_map_spec.
  Qed.

  (* ---------------------------------------------------------------- every operation *)
  Theorem astep_spec (l : list V) (o : aop) : astep veqb l o = spec_step veqb l o.
  Proof.
    destruct o; simpl.
    - reflexivity.
    - now rewrite arr_append_all_spec.
    - rewrite arr_insert_spec. destruct (spec_insert l i x); reflexivity.
    - rewrite arr_remove_spec. reflexivity.
    - rewrite arr_remove_first_spec. destruct l; reflexivity.
    - rewrite arr_remove_last_spec. destruct (rev l); reflexivity.
    - rewrite arr_get_spec. reflexivity.
    - rewrite arr_set_spec. destruct (spec_set l i x); reflexivity.
    - now rewrite arr_contains_spec.
    - now rewrite arr_first_index_spec.
    - reflexivity.
    - rewrite run_pure_spec. destruct (spec_pure l p); reflexivity.
    - rewrite run_pure_spec. destruct (spec_pure l p); reflexivity.
    - unfold arr_to_constant, a_count, len. rewrite arr_concat_spec, app_nil_r. reflexivity.
    - unfold arr_to_variable. now rewrite arr_concat_spec, app_nil_r.
    - now rewrite arr_concat_spec, app_nil_r.
  Qed.

  (* the model never gets stuck (fuel in Reverse suffices) *)
  Theorem astep_not_stuck (l : list V) (o : aop) : astep veqb l o <> SStuck.
  Proof.
    rewrite astep_spec. destruct o; simpl; try discriminate.
    - destruct (spec_insert l i x); discriminate.
    - destruct (spec_remove l i) as [[? ?]|]; discriminate.
    - destruct l; discriminate.
    - destruct (rev l); discriminate.
    - destruct (spec_get l i); discriminate.
    - destruct (spec_set l i x); discriminate.
    - destruct (spec_pure l p); discriminate.
    - destruct (spec_pure l p); discriminate.
  Qed.

  (* ---------------------------------------------------------------- programs and histories *)
  Lemma run_ops_ext (f g : list V -> aop -> stepres) :
    (forall l o, f l o = g l o) -> forall ops l, run_ops f l ops = run_ops g l ops.
  Proof.
    intros E ops; induction ops as [|o r IH]; intro l; simpl; auto.
    rewrite E. destruct (g l o); auto. now rewrite IH.
  Qed.

  Lemma exec_tx_ext (f g : list V -> aop -> stepres) :
    (forall l o, f l o = g l o) -> forall fixed s t, exec_tx f fixed s t = exec_tx g fixed s t.
  Proof. intros E fixed s t. unfold exec_tx. now rewrite (run_ops_ext f g E). Qed.

  Lemma run_history_ext (f g : list V -> aop -> stepres) :
    (forall l o, f l o = g l o) ->
    forall fixed h s, run_history f fixed s h = run_history g fixed s h.
  Proof.
    intros E fixed h; induction h as [|t r IH]; intro s; simpl; auto.
    rewrite (exec_tx_ext f g E). destruct (exec_tx g fixed s t). now rewrite IH.
  Qed.

  (* History theorem: for every history from every initial contents, every output, every error
     class and the final contents computed by the code-shaped model are those of the list
     specification. *)
  Theorem history_refines fixed (h : list tx) (s : list V) :
    model_history veqb fixed s h = spec_history veqb fixed s h.
  Proof. apply run_history_ext. apply astep_spec. Qed.

  (* outcome classes of a history: no program ever ends in the model-only [TStuck] *)
  Lemma run_ops_not_stuck ops (l : list V) :
    snd (fst (run_ops (astep veqb) l ops)) <> TStuck.
  Proof.
    revert l; induction ops as [|o r IH]; intro l; simpl; try discriminate.
    destruct (astep veqb l o) eqn:E; simpl; try discriminate.
    - specialize (IH l0). destruct (run_ops (astep veqb) l0 r) as [[? ?] ?]. exact IH.
    - now apply astep_not_stuck in E.
  Qed.

  Theorem history_never_stuck fixed (h : list tx) (s : list V) :
    Forall (fun x => match x with XRan _ TStuck => False | _ => True end)
           (fst (model_history veqb fixed s h)).
  Proof.
    unfold model_history. revert s; induction h as [|t r IH]; intro s; simpl; auto.
    unfold exec_tx at 1.
    destruct (forallb (op_allowed fixed) (tops t)).
    - pose proof (run_ops_not_stuck (tops t) s) as N.
      destruct (run_ops (astep veqb) s (tops t)) as [[outs e] s'] eqn:R. simpl in N.
      match goal with |- context [run_history ?f ?fx ?st r] =>
        specialize (IH st); destruct (run_history f fx st r) end.
      simpl. constructor; auto. destruct e; auto.
    - specialize (IH s). destruct (run_history (astep veqb) fixed s r). simpl. constructor; auto.
  Qed.

  (* committed state: exactly the effect of the well-typed, successful, persisting programs *)
  Lemma run_ops_apply_all ops (l : list V) :
    let '(_, e, l') := run_ops (spec_step veqb) l ops in
    match e with
    | TDone => apply_all veqb l ops = Some l'
    | _ => apply_all veqb l ops = None
    end.
  Proof.
    revert l; induction ops as [|o r IH]; intro l; simpl; auto.
    destruct (spec_step veqb l o) eqn:E; auto.
    specialize (IH l0). destruct (run_ops (spec_step veqb) l0 r) as [[? ?] ?]. exact IH.
  Qed.

  Lemma exec_tx_commit fixed (s : list V) t :
    snd (exec_tx (spec_step veqb) fixed s t) = spec_commit veqb fixed s t.
  Proof.
    unfold exec_tx, spec_commit.
    destruct (forallb (op_allowed fixed) (tops t)); simpl; auto.
    pose proof (run_ops_apply_all (tops t) s) as A.
    destruct (run_ops (spec_step veqb) s (tops t)) as [[outs e] s']. simpl.
    destruct e; rewrite A; destruct (persists (tmode t)); auto.
  Qed.

  Theorem history_final_state fixed (h : list tx) (s : list V) :
    snd (model_history veqb fixed s h) = spec_final veqb fixed s h.
  Proof.
    rewrite history_refines. unfold spec_history, spec_final.
    revert s; induction h as [|t r IH]; intro s; simpl; auto.
    pose proof (exec_tx_commit fixed s t) as C.
    destruct (exec_tx (spec_step veqb) fixed s t) as [x s']. simpl in C. subst s'.
    specialize (IH (spec_commit veqb fixed s t)).
    destruct (run_history (spec_step veqb) fixed (spec_commit veqb fixed s t) r). exact IH.
  Qed.

  (* a failed or rejected or non-persisting program leaves the committed contents untouched *)
  Theorem failed_tx_no_effect fixed (s : list V) t x s' :
    exec_tx (astep veqb) fixed s t = (x, s') ->
    (x = XRejected \/ (exists outs e, x = XRan outs (TFail e)) \/ persists (tmode t) = false) ->
    s' = s.
  Proof.
    unfold exec_tx. destruct (forallb (op_allowed fixed) (tops t)).
    - destruct (run_ops (astep veqb) s (tops t)) as [[outs e] s2].
      intros H D. inversion H; subst; clear H.
      destruct D as [A|[[o2 [e2 A]]|A]].
      + discriminate.
      + inversion A; subst. reflexivity.
      + destruct e; auto. now rewrite A.
    - intros H _. now inversion H.
  Qed.

  (* ---------------------------------------------------------------- invariants *)
  (* length bookkeeping for one successful operation *)
  Definition length_effect (o : @aop V) (n : Z) (l' : list V) : Prop :=
    match o with
    | OpAppend _ | OpInsert _ _ => len l' = n + 1
    | OpAppendAll other => len l' = n + len other
    | OpRemove _ | OpRemoveFirst | OpRemoveLast => len l' = n - 1
    | OpAssign (PSlice a b) => len l' = b - a
    | OpAssign (PConcat other) => len l' = n + len other
    | OpAssign (PFilter _) => len l' <= n
    | _ => len l' = n
    end.

  Lemma len_app (a b : list V) : len (a ++ b) = len a + len b.
  Proof. unfold len. rewrite app_length. lia. Qed.

  Lemma len_firstn k (l : list V) : (k <= length l)%nat -> len (firstn k l) = Z.of_nat k.
  Proof. intro H. unfold len. rewrite firstn_length. lia. Qed.

  Lemma len_skipn k (l : list V) : len (skipn k l) = Z.of_nat (length l - k).
  Proof. unfold len. now rewrite skipn_length. Qed.

  Lemma filter_len p (l : list V) : len (filter p l) <= len l.
  Proof. unfold len. induction l; simpl; try lia. destruct (p a); simpl; lia. Qed.

  Theorem step_length (l : list V) o l' out :
    astep veqb l o = SOk l' out -> length_effect o (len l) l'.
  Proof.
    rewrite astep_spec.
    destruct o; cbn [spec_step lift length_effect]; intro H.
    - try discriminate; injection H as <- ?. rewrite len_app. reflexivity.
    - try discriminate; injection H as <- ?. apply len_app.
    - unfold spec_insert in H. destruct (negb (fits_int i)); try discriminate.
      destruct ((0 <=? i) && (i <=? len l)) eqn:B; try discriminate; injection H as <- ?.
      apply andb_prop in B. destruct B as [B1 B2].
      rewrite len_app. unfold len in *. cbn [length].
      rewrite firstn_length, skipn_length. lia.
    - unfold spec_remove in H. destruct (negb (fits_int i)); try discriminate.
      destruct ((0 <=? i) && (i <? len l)) eqn:B; try discriminate.
      destruct (nth_error l (Z.to_nat i)); try discriminate; injection H as <- ?.
      apply andb_prop in B. destruct B as [B1 B2].
      rewrite len_app. unfold len in *.
      rewrite firstn_length, skipn_length. lia.
    - destruct l; try discriminate; injection H as <- ?. unfold len. cbn [length]. lia.
    - destruct (rev l) eqn:E; try discriminate; injection H as <- ?.
      assert (length l = S (length l0)) by (rewrite <- (rev_length l), E; reflexivity).
      unfold len. rewrite rev_length. lia.
    - destruct (spec_get l i); try discriminate; injection H as <- ?. reflexivity.
    - unfold spec_set in H. destruct (negb (fits_int i)); try discriminate.
      destruct ((0 <=? i) && (i <? len l)) eqn:B; try discriminate; injection H as <- ?.
      apply andb_prop in B. destruct B as [B1 B2].
      rewrite len_app. unfold len in *. cbn [length].
      rewrite firstn_length, skipn_length. lia.
    - try discriminate; injection H as <- ?. reflexivity.
    - try discriminate; injection H as <- ?. reflexivity.
    - try discriminate; injection H as <- ?. reflexivity.
    - destruct (spec_pure l p); try discriminate; injection H as <- ?. reflexivity.
    - destruct p; cbn [spec_pure] in H.
      + unfold spec_slice in H.
        destruct (negb (fits_int from) || negb (fits_int to)); try discriminate.
        destruct ((0 <=? from) && (from <=? len l) && (0 <=? to) && (to <=? len l)) eqn:B;
          try discriminate.
        destruct (from <=? to) eqn:C; try discriminate; injection H as <- ?.
        repeat (apply andb_prop in B; destruct B as [B ?]). unfold len in *.
        rewrite firstn_length, skipn_length. lia.
      + try discriminate; injection H as <- ?. unfold len. now rewrite rev_length.
      + try discriminate; injection H as <- ?. apply len_app.
      + try discriminate; injection H as <- ?. apply filter_len.
      + try discriminate; injection H as <- ?. unfold len. now rewrite map_length.
    - try discriminate; injection H as <- ?. reflexivity.
    - try discriminate; injection H as <- ?. reflexivity.
    - try discriminate; injection H as <- ?. reflexivity.
  Qed.

  (* constant-sized arrays keep their size in every reachable state, whatever the history *)
  Lemma allowed_fixed_keeps_length (l : list V) o l' out :
    op_allowed true o = true -> astep veqb l o = SOk l' out -> length l' = length l.
  Proof.
    intros A H. apply step_length in H.
    destruct o; simpl in A; try discriminate; simpl in H; unfold len in H; try lia.
    destruct p; simpl in A; try discriminate; unfold len in H; lia.
  Qed.

  Lemma run_ops_fixed_length ops (l : list V) :
    forallb (op_allowed true) ops = true ->
    length (snd (run_ops (astep veqb) l ops)) = length l.
  Proof.
    revert l; induction ops as [|o r IH]; intros l A; simpl in *; auto.
    apply andb_prop in A. destruct A as [A1 A2].
    destruct (astep veqb l o) eqn:E; simpl; auto.
    specialize (IH l0 A2). destruct (run_ops (astep veqb) l0 r) as [[? ?] ?]. simpl in *.
    rewrite IH. eapply allowed_fixed_keeps_length; eauto.
  Qed.

  Theorem fixed_size_invariant (h : list tx) (s : list V) :
    length (snd (model_history veqb true s h)) = length s.
  Proof.
    unfold model_history. revert s; induction h as [|t r IH]; intro s; simpl; auto.
    unfold exec_tx at 1.
    destruct (forallb (op_allowed true) (tops t)) eqn:A.
    - pose proof (run_ops_fixed_length (tops t) s A) as L.
      destruct (run_ops (astep veqb) s (tops t)) as [[outs e] s']. simpl in L.
      match goal with |- context [run_history ?f true ?st r] =>
        pose proof (IH st) as IH'; destruct (run_history f true st r) eqn:R end.
      simpl in *. rewrite IH'. destruct e; auto. destruct (persists (tmode t)); auto.
    - pose proof (IH s) as IH'. destruct (run_history (astep veqb) true s r). exact IH'.
  Qed.

  (* ---------------------------------------------------------------- index errors *)
  (* when does an operation have valid indices (Go: array counts fit int) *)
  Definition op_valid (l : list V) (o : @aop V) : Prop :=
    match o with
    | OpInsert i _ => 0 <= i <= len l
    | OpRemove i | OpGet i | OpSet i _ => 0 <= i < len l
    | OpRemoveFirst | OpRemoveLast => 0 < len l
    | OpPure (PSlice a b) | OpAssign (PSlice a b) => 0 <= a <= b /\ b <= len l
    | _ => True
    end.

  Lemma fits_small z n : 0 <= z <= n -> n < 2 ^ 63 -> fits_int z = true.
  Proof. intros. unfold fits_int. apply andb_true_intro; split; [apply Z.leb_le | apply Z.ltb_lt]; lia. Qed.

  Lemma spec_slice_ok_iff (l : list V) a b :
    len l < 2 ^ 63 ->
    (exists r, spec_slice l a b = COk r) <-> (0 <= a <= b /\ b <= len l).
  Proof.
    intro L. unfold spec_slice. split.
    - intros [r H].
      destruct (negb (fits_int a) || negb (fits_int b)); try discriminate.
      destruct ((0 <=? a) && (a <=? len l) && (0 <=? b) && (b <=? len l)) eqn:B; try discriminate.
      destruct (a <=? b) eqn:C; try discriminate.
      repeat (apply andb_prop in B; destruct B as [B ?]). lia.
    - intros [A B].
      rewrite (fits_small a (len l)), (fits_small b (len l)) by lia. cbn [negb orb].
      replace ((0 <=? a) && (a <=? len l) && (0 <=? b) && (b <=? len l)) with true.
      + replace (a <=? b) with true by bsolve. eauto.
      + symmetry. repeat (apply andb_true_intro; split); apply Z.leb_le; lia.
  Qed.

  (* An operation fails exactly when one of its indices is invalid; it then fails with an index
     error class and the array is unchanged (there is no SOk); otherwise it succeeds. *)
  Theorem step_fails_iff_invalid (l : list V) o :
    len l < 2 ^ 63 ->
    ((exists e, astep veqb l o = SErr e) <-> ~ op_valid l o).
  Proof.
    intro L. rewrite astep_spec.
    destruct o; cbn [spec_step lift op_valid];
      try (split; [intros [e H]; discriminate | intro H; exfalso; apply H; exact I]).
    - (* insert *)
      unfold spec_insert. split.
      + intros [e H] Vd. rewrite (fits_small i (len l)) in H by lia. cbn [negb] in H.
        replace ((0 <=? i) && (i <=? len l)) with true in H by bsolve. discriminate.
      + intro N. destruct (negb (fits_int i)); [eexists; reflexivity|].
        destruct ((0 <=? i) && (i <=? len l)) eqn:B; [|eexists; reflexivity].
        apply andb_prop in B. exfalso. apply N. lia.
    - (* remove *)
      unfold spec_remove. split.
      + intros [e H] Vd. rewrite (fits_small i (len l)) in H by lia. cbn [negb] in H.
        replace ((0 <=? i) && (i <? len l)) with true in H by bsolve.
        destruct (nth_error_in_range l (Z.to_nat i)) as [v Hv]; [unfold len in *; lia|].
        rewrite Hv in H. discriminate.
      + intro N. destruct (negb (fits_int i)); [eexists; reflexivity|].
        destruct ((0 <=? i) && (i <? len l)) eqn:B; [|eexists; reflexivity].
        apply andb_prop in B. exfalso. apply N. lia.
    - (* removeFirst *)
      destruct l; unfold len; cbn [length]; split.
      + intros _ H. lia.
      + eexists; reflexivity.
      + intros [e H]. discriminate.
      + intro N. exfalso. apply N. lia.
    - (* removeLast *)
      destruct (rev l) eqn:E; split.
      + intros _ H. assert (length l = 0%nat) by (rewrite <- (rev_length l), E; reflexivity).
        unfold len in H. lia.
      + eexists; reflexivity.
      + intros [e H]. discriminate.
      + intro N. exfalso. apply N.
        assert (length l = S (length l0)) by (rewrite <- (rev_length l), E; reflexivity).
        unfold len. lia.
    - (* get *)
      unfold spec_get. split.
      + intros [e H] Vd. rewrite (fits_small i (len l)) in H by lia. cbn [negb] in H.
        replace ((0 <=? i) && (i <? len l)) with true in H by bsolve.
        destruct (nth_error_in_range l (Z.to_nat i)) as [v Hv]; [unfold len in *; lia|].
        rewrite Hv in H. discriminate.
      + intro N. destruct (negb (fits_int i)); [eexists; reflexivity|].
        destruct ((0 <=? i) && (i <? len l)) eqn:B; [|eexists; reflexivity].
        apply andb_prop in B. exfalso. apply N. lia.
    - (* set *)
      unfold spec_set. split.
      + intros [e H] Vd. rewrite (fits_small i (len l)) in H by lia. cbn [negb] in H.
        replace ((0 <=? i) && (i <? len l)) with true in H by bsolve. discriminate.
      + intro N. destruct (negb (fits_int i)); [eexists; reflexivity|].
        destruct ((0 <=? i) && (i <? len l)) eqn:B; [|eexists; reflexivity].
        apply andb_prop in B. exfalso. apply N. lia.
    - (* pure *)
      destruct p; cbn [spec_pure];
        try (split; [intros [e H]; discriminate | intro H; exfalso; apply H; exact I]).
      pose proof (spec_slice_ok_iff l from to L) as S.
      destruct (spec_slice l from to) eqn:E; split.
      + intros [e H]. discriminate.
      + intro N. exfalso. apply N. apply S. eauto.
      + intros _ Vd. apply S in Vd. destruct Vd. discriminate.
      + eexists; reflexivity.
    - (* assign *)
      destruct p; cbn [spec_pure];
        try (split; [intros [e H]; discriminate | intro H; exfalso; apply H; exact I]).
      pose proof (spec_slice_ok_iff l from to L) as S.
      destruct (spec_slice l from to) eqn:E; split.
      + intros [e H]. discriminate.
      + intro N. exfalso. apply N. apply S. eauto.
      + intros _ Vd. apply S in Vd. destruct Vd. discriminate.
      + eexists; reflexivity.
  Qed.

  (* the overflow class appears only for indices that do not fit a Go int (never for an index
     within a real array's bounds) *)
  Theorem overflow_only_beyond_int (l : list V) o :
    astep veqb l o = SErr EIntOverflow ->
    match o with
    | OpInsert i _ | OpRemove i | OpGet i | OpSet i _ => fits_int i = false
    | OpPure (PSlice a b) | OpAssign (PSlice a b) => fits_int a = false \/ fits_int b = false
    | _ => False
    end.
  Proof.
    rewrite astep_spec. destruct o; cbn [spec_step lift]; intro H; try discriminate.
    - unfold spec_insert in H. destruct (fits_int i); auto. cbn [negb] in H.
      destruct ((0 <=? i) && (i <=? len l)); discriminate.
    - unfold spec_remove in H. destruct (fits_int i); auto. cbn [negb] in H.
      destruct ((0 <=? i) && (i <? len l)); try discriminate.
      destruct (nth_error l (Z.to_nat i)); discriminate.
    - destruct l; discriminate.
    - destruct (rev l); discriminate.
    - unfold spec_get in H. destruct (fits_int i); auto. cbn [negb] in H.
      destruct ((0 <=? i) && (i <? len l)); try discriminate.
      destruct (nth_error l (Z.to_nat i)); discriminate.
    - unfold spec_set in H. destruct (fits_int i); auto. cbn [negb] in H.
      destruct ((0 <=? i) && (i <? len l)); discriminate.
    - destruct p; cbn [spec_pure] in H; try discriminate.
      unfold spec_slice in H. destruct (fits_int from), (fits_int to); auto. cbn [negb orb] in H.
      destruct ((0 <=? from) && (from <=? len l) && (0 <=? to) && (to <=? len l));
        try discriminate. destruct (from <=? to); discriminate.
    - destruct p; cbn [spec_pure] in H; try discriminate.
      unfold spec_slice in H. destruct (fits_int from), (fits_int to); auto. cbn [negb orb] in H.
      destruct ((0 <=? from) && (from <=? len l) && (0 <=? to) && (to <=? len l));
        try discriminate. destruct (from <=? to); discriminate.
  Qed.

  (* ---------------------------------------------------------------- algebraic laws *)
  Theorem reverse_involutive (l r : list V) :
    arr_reverse l = Some (COk r) -> arr_reverse r = Some (COk l).
  Proof.
    rewrite arr_reverse_spec. intro H. injection H as <-.
    rewrite arr_reverse_spec. now rewrite rev_involutive.
  Qed.

  Theorem slice_concat (l : list V) k :
    len l < 2 ^ 63 -> 0 <= k <= len l ->
    exists a b, arr_slice l 0 k = COk a /\ arr_slice l k (len l) = COk b /\ arr_concat a b = l.
  Proof.
    intros L K. rewrite !arr_slice_spec. unfold spec_slice.
    rewrite (fits_small 0 (len l)), (fits_small k (len l)), (fits_small (len l) (len l)) by lia.
    cbn [negb orb].
    replace ((0 <=? 0) && (0 <=? len l) && (0 <=? k) && (k <=? len l)) with true
      by (symmetry; repeat (apply andb_true_intro; split); apply Z.leb_le; lia).
    replace ((0 <=? k) && (k <=? len l) && (0 <=? len l) && (len l <=? len l)) with true
      by (symmetry; repeat (apply andb_true_intro; split); apply Z.leb_le; lia).
    replace (0 <=? k) with true by bsolve. replace (k <=? len l) with true by bsolve.
    do 2 eexists. split; [reflexivity|]. split; [reflexivity|].
    rewrite arr_concat_spec. change (Z.to_nat 0) with 0%nat. cbn [skipn].
    rewrite Z.sub_0_r.
    rewrite (firstn_all2 (skipn (Z.to_nat k) l)).
    - apply firstn_skipn.
    - rewrite skipn_length. unfold len. lia.
  Qed.

  Theorem contains_iff_first_index (l : list V) x :
    arr_contains veqb l x = true <-> arr_first_index veqb l x <> None.
  Proof.
    unfold arr_first_index. generalize 0.
    induction l as [|e r IH]; intro c; cbn [arr_contains first_index_from].
    - split; [discriminate | intro H; now contradiction H].
    - destruct (veqb x e).
      + split; [discriminate | reflexivity].
      + apply IH.
  Qed.

  Lemma first_index_from_least (l : list V) x c i :
    first_index_from veqb l x c = Some i ->
    c <= i < c + len l /\
    (exists y, nth_error l (Z.to_nat (i - c)) = Some y /\ veqb x y = true) /\
    (forall j y, c <= j < i -> nth_error l (Z.to_nat (j - c)) = Some y -> veqb x y = false).
  Proof.
    revert c; induction l as [|e r IH]; intro c; cbn [first_index_from]; try discriminate.
    destruct (veqb x e) eqn:E.
    - intro H. injection H as <-. unfold len. cbn [length]. split; [lia|]. split.
      + exists e. rewrite Z.sub_diag. auto.
      + intros j y J. lia.
    - intro H. apply IH in H. destruct H as [R [[y [N Y]] M]].
      unfold len in *. cbn [length]. split; [lia|]. split.
      + exists y. split; auto.
        replace (Z.to_nat (i - c)) with (S (Z.to_nat (i - (c + 1)))) by lia. exact N.
      + intros j y' J N'.
        assert (j = c \/ c + 1 <= j) as [->|J'] by lia.
        * rewrite Z.sub_diag in N'. cbn in N'. now injection N' as <-.
        * apply (M j y'); [lia|].
          replace (Z.to_nat (j - c)) with (S (Z.to_nat (j - (c + 1)))) in N' by lia. exact N'.
  Qed.

  Theorem first_index_least (l : list V) x i :
    arr_first_index veqb l x = Some i ->
    0 <= i < len l /\
    (exists y, nth_error l (Z.to_nat i) = Some y /\ veqb x y = true) /\
    (forall j y, 0 <= j < i -> nth_error l (Z.to_nat j) = Some y -> veqb x y = false).
  Proof.
    intro H. apply first_index_from_least in H. destruct H as [R [[y [N Y]] M]].
    rewrite Z.sub_0_r in N. split; [lia|]. split; [eauto|].
    intros j y' J N'. apply (M j y' J). now rewrite Z.sub_0_r.
  Qed.

  Theorem first_index_none (l : list V) x :
    arr_first_index veqb l x = None -> forall y, In y l -> veqb x y = false.
  Proof.
    unfold arr_first_index. generalize 0.
    induction l as [|e r IH]; intros c H y I; cbn [first_index_from] in H; [contradiction|].
    destruct (veqb x e) eqn:E; try discriminate.
    destruct I as [<-|I]; eauto.
  Qed.

  Lemma nth_error_firstn_lt (l : list V) n k :
    (k < n)%nat -> nth_error (firstn n l) k = nth_error l k.
  Proof.
    revert n k; induction l as [|y r IH]; intros [|n] [|k] H; cbn; auto; try lia.
    apply IH. lia.
  Qed.

  Lemma nth_error_skipn_plus (l : list V) n k :
    nth_error (skipn n l) k = nth_error l (n + k).
  Proof.
    revert l; induction n; intros [|y r]; cbn; auto. now destruct k.
  Qed.

  Theorem set_then_get (l l' : list V) i x :
    arr_set l i x = COk l' ->
    arr_get l' i = COk x /\ (forall j, j <> i -> arr_get l' j = arr_get l j) /\ len l' = len l.
  Proof.
    rewrite arr_set_spec. unfold spec_set.
    destruct (fits_int i) eqn:F; cbn [negb]; try discriminate.
    destruct ((0 <=? i) && (i <? len l)) eqn:B; try discriminate.
    apply andb_prop in B. destruct B as [B1 B2].
    intro H. injection H as <-.
    assert (Hl : length (firstn (Z.to_nat i) l) = Z.to_nat i).
    { rewrite firstn_length. unfold len in *. lia. }
    assert (Hlen : len (firstn (Z.to_nat i) l ++ x :: skipn (Z.to_nat (i + 1)) l) = len l).
    { unfold len in *. rewrite app_length. cbn [length]. rewrite Hl, skipn_length. lia. }
    split; [|split; [|exact Hlen]].
    - rewrite arr_get_spec. unfold spec_get. rewrite F, Hlen. cbn [negb].
      rewrite B1, B2. cbn [andb].
      rewrite nth_error_app2 by lia. rewrite Hl, Nat.sub_diag. reflexivity.
    - intros j J. rewrite !arr_get_spec. unfold spec_get. rewrite Hlen.
      destruct (negb (fits_int j)); auto.
      destruct ((0 <=? j) && (j <? len l)) eqn:C; auto.
      apply andb_prop in C. destruct C as [C1 C2].
      assert (j < i \/ i < j) as [D|D] by lia.
      + rewrite nth_error_app1 by lia. rewrite nth_error_firstn_lt by lia. reflexivity.
      + rewrite nth_error_app2 by lia. rewrite Hl.
        replace (Z.to_nat j - Z.to_nat i)%nat with (S (Z.to_nat j - Z.to_nat (i + 1))) by lia.
        cbn [nth_error]. rewrite nth_error_skipn_plus.
        replace (Z.to_nat (i + 1) + (Z.to_nat j - Z.to_nat (i + 1)))%nat with (Z.to_nat j) by lia.
        reflexivity.
  Qed.

  Theorem insert_then_remove (l l' : list V) i x :
    arr_insert l i x = COk l' -> arr_remove l' i = COk (l, x).
  Proof.
    rewrite arr_insert_spec, arr_remove_spec. unfold spec_insert, spec_remove.
    destruct (fits_int i) eqn:F; cbn [negb]; try discriminate.
    destruct ((0 <=? i) && (i <=? len l)) eqn:B; try discriminate.
    apply andb_prop in B. destruct B as [B1 B2].
    intro H. injection H as <-.
    assert (Hl : length (firstn (Z.to_nat i) l) = Z.to_nat i).
    { rewrite firstn_length. unfold len in *. lia. }
    assert (Hlen : len (firstn (Z.to_nat i) l ++ x :: skipn (Z.to_nat i) l) = len l + 1).
    { unfold len in *. rewrite app_length. cbn [length]. rewrite Hl, skipn_length. lia. }
    rewrite Hlen. rewrite B1. replace (i <? len l + 1) with true by bsolve. cbn [andb].
    rewrite nth_error_app2 by lia. rewrite Hl, Nat.sub_diag. cbn [nth_error].
    f_equal. f_equal.
    rewrite firstn_app, Hl, Nat.sub_diag. cbn [firstn]. rewrite app_nil_r.
    rewrite firstn_firstn, Nat.min_id.
    rewrite skipn_app, Hl.
    replace (Z.to_nat (i + 1) - Z.to_nat i)%nat with 1%nat by lia. cbn [skipn].
    rewrite (skipn_all2 (firstn (Z.to_nat i) l)) by lia. cbn [app].
    apply firstn_skipn.
  Qed.

  Theorem append_then_remove_last (l : list V) x :
    arr_remove_last (arr_append l x) = COk (l, x).
  Proof.
    rewrite arr_remove_last_spec. unfold arr_append, at_append.
    rewrite rev_app_distr. cbn [rev app]. now rewrite rev_involutive.
  Qed.
End ArrayProofs.
