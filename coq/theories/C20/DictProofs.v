(* C20  Dictionaries: invariant (no duplicate keys) and the lookup-function specification of every
   operation, for every digest order [place]; keys/values alignment; forEachKey prefix law;
   history invariants.  The refinement to std++ finite maps is in DictRefine.v. *)
From Coq Require Import Permutation.
From CV Require Import C20.DictModel.

Section DictProofs.
  Context {K V : Type}.
  Variable keqb : K -> K -> bool.
  Hypothesis keqb_eq : forall a b, keqb a b = true <-> a = b.
  Variable place : K -> list (K * V) -> nat.

  Notation dict := (list (K * V)).

  Definition wf (d : dict) : Prop := NoDup (dict_keys d).

  Lemma keqb_refl a : keqb a a = true.
  Proof. now apply keqb_eq. Qed.

  Lemma keqb_neq a b : a <> b -> keqb a b = false.
  Proof. intro N. destruct (keqb a b) eqn:E; auto. apply keqb_eq in E. contradiction. Qed.

  Lemma keqb_false a b : keqb a b = false -> a <> b.
  Proof. intros E ->. rewrite keqb_refl in E. discriminate. Qed.

  Lemma dict_keys_map (d : dict) : dict_keys d = map fst d.
  Proof. induction d as [|[k v] r IH]; simpl; auto. now rewrite IH. Qed.

  Lemma dict_values_map (d : dict) : dict_values d = map snd d.
  Proof. induction d as [|[k v] r IH]; simpl; auto. now rewrite IH. Qed.

  (* ---------------------------------------------------------------- lookups *)
  Lemma m_get_none_iff (d : dict) k : m_get keqb d k = None <-> ~ In k (dict_keys d).
  Proof.
    induction d as [|[k' v] r IH]; simpl.
    - split; auto.
    - destruct (keqb k k') eqn:E.
      + apply keqb_eq in E. subst. split; [discriminate | intro N; exfalso; apply N; auto].
      + apply keqb_false in E. rewrite IH. split.
        * intros N [A|A]; [congruence | contradiction].
        * intros N A. apply N. auto.
  Qed.

  Lemma m_has_get (d : dict) k : m_has keqb d k = match m_get keqb d k with Some _ => true | None => false end.
  Proof. induction d as [|[k' v] r IH]; simpl; auto. destruct (keqb k k'); auto. Qed.

  Lemma m_get_in (d : dict) k v : wf d -> (m_get keqb d k = Some v <-> In (k, v) d).
  Proof.
    unfold wf. induction d as [|[k' v'] r IH]; simpl; intro W.
    - split; [discriminate | contradiction].
    - inversion W as [|? ? N W']; subst. destruct (keqb k k') eqn:E.
      + apply keqb_eq in E. subst. split.
        * intro H. injection H as <-. auto.
        * intros [H|H]; [now injection H as <- |].
          exfalso. apply N. rewrite dict_keys_map. change k' with (fst (k', v)). now apply in_map.
      + apply keqb_false in E. rewrite (IH W'). split; auto.
        intros [H|H]; auto. injection H as -> ->. contradiction.
  Qed.

  (* ---------------------------------------------------------------- insert_at *)
  Lemma insert_at_perm n (e : K * V) (d : dict) : Permutation (insert_at n e d) (e :: d).
  Proof.
    revert d; induction n; intros [|x r]; simpl; auto;
      try (rewrite IHn; apply perm_swap).
  Qed.

  Lemma keys_perm (a b : dict) : Permutation a b -> Permutation (dict_keys a) (dict_keys b).
  Proof. rewrite !dict_keys_map. apply Permutation_map. Qed.

  Lemma m_get_insert_at n (d : dict) k v k' :
    ~ In k (dict_keys d) ->
    m_get keqb (insert_at n (k, v) d) k' = if keqb k' k then Some v else m_get keqb d k'.
  Proof.
    revert d; induction n; intros [|[k0 v0] r] N; simpl in *.
    - reflexivity.
    - reflexivity.
    - reflexivity.
    - rewrite IHn by tauto. destruct (keqb k' k0) eqn:E; auto.
      apply keqb_eq in E. subst. rewrite keqb_neq; [reflexivity|]. intro; subst; tauto.
  Qed.

  (* ---------------------------------------------------------------- m_update *)
  Lemma m_update_keys (d : dict) k v : dict_keys (m_update keqb d k v) = dict_keys d.
  Proof.
    induction d as [|[k' v'] r IH]; simpl; auto. destruct (keqb k k'); simpl; auto. now rewrite IH.
  Qed.

  Lemma m_update_length (d : dict) k v : length (m_update keqb d k v) = length d.
  Proof.
    induction d as [|[k' v'] r IH]; simpl; auto. destruct (keqb k k'); simpl; auto.
  Qed.

  Lemma m_get_update (d : dict) k v k' :
    m_get keqb d k <> None ->
    m_get keqb (m_update keqb d k v) k' = if keqb k' k then Some v else m_get keqb d k'.
  Proof.
    induction d as [|[k0 v0] r IH]; simpl; intro H.
    - contradiction.
    - destruct (keqb k k0) eqn:E; simpl.
      + apply keqb_eq in E. subst. destruct (keqb k' k0); reflexivity.
      + destruct (keqb k' k0) eqn:E'.
        * apply keqb_eq in E'. subst. rewrite keqb_neq; auto.
          apply keqb_false in E. congruence.
        * apply IH. exact H.
  Qed.

  (* ---------------------------------------------------------------- m_remove *)
  Lemma m_remove_none (d : dict) k : m_get keqb d k = None -> m_remove keqb d k = None.
  Proof.
    induction d as [|[k' v'] r IH]; simpl; auto.
    destruct (keqb k k'); [discriminate|]. intro H. now rewrite IH.
  Qed.

  Lemma m_remove_some (d : dict) k v :
    wf d -> m_get keqb d k = Some v ->
    exists d', m_remove keqb d k = Some (d', (k, v)) /\
               Permutation d ((k, v) :: d') /\
               (forall k', m_get keqb d' k' = if keqb k' k then None else m_get keqb d k').
  Proof.
    unfold wf. induction d as [|[k0 v0] r IH]; simpl; intros W H; [discriminate|].
    inversion W as [|? ? N W']; subst.
    destruct (keqb k k0) eqn:E.
    - apply keqb_eq in E. subst. injection H as <-. exists r. split; auto. split; auto.
      intro k'. destruct (keqb k' k0) eqn:E'; auto.
      apply keqb_eq in E'. subst. now apply m_get_none_iff.
    - destruct (IH W' H) as [d' [R [P L]]]. rewrite R.
      exists ((k0, v0) :: d'). split; auto. split.
      + rewrite P. apply perm_swap.
      + intro k'. simpl. rewrite L. destruct (keqb k' k0) eqn:E'; auto.
        apply keqb_eq in E'. subst. apply keqb_false in E. rewrite keqb_neq; auto.
  Qed.

  (* ---------------------------------------------------------------- the operations *)
  (* insert: returns the previous value; afterwards k maps to v, other keys unchanged;
     invariant kept; length grows by one exactly when the key was new *)
  Theorem insert_spec (d : dict) k v :
    wf d ->
    let '(d', old) := dict_insert keqb place d k v in
    wf d' /\ old = m_get keqb d k /\
    (forall k', m_get keqb d' k' = if keqb k' k then Some v else m_get keqb d k') /\
    dict_length d' = dict_length d + (if old then 0 else 1).
  Proof.
    intro W. unfold dict_insert, m_set. destruct (m_get keqb d k) eqn:G.
    - split; [|split; [|split]]; auto.
      + unfold wf. now rewrite m_update_keys.
      + intro k'. apply m_get_update. congruence.
      + unfold dict_length, m_count. rewrite m_update_length. lia.
    - assert (N : ~ In k (dict_keys d)) by now apply m_get_none_iff.
      split; [|split; [|split]]; auto.
      + unfold wf. eapply Permutation_NoDup.
        * symmetry. apply keys_perm. apply insert_at_perm.
        * simpl. constructor; auto.
      + intro k'. now apply m_get_insert_at.
      + unfold dict_length, m_count.
        rewrite (Permutation_length (insert_at_perm (place k d) (k, v) d)). simpl length. lia.
  Qed.

  Theorem remove_spec (d : dict) k :
    wf d ->
    let '(d', old) := dict_remove keqb d k in
    wf d' /\ old = m_get keqb d k /\
    (forall k', m_get keqb d' k' = if keqb k' k then None else m_get keqb d k') /\
    dict_length d' = dict_length d - (if old then 1 else 0).
  Proof.
    intro W. unfold dict_remove. destruct (m_get keqb d k) eqn:G.
    - destruct (m_remove_some d k v W G) as [d' [R [P L]]]. rewrite R.
      split; [|split; [|split]]; auto.
      + unfold wf in *. pose proof (keys_perm _ _ P) as P'. simpl in P'.
        pose proof (Permutation_NoDup P' W) as W2. now inversion W2.
      + unfold dict_length, m_count. rewrite (Permutation_length P). simpl length. lia.
    - rewrite (m_remove_none d k G). split; [|split; [|split]]; auto; [|lia].
      intro k'. destruct (keqb k' k) eqn:E; auto. apply keqb_eq in E. now subst.
  Qed.

  Theorem set_key_spec (d : dict) k (value : option V) :
    wf d ->
    let d' := dict_set_key keqb place d k value in
    wf d' /\ (forall k', m_get keqb d' k' = if keqb k' k then value else m_get keqb d k').
  Proof.
    intro W. destruct value as [v|]; simpl.
    - pose proof (insert_spec d k v W) as S. destruct (dict_insert keqb place d k v). simpl. tauto.
    - pose proof (remove_spec d k W) as S. destruct (dict_remove keqb d k). simpl. tauto.
  Qed.

  Theorem contains_key_spec (d : dict) k :
    dict_contains_key keqb d k = true <-> In k (dict_keys d).
  Proof.
    unfold dict_contains_key. rewrite m_has_get.
    pose proof (m_get_none_iff d k) as N. destruct (m_get keqb d k).
    - split; auto. intros _. destruct (in_dec (fun a b => 
        match keqb a b as x return keqb a b = x -> {a = b} + {a <> b} with
        | true => fun E => left (proj1 (keqb_eq a b) E)
        | false => fun E => right (keqb_false a b E)
        end eq_refl) k (dict_keys d)); auto.
      exfalso. apply N in n. discriminate.
    - split; [discriminate|]. intro I. exfalso. now apply N.
  Qed.

  Theorem contains_key_get (d : dict) k :
    dict_contains_key keqb d k = true <-> dict_get_key keqb d k <> None.
  Proof.
    unfold dict_contains_key, dict_get_key. rewrite m_has_get.
    destruct (m_get keqb d k); split; try discriminate; auto; congruence.
  Qed.

  (* keys and values are aligned: pairing them position by position gives back the entries, so
     values[i] is the value stored under keys[i] *)
  Theorem keys_values_aligned (d : dict) :
    combine (dict_keys d) (dict_values d) = d /\
    length (dict_keys d) = length d /\ length (dict_values d) = length d /\
    dict_length d = Z.of_nat (length (dict_keys d)).
  Proof.
    induction d as [|[k v] r [A [B [C D]]]]; simpl; auto.
    unfold dict_length, m_count in *. simpl length. rewrite A, B, C. auto.
  Qed.

  Theorem keys_values_lookup (d : dict) i k v :
    wf d -> nth_error (dict_keys d) i = Some k -> nth_error (dict_values d) i = Some v ->
    dict_get_key keqb d k = Some v.
  Proof.
    intros W A B. apply (m_get_in d k v W).
    destruct (keys_values_aligned d) as [C _]. rewrite <- C.
    revert i A B. generalize (dict_keys d) (dict_values d).
    induction l as [|x xs IH]; intros [|y ys] [|i] A B; simpl in *; try discriminate.
    - injection A as <-. injection B as <-. auto.
    - right. eapply IH; eauto.
  Qed.

  (* forEachKey visits a prefix of [keys]: every visited key but the last answered "continue",
     and the visit stops early only at a key that answered "stop" *)
  Theorem for_each_key_prefix (d : dict) cont :
    exists rest,
      dict_keys d = dict_for_each_key d cont ++ rest /\
      Forall (fun k => cont k = true) (removelast (dict_for_each_key d cont)) /\
      (rest <> [] -> exists k, last (dict_for_each_key d cont) k = k /\ cont k = false /\
                               dict_for_each_key d cont <> []).
  Proof.
    induction d as [|[k v] r [rest [A [B C]]]]; simpl.
    - exists []. split; auto. split; auto. intro H. contradiction.
    - destruct (cont k) eqn:E.
      + exists rest. split; [now rewrite A|]. split.
        * destruct (dict_for_each_key r cont) eqn:F; simpl; auto.
        * intro H. destruct (C H) as [k0 [L [M Nn]]].
          destruct (dict_for_each_key r cont) eqn:F; [contradiction|].
          exists k0. split; [|split]; auto. discriminate.
      + exists (dict_keys r). split; auto. split; simpl; auto.
        intros _. exists k. split; [|split]; auto. discriminate.
  Qed.

  Theorem for_each_key_all (d : dict) cont :
    (forall k, In k (dict_keys d) -> cont k = true) -> dict_for_each_key d cont = dict_keys d.
  Proof.
    induction d as [|[k v] r IH]; simpl; auto. intro H.
    rewrite (H k) by auto. f_equal. apply IH. auto.
  Qed.

  (* ---------------------------------------------------------------- histories *)
  Theorem dstep_wf (d : dict) o : wf d -> wf (fst (dstep keqb place d o)).
  Proof.
    intro W. destruct o; simpl; auto.
    - pose proof (insert_spec d k v W) as S. destruct (dict_insert keqb place d k v). simpl. tauto.
    - pose proof (remove_spec d k W) as S. destruct (dict_remove keqb d k). simpl. tauto.
    - pose proof (insert_spec d k v W) as S. destruct (dict_insert keqb place d k v). simpl. tauto.
    - pose proof (remove_spec d k W) as S. destruct (dict_remove keqb d k). simpl. tauto.
  Qed.

  Lemma drun_ops_wf ops (d : dict) : wf d -> wf (snd (drun_ops keqb place d ops)).
  Proof.
    revert d; induction ops as [|o r IH]; intros d W; simpl; auto.
    pose proof (dstep_wf d o W) as W1. destruct (dstep keqb place d o) as [d' out]. simpl in W1.
    specialize (IH d' W1). destruct (drun_ops keqb place d' r). exact IH.
  Qed.

  Lemma dexec_tx_wf (s : dict) t : wf s -> wf (snd (dexec_tx keqb place s t)).
  Proof.
    intro W. unfold dexec_tx. pose proof (drun_ops_wf (dops t) s W) as W1.
    destruct (drun_ops keqb place s (dops t)). simpl in *.
    destruct (dpersists (dmode_of t) && negb (dabort t)); auto.
  Qed.

  (* the invariant holds in every reachable state of every history *)
  Theorem history_wf (h : list dtx) (s : dict) : wf s -> wf (snd (drun_history keqb place s h)).
  Proof.
    revert s; induction h as [|t r IH]; intros s W; simpl; auto.
    pose proof (dexec_tx_wf s t W) as W1. destruct (dexec_tx keqb place s t) as [x s']. simpl in W1.
    specialize (IH s' W1). destruct (drun_history keqb place s' r). exact IH.
  Qed.

  Theorem aborted_tx_no_effect (s : dict) t :
    dpersists (dmode_of t) = false \/ dabort t = true -> snd (dexec_tx keqb place s t) = s.
  Proof.
    intro H. unfold dexec_tx. destruct (drun_ops keqb place s (dops t)). simpl.
    destruct H as [-> | ->]; auto. now rewrite andb_false_r.
  Qed.
End DictProofs.
