(* C20  Arrays: executable model of Cadence arrays, shaped after interpreter/value_array.go.

   Layer 0 ([at_*]) is the part of atree.Array the Cadence code relies on (modelled, not verified:
   atree is outside /repo): a sequence with Get/Set/Insert/Remove/Append, iterators, and the upper
   bound checks that report atree.IndexOutOfBoundsError / SliceOutOfBoundsError /
   InvalidSliceIndexError.
   Layer 1 ([arr_*]) transcribes the Go methods of *ArrayValue on top of it: the same lower-bound
   checks before the int -> uint64 conversion, the same error conversion, the same loops
   (Reverse = Get from count-1 downwards, Concat = two iterators, FirstIndex = iteration with a
   counter, AppendAll = Walk + Append, RemoveLast = Remove(count-1), ...).
   No proofs in this file. *)
From CV Require Export Base.Prelude.

(* error classes observable from Cadence *)
Inductive cerr : Type :=
| EIndex         (* interpreter.ArrayIndexOutOfBoundsError *)
| ESliceBounds   (* interpreter.ArraySliceIndicesError *)
| ESliceOrder    (* interpreter.InvalidSliceIndexError (from > upTo) *)
| EIntOverflow.  (* interpreter.OverflowError raised by NumberValue.ToInt on an index outside Go int *)

Definition cerr_eqb (a b : cerr) : bool :=
  match a, b with
  | EIndex, EIndex | ESliceBounds, ESliceBounds | ESliceOrder, ESliceOrder
  | EIntOverflow, EIntOverflow => true
  | _, _ => false
  end.

Inductive cres (A : Type) : Type :=
| COk (a : A)
| CErr (e : cerr).
Arguments COk {A} a.
Arguments CErr {A} e.

Definition cbind {A B} (x : cres A) (f : A -> cres B) : cres B :=
  match x with COk a => f a | CErr e => CErr e end.
Notation "'do*' x ':=' a 'in' b" := (cbind a (fun x => b))
  (at level 200, x pattern, a at level 100, b at level 200).

(* Go int is 64 bits on the supported platforms *)
Definition int_min : Z := - 2 ^ 63.
Definition int_max : Z := 2 ^ 63 - 1.

(* NumberValue.ToInt for an arbitrary-precision Int index *)
Definition to_int (z : Z) : cres Z :=
  if (int_min <=? z) && (z <=? int_max) then COk z else CErr EIntOverflow.

Section Array.
  Context {V : Type}.
  Variable veqb : V -> V -> bool.      (* EquatableValue.Equal on elements *)

  (* ------------------------------------------------------------------ layer 0: atree.Array *)
  Definition a_count (l : list V) : Z := Z.of_nat (length l).

  Fixpoint set_nth (n : nat) (x : V) (l : list V) : list V :=
    match l, n with
    | [], _ => []
    | _ :: r, O => x :: r
    | y :: r, S m => y :: set_nth m x r
    end.

  Fixpoint insert_nth (n : nat) (x : V) (l : list V) : list V :=
    match n, l with
    | O, _ => x :: l
    | S m, y :: r => y :: insert_nth m x r
    | S _, [] => [x]
    end.

  Fixpoint remove_nth (n : nat) (l : list V) : list V :=
    match l, n with
    | [], _ => []
    | _ :: r, O => r
    | y :: r, S m => y :: remove_nth m r
    end.

  (* index : uint64, i.e. 0 <= i; None = atree.IndexOutOfBoundsError *)
  Definition at_get (l : list V) (i : Z) : option V :=
    if i <? a_count l then nth_error l (Z.to_nat i) else None.

  Definition at_set (l : list V) (i : Z) (x : V) : option (list V * V) :=
    if i <? a_count l then
      match nth_error l (Z.to_nat i) with
      | Some old => Some (set_nth (Z.to_nat i) x l, old)
      | None => None
      end
    else None.

  Definition at_insert (l : list V) (i : Z) (x : V) : option (list V) :=
    if i <=? a_count l then Some (insert_nth (Z.to_nat i) x l) else None.

  Definition at_remove (l : list V) (i : Z) : option (list V * V) :=
    if i <? a_count l then
      match nth_error l (Z.to_nat i) with
      | Some old => Some (remove_nth (Z.to_nat i) l, old)
      | None => None
      end
    else None.

  Definition at_append (l : list V) (x : V) : list V := l ++ [x].

  (* Array.RangeIterator(start, end): the elements the iterator will yield, or the atree error *)
  Fixpoint drop (n : nat) (l : list V) : list V :=
    match n, l with
    | O, _ => l
    | S m, [] => []
    | S m, _ :: r => drop m r
    end.
  Fixpoint take (n : nat) (l : list V) : list V :=
    match n, l with
    | O, _ => []
    | S m, [] => []
    | S m, x :: r => x :: take m r
    end.

  Definition at_range (l : list V) (s e : Z) : cres (list V) :=
    if (a_count l <? s) || (a_count l <? e) then CErr ESliceBounds      (* SliceOutOfBoundsError *)
    else if e <? s then CErr ESliceOrder                                  (* InvalidSliceIndexError *)
    else COk (take (Z.to_nat (e - s)) (drop (Z.to_nat s) l)).

  (* ------------------------------------------------------------------ layer 1: *ArrayValue *)

  (* Get / GetKey: index < 0 checked here, upper bound by atree *)
  Definition arr_get_int (l : list V) (index : Z) : cres V :=
    if index <? 0 then CErr EIndex
    else match at_get l index with Some v => COk v | None => CErr EIndex end.

  Definition arr_get (l : list V) (key : Z) : cres V :=
    do* index := to_int key in arr_get_int l index.

  (* Set / SetKey *)
  Definition arr_set (l : list V) (key : Z) (x : V) : cres (list V) :=
    do* index := to_int key in
    if index <? 0 then CErr EIndex
    else match at_set l index x with Some (l', _) => COk l' | None => CErr EIndex end.

  (* Append *)
  Definition arr_append (l : list V) (x : V) : list V := at_append l x.

  (* AppendAll: other.Walk(func(value) { v.Append(value) }) *)
  Fixpoint arr_append_all (l : list V) (other : list V) : list V :=
    match other with
    | [] => l
    | x :: r => arr_append_all (arr_append l x) r
    end.

  (* Insert -> InsertWithoutTransfer *)
  Definition arr_insert_int (l : list V) (index : Z) (x : V) : cres (list V) :=
    if index <? 0 then CErr EIndex
    else match at_insert l index x with Some l' => COk l' | None => CErr EIndex end.

  Definition arr_insert (l : list V) (key : Z) (x : V) : cres (list V) :=
    do* index := to_int key in arr_insert_int l index x.

  (* Remove -> RemoveWithoutTransfer *)
  Definition arr_remove_int (l : list V) (index : Z) : cres (list V * V) :=
    if index <? 0 then CErr EIndex
    else match at_remove l index with Some r => COk r | None => CErr EIndex end.

  Definition arr_remove (l : list V) (key : Z) : cres (list V * V) :=
    do* index := to_int key in arr_remove_int l index.

  Definition arr_remove_first (l : list V) : cres (list V * V) := arr_remove_int l 0.
  Definition arr_remove_last (l : list V) : cres (list V * V) := arr_remove_int l (a_count l - 1).

  (* FirstIndex: Iterate with a counter, stop at the first Equal element *)
  Fixpoint first_index_from (l : list V) (needle : V) (counter : Z) : option Z :=
    match l with
    | [] => None
    | e :: r => if veqb needle e then Some counter else first_index_from r needle (counter + 1)
    end.
  Definition arr_first_index (l : list V) (needle : V) : option Z := first_index_from l needle 0.

  (* Contains: Iterate, stop at the first Equal element *)
  Fixpoint arr_contains (l : list V) (needle : V) : bool :=
    match l with
    | [] => false
    | e :: r => if veqb needle e then true else arr_contains r needle
    end.

  (* Concat: NewArrayValueWithIterator over firstIterator then secondIterator *)
  Fixpoint arr_concat (first second : list V) : list V :=
    match first with
    | x :: r => x :: arr_concat r second
    | [] => second
    end.

  (* Slice *)
  Definition arr_slice (l : list V) (from to : Z) : cres (list V) :=
    do* fromIndex := to_int from in
    do* toIndex := to_int to in
    if (fromIndex <? 0) || (toIndex <? 0) then CErr ESliceBounds
    else at_range l fromIndex toIndex.

  (* Reverse: index := count-1; iterator: if index < 0 {nil} else {Get(index); index--}.
     [fuel] bounds the number of calls NewArrayFromBatchData makes; None = fuel exhausted. *)
  Fixpoint reverse_iter (fuel : nat) (l : list V) (index : Z) : option (cres (list V)) :=
    match fuel with
    | O => None
    | S f =>
        if index <? 0 then Some (COk [])
        else match arr_get_int l index with
             | CErr e => Some (CErr e)
             | COk v =>
                 match reverse_iter f l (index - 1) with
                 | Some (COk r) => Some (COk (v :: r))
                 | other => other
                 end
             end
    end.
  Definition arr_reverse (l : list V) : option (cres (list V)) :=
    reverse_iter (S (length l)) l (a_count l - 1).

  (* Filter / Map: iterator.Next + procedure *)
  Fixpoint arr_filter (p : V -> bool) (l : list V) : list V :=
    match l with
    | [] => []
    | x :: r => if p x then x :: arr_filter p r else arr_filter p r
    end.
  Fixpoint arr_map (f : V -> V) (l : list V) : list V :=
    match l with
    | [] => []
    | x :: r => f x :: arr_map f r
    end.

  (* ToConstantSized<[T; n]>: nil unless count = n;  ToVariableSized: copy *)
  Definition arr_to_constant (l : list V) (n : Z) : option (list V) :=
    if a_count l =? n then Some (arr_concat l []) else None.
  Definition arr_to_variable (l : list V) : list V := arr_concat l [].

  (* ------------------------------------------------------------------ operations and histories *)
  Inductive pureop : Type :=      (* operations that build a new array from the receiver *)
  | PSlice (from to : Z)
  | PReverse
  | PConcat (other : list V)
  | PFilter (p : V -> bool)
  | PMap (f : V -> V).

  Inductive aop : Type :=
  | OpAppend (x : V)
  | OpAppendAll (other : list V)
  | OpInsert (i : Z) (x : V)
  | OpRemove (i : Z)
  | OpRemoveFirst
  | OpRemoveLast
  | OpGet (i : Z)
  | OpSet (i : Z) (x : V)
  | OpContains (x : V)
  | OpFirstIndex (x : V)
  | OpLength
  | OpPure (p : pureop)            (* log(a.slice(..)) etc.: result observed, receiver unchanged *)
  | OpAssign (p : pureop)          (* a = a.slice(..) etc.: result replaces the receiver *)
  | OpToConstant (n : Z)
  | OpToVariable
  | OpRead.                        (* full contents *)

  Inductive aout : Type :=
  | RUnit
  | RVal (v : V)
  | ROptZ (o : option Z)
  | RBool (b : bool)
  | RZ (z : Z)
  | RList (l : list V)
  | ROptList (o : option (list V)).

  (* outcome of one operation: Go-level unreachable situations are kept apart from user errors *)
  Inductive stepres : Type :=
  | SOk (l : list V) (o : aout)
  | SErr (e : cerr)
  | SStuck.                        (* fuel exhausted in reverse_iter: proved unreachable *)

  Definition run_pure (l : list V) (p : pureop) : option (cres (list V)) :=
    match p with
    | PSlice a b => Some (arr_slice l a b)
    | PReverse => arr_reverse l
    | PConcat other => Some (COk (arr_concat l other))
    | PFilter f => Some (COk (arr_filter f l))
    | PMap f => Some (COk (arr_map f l))
    end.

  Definition astep (l : list V) (o : aop) : stepres :=
    match o with
    | OpAppend x => SOk (arr_append l x) RUnit
    | OpAppendAll other => SOk (arr_append_all l other) RUnit
    | OpInsert i x => match arr_insert l i x with COk l' => SOk l' RUnit | CErr e => SErr e end
    | OpRemove i => match arr_remove l i with COk (l', v) => SOk l' (RVal v) | CErr e => SErr e end
    | OpRemoveFirst => match arr_remove_first l with COk (l', v) => SOk l' (RVal v) | CErr e => SErr e end
    | OpRemoveLast => match arr_remove_last l with COk (l', v) => SOk l' (RVal v) | CErr e => SErr e end
    | OpGet i => match arr_get l i with COk v => SOk l (RVal v) | CErr e => SErr e end
    | OpSet i x => match arr_set l i x with COk l' => SOk l' RUnit | CErr e => SErr e end
    | OpContains x => SOk l (RBool (arr_contains l x))
    | OpFirstIndex x => SOk l (ROptZ (arr_first_index l x))
    | OpLength => SOk l (RZ (a_count l))
    | OpPure p => match run_pure l p with
                  | Some (COk r) => SOk l (RList r) | Some (CErr e) => SErr e | None => SStuck end
    | OpAssign p => match run_pure l p with
                    | Some (COk r) => SOk r RUnit | Some (CErr e) => SErr e | None => SStuck end
    | OpToConstant n => SOk l (ROptList (arr_to_constant l n))
    | OpToVariable => SOk l (RList (arr_to_variable l))
    | OpRead => SOk l (RList (arr_concat l []))
    end.

  (* Static typing of the receiver: constant-sized arrays [T; n] have no size-changing members
     (sema: ArrayType members; bbq/vm/value_array.go registers them for variable-sized only),
     and assigning a variable-sized result back to a [T; n] variable is a type error. *)
  Definition pure_allowed (fixed : bool) (p : pureop) : bool :=
    match p with
    | PSlice _ _ | PConcat _ => negb fixed
    | PReverse | PFilter _ | PMap _ => true
    end.
  Definition assign_allowed (fixed : bool) (p : pureop) : bool :=
    match p with
    | PSlice _ _ | PConcat _ | PFilter _ => negb fixed
    | PReverse | PMap _ => true
    end.
  Definition op_allowed (fixed : bool) (o : aop) : bool :=
    match o with
    | OpAppend _ | OpAppendAll _ | OpInsert _ _ | OpRemove _ | OpRemoveFirst | OpRemoveLast => negb fixed
    | OpToConstant _ => negb fixed
    | OpToVariable => fixed
    | OpPure p => pure_allowed fixed p
    | OpAssign p => assign_allowed fixed p
    | _ => true
    end.

  (* How a transaction/script reaches the stored array *)
  Inductive mode : Type :=
  | MRef        (* borrow auth(Mutate) &[T] from storage, operate in place *)
  | MLoadSave   (* load the value out of storage, operate in memory, save it back *)
  | MCopy       (* storage.copy, operate on the copy, discard *)
  | MScript.    (* script: operate in place through a reference; scripts never commit *)

  Definition persists (m : mode) : bool :=
    match m with MRef | MLoadSave => true | MCopy | MScript => false end.

  Record tx : Type := { tmode : mode; tops : list aop }.

  (* sequential execution of the operations of one program until the first failure *)
  Inductive txend : Type := TDone | TFail (e : cerr) | TStuck.

  (* [step] is [astep] for the model; the specification instantiates it with its own step *)
  Section History.
  Variable step : list V -> aop -> stepres.

  Fixpoint run_ops (l : list V) (ops : list aop) : list aout * txend * list V :=
    match ops with
    | [] => ([], TDone, l)
    | o :: r =>
        match step l o with
        | SOk l' out => let '(outs, e, lf) := run_ops l' r in (out :: outs, e, lf)
        | SErr e => ([], TFail e, l)
        | SStuck => ([], TStuck, l)
        end
    end.

  Inductive txres : Type :=
  | XRejected                                  (* checker error: nothing runs *)
  | XRan (outs : list aout) (e : txend).

  (* one program against the committed state [s]: result and next committed state.
     A failed program is rolled back; commit followed by reload in the next program is the
     identity on contents, so the next program starts from exactly the committed list. *)
  Definition exec_tx (fixed : bool) (s : list V) (t : tx) : txres * list V :=
    if forallb (op_allowed fixed) (tops t) then
      let '(outs, e, s') := run_ops s (tops t) in
      (XRan outs e,
       match e with
       | TDone => if persists (tmode t) then s' else s
       | _ => s
       end)
    else (XRejected, s).

  Fixpoint run_history (fixed : bool) (s : list V) (h : list tx) : list txres * list V :=
    match h with
    | [] => ([], s)
    | t :: r =>
        let '(x, s') := exec_tx fixed s t in
        let '(xs, sf) := run_history fixed s' r in
        (x :: xs, sf)
    end.
  End History.

  Definition model_history := run_history astep.
End Array.
