(* C38 — the Pratt expression parser of parser/expression.go on the token language of Syntax.v:
   null denotations, the lft-denotation loop with binding powers, literal folding of prefix minus,
   argument lists with labels.  Model definitions only.
   Not modelled: the `<` type-argument look-ahead (every `<` is the comparison), newline sensitivity,
   error recovery (any syntax error is None), the expression depth limit. *)
From CV Require Import Base.Prelude C38.Syntax.

(* exprLeftBindingPower* constants: exprBindingPowerGap * (iota + 2) *)
Definition bpTernary := 20.
Definition bpLogicalOr := 30.
Definition bpLogicalAnd := 40.
Definition bpComparison := 50.
Definition bpNilCoalescing := 60.
Definition bpBitwiseOr := 70.
Definition bpBitwiseXor := 80.
Definition bpBitwiseAnd := 90.
Definition bpBitwiseShift := 100.
Definition bpAddition := 110.
Definition bpMultiplication := 120.
Definition bpMove := 130.
Definition bpCasting := 140.
Definition bpUnaryPrefix := 150.
Definition bpUnaryPostfix := 160.
Definition bpAccess := 170.

Definition bpower (o : binop) : Z :=
  match o with
  | OOr => bpLogicalOr
  | OAnd => bpLogicalAnd
  | OEq | ONe | OLt | OLe | OGt | OGe => bpComparison
  | ONilC => bpNilCoalescing
  | OBitOr => bpBitwiseOr
  | OBitXor => bpBitwiseXor
  | OBitAnd => bpBitwiseAnd
  | OShl | OShr => bpBitwiseShift
  | OAdd | OSub => bpAddition
  | OMul | ODiv | OMod => bpMultiplication
  end.

(* rightAssociative: only `??` *)
Definition right_assoc (o : binop) : bool := match o with ONilC => true | _ => false end.

(* the null denotation of prefix `-`: a positive integer literal is negated in place *)
Definition fold_minus (x : expr) : expr :=
  match x with
  | EInt z => if 0 <? z then EInt (- z) else EUn UMinus x
  | _ => EUn UMinus x
  end.

Definition bindo {A B} (x : option A) (f : A -> option B) : option B :=
  match x with Some a => f a | None => None end.
Notation "'let?' x ':=' a 'in' b" := (bindo a (fun x => b))
  (at level 200, x pattern, a at level 100, b at level 200).

Fixpoint parse_expr (fuel : nat) (rbp : Z) (ts : list tok) {struct fuel} : option (expr * list tok) :=
  match fuel with
  | O => None
  | S f =>
    let? (lft, r) :=
      (match ts with
       | TId n :: r => Some (EId n, r)
       | TInt z :: r => Some (EInt z, r)
       | TTrue :: r => Some (EBool true, r)
       | TFalse :: r => Some (EBool false, r)
       | TNil :: r => Some (ENil, r)
       | TStr s :: r => Some (EStr s, r)
       | TBin OSub :: r => let? (x, r') := parse_expr f bpUnaryPrefix r in Some (fold_minus x, r')
       | TBang :: r => let? (x, r') := parse_expr f bpUnaryPrefix r in Some (EUn UNot x, r')
       | TMove :: r => let? (x, r') := parse_expr f bpMove r in Some (EUn UMove x, r')
       | TBin OMul :: r => let? (x, r') := parse_expr f bpUnaryPrefix r in Some (EUn UDeref x, r')
       | TLParen :: r =>
         let? (x, r') := parse_expr f 0 r in
         match r' with TRParen :: r'' => Some (x, r'') | _ => None end
       | _ => None
       end) in
    led_loop f rbp lft r
  end

with led_loop (fuel : nat) (rbp : Z) (lft : expr) (ts : list tok) {struct fuel} : option (expr * list tok) :=
  match fuel with
  | O => None
  | S f =>
    match ts with
    | TBin o :: r =>
      if bpower o <=? rbp then Some (lft, ts)
      else
        let? (x, r') := parse_expr f (if right_assoc o then bpower o - 1 else bpower o) r in
        led_loop f rbp (EBin o lft x) r'
    | TQuestion :: r =>
      if bpTernary <=? rbp then Some (lft, ts)
      else
        let? (t, r1) := parse_expr f 0 r in
        match r1 with
        | TColon :: r2 =>
          let? (x, r3) := parse_expr f 0 r2 in
          led_loop f rbp (ECond lft t x) r3
        | _ => None
        end
    | TCast k :: r =>
      if bpCasting <=? rbp then Some (lft, ts)
      else match r with
           | TType t :: r' => led_loop f rbp (ECast k lft t) r'
           | _ => None
           end
    | TBang :: r =>
      if bpUnaryPostfix <=? rbp then Some (lft, ts) else led_loop f rbp (EForce lft) r
    | TDot :: r =>
      if bpAccess <=? rbp then Some (lft, ts)
      else match r with TId n :: r' => led_loop f rbp (EMember false lft n) r' | _ => None end
    | TQDot :: r =>
      if bpAccess <=? rbp then Some (lft, ts)
      else match r with TId n :: r' => led_loop f rbp (EMember true lft n) r' | _ => None end
    | TLBrack :: r =>
      if bpAccess <=? rbp then Some (lft, ts)
      else
        let? (i, r1) := parse_expr f 0 r in
        match r1 with TRBrack :: r2 => led_loop f rbp (EIndex lft i) r2 | _ => None end
    | TLParen :: r =>
      if bpAccess <=? rbp then Some (lft, ts)
      else
        let? (args, r1) := parse_args f true r in
        led_loop f rbp (EInvoke lft args) r1
    | _ => Some (lft, ts)       (* lft binding power 0: not a continuation *)
    end
  end

with parse_args (fuel : nat) (expectArgument : bool) (ts : list tok) {struct fuel}
  : option (list (option Z * expr) * list tok) :=
  match fuel with
  | O => None
  | S f =>
    match ts with
    | [] => None
    | TComma :: r => if expectArgument then None else parse_args f true r
    | TRParen :: r => Some ([], r)
    | _ =>
      if negb expectArgument then None
      else
        let? (x, r1) := parse_expr f 0 ts in
        match r1 with
        | TColon :: r2 =>
          match x with
          | EId n =>
            let? (v, r3) := parse_expr f 0 r2 in
            let? (rest, r4) := parse_args f false r3 in
            Some ((Some n, v) :: rest, r4)
          | _ => None
          end
        | _ =>
          let? (rest, r4) := parse_args f false r1 in
          Some ((None, x) :: rest, r4)
        end
    end
  end.

(* parse a complete expression: all tokens must be consumed *)
Definition parse (ts : list tok) : option expr :=
  match parse_expr (2 * length ts + 2) 0 ts with
  | Some (e, []) => Some e
  | _ => None
  end.
