(* C38 — string literal escaping (ast.QuoteStringInner) and unescaping (parser.parseStringLiteralContent),
   on lists of code points: a string VALUE is a list of Unicode scalar values; the literal TEXT between the
   quotes is a list of characters (code points).  UTF-8 encoding/decoding of the text is not modelled here
   (C37/Utf8.v models DecodeRune).  Model definitions only. *)
From CV Require Import Base.Prelude.

Definition hex_digit (d : Z) : Z := if d <? 10 then 48 + d else 87 + d.   (* '0'.. / 'a'.. (lower case) *)

(* strconv.FormatInt(r, 16) for r >= 0: minimal number of digits, most significant first *)
Fixpoint hex_of (fuel : nat) (r : Z) (acc : list Z) : list Z :=
  match fuel with
  | O => acc
  | S f => if r <? 16 then hex_digit r :: acc else hex_of f (r / 16) (hex_digit (r mod 16) :: acc)
  end.
Definition to_hex (r : Z) : list Z := hex_of 16 r [].

(* QuoteStringInner, one rune *)
Definition escape_rune (r : Z) : list Z :=
  if r =? 0 then [92; 48]              (* \0 *)
  else if r =? 10 then [92; 110]       (* \n *)
  else if r =? 13 then [92; 114]       (* \r *)
  else if r =? 9 then [92; 116]        (* \t *)
  else if r =? 92 then [92; 92]        (* backslash backslash *)
  else if r =? 34 then [92; 34]        (* backslash, double quote *)
  else if (32 <=? r) && (r <=? 126) then [r]
  else [92; 117; 123] ++ to_hex r ++ [125].   (* \u{...} *)

Definition escape (s : list Z) : list Z := flat_map escape_rune s.

(* parseHex *)
Definition parse_hex (c : Z) : Z :=
  if (48 <=? c) && (c <=? 57) then c - 48
  else if (97 <=? c) && (c <=? 102) then c - 97 + 10
  else if (65 <=? c) && (c <=? 70) then c - 65 + 10
  else -1.

(* builder.WriteRune: an invalid rune is written as U+FFFD *)
Definition write_rune (r : Z) : Z :=
  if (r <? 0) || (1114111 <? r) || ((55296 <=? r) && (r <=? 57343)) then 65533 else r.

(* the digit loop of a \u{...} escape: at most 8 characters are read; returns (value, digits read, valid,
   last character read (or -1 = EOF if none), remaining text) *)
Fixpoint u_digits (n : nat) (digitIndex : Z) (r2 : Z) (valid : bool) (last : Z) (s : list Z)
  : Z * Z * bool * Z * list Z :=
  match n with
  | O => (r2, digitIndex, valid, last, s)
  | S n' =>
    match s with
    | [] => (r2, digitIndex, valid, last, s)                 (* atEnd *)
    | c :: rest =>
      if c =? 125 then (r2, digitIndex, valid, c, rest)      (* '}' : break, digitIndex not incremented *)
      else
        let p := parse_hex c in
        if p <? 0 then u_digits n' (digitIndex + 1) r2 false c rest
        else u_digits n' (digitIndex + 1) (r2 * 16 + p) valid c rest
    end
  end.

(* parseStringLiteralContent; None = a syntax error was reported *)
Fixpoint unescape (fuel : nat) (s : list Z) : option (list Z) :=
  match fuel with
  | O => None
  | S f =>
    match s with
    | [] => Some []
    | c :: rest =>
      if negb (c =? 92) then option_map (cons c) (unescape f rest)
      else
        match rest with
        | [] => None                                          (* incomplete escape sequence *)
        | e :: rest2 =>
          if e =? 48 then option_map (cons 0) (unescape f rest2)
          else if e =? 110 then option_map (cons 10) (unescape f rest2)
          else if e =? 114 then option_map (cons 13) (unescape f rest2)
          else if e =? 116 then option_map (cons 9) (unescape f rest2)
          else if e =? 34 then option_map (cons 34) (unescape f rest2)
          else if e =? 39 then option_map (cons 39) (unescape f rest2)
          else if e =? 92 then option_map (cons 92) (unescape f rest2)
          else if e =? 117 then
            match rest2 with
            | [] => None
            | b :: rest3 =>
              if negb (b =? 123) then None
              else
                let '(r2, di, valid, last, rest4) := u_digits 8 0 0 true (-1) rest3 in
                (* if r != '}' { advance() } ; then r must be '}' *)
                let closed :=
                  if last =? 125 then Some rest4
                  else match rest4 with
                       | c2 :: rest5 => if c2 =? 125 then Some rest5 else None
                       | [] => None
                       end in
                match closed with
                | None => None
                | Some rest6 =>
                  if negb valid then None
                  else if 0 <? di then option_map (cons (write_rune r2)) (unescape f rest6)
                  else unescape f rest6
                end
            end
          else None                                            (* invalid escape character *)
        end
    end
  end.

Definition unescape_text (s : list Z) : option (list Z) := unescape (S (length s)) s.

(* a Unicode scalar value *)
Definition scalar (r : Z) : Prop := 0 <= r <= 1114111 /\ ~ (55296 <= r <= 57343).
