(* C38 — proof that the model parser reads back what the model printer prints (under the guard ok). *)
From CV Require Import Base.Prelude C38.Syntax C38.Parser C38.Guards.
From Coq Require Import Lia.

(* ------------------------------------------------------------------ one-step unfoldings *)
Lemma parse_expr_S : forall f rbp ts,
  parse_expr (S f) rbp ts =
    (let? (lft, r) :=
      (match ts with
       | TId n :: r => Some (EId n, r)
       | TInt z :: r => Some (EInt z, r)
       | TTrue :: r => Some (EBool true, r)
       | TFalse :: r => Some (EBool false, r)
       | TNil :: r => Some (ENil, r)
       | TStr s :: r => Some (EStr s, r)
       | TBin OSub :: r => let? (x, r') := parse_expr f bpUnaryPrefix r in Some (fold_minus x, r')
       | TBang :: r => let? (x, r') := parse_expr f bpUnaryPrefix r in Some (EUn UNot x, r')
       | TMove :: r => let? (x, r') := parse_expr f bpMove r in Some (EUn UMove x, r')
       | TBin OMul :: r => let? (x, r') := parse_expr f bpUnaryPrefix r in Some (EUn UDeref x, r')
       | TLParen :: r =>
         let? (x, r') := parse_expr f 0 r in
         match r' with TRParen :: r'' => Some (x, r'') | _ => None end
       | _ => None
       end) in
    led_loop f rbp lft r).
Proof. reflexivity. Qed.

Lemma led_loop_S : forall f rbp lft ts,
  led_loop (S f) rbp lft ts =
    match ts with
    | TBin o :: r =>
      if bpower o <=? rbp then Some (lft, ts)
      else
        let? (x, r') := parse_expr f (if right_assoc o then bpower o - 1 else bpower o) r in
        led_loop f rbp (EBin o lft x) r'
    | TQuestion :: r =>
      if bpTernary <=? rbp then Some (lft, ts)
      else
        let? (t, r1) := parse_expr f 0 r in
        match r1 with
        | TColon :: r2 =>
          let? (x, r3) := parse_expr f 0 r2 in
          led_loop f rbp (ECond lft t x) r3
        | _ => None
        end
    | TCast k :: r =>
      if bpCasting <=? rbp then Some (lft, ts)
      else match r with
           | TType t :: r' => led_loop f rbp (ECast k lft t) r'
           | _ => None
           end
    | TBang :: r =>
      if bpUnaryPostfix <=? rbp then Some (lft, ts) else led_loop f rbp (EForce lft) r
    | TDot :: r =>
      if bpAccess <=? rbp then Some (lft, ts)
      else match r with TId n :: r' => led_loop f rbp (EMember false lft n) r' | _ => None end
    | TQDot :: r =>
      if bpAccess <=? rbp then Some (lft, ts)
      else match r with TId n :: r' => led_loop f rbp (EMember true lft n) r' | _ => None end
    | TLBrack :: r =>
      if bpAccess <=? rbp then Some (lft, ts)
      else
        let? (i, r1) := parse_expr f 0 r in
        match r1 with TRBrack :: r2 => led_loop f rbp (EIndex lft i) r2 | _ => None end
    | TLParen :: r =>
      if bpAccess <=? rbp then Some (lft, ts)
      else
        let? (args, r1) := parse_args f true r in
        led_loop f rbp (EInvoke lft args) r1
    | _ => Some (lft, ts)
    end.
Proof. reflexivity. Qed.

Lemma parse_args_S : forall f ea ts,
  parse_args (S f) ea ts =
    match ts with
    | [] => None
    | TComma :: r => if ea then None else parse_args f true r
    | TRParen :: r => Some ([], r)
    | _ =>
      if negb ea then None
      else
        let? (x, r1) := parse_expr f 0 ts in
        match r1 with
        | TColon :: r2 =>
          match x with
          | EId n =>
            let? (v, r3) := parse_expr f 0 r2 in
            let? (rest, r4) := parse_args f false r3 in
            Some ((Some n, v) :: rest, r4)
          | _ => None
          end
        | _ =>
          let? (rest, r4) := parse_args f false r1 in
          Some ((None, x) :: rest, r4)
        end
    end.
Proof. reflexivity. Qed.

Opaque parse_expr led_loop parse_args.

(* ------------------------------------------------------------------ fuel monotonicity *)
Ltac crack :=
  repeat match goal with
  | H : bindo ?x _ = Some _ |- _ =>
    let E := fresh "E" in destruct x as [[? ?]|] eqn:E; cbn [bindo] in H; [|discriminate H]
  | H : (if ?c then _ else _) = Some _ |- _ => let E := fresh "C" in destruct c eqn:E
  | H : match ?l with _ => _ end = Some _ |- _ => is_var l; destruct l
  | H : None = Some _ |- _ => discriminate H
  | H : Some (_, _) = Some (_, _) |- _ => inversion H; subst; clear H
  end.

Lemma fuel_mono_S : forall f,
  (forall rbp ts x, parse_expr f rbp ts = Some x -> parse_expr (S f) rbp ts = Some x) /\
  (forall rbp l ts x, led_loop f rbp l ts = Some x -> led_loop (S f) rbp l ts = Some x) /\
  (forall ea ts x, parse_args f ea ts = Some x -> parse_args (S f) ea ts = Some x).
Proof.
  induction f as [|f (IH1 & IH2 & IH3)].
  - Transparent parse_expr led_loop parse_args.
    repeat split; intros; discriminate.
    Opaque parse_expr led_loop parse_args.
  - repeat split.
    + intros rbp ts x H. rewrite parse_expr_S in H. rewrite parse_expr_S.
      crack;
      repeat match goal with
      | E : parse_expr f _ _ = Some _ |- _ => apply IH1 in E; rewrite E; cbn [bindo]
      | E : led_loop f _ _ _ = Some _ |- _ => apply IH2 in E
      end; cbn [bindo]; try assumption; try discriminate.
    + intros rbp l ts x H. rewrite led_loop_S in H. rewrite led_loop_S.
      crack;
      repeat match goal with
      | E : parse_expr f _ _ = Some _ |- _ => apply IH1 in E; rewrite E; cbn [bindo]
      | E : parse_args f _ _ = Some _ |- _ => apply IH3 in E; rewrite E; cbn [bindo]
      | E : led_loop f _ _ _ = Some _ |- _ => apply IH2 in E
      end; cbn [bindo]; try assumption; try discriminate.
    + intros ea ts x H. rewrite parse_args_S in H. rewrite parse_args_S.
      crack;
      repeat match goal with
      | E : parse_expr f _ _ = Some _ |- _ => apply IH1 in E; rewrite E; cbn [bindo]
      | E : parse_args f _ _ = Some _ |- _ => apply IH3 in E; try rewrite E; cbn [bindo]
      end; cbn [bindo]; try assumption; try discriminate; try reflexivity.
Qed.

Lemma fuel_mono : forall f f', (f <= f')%nat ->
  (forall rbp ts x, parse_expr f rbp ts = Some x -> parse_expr f' rbp ts = Some x) /\
  (forall rbp l ts x, led_loop f rbp l ts = Some x -> led_loop f' rbp l ts = Some x) /\
  (forall ea ts x, parse_args f ea ts = Some x -> parse_args f' ea ts = Some x).
Proof.
  intros f f' H. induction H as [|f' H (IH1 & IH2 & IH3)]; [repeat split; auto|].
  destruct (fuel_mono_S f') as (M1 & M2 & M3). repeat split; intros; auto.
Qed.

(* "succeeds with some fuel" *)
Definition PE (rbp : Z) (ts : list tok) (res : expr * list tok) : Prop :=
  exists F, parse_expr F rbp ts = Some res.
Definition LL (rbp : Z) (l : expr) (ts : list tok) (res : expr * list tok) : Prop :=
  exists F, led_loop F rbp l ts = Some res.
Definition PA (ea : bool) (ts : list tok) (res : list (option Z * expr) * list tok) : Prop :=
  exists F, parse_args F ea ts = Some res.

Ltac lift H F :=
  match type of H with
  | parse_expr ?f _ _ = Some _ => apply (proj1 (fuel_mono f F ltac:(lia))) in H
  | led_loop ?f _ _ _ = Some _ => apply (proj1 (proj2 (fuel_mono f F ltac:(lia)))) in H
  | parse_args ?f _ _ = Some _ => apply (proj2 (proj2 (fuel_mono f F ltac:(lia)))) in H
  end.

Lemma stops_mono : forall a b rest, stops a rest -> a <= b -> stops b rest.
Proof. intros a b [|t r]; simpl; intros; [exact I|lia]. Qed.

Lemma bpower_bounds : forall o, 30 <= bpower o <= 120.
Proof. destruct o; cbv; split; discriminate. Qed.

(* the loop stops at a token that does not bind tighter than rbp *)
Lemma loop_stop : forall rbp l rest, 0 <= rbp -> stops rbp rest -> LL rbp l rest (l, rest).
Proof.
  intros rbp l rest H0 H. exists 1%nat. rewrite led_loop_S.
  destruct rest as [|t r]; [reflexivity|]. simpl in H.
  destruct t; simpl in H; try reflexivity;
    unfold bpTernary, bpCasting, bpUnaryPostfix, bpAccess in *;
    match goal with |- (if ?c then _ else _) = _ => destruct c eqn:E; [reflexivity|lia] end.
Qed.

(* ---- compositional steps ---- *)
Lemma PE_atom : forall rbp t x r res,
  (forall f, parse_expr (S f) rbp (t :: r) = led_loop f rbp x r) ->
  LL rbp x r res -> PE rbp (t :: r) res.
Proof. intros rbp t x r res Hs [F HF]. exists (S F). rewrite Hs. exact HF. Qed.

Lemma PE_prefix : forall rbp q t (mk : expr -> expr) x r r' res,
  (forall f, parse_expr (S f) rbp (t :: r) =
             (let? (lft, r0) := (let? (y, r1) := parse_expr f q r in Some (mk y, r1)) in led_loop f rbp lft r0)) ->
  PE q r (x, r') -> LL rbp (mk x) r' res -> PE rbp (t :: r) res.
Proof.
  intros rbp q t mk x r r' res Hs [F1 H1] [F2 H2].
  exists (S (F1 + F2)). rewrite Hs. lift H1 (F1 + F2)%nat. lift H2 (F1 + F2)%nat.
  rewrite H1. cbn [bindo]. exact H2.
Qed.

Lemma PE_paren : forall rbp x r r' res,
  PE 0 r (x, TRParen :: r') -> LL rbp x r' res -> PE rbp (TLParen :: r) res.
Proof.
  intros rbp x r r' res [F1 H1] [F2 H2]. exists (S (F1 + F2)). rewrite parse_expr_S.
  lift H1 (F1 + F2)%nat. lift H2 (F1 + F2)%nat. rewrite H1. cbn [bindo]. exact H2.
Qed.

Lemma LL_bin : forall rbp l o r x r' res,
  rbp < bpower o ->
  PE (if right_assoc o then bpower o - 1 else bpower o) r (x, r') ->
  LL rbp (EBin o l x) r' res -> LL rbp l (TBin o :: r) res.
Proof.
  intros rbp l o r x r' res Hlt [F1 H1] [F2 H2]. exists (S (F1 + F2)). rewrite led_loop_S.
  destruct (Z.leb_spec (bpower o) rbp); [lia|].
  lift H1 (F1 + F2)%nat. lift H2 (F1 + F2)%nat. rewrite H1. cbn [bindo]. exact H2.
Qed.

Lemma LL_cond : forall rbp c r t r2 x r3 res,
  rbp < bpTernary -> PE 0 r (t, TColon :: r2) -> PE 0 r2 (x, r3) ->
  LL rbp (ECond c t x) r3 res -> LL rbp c (TQuestion :: r) res.
Proof.
  intros rbp c r t r2 x r3 res Hlt [F1 H1] [F2 H2] [F3 H3]. exists (S (F1 + F2 + F3)). rewrite led_loop_S.
  destruct (Z.leb_spec bpTernary rbp); [lia|].
  lift H1 (F1 + F2 + F3)%nat. lift H2 (F1 + F2 + F3)%nat. lift H3 (F1 + F2 + F3)%nat.
  rewrite H1. cbn [bindo]. rewrite H2. cbn [bindo]. exact H3.
Qed.

Lemma LL_cast : forall rbp x k t r res,
  rbp < bpCasting -> LL rbp (ECast k x t) r res -> LL rbp x (TCast k :: TType t :: r) res.
Proof.
  intros rbp x k t r res Hlt [F H]. exists (S F). rewrite led_loop_S.
  destruct (Z.leb_spec bpCasting rbp); [lia|]. exact H.
Qed.

Lemma LL_force : forall rbp x r res,
  rbp < bpUnaryPostfix -> LL rbp (EForce x) r res -> LL rbp x (TBang :: r) res.
Proof.
  intros rbp x r res Hlt [F H]. exists (S F). rewrite led_loop_S.
  destruct (Z.leb_spec bpUnaryPostfix rbp); [lia|]. exact H.
Qed.

Lemma LL_member : forall rbp x (opt : bool) n r res,
  rbp < bpAccess -> LL rbp (EMember opt x n) r res ->
  LL rbp x ((if opt then TQDot else TDot) :: TId n :: r) res.
Proof.
  intros rbp x opt n r res Hlt [F H]. exists (S F). rewrite led_loop_S.
  destruct opt; destruct (Z.leb_spec bpAccess rbp); try lia; exact H.
Qed.

Lemma LL_index : forall rbp x r i r2 res,
  rbp < bpAccess -> PE 0 r (i, TRBrack :: r2) -> LL rbp (EIndex x i) r2 res -> LL rbp x (TLBrack :: r) res.
Proof.
  intros rbp x r i r2 res Hlt [F1 H1] [F2 H2]. exists (S (F1 + F2)). rewrite led_loop_S.
  destruct (Z.leb_spec bpAccess rbp); [lia|].
  lift H1 (F1 + F2)%nat. lift H2 (F1 + F2)%nat. rewrite H1. cbn [bindo]. exact H2.
Qed.

Lemma LL_invoke : forall rbp x r args r1 res,
  rbp < bpAccess -> PA true r (args, r1) -> LL rbp (EInvoke x args) r1 res -> LL rbp x (TLParen :: r) res.
Proof.
  intros rbp x r args r1 res Hlt [F1 H1] [F2 H2]. exists (S (F1 + F2)). rewrite led_loop_S.
  destruct (Z.leb_spec bpAccess rbp); [lia|].
  lift H1 (F1 + F2)%nat. lift H2 (F1 + F2)%nat. rewrite H1. cbn [bindo]. exact H2.
Qed.

(* ------------------------------------------------------------------ arithmetic facts *)
Lemma prec_range : forall e, 1 <= prec e <= 16.
Proof. destruct e; simpl; try (cbv; split; discriminate). destruct o; cbv; split; discriminate. Qed.

Lemma pw_bprec : forall o, pw (bprec o) = bpower o.
Proof. destruct o; reflexivity. Qed.

Lemma pw_mono : forall a b, 1 <= a -> a <= b -> pw a <= pw b.
Proof.
  intros a b Ha Hab. unfold pw, bpCasting, bpUnaryPrefix, bpUnaryPostfix, bpAccess.
  repeat match goal with
  | |- context [?x <=? ?y] => destruct (Z.leb_spec x y)
  | |- context [?x =? ?y] => destruct (Z.eqb_spec x y)
  end; cbv iota; lia.
Qed.

Lemma pw_step : forall a b, 1 <= a -> a < b -> b <= 16 -> pw a + 10 <= pw b.
Proof.
  intros a b Ha Hab Hb. unfold pw, bpCasting, bpUnaryPrefix, bpUnaryPostfix, bpAccess.
  repeat match goal with
  | |- context [?x <=? ?y] => destruct (Z.leb_spec x y)
  | |- context [?x =? ?y] => destruct (Z.eqb_spec x y)
  end; cbv iota; lia.
Qed.

Ltac bp := unfold bpTernary, bpLogicalOr, bpLogicalAnd, bpComparison, bpNilCoalescing, bpBitwiseOr, bpBitwiseXor,
  bpBitwiseAnd, bpBitwiseShift, bpAddition, bpMultiplication, bpMove, bpCasting, bpUnaryPrefix, bpUnaryPostfix, bpAccess,
  pTernary, pLogicalOr, pLogicalAnd, pComparison, pNilCoalescing, pBitwiseOr, pBitwiseXor, pBitwiseAnd, pBitwiseShift,
  pAddition, pMultiplication, pCasting, pUnaryPrefix, pUnaryPostfix, pAccess, pLiteral in *.

Lemma lbp_top_ge : forall e, pw (prec e) <= lbp_top e.
Proof. destruct e; simpl; try (cbv; discriminate). rewrite pw_bprec. lia. Qed.

Lemma rlevel_nonneg : forall e, 0 <= rlevel e.
Proof.
  destruct e; simpl; try lia.
  - destruct (z <? 0); bp; lia.
  - pose proof (bpower_bounds o). destruct (right_assoc o); lia.
  - destruct (match o with UMove => true | _ => match e with EUn _ _ => ends_in_move e | _ => false end end); bp; lia.
Qed.

Lemma rlevel_bin : forall o l r, rlevel (EBin o l r) = if right_assoc o then bpower o - 1 else bpower o.
Proof. reflexivity. Qed.

Lemma rlevel_un_ge : forall o x, bpMove <= rlevel (EUn o x).
Proof. intros. unfold rlevel. destruct (ends_in_move (EUn o x)); bp; lia. Qed.

Lemma bare_prec : forall p x, bare p x = true -> p <= prec x \/ (p = pAccess /\ prec x = pUnaryPostfix).
Proof.
  intros p x H. unfold bare, needs_parens in H.
  destruct (Z.leb_spec p (prec x)); [left; lia|]. simpl in H.
  destruct (Z.eqb_spec p pAccess); destruct (Z.eqb_spec (prec x) pUnaryPostfix); simpl in H; try discriminate.
  right. split; assumption.
Qed.

Lemma paren_if_bare : forall p x, paren_if (needs_parens p (prec x)) (pr x) =
  if bare p x then pr x else TLParen :: pr x ++ [TRParen].
Proof. intros. unfold bare. destruct (needs_parens p (prec x)); reflexivity. Qed.

(* ------------------------------------------------------------------ argument lists *)
Fixpoint pr_args (l : list (option Z * expr)) : list tok :=
  match l with
  | [] => []
  | (lab, a) :: rest =>
    (match lab with Some n => [TId n; TColon] | None => [] end) ++ pr a
    ++ (match rest with [] => [] | _ => TComma :: pr_args rest end)
  end.

Lemma pr_invoke : forall x args,
  pr (EInvoke x args) = paren_if (needs_parens pAccess (prec x)) (pr x) ++ [TLParen] ++ pr_args args ++ [TRParen].
Proof.
  intros. simpl.
  assert (H : forall l, (fix pr_args (l : list (option Z * expr)) : list tok :=
          match l with
          | [] => []
          | (lab, a) :: rest =>
            (match lab with Some n => [TId n; TColon] | None => [] end) ++ pr a
            ++ (match rest with [] => [] | _ => TComma :: pr_args rest end)
          end) l = pr_args l).
  { induction l as [|[lab a] rest IH]; [reflexivity|]. simpl. rewrite IH. reflexivity. }
  rewrite H. reflexivity.
Qed.

Fixpoint size_args (l : list (option Z * expr)) : nat :=
  match l with [] => O | (_, a) :: r => S (size a + size_args r) end.
Lemma size_invoke : forall x args, size (EInvoke x args) = S (size x + size_args args).
Proof.
  intros. simpl.
  assert (H : forall l, (fix sz (l : list (option Z * expr)) : nat :=
                   match l with [] => O | (_, a) :: r => S (size a + sz r) end) l = size_args l).
  { induction l as [|[lab a] rest IH]; [reflexivity|]. simpl. rewrite IH. reflexivity. }
  rewrite H. reflexivity.
Qed.

Fixpoint ok_args (l : list (option Z * expr)) : Prop :=
  match l with [] => True | (_, a) :: r => ok a /\ ok_args r end.
Lemma ok_invoke : forall x args, ok (EInvoke x args) <-> ok x /\ fits pAccess bpAccess x /\ ok_args args.
Proof.
  intros. simpl. assert (H : (fix oks (l : list (option Z * expr)) : Prop :=
       match l with [] => True | (_, a) :: r => ok a /\ oks r end) args = ok_args args).
  { induction args as [|[lab a] rest IH]; [reflexivity|]. simpl. rewrite IH. reflexivity. }
  rewrite H. tauto.
Qed.

(* a printed expression starts with a token that can start an expression *)
Lemma pr_head : forall e, exists t r, pr e = t :: r /\ t <> TComma /\ t <> TRParen /\ t <> TColon.
Proof.
  assert (P : forall b ts, (exists t r, ts = t :: r /\ t <> TComma /\ t <> TRParen /\ t <> TColon) ->
                 forall more, exists t r, paren_if b ts ++ more = t :: r /\ t <> TComma /\ t <> TRParen /\ t <> TColon).
  { intros b ts (t & r & -> & H) more. destruct b; simpl.
    - eexists _, _. split; [reflexivity|]. repeat split; discriminate.
    - eexists _, _. split; [reflexivity|]. exact H. }
  induction e; try (simpl; eexists _, _; split; [reflexivity|]; repeat split; discriminate).
  - simpl. destruct (z <? 0); eexists _, _; (split; [reflexivity|]); repeat split; discriminate.
  - destruct b; simpl; eexists _, _; (split; [reflexivity|]); repeat split; discriminate.
  - simpl. apply P. exact IHe1.
  - simpl. destruct o; eexists _, _; (split; [reflexivity|]); repeat split; discriminate.
  - simpl. apply P. exact IHe1.
  - simpl. apply P. exact IHe.
  - simpl. apply P. exact IHe.
  - simpl. apply P. exact IHe.
  - simpl. apply P. exact IHe1.
  - rewrite pr_invoke. apply P. exact IHe.
Qed.

(* ------------------------------------------------------------------ the main lemma *)
Lemma lbp_top_pos : forall e, 20 <= lbp_top e.
Proof. destruct e; simpl; bp; try lia. pose proof (bpower_bounds o). lia. Qed.

Definition Main (n : nat) : Prop :=
  forall e, (size e <= n)%nat -> ok e ->
  forall rbp rest res, 0 <= rbp <= bpUnaryPrefix -> rbp < lbp_top e -> stops (rlevel e) rest ->
  LL rbp e rest res -> PE rbp (pr e ++ rest) res.

Lemma stops_closer : forall a t r, lbp_of t = 0 -> 0 <= a -> stops a (t :: r).
Proof. intros. simpl. lia. Qed.

(* an operand, parenthesised or bare *)
Lemma operand : forall n, Main n -> forall x, (size x <= n)%nat -> ok x ->
  forall b rbp rest res, 0 <= rbp <= bpUnaryPrefix ->
  (b = false -> rbp < lbp_top x /\ stops (rlevel x) rest) ->
  LL rbp x rest res -> PE rbp (paren_if b (pr x) ++ rest) res.
Proof.
  intros n IH x Hs Hok b rbp rest res H0 Hb HL. destruct b; simpl.
  - rewrite <- app_assoc. simpl. eapply PE_paren; [|exact HL].
    apply IH; try assumption; try (bp; lia).
    + pose proof (lbp_top_pos x). lia.
    + apply stops_closer; [reflexivity|apply rlevel_nonneg].
    + apply loop_stop; [lia|]. apply stops_closer; [reflexivity|lia].
  - destruct (Hb eq_refl). apply IH; assumption.
Qed.

Lemma parse_args_other : forall f ts t r, ts = t :: r -> t <> TComma -> t <> TRParen ->
  parse_args (S f) true ts =
    (let? (x, r1) := parse_expr f 0 ts in
     match r1 with
     | TColon :: r2 =>
       match x with
       | EId n =>
         let? (v, r3) := parse_expr f 0 r2 in
         let? (rest, r4) := parse_args f false r3 in
         Some ((Some n, v) :: rest, r4)
       | _ => None
       end
     | _ =>
       let? (rest, r4) := parse_args f false r1 in
       Some ((None, x) :: rest, r4)
     end).
Proof. intros f ts t r -> H1 H2. rewrite parse_args_S. destruct t; try congruence; reflexivity. Qed.

Lemma args_ok : forall n, Main n -> forall args, (size_args args <= n)%nat -> ok_args args ->
  forall rest, PA true (pr_args args ++ TRParen :: rest) (args, rest).
Proof.
  intros n IH. induction args as [|[lab a] more IHm]; intros Hs Hok rest.
  - exists 1%nat. reflexivity.
  - simpl in Hs, Hok. destruct Hok as [Hoka Hokm].
    set (R := (match more with [] => [] | _ => TComma :: pr_args more end) ++ TRParen :: rest).
    assert (HR : PA false R (more, rest)).
    { unfold R. destruct more as [|m more'].
      - exists 1%nat. reflexivity.
      - destruct (IHm ltac:(lia) Hokm rest) as [F HF]. exists (S F). rewrite parse_args_S. exact HF. }
    assert (Hstop : stops 0 R /\ (forall r2, R <> TColon :: r2)).
    { unfold R. destruct more; simpl; split; try lia; intros; discriminate. }
    destruct Hstop as [Hstop HnotColon].
    assert (Ha : PE 0 (pr a ++ R) (a, R)).
    { apply IH; try assumption; try (bp; lia).
      - pose proof (lbp_top_pos a). lia.
      - eapply stops_mono; [exact Hstop|apply rlevel_nonneg].
      - apply loop_stop; [lia|exact Hstop]. }
    destruct Ha as [F1 H1]. destruct HR as [F2 H2].
    simpl pr_args. rewrite <- !app_assoc. fold R.
    destruct lab as [l|].
    + (* labelled *)
      exists (S (S (F1 + F2))). rewrite parse_args_S. simpl app.
      assert (Hl : parse_expr (S (F1 + F2)) 0 (TId l :: TColon :: pr a ++ R) = Some (EId l, TColon :: pr a ++ R)).
      { rewrite parse_expr_S. cbn [bindo]. destruct (F1 + F2)%nat eqn:EF; [lift H1 O; discriminate H1|].
        rewrite led_loop_S. reflexivity. }
      cbn [negb]. rewrite Hl. cbn [bindo].
      lift H1 (S (F1 + F2)). lift H2 (S (F1 + F2)). rewrite H1. cbn [bindo]. rewrite H2. reflexivity.
    + (* unlabelled *)
      destruct (pr_head a) as (t & r & Et & Ht1 & Ht2 & Ht3).
      exists (S (F1 + F2)). simpl app.
      rewrite (parse_args_other _ (pr a ++ R) t (r ++ R)); [|rewrite Et; reflexivity|assumption|assumption].
      lift H1 (F1 + F2)%nat. lift H2 (F1 + F2)%nat. rewrite H1. cbn [bindo].
      destruct R as [|t0 R']; [rewrite H2; reflexivity|].
      destruct t0; try (rewrite H2; reflexivity). exfalso. eapply HnotColon. reflexivity.
Qed.

(* ---- bare operands of a binary operator ---- *)
Lemma bprec_range : forall o, 2 <= bprec o <= 11.
Proof. destruct o; cbv; split; discriminate. Qed.

Lemma right_assoc_prec : forall o, right_assoc o = true <-> bprec o = pNilCoalescing.
Proof. destruct o; cbv; split; intros; congruence. Qed.

Lemma left_right_assoc : forall o, left_assoc o = negb (right_assoc o).
Proof. destruct o; reflexivity. Qed.

Lemma bin_left_bare : forall o l rbp,
  (if left_assoc o then prec l <? bprec o else prec l <=? bprec o) = false ->
  rbp < bpower o -> rbp < lbp_top l /\ bpower o <= rlevel l.
Proof.
  intros o l rbp Hb Hr.
  assert (Hp : bprec o <= prec l /\ (left_assoc o = false -> bprec o < prec l)).
  { destruct (left_assoc o); [apply Z.ltb_ge in Hb|apply Z.leb_gt in Hb]; split; try lia; discriminate. }
  destruct Hp as [Hp1 Hp2].
  pose proof (bpower_bounds o) as Hbo. pose proof (bprec_range o) as Hpo.
  pose proof (lbp_top_ge l) as Hl. pose proof (pw_mono (bprec o) (prec l) ltac:(lia) Hp1) as Hm. rewrite pw_bprec in Hm.
  split; [lia|].
  destruct l; simpl in *; bp; try lia.
  - destruct (z <? 0); lia.
  - (* EBin *) rewrite pw_bprec in Hm. pose proof (bprec_range o0) as Hpo0.
    destruct (right_assoc o0) eqn:Era; [|lia].
    apply right_assoc_prec in Era. unfold pNilCoalescing in Era.
    assert (Hlt : bprec o < 5).
    { destruct (Z.eq_dec (bprec o) 5) as [E5|]; [|lia].
      assert (right_assoc o = true) by (apply right_assoc_prec; exact E5).
      rewrite left_right_assoc in Hp2. rewrite H in Hp2. specialize (Hp2 eq_refl). lia. }
    pose proof (pw_step (bprec o) 5 ltac:(lia) Hlt ltac:(lia)) as Hs. rewrite pw_bprec in Hs.
    rewrite <- Era in Hs at 1. rewrite pw_bprec in Hs. lia.
  - destruct (match o0 with UMove => true | _ => match l with EUn _ _ => ends_in_move l | _ => false end end); lia.
Qed.

Lemma bin_right_bare : forall o r,
  (if left_assoc o then prec r <=? bprec o else prec r <? bprec o) = false ->
  let q := if right_assoc o then bpower o - 1 else bpower o in
  q < lbp_top r /\ q <= rlevel r.
Proof.
  intros o r Hb q.
  pose proof (bpower_bounds o) as Hbo. pose proof (bprec_range o) as Hpo. pose proof (prec_range r) as Hpr.
  pose proof (lbp_top_ge r) as Hl.
  assert (Hq : q < pw (prec r) /\ (prec r <= 11 -> q <= pw (prec r) - 1)).
  { unfold q. rewrite left_right_assoc in Hb. destruct (right_assoc o); simpl in Hb.
    - apply Z.ltb_ge in Hb. pose proof (pw_mono (bprec o) (prec r) ltac:(lia) Hb) as Hm. rewrite pw_bprec in Hm. lia.
    - apply Z.leb_gt in Hb. pose proof (pw_step (bprec o) (prec r) ltac:(lia) Hb ltac:(lia)) as Hm. rewrite pw_bprec in Hm. lia. }
  destruct Hq as [Hq1 Hq2]. split; [lia|].
  assert (Hq3 : 29 <= q <= 120) by (unfold q; destruct (right_assoc o); lia).
  assert (Hq4 : right_assoc o = true -> q = 59).
  { intros E. unfold q. rewrite E. apply right_assoc_prec in E. rewrite <- pw_bprec, E. reflexivity. }
  destruct r; simpl in *; bp; try lia.
  - destruct (z <? 0); lia.
  - rewrite pw_bprec in *. pose proof (bprec_range o0). destruct (right_assoc o0) eqn:Era; [|lia].
    specialize (Hq2 ltac:(lia)). lia.
  - destruct (match o0 with UMove => true | _ => match r with EUn _ _ => ends_in_move r | _ => false end end); lia.
Qed.

(* ---- bare operands of the other operators ---- *)
Lemma bare_high : forall p x, pUnaryPrefix <= p -> bare p x = true -> bpUnaryPostfix <= lbp_top x.
Proof.
  intros p x Hp Hb. destruct (bare_prec _ _ Hb) as [H|[_ H]]; destruct x; simpl in *; bp; try lia.
  all: pose proof (bprec_range o); lia.
Qed.

Lemma un_operand_level : forall o x,
  bare pUnaryPrefix x = true -> rlevel (EUn o x) <= rlevel x.
Proof.
  intros o x Hb. destruct (bare_prec _ _ Hb) as [H|[H _]]; [|bp; lia].
  destruct x; simpl in H; bp; try lia.
  all: try (pose proof (bprec_range o0); lia).
  all: unfold rlevel; destruct o; simpl;
    repeat match goal with |- context [if ?c then _ else _] => destruct c end; bp; lia.
Qed.

Lemma un_own_level : forall o x, rlevel (EUn o x) <= (match o with UMove => bpMove | _ => bpUnaryPrefix end).
Proof.
  intros. unfold rlevel. destruct o; simpl; try (destruct (match x with EUn _ _ => ends_in_move x | _ => false end)); bp; lia.
Qed.

Lemma app_assoc3 : forall (a b c : list tok), (a ++ b) ++ c = a ++ b ++ c.
Proof. intros. rewrite app_assoc. reflexivity. Qed.

Theorem main_all : forall n, Main n.
Proof.
  induction n as [|n IH]; intros e Hs Hok rbp rest res Hr Hlt Hst HL.
  { destruct e; simpl in Hs; lia. }
  assert (IHop := operand n IH).
  destruct e.
  - (* EId *) simpl. eapply PE_atom; [intros; rewrite parse_expr_S; reflexivity|exact HL].
  - (* EInt *) simpl pr. destruct (Z.ltb_spec z 0).
    + simpl app. eapply (PE_prefix rbp bpUnaryPrefix (TBin OSub) fold_minus (EInt (- z)) (TInt (- z) :: rest) rest).
      * intros. rewrite parse_expr_S. reflexivity.
      * eapply PE_atom; [intros; rewrite parse_expr_S; reflexivity|].
        apply loop_stop; [bp; lia|]. simpl in Hst. destruct (Z.ltb_spec z 0); [exact Hst|lia].
      * simpl. destruct (Z.ltb_spec 0 (- z)); [|lia]. replace (- - z) with z by lia. exact HL.
    + simpl app. eapply PE_atom; [intros; rewrite parse_expr_S; reflexivity|exact HL].
  - (* EBool *) destruct b; simpl; (eapply PE_atom; [intros; rewrite parse_expr_S; reflexivity|exact HL]).
  - (* ENil *) simpl. eapply PE_atom; [intros; rewrite parse_expr_S; reflexivity|exact HL].
  - (* EStr *) simpl. eapply PE_atom; [intros; rewrite parse_expr_S; reflexivity|exact HL].
  - (* EBin *)
    simpl in Hs. destruct Hok as [Hok1 Hok2]. simpl in Hlt. rewrite rlevel_bin in Hst.
    simpl pr. rewrite !app_assoc3.
    apply IHop; [lia|exact Hok1|exact Hr| |].
    + intros Hb. destruct (bin_left_bare o e1 rbp Hb Hlt) as [H1 H2]. split; [exact H1|]. simpl. exact H2.
    + simpl app. eapply LL_bin; [exact Hlt| |exact HL].
      apply IHop; [lia|exact Hok2| | |].
      * pose proof (bpower_bounds o). destruct (right_assoc o); bp; lia.
      * intros Hb. destruct (bin_right_bare o e2 Hb) as [H1 H2]. split; [exact H1|].
        eapply stops_mono; [exact Hst|exact H2].
      * apply loop_stop; [pose proof (bpower_bounds o); destruct (right_assoc o); lia|exact Hst].
  - (* EUn *)
    simpl in Hs. destruct Hok as [Hok1 Hok2].
    set (q := match o with UMove => bpMove | _ => bpUnaryPrefix end).
    assert (Hq : 0 <= q <= bpUnaryPrefix) by (unfold q; destruct o; bp; lia).
    assert (Hstq : stops q rest) by (eapply stops_mono; [exact Hst|apply un_own_level]).
    assert (Hx : PE q (paren_if (needs_parens pUnaryPrefix (prec e)) (pr e) ++ rest) (e, rest)).
    { apply IHop; [lia|exact Hok1|exact Hq| |].
      - intros Hb0. assert (Hb : bare pUnaryPrefix e = true) by (unfold bare; rewrite Hb0; reflexivity).
        split.
        + pose proof (bare_high pUnaryPrefix e ltac:(lia) Hb). unfold q. destruct o; bp; lia.
        + eapply stops_mono; [exact Hst|]. apply un_operand_level. exact Hb.
      - apply loop_stop; [lia|exact Hstq]. }
    simpl pr. simpl app.
    destruct o.
    + (* minus *)
      eapply (PE_prefix rbp bpUnaryPrefix (TBin OSub) fold_minus e); [intros; rewrite parse_expr_S; reflexivity|exact Hx|].
      assert (Hf : fold_minus e = EUn UMinus e).
      { destruct e; try reflexivity. simpl. specialize (Hok2 eq_refl z eq_refl).
        destruct (Z.ltb_spec 0 z); [lia|reflexivity]. }
      rewrite Hf. exact HL.
    + eapply (PE_prefix rbp bpUnaryPrefix TBang (EUn UNot) e); [intros; rewrite parse_expr_S; reflexivity|exact Hx|exact HL].
    + eapply (PE_prefix rbp bpMove TMove (EUn UMove) e); [intros; rewrite parse_expr_S; reflexivity|exact Hx|exact HL].
    + eapply (PE_prefix rbp bpUnaryPrefix (TBin OMul) (EUn UDeref) e); [intros; rewrite parse_expr_S; reflexivity|exact Hx|exact HL].
  - (* ECond *)
    simpl in Hs. destruct Hok as (Hok1 & Hok2 & Hok3). simpl in Hlt, Hst.
    simpl pr. rewrite !app_assoc3.
    apply IHop; [lia|exact Hok1|exact Hr| |].
    + intros Hb. apply Z.leb_gt in Hb. pose proof (lbp_top_ge e1) as Hl.
      pose proof (prec_range e1). pose proof (pw_step pTernary (prec e1) ltac:(bp; lia) Hb ltac:(lia)) as Hs1.
      change (pw pTernary) with 20 in Hs1.
      split; [bp; lia|]. simpl.
      destruct e1; simpl in *; bp; try lia.
      * destruct (z <? 0); lia.
      * pose proof (bpower_bounds o). destruct (right_assoc o); lia.
      * destruct (match o with UMove => true | _ => match e1 with EUn _ _ => ends_in_move e1 | _ => false end end); lia.
    + simpl app. eapply LL_cond; [exact Hlt| | |exact HL].
      * rewrite <- ?app_assoc. simpl app. apply IHop; [lia|exact Hok2|bp; lia| |].
        -- intros _. split; [pose proof (lbp_top_pos e2); lia|]. apply stops_closer; [reflexivity|apply rlevel_nonneg].
        -- apply loop_stop; [lia|]. apply stops_closer; [reflexivity|lia].
      * assert (Hne : (prec e3 <? pTernary) = false) by (apply Z.ltb_ge; pose proof (prec_range e3); bp; lia).
        rewrite Hne. simpl paren_if.
        apply IH; [lia|exact Hok3|bp; lia|pose proof (lbp_top_pos e3); lia| |].
        -- eapply stops_mono; [exact Hst|apply rlevel_nonneg].
        -- apply loop_stop; [lia|exact Hst].
  - (* ECast *)
    simpl in Hs. destruct Hok as [Hok1 Hfit]. simpl in Hlt.
    simpl pr. rewrite app_assoc3.
    apply IHop; [lia|exact Hok1|exact Hr| |].
    + intros Hb0. assert (Hb : bare pCasting e = true) by (unfold bare; rewrite Hb0; reflexivity). split.
      * destruct (bare_prec _ _ Hb) as [H|[H _]]; [|bp; lia].
        pose proof (lbp_top_ge e). pose proof (pw_mono pCasting (prec e) ltac:(bp; lia) H) as Hm.
        unfold pw in Hm at 1. simpl in Hm. lia.
      * simpl. apply Hfit. exact Hb.
    + simpl app. apply LL_cast; [exact Hlt|exact HL].
  - (* EForce *)
    simpl in Hs. destruct Hok as [Hok1 Hfit]. simpl in Hlt.
    simpl pr. rewrite app_assoc3.
    apply IHop; [lia|exact Hok1|exact Hr| |].
    + intros Hb0. assert (Hb : bare pUnaryPostfix e = true) by (unfold bare; rewrite Hb0; reflexivity). split.
      * pose proof (bare_high pUnaryPostfix e ltac:(bp; lia) Hb). bp; lia.
      * simpl. apply Hfit. exact Hb.
    + simpl app. apply LL_force; [exact Hlt|exact HL].
  - (* EMember *)
    simpl in Hs. destruct Hok as (Hok1 & Hfit & _). simpl in Hlt.
    simpl pr. rewrite app_assoc3.
    apply IHop; [lia|exact Hok1|exact Hr| |].
    + intros Hb0. assert (Hb : bare pAccess e = true) by (unfold bare; rewrite Hb0; reflexivity). split.
      * pose proof (bare_high pAccess e ltac:(bp; lia) Hb). bp; lia.
      * destruct opt; simpl; apply Hfit; exact Hb.
    + simpl app. apply LL_member; [exact Hlt|exact HL].
  - (* EIndex *)
    simpl in Hs. destruct Hok as (Hok1 & Hok2 & Hfit). simpl in Hlt.
    simpl pr. rewrite !app_assoc3.
    apply IHop; [lia|exact Hok1|exact Hr| |].
    + intros Hb0. assert (Hb : bare pAccess e1 = true) by (unfold bare; rewrite Hb0; reflexivity). split.
      * pose proof (bare_high pAccess e1 ltac:(bp; lia) Hb). bp; lia.
      * simpl. apply Hfit. exact Hb.
    + simpl app. eapply LL_index; [exact Hlt| |exact HL].
      rewrite <- ?app_assoc. simpl app. apply IH; [lia|exact Hok2|bp; lia|pose proof (lbp_top_pos e2); lia| |].
      * apply stops_closer; [reflexivity|apply rlevel_nonneg].
      * apply loop_stop; [lia|]. apply stops_closer; [reflexivity|lia].
  - (* EInvoke *)
    rewrite size_invoke in Hs. apply ok_invoke in Hok. destruct Hok as (Hok1 & Hfit & Hoka). simpl in Hlt.
    rewrite pr_invoke. rewrite !app_assoc3.
    apply IHop; [lia|exact Hok1|exact Hr| |].
    + intros Hb0. assert (Hb : bare pAccess e = true) by (unfold bare; rewrite Hb0; reflexivity). split.
      * pose proof (bare_high pAccess e ltac:(bp; lia) Hb). bp; lia.
      * simpl. apply Hfit. exact Hb.
    + simpl app. eapply LL_invoke; [exact Hlt| |exact HL].
      rewrite <- ?app_assoc. simpl app. apply (args_ok n IH); [lia|exact Hoka].
Qed.

(* ------------------------------------------------------------------ the round-trip theorem *)
Theorem print_parse_roundtrip : forall e, ok e ->
  exists f0, forall f, (f0 <= f)%nat -> parse_expr f 0 (pr e) = Some (e, []).
Proof.
  intros e Hok.
  destruct (main_all (size e) e (le_n _) Hok 0 [] (e, [])) as [F HF].
  - bp; lia.
  - pose proof (lbp_top_pos e). lia.
  - exact I.
  - apply loop_stop; [lia|exact I].
  - rewrite app_nil_r in HF. exists F. intros f Hf. exact (proj1 (fuel_mono F f Hf) _ _ _ HF).
Qed.

(* the boolean guard implies the guard *)
Lemma fitsb_fits : forall p l x, fitsb p l x = true -> fits p l x.
Proof.
  intros p l x H Hb. unfold fitsb in H. rewrite Hb in H. simpl in H. apply Z.leb_le in H. exact H.
Qed.

Lemma okb_ok : forall n e, (size e <= n)%nat -> okb e = true -> ok e.
Proof.
  induction n as [|n IH]; intros e Hs H; [destruct e; simpl in Hs; lia|].
  destruct e; try exact I.
  - simpl in Hs. simpl in H. apply andb_true_iff in H. destruct H. simpl. split; apply IH; try assumption; lia.
  - simpl in Hs. simpl in H. apply andb_true_iff in H. destruct H as [H1 H2]. simpl. split; [apply IH; [lia|exact H1]|].
    intros -> z ->. apply Z.leb_le in H2. exact H2.
  - simpl in Hs. simpl in H. rewrite !andb_true_iff in H. destruct H as [[H1 H2] H3]. simpl. repeat split; apply IH; try assumption; lia.
  - simpl in Hs. simpl in H. apply andb_true_iff in H. destruct H as [H1 H2]. simpl. split; [apply IH; [lia|exact H1]|apply fitsb_fits; exact H2].
  - simpl in Hs. simpl in H. apply andb_true_iff in H. destruct H as [H1 H2]. simpl. split; [apply IH; [lia|exact H1]|apply fitsb_fits; exact H2].
  - simpl in Hs. simpl in H. rewrite !andb_true_iff in H. destruct H as [[H1 H2] H3]. simpl.
    split; [apply IH; [lia|exact H1]|]. split; [apply fitsb_fits; exact H2|].
    intros z ->. discriminate H3.
  - simpl in Hs. simpl in H. rewrite !andb_true_iff in H. destruct H as [[H1 H2] H3]. simpl.
    split; [apply IH; [lia|exact H1]|]. split; [apply IH; [lia|exact H2]|apply fitsb_fits; exact H3].
  - rewrite size_invoke in Hs. apply ok_invoke.
    simpl in H. rewrite !andb_true_iff in H. destruct H as [[H1 H2] H3].
    split; [apply IH; [lia|exact H1]|]. split; [apply fitsb_fits; exact H2|].
    assert (Hsa : (size_args args <= n)%nat) by lia. clear Hs H1 H2.
    induction args as [|[lab a] rest IHa]; [exact I|].
    simpl in H3, Hsa. apply andb_true_iff in H3. destruct H3 as [Ha Hr]. simpl.
    split; [apply IH; [lia|exact Ha]|apply IHa; [exact Hr|lia]].
Qed.

Theorem okb_sound : forall e, okb e = true -> ok e.
Proof. intros e. apply (okb_ok (size e)). apply le_n. Qed.

(* ------------------------------------------------------------------ witnesses *)
(* the parser accepts `(<-a) as T` and `(-5)!` (token streams with explicit parentheses) ... *)
Definition w_move_cast_src : list tok := [TLParen; TMove; TId 1; TRParen; TCast CAs; TType (mkTy [2] 0)].
Definition w_move_cast : expr := ECast CAs (EUn UMove (EId 1)) (mkTy [2] 0).
Definition w_neg_force_src : list tok := [TLParen; TBin OSub; TInt 5; TRParen; TBang].
Definition w_neg_force : expr := EForce (EInt (-5)).

Definition parse_fuel (f : nat) (ts : list tok) : option expr :=
  match parse_expr f 0 ts with Some (e, []) => Some e | _ => None end.

(* ... but their printed forms read back as different expressions, with any fuel *)
Lemma witness_move_cast :
  parse_fuel 20 w_move_cast_src = Some w_move_cast /\
  forall f, parse_fuel f (pr w_move_cast) <> Some w_move_cast.
Proof.
  split; [reflexivity|]. intros f H.
  assert (H20 : parse_fuel 20 (pr w_move_cast) = Some (EUn UMove (ECast CAs (EId 1) (mkTy [2] 0)))) by reflexivity.
  unfold parse_fuel in *.
  destruct (parse_expr f 0 (pr w_move_cast)) as [[e r]|] eqn:E; [|discriminate].
  destruct (Nat.le_ge_cases f 20) as [Hle|Hge].
  - apply (proj1 (fuel_mono f 20 Hle)) in E. rewrite E in H20. destruct r; [|discriminate].
    injection H as ->. discriminate H20.
  - destruct (parse_expr 20 0 (pr w_move_cast)) as [[e' r']|] eqn:E'; [|discriminate].
    apply (proj1 (fuel_mono 20 f Hge)) in E'. rewrite E' in E. injection E as <- <-.
    destruct r'; [|discriminate]. injection H as ->. discriminate H20.
Qed.

Lemma witness_neg_force :
  parse_fuel 20 w_neg_force_src = Some w_neg_force /\
  forall f, parse_fuel f (pr w_neg_force) <> Some w_neg_force.
Proof.
  split; [reflexivity|]. intros f H.
  assert (H20 : parse_fuel 20 (pr w_neg_force) = Some (EUn UMinus (EForce (EInt 5)))) by reflexivity.
  unfold parse_fuel in *.
  destruct (parse_expr f 0 (pr w_neg_force)) as [[e r]|] eqn:E; [|discriminate].
  destruct (Nat.le_ge_cases f 20) as [Hle|Hge].
  - apply (proj1 (fuel_mono f 20 Hle)) in E. rewrite E in H20. destruct r; [|discriminate].
    injection H as ->. discriminate H20.
  - destruct (parse_expr 20 0 (pr w_neg_force)) as [[e' r']|] eqn:E'; [|discriminate].
    apply (proj1 (fuel_mono 20 f Hge)) in E'. rewrite E' in E. injection E as <- <-.
    destruct r'; [|discriminate]. injection H as ->. discriminate H20.
Qed.

(* the unrestricted statement: every expression the parser can produce survives print + parse *)
Definition roundtrip_statement : Prop :=
  forall src e, parse_fuel (4 * length src + 8) src = Some e ->
  exists f, parse_fuel f (pr e) = Some e.

Theorem roundtrip_statement_refuted : ~ roundtrip_statement.
Proof.
  intros H. destruct (H w_move_cast_src w_move_cast eq_refl) as [f Hf].
  exact (proj2 witness_move_cast f Hf).
Qed.

Theorem roundtrip_partial : forall e, ok e ->
  exists f0, forall f, (f0 <= f)%nat -> parse_fuel f (pr e) = Some e.
Proof.
  intros e H. destruct (print_parse_roundtrip e H) as [f0 Hf]. exists f0. intros f Hle.
  unfold parse_fuel. rewrite (Hf f Hle). reflexivity.
Qed.
