(* C38 — unescape (escape s) = s for strings of Unicode scalar values. *)
From CV Require Import Base.Prelude C38.Str.
From Coq Require Import Lia.

Definition hexchar (c : Z) : Prop := 0 <= parse_hex c < 16.
Definition hval (l : list Z) (a : Z) : Z := fold_left (fun a c => a * 16 + parse_hex c) l a.

Lemma hex_digit_ok : forall d, 0 <= d < 16 -> parse_hex (hex_digit d) = d /\ hex_digit d <> 125.
Proof.
  intros d H. unfold hex_digit, parse_hex.
  destruct (Z.ltb_spec d 10).
  - destruct (Z.leb_spec 48 (48 + d)); destruct (Z.leb_spec (48 + d) 57); cbn [andb];
      first [exfalso; lia | split; lia].
  - destruct (Z.leb_spec 48 (87 + d)); destruct (Z.leb_spec (87 + d) 57); cbn [andb]; try (exfalso; lia);
    destruct (Z.leb_spec 97 (87 + d)); destruct (Z.leb_spec (87 + d) 102); cbn [andb];
      first [exfalso; lia | split; lia].
Qed.

Lemma hval_app : forall l1 l2 a, hval (l1 ++ l2) a = hval l2 (hval l1 a).
Proof. intros. unfold hval. apply fold_left_app. Qed.

Lemma hex_of_spec : forall fuel k r acc,
  0 <= r -> 1 <= k -> r < 16 ^ k -> k <= Z.of_nat fuel ->
  exists ds, hex_of fuel r acc = ds ++ acc /\ hval ds 0 = r /\
             Forall (fun c => hexchar c /\ c <> 125) ds /\ 1 <= Z.of_nat (length ds) <= k.
Proof.
  induction fuel; intros k r acc Hr Hk Hlt Hf; [lia|].
  simpl. destruct (Z.ltb_spec r 16).
  - exists [hex_digit r]. destruct (hex_digit_ok r ltac:(lia)) as [H1 H2].
    split; [reflexivity|]. split; [unfold hval; simpl; lia|]. split; [|simpl; lia].
    constructor; [|constructor]. split; [unfold hexchar; lia|exact H2].
  - assert (Hk2 : 2 <= k).
    { destruct (Z.eq_dec k 1) as [->|]; [simpl in Hlt; lia|lia]. }
    assert (Hdiv : r / 16 < 16 ^ (k - 1)).
    { apply Z.div_lt_upper_bound; [lia|]. replace (16 * 16 ^ (k - 1)) with (16 ^ k); [exact Hlt|].
      replace k with (Z.succ (k - 1)) at 1 by lia. rewrite Z.pow_succ_r by lia. reflexivity. }
    destruct (IHfuel (k - 1) (r / 16) (hex_digit (r mod 16) :: acc)) as (ds & E & Hv & Hall & Hlen);
      try lia; [apply Z.div_pos; lia|].
    pose proof (Z.mod_pos_bound r 16 ltac:(lia)) as Hm.
    destruct (hex_digit_ok (r mod 16) Hm) as [H1 H2].
    exists (ds ++ [hex_digit (r mod 16)]). split; [rewrite E, <- app_assoc; reflexivity|].
    split.
    + rewrite hval_app, Hv. unfold hval. simpl. rewrite H1. pose proof (Z.div_mod r 16 ltac:(lia)). lia.
    + split.
      * apply Forall_app. split; [exact Hall|]. constructor; [|constructor]. split; [unfold hexchar; lia|exact H2].
      * rewrite app_length. simpl. lia.
Qed.

(* the digit loop reads the digits and stops at the closing brace *)
Lemma u_digits_spec : forall ds n di r2 last rest,
  Forall (fun c => hexchar c /\ c <> 125) ds -> (length ds < n)%nat ->
  u_digits n di r2 true last (ds ++ 125 :: rest) = (hval ds r2, di + Z.of_nat (length ds), true, 125, rest).
Proof.
  induction ds as [|c ds IH]; intros n di r2 last rest Hall Hn.
  - destruct n; [simpl in Hn; lia|]. simpl. replace (di + 0) with di by lia. reflexivity.
  - destruct n; [simpl in Hn; lia|]. inversion Hall as [|? ? [Hc Hne] Hall']; subst.
    simpl. destruct (Z.eqb_spec c 125); [contradiction|].
    unfold hexchar in Hc. destruct (Z.ltb_spec (parse_hex c) 0); [lia|].
    rewrite IH; [|exact Hall'|simpl in Hn; lia]. unfold hval. simpl.
    f_equal. f_equal. f_equal. f_equal. lia.
Qed.

Lemma write_rune_scalar : forall r, scalar r -> write_rune r = r.
Proof.
  intros r [H1 H2]. unfold write_rune.
  destruct (Z.ltb_spec r 0); [lia|]. destruct (Z.ltb_spec 1114111 r); [lia|].
  destruct (Z.leb_spec 55296 r); destruct (Z.leb_spec r 57343); simpl; try reflexivity. lia.
Qed.

Lemma unescape_S : forall f s, unescape (S f) s =
    match s with
    | [] => Some []
    | c :: rest =>
      if negb (c =? 92) then option_map (cons c) (unescape f rest)
      else
        match rest with
        | [] => None
        | e :: rest2 =>
          if e =? 48 then option_map (cons 0) (unescape f rest2)
          else if e =? 110 then option_map (cons 10) (unescape f rest2)
          else if e =? 114 then option_map (cons 13) (unescape f rest2)
          else if e =? 116 then option_map (cons 9) (unescape f rest2)
          else if e =? 34 then option_map (cons 34) (unescape f rest2)
          else if e =? 39 then option_map (cons 39) (unescape f rest2)
          else if e =? 92 then option_map (cons 92) (unescape f rest2)
          else if e =? 117 then
            match rest2 with
            | [] => None
            | b :: rest3 =>
              if negb (b =? 123) then None
              else
                let '(r2, di, valid, last, rest4) := u_digits 8 0 0 true (-1) rest3 in
                let closed :=
                  if last =? 125 then Some rest4
                  else match rest4 with
                       | c2 :: rest5 => if c2 =? 125 then Some rest5 else None
                       | [] => None
                       end in
                match closed with
                | None => None
                | Some rest6 =>
                  if negb valid then None
                  else if 0 <? di then option_map (cons (write_rune r2)) (unescape f rest6)
                  else unescape f rest6
                end
            end
          else None
        end
    end.
Proof. reflexivity. Qed.

(* one rune *)
Lemma unescape_rune : forall r rest f, scalar r ->
  unescape (S f) (escape_rune r ++ rest) = option_map (cons r) (unescape f rest).
Proof.
  intros r rest f Hs. rewrite unescape_S. unfold escape_rune.
  destruct (Z.eqb_spec r 0); [subst; reflexivity|].
  destruct (Z.eqb_spec r 10); [subst; reflexivity|].
  destruct (Z.eqb_spec r 13); [subst; reflexivity|].
  destruct (Z.eqb_spec r 9); [subst; reflexivity|].
  destruct (Z.eqb_spec r 92); [subst; reflexivity|].
  destruct (Z.eqb_spec r 34); [subst; reflexivity|].
  destruct ((32 <=? r) && (r <=? 126)) eqn:Ep.
  - cbn [app]. rewrite (proj2 (Z.eqb_neq r 92)) by assumption. reflexivity.
  - (* \u{hex} *)
    destruct Hs as [Hr Hsur].
    destruct (hex_of_spec 16 6 r [] ltac:(lia) ltac:(lia) ltac:(simpl; lia) ltac:(simpl; lia))
      as (ds & E & Hv & Hall & Hlen).
    unfold to_hex. rewrite E, app_nil_r. simpl app. cbn [Z.eqb negb Pos.eqb].
    rewrite <- app_assoc. simpl app.
    rewrite (u_digits_spec ds 8 0 0 (-1) rest Hall ltac:(lia)).
    rewrite Hv. rewrite Z.eqb_refl. cbn [negb].
    destruct (Z.ltb_spec 0 (0 + Z.of_nat (length ds))); [|lia].
    rewrite write_rune_scalar by (split; assumption). reflexivity.
Qed.

Lemma unescape_escape_fuel : forall s f, Forall scalar s -> (length s < f)%nat ->
  unescape f (escape s) = Some s.
Proof.
  induction s as [|r s IH]; intros f Hall Hf.
  - destruct f; [lia|]. reflexivity.
  - destruct f; [simpl in Hf; lia|]. inversion Hall; subst. simpl escape.
    rewrite unescape_rune by assumption. rewrite IH; [reflexivity|assumption|simpl in Hf; lia].
Qed.

Lemma escape_rune_nonempty : forall r, (1 <= length (escape_rune r))%nat.
Proof.
  intros r. unfold escape_rune.
  repeat match goal with |- context [if ?c then _ else _] => destruct c end; simpl; lia.
Qed.

Lemma escape_length : forall s, (length s <= length (escape s))%nat.
Proof.
  induction s; simpl; [lia|]. rewrite app_length. pose proof (escape_rune_nonempty a). lia.
Qed.

Theorem unescape_escape : forall s, Forall scalar s -> unescape_text (escape s) = Some s.
Proof.
  intros s H. unfold unescape_text. apply unescape_escape_fuel; [exact H|].
  pose proof (escape_length s). lia.
Qed.
