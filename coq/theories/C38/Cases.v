(* C38 — case-check functions for the correspondence run. *)
From CV Require Export Base.Prelude C38.Syntax C38.Parser C38.Guards C38.Str.

Definition binop_code (o : binop) : Z :=
  match o with
  | OOr => 0 | OAnd => 1 | OLt => 2 | OLe => 3 | OGt => 4 | OGe => 5 | OEq => 6 | ONe => 7 | ONilC => 8
  | OBitOr => 9 | OBitXor => 10 | OBitAnd => 11 | OShl => 12 | OShr => 13 | OAdd => 14 | OSub => 15
  | OMul => 16 | ODiv => 17 | OMod => 18
  end.
Definition unop_code (o : unop) : Z := match o with UMinus => 0 | UNot => 1 | UMove => 2 | UDeref => 3 end.
Definition castk_code (k : castk) : Z := match k with CAs => 0 | CAsQ => 1 | CAsBang => 2 end.

Fixpoint zlist_eqb (a b : list Z) : bool :=
  match a, b with
  | [], [] => true
  | x :: a', y :: b' => (x =? y) && zlist_eqb a' b'
  | _, _ => false
  end.
Definition ty_eqb (a b : ty) : bool := zlist_eqb (ty_name a) (ty_name b) && (ty_opts a =? ty_opts b).
Definition optz_eqb (a b : option Z) : bool :=
  match a, b with Some x, Some y => x =? y | None, None => true | _, _ => false end.

Fixpoint expr_eqb (a b : expr) {struct a} : bool :=
  match a, b with
  | EId n, EId m => n =? m
  | EInt n, EInt m => n =? m
  | EBool x, EBool y => Bool.eqb x y
  | ENil, ENil => true
  | EStr s, EStr t => zlist_eqb s t
  | EBin o l r, EBin o' l' r' => (binop_code o =? binop_code o') && expr_eqb l l' && expr_eqb r r'
  | EUn o x, EUn o' x' => (unop_code o =? unop_code o') && expr_eqb x x'
  | ECond c t x, ECond c' t' x' => expr_eqb c c' && expr_eqb t t' && expr_eqb x x'
  | ECast k x t, ECast k' x' t' => (castk_code k =? castk_code k') && expr_eqb x x' && ty_eqb t t'
  | EForce x, EForce x' => expr_eqb x x'
  | EMember o x n, EMember o' x' n' => Bool.eqb o o' && expr_eqb x x' && (n =? n')
  | EIndex x i, EIndex x' i' => expr_eqb x x' && expr_eqb i i'
  | EInvoke x args, EInvoke x' args' =>
    expr_eqb x x' &&
    (fix args_eqb (l : list (option Z * expr)) (l' : list (option Z * expr)) : bool :=
       match l, l' with
       | [], [] => true
       | (la, a) :: r, (lb, b') :: r' => optz_eqb la lb && expr_eqb a b' && args_eqb r r'
       | _, _ => false
       end) args args'
  | _, _ => false
  end.

Definition tok_eqb (a b : tok) : bool :=
  match a, b with
  | TId n, TId m => n =? m
  | TInt n, TInt m => n =? m
  | TTrue, TTrue | TFalse, TFalse | TNil, TNil => true
  | TStr s, TStr t => zlist_eqb s t
  | TBin o, TBin o' => binop_code o =? binop_code o'
  | TBang, TBang | TMove, TMove | TQuestion, TQuestion | TColon, TColon
  | TLParen, TLParen | TRParen, TRParen | TLBrack, TLBrack | TRBrack, TRBrack | TComma, TComma
  | TDot, TDot | TQDot, TQDot => true
  | TCast k, TCast k' => castk_code k =? castk_code k'
  | TType t, TType t' => ty_eqb t t'
  | _, _ => false
  end.
Fixpoint toks_eqb (a b : list tok) : bool :=
  match a, b with
  | [], [] => true
  | x :: a', y :: b' => tok_eqb x y && toks_eqb a' b'
  | _, _ => false
  end.

Definition parse_toks (ts : list tok) : option expr :=
  match parse_expr (4 * length ts + 8) 0 ts with
  | Some (e, []) => Some e
  | _ => None
  end.

Definition oexpr_eqb (a b : option expr) : bool :=
  match a, b with Some x, Some y => expr_eqb x y | None, None => true | _, _ => false end.

(* one expression case: the AST the real parser produced for a source (converted to the model);
   the tokens of the real pretty-printed text; the AST the real parser produced for that text
   (None: rejected or outside the modelled forms).
   Checked: model printer = real printer (as tokens); model parser on the printed tokens = real re-parse;
   and, whenever the guard holds, the model round trip closes (the theorem, re-evaluated). *)
Definition expr_case := (expr * list tok * option expr)%type.
Definition check_expr (c : expr_case) : bool :=
  let '(e, obs, re) := c in
  toks_eqb (pr e) obs && oexpr_eqb (parse_toks obs) re &&
  (if okb e then oexpr_eqb (parse_toks (pr e)) (Some e) else true).

(* one string case: value (code points), literal text between the quotes as printed by ast.QuoteString *)
Definition str_case := (list Z * list Z)%type.
Definition oz_eqb (a : option (list Z)) (b : list Z) : bool :=
  match a with Some x => zlist_eqb x b | None => false end.
Definition check_str (c : str_case) : bool :=
  let '(v, text) := c in zlist_eqb (escape v) text && oz_eqb (unescape_text text) v.
