(* C38 — vocabulary of the round-trip theorem: sizes, the right-open level of a printed expression, and
   the guard [ok] that excludes exactly the shapes whose printed form the parser reads differently.
   Definitions only. *)
From CV Require Import Base.Prelude C38.Syntax C38.Parser.

(* printer precedence -> parser binding power of the operators of that precedence *)
Definition pw (p : Z) : Z :=
  if p <=? 11 then 10 * (p + 1)            (* ternary 20 ... multiplication 120 *)
  else if p =? 12 then bpCasting
  else if p =? 13 then bpUnaryPrefix
  else if p =? 14 then bpUnaryPostfix
  else if p =? 15 then bpAccess
  else 1000.

(* left binding power of the top-level infix / postfix operator of e (1000: none, e starts with a null
   denotation that consumes it entirely) *)
Definition lbp_top (e : expr) : Z :=
  match e with
  | EBin o _ _ => bpower o
  | ECond _ _ _ => bpTernary
  | ECast _ _ _ => bpCasting
  | EForce _ => bpUnaryPostfix
  | EMember _ _ _ | EIndex _ _ | EInvoke _ _ => bpAccess
  | _ => 1000
  end.

(* the printed form ends with the operand of a move operator that is still open on the right *)
Fixpoint ends_in_move (e : expr) : bool :=
  match e with
  | EUn UMove _ => true
  | EUn _ x => match x with EUn _ _ => ends_in_move x | _ => false end
  | _ => false
  end.

(* the binding power at which the parser is still reading the right end of the printed form of e:
   a following token with a higher left binding power would be swallowed into e *)
Definition rlevel (e : expr) : Z :=
  match e with
  | EInt z => if z <? 0 then bpUnaryPrefix else 1000
  | EBin o _ _ => if right_assoc o then bpower o - 1 else bpower o
  | EUn _ _ => if ends_in_move e then bpMove else bpUnaryPrefix
  | ECond _ _ _ => 0
  | _ => 1000
  end.

(* operand x is printed without parentheses under a parent of precedence p *)
Definition bare (p : Z) (x : expr) : bool := negb (needs_parens p (prec x)).

(* a bare operand followed by an operator of left binding power l is read back as a unit *)
Definition fits (p l : Z) (x : expr) : Prop := bare p x = true -> l <= rlevel x.

Fixpoint size (e : expr) : nat :=
  match e with
  | EBin _ l r => S (size l + size r)
  | EUn _ x => S (size x)
  | ECond c t x => S (size c + size t + size x)
  | ECast _ x _ => S (size x)
  | EForce x => S (size x)
  | EMember _ x _ => S (size x)
  | EIndex x i => S (size x + size i)
  | EInvoke x args =>
    S (size x + (fix sz (l : list (option Z * expr)) : nat :=
                   match l with [] => O | (_, a) :: r => S (size a + sz r) end) args)
  | _ => 1%nat
  end.

(* the guard: e is in the image of the parser (prefix minus is never left applied to a positive literal)
   and contains none of the shapes that do not survive printing:
     - a cast whose bare operand ends in an open move operand      (`(<-x) as T` prints as `<- x as T`)
     - a postfix operator (force, member, index, call) on a negative literal   (`(-5)!` prints as `-5!`)
     - member access directly on an integer literal: at the token level of this model `5 . x` reads back
       correctly, but the TEXT `5.x` is lexed as a malformed fixed-point literal by the real lexer, so the
       shape is excluded to keep the token abstraction honest (`(5).x` prints as `5.x`) *)
Fixpoint ok (e : expr) : Prop :=
  match e with
  | EBin _ l r => ok l /\ ok r
  | EUn o x => ok x /\ (o = UMinus -> forall z, x = EInt z -> z <= 0)
  | ECond c t x => ok c /\ ok t /\ ok x
  | ECast _ x _ => ok x /\ fits pCasting bpCasting x
  | EForce x => ok x /\ fits pUnaryPostfix bpUnaryPostfix x
  | EMember _ x _ => ok x /\ fits pAccess bpAccess x /\ (forall z, x <> EInt z)
  | EIndex x i => ok x /\ ok i /\ fits pAccess bpAccess x
  | EInvoke x args =>
    ok x /\ fits pAccess bpAccess x /\
    (fix oks (l : list (option Z * expr)) : Prop :=
       match l with [] => True | (_, a) :: r => ok a /\ oks r end) args
  | _ => True
  end.

(* boolean version of the guard, for the correspondence cases *)
Definition fitsb (p l : Z) (x : expr) : bool := negb (bare p x) || (l <=? rlevel x).
Fixpoint okb (e : expr) : bool :=
  match e with
  | EBin _ l r => okb l && okb r
  | EUn o x => okb x && (match o, x with UMinus, EInt z => z <=? 0 | _, _ => true end)
  | ECond c t x => okb c && okb t && okb x
  | ECast _ x _ => okb x && fitsb pCasting bpCasting x
  | EForce x => okb x && fitsb pUnaryPostfix bpUnaryPostfix x
  | EMember _ x _ => okb x && fitsb pAccess bpAccess x && (match x with EInt _ => false | _ => true end)
  | EIndex x i => okb x && okb i && fitsb pAccess bpAccess x
  | EInvoke x args =>
    okb x && fitsb pAccess bpAccess x &&
    (fix oks (l : list (option Z * expr)) : bool :=
       match l with [] => true | (_, a) :: r => okb a && oks r end) args
  | _ => true
  end.

(* the first token of the rest does not continue an expression read at level rbp *)
Definition lbp_of (t : tok) : Z :=
  match t with
  | TBin o => bpower o
  | TQuestion => bpTernary
  | TCast _ => bpCasting
  | TBang => bpUnaryPostfix
  | TDot | TQDot | TLBrack | TLParen => bpAccess
  | _ => 0
  end.
Definition stops (rbp : Z) (rest : list tok) : Prop :=
  match rest with [] => True | t :: _ => lbp_of t <= rbp end.
