(* C38 — expression AST, tokens, and the precedence-aware printer (ast/expression.go Doc methods,
   ast/precedence.go), rendered to a token list (layout and whitespace are not modelled).
   Model definitions only.

   Covered forms: identifiers, integer literals (negative values are produced by the parser's folding of
   `-` applied to a positive literal), bool, nil, string literals, the 19 binary operators, unary
   `-` `!` `<-` `*`, the conditional, the three casts, force unwrap, member access and optional chaining,
   index, invocation with optionally labelled arguments.
   Not covered (real round trip only): fixed-point literals, arrays, dictionaries, paths, create, destroy,
   attach, reference, function expressions, string templates, generic invocations `f<T>(x)` and the
   parser's `<` type-argument look-ahead. *)
From CV Require Import Base.Prelude.

Inductive binop :=
| OOr | OAnd | OLt | OLe | OGt | OGe | OEq | ONe | ONilC | OBitOr | OBitXor | OBitAnd
| OShl | OShr | OAdd | OSub | OMul | ODiv | OMod.
Inductive unop := UMinus | UNot | UMove | UDeref.
Inductive castk := CAs | CAsQ | CAsBang.

(* casting target: a (possibly qualified) nominal type with n optional markers, e.g. A.B?? *)
Record ty := mkTy { ty_name : list Z; ty_opts : Z }.

Inductive expr :=
| EId (n : Z)
| EInt (z : Z)
| EBool (b : bool)
| ENil
| EStr (s : list Z)
| EBin (o : binop) (l r : expr)
| EUn (o : unop) (e : expr)
| ECond (c t e : expr)
| ECast (k : castk) (e : expr) (t : ty)
| EForce (e : expr)
| EMember (opt : bool) (e : expr) (n : Z)
| EIndex (e i : expr)
| EInvoke (e : expr) (args : list (option Z * expr)).

Inductive tok :=
| TId (n : Z)
| TInt (z : Z)                  (* the positive literal *)
| TTrue | TFalse | TNil
| TStr (s : list Z)             (* string literal token, carrying its VALUE (Str.v models the text) *)
| TBin (o : binop)              (* operator token; `-` and `*` are also prefix operators; OShr is `>>` *)
| TBang | TMove
| TQuestion | TColon
| TLParen | TRParen | TLBrack | TRBrack | TComma
| TDot | TQDot
| TCast (k : castk)
| TType (t : ty).

(* ast/precedence.go: expressionPrecedence (regenerated order is checked by the driver) *)
Definition pTernary := 1.
Definition pLogicalOr := 2.
Definition pLogicalAnd := 3.
Definition pComparison := 4.
Definition pNilCoalescing := 5.
Definition pBitwiseOr := 6.
Definition pBitwiseXor := 7.
Definition pBitwiseAnd := 8.
Definition pBitwiseShift := 9.
Definition pAddition := 10.
Definition pMultiplication := 11.
Definition pCasting := 12.
Definition pUnaryPrefix := 13.
Definition pUnaryPostfix := 14.
Definition pAccess := 15.
Definition pLiteral := 16.

(* BinaryExpression.precedence *)
Definition bprec (o : binop) : Z :=
  match o with
  | OOr => pLogicalOr
  | OAnd => pLogicalAnd
  | OEq | ONe | OLt | OLe | OGt | OGe => pComparison
  | ONilC => pNilCoalescing
  | OBitOr => pBitwiseOr
  | OBitXor => pBitwiseXor
  | OBitAnd => pBitwiseAnd
  | OShl | OShr => pBitwiseShift
  | OAdd | OSub => pAddition
  | OMul | ODiv | OMod => pMultiplication
  end.

(* BinaryExpression.IsLeftAssociative *)
Definition left_assoc (o : binop) : bool := match o with ONilC => false | _ => true end.

Definition prec (e : expr) : Z :=
  match e with
  | EId _ | EInt _ | EBool _ | ENil | EStr _ => pLiteral
  | EBin o _ _ => bprec o
  | EUn _ _ => pUnaryPrefix
  | ECond _ _ _ => pTernary
  | ECast _ _ _ => pCasting
  | EForce _ => pUnaryPostfix
  | EMember _ _ _ | EIndex _ _ | EInvoke _ _ => pAccess
  end.

Definition paren_if (b : bool) (ts : list tok) : list tok :=
  if b then TLParen :: ts ++ [TRParen] else ts.

(* parenthesizedExpressionDoc: no parentheses if parent <= sub, nor for a force-unwrap under an access *)
Definition needs_parens (parent sub : Z) : bool :=
  negb (parent <=? sub) && negb ((parent =? pAccess) && (sub =? pUnaryPostfix)).

Definition unop_tok (o : unop) : tok :=
  match o with UMinus => TBin OSub | UNot => TBang | UMove => TMove | UDeref => TBin OMul end.

Fixpoint pr (e : expr) : list tok :=
  match e with
  | EId n => [TId n]
  | EInt z => if z <? 0 then [TBin OSub; TInt (- z)] else [TInt z]
  | EBool true => [TTrue]
  | EBool false => [TFalse]
  | ENil => [TNil]
  | EStr s => [TStr s]
  | EBin o l r =>
    let p := bprec o in
    paren_if (if left_assoc o then prec l <? p else prec l <=? p) (pr l)
    ++ [TBin o]
    ++ paren_if (if left_assoc o then prec r <=? p else prec r <? p) (pr r)
  | EUn o x => unop_tok o :: paren_if (needs_parens pUnaryPrefix (prec x)) (pr x)
  | ECond c t x =>
    paren_if (prec c <=? pTernary) (pr c) ++ [TQuestion]
    ++ paren_if (prec t <=? pTernary) (pr t) ++ [TColon]
    ++ paren_if (prec x <? pTernary) (pr x)
  | ECast k x t => paren_if (needs_parens pCasting (prec x)) (pr x) ++ [TCast k; TType t]
  | EForce x => paren_if (needs_parens pUnaryPostfix (prec x)) (pr x) ++ [TBang]
  | EMember opt x n => paren_if (needs_parens pAccess (prec x)) (pr x) ++ [if opt then TQDot else TDot; TId n]
  | EIndex x i => paren_if (needs_parens pAccess (prec x)) (pr x) ++ [TLBrack] ++ pr i ++ [TRBrack]
  | EInvoke x args =>
    paren_if (needs_parens pAccess (prec x)) (pr x) ++ [TLParen]
    ++ (fix pr_args (l : list (option Z * expr)) : list tok :=
          match l with
          | [] => []
          | (lab, a) :: rest =>
            (match lab with Some n => [TId n; TColon] | None => [] end) ++ pr a
            ++ (match rest with [] => [] | _ => TComma :: pr_args rest end)
          end) args
    ++ [TRParen]
  end.
